(** C04P (sub-check of C04): the persistent-block-list clause of C04 — "the
    region of a released block is not handed out for new data before a state
    file that no longer lists the block has been durably written; once the
    state file has been rewritten the block is allocatable again" — decided on
    the real local.PersistentBlockList + local.PeriodicSyncer.

    Input  : (cfg ops (nregions))
      cfg, ops as in Run/R07.v (op (4 ok): PushBack; ok = 0 makes the allocator
      refuse).  The block allocator of the harness models the accounting of the
      block-DEVICE allocator: regions 0 .. nregions-1 at offsets 100*r (size 100),
      FIFO free list, NewBlock fails with UNAVAILABLE when none is free,
      Block.Release() returns the region (use count 0).  The restored blocks of
      cfg live at distinct regions.
    Observation: ((initevents nfree) (step ...)), one step per op,
      step = (o nfree (event ...)), o = the C07 observation of that step,
      nfree = length of the allocator's free list at quiescence,
      events in the order in which they happened (ONE log):
        (0 id off)              restored block [id] attached at region [off]
        (1 id off)              NewBlock handed region [off] to the new block [id]
        (2 id off uses)         Release() of block [id]; [uses] = use count afterwards
        (3 id off)              PopFront removed block [id]
        (4 n oldest (blk ...))  WritePersistentState call n STARTS with this state,
                                blk = (off writeOffset (seed ...))
        (5 n ok)                call n COMPLETES (ok = 1: nil, 0: error)
      A panic is the observation (-1), a hang (-2). *)
From BBS Require Import Common.Sx Persist.PBL Persist.Syncer Run.R07.
Open Scope Z_scope.

(** ---- the model side: PBL.v / Syncer.v + the allocator's accounting ---- *)
Record ast := mkAst {
  a_x : xst;
  a_free : list Z;             (* free regions (offsets), FIFO *)
  a_ids : list nat;            (* ids of the listed blocks, front first *)
  a_popped : list (nat * Z);   (* every popped block (id, offset), in pop order *)
  a_next : nat                 (* next block id *)
}.

Definition region_offs (n : nat) : list Z := map (fun r => 100 * Z.of_nat r) (seq 0 n).

Definition init_a (inp : sx) : ast * list sx :=
  let c := sx_nth inp 0 in
  let x := init_x c in
  let bl := blocks (s_pbl (x_sys x)) in
  let offs := map (fun b => fst (b_loc b)) bl in
  let free := filter (fun o => negb (zmem o offs)) (region_offs (sx_nat (sx_nth (sx_nth inp 2) 0))) in
  let ids := seq 0 (length bl) in
  (mkAst x free ids [] (length bl),
   map (fun p => L [A 0; of_nat (fst p); A (snd p)]) (combine ids offs)).

Definition x_set_nalloc (x : xst) (n : nat) : xst :=
  mkX (x_sys x) n (x_nseed x) (x_blk x) (x_nwr x) (x_nsy x).

(** one op: new state, result, the op's own event(s) *)
Definition do_op_a (cfg : config) (op : sx) (a : ast) : outcome (ast * sx * list sx) :=
  let x := a_x a in
  let s := x_sys x in
  let p := s_pbl s in
  match sx_Z (sx_nth op 0) with
  | 3 =>
      match blocks p, a_ids a with
      | b :: _, id :: ids' =>
          match env_step cfg x EPopFront with
          | Some (Ok x') =>
              Ok (mkAst x' (a_free a) ids' (a_popped a ++ [(id, fst (b_loc b))]) (a_next a),
                  L [A 1], [L [A 3; of_nat id; A (fst (b_loc b))]])
          | Some Panic => Panic
          | None => Ok (a, L [A 0], [])
          end
      | _, _ => Ok (a, L [A 0], [])
      end
  | 4 =>
      let ok := sx_bool (sx_nth op 1) in
      let alloc := if ok then match a_free a with f :: _ => Some (f, 100) | [] => None end else None in
      match snd (push_back alloc p), alloc with
      | PushOk, Some l =>
          match env_step cfg x (EPushBack alloc) with
          | Some (Ok x') =>
              Ok (mkAst (x_set_nalloc x' (S (x_nalloc x'))) (tl (a_free a)) (a_ids a ++ [a_next a])
                        (a_popped a) (S (a_next a)),
                  L [A 0; A (fst l)], [L [A 1; of_nat (a_next a); A (fst l)]])
          | _ => Panic
          end
      | PushOk, None => Panic
      | PushClosed, _ => Ok (a, L [A 14], [])
      | PushAllocFailed, _ => Ok (a, L [A 14], [])
      end
  | code =>
      let ev := if Z.eqb code 6 then
                  match writer s with
                  | Some _ => [L [A 5; of_nat (x_nwr x); of_bool (sx_bool (sx_nth op 1))]]
                  | None => []
                  end
                else [] in
      match do_op cfg op x with
      | Panic => Panic
      | Ok (x', res) => Ok (mkAst x' (a_free a) (a_ids a) (a_popped a) (a_next a), res, ev)
      end
  end.

Definition writing_state (s : sys) : option pstate :=
  match s_r s, s_p s with
  | RW (WWriting st), _ => Some st
  | _, PW _ (WWriting st) => Some st
  | _, _ => None
  end.

(** what happened while the loops ran to quiescence: Release() calls, then
    possibly the start of a state write *)
Definition after_quiesce (nrel_before nwr_before : nat) (a : ast) (x2 : xst) : ast * list sx :=
  let rl := releasedLog (s_pbl (x_sys x2)) in
  let newrel := skipn nrel_before (firstn (length rl) (a_popped a)) in
  let evr := map (fun p => L [A 2; of_nat (fst p); A (snd p); A 0]) newrel in
  let evw := if (nwr_before <? x_nwr x2)%nat then
               match writing_state (x_sys x2) with
               | Some st => [L [A 4; of_nat (x_nwr x2); of_N (fst st); L (map enc_bstate (snd st))]]
               | None => []
               end
             else [] in
  (mkAst x2 (a_free a ++ map snd newrel) (a_ids a) (a_popped a) (a_next a), evr ++ evw).

Definition enc_step (o : sx) (a : ast) (evs : list sx) : sx :=
  L [o; of_nat (length (a_free a)); L evs].

Fixpoint run_ops_a (cfg : config) (ops : list sx) (hints : list sx) (a : ast) : outcome (list sx) :=
  match ops with
  | [] => Ok []
  | op :: ops' =>
      let h := match hints with h :: _ => hint_rwins (sx_nth h 0) | [] => true end in
      let nrel := length (releasedLog (s_pbl (x_sys (a_x a)))) in
      let nwr := x_nwr (a_x a) in
      match do_op_a cfg op a with
      | Panic => Panic
      | Ok (a1, res, ev1) =>
          match quiesce cfg 64 h (a_x a1) with
          | Panic => Panic
          | Ok x2 =>
              let '(a2, ev2) := after_quiesce nrel nwr a1 x2 in
              match run_ops_a cfg ops' (tl hints) a2 with
              | Panic => Panic
              | Ok r => Ok (enc_step (enc_obs res x2) a2 (ev1 ++ ev2) :: r)
              end
          end
      end
  end.

Definition run04Ph (inp : sx) (hints : list sx) : sx :=
  let cfg := cfg_of (sx_nth inp 0) in
  let '(a0, ev0) := init_a inp in
  match quiesce cfg 64 true (a_x a0) with
  | Panic => L [A (-1)]
  | Ok x0 =>
      let a1 := mkAst x0 (a_free a0) (a_ids a0) (a_popped a0) (a_next a0) in
      match run_ops_a cfg (sx_list (sx_nth inp 1)) hints a1 with
      | Panic => L [A (-1)]
      | Ok r => L [L [L ev0; of_nat (length (a_free a1))]; L r]
      end
  end.

Definition run04P (inp : sx) : sx := run04Ph inp [].

(** ---- the monitor: the clause as a check on the implementation's log ---- *)
Definition natmem (n : nat) (l : list nat) : bool := existsb (Nat.eqb n) l.

Fixpoint nlookup (k : nat) (l : list (nat * nat)) : option nat :=
  match l with
  | [] => None
  | (k', v) :: r => if Nat.eqb k k' then Some v else nlookup k r
  end.

Fixpoint zlookup (k : Z) (l : list (Z * nat)) : option nat :=
  match l with
  | [] => None
  | (k', v) :: r => if Z.eqb k k' then Some v else zlookup k r
  end.

Fixpoint nlookup_w {T} (k : nat) (l : list (nat * T)) : option T :=
  match l with
  | [] => None
  | (k', v) :: r => if Nat.eqb k k' then Some v else nlookup_w k r
  end.

(** a state as the monitor sees it: when its write started (log position) and
    the regions it lists, each with the block occupying the region then *)
Definition wstate : Type := (nat * list (Z * nat))%type.

Definition lists_region (w : wstate) (off : Z) : bool := existsb (fun e => Z.eqb (fst e) off) (snd w).
Definition lists_block (w : wstate) (off : Z) (id : nat) : bool :=
  existsb (fun e => Z.eqb (fst e) off && Nat.eqb (snd e) id) (snd w).

Record pmon := mkPm {
  pm_pos : nat;                        (* log position of the next event (from 1) *)
  pm_occ : list (Z * nat);             (* region -> block that was handed the region last *)
  pm_alloc : list (nat * nat);         (* block -> log position of its allocation (restored: 0) *)
  pm_pop : list (nat * nat);           (* block -> log position of its PopFront *)
  pm_lastpop : option nat;
  pm_rel : list nat;                   (* blocks Release()d so far *)
  pm_cur : list (nat * wstate);        (* state writes in flight, by call number *)
  pm_done : list wstate;               (* state writes that completed successfully *)
  pm_durable : wstate;                 (* the state durably written last *)
  pm_listed : nat;                     (* blocks in the list: handed out and not yet popped *)
  pm_viol : list Z
}.

Definition pm_event (m : pmon) (ev : sx) : pmon :=
  let pos := pm_pos m in
  let id := sx_nat (sx_nth ev 1) in
  let off := sx_Z (sx_nth ev 2) in
  match sx_Z (sx_nth ev 0) with
  | 0 =>
      (* restored: part of the state the list was restored from *)
      mkPm pos ((off, id) :: pm_occ m) ((id, O) :: pm_alloc m) (pm_pop m) (pm_lastpop m) (pm_rel m)
           (pm_cur m) (pm_done m) (fst (pm_durable m), snd (pm_durable m) ++ [(off, id)])
           (S (pm_listed m)) (pm_viol m)
  | 1 =>
      (* clause 1: the state durably written last must not list a block at this
         region, unless the block that held the region last was itself allocated
         after that write started (the entry then is about an earlier block) *)
      let d := pm_durable m in
      let exempt := match zlookup off (pm_occ m) with
                    | Some prev => match nlookup prev (pm_alloc m) with
                                   | Some ap => (fst d <? ap)%nat
                                   | None => false
                                   end
                    | None => false
                    end in
      let v := if lists_region d off && negb exempt then [1] else [] in
      mkPm (S pos) ((off, id) :: pm_occ m) ((id, pos) :: pm_alloc m) (pm_pop m) (pm_lastpop m) (pm_rel m)
           (pm_cur m) (pm_done m) d (S (pm_listed m)) (pm_viol m ++ v)
  | 2 =>
      (* clause 2: only after a state write that started after the block's
         PopFront and does not list it has completed; and only once *)
      let okc := match nlookup id (pm_pop m) with
                 | Some pp => existsb (fun w => (pp <? fst w)%nat && negb (lists_block w off id)) (pm_done m)
                 | None => false
                 end in
      let v := if natmem id (pm_rel m) || negb okc then [2] else [] in
      mkPm (S pos) (pm_occ m) (pm_alloc m) (pm_pop m) (pm_lastpop m) (id :: pm_rel m)
           (pm_cur m) (pm_done m) (pm_durable m) (pm_listed m) (pm_viol m ++ v)
  | 3 =>
      mkPm (S pos) (pm_occ m) (pm_alloc m) ((id, pos) :: pm_pop m) (Some pos) (pm_rel m)
           (pm_cur m) (pm_done m) (pm_durable m) (pred (pm_listed m)) (pm_viol m)
  | 4 =>
      let listed := map (fun b => let o := sx_Z (sx_nth b 0) in
                                  (o, match zlookup o (pm_occ m) with Some i => i | None => O end))
                        (sx_list (sx_nth ev 3)) in
      mkPm (S pos) (pm_occ m) (pm_alloc m) (pm_pop m) (pm_lastpop m) (pm_rel m)
           ((id, (pos, listed)) :: pm_cur m) (pm_done m) (pm_durable m) (pm_listed m) (pm_viol m)
  | 5 =>
      let ok := sx_bool (sx_nth ev 2) in
      let cur' := filter (fun c => negb (Nat.eqb (fst c) id)) (pm_cur m) in
      match nlookup_w id (pm_cur m) with
      | Some w =>
          if ok then
            mkPm (S pos) (pm_occ m) (pm_alloc m) (pm_pop m) (pm_lastpop m) (pm_rel m)
                 cur' (w :: pm_done m) w (pm_listed m) (pm_viol m)
          else
            mkPm (S pos) (pm_occ m) (pm_alloc m) (pm_pop m) (pm_lastpop m) (pm_rel m)
                 cur' (pm_done m) (pm_durable m) (pm_listed m) (pm_viol m)
      | None =>
          mkPm (S pos) (pm_occ m) (pm_alloc m) (pm_pop m) (pm_lastpop m) (pm_rel m)
               cur' (pm_done m) (pm_durable m) (pm_listed m) (pm_viol m)
      end
  | _ => m
  end.

(** clause 3, at a quiescent point (end of a step): when the last PopFront is
    covered by a completed state write (one that started after it), no capacity
    is lost: free regions + listed blocks = all regions *)
Definition pm_quiescent (nregions : nat) (m : pmon) (nfree : nat) : pmon :=
  let covered := match pm_lastpop m with
                 | None => true
                 | Some lp => existsb (fun w => (lp <? fst w)%nat) (pm_done m)
                 end in
  let v := if covered && negb (Nat.eqb (nfree + pm_listed m) nregions) then [3] else [] in
  mkPm (pm_pos m) (pm_occ m) (pm_alloc m) (pm_pop m) (pm_lastpop m) (pm_rel m)
       (pm_cur m) (pm_done m) (pm_durable m) (pm_listed m) (pm_viol m ++ v).

Definition pm_step (nregions : nat) (m : pmon) (step : sx) : pmon :=
  pm_quiescent nregions (fold_left pm_event (sx_list (sx_nth step 2)) m) (sx_nat (sx_nth step 1)).

Definition pm_init : pmon := mkPm 1 [] [] [] None [] [] [] (O, []) O [].

Definition mon04P (inp obs : sx) : list Z :=
  if is_marker obs then [4]
  else
    let nregions := sx_nat (sx_nth (sx_nth inp 2) 0) in
    let i := sx_nth obs 0 in
    let m0 := pm_quiescent nregions (fold_left pm_event (sx_list (sx_nth i 0)) pm_init) (sx_nat (sx_nth i 1)) in
    let m := fold_left (pm_step nregions) (sx_list (sx_nth obs 1)) m0 in
    filter (fun c => zmem c (pm_viol m)) [1; 2; 3; 4].

Definition judge04P (inp obs : sx) : sx :=
  let m := run04Ph inp (sx_list (sx_nth obs 1)) in
  let v := mon04P inp obs in
  verdict (sx_eqb m obs) (negb (match v with [] => true | _ => false end)) m (of_Zs v).
