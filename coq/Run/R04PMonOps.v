(** C04P, "the monitor is silent on the model" — part 3: what [do_op_a] does to
    the block list's release bookkeeping, to the write in flight and to the
    allocator's accounting. *)
From Coq Require Import List NArith ZArith Bool Arith Lia.
From BBS Require Import Common.Sx Persist.PBL Persist.PBLProofs Persist.Syncer Persist.SyncerProofs
  Persist.LiveActs Persist.LiveCover Persist.LiveRelease Run.R07 Run.R04P Run.R07MonBase Run.R07MonOps
  Run.R07MonC123 Run.R07MonCov1 Run.R07MonCov2 Run.R07MonOps2 Run.R07MonCov3 Run.R04PMonTraj.
Import ListNotations.
Local Open Scope nat_scope.

(** ---- the two special branches ---- *)
Definition opa3 (cfg : config) (a : ast) : outcome (ast * sx * list sx) :=
  let x := a_x a in
  match blocks (s_pbl (x_sys x)), a_ids a with
  | b :: _, id :: ids' =>
      match env_step cfg x EPopFront with
      | Some (Ok x') =>
          Ok (mkAst x' (a_free a) ids' (a_popped a ++ [(id, fst (b_loc b))]) (a_next a),
              L [A 1%Z], [L [A 3%Z; of_nat id; A (fst (b_loc b))]])
      | Some Panic => Panic
      | None => Ok (a, L [A 0%Z], [])
      end
  | _, _ => Ok (a, L [A 0%Z], [])
  end.

Definition opa4 (cfg : config) (op : sx) (a : ast) : outcome (ast * sx * list sx) :=
  let x := a_x a in
  let p := s_pbl (x_sys x) in
  let ok := sx_bool (sx_nth op 1) in
  let alloc := if ok then match a_free a with f :: _ => Some (f, 100%Z) | [] => None end else None in
  match snd (push_back alloc p), alloc with
  | PushOk, Some l =>
      match env_step cfg x (EPushBack alloc) with
      | Some (Ok x') =>
          Ok (mkAst (x_set_nalloc x' (S (x_nalloc x'))) (tl (a_free a)) (a_ids a ++ [a_next a])
                    (a_popped a) (S (a_next a)),
              L [A 0%Z; A (fst l)], [L [A 1%Z; of_nat (a_next a); A (fst l)]])
      | _ => Panic
      end
  | PushOk, None => Panic
  | PushClosed, _ => Ok (a, L [A 14%Z], [])
  | PushAllocFailed, _ => Ok (a, L [A 14%Z], [])
  end.

Definition opaX (cfg : config) (op : sx) (a : ast) : outcome (ast * sx * list sx) :=
  let x := a_x a in
  let ev := if Z.eqb (tag op) 6 then
              match writer (x_sys x) with
              | Some _ => [L [A 5%Z; of_nat (x_nwr x); of_bool (sx_bool (sx_nth op 1))]]
              | None => []
              end
            else [] in
  match do_op cfg op x with
  | Panic => Panic
  | Ok (x', res) => Ok (mkAst x' (a_free a) (a_ids a) (a_popped a) (a_next a), res, ev)
  end.

Ltac opa_leaf :=
  first [left; split; reflexivity | right; left; split; reflexivity
        | right; right; split; [lia|split; [lia|reflexivity]]].

Lemma do_op_a_cases cfg op a :
  (tag op = 3%Z /\ do_op_a cfg op a = opa3 cfg a) \/
  (tag op = 4%Z /\ do_op_a cfg op a = opa4 cfg op a) \/
  (tag op <> 3%Z /\ tag op <> 4%Z /\ do_op_a cfg op a = opaX cfg op a).
Proof.
  unfold tag, do_op_a, opaX, tag. destruct (sx_Z (sx_nth op 0)) as [|p|p]; [opa_leaf| |opa_leaf].
  destruct p as [p|p|]; [destruct p as [p|p|]|destruct p as [p|p|]; [|destruct p as [p|p|]|]|]; opa_leaf.
Qed.

(** ---- classes of the loops' positions inside writePersistentState ---- *)
Definition cw (o : option wpc) : option (pstate + unit) :=
  match o with
  | Some (WWriting st) => Some (inl st)
  | Some WWritten => Some (inr tt)
  | _ => None
  end.
Definition wp_r (s : sys) : option wpc := match s_r s with RW w => Some w | _ => None end.
Definition wp_p (s : sys) : option wpc := match s_p s with PW _ w => Some w | _ => None end.

Lemma cw_same s s' : cw (wp_r s') = cw (wp_r s) -> cw (wp_p s') = cw (wp_p s) ->
  writing_state s' = writing_state s /\ wwritten s' = wwritten s.
Proof.
  unfold cw, wp_r, wp_p, writing_state, wwritten.
  destruct (s_r s) as [| |[]]; destruct (s_r s') as [| |[]]; intros H1; try discriminate H1;
    destruct (s_p s) as [| | | | | | | |? []|]; destruct (s_p s') as [| | | | | | | |? []|]; intros H2; try discriminate H2;
    try (inversion H1; subst); try (inversion H2; subst); split; reflexivity.
Qed.

Lemma afin_offs tok blk size seed p p' : apply_act (AFin tok blk size seed) p = Ok p' -> offs p' = offs p.
Proof.
  cbn [apply_act]. destruct (put_finalize tok blk size seed p) as [[p1 fr]|] eqn:E; [|discriminate].
  cbn. intros H; inversion H; subst. eapply fin_offs; eauto.
Qed.

Section Ops.
Variable cfg : config.
Variable alloc : loc -> Z -> bool.
Variable oldest : N.
Variable init : list bstate.
Variable t0 : N.
Notation good := (good cfg alloc oldest init t0).

Lemma quiet_not_wwritten s : good s -> quiet cfg s -> wwritten s = false.
Proof.
  intros G [Qr Qp]. pose proof (good_inv1 _ _ _ _ _ _ G) as II.
  destruct (wwritten s) eqn:E; [exfalso|reflexivity]. unfold wwritten in E.
  destruct (s_r s) as [| |w] eqn:Er.
  1,2: (destruct (s_p s) as [| | | | | | | |k w|] eqn:Ep; try discriminate; destruct w; try discriminate;
        destruct (holder_enabled_p cfg s II) as [H|H]; [unfold p_holds; rewrite Ep; reflexivity| |congruence];
        unfold p_in_io in H; rewrite Ep in H; discriminate).
  destruct w.
  5:{ destruct (s_p s) as [| | | | | | | |k w|] eqn:Ep; try discriminate; destruct w; try discriminate;
      destruct (holder_enabled_p cfg s II) as [H|H]; [unfold p_holds; rewrite Ep; reflexivity| |congruence];
      unfold p_in_io in H; rewrite Ep in H; discriminate. }
  4:{ destruct (holder_enabled_r cfg s II) as [H|H]; [unfold r_holds; rewrite Er; reflexivity| |congruence].
      unfold r_in_io in H. rewrite Er in H. discriminate. }
  all: destruct (s_p s) as [| | | | | | | |k w|] eqn:Ep; try discriminate; destruct w; try discriminate;
    destruct (holder_enabled_p cfg s II) as [H|H]; try (unfold p_holds; rewrite Ep; reflexivity); try congruence;
    unfold p_in_io in H; rewrite Ep in H; discriminate.
Qed.

(** operations other than PopFront / PushBack / completion of a state write
    leave the release bookkeeping, the block regions and the write in flight
    alone *)
Lemma other_ops op x x1 res : good (x_sys x) -> quiet cfg (x_sys x) -> tag op <> 3%Z -> tag op <> 4%Z -> tag op <> 6%Z ->
  tri cfg op x x1 res ->
  offs (s_pbl (x_sys x1)) = offs (s_pbl (x_sys x)) /\ rfields (s_pbl (x_sys x1)) = rfields (s_pbl (x_sys x))
  /\ writing_state (x_sys x1) = writing_state (x_sys x) /\ wwritten (x_sys x1) = wwritten (x_sys x)
  /\ x_nwr x1 = x_nwr x.
Proof.
  intros G Q N3 N4 N6 T. pose proof (good_inv1 _ _ _ _ _ _ G) as II.
  destruct T as [[-> _]|[[e [He [Hs [_ En2]]]]|[t [a [Hth Ht]]]]]; [splits; auto| |].
  - assert (Hne : forall t a, e <> EStep t a) by (intros t a E; subst e; exact He).
    destruct (env_frame cfg _ _ _ Hne Hs) as [Er Ep].
    pose proof (step_act _ _ _ _ Hs) as Ha. pose proof (act_rel _ _ _ Ha) as Fr.
    assert (Hcw : writing_state (x_sys x1) = writing_state (x_sys x) /\ wwritten (x_sys x1) = wwritten (x_sys x)).
    { apply cw_same; unfold wp_r, wp_p; rewrite ?Er, ?Ep; reflexivity. }
    destruct Hcw as [Hc1 Hc2].
    destruct e as [al| |idx size|k blk seed|d| |t a]; cbn [env_ok] in He; cbn [act_of] in Ha, Fr;
      [destruct He as [Hc _]; lia|destruct He as [Hc _]; lia| | | | |destruct He].
    + cbn in Ha. injection Ha as Hp. rewrite <- Hp. splits; auto.
    + destruct (nth_error (s_uploads (x_sys x)) k) as [[[tok sz]|]|] eqn:Eu.
      * destruct Fr as [F1 [F2 [F3 _]]]. splits; auto; [eapply afin_offs; eauto|unfold rfields; congruence].
      * cbn in Ha. injection Ha as Hp. rewrite <- Hp. splits; auto.
      * cbn in Ha. injection Ha as Hp. rewrite <- Hp. splits; auto.
    + cbn in Ha. injection Ha as Hp. rewrite <- Hp. splits; auto.
    + cbn in Ha. injection Ha as Hp. rewrite <- Hp. splits; auto.
  - destruct (tstep_ok _ _ _ _ _ Ht) as [Hs [_ [Hwr _]]].
    destruct (thr_act_none _ _ _ _ _ Hth) as [Han Hng]. rewrite Hng in Hwr.
    pose proof (step_act _ _ _ _ Hs) as Ha. rewrite Han in Ha. cbn in Ha. injection Ha as Hp.
    rewrite <- Hp. split; [reflexivity|]. split; [reflexivity|].
    destruct Hth as [_ [_ Hth]].
    cut (writing_state (x_sys x1) = writing_state (x_sys x) /\ wwritten (x_sys x1) = wwritten (x_sys x));
      [intros [H1 H2]; auto|].
    apply cw_same; destruct t; cbn [step] in Hs.
    + pose proof (rstep_shape _ _ _ _ Hs) as Sh. unfold wp_r. revert Sh.
      destruct Hth as [[E [Et _]]|[[E _]|[_ [_ [[_ [_ [dl Er]]]|[_ [Et _]]]]]]]; try discriminate Et; try lia.
      rewrite Er. intros [[w' [-> ->]]|[Hw _]]; [reflexivity|discriminate Hw].
    + unfold wp_r. rewrite (pstep_frame _ _ _ _ II Hs). reflexivity.
    + unfold wp_p. rewrite (rstep_frame _ _ _ _ II Hs). reflexivity.
    + destruct (pstep_shape _ _ _ _ II Hs) as [_ [_ [Sh _]]]. unfold wp_p. revert Sh.
      destruct Hth as [[_ [_ [Hsyn _]]]|[[E _]|[_ [_ [[_ [Et _]]|[_ [_ [dl [Hat _]]]]]]]]]; try discriminate Et; try lia.
      * unfold is_syncing in Hsyn. destruct (s_p (x_sys x)) as [| | | | |k f| | | |]; try discriminate.
        intros [[_ ->]|[_ ->]]; reflexivity.
      * destruct Hat as [Ep|[[k [f Ep]]|[k Ep]]]; rewrite Ep.
        -- intros [[_ [-> _]]|[-> _]]; reflexivity.
        -- intros ->. reflexivity.
        -- intros [[w' [-> ->]]|[Hw _]]; [reflexivity|discriminate Hw].
Qed.

(** completion of the state write in flight *)
Lemma write_completes op x t : good (x_sys x) -> tag op = 6%Z -> writer (x_sys x) = Some t ->
  exists x1 res, do_op cfg op x = Ok (x1, res) /\ good (x_sys x1)
    /\ s_pbl (x_sys x1) = s_pbl (x_sys x) /\ x_nwr x1 = x_nwr x
    /\ writing_state (x_sys x1) = None /\ wwritten (x_sys x1) = sx_bool (sx_nth op 1).
Proof.
  intros G Hc Hw. pose proof (good_inv1 _ _ _ _ _ _ G) as II.
  destruct (reachable_inv_all _ _ _ _ _ _ (proj1 G)) as [_ [_ [I3 _]]].
  destruct (do_op_cases cfg op x) as [[E _]|[[E _]|[[E _]|[[E _]|[[E _]|[[_ E]|[[E _]|[[E _]|[[E _]|[[E _]|[[E _]|[E _]]]]]]]]]]]];
    try lia.
  rewrite E. unfold op6. cbv zeta. rewrite Hw. unfold d_lift.
  destruct (tstep cfg t _ x) as [[x1|]|] eqn:Et.
  2:{ exfalso. eapply tstep_nopanic; eauto. }
  2:{ exfalso. unfold tstep in Et. destruct (writer_cases _ _ Hw) as [[-> [st Er]]|[-> [k [st Ep]]]];
        cbn [step] in Et; [unfold rstep in Et; rewrite Er in Et|unfold pstep in Et; rewrite Ep in Et];
        cbn in Et; destruct (sx_bool (sx_nth op 1)); discriminate. }
  destruct (tstep_ok _ _ _ _ _ Et) as [Hs [_ [Hwr _]]].
  exists x1, (L [A 1%Z]). split; [reflexivity|]. split; [eapply step_good; eauto|].
  pose proof (step_act _ _ _ _ Hs) as Ha.
  destruct (writer_cases _ _ Hw) as [[-> [st Er]]|[-> [k [st Ep]]]]; cbn [step act_of] in *.
  - rewrite Er in Ha. cbn in Ha. injection Ha as Hp. split; [symmetry; exact Hp|].
    unfold at_getstate in Hwr. rewrite Er in Hwr. split; [exact Hwr|].
    pose proof (rstep_frame _ _ _ _ II Hs) as Epp. pose proof (rstep_shape _ _ _ _ Hs) as Sh. rewrite Er in Sh.
    cbn [a_ok] in Sh.
    assert (Hpn : cw (wp_p (x_sys x)) = None).
    { destruct I3 as [_ I3]. unfold r_holds, p_holds in I3. rewrite Er in I3. cbn in I3. unfold wp_p, cw.
      destruct (s_p (x_sys x)) as [| | | | | | | |k []|]; try reflexivity; cbn in I3; discriminate. }
    unfold writing_state, wwritten. unfold wp_p, cw in Hpn. rewrite Epp.
    destruct Sh as [[w' [-> [[Hok ->]|[Hok ->]]]]|[Hw' _]]; [| |discriminate Hw']; rewrite Hok;
      destruct (s_p (x_sys x)) as [| | | | | | | |k []|]; try discriminate Hpn; split; reflexivity.
  - rewrite Ep in Ha. cbn in Ha. injection Ha as Hp. split; [symmetry; exact Hp|].
    unfold at_getstate in Hwr. rewrite Ep in Hwr. split; [exact Hwr|].
    pose proof (pstep_frame _ _ _ _ II Hs) as Err. destruct (pstep_shape _ _ _ _ II Hs) as [_ [_ [Sh _]]]. rewrite Ep in Sh.
    cbn [a_ok] in Sh.
    assert (Hrn : cw (wp_r (x_sys x)) = None).
    { destruct I3 as [_ I3]. unfold r_holds, p_holds in I3. rewrite Ep in I3. cbn in I3. unfold wp_r, cw.
      destruct (s_r (x_sys x)) as [| |[]]; try reflexivity; cbn in I3; discriminate. }
    unfold writing_state, wwritten. unfold wp_r, cw in Hrn. rewrite Err.
    destruct Sh as [[w' [-> [[Hok ->]|[Hok ->]]]]|[Hw' _]]; [| |discriminate Hw']; rewrite Hok;
      destruct (s_r (x_sys x)) as [| |[]]; try discriminate Hrn; split; reflexivity.
Qed.

End Ops.
