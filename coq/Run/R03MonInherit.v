(** C03, monitor versus model — part 7: obligations inherited over SEVERAL restarts.

    The ghost history of Persist/Shutdown.v starts every incarnation with no acknowledgements, and
    [graceful] / [crash_commit_covers] speak about the acknowledgements made in that incarnation.
    The monitor, however, keeps a copy as an obligation over any number of restarts as long as every
    exit in between was graceful or followed a completed commit.  Here the ghost of the next
    incarnation is STARTED on the acknowledgements the previous one left covered ([inh_list]: those
    whose block was still listed, renumbered relative to the written state), which is sound because a
    covered acknowledgement satisfies the block-list invariant of the restarted list ([G_inherit]).
    All invariants are closed under steps from ANY state that satisfies them, so the theorems of one
    incarnation hold again — now for the inherited acknowledgements too:
    [mon03_obligations_sound_chain]: on every accepted observation in which every restart re-attached
    all blocks of the state file, incarnation after incarnation, whenever the monitor carries its
    obligations on, the state on the medium covers every acknowledgement of this incarnation AND every
    inherited one (unless rotation evicted its block). *)
From Coq Require Import List NArith ZArith Bool Arith Lia.
From BBS Require Import Common.Sx Common.SxFactsMA Persist.PBL Persist.PBLProofs Persist.Syncer Persist.SyncerProofs
  Persist.Shutdown Persist.ShutdownArith Persist.ShutdownProofs Persist.ShutdownOrder Run.R03 Run.R03MonGhost Run.R03MonFields
  Run.R03MonReplay Run.R03Mon Run.R03MonObs.
Import ListNotations.
Local Open Scope nat_scope.

(** ---- inherited acknowledgements ---- *)
Definition inh (w : gwrite) (a : ack) : ack :=
  mkAck (a_abs a - gw_base_abs w) (a_end a) (a_ep a - gw_base_ep w) (a_last a - gw_base_abs w) (a_seed a) (a_ref a).
Definition inh_list (w : gwrite) (l : list ack) : list ack :=
  map (inh w) (filter (fun a => gw_base_abs w <=? a_abs a) l).
Definition g_inh (l : list ack) : gsys := mkGs (mkGp 0 l l l) None None [].

Lemma g_inh_nil : g_inh [] = g0.
Proof. reflexivity. Qed.

Lemma restore_cursors alloc init : forall n bl sd ls, restore_blocks alloc init n = (bl, sd, ls) ->
  Forall (fun b => b_syncing b = b_written b /\ b_synced b = b_written b) bl.
Proof.
  induction init as [|bs rest IH]; intros n bl sd ls H; cbn in H.
  - inversion H. constructor.
  - destruct (alloc _ _); [|inversion H; constructor].
    destruct (restore_blocks alloc rest (S n)) as [[bl' sd'] ls'] eqn:E. inversion H; subst.
    constructor; [cbn; auto|eapply IH; eauto].
Qed.

Lemma restore_full alloc init : forall n bl sd ls, restore_blocks alloc init n = (bl, sd, ls) ->
  length bl = length init -> restore_blocks (fun _ _ => true) init n = (bl, sd, ls).
Proof.
  induction init as [|b rest IH]; intros n bl sd ls H L; cbn in *; [exact H|].
  destruct (alloc _ _).
  - destruct (restore_blocks alloc rest (S n)) as [[bl' sd'] ls'] eqn:E. inversion H; subst. cbn in L.
    rewrite (IH _ _ _ _ E) by lia. reflexivity.
  - inversion H; subst. cbn in L. discriminate.
Qed.

Lemma restart_sync st : synchronizingEpochs (restart_of st) = length (epochSeeds (restart_of st)) /\
                        synchronizedEpochs (restart_of st) = length (epochSeeds (restart_of st)).
Proof. unfold restart_of, pbl_new. destruct (restore_blocks _ _ _) as [[bl sd] ls]. cbn. auto. Qed.

Lemma inh_props o w a l : fst (gw_state w) = u32 (o + N.of_nat (gw_base_ep w)) -> ack_static o a ->
  covers w a -> gw_base_abs w <= a_abs a ->
  ack_live (restart_of (gw_state w)) (mkGp 0 l l l) (inh w a) /\
  ack_syncing (restart_of (gw_state w)) (mkGp 0 l l l) (inh w a) /\
  ack_synced (restart_of (gw_state w)) (mkGp 0 l l l) (inh w a) /\
  ack_static (fst (gw_state w)) (inh w a).
Proof.
  intros Hold Hst [E|[Hge [Hep [Hs [Hl [Hle [b [Hb Hbw]]]]]]]] Hbase; [lia|]. cbn zeta in *.
  set (p := restart_of (gw_state w)) in *.
  destruct (restore_blocks (fun _ _ => true) (snd (gw_state w)) 0) as [[bl sd] ls] eqn:E.
  destruct (restart_shape _ _ _ _ E) as [R1 [R2 [R3 [R4 [R5 R6]]]]]. fold p in R1, R2, R3, R4, R5, R6.
  destruct (restart_sync (gw_state w)) as [Y1 Y2]. fold p in Y1, Y2.
  assert (Hcur : b_syncing b = b_written b /\ b_synced b = b_written b).
  { pose proof (restore_cursors _ _ _ _ _ _ E) as F. rewrite Forall_forall in F. apply F.
    rewrite <- R1. eapply nth_error_In; eauto. }
  assert (Hpos : a_ep a - gw_base_ep w < length (epochSeeds p)) by (apply nth_error_Some; congruence).
  split; [|split; [|split]].
  - constructor; unfold pos; cbn [inh a_abs a_ep a_seed a_last a_end g_pe]; rewrite ?R4, ?Nat.sub_0_r; try lia; auto.
    exists b. auto.
  - right. unfold pos. cbn [inh a_abs a_ep a_end g_pe]. rewrite R4, !Nat.sub_0_r, Y1. split; [exact Hpos|].
    exists b. split; [exact Hb|]. rewrite (proj1 Hcur). exact Hbw.
  - right. unfold pos. cbn [inh a_abs a_ep a_end g_pe]. rewrite R4, !Nat.sub_0_r, Y2. split; [exact Hpos|].
    exists b. split; [exact Hb|]. rewrite (proj2 Hcur). exact Hbw.
  - unfold ack_static in *. cbn [inh a_ref a_ep a_last a_abs]. rewrite Hst, Hold, u32_add_l.
    f_equal; f_equal; lia.
Qed.

Lemma inh_ginv o w A : fst (gw_state w) = u32 (o + N.of_nat (gw_base_ep w)) ->
  Forall (ack_static o) A -> (forall a, In a A -> covers w a) ->
  ginv (fst (gw_state w)) (restart_of (gw_state w)) (mkGp 0 (inh_list w A) (inh_list w A) (inh_list w A)).
Proof.
  intros Hold Hst Hcov.
  assert (Hall : forall a', In a' (inh_list w A) ->
            ack_live (restart_of (gw_state w)) (mkGp 0 (inh_list w A) (inh_list w A) (inh_list w A)) a' /\
            ack_syncing (restart_of (gw_state w)) (mkGp 0 (inh_list w A) (inh_list w A) (inh_list w A)) a' /\
            ack_synced (restart_of (gw_state w)) (mkGp 0 (inh_list w A) (inh_list w A) (inh_list w A)) a' /\
            ack_static (fst (gw_state w)) a').
  { intros a' Hin. unfold inh_list in Hin. apply in_map_iff in Hin. destruct Hin as [a [<- Hin]].
    apply filter_In in Hin. destruct Hin as [Hin Hle]. apply Nat.leb_le in Hle.
    rewrite Forall_forall in Hst. apply (inh_props o); auto. }
  destruct (restart_wf (gw_state w)) as [_ Hel].
  destruct (restore_blocks (fun _ _ => true) (snd (gw_state w)) 0) as [[bl sd] ls] eqn:E.
  destruct (restart_shape _ _ _ _ E) as [_ [_ [_ [_ [R5 _]]]]].
  constructor; cbn [g_pe g_acks g_syncing g_synced].
  - exact Hel.
  - rewrite R5, N.add_0_r. reflexivity.
  - rewrite Forall_forall. intros a' Hin. right. apply (Hall a' Hin).
  - rewrite Forall_forall. intros a' Hin. apply (Hall a' Hin).
  - rewrite Forall_forall. intros a' Hin. apply (Hall a' Hin).
  - rewrite Forall_forall. intros a' Hin. apply (Hall a' Hin).
  - apply incl_refl.
  - apply incl_refl.
Qed.

(** the invariants hold at the start of an incarnation whose ghost is started on inherited acks *)
Lemma G_inherit o w A t0 : fst (gw_state w) = u32 (o + N.of_nat (gw_base_ep w)) ->
  Forall (ack_static o) A -> (forall a, In a A -> covers w a) ->
  G (fst (gw_state w)) (init_sys (restart_of (gw_state w)) t0) (g_inh (inh_list w A)).
Proof.
  intros Hold Hst Hcov.
  assert (Hc : closedForWriting (restart_of (gw_state w)) = false).
  { destruct (restore_blocks (fun _ _ => true) (snd (gw_state w)) 0) as [[bl sd] ls] eqn:E.
    destruct (restart_shape _ _ _ _ E) as [_ [_ [_ [_ [_ R6]]]]]. exact R6. }
  split; [|intros [|] st H; cbn in H; discriminate].
  split; [split; [split; [|split]|split; [|split]]|].
  - unfold restart_of. apply init_inv1.
  - cbn [s_pbl init_sys gs_g g_inh]. apply (inh_ginv o); assumption.
  - unfold wok, g_inh. cbn. auto.
  - apply init_inv3.
  - intros C. cbn [s_pbl init_sys] in C. rewrite Hc in C. discriminate.
  - exact I.
  - unfold ch, pend_ok, g_inh. cbn. splits; auto; apply suffix_refl.
Qed.

Lemma G_fresh st t0 : G (fst st) (init_sys (restart_of st) t0) (g_inh []).
Proof. rewrite g_inh_nil. unfold restart_of. apply G_init. Qed.

(** ---- the end of an incarnation, from the invariants alone ---- *)
Lemma graceful_G o s x : G o s x -> s_p s = PExit ->
  exists w rest, gs_writes x = w :: rest /\ gw_cohort w = g_acks (gs_g x) /\
                 forall a, In a (g_acks (gs_g x)) -> covers w a.
Proof.
  intros [[[[_ [_ W]] [_ [F P]]] _] _] Hp.
  unfold pcinv in P. rewrite Hp in P. specialize (F P). rewrite Hp in F.
  destruct F as [_ [_ [[w [rest [Hw Ha]]] _]]]. exists w, rest. splits; auto.
  intros a Hin. destruct W as [W _]. rewrite Hw in W. apply Forall_inv in W. destruct W as [C _].
  rewrite Forall_forall in C. apply C. unfold all_acked in Ha. rewrite Ha. exact Hin.
Qed.

Lemma crash_covers_G o s x : G o s x ->
  forall w, In w (gs_writes x) -> gw_cohort w = g_acks (gs_g x) ->
  exists w0 rest, gs_writes x = w0 :: rest /\ gw_cohort w0 = g_acks (gs_g x) /\
                  forall a, In a (g_acks (gs_g x)) -> covers w0 a.
Proof.
  intros [[[[_ [_ W]] _] [C1 [C2 [C3 _]]]] _] w Hin Hall.
  destruct (gs_writes x) as [|w0 rest] eqn:Ew; [destruct Hin|]. exists w0, rest. split; [reflexivity|].
  assert (Htop : suffix (gw_cohort w0) (g_acks (gs_g x))).
  { destruct C3 as [C3 _]. eapply suffix_trans; [exact C3|]. eapply suffix_trans; eauto. }
  assert (Hfull : gw_cohort w0 = g_acks (gs_g x)).
  { apply suffix_full; [exact Htop|]. destruct Hin as [->|Hin]; [rewrite Hall; lia|].
    destruct C3 as [_ C3]. pose proof (chain_in _ _ _ C3 Hin) as Hs. apply suffix_length in Hs.
    rewrite Hall in Hs. exact Hs. }
  split; [exact Hfull|]. intros a Ha. destruct W as [W _]. rewrite Ew in W. apply Forall_inv in W. destruct W as [C _].
  rewrite Forall_forall in C. apply C. rewrite Hfull. exact Ha.
Qed.

(** acknowledgements are only ever added *)
Lemma gstep_acks_grow s e s' x : exists pre, g_acks (gs_g (gstep s e s' x)) = pre ++ g_acks (gs_g x).
Proof.
  destruct e as [alloc| |index size|k blk seed|d| |t a];
    try (exists []; apply gstep_acks_same; intros k0 b0 sd0 Hc; discriminate).
  cbn [gstep]. destruct (nth_error _ _) as [[[[|abs] sz]|]|]; try (exists []; reflexivity).
  destruct (put_finalize _ _ _ _ _) as [[p' [off| | |]]|]; try (exists []; reflexivity).
  destruct (mk_ack _ _ _ _) as [a|]; [|exists []; reflexivity]. exists [a]. reflexivity.
Qed.

Lemma gpath_acks_grow cfg P s x s' x' : gpath cfg P s x s' x' -> exists pre, g_acks (gs_g x') = pre ++ g_acks (gs_g x).
Proof.
  induction 1 as [|s x e s1 s' x' _ _ _ [pre IH]]; [exists []; reflexivity|].
  destruct (gstep_acks_grow s e s1 x) as [pre1 H1]. exists (pre ++ pre1). rewrite IH, H1, app_assoc. reflexivity.
Qed.

(** ---- the state a restart restores is what NewPersistentBlockList makes of the state file ---- *)
Lemma list_eqb_eq {A} (f : A -> A -> bool) : (forall a b, f a b = true -> a = b) ->
  forall l1 l2, list_eqb f l1 l2 = true -> l1 = l2.
Proof.
  intros Hf. induction l1 as [|x l1 IH]; intros [|y l2] H; cbn in H; try discriminate; [reflexivity|].
  apply andb_prop in H. destruct H as [H1 H2]. rewrite (Hf _ _ H1), (IH _ H2). reflexivity.
Qed.

Lemma of_Ns_inj : forall l1 l2, of_Ns l1 = of_Ns l2 -> l1 = l2.
Proof.
  unfold of_Ns. intros l1 l2 H. inversion H as [H1]. clear H. revert l2 H1.
  induction l1 as [|x l1 IH]; intros [|y l2] H; cbn in H; try discriminate; [reflexivity|].
  inversion H as [[Hx Hl]]. apply N2Z.inj in Hx. subst. f_equal. apply IH. exact Hl.
Qed.

Lemma bstate_eqb_eq a b : bstate_eqb a b = true -> a = b.
Proof.
  destruct a as [[a1 a2] ao as_], b as [[b1 b2] bo bs_]. unfold bstate_eqb, loc_eqb. cbn [bs_loc bs_off bs_seeds fst snd].
  intros H. apply andb_prop in H. destruct H as [H H3]. apply andb_prop in H. destruct H as [H H2].
  apply andb_prop in H. destruct H as [H0 H1].
  apply Z.eqb_eq in H0, H1, H2. apply sx_eqb_eq, of_Ns_inj in H3. subst. reflexivity.
Qed.

Lemma pstate_eqb_eq a b : pstate_eqb a b = true -> a = b.
Proof.
  destruct a as [a1 a2], b as [b1 b2]. unfold pstate_eqb. cbn. intros H. apply andb_prop in H.
  destruct H as [H1 H2]. apply N.eqb_eq in H1. apply (list_eqb_eq _ bstate_eqb_eq) in H2. subst. reflexivity.
Qed.

(** the restore entry says that every block of the state file was re-attached *)
Definition all_restored (e0 : sx) : bool :=
  Nat.eqb (sx_nat (sx_nth e0 1)) (length (sx_list (sx_nth (sx_nth e0 2) 1))).

Lemma restore_is_restart c cfg bs st0 now e0 x0 : replay_restore c cfg bs st0 now e0 = Some x0 ->
  all_restored e0 = true ->
  tag e0 = 0%Z /\ x_state x0 = st0 /\ x_sys x0 = init_sys (restart_of st0) now.
Proof.
  unfold replay_restore, all_restored. cbv zeta.
  destruct (negb (Z.eqb (tag e0) 0)) eqn:T; cbn [orb]; [discriminate|].
  destruct (pstate_eqb _ st0) eqn:Eq; cbn [negb]; [|discriminate]. apply pstate_eqb_eq in Eq.
  match goal with |- context [pbl_new ?a ?b ?c] => set (al := a) end.
  rewrite Eq. intros H Hall. apply Nat.eqb_eq in Hall.
  assert (Hlen : length (snd st0) = length (sx_list (sx_nth (sx_nth e0 2) 1))).
  { rewrite <- Eq. unfold dec_state. cbn [snd]. apply map_length. }
  unfold pbl_new in H. destruct (restore_blocks al (snd st0) 0) as [[bl sd] ls] eqn:E. cbn [new_nc] in H.
  match type of H with match ?g with _ => _ end = _ => destruct g as [[p' view]|] eqn:Eg; [|discriminate] end.
  match type of H with (if ?c then _ else _) = _ => destruct c eqn:C; [|discriminate] end.
  inversion H; subst x0. cbn [x_sys x_state].
  apply andb_prop in C. destruct C as [C _]. apply andb_prop in C. destruct C as [C _]. apply Nat.eqb_eq in C.
  assert (Hfull : restore_blocks (fun _ _ => true) (snd st0) 0 = (bl, sd, ls)).
  { apply (restore_full al); [exact E|]. cbn [ch_next] in C. lia. }
  split; [apply Bool.negb_false_iff, Z.eqb_eq in T; exact T|]. split; [reflexivity|].
  assert (Hp : restart_of st0 = mkPbl false bl sd ls 0 (u32 (fst st0)) (length sd) (length sd)
                 (mkNchan 0 true) [] 0 (mkNchan 1 true) (mkChans 2 []) []).
  { unfold restart_of, pbl_new. rewrite Hfull. reflexivity. }
  rewrite Hp. f_equal.
  unfold get_persistent_state in Eg. cbn in Eg. destruct (gps_loop _ _ _ _); cbn in Eg; [|discriminate].
  inversion Eg. reflexivity.
Qed.

(** ---- one incarnation, started on inherited acknowledgements ---- *)
Lemma incarnation_from o cfg bs cfgsx objs ops st0 m0 e0 es x0 x1 A :
  G o (x_sys x0) (g_inh A) -> x_state x0 = st0 -> tag e0 = 0%Z -> m_fresh m0 ->
  replay_entries cfg bs 1 x0 es = (x1, []) ->
  exists gx, G o (x_sys x1) gx /\
    (exists tr, grun cfg (x_sys x0) (g_inh A) tr = Some (Ok (x_sys x1, gx))) /\
    (exists pre, g_acks (gs_g gx) = pre ++ A) /\
    (m_prev (mon_exit (fold_left (mon_entry cfgsx objs ops) (e0 :: es) m0)) <> 0%Z ->
       exists w rest, gs_writes gx = w :: rest /\ x_state x1 = gw_state w /\
                      gw_cohort w = g_acks (gs_g gx) /\
                      forall a, In a (g_acks (gs_g gx)) -> covers w a).
Proof.
  intros Hg0 Hst T0 Hf He. cbn [fold_left].
  pose proof (J_restore_entry cfgsx objs ops m0 e0 (x_sys x0) (g_inh A) T0 Hf) as Hj0.
  assert (Hk0 : K st0 x0 (g_inh A)) by (unfold K; cbn; exact Hst).
  destruct (entries_inv o cfg bs cfgsx objs ops st0 es 1 _ x0 x1 (g_inh A) Hg0 Hj0 Hk0 He) as [gx [Hp [Hj Hk]]].
  assert (Hg : G o (x_sys x1) gx) by (eapply G_gpath; eauto).
  exists gx. split; [exact Hg|]. split; [eapply gpath_grun; eauto|].
  split; [apply (gpath_acks_grow _ _ _ _ _ _ Hp)|].
  set (m1 := fold_left _ es _) in *.
  assert (Hfin : (exists w rest, gs_writes gx = w :: rest /\ gw_cohort w = g_acks (gs_g gx) /\
                   forall a, In a (g_acks (gs_g gx)) -> covers w a) ->
                 exists w rest, gs_writes gx = w :: rest /\ x_state x1 = gw_state w /\
                   gw_cohort w = g_acks (gs_g gx) /\ forall a, In a (g_acks (gs_g gx)) -> covers w a).
  { intros [w [rest [Hw [Hc Ha]]]]. exists w, rest. unfold K in Hk. rewrite Hw in Hk. auto. }
  unfold mon_exit. cbn [m_prev]. destruct (m_exited m1) eqn:Ex.
  - intros _. apply Hfin. apply (graceful_G o _ _ Hg). apply (j_e _ _ _ _ _ _ _ _ _ _ Hj Ex).
  - destruct (Nat.ltb_spec (m_lastput m1) (m_commit m1)) as [L|L]; [|intros Hc; exfalso; apply Hc; reflexivity].
    intros _. apply Hfin. destruct (j_p4 _ _ _ _ _ _ _ _ _ _ Hj L) as [w [Hin Hc]].
    eapply crash_covers_G; eauto.
Qed.

(** ---- at every reachable state, every acknowledgement the ghost carries (inherited ones included)
    is evicted or its index record resolves ---- *)
Lemma u32_idem a : u32 (u32 a) = u32 a.
Proof. unfold u32. apply N.mod_mod. discriminate. Qed.

Lemma live_record_resolves o p g a : ginv o p g -> ack_live p g a -> ack_static o a ->
  (N.of_nat (a_ep a - g_pe g) < 2 ^ 32)%N -> (Z.of_nat (a_last a - a_abs a) < 2 ^ 16)%Z ->
  ref_to_index (fst (a_ref a)) (snd (a_ref a)) p = Ok (Some (a_abs a - totalReleased p, a_seed a)).
Proof.
  intros Gi [Hge Hep Hs Hl Hle _] Hst H32 H16. unfold pos in *.
  unfold ack_static in Hst. rewrite Hst. cbn [fst snd]. unfold ref_to_index.
  rewrite (gi_old _ _ _ Gi), <- (u32_idem (o + N.of_nat (g_pe g))), u32_diff by assumption.
  rewrite Nat2N.id, Hl, Hs.
  assert (nth_error (epochSeeds p) (a_ep a - g_pe g) <> None) as Hn by congruence.
  apply nth_error_Some in Hn.
  destruct (N.leb_spec (N.of_nat (length (epochSeeds p))) (N.of_nat (a_ep a - g_pe g))); [lia|].
  rewrite u16_small by lia.
  destruct (Z.ltb_spec (Z.of_nat (a_last a) - Z.of_nat (totalReleased p))
                       (Z.of_N (Z.to_N (Z.of_nat (a_last a) - Z.of_nat (a_abs a))))); [lia|].
  repeat f_equal. lia.
Qed.

Definition acks_resolve (s : sys) (gx : gsys) : Prop :=
  forall a, In a (g_acks (gs_g gx)) ->
    (N.of_nat (a_ep a - g_pe (gs_g gx)) < 2 ^ 32)%N -> (Z.of_nat (a_last a - a_abs a) < 2 ^ 16)%Z ->
    a_abs a < totalReleased (s_pbl s) \/
    (ref_to_index (fst (a_ref a)) (snd (a_ref a)) (s_pbl s)
       = Ok (Some (a_abs a - totalReleased (s_pbl s), a_seed a)) /\
     exists b, nth_error (blocks (s_pbl s)) (a_abs a - totalReleased (s_pbl s)) = Some b /\
               (a_end a <= b_written b)%Z).

Lemma G_acks_resolve o s gx : G o s gx -> acks_resolve s gx.
Proof.
  intros [[[[_ [Gi _]] _] _] _] a Hin H32 H16.
  pose proof (gi_acks _ _ _ Gi) as F. rewrite Forall_forall in F.
  pose proof (gi_static _ _ _ Gi) as S. rewrite Forall_forall in S.
  destruct (F a Hin) as [E|L]; [left; exact E|right]. split.
  - eapply live_record_resolves; eauto.
  - destruct L. assumption.
Qed.

Lemma replay_entries_app cfg bs : forall es1 es2 n x x2, replay_entries cfg bs n x (es1 ++ es2) = (x2, []) ->
  exists x1, replay_entries cfg bs n x es1 = (x1, []) /\ replay_entries cfg bs (n + length es1) x1 es2 = (x2, []).
Proof.
  induction es1 as [|e es1 IH]; intros es2 n x x2 H; cbn [app replay_entries length] in *.
  - exists x. rewrite Nat.add_0_r. auto.
  - destruct (replay_entry cfg bs x e) as [x'|]; [|discriminate].
    destruct (IH _ _ _ _ H) as [x1 [H1 H2]]. exists x1. split; [exact H1|].
    replace (n + S (length es1)) with (S n + length es1) by lia. exact H2.
Qed.

(** ---- all incarnations ---- *)
Definition next_acks (prev : Z) (gx : gsys) : list ack :=
  if Z.eqb prev 0 then [] else
  match gs_writes gx with w :: _ => inh_list w (g_acks (gs_g gx)) | [] => [] end.

Fixpoint chain_sound (cfgsx objs c : sx) (cfg : config) (bs : Z) (incs hists : list sx) (m : mst)
    (st0 : pstate) (now : N) (A : list ack) : Prop :=
  match incs, hists with
  | inc :: incs', h :: hists' =>
      match sx_list h with
      | e0 :: es =>
          exists x1 gx,
            (* the incarnation is a run of the model from NewPersistentBlockList(st0) + NewPeriodicSyncer,
               the ghost started on the inherited acknowledgements A *)
            (exists tr, grun cfg (init_sys (restart_of st0) now) (g_inh A) tr = Some (Ok (x_sys x1, gx))) /\
            (exists pre, g_acks (gs_g gx) = pre ++ A) /\
            (* at EVERY point of the incarnation's history: every acknowledgement made so far or inherited
               is evicted (its block was rotated out) or its index record resolves on the current list *)
            (forall es1 es2, es = es1 ++ es2 ->
               exists x0 x' gx', replay_restore c cfg bs st0 now e0 = Some x0 /\
                 replay_entries cfg bs 1 x0 es1 = (x', []) /\
                 (exists tr, grun cfg (init_sys (restart_of st0) now) (g_inh A) tr = Some (Ok (x_sys x', gx'))) /\
                 (exists pre, g_acks (gs_g gx') = pre ++ A) /\ acks_resolve (x_sys x') gx') /\
            let m1 := fold_left (mon_entry cfgsx objs (sx_list (sx_nth inc 1))) (e0 :: es) m in
            (m_prev (mon_exit m1) <> 0%Z ->
               exists w rest, gs_writes gx = w :: rest /\ x_state x1 = gw_state w /\
                              gw_cohort w = g_acks (gs_g gx) /\
                              forall a, In a (g_acks (gs_g gx)) -> covers w a) /\
            chain_sound cfgsx objs c cfg bs incs' hists' (mon_exit m1) (x_state x1) (s_now (x_sys x1))
                        (next_acks (m_prev (mon_exit m1)) gx)
      | [] => False
      end
  | _, _ => True
  end.

Definition all_restored_h (h : sx) : bool :=
  match sx_list h with e0 :: _ => all_restored e0 | [] => true end.

Lemma incs_chain_sound cfgsx objs c cfg bs : forall hists incs m inc st0 now A,
  m_fresh m -> G (fst st0) (init_sys (restart_of st0) now) (g_inh A) ->
  forallb all_restored_h hists = true ->
  replay_hists c cfg bs inc st0 now hists = [] ->
  chain_sound cfgsx objs c cfg bs incs hists m st0 now A.
Proof.
  induction hists as [|h hs IH]; intros [|ic incs] m inc st0 now A Hf Hg Hall Hr; cbn [chain_sound]; auto.
  destruct (replay_hists_cons _ _ _ _ _ _ _ _ Hr) as [e0 [es [x0 [x1 [Eh [R0 [R1 R2]]]]]]].
  cbn [forallb] in Hall. apply andb_prop in Hall. destruct Hall as [Ha1 Ha2].
  unfold all_restored_h in Ha1. rewrite Eh in *.
  destruct (restore_is_restart _ _ _ _ _ _ _ R0 Ha1) as [T0 [Hst Hx0]].
  rewrite <- Hx0 in Hg.
  destruct (incarnation_from (fst st0) cfg bs cfgsx objs (sx_list (sx_nth ic 1)) st0 m e0 es x0 x1 A
              Hg Hst T0 Hf R1) as [gx [Hg1 [Hrun [Hgrow Hob]]]].
  exists x1, gx. rewrite <- Hx0. split; [exact Hrun|]. split; [exact Hgrow|]. split.
  { intros es1 es2 Hsplit. rewrite Hsplit in R1. destruct (replay_entries_app _ _ _ _ _ _ _ R1) as [x' [R1a _]].
    destruct (incarnation_from (fst st0) cfg bs cfgsx objs (sx_list (sx_nth ic 1)) st0 m e0 es1 x0 x' A
                Hg Hst T0 Hf R1a) as [gx' [Hg' [Hrun' [Hgrow' _]]]].
    exists x0, x', gx'. split; [exact R0|]. split; [exact R1a|]. split; [exact Hrun'|]. split; [exact Hgrow'|].
    eapply G_acks_resolve; eauto. }
  cbv zeta. split; [exact Hob|].
  set (m1 := fold_left _ (e0 :: es) m) in *.
  apply (IH incs (mon_exit m1) (S inc)); [apply mon_exit_fresh| |exact Ha2|exact R2].
  unfold next_acks. destruct (Z.eqb_spec (m_prev (mon_exit m1)) 0) as [E|N]; [apply G_fresh|].
  destruct (Hob N) as [w [rest [Hw [Hxs [Hc Hcov]]]]]. rewrite Hw, Hxs.
  destruct Hg1 as [[[[I1 [Gi [Wk _]]] R] Ch] Ps].
  apply (G_inherit (fst st0)).
  - rewrite Hw in Wk. apply Forall_inv in Wk. destruct Wk as [_ [_ Wk]]. exact Wk.
  - apply (gi_static _ _ _ Gi).
  - exact Hcov.
Qed.

Theorem mon03_obligations_sound_chain inp obs : replay03 inp obs = [] ->
  forallb all_restored_h (sx_list obs) = true ->
  let c := sx_nth inp 0 in
  chain_sound c (sx_nth inp 1) c (mkConfig (sx_N (sx_nth c 9)) (sx_N (sx_nth c 10))) (sx_Z (sx_nth c 0))
              (sx_list (sx_nth inp 2)) (sx_list obs) m_init init_pstate 0%N [].
Proof.
  intros Hr Hall c. eapply incs_chain_sound; [apply m_init_fresh|apply G_fresh|exact Hall|exact Hr].
Qed.
