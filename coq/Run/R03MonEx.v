(** C03, monitor versus model — two observations of the REAL code (harness/c03.go on the unchanged
    tree, inputs 3 and 5 of corpus/C03/directed.case), used as non-vacuity witnesses of the theorems of
    Run/R03MonObs.v in Props/C03.v:
      [exg]: a graceful shutdown (one upload acknowledged, one refused after the final sync began),
             then a second incarnation that reads everything back;
      [exc]: a process crash after a completed commit, three incarnations. *)
From BBS Require Import Common.Sx.
Open Scope Z_scope.
Definition exg_inp : sx := L [L [A 64; A 1; A 2; A 2; A 0; A 2; A 1; A 1; A 4; A 10; A 7; A 0; A 127]; L [L [A 0; A 
20; A 121; A 66; A 189; A 242; A 33; A 6; A 240; A 132; A 119; A 98; A 240; A 243; A 203; A 77; A 118; A 77; A 199; A 
7]; L [A 1; A 24; A 32; A 81; A 21; A 154; A 15; A 137; A 242; A 198; A 218; A 202; A 227; A 68; A 187; A 49; A 18; A 
69; A 253; A 111; A 132; A 223; A 154; A 215]; L [A 2; A 18; A 197; A 179; A 208; A 118; A 172; A 14; A 143; A 83; A 
167; A 53; A 108; A 136; A 145; A 63; A 32; A 246]; L [A 3; A 30; A 247; A 45; A 176; A 34; A 210; A 77; A 10; A 150; 
A 218; A 212; A 60; A 22; A 23; A 193; A 169; A 142; A 120; A 18; A 158; A 3; A 39; A 55; A 16; A 101; A 208; A 149; 
A 134; A 79]; L [A 4; A 12; A 21; A 173; A 160; A 184; A 70; A 193; A 192; A 235; A 197; A 52]; L [A 5; A 22; A 138; 
A 220; A 121; A 154; A 223; A 132; A 155; A 173; A 5; A 212; A 161; A 10; A 192; A 68; A 30; A 170; A 238; A 180; A 
180; A 142]]; L [L [A 0; L [L [A 1; A 0; A 0]; L [A 4; A 0]; L [A 13]; L [A 1; A 1; A 0]; L [A 11]; L [A 7; A 1]; L 
[A 7; A 1]; L [A 4; A 1]; L [A 8; A 1]; L [A 1; A 0; A 1]; L [A 4; A 0]]]; L [A 0; L []]]].
Definition exg_obs : sx := L [L [L [A 0; A 0; L [A 1; L []]; L []; L [A 1; L []]; A 0]; L [A 5; A 0; A 0]; L [A 5; A 
1; A 0]; L [A 20; L [A 0]; L [A 0]]; L [A 19; A 0]; L [A 1; A 0; A 0]; L [A 1; A 0; A 64]; L [A 1; A 0; A 128]; L [A 
1; A 0; A 192]; L [A 3; A 0; A 20]; L [A 30; A 0; L [A 1]]; L [A 20; L [A 0]; L [A 0]]; L [A 19; A 1]; L [A 4; A 0; A 
0; A 0; A 1; A 3; A 1000]; L [A 30; A 1; L [A 0; A 0; A 1; A 0]]; L [A 14; A 1; A 10; A 0]; L [A 20; L [A 0]; L [A 2; 
A 10; A 0]]; L [A 19; A 2]; L [A 30; A 2; L [A 5]]; L [A 20; L [A 0]; L [A 2; A 10; A 0]]; L [A 16; A 10]; L [A 20; L 
[A 0]; L [A 2; A 10; A 0]]; L [A 15; A 1; A 10]; L [A 8; A 0]; L [A 10; A 1]; L [A 20; L [A 0]; L [A 3; A 1]]; L [A 
11; A 1]; L [A 9]; L [A 6; A 1; A 1; L [L [A 0; A 20; L []]; L [A 64; A 0; L []]; L [A 128; A 0; L []]; L [A 192; A 
0; L [A 1000]]]]; L [A 12; A 1; A 1; A 1; L [L [A 0; A 20; L []]; L [A 64; A 0; L []]; L [A 128; A 0; L []]; L [A 
192; A 0; L [A 1000]]]]; L [A 20; L [A 0]; L [A 1; A 1]]; L [A 13; A 1; A 1]; L [A 7; A 1]; L [A 5; A 1; A 0]; L [A 
20; L [A 0]; L [A 0]]; L [A 19; A 3]; L [A 30; A 3; L [A 1]]; L [A 20; L [A 0]; L [A 0]]; L [A 19; A 4]; L [A 30; A 
4; L [A 5]]; L [A 17]; L [A 8; A 0]; L [A 10; A 2]; L [A 20; L [A 0]; L [A 3; A 2]]; L [A 19; A 5]; L [A 30; A 5; L 
[A 5]]; L [A 11; A 1]; L [A 9]; L [A 8; A 1]; L [A 10; A 3]; L [A 20; L [A 0]; L [A 3; A 3]]; L [A 19; A 6]; L [A 30; 
A 6; L [A 5]]; L [A 11; A 1]; L [A 9]; L [A 6; A 1; A 1; L [L [A 0; A 20; L []]; L [A 64; A 0; L []]; L [A 128; A 0; 
L []]; L [A 192; A 0; L [A 1000]]]]; L [A 12; A 1; A 2; A 1; L [L [A 0; A 20; L []]; L [A 64; A 0; L []]; L [A 128; A 
0; L []]; L [A 192; A 0; L [A 1000]]]]; L [A 20; L [A 0]; L [A 1; A 2]]; L [A 19; A 7]; L [A 30; A 7; L [A 0; A 0; A 
1; A 0]]; L [A 20; L [A 0]; L [A 1; A 2]]; L [A 19; A 8]; L [A 30; A 8; L [A 5]]; L [A 13; A 1; A 1]; L [A 7; A 1]; L 
[A 18]; L [A 20; L [A 0]; L [A 4]]; L [A 19; A 9]; L [A 3; A 0; A 24]; L [A 4; A 1; A 1; A 14]; L [A 30; A 9; L [A 0; 
A 14; A 0; A 1]]; L [A 20; L [A 0]; L [A 4]]; L [A 19; A 10]; L [A 30; A 10; L [A 3]]; L [A 20; L [A 0]; L [A 4]]]; L 
[L [A 0; A 4; L [A 1; L [L [A 0; A 20; L []]; L [A 64; A 0; L []]; L [A 128; A 0; L []]; L [A 192; A 0; L [A 
1000]]]]; L [A 1; A 1; A 1; A 1]; L [A 1; L [L [A 0; A 20; L []]; L [A 64; A 0; L []]; L [A 128; A 0; L []]; L [A 
192; A 0; L [A 1000]]]]; A 0]; L [A 5; A 1; A 0]; L [A 5; A 0; A 0]; L [A 20; L [A 0]; L [A 0]]; L [A 19; A (-1)]; L 
[A 20; L [A 0]; L [A 0]]; L [A 20; L [A 0]; L [A 0]]; L [A 32; A 0; A 0; A 0; A 0; L [A 0; A 20; A 121; A 66; A 189; 
A 242; A 33; A 6; A 240; A 132; A 119; A 98; A 240; A 243; A 203; A 77; A 118; A 77; A 199; A 7]]; L [A 20; L [A 0]; 
L [A 0]]; L [A 20; L [A 0]; L [A 0]]; L [A 32; A 1; A 0; A 1; A 5; L []]; L [A 20; L [A 0]; L [A 0]]; L [A 20; L [A 
0]; L [A 0]]; L [A 32; A 2; A 0; A 1; A 5; L []]; L [A 20; L [A 0]; L [A 0]]; L [A 20; L [A 0]; L [A 0]]; L [A 32; A 
3; A 0; A 1; A 5; L []]; L [A 20; L [A 0]; L [A 0]]; L [A 20; L [A 0]; L [A 0]]; L [A 32; A 4; A 0; A 1; A 5; L []]; 
L [A 20; L [A 0]; L [A 0]]; L [A 20; L [A 0]; L [A 0]]; L [A 32; A 5; A 0; A 1; A 5; L []]]].
Definition exc_inp : sx := L [L [A 48; A 1; A 1; A 2; A 0; A 1; A 0; A 0; A 16; A 0; A 3; A 0; A 61]; L [L [A 0; A 
20; A 121; A 66; A 189; A 242; A 33; A 6; A 240; A 132; A 119; A 98; A 240; A 243; A 203; A 77; A 118; A 77; A 199; A 
7]; L [A 1; A 24; A 32; A 81; A 21; A 154; A 15; A 137; A 242; A 198; A 218; A 202; A 227; A 68; A 187; A 49; A 18; A 
69; A 253; A 111; A 132; A 223; A 154; A 215]; L [A 2; A 18; A 197; A 179; A 208; A 118; A 172; A 14; A 143; A 83; A 
167; A 53; A 108; A 136; A 145; A 63; A 32; A 246]; L [A 3; A 30; A 247; A 45; A 176; A 34; A 210; A 77; A 10; A 150; 
A 218; A 212; A 60; A 22; A 23; A 193; A 169; A 142; A 120; A 18; A 158; A 3; A 39; A 55; A 16; A 101; A 208; A 149; 
A 134; A 79]; L [A 4; A 12; A 21; A 173; A 160; A 184; A 70; A 193; A 192; A 235; A 197; A 52]; L [A 5; A 22; A 138; 
A 220; A 121; A 154; A 223; A 132; A 155; A 173; A 5; A 212; A 161; A 10; A 192; A 68; A 30; A 170; A 238; A 180; A 
180; A 142]]; L [L [A 0; L [L [A 1; A 0; A 0]; L [A 4; A 0]; L [A 1; A 0; A 1]; L [A 4; A 0]; L [A 13]]]; L [A 2; L 
[L [A 1; A 0; A 2]; L [A 4; A 0]; L [A 13]; L [A 1; A 0; A 3]; L [A 4; A 0]]]; L [A 0; L []]]].
Definition exc_obs : sx := L [L [L [A 0; A 0; L [A 1; L []]; L []; L [A 1; L []]; A 0]; L [A 5; A 0; A 0]; L [A 5; A 
1; A 0]; L [A 20; L [A 0]; L [A 0]]; L [A 19; A 0]; L [A 1; A 0; A 0]; L [A 1; A 0; A 48]; L [A 1; A 0; A 96]; L [A 
3; A 0; A 20]; L [A 30; A 0; L [A 1]]; L [A 20; L [A 0]; L [A 0]]; L [A 19; A 1]; L [A 4; A 0; A 0; A 0; A 1; A 2; A 
1000]; L [A 30; A 1; L [A 0; A 0; A 1; A 0]]; L [A 14; A 1; A 0; A 0]; L [A 20; L [A 0]; L [A 2; A 0; A 0]]; L [A 19; 
A 2]; L [A 3; A 0; A 24]; L [A 30; A 2; L [A 1]]; L [A 20; L [A 0]; L [A 2; A 0; A 0]]; L [A 19; A 3]; L [A 4; A 1; A 
0; A 20; A 1; A 2; A 1000]; L [A 30; A 3; L [A 0; A 0; A 1; A 1]]; L [A 20; L [A 0]; L [A 2; A 0; A 0]]; L [A 19; A 
4]; L [A 30; A 4; L [A 5]]; L [A 20; L [A 0]; L [A 2; A 0; A 0]]; L [A 15; A 1; A 0]; L [A 8; A 0]; L [A 10; A 1]; L 
[A 20; L [A 0]; L [A 3; A 1]]; L [A 11; A 1]; L [A 9]; L [A 6; A 1; A 1; L [L [A 0; A 44; L []]; L [A 48; A 0; L []]; 
L [A 96; A 0; L [A 1000]]]]; L [A 12; A 1; A 1; A 1; L [L [A 0; A 44; L []]; L [A 48; A 0; L []]; L [A 96; A 0; L [A 
1000]]]]; L [A 20; L [A 0]; L [A 1; A 1]]; L [A 13; A 1; A 1]; L [A 7; A 1]; L [A 5; A 1; A 0]; L [A 20; L [A 0]; L 
[A 0]]]; L [L [A 0; A 3; L [A 1; L [L [A 0; A 44; L []]; L [A 48; A 0; L []]; L [A 96; A 0; L [A 1000]]]]; L [A 1; A 
1; A 1]; L [A 1; L [L [A 0; A 44; L []]; L [A 48; A 0; L []]; L [A 96; A 0; L [A 1000]]]]; A 0]; L [A 5; A 1; A 0]; L 
[A 5; A 0; A 0]; L [A 20; L [A 0]; L [A 0]]; L [A 19; A (-1)]; L [A 20; L [A 0]; L [A 0]]; L [A 20; L [A 0]; L [A 
0]]; L [A 32; A 0; A 0; A 0; A 0; L [A 0; A 20; A 121; A 66; A 189; A 242; A 33; A 6; A 240; A 132; A 119; A 98; A 
240; A 243; A 203; A 77; A 118; A 77; A 199; A 7]]; L [A 20; L [A 0]; L [A 0]]; L [A 20; L [A 0]; L [A 0]]; L [A 32; 
A 1; A 0; A 0; A 0; L [A 1; A 24; A 32; A 81; A 21; A 154; A 15; A 137; A 242; A 198; A 218; A 202; A 227; A 68; A 
187; A 49; A 18; A 69; A 253; A 111; A 132; A 223; A 154; A 215]]; L [A 20; L [A 0]; L [A 0]]; L [A 20; L [A 0]; L [A 
0]]; L [A 32; A 2; A 0; A 1; A 5; L []]; L [A 20; L [A 0]; L [A 0]]; L [A 20; L [A 0]; L [A 0]]; L [A 32; A 3; A 0; A 
1; A 5; L []]; L [A 20; L [A 0]; L [A 0]]; L [A 20; L [A 0]; L [A 0]]; L [A 32; A 4; A 0; A 1; A 5; L []]; L [A 20; L 
[A 0]; L [A 0]]; L [A 20; L [A 0]; L [A 0]]; L [A 32; A 5; A 0; A 1; A 5; L []]; L [A 19; A 0]; L [A 3; A 1; A 18]; L 
[A 30; A 0; L [A 1]]; L [A 20; L [A 0]; L [A 0]]; L [A 19; A 1]; L [A 4; A 0; A 0; A 0; A 2; A 1; A 1001]; L [A 30; A 
1; L [A 0; A 0; A 1; A 2]]; L [A 14; A 1; A 0; A 0]; L [A 20; L [A 0]; L [A 2; A 0; A 0]]; L [A 19; A 2]; L [A 30; A 
2; L [A 5]]; L [A 20; L [A 0]; L [A 2; A 0; A 0]]; L [A 15; A 1; A 0]; L [A 8; A 0]; L [A 10; A 1]; L [A 20; L [A 0]; 
L [A 3; A 1]]; L [A 11; A 1]; L [A 9]; L [A 6; A 1; A 1; L [L [A 0; A 44; L []]; L [A 48; A 18; L []]; L [A 96; A 0; 
L [A 1000; A 1001]]]]; L [A 12; A 1; A 1; A 1; L [L [A 0; A 44; L []]; L [A 48; A 18; L []]; L [A 96; A 0; L [A 1000; 
A 1001]]]]; L [A 20; L [A 0]; L [A 1; A 1]]; L [A 13; A 1; A 1]; L [A 7; A 1]; L [A 5; A 1; A 0]; L [A 20; L [A 0]; L 
[A 0]]; L [A 19; A 3]; L [A 3; A 1; A 30]; L [A 30; A 3; L [A 1]]; L [A 20; L [A 0]; L [A 0]]; L [A 19; A 4]; L [A 4; 
A 1; A 0; A 18; A 3; A 1; A 1002]; L [A 30; A 4; L [A 0; A 0; A 1; A 3]]; L [A 14; A 1; A 0; A 0]; L [A 20; L [A 0]; 
L [A 2; A 0; A 0]]]; L [L [A 0; A 3; L [A 1; L [L [A 0; A 44; L []]; L [A 48; A 18; L []]; L [A 96; A 0; L [A 1000; A 
1001]]]]; L [A 1; A 1; A 1]; L [A 1; L [L [A 0; A 44; L []]; L [A 48; A 18; L []]; L [A 96; A 0; L [A 1000; A 
1001]]]]; A 0]; L [A 5; A 0; A 0]; L [A 5; A 1; A 0]; L [A 20; L [A 0]; L [A 0]]; L [A 19; A (-1)]; L [A 20; L [A 0]; 
L [A 0]]; L [A 20; L [A 0]; L [A 0]]; L [A 32; A 0; A 0; A 0; A 0; L [A 0; A 20; A 121; A 66; A 189; A 242; A 33; A 
6; A 240; A 132; A 119; A 98; A 240; A 243; A 203; A 77; A 118; A 77; A 199; A 7]]; L [A 20; L [A 0]; L [A 0]]; L [A 
20; L [A 0]; L [A 0]]; L [A 32; A 1; A 0; A 0; A 0; L [A 1; A 24; A 32; A 81; A 21; A 154; A 15; A 137; A 242; A 198; 
A 218; A 202; A 227; A 68; A 187; A 49; A 18; A 69; A 253; A 111; A 132; A 223; A 154; A 215]]; L [A 20; L [A 0]; L 
[A 0]]; L [A 20; L [A 0]; L [A 0]]; L [A 32; A 2; A 0; A 0; A 0; L [A 2; A 18; A 197; A 179; A 208; A 118; A 172; A 
14; A 143; A 83; A 167; A 53; A 108; A 136; A 145; A 63; A 32; A 246]]; L [A 20; L [A 0]; L [A 0]]; L [A 20; L [A 0]; 
L [A 0]]; L [A 32; A 3; A 0; A 1; A 5; L []]; L [A 20; L [A 0]; L [A 0]]; L [A 20; L [A 0]; L [A 0]]; L [A 32; A 4; A 
0; A 1; A 5; L []]; L [A 20; L [A 0]; L [A 0]]; L [A 20; L [A 0]; L [A 0]]; L [A 32; A 5; A 0; A 1; A 5; L []]]].

(** [exg] with ONE op result altered by hand (the result of the refused upload, entry (30 9 ...), from
    UNAVAILABLE to OK): NOT an observation of the code; the replay ignores op results and still accepts it. *)
Definition exb_obs : sx := L [L [L [A 0; A 0; L [A 1; L []]; L []; L [A 1; L []]; A 0]; L [A 5; A 0; A 0]; L [A 5; A 
1; A 0]; L [A 20; L [A 0]; L [A 0]]; L [A 19; A 0]; L [A 1; A 0; A 0]; L [A 1; A 0; A 64]; L [A 1; A 0; A 128]; L [A 
1; A 0; A 192]; L [A 3; A 0; A 20]; L [A 30; A 0; L [A 1]]; L [A 20; L [A 0]; L [A 0]]; L [A 19; A 1]; L [A 4; A 0; A 
0; A 0; A 1; A 3; A 1000]; L [A 30; A 1; L [A 0; A 0; A 1; A 0]]; L [A 14; A 1; A 10; A 0]; L [A 20; L [A 0]; L [A 2; 
A 10; A 0]]; L [A 19; A 2]; L [A 30; A 2; L [A 5]]; L [A 20; L [A 0]; L [A 2; A 10; A 0]]; L [A 16; A 10]; L [A 20; L 
[A 0]; L [A 2; A 10; A 0]]; L [A 15; A 1; A 10]; L [A 8; A 0]; L [A 10; A 1]; L [A 20; L [A 0]; L [A 3; A 1]]; L [A 
11; A 1]; L [A 9]; L [A 6; A 1; A 1; L [L [A 0; A 20; L []]; L [A 64; A 0; L []]; L [A 128; A 0; L []]; L [A 192; A 
0; L [A 1000]]]]; L [A 12; A 1; A 1; A 1; L [L [A 0; A 20; L []]; L [A 64; A 0; L []]; L [A 128; A 0; L []]; L [A 
192; A 0; L [A 1000]]]]; L [A 20; L [A 0]; L [A 1; A 1]]; L [A 13; A 1; A 1]; L [A 7; A 1]; L [A 5; A 1; A 0]; L [A 
20; L [A 0]; L [A 0]]; L [A 19; A 3]; L [A 30; A 3; L [A 1]]; L [A 20; L [A 0]; L [A 0]]; L [A 19; A 4]; L [A 30; A 
4; L [A 5]]; L [A 17]; L [A 8; A 0]; L [A 10; A 2]; L [A 20; L [A 0]; L [A 3; A 2]]; L [A 19; A 5]; L [A 30; A 5; L 
[A 5]]; L [A 11; A 1]; L [A 9]; L [A 8; A 1]; L [A 10; A 3]; L [A 20; L [A 0]; L [A 3; A 3]]; L [A 19; A 6]; L [A 30; 
A 6; L [A 5]]; L [A 11; A 1]; L [A 9]; L [A 6; A 1; A 1; L [L [A 0; A 20; L []]; L [A 64; A 0; L []]; L [A 128; A 0; 
L []]; L [A 192; A 0; L [A 1000]]]]; L [A 12; A 1; A 2; A 1; L [L [A 0; A 20; L []]; L [A 64; A 0; L []]; L [A 128; A 
0; L []]; L [A 192; A 0; L [A 1000]]]]; L [A 20; L [A 0]; L [A 1; A 2]]; L [A 19; A 7]; L [A 30; A 7; L [A 0; A 0; A 
1; A 0]]; L [A 20; L [A 0]; L [A 1; A 2]]; L [A 19; A 8]; L [A 30; A 8; L [A 5]]; L [A 13; A 1; A 1]; L [A 7; A 1]; L 
[A 18]; L [A 20; L [A 0]; L [A 4]]; L [A 19; A 9]; L [A 3; A 0; A 24]; L [A 4; A 1; A 1; A 14]; L [A 30; A 9; L [A 0; 
A 0; A 1; A 1]]; L [A 20; L [A 0]; L [A 4]]; L [A 19; A 10]; L [A 30; A 10; L [A 3]]; L [A 20; L [A 0]; L [A 4]]]; L 
[L [A 0; A 4; L [A 1; L [L [A 0; A 20; L []]; L [A 64; A 0; L []]; L [A 128; A 0; L []]; L [A 192; A 0; L [A 
1000]]]]; L [A 1; A 1; A 1; A 1]; L [A 1; L [L [A 0; A 20; L []]; L [A 64; A 0; L []]; L [A 128; A 0; L []]; L [A 
192; A 0; L [A 1000]]]]; A 0]; L [A 5; A 1; A 0]; L [A 5; A 0; A 0]; L [A 20; L [A 0]; L [A 0]]; L [A 19; A (-1)]; L 
[A 20; L [A 0]; L [A 0]]; L [A 20; L [A 0]; L [A 0]]; L [A 32; A 0; A 0; A 0; A 0; L [A 0; A 20; A 121; A 66; A 189; 
A 242; A 33; A 6; A 240; A 132; A 119; A 98; A 240; A 243; A 203; A 77; A 118; A 77; A 199; A 7]]; L [A 20; L [A 0]; 
L [A 0]]; L [A 20; L [A 0]; L [A 0]]; L [A 32; A 1; A 0; A 1; A 5; L []]; L [A 20; L [A 0]; L [A 0]]; L [A 20; L [A 
0]; L [A 0]]; L [A 32; A 2; A 0; A 1; A 5; L []]; L [A 20; L [A 0]; L [A 0]]; L [A 20; L [A 0]; L [A 0]]; L [A 32; A 
3; A 0; A 1; A 5; L []]; L [A 20; L [A 0]; L [A 0]]; L [A 20; L [A 0]; L [A 0]]; L [A 32; A 4; A 0; A 1; A 5; L []]; 
L [A 20; L [A 0]; L [A 0]]; L [A 20; L [A 0]; L [A 0]]; L [A 32; A 5; A 0; A 1; A 5; L []]]].

(** [exg] with the read-back of key 0 in the second incarnation altered by hand from "readable, right bytes"
    to NOT_FOUND: NOT an observation of the code; the replay ignores read-back entries and still accepts it. *)
Definition exr_obs : sx := L [L [L [A 0; A 0; L [A 1; L []]; L []; L [A 1; L []]; A 0]; L [A 5; A 0; A 0]; L [A 5; A 
1; A 0]; L [A 20; L [A 0]; L [A 0]]; L [A 19; A 0]; L [A 1; A 0; A 0]; L [A 1; A 0; A 64]; L [A 1; A 0; A 128]; L [A 
1; A 0; A 192]; L [A 3; A 0; A 20]; L [A 30; A 0; L [A 1]]; L [A 20; L [A 0]; L [A 0]]; L [A 19; A 1]; L [A 4; A 0; A 
0; A 0; A 1; A 3; A 1000]; L [A 30; A 1; L [A 0; A 0; A 1; A 0]]; L [A 14; A 1; A 10; A 0]; L [A 20; L [A 0]; L [A 2; 
A 10; A 0]]; L [A 19; A 2]; L [A 30; A 2; L [A 5]]; L [A 20; L [A 0]; L [A 2; A 10; A 0]]; L [A 16; A 10]; L [A 20; L 
[A 0]; L [A 2; A 10; A 0]]; L [A 15; A 1; A 10]; L [A 8; A 0]; L [A 10; A 1]; L [A 20; L [A 0]; L [A 3; A 1]]; L [A 
11; A 1]; L [A 9]; L [A 6; A 1; A 1; L [L [A 0; A 20; L []]; L [A 64; A 0; L []]; L [A 128; A 0; L []]; L [A 192; A 
0; L [A 1000]]]]; L [A 12; A 1; A 1; A 1; L [L [A 0; A 20; L []]; L [A 64; A 0; L []]; L [A 128; A 0; L []]; L [A 
192; A 0; L [A 1000]]]]; L [A 20; L [A 0]; L [A 1; A 1]]; L [A 13; A 1; A 1]; L [A 7; A 1]; L [A 5; A 1; A 0]; L [A 
20; L [A 0]; L [A 0]]; L [A 19; A 3]; L [A 30; A 3; L [A 1]]; L [A 20; L [A 0]; L [A 0]]; L [A 19; A 4]; L [A 30; A 
4; L [A 5]]; L [A 17]; L [A 8; A 0]; L [A 10; A 2]; L [A 20; L [A 0]; L [A 3; A 2]]; L [A 19; A 5]; L [A 30; A 5; L 
[A 5]]; L [A 11; A 1]; L [A 9]; L [A 8; A 1]; L [A 10; A 3]; L [A 20; L [A 0]; L [A 3; A 3]]; L [A 19; A 6]; L [A 30; 
A 6; L [A 5]]; L [A 11; A 1]; L [A 9]; L [A 6; A 1; A 1; L [L [A 0; A 20; L []]; L [A 64; A 0; L []]; L [A 128; A 0; 
L []]; L [A 192; A 0; L [A 1000]]]]; L [A 12; A 1; A 2; A 1; L [L [A 0; A 20; L []]; L [A 64; A 0; L []]; L [A 128; A 
0; L []]; L [A 192; A 0; L [A 1000]]]]; L [A 20; L [A 0]; L [A 1; A 2]]; L [A 19; A 7]; L [A 30; A 7; L [A 0; A 0; A 
1; A 0]]; L [A 20; L [A 0]; L [A 1; A 2]]; L [A 19; A 8]; L [A 30; A 8; L [A 5]]; L [A 13; A 1; A 1]; L [A 7; A 1]; L 
[A 18]; L [A 20; L [A 0]; L [A 4]]; L [A 19; A 9]; L [A 3; A 0; A 24]; L [A 4; A 1; A 1; A 14]; L [A 30; A 9; L [A 0; 
A 14; A 0; A 1]]; L [A 20; L [A 0]; L [A 4]]; L [A 19; A 10]; L [A 30; A 10; L [A 3]]; L [A 20; L [A 0]; L [A 4]]]; L 
[L [A 0; A 4; L [A 1; L [L [A 0; A 20; L []]; L [A 64; A 0; L []]; L [A 128; A 0; L []]; L [A 192; A 0; L [A 
1000]]]]; L [A 1; A 1; A 1; A 1]; L [A 1; L [L [A 0; A 20; L []]; L [A 64; A 0; L []]; L [A 128; A 0; L []]; L [A 
192; A 0; L [A 1000]]]]; A 0]; L [A 5; A 1; A 0]; L [A 5; A 0; A 0]; L [A 20; L [A 0]; L [A 0]]; L [A 19; A (-1)]; L 
[A 20; L [A 0]; L [A 0]]; L [A 20; L [A 0]; L [A 0]]; L [A 32; A 0; A 0; A 1; A 5; L []]; L [A 20; L [A 0]; L [A 0]]; 
L [A 20; L [A 0]; L [A 0]]; L [A 32; A 1; A 0; A 1; A 5; L []]; L [A 20; L [A 0]; L [A 0]]; L [A 20; L [A 0]; L [A 
0]]; L [A 32; A 2; A 0; A 1; A 5; L []]; L [A 20; L [A 0]; L [A 0]]; L [A 20; L [A 0]; L [A 0]]; L [A 32; A 3; A 0; A 
1; A 5; L []]; L [A 20; L [A 0]; L [A 0]]; L [A 20; L [A 0]; L [A 0]]; L [A 32; A 4; A 0; A 1; A 5; L []]; L [A 20; L 
[A 0]; L [A 0]]; L [A 20; L [A 0]; L [A 0]]; L [A 32; A 5; A 0; A 1; A 5; L []]]].
