(** C10 monitor: hierarchical CAS visibility. *)
From BBS Require Import Common.Sx Store.Model Run.RStore Run.R01.
Open Scope Z_scope.

(** clause 1/2/3 of C01 (content, provenance under an ancestor name, no
    integrity error) plus: 4 = an object uploaded under I is NOT_FOUND under a
    descendant J although no block was released or quarantined since. *)
Record m10 := {
  h_puts : list (nat * (nat * nat));
  h_ups : list ((nat * nat) * (N * N));    (* successful upload (obj, inst) with (released, tbr) at that time *)
  h_viol : list Z;
}.

Definition m10_step (w : world) (m : m10) (x : op * (state * state * out) * sx) : m10 :=
  let '(e, (s0, s1, mo), o) := x in
  match e with
  | OPutStart tid ob i =>
      if Z.eqb (ob_kind o) 1 then {| h_puts := (tid, (ob, i)) :: h_puts m; h_ups := h_ups m; h_viol := h_viol m |} else m
  | OPutChunk tid _ | OPutEnd tid _ =>
      if Z.eqb (ob_kind o) 0 then
        match assoc (h_puts m) tid with
        | Some oi => {| h_puts := unassoc (h_puts m) tid;
                        h_ups := if ob_ok o then (oi, (s_released s1, s_tbr s1)) :: h_ups m else h_ups m;
                        h_viol := h_viol m |}
        | None => m
        end
      else m
  | OGetOpen tid ob i =>
      if Z.eqb (ob_kind o) 0 && Z.eqb (ob_code o) cNotFound
         && existsb (fun '((ob', i'), (r, t)) =>
                       Nat.eqb ob ob' && existsb (Nat.eqb i') (ancestors w i)
                       && N.eqb r (s_released s1) && N.eqb t (s_tbr s1)) (h_ups m)
      then {| h_puts := h_puts m; h_ups := h_ups m; h_viol := h_viol m ++ [4] |} else m
  | _ => m
  end.

Definition mon10 (inp obs : sx) : list Z :=
  let w := dec_world inp in
  let es := dec_ops inp in
  let sts := run_states w (init_state (w_cfg w)) es in
  dedupZ (mon01 inp obs ++
          (if c_hier (w_cfg w) then
             h_viol (fold_left (m10_step w) (combine (combine es sts) (sx_list obs))
                               {| h_puts := []; h_ups := []; h_viol := [] |})
           else [])).

Definition judge10 (inp obs : sx) : sx := judge_store mon10 inp obs.
