(** C16N — the monitor on the model's own observation.  [mon16N inp (run16N inp)]
    contains no clause other than 2 (clause 2, "the outermost handler's error
    is the consumer's result", is not covered by a theorem) for every input of
    [dom16N]: every plain buffer of the tree carries the object, readers that
    attach EOF to data have clean scripts, the buffer handed to the consumer is
    wrapped, the model run did not offer its out-of-fuel marker to a handler,
    final error codes are positive, the observed tree is within the decoder's
    depth bound. *)
From Coq Require Import List ZArith NArith Bool Lia.
From BBS Require Import Common.Sx Buffer.Source Buffer.Validate Buffer.Convert Buffer.ErrHandler
  Buffer.StreamProofs Buffer.ValidateProofs Buffer.ConvertProofs Buffer.C09FullMonitor
  Buffer.EHFullCarry Buffer.EHFullExact Buffer.EHFullPrefix Buffer.EHFullMonS
  Buffer.EHNest Buffer.EHNestCarry Buffer.EHNestRules Run.R09 Run.R16 Run.R16N.
Import ListNotations.
Open Scope Z_scope.

(** * Induction on observed trees *)
Section OtreeInd.
  Variable P : otree -> Prop.
  Hypothesis Hleaf : forall n, P (OLeaf n).
  Hypothesis Hnode : forall offs d kids, Forall P kids -> P (ONode offs d kids).
  Fixpoint otree_ind2 (o : otree) : P o :=
    match o with
    | OLeaf n => Hleaf n
    | ONode offs d kids =>
        Hnode offs d kids
          ((fix go (l : list otree) : Forall P l :=
              match l with
              | [] => Forall_nil P
              | x :: r => Forall_cons x (otree_ind2 x) (go r)
              end) kids)
    end.
End OtreeInd.

Fixpoint odepth (o : otree) : nat :=
  match o with
  | OLeaf _ => 1%nat
  | ONode _ _ kids => S (fold_right (fun k n => Nat.max (odepth k) n) 0%nat kids)
  end.

Lemma code_of_eq e : R16.code_of e = sx_Z (enc_err e).
Proof. destruct e; reflexivity. Qed.

Lemma dec_enc_otree : forall o n, (odepth o <= n)%nat -> dec_ctree n (enc_otree o) = codes_of o.
Proof.
  induction o as [k|offs d kids IH] using otree_ind2; intros n Hn.
  - destruct n as [|n]; [cbn in Hn; lia|]. reflexivity.
  - destruct n as [|n]; [cbn in Hn; lia|]. cbn [enc_otree dec_ctree codes_of]. unfold of_nat. cbn iota.
    f_equal.
    + unfold sx_Zs. cbn [sx_list]. rewrite map_map. apply map_ext. intros e. symmetry. apply code_of_eq.
    + cbn [odepth] in Hn. apply le_S_n in Hn. rewrite map_map.
      induction kids as [|k kids IHk]; [reflexivity|]. cbn [map fold_right] in *.
      inversion IH as [|x l Hx Hl]; subst. f_equal.
      * apply Hx. lia.
      * apply IHk; [exact Hl|lia].
Qed.

Lemma t_done1_codes : forall o, t_done1 (codes_of o) = od1 o.
Proof.
  induction o as [k|offs d kids IH] using otree_ind2; [reflexivity|].
  cbn [codes_of t_done1 od1]. f_equal.
  - destruct d as [|[|d]]; try reflexivity. cbn [Nat.eqb]. apply Z.eqb_neq. lia.
  - induction kids as [|k kids IHk]; [reflexivity|].
    inversion IH as [|x l Hx Hl]; subst. cbn [map forallb]. rewrite Hx, (IHk Hl). reflexivity.
Qed.

(** * The model's out-of-fuel marker among the offers *)
Fixpoint nofuel (o : ctree) : bool :=
  match o with
  | TLeaf _ => true
  | TNode offs _ kids => forallb (fun e => negb (e =? -3)) offs && forallb nofuel kids
  end.

Lemma fin_no_ex s t o e : e <> -3 -> fin exf s t o e = fin no_ex s t o e.
Proof. intros Hne. unfold fin, exf, no_ex. apply Z.eqb_neq in Hne. rewrite Hne. reflexivity. Qed.

Lemma chk_walk_no_ex s :
  (forall t o, chk exf s t o = true -> nofuel o = true -> chk no_ex s t o = true) /\
  (forall ans fe fe' offers kids,
     forallb (fun e => negb (e =? -3)) offers = true -> forallb nofuel kids = true ->
     (forall e, e <> -3 -> fe e = fe' e) ->
     walk exf s ans fe offers kids = true -> walk no_ex s ans fe' offers kids = true).
Proof.
  apply nbuf_nanss_ind.
  - intros b o Hc _. destruct o; [reflexivity|discriminate].
  - intros inner IHi ans IHa o Hc Hn. destruct o as [|offers d kids]; [discriminate|].
    destruct kids as [|o0 kids]; [discriminate|]. cbn [chk] in *. cbn [nofuel forallb] in Hn.
    apply andb_true_iff in Hc. destruct Hc as (Hc1 & Hc2).
    apply andb_true_iff in Hn. destruct Hn as (Hn1 & Hn2). apply andb_true_iff in Hn2. destruct Hn2 as (Hn2 & Hn3).
    rewrite (IHi _ Hc1 Hn2). cbn [andb].
    eapply IHa; [exact Hn1|exact Hn3| |exact Hc2]. intros e He. apply fin_no_ex. exact He.
  - intros fe fe' offers kids Ho Hk Hfe Hw. destruct offers as [|e offers]; [exact Hw|].
    cbn [walk forallb] in *. apply andb_true_iff in Ho. destruct Ho as (He & Ho).
    apply negb_true_iff, Z.eqb_neq in He.
    apply andb_true_iff in Hw. destruct Hw as (Hw1 & Hw2). rewrite <- (Hfe _ He), Hw1. cbn [andb].
    apply andb_true_iff in Hw2. destruct Hw2 as (Hw2 & Hw3). rewrite Hw3, andb_true_r.
    clear -Ho Hfe Hw2. induction offers as [|x l IH]; [reflexivity|]. cbn [forallb] in *.
    apply andb_true_iff in Ho. destruct Ho as (Hx & Ho). apply negb_true_iff, Z.eqb_neq in Hx.
    apply andb_true_iff in Hw2. destruct Hw2 as (A & B). rewrite <- (Hfe _ Hx), A. cbn. apply IH; assumption.
  - intros t' IHt rest IHr fe fe' offers kids Ho Hk Hfe Hw. destruct offers as [|e offers]; [exact Hw|].
    cbn [walk forallb] in *. apply andb_true_iff in Ho. destruct Ho as (He & Ho).
    apply negb_true_iff, Z.eqb_neq in He.
    apply andb_true_iff in Hw. destruct Hw as (Hw1 & Hw2). rewrite <- (Hfe _ He), Hw1. cbn [andb].
    destruct kids as [|o' kids]; [discriminate|]. cbn [forallb] in Hk.
    apply andb_true_iff in Hk. destruct Hk as (Hk1 & Hk2).
    apply andb_true_iff in Hw2. destruct Hw2 as (Hw2 & Hw3).
    rewrite (IHt _ Hw2 Hk1). cbn [andb].
    eapply IHr; [exact Ho|exact Hk2| |exact Hw3]. intros x Hx. apply fin_no_ex. exact Hx.
  - intros c rest IHr fe fe' offers kids Ho Hk Hfe Hw. destruct offers as [|e offers]; [exact Hw|].
    cbn [walk forallb] in *. apply andb_true_iff in Ho. destruct Ho as (He & Ho).
    apply negb_true_iff, Z.eqb_neq in He.
    apply andb_true_iff in Hw. destruct Hw as (Hw1 & Hw2). rewrite <- (Hfe _ He), Hw1. cbn [andb].
    eapply IHr; eauto.
Qed.

(** * The decidable domain predicates imply the hypotheses of the theorems *)
Lemma bytes_prefix_true : forall a b, bytes_prefix a b = true -> exists rest, b = a ++ rest.
Proof.
  induction a as [|x a IH]; intros b Hp; [exists b; reflexivity|].
  destruct b as [|y b]; [discriminate|]. cbn in Hp. apply andb_true_iff in Hp. destruct Hp as (Hx & Hp).
  apply N.eqb_eq in Hx. subst y. destruct (IH _ Hp) as (rest & ->). exists rest. reflexivity.
Qed.

Lemma ccarb_ccar C evs : ccarb C evs = true -> ccar C evs.
Proof.
  unfold ccarb, ccar. destruct (content evs) as [c t]. cbn [fst snd]. intros Hc.
  apply andb_true_iff in Hc. destruct Hc as (Hp & Ht). destruct (bytes_prefix_true _ _ Hp) as (rest & ->).
  exists rest. split; [reflexivity|]. intros ->. cbn in Ht. apply N.eqb_eq in Ht.
  rewrite lenN_app in Ht. apply lenN_zero. lia.
Qed.
Lemma cleanb_clean evs : cleanb evs = true -> clean_script evs.
Proof.
  induction evs as [|[bs|c|] r IH]; cbn; auto; try discriminate.
  destruct r; [reflexivity|discriminate].
Qed.

Lemma leaf_ok_carries C b : leaf_ok C b = true -> carries_full C b /\ wf_buf b.
Proof.
  destruct b as [evs|evs a|d|x]; cbn [leaf_ok carries_full wf_buf]; intros Hl.
  - split; [apply ccarb_ccar; exact Hl|exact I].
  - apply andb_true_iff in Hl. destruct Hl as (Hc & Ha). apply ccarb_ccar in Hc. destruct a; cbn in Ha.
    + apply cleanb_clean in Ha. split; [apply clean_ccar_rcar; assumption|exact Ha].
    + split; [exact Hc|exact I].
  - split; [apply bytes_eqb_eq; exact Hl|exact I].
  - split; exact I.
Qed.

Lemma tree_ok_carries C :
  (forall t, tree_ok C t = true -> tcarry C t /\ twf t) /\
  (forall a, ans_ok C a = true -> acarry C a /\ awf a).
Proof.
  apply nbuf_nanss_ind; cbn [tree_ok ans_ok tcarry acarry twf awf].
  - intros b Hl. apply leaf_ok_carries. exact Hl.
  - intros inner IHi ans IHa Ht. apply andb_true_iff in Ht. destruct Ht as (A & B).
    destruct (IHi A), (IHa B). tauto.
  - auto.
  - intros b IHb r IHr Ht. apply andb_true_iff in Ht. destruct Ht as (A & B).
    destruct (IHb A), (IHr B). tauto.
  - intros c r IHr Ht. apply IHr. exact Ht.
Qed.

(** * The theorem *)
Section Core.
  Variable H : bytes -> bytes.
  Variable cfg : vcfg.
  Variable fuel : nat.

  Theorem monN_data_on_model t m C :
    tree_ok C t = true -> (match t with NW _ _ => True | NB _ => False end) ->
    nofuel (codes_of (z_tree (run_tree H cfg fuel t m))) = true ->
    (forall x, z_err (run_tree H cfg fuel t m) = ECode x -> 0 < x) ->
    forall c, In c (monN_data t m C (z_data (run_tree H cfg fuel t m))
                              (C09FullMonitor.code_of (z_err (run_tree H cfg fuel t m)))
                              (codes_of (z_tree (run_tree H cfg fuel t m)))) -> c = 2.
  Proof.
    intros Hok Hroot Hnf Hpos c.
    destruct (proj1 (tree_ok_carries C) _ Hok) as (Hcar & Hwf).
    pose proof (run_tree_rules H cfg fuel t m Hwf) as (Hchk & Hdone).
    pose proof (fun Hm => run_tree_no_dup_no_skip H cfg fuel C t m Hcar Hm) as Hnodup.
    assert (Hpre : streaming m -> exists rest, expected_slice m C = z_data (run_tree H cfg fuel t m) ++ rest).
    { intros Hst. destruct t as [b|inner ans]; [contradiction|]. apply run_tree_delivered_prefix; assumption. }
    remember (run_tree H cfg fuel t m) as out eqn:Eout. clear Eout.
    unfold monN_data. rewrite t_done1_codes, Hdone, Hok. cbn [app andb].
    destruct (is_discard m) eqn:Hdis; [intros []|].
    assert (Hm : m <> MDiscard) by (intros E; rewrite E in Hdis; discriminate).
    assert (H3 : (if wrapped_ok t && completes m (C09FullMonitor.code_of (z_err out)) &&
                     negb (bytes_eqb (z_data out) (expected m C)) then [3] else []) = []).
    { destruct (wrapped_ok t); [|reflexivity]. cbn [andb].
      rewrite (completes_completed _ _ Hpos).
      destruct (completed m (z_err out)) eqn:Hc; [|reflexivity]. cbn [andb].
      rewrite expected_eq, (Hnodup Hm eq_refl), bytes_eqb_refl. reflexivity. }
    assert (H4 : (if wrapped_ok t && negb (chk no_ex (streamingb m) t (codes_of (z_tree out))) then [4] else []) = []).
    { rewrite (proj1 (chk_walk_no_ex _) _ _ Hchk Hnf). cbn [negb]. rewrite andb_false_r. reflexivity. }
    assert (H7 : (if wrapped_ok t && streamingb m && negb (bytes_prefix (z_data out) (expected m C))
                  then [7] else []) = []).
    { destruct (wrapped_ok t); [|reflexivity]. cbn [andb].
      destruct (streamingb m) eqn:Hs; [|reflexivity]. cbn [andb].
      assert (Hst : streaming m) by (destruct m; try discriminate; exact I).
      destruct (Hpre Hst) as (rest & Hr). rewrite expected_eq, Hr, bytes_prefix_app. reflexivity. }
    rewrite H3, H4, H7, !app_nil_r.
    destruct t as [b|inner ans]; [intros []|].
    destruct (codes_of (z_tree out)) as [|offs d kids]; [intros []|].
    destruct (returnedN ans (length offs)) as [c'|]; [|intros []].
    destruct (wrapped_ok (NW inner ans) && negb (C09FullMonitor.code_of (z_err out) =? c')); [|intros []].
    intros [<-|[]]. reflexivity.
  Qed.
End Core.

Definition dom16N (inp : sx) : Prop :=
  let c := dec_case16N inp in
  tree_ok (n_obj c) (n_tree c) = true /\
  (match n_tree c with NW _ _ => True | NB _ => False end) /\
  nofuel (codes_of (z_tree (out16N inp))) = true /\
  (forall x, z_err (out16N inp) = ECode x -> 0 < x) /\
  (odepth (z_tree (out16N inp)) <= tree_depth_bound)%nat.

Lemma sx_nth_enc_outN r o :
  sx_nth (enc_outN r o) 0 = of_Ns (z_data o) /\ sx_nth (enc_outN r o) 1 = enc_err (z_err o) /\
  sx_nth (enc_outN r o) 5 = enc_otree (z_tree o).
Proof. repeat split. Qed.

Lemma mon16N_decoded inp :
  (odepth (z_tree (out16N inp)) <= tree_depth_bound)%nat ->
  mon16N inp (run16N inp) =
  monN_data (n_tree (dec_case16N inp)) (n_meth (dec_case16N inp)) (n_obj (dec_case16N inp))
            (z_data (out16N inp)) (C09FullMonitor.code_of (z_err (out16N inp))) (codes_of (z_tree (out16N inp))).
Proof.
  intros Hdepth. unfold mon16N.
  unfold run16N.
  destruct (sx_nth_enc_outN (n_report (dec_case16N inp)) (out16N inp)) as (E0 & E1 & E5).
  rewrite E0, E1, E5, dec_bytes_of_Ns, (dec_enc_otree _ _ Hdepth). unfold C09FullMonitor.code_of. reflexivity.
Qed.

Lemma monN_data_on_model' H cfg fuel t m C out :
  out = run_tree H cfg fuel t m ->
  tree_ok C t = true -> (match t with NW _ _ => True | NB _ => False end) ->
  nofuel (codes_of (z_tree out)) = true ->
  (forall x, z_err out = ECode x -> 0 < x) ->
  forall c, In c (monN_data t m C (z_data out) (C09FullMonitor.code_of (z_err out)) (codes_of (z_tree out))) -> c = 2.
Proof. intros ->. apply monN_data_on_model. Qed.

Lemma out16N_eq inp :
  out16N inp = run_tree (lookup (n_tbl (dec_case16N inp))) (n_cfg (dec_case16N inp))
                        (16 + tree_fuel (n_tree (dec_case16N inp))) (n_tree (dec_case16N inp))
                        (n_meth (dec_case16N inp)).
Proof. unfold out16N. reflexivity. Qed.

Theorem mon16N_on_model inp : dom16N inp -> forall c, In c (mon16N inp (run16N inp)) -> c = 2.
Proof.
  intros (Hok & Hroot & Hnf & Hpos & Hdepth) c Hin.
  rewrite (mon16N_decoded inp Hdepth) in Hin.
  exact (monN_data_on_model' _ _ _ _ _ _ _ (out16N_eq inp) Hok Hroot Hnf Hpos c Hin).
Qed.
