(** C17L, clause 27: on the event log of every trace of the mixed-entry-point
    system (Compose/ReplEntry.v), a ReplicateSingle / ReplicateComposite caller
    that returned success has a successful read of its object from the sink of
    its own in the log.  The property is local to a step: the only step that
    emits the success event of such a caller is the release of its read-back
    with OK, which emits the successful sink read just before it. *)
From Coq Require Import List ZArith NArith Bool Arith Lia.
From BBS Require Import Common.Sx Common.ListX Run.MonSilentSx Compose.ExistenceCache Compose.ExistenceCacheProofs
  Compose.Replicators Compose.ReplicatorsProofs Compose.ReplEntry Compose.ReplEntryProofs
  Compose.EventLog Run.R17Conc Run.R17L Run.R17LogBase.
Import ListNotations.
Local Open Scope nat_scope.

Lemma xrun_snoc' kinds m tr : forall x0 e,
  xrun kinds m x0 (tr ++ [e]) = match xrun kinds m x0 tr with Some x => xstep kinds m x e | None => None end.
Proof.
  induction tr as [|a tr IH]; intros x0 e; cbn [app xrun].
  - destruct (xstep kinds m x0 e); reflexivity.
  - destruct (xstep kinds m x0 a); [apply IH|reflexivity].
Qed.

Lemma xlog_snoc kinds m tr : forall x0 e x1 x2, xrun kinds m x0 tr = Some x1 -> xstep kinds m x1 e = Some x2 ->
  xlog kinds m x0 (tr ++ [e]) = xlog kinds m x0 tr ++ xemit kinds m x1 e.
Proof.
  induction tr as [|a tr IH]; intros x0 e x1 x2 H St; cbn [app xrun xlog] in *.
  - inversion H; subst. rewrite St. rewrite app_nil_r. reflexivity.
  - destruct (xstep kinds m x0 a) as [xa|]; [|discriminate]. rewrite (IH xa e x1 x2 H St). rewrite app_assoc. reflexivity.
Qed.

Theorem xlog_inv kinds m (P : xstate -> list sx -> Prop) x0 :
  P x0 [] ->
  (forall x lg e x', P x lg -> xstep kinds m x e = Some x' -> P x' (lg ++ xemit kinds m x e)) ->
  forall tr x, xrun kinds m x0 tr = Some x -> P x (xlog kinds m x0 tr).
Proof.
  intros H0 Hs. induction tr as [|e tr IH] using rev_ind; intros x H.
  - cbn in *. inversion H; subst. exact H0.
  - rewrite xrun_snoc' in H. destruct (xrun kinds m x0 tr) as [x1|] eqn:R; [|discriminate].
    rewrite (xlog_snoc kinds m tr x0 e x1 x R H). apply Hs; [apply IH; reflexivity|exact H].
Qed.

Definition clause27_ok (kinds : list ekind) (lg : list sx) : Prop :=
  forall i d, read_obj (nth i kinds KMulti) = Some d ->
    (exists x, In x lg /\ is_succ i x = true) -> exists y, In y lg /\ sink_ok i d y = true.

Lemma sink_ok_read i d op t : op = 0%Z \/ op = 3%Z -> sink_ok i d (ev_ret i 0 op d 0 [] t) = true.
Proof.
  intros Ho. unfold sink_ok. rewrite caller_ret, Nat.eqb_refl.
  change (sx_nth (ev_ret i 0 op d 0 [] t) 4) with (of_nats [d]). rewrite sx_eqb_refl.
  change (sx_Z (sx_nth (ev_ret i 0 op d 0 [] t) 3)) with op. destruct Ho as [->| ->]; reflexivity.
Qed.

Lemma xarrive_succ kinds i t p j x : In x (xarrive kinds i t p) -> is_succ j x = true ->
  j = i /\ read_obj (nth i kinds KMulti) = None.
Proof.
  unfold xarrive. intros Hx Sx.
  destruct (read_obj (nth i kinds KMulti)) as [d|] eqn:R.
  - destruct p; try (destruct (arrive_succ _ _ _ _ _ Hx Sx) as [_ X]; discriminate X).
    destruct c; [destruct Hx as [<-|[]]; discriminate Sx| |];
      destruct (arrive_succ _ _ _ _ _ Hx Sx) as [_ X]; discriminate X.
  - split; [|reflexivity].
    assert (Hx' : In x (arrive i t p)) by (destruct p; try exact Hx; destruct c; exact Hx).
    apply (arrive_succ _ _ _ _ _ Hx' Sx).
Qed.

Lemma reading_obj kinds x i d : reading kinds x i = Some d -> read_obj (nth i kinds KMulti) = Some d.
Proof.
  unfold reading. destruct (nth_error (thr (xb x)) i) as [t|]; [|discriminate].
  destruct (nth i (xpost x) PNone); [|discriminate]. destruct (tpc t); try discriminate. destruct c; try discriminate. auto.
Qed.

(** The step-local fact. *)
Lemma xemit_local kinds m x e i d y : read_obj (nth i kinds KMulti) = Some d ->
  In y (xemit kinds m x e) -> is_succ i y = true -> exists z, In z (xemit kinds m x e) /\ sink_ok i d z = true.
Proof.
  intros R Hy Sy. unfold xemit in *. destruct (xstep kinds m x e) as [x'|]; [|destruct Hy].
  assert (Base : forall e0, In y (emit_with (xarrive kinds) (xb x) e0 (xb x')) -> False).
  { intros e0 Hy0. destruct e0 as [i0|i0 f0|i0|dt|i0 alt]; cbn [emit_with] in Hy0; try contradiction.
    - destruct Hy0 as [<-|Hy0]; [discriminate Sy|]. destruct (xarrive_succ _ _ _ _ _ _ Hy0 Sy) as [-> X]. congruence.
    - apply in_app_or in Hy0. destruct Hy0 as [Hy0|Hy0]; [rewrite (returned_not_succ _ _ _ _ i _ Hy0) in Sy; discriminate|].
      destruct (xarrive_succ _ _ _ _ _ _ Hy0 Sy) as [-> X]. congruence.
    - destruct (xarrive_succ _ _ _ _ _ _ Hy0 Sy) as [-> X]. congruence. }
  destruct e as [i0|i0 f|i0|dt|i0 alt]; try (exfalso; eapply Base; exact Hy).
  destruct (reading kinds x i0) as [d0|] eqn:Rd; [|exfalso; eapply Base; exact Hy].
  destruct Hy as [<-|[<-|[]]]; [discriminate Sy|].
  apply is_succ_done in Sy. destruct Sy as [-> Rc].
  apply reading_obj in Rd. rewrite R in Rd. injection Rd as <-.
  apply read_code_ok in Rc. destruct Rc as [-> Hm]. rewrite Hm. cbn [Z.eqb negb].
  eexists. split; [left; reflexivity|]. apply sink_ok_read. unfold read_op. destruct (nth i0 kinds KMulti); auto.
Qed.

Lemma clause27_step kinds m x lg e : clause27_ok kinds lg -> clause27_ok kinds (lg ++ xemit kinds m x e).
Proof.
  intros H i d R (y & Hy & Sy). apply in_app_or in Hy. destruct Hy as [Hy|Hy].
  - destruct (H i d R (ex_intro _ y (conj Hy Sy))) as (z & Hz & Sz). exists z. split; [apply in_or_app; left; exact Hz|exact Sz].
  - destruct (xemit_local kinds m x e i d y R Hy Sy) as (z & Hz & Sz). exists z. split; [apply in_or_app; right; exact Hz|exact Sz].
Qed.

Theorem entry_clause27 kinds m x0 tr x : xrun kinds m x0 tr = Some x -> clause27_ok kinds (xlog kinds m x0 tr).
Proof.
  intros H. refine (xlog_inv kinds m (fun _ lg => clause27_ok kinds lg) x0 _ _ tr x H).
  - intros i d _ (y & [] & _).
  - intros; apply clause27_step; assumption.
Qed.

(** In the monitor's terms. *)
Lemma combine_seq_nth {T} (l : list T) dflt : forall a i k, In (i, k) (combine (seq a (length l)) l) -> a <= i /\ nth (i - a) l dflt = k.
Proof.
  induction l as [|h t IH]; intros a i k H; cbn [length seq combine] in H; [destruct H|].
  destruct H as [E|H].
  - inversion E; subst. rewrite Nat.sub_diag. auto.
  - apply IH in H. destruct H as [Hle Hn]. split; [lia|]. replace (i - a) with (S (i - S a)) by lia. exact Hn.
Qed.

Lemma flat_map_nil_in {T U} (f : T -> list U) l : (forall x, In x l -> f x = []) -> flat_map f l = [].
Proof.
  induction l as [|x l IH]; intros H; [reflexivity|]. cbn [flat_map].
  rewrite (H x (or_introl eq_refl)), IH; [reflexivity|]. intros y Hy. apply H. right. exact Hy.
Qed.

Theorem mon_results_silent kinds lg : clause27_ok kinds lg -> mon_results kinds lg = [].
Proof.
  intros H. unfold mon_results. apply flat_map_nil_in. intros [i k] Hin. cbn [fst snd].
  destruct (combine_seq_nth kinds KMulti 0 i k Hin) as [_ Hk]. rewrite Nat.sub_0_r in Hk.
  destruct (read_obj k) as [d|] eqn:R; [|reflexivity].
  match goal with |- (if ?a && negb ?b then _ else _) = _ => destruct a eqn:E1; [|reflexivity]; assert (E2 : b = true); [|rewrite E2; reflexivity] end.
  apply existsb_exists in E1. destruct E1 as (x & Hx & Sx).
  rewrite <- Hk in R. destruct (H i d R (ex_intro _ x (conj Hx Sx))) as (y & Hy & Sy).
  apply existsb_exists. exists y. split; assumption.
Qed.
