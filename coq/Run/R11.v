(** C11: sx interface of the mirrored model (decoders, run, monitor, judge).

    input  = (n initA initB ops)
      initA/initB = n atoms: -1 absent, else content id
      op = (0 faults d) Get | (1 faults d x src) Put | (2 faults (d ...)) FindMissing
         | (3 faults) GetCapabilities
      fault = (replica kind digest code)   replica 0=A 1=B; kind 0=Get 1=Put 2=FindMissing 3=Cap
    observation = one entry per op:
      (ok payload code tag origin calls contentsA contentsB)
      tag: 0 none 1 "Backend A" 2 "Backend B" 3 sync A->B 4 sync B->A 5 inconsistent A 6 inconsistent B
      origin: 1 = carries replica A's answer, 2 = B's *)
From BBS Require Import Common.Sx Common.ListX Compose.Mirrored.

Definition dec_rid (z : Z) : rid := if z =? 0 then RA else RB.
Definition dec_kind (z : Z) : kind :=
  if z =? 0 then KGet else if z =? 1 then KPut else if z =? 2 then KFM else KCap.
Definition enc_rid (r : rid) : Z := match r with RA => 0 | RB => 1 end.
Definition enc_kind (k : kind) : Z := match k with KGet => 0 | KPut => 1 | KFM => 2 | KCap => 3 end.

Fixpoint oracle_of (fs : list sx) : oracle :=
  match fs with
  | [] => fun _ _ _ => 0
  | f :: t => fun r k d =>
      if (enc_rid r =? (if sx_Z (sx_nth f 0) =? 0 then 0 else 1))
         && (enc_kind k =? enc_kind (dec_kind (sx_Z (sx_nth f 1))))
         && Nat.eqb d (sx_nat (sx_nth f 2))
      then Z.max 0 (sx_Z (sx_nth f 3))
      else oracle_of t r k d
  end.

Definition dec_op (s : sx) : oracle * op :=
  let o := oracle_of (sx_list (sx_nth s 1)) in
  let k := sx_Z (sx_nth s 0) in
  (o, if k =? 0 then OGet (sx_nat (sx_nth s 2))
      else if k =? 1 then OPut (sx_nat (sx_nth s 2)) (sx_nat (sx_nth s 3))
      else if k =? 2 then OFM (sx_nats (sx_nth s 2))
      else OCap).

Fixpoint store_of_from (i : nat) (l : list Z) : store :=
  match l with
  | [] => []
  | v :: t => if v <? 0 then store_of_from (S i) t else (i, Z.to_nat v) :: store_of_from (S i) t
  end.
Definition store_of (s : sx) : store := store_of_from 0 (sx_Zs s).
Definition enc_store (n : nat) (s : store) : sx :=
  L (map (fun d => match lookup s d with Some x => of_nat x | None => A (-1) end) (seq 0 n)).

Definition enc_tag (t : etag) : Z :=
  match t with
  | TNone => 0 | TBackend RA => 1 | TBackend RB => 2 | TSync RA => 3 | TSync RB => 4
  | TIncons RA => 5 | TIncons RB => 6
  end.
Definition dec_tag (z : Z) : etag :=
  if z =? 1 then TBackend RA else if z =? 2 then TBackend RB else if z =? 3 then TSync RA
  else if z =? 4 then TSync RB else if z =? 5 then TIncons RA else if z =? 6 then TIncons RB else TNone.
Definition enc_origin (r : rid) : Z := match r with RA => 1 | RB => 2 end.
Definition enc_call (c : call) : sx := let '(r, k, d) := c in L [A (enc_rid r); A (enc_kind k); of_nat d].
Definition dec_call (s : sx) : call :=
  (dec_rid (sx_Z (sx_nth s 0)), dec_kind (sx_Z (sx_nth s 1)), sx_nat (sx_nth s 2)).

Definition enc_res (n : nat) (st : mstate) (r : result) : sx :=
  match errs r with
  | [] => L [A 1; of_nats (okv r); A 0; A 0; A 0; L (map enc_call (calls r)); enc_store n (sA st); enc_store n (sB st)]
  | e :: _ => L [A 0; of_nats (okv r); A (ecode e); A (enc_tag (etag_of e)); A (enc_origin (eorigin e));
                 L (map enc_call (calls r)); enc_store n (sA st); enc_store n (sB st)]
  end.

Definition init_state (inp : sx) : mstate := mkst (store_of (sx_nth inp 1)) (store_of (sx_nth inp 2)) 0.

Fixpoint run_ops (n : nat) (st : mstate) (ops : list sx) : list (mstate * result) :=
  match ops with
  | [] => []
  | s :: t => let '(o, p) := dec_op s in
              let '(st', r) := step o st p in
              (st', r) :: run_ops n st' t
  end.

Definition run11 (inp : sx) : sx :=
  let n := sx_nat (sx_nth inp 0) in
  L (map (fun x => enc_res n (fst x) (snd x)) (run_ops n (init_state inp) (sx_list (sx_nth inp 3)))).

(** Observed result of one operation as a [result]; the origin is kept as the
    raw atom for the comparison and decoded (default A) for the monitor, which
    never looks at it. *)
Definition dec_obs_res (s : sx) : result :=
  mkres (sx_nats (sx_nth s 1))
        (if sx_bool (sx_nth s 0) then []
         else [mkerr (sx_Z (sx_nth s 2)) (dec_tag (sx_Z (sx_nth s 3)))
                     (if sx_Z (sx_nth s 4) =? 2 then RB else RA)])
        (map dec_call (sx_list (sx_nth s 5))).

(** Monitor over the implementation's observations only: contents before an
    operation are the contents observed after the previous one. *)
Fixpoint mon_ops (n k : nat) (pa pb : store) (ops obs : list sx) : list Z :=
  match ops, obs with
  | s :: t, ob :: obt =>
      let '(o, p) := dec_op s in
      let r := dec_obs_res ob in
      let qa := store_of (sx_nth ob 6) in
      let qb := store_of (sx_nth ob 7) in
      check_op n o pa pb p r qa qb ++ check_alt k p r
      ++ mon_ops n (if bump_op p then S k else k) qa qb t obt
  | _, _ => []
  end.

Definition is_panic (obs : sx) : bool :=
  match obs with L [A z] => z <? 0 | _ => false end.

Definition mon11 (inp obs : sx) : list Z :=
  if is_panic obs then [99] else
  let n := sx_nat (sx_nth inp 0) in
  (if Nat.eqb (length (sx_list (sx_nth inp 3))) (length (sx_list obs)) then [] else [98]) ++
  mon_ops n 0 (store_of (sx_nth inp 1)) (store_of (sx_nth inp 2)) (sx_list (sx_nth inp 3)) (sx_list obs).

(** Agreement.  Put and FindMissing run their two branches in goroutines:
    which of two failing branches is reported, and the order of the calls in
    the log, is unspecified. *)
Fixpoint insertZ (x : Z) (l : list Z) : list Z :=
  match l with [] => [x] | h :: t => if x <=? h then x :: l else h :: insertZ x t end.
Definition sortZ (l : list Z) : list Z := fold_right insertZ [] l.
Definition call_key (s : sx) : Z :=
  sx_Z (sx_nth s 0) * 1000000 + sx_Z (sx_nth s 1) * 100000 + sx_Z (sx_nth s 2).

Definition agree_op (n : nat) (p : op) (st : mstate) (r : result) (ob : sx) : bool :=
  let ok := sx_bool (sx_nth ob 0) in
  Bool.eqb ok (is_nil (errs r))
  && sx_eqb (sx_nth ob 1) (of_nats (okv r))
  && (ok || existsb (fun e => (ecode e =? sx_Z (sx_nth ob 2)) && (enc_tag (etag_of e) =? sx_Z (sx_nth ob 3))
                              && (enc_origin (eorigin e) =? sx_Z (sx_nth ob 4))) (errs r))
  && (let mc := map enc_call (calls r) in
      if bump_op p then sx_eqb (L mc) (sx_nth ob 5)
      else sx_eqb (of_Zs (sortZ (map call_key mc))) (of_Zs (sortZ (map call_key (sx_list (sx_nth ob 5))))))
  && sx_eqb (enc_store n (sA st)) (sx_nth ob 6)
  && sx_eqb (enc_store n (sB st)) (sx_nth ob 7).

Fixpoint agree_ops (n : nat) (st : mstate) (ops obs : list sx) : bool :=
  match ops, obs with
  | [], [] => true
  | s :: t, ob :: obt =>
      let '(o, p) := dec_op s in
      let '(st', r) := step o st p in
      agree_op n p st' r ob && agree_ops n st' t obt
  | _, _ => false
  end.

Definition judge11 (inp obs : sx) : sx :=
  let m := run11 inp in
  let v := mon11 inp obs in
  let ag := negb (is_panic obs)
            && agree_ops (sx_nat (sx_nth inp 0)) (init_state inp) (sx_list (sx_nth inp 3)) (sx_list obs) in
  verdict ag (negb (match v with [] => true | _ => false end)) m (of_Zs v).
