(** C14P: proofs about the pair model of Run/R14P.v.

    - the Write RPC over an unarmed backend, fed with what the client sends
      for ANY bytes (no client-side check): OK and stored iff the bytes
      match the digest, INVALID_ARGUMENT and nothing stored otherwise;
    - hence the pair's Put equals the armed backend's Put, for every fault
      mode, code, data, digest, chunking and compressor with
      decompress (compress x) = x — and so do whole histories;
    - the monitor [mon14P] is silent on the model, for all histories. *)
From Coq Require Import List ZArith Bool Lia.
From BBS Require Import Common.Sx Rpc.ByteStream Rpc.Batch Rpc.ClientServer
  Rpc.ByteStreamProofs Rpc.ClientServerProofs Run.MonSilentSx Run.R14 Run.R14Proofs Run.R14P.
Import ListNotations.
Open Scope Z_scope.

(** a fault is armed with a non-OK code *)
Definition fault_wf (fm code : Z) : Prop := fm <> 0 -> code <> 0.

Section PairProofs.
Variable hashf : bytes -> Z.
Variable decompress : bytes -> dres.
Variable compress : bytes -> bytes.
Hypothesis round_trip : forall x, decompress (compress x) = DOk x.

Lemma drain_eof_some src cs c : drain src cs REof = Some c -> c = src.
Proof.
  induction cs as [|a cs IH]; cbn [drain]; [discriminate|].
  destruct (0 <? blen a); [intro H; inversion H; reflexivity|exact IH].
Qed.

(** with a clean end of stream the validating consumer only ever objects with
    its own code *)
Lemma vconsume_eof_err src d cs : forall rem acc c,
  vconsume hashf src d rem acc cs REof = inr c -> c = src.
Proof.
  induction cs as [|a cs IH]; intros rem acc c H; cbn [vconsume] in H.
  - destruct (rem <=? 0).
    + cbn [drain] in H. destruct (hashf acc =? d_hash d); inversion H; reflexivity.
    + inversion H; reflexivity.
  - destruct (rem <=? 0).
    + destruct (drain src (a :: cs) REof) as [c'|] eqn:E.
      * inversion H. subst. eapply drain_eof_some; eauto.
      * destruct (hashf acc =? d_hash d); inversion H; reflexivity.
    + destruct (rem <? blen a); [inversion H; reflexivity|]. eapply IH; eauto.
Qed.

Definition pair_cs (zstd : bool) (chunk : nat) (pieces : list nat) (x : bytes) : list bytes :=
  if zstd then cut pieces (compress x) else chunks_of chunk x.

Lemma pair_msgs_cs zstd chunk pieces x :
  pair_msgs compress zstd chunk pieces x = client_msgs (pair_cs zstd chunk pieces x).
Proof. unfold pair_msgs, pair_cs. destruct zstd; reflexivity. Qed.

(** The Write RPC over an unarmed backend, for ANY bytes the client is given. *)
Lemma pair_write_spec zstd chunk pieces d x :
  (0 < chunk)%nat -> 0 <= d_size d -> blen x <= backend_max ->
  let r := write hashf decompress 0 (pair_rn zstd d) (pair_msgs compress zstd chunk pieces x) TEof in
  if valid hashf d x then wr_code r = 0 /\ wr_stored r = Some x
  else wr_code r = cInvalidArgument /\ wr_stored r = None.
Proof.
  intros Hc Hs Hm r. unfold r. clear r. rewrite pair_msgs_cs.
  destruct (client_msgs_spec (pair_cs zstd chunk pieces x)) as (H1 & H2 & H3).
  assert (Hx : zstd = false -> concat (pair_cs zstd chunk pieces x) = x).
  { intros ->. unfold pair_cs. apply chunks_of_concat; exact Hc. }
  destruct (valid hashf d x) eqn:Hv.
  - assert (Hd : d_size d <= backend_max).
    { unfold valid in Hv. apply andb_prop in Hv. destruct Hv as [Hv _]. apply Z.eqb_eq in Hv. lia. }
    destruct zstd; cbn [pair_rn].
    + rewrite (write_zstd_stores_if hashf decompress d _ x H1 H2);
        [split; reflexivity| |exact Hv|exact Hd].
      rewrite H3. unfold pair_cs. rewrite cut_concat. apply round_trip.
    + rewrite (write_identity_stores_if hashf decompress d _ H1 H2);
        [rewrite H3, Hx by reflexivity; split; reflexivity|rewrite H3, Hx by reflexivity; exact Hv|exact Hd].
  - pose proof (finished_fin_ok _ H2) as Hf.
    set (ms := client_msgs (pair_cs zstd chunk pieces x)) in *. clearbody ms.
    destruct ms as [|first rest]; [cbn in Hf; discriminate|].
    cbn [contiguous fin_ok] in H1, Hf. destruct H1 as [H0 Hc1], Hf as [_ Hf]. rewrite Z.add_0_l in Hc1.
    destruct zstd; cbn [pair_rn write].
    + unfold write_zstd. rewrite H0. cbn [Z.eqb negb].
      destruct (backend_max <? d_size d); [split; reflexivity|].
      rewrite (z_recv_complete rest _ _ Hc1 Hf).
      change (w_data first ++ payload rest) with (payload (first :: rest)).
      rewrite H3. unfold pair_cs. rewrite cut_concat, round_trip, Hv. split; reflexivity.
    + unfold write_identity. rewrite H0. cbn [Z.eqb negb].
      rewrite (id_recv_complete rest _ _ Hc1 Hf).
      set (cs' := if 0 <? blen (w_data first) then w_data first :: map w_data rest else map w_data rest).
      assert (Hp : concat cs' = x).
      { rewrite <- Hx by reflexivity. rewrite <- H3. unfold cs', payload. cbn [map concat].
        destruct (0 <? blen (w_data first)) eqn:E; [reflexivity|].
        apply Z.ltb_ge in E. pose proof (blen_nonneg (w_data first)).
        rewrite (blen_nil_inv (w_data first)) by lia. reflexivity. }
      destruct (to_byte_slice hashf cInvalidArgument d backend_max (cs', REof)) as [y|c] eqn:E.
      * apply to_byte_slice_inl in E; [|exact Hs]. destruct E as (_ & Ey & Hvy).
        cbn [fst] in Ey. rewrite Hp in Ey. subst y. rewrite Hv in Hvy. discriminate.
      * unfold to_byte_slice in E. destruct (backend_max <? d_size d).
        -- inversion E. split; reflexivity.
        -- cbn [fst snd] in E. apply vconsume_eof_err in E. subst c. split; reflexivity.
Qed.

(** a backend that releases the buffer and fails: the RPC ends with its code *)
Lemma pair_write_armed zstd chunk pieces d x code :
  code <> 0 ->
  write hashf decompress code (pair_rn zstd d) (pair_msgs compress zstd chunk pieces x) TEof = wfail code.
Proof.
  intro Hcode. rewrite pair_msgs_cs.
  destruct (client_msgs_spec (pair_cs zstd chunk pieces x)) as (H1 & H2 & _).
  pose proof (finished_fin_ok _ H2) as Hf.
  set (ms := client_msgs (pair_cs zstd chunk pieces x)) in *. clearbody ms.
  destruct ms as [|first rest]; [cbn in Hf; discriminate|].
  cbn [contiguous] in H1. destruct H1 as [H0 _]. apply Z.eqb_neq in Hcode.
  destruct zstd; cbn [pair_rn write]; [unfold write_zstd|unfold write_identity];
    rewrite H0; cbn [Z.eqb negb]; rewrite Hcode; reflexivity.
Qed.

(** ** The pair's Put is the armed backend's Put. *)
Theorem pair_put_is_backend_put zstd chunk pieces st d x fm code :
  (0 < chunk)%nat -> 0 <= d_size d -> blen x <= backend_max -> fault_wf fm code ->
  pair_put hashf decompress compress zstd chunk pieces st d x fm code = backend_put hashf st d x fm code.
Proof.
  intros Hc Hs Hm Hw. unfold pair_put, backend_put.
  pose proof (pair_write_spec zstd chunk pieces d x Hc Hs Hm) as Hspec. cbv zeta in Hspec.
  destruct (fm =? 0) eqn:E0.
  - destruct (valid hashf d x); destruct Hspec as [Hc1 Hs1]; rewrite Hc1, Hs1; reflexivity.
  - destruct (fm =? 1).
    + destruct (valid hashf d x); destruct Hspec as [Hc1 Hs1]; rewrite Hc1; reflexivity.
    + assert (Hcode : code <> 0) by (apply Hw; apply Z.eqb_neq; exact E0).
      rewrite pair_write_armed by exact Hcode. reflexivity.
Qed.

(** OK iff the data matches the digest and the backend accepted it *)
Theorem backend_put_ok_iff st d x fm code :
  fault_wf fm code ->
  (snd (backend_put hashf st d x fm code) = 0 <-> valid hashf d x = true /\ fm = 0).
Proof.
  intro Hw. unfold backend_put. destruct (fm =? 0) eqn:E0.
  - apply Z.eqb_eq in E0. destruct (valid hashf d x); cbn [snd]; split.
    + auto.
    + reflexivity.
    + unfold cInvalidArgument. discriminate.
    + intros [H _]. discriminate.
  - apply Z.eqb_neq in E0. pose proof (Hw E0) as Hcode. split.
    + destruct (fm =? 1); [destruct (valid hashf d x)|]; cbn [snd]; unfold cInvalidArgument; intro H;
        try contradiction; discriminate.
    + intros [_ H]. contradiction.
Qed.

Theorem pair_put_ok_iff zstd chunk pieces st d x fm code :
  (0 < chunk)%nat -> 0 <= d_size d -> blen x <= backend_max -> fault_wf fm code ->
  (snd (pair_put hashf decompress compress zstd chunk pieces st d x fm code) = 0
   <-> valid hashf d x = true /\ fm = 0).
Proof.
  intros Hc Hs Hm Hw. rewrite pair_put_is_backend_put by assumption. apply backend_put_ok_iff, Hw.
Qed.

(** a successful Put stores exactly the data under exactly the digest *)
Theorem pair_put_ok_stores zstd chunk pieces st d x fm code :
  (0 < chunk)%nat -> 0 <= d_size d -> blen x <= backend_max -> fault_wf fm code ->
  snd (pair_put hashf decompress compress zstd chunk pieces st d x fm code) = 0 ->
  fst (pair_put hashf decompress compress zstd chunk pieces st d x fm code) = st_put st d x.
Proof.
  intros Hc Hs Hm Hw H. pose proof H as H'. apply pair_put_ok_iff in H'; try assumption.
  destruct H' as [Hv ->]. rewrite pair_put_is_backend_put by assumption.
  unfold backend_put. cbn [Z.eqb]. rewrite Hv. reflexivity.
Qed.

(** a failed Put changes nothing *)
Theorem backend_put_failed_unchanged st d x fm code :
  snd (backend_put hashf st d x fm code) <> 0 -> fst (backend_put hashf st d x fm code) = st.
Proof.
  unfold backend_put. destruct (fm =? 0); [|destruct (fm =? 1); reflexivity].
  destruct (valid hashf d x); cbn [fst snd]; [intro H; contradiction H; reflexivity|reflexivity].
Qed.

Theorem pair_put_failed_unchanged zstd chunk pieces st d x fm code :
  (0 < chunk)%nat -> 0 <= d_size d -> blen x <= backend_max -> fault_wf fm code ->
  snd (pair_put hashf decompress compress zstd chunk pieces st d x fm code) <> 0 ->
  fst (pair_put hashf decompress compress zstd chunk pieces st d x fm code) = st.
Proof.
  intros Hc Hs Hm Hw. rewrite pair_put_is_backend_put by assumption. apply backend_put_failed_unchanged.
Qed.

(** Get through the pair = Get on the backend *)
Lemma pair_get_is_direct_get zstd chunk st d :
  (0 < chunk)%nat -> d_size d <= backend_max ->
  pair_get hashf decompress compress zstd chunk st d = direct_get hashf st d.
Proof.
  intros Hc Hm. unfold pair_get, direct_get.
  destruct (backend_get hashf (st_get st d) d) as [y|c] eqn:Eg.
  - assert (Hv : valid hashf d y = true).
    { unfold backend_get in Eg. destruct (st_get st d) as [y'|]; [|discriminate].
      destruct (valid hashf d y') eqn:Hv; inversion Eg. subst. exact Hv. }
    destruct zstd.
    + exact (client_get_zstd_returns _ _ _ round_trip _ _ _ (fun d' => backend_get hashf (st_get st d') d') _ _ Eg Hv Hm).
    + exact (client_get_identity_returns _ decompress compress _ _ _ (fun d' => backend_get hashf (st_get st d') d') _ _ Eg Hv Hc Hm).
  - assert (Hnz : c <> 0).
    { unfold backend_get in Eg. destruct (st_get st d) as [y'|].
      - destruct (valid hashf d y'); inversion Eg. unfold cInternal. discriminate.
      - inversion Eg. unfold cNotFound. discriminate. }
    apply client_get_error; [exact Eg|exact Hnz|exact Hm].
Qed.

End PairProofs.

(** ** Histories *)
Definition op_wf14P (blobs : list bytes) (op : sx) : Prop :=
  let k := sx_Z (sx_nth op 0) in
  if k =? 0 then 0 <= sx_Z (sx_nth op 2)
                 /\ blen (blob blobs (sx_Z (sx_nth op 5))) <= backend_max
                 /\ fault_wf (sx_Z (sx_nth op 3)) (sx_Z (sx_nth op 4))
  else if k =? 1 then sx_Z (sx_nth op 2) <= backend_max
  else Forall (fun e => 0 <= sx_Z (sx_nth e 1)) (sx_list (sx_nth op 1)).

Definition inp_wf14P (inp : sx) : Prop :=
  (0 < sx_nat (sx_nth inp 2))%nat
  /\ Forall (op_wf14P (dec_blobs (sx_nth inp 0))) (sx_list (sx_nth inp 3)).

Section Histories.
Variable hashf : bytes -> Z.
Variable decompress : bytes -> dres.
Variable compress : bytes -> bytes.
Hypothesis round_trip : forall x, decompress (compress x) = DOk x.

Lemma p_op_pair_backend blobs zstd chunk st op :
  (0 < chunk)%nat -> op_wf14P blobs op ->
  p_op blobs (pair_put hashf decompress compress zstd chunk []) (pair_get hashf decompress compress zstd chunk) st op
  = p_op blobs (backend_put hashf) (direct_get hashf) st op.
Proof.
  intros Hc Hwf. unfold op_wf14P in Hwf. cbv zeta in Hwf. unfold p_op.
  destruct (sx_Z (sx_nth op 0) =? 0).
  - destruct Hwf as (Hs & Hm & Hw).
    rewrite (pair_put_is_backend_put hashf decompress compress round_trip) by (cbn [dec_dig d_size]; assumption).
    reflexivity.
  - destruct (sx_Z (sx_nth op 0) =? 1); [|reflexivity].
    rewrite (pair_get_is_direct_get hashf decompress compress round_trip) by (cbn [dec_dig d_size]; assumption).
    reflexivity.
Qed.

Theorem p_ops_pair_backend blobs zstd chunk : (0 < chunk)%nat ->
  forall ops st, Forall (op_wf14P blobs) ops ->
  p_ops blobs (pair_put hashf decompress compress zstd chunk []) (pair_get hashf decompress compress zstd chunk) st ops
  = p_ops blobs (backend_put hashf) (direct_get hashf) st ops.
Proof.
  intros Hc. induction ops as [|op ops IH]; intros st Hwf; [reflexivity|].
  inversion Hwf as [|? ? Hop Hops]. subst. cbn [p_ops].
  rewrite (p_op_pair_backend blobs zstd chunk st op Hc Hop).
  destruct (p_op blobs (backend_put hashf) (direct_get hashf) st op) as [st1 r].
  rewrite (IH st1 Hops). reflexivity.
Qed.

End Histories.

(** the judge's model of the pair is the armed backend used directly *)
Theorem run14P_is_backend inp : inp_wf14P inp -> run14P inp = run14P_backend inp.
Proof.
  intros [Hc Hwf]. unfold run14P, run14P_backend.
  rewrite (p_ops_pair_backend _ fdecompress fcompress fround_trip _ _ _ Hc _ _ Hwf). reflexivity.
Qed.

(** ** The monitor on the reference, hence on the model *)
Lemma mon_p_op_backend blobs st op :
  st_valid blobs st -> op_wf14P blobs op ->
  mon_p_op blobs st op (snd (p_op blobs (backend_put (hash_of blobs)) (direct_get (hash_of blobs)) st op))
  = ([], fst (p_op blobs (backend_put (hash_of blobs)) (direct_get (hash_of blobs)) st op))
  /\ st_valid blobs (fst (p_op blobs (backend_put (hash_of blobs)) (direct_get (hash_of blobs)) st op)).
Proof.
  intros Hst Hwf. unfold op_wf14P in Hwf. cbv zeta in Hwf. unfold mon_p_op, p_op.
  destruct (sx_Z (sx_nth op 0) =? 0) eqn:E0.
  - (* Put *)
    destruct Hwf as (_ & _ & Hw). unfold backend_put, fault_wf in *.
    set (d := dec_dig blobs (sx_nth op 1) (sx_nth op 2)).
    set (x := blob blobs (sx_Z (sx_nth op 5))).
    set (fm := sx_Z (sx_nth op 3)) in *. set (code := sx_Z (sx_nth op 4)) in *.
    destruct (fm =? 0) eqn:F0.
    + destruct (valid (hash_of blobs) d x) eqn:Hv; cbn [fst snd]; rewrite !sx_nth_L; cbn [nth sx_Z].
      * cbn. split; [reflexivity|]. apply st_put_valid; assumption.
      * cbn. split; [reflexivity|exact Hst].
    + assert (Hcode : (code =? 0) = false) by (apply Z.eqb_neq, Hw, Z.eqb_neq, F0).
      assert (Hpos : forall c, c = code \/ c = cInvalidArgument -> (c =? 0) = false).
      { intros c [->| ->]; [exact Hcode|reflexivity]. }
      destruct (fm =? 1); cbn [fst snd]; rewrite !sx_nth_L; cbn [nth sx_Z];
        [destruct (valid (hash_of blobs) d x)|];
        rewrite ?Hcode, ?Z.eqb_refl, ?andb_false_r, ?andb_false_l; cbn [andb orb negb cl app];
        rewrite ?andb_false_r; cbn [cl app]; (split; [reflexivity|exact Hst]).
  - destruct (sx_Z (sx_nth op 0) =? 1) eqn:E1.
    + (* Get *)
      unfold direct_get, backend_get.
      destruct (st_get st (dec_dig blobs (sx_nth op 1) (sx_nth op 2))) as [y|] eqn:Eg.
      * assert (Hv : valid (hash_of blobs) (dec_dig blobs (sx_nth op 1) (sx_nth op 2)) y = true)
          by (eapply Hst, st_get_some; eauto).
        rewrite Hv. cbn [fst snd]. rewrite !sx_nth_L. cbn [nth sx_Z].
        rewrite sx_Zs_of_Zs, bytes_eqb_refl. cbn. split; [reflexivity|exact Hst].
      * cbn [fst snd]. rewrite !sx_nth_L. cbn. split; [reflexivity|exact Hst].
    + (* FindMissing *)
      set (ds := map (fun e => dec_dig blobs (sx_nth e 0) (sx_nth e 1)) (sx_list (sx_nth op 1))) in *.
      assert (Hfm : find_missing (missing_in st) 0 ds = (0, filter (missing_in st) ds)).
      { destruct ds as [|d0 ds'] eqn:Eds; [reflexivity|]. rewrite <- Eds.
        rewrite find_missing_ne by (rewrite Eds; discriminate).
        assert (Hn : existsb (fun d0 => d_size d0 <? 0) ds = false).
        { unfold ds. rewrite existsb_map. cbn [dec_dig d_size].
          destruct (existsb _ _) eqn:Ex; [|reflexivity]. apply existsb_exists in Ex.
          destruct Ex as (e & He & Hlt). rewrite Forall_forall in Hwf. specialize (Hwf e He).
          apply Z.ltb_lt in Hlt. lia. }
        rewrite Hn. reflexivity. }
      rewrite Hfm. cbn [fst snd]. rewrite !sx_nth_L. cbn [nth sx_Z sx_list Z.eqb andb].
      destruct (fm_generic ds (missing_in st) _ (sx_seteq_refl _)) as [G1 G2].
      rewrite G1, G2. cbn. split; [reflexivity|exact Hst].
Qed.

Lemma mon_p_ops_backend blobs : forall ops st,
  st_valid blobs st -> Forall (op_wf14P blobs) ops ->
  mon_p_ops blobs st ops (snd (p_ops blobs (backend_put (hash_of blobs)) (direct_get (hash_of blobs)) st ops))
  = ([], fst (p_ops blobs (backend_put (hash_of blobs)) (direct_get (hash_of blobs)) st ops)).
Proof.
  induction ops as [|op ops IH]; intros st Hst Hwf; [reflexivity|].
  inversion Hwf as [|? ? Hop Hops]. subst. cbn [p_ops].
  destruct (mon_p_op_backend blobs st op Hst Hop) as [Hm Hst1].
  destruct (p_op blobs (backend_put (hash_of blobs)) (direct_get (hash_of blobs)) st op) as [st1 r].
  cbn [fst snd] in Hm, Hst1. specialize (IH st1 Hst1 Hops).
  destruct (p_ops blobs (backend_put (hash_of blobs)) (direct_get (hash_of blobs)) st1 ops) as [st2 rs].
  cbn [fst snd] in *. cbn [mon_p_ops]. rewrite Hm, IH. reflexivity.
Qed.

Lemma st_valid_nil blobs : st_valid blobs [].
Proof. intros d y []. Qed.

Theorem mon14P_silent_on_backend inp : inp_wf14P inp -> mon14P inp (run14P_backend inp) = [].
Proof.
  intros [_ Hwf]. unfold mon14P, run14P_backend.
  pose proof (mon_p_ops_backend (dec_blobs (sx_nth inp 0)) _ [] (st_valid_nil _) Hwf) as Hm.
  destruct (p_ops (dec_blobs (sx_nth inp 0)) (backend_put (hash_of (dec_blobs (sx_nth inp 0))))
                  (direct_get (hash_of (dec_blobs (sx_nth inp 0)))) [] (sx_list (sx_nth inp 3))) as [st rs].
  cbn [fst snd] in Hm. rewrite !sx_nth_L. cbn [nth sx_list]. rewrite Hm. cbn [app].
  unfold enc_final. rewrite map_length, Nat.eqb_refl, sx_seteq_refl. reflexivity.
Qed.

Theorem mon14P_silent_on_model inp : inp_wf14P inp -> mon14P inp (run14P inp) = [].
Proof. intro Hwf. rewrite run14P_is_backend by exact Hwf. apply mon14P_silent_on_backend, Hwf. Qed.

(** the model's own output is accepted by the judge *)
Lemma p_res_all_refl blobs : forall ops ms, length ops = length ms -> p_res_all blobs ops ms ms = true.
Proof.
  induction ops as [|op ops IH]; intros [|m ms] H; try discriminate; [reflexivity|].
  cbn [p_res_all]. rewrite IH by (cbn in H; lia). rewrite andb_true_r. unfold p_res_eqb.
  rewrite !sx_eqb_refl, sx_seteq_refl. cbn [orb andb].
  destruct (sx_Z (sx_nth op 0) =? 2); [reflexivity|]. destruct (early_end blobs op); reflexivity.
Qed.

Lemma p_ops_length blobs put get : forall ops st, length (snd (p_ops blobs put get st ops)) = length ops.
Proof.
  induction ops as [|op ops IH]; intro st; [reflexivity|]. cbn [p_ops].
  destruct (p_op blobs put get st op) as [st1 r]. specialize (IH st1).
  destruct (p_ops blobs put get st1 ops) as [st2 rs]. cbn [snd length] in *. rewrite IH. reflexivity.
Qed.

Theorem agree14P_model inp : agree14P inp (run14P inp) (run14P inp) = true.
Proof.
  unfold agree14P, run14P.
  pose proof (p_ops_length (dec_blobs (sx_nth inp 0))
    (pair_put (hash_of (dec_blobs (sx_nth inp 0))) fdecompress fcompress (mode_zstd (sx_Z (sx_nth inp 1))) (sx_nat (sx_nth inp 2)) [])
    (pair_get (hash_of (dec_blobs (sx_nth inp 0))) fdecompress fcompress (mode_zstd (sx_Z (sx_nth inp 1))) (sx_nat (sx_nth inp 2)))
    (sx_list (sx_nth inp 3)) []) as Hl.
  destruct (p_ops _ _ _ [] (sx_list (sx_nth inp 3))) as [st rs]. cbn [snd] in Hl.
  rewrite !sx_nth_L. cbn [nth sx_list].
  rewrite p_res_all_refl by (symmetry; exact Hl). rewrite Nat.eqb_refl, sx_seteq_refl. reflexivity.
Qed.
