(** C14: sx interface of the RPC models (decoders, run, monitor, judge).

    Input shapes are described in harness/c14.go.  The observation is
    [(oracle result)]: the oracle carries what the real zstd library answers
    for every message prefix of a compressed upload; the model takes it as its
    [decompress] argument.  The hash function argument is "index of the byte
    string among the case's blobs" (the harness uses MD5 of the same blobs). *)
From BBS Require Import Common.Sx Rpc.ByteStream Rpc.Batch Rpc.ClientServer.

(** ** Generic helpers *)
Fixpoint bytes_eqb (a b : bytes) : bool :=
  match a, b with
  | [], [] => true
  | x :: a', y :: b' => (x =? y) && bytes_eqb a' b'
  | _, _ => false
  end.

Fixpoint index_of (x : bytes) (l : list bytes) (i : Z) : Z :=
  match l with
  | [] => 0
  | y :: l' => if bytes_eqb x y then i else index_of x l' (i + 1)
  end.

(** hash of [x] = 1 + first index of [x] among the blobs, 0 for foreign strings *)
Definition hash_of (blobs : list bytes) (x : bytes) : Z := index_of x blobs 1.

Fixpoint is_prefix (p x : bytes) : bool :=
  match p, x with
  | [], _ => true
  | a :: p', b :: x' => (a =? b) && is_prefix p' x'
  | _, [] => false
  end.

Definition dec_blobs (s : sx) : list bytes := map sx_Zs (sx_list s).
Definition blob (blobs : list bytes) (bi : Z) : bytes := nth (Z.to_nat bi) blobs [].
Definition dec_dig (blobs : list bytes) (bi size : sx) : dig :=
  mkD (hash_of blobs (blob blobs (sx_Z bi))) (sx_Z size).
Definition enc_ident (d : dig) : list sx := [A (d_hash d - 1); A (d_size d)].
Definition ident_eqb (s : sx) (d : dig) : bool :=
  (sx_Z (sx_nth s 0) =? d_hash d - 1) && (sx_Z (sx_nth s 1) =? d_size d).

Definition dec_rn (blobs : list bytes) (s : sx) : rname :=
  let rk := sx_Z (sx_nth s 0) in
  let d := dec_dig blobs (sx_nth s 1) (sx_nth s 2) in
  if rk =? 3 then RBad cInvalidArgument
  else if d_size d <? 0 then RBad cInvalidArgument
  else if rk =? 0 then RIdentity d
  else if rk =? 1 then RZstd d
  else ROther.

Definition rn_dig (blobs : list bytes) (s : sx) : dig := dec_dig blobs (sx_nth s 1) (sx_nth s 2).

Definition dec_msg (s : sx) : wmsg := mkW (sx_Z (sx_nth s 0)) (sx_Zs (sx_nth s 1)) (sx_bool (sx_nth s 2)).
Definition dec_term (s : sx) : term := if sx_Z s =? 0 then TEof else TErr (sx_Z s).

(** The oracle: decompression of the concatenation of the first k messages. *)
Fixpoint table_lookup (c acc : bytes) (datas : list bytes) (orc : list sx) : dres :=
  match datas, orc with
  | d :: ds, o :: os =>
      let acc' := acc ++ d in
      if bytes_eqb acc' c
      then (match o with
            | L [A 1; b] => DOk (sx_Zs b)
            | L [A 2; b] => DTrunc (sx_Zs b)
            | _ => DBad end)
      else table_lookup c acc' ds os
  | _, _ => DBad
  end.
Definition oracle_decompress (ms : list wmsg) (orc : sx) (c : bytes) : dres :=
  table_lookup c [] (map w_data ms) (sx_list orc).

(** A stand-in codec for the parts where both ends are the model. *)
Definition fcompress (x : bytes) : bytes := 40 :: x.
Definition fdecompress (c : bytes) : dres :=
  match c with [] => DOk [] | 40 :: x => DOk x | _ => DBad end.

Definition dec_sendfail (s : sx) : option (nat * Z) :=
  match s with L [A j; A c] => Some (Z.to_nat j, c) | _ => None end.

(** Backend answer of the harness's backend for a Get, from the mode. *)
Definition get_of_mode (blobs : list bytes) (bm : Z) (x : bytes) (d : dig) : bytes + Z :=
  if bm =? 0 then backend_get (hash_of blobs) (Some x) d
  else if bm =? 1 then inr cInternal
  else inr bm.

(** ** run: the operational model *)
Definition enc_stored (d : dig) (o : option bytes) : sx :=
  match o with None => L [] | Some x => L [L (enc_ident d ++ [of_Zs x])] end.

Definition run_write (inp orc : sx) : sx :=
  let blobs := dec_blobs (sx_nth inp 1) in
  let ms := map dec_msg (sx_list (sx_nth inp 3)) in
  let r := write (hash_of blobs) (oracle_decompress ms orc) (sx_Z (sx_nth inp 5))
                 (dec_rn blobs (sx_nth inp 2)) ms (dec_term (sx_nth inp 4)) in
  L [A (wr_code r); of_Zs (wr_alts r); A (wr_committed r);
     enc_stored (rn_dig blobs (sx_nth inp 2)) (wr_stored r)].

Definition run_read (inp : sx) : sx :=
  let blobs := dec_blobs (sx_nth inp 1) in
  let rn := dec_rn blobs (sx_nth inp 2) in
  let x := blob blobs (sx_Z (sx_nth (sx_nth inp 2) 1)) in
  let get := get_of_mode blobs (sx_Z (sx_nth inp 3)) x in
  let k := sx_Z (sx_nth inp 4) in
  let chunk := sx_nat (sx_nth inp 6) in
  match rn with
  | RZstd _ =>
      (* compare on the decoded stream, without the send fault (judged separately) *)
      let '(c, msgs) := read fcompress rn (sx_Z (sx_nth inp 5)) get k chunk [] None in
      L [A c; L []; of_Zs (match decoded (fdecompress (concat msgs)) with Some y => y | None => [] end); A 1]
  | _ =>
      let '(c, msgs) := read fcompress rn (sx_Z (sx_nth inp 5)) get k chunk [] (dec_sendfail (sx_nth inp 7)) in
      L [A c; L (map of_Zs msgs); of_Zs (concat msgs); A 1]
  end.

Definition dec_uentry (blobs : list bytes) (s : sx) : dig * bytes * Z :=
  (dec_dig blobs (sx_nth s 0) (sx_nth s 1), sx_Zs (sx_nth s 2), sx_Z (sx_nth s 3)).

(** several entries may name the same digest: the backend's Put mode of a
    digest is that of the last entry naming it with a non-zero mode *)
Definition upd_mode (es : list (dig * bytes * Z)) (d : dig) : Z :=
  fold_left (fun acc e => if dig_eqb (fst (fst e)) d && negb (snd e =? 0) then snd e else acc) es 0.

Definition run_batch_update (inp : sx) : sx :=
  let blobs := dec_blobs (sx_nth inp 1) in
  let es := map (dec_uentry blobs) (sx_list (sx_nth inp 2)) in
  let es' := map (fun e => (fst e, upd_mode es (fst (fst e)))) es in
  let rs := batch_update (hash_of blobs) es' in
  L [A 0;
     L (map (fun p => L [L (enc_ident (fst (fst (fst p)))); A (fst (snd p))]) (combine es rs));
     L (flat_map (fun p => match snd (snd p) with
                           | Some x => [L (enc_ident (fst (fst (fst p))) ++ [of_Zs x])]
                           | None => [] end) (combine es rs))].

(** the backend holds, for a digest, what the last entry naming it planted *)
Definition rd_mode (es : list (dig * Z * bytes)) (d : dig) : bytes + Z :=
  fold_left (fun acc e => if dig_eqb (fst (fst e)) d then
                            (let bm := snd (fst e) in
                             if bm =? 0 then inl (snd e) else if bm =? 1 then inr 1 else inr bm)
                          else acc) es (inr 5).

Definition dec_rentry (blobs : list bytes) (s : sx) : dig * Z * bytes :=
  (dec_dig blobs (sx_nth s 0) (sx_nth s 1), sx_Z (sx_nth s 2), blob blobs (sx_Z (sx_nth s 0))).

Definition rd_get (blobs : list bytes) (es : list (dig * Z * bytes)) (d : dig) : bytes + Z :=
  match rd_mode es d with
  | inl x => backend_get (hash_of blobs) (Some x) d
  | inr c => if c =? 1 then inr cInternal else inr c
  end.

Definition run_batch_read (inp : sx) : sx :=
  let blobs := dec_blobs (sx_nth inp 1) in
  let es := map (dec_rentry blobs) (sx_list (sx_nth inp 2)) in
  let ds := map (fun e => fst (fst e)) es in
  match batch_read (rd_get blobs es) (sx_Z (sx_nth inp 3)) ds with
  | None => L [A cInvalidArgument; L []]
  | Some rs => L [A 0; L (map (fun p => L [L (enc_ident (fst p)); A (fst (snd p)); of_Zs (snd (snd p))])
                               (combine ds rs))]
  end.

Definition dec_fentry (blobs : list bytes) (s : sx) : dig * bool :=
  (dec_dig blobs (sx_nth s 0) (sx_nth s 1), sx_bool (sx_nth s 2)).
Definition fm_missing (es : list (dig * bool)) (d : dig) : bool :=
  existsb (fun e => dig_eqb (fst e) d && snd e) es.

Definition run_find_missing (inp : sx) : sx :=
  let blobs := dec_blobs (sx_nth inp 1) in
  let es := map (dec_fentry blobs) (sx_list (sx_nth inp 2)) in
  let '(c, ms) := find_missing (fm_missing es) (sx_Z (sx_nth inp 3)) (map fst es) in
  L [A c; L (map (fun d => L (enc_ident d)) ms)].

(** client <-> server: the store is an association list digest -> bytes *)
Definition store := list (dig * bytes).
Definition st_get (s : store) (d : dig) : option bytes :=
  match find (fun e => dig_eqb (fst e) d) s with Some e => Some (snd e) | None => None end.
Definition st_put (s : store) (d : dig) (x : bytes) : store :=
  (d, x) :: filter (fun e => negb (dig_eqb (fst e) d)) s.

Definition cs_op (blobs : list bytes) (zstd : bool) (chunk : nat) (st : store) (op : sx) : store * sx :=
  let k := sx_Z (sx_nth op 0) in
  if k =? 0 then
    let d := dec_dig blobs (sx_nth op 1) (sx_nth op 2) in
    let r := client_put (hash_of blobs) fdecompress fcompress zstd chunk [] d (blob blobs (sx_Z (sx_nth op 1))) in
    (match wr_stored r with Some x => st_put st d x | None => st end, L [A (wr_code r); L []])
  else if k =? 1 then
    let d := dec_dig blobs (sx_nth op 1) (sx_nth op 2) in
    match client_get (hash_of blobs) fdecompress fcompress zstd chunk [] []
                     (fun d' => backend_get (hash_of blobs) (st_get st d') d') d with
    | inl x => (st, L [A 0; of_Zs x])
    | inr c => (st, L [A c; L []])
    end
  else
    let ds := map (fun e => dec_dig blobs (sx_nth e 0) (sx_nth e 1)) (sx_list (sx_nth op 1)) in
    let '(c, ms) := find_missing (fun d => match st_get st d with None => true | Some _ => false end) 0 ds in
    (st, L [A c; L (map (fun d => L (enc_ident d)) ms)]).

Fixpoint cs_ops (blobs : list bytes) (zstd : bool) (chunk : nat) (st : store) (ops : list sx) : store * list sx :=
  match ops with
  | [] => (st, [])
  | op :: ops' => let '(st', r) := cs_op blobs zstd chunk st op in
                  let '(st'', rs) := cs_ops blobs zstd chunk st' ops' in (st'', r :: rs)
  end.

Definition run_cs (inp : sx) : sx :=
  let blobs := dec_blobs (sx_nth inp 1) in
  let '(st, rs) := cs_ops blobs (negb (sx_Z (sx_nth inp 2) =? 0)) (sx_nat (sx_nth inp 3)) [] (sx_list (sx_nth inp 4)) in
  L [L rs; L (map (fun e => L (enc_ident (fst e) ++ [of_Zs (snd e)])) st)].

(** ActionCache: the service is the backend's map from action digest to result *)
Fixpoint ac_ops (st : list (Z * Z)) (ops : list sx) : list sx :=
  match ops with
  | [] => []
  | op :: ops' =>
      let key := sx_Z (sx_nth op 1) in
      if sx_Z (sx_nth op 0) =? 0
      then L [A 0; A 0] :: ac_ops ((key, sx_Z (sx_nth op 2)) :: st) ops'
      else match find (fun e => fst e =? key) st with
           | Some e => L [A 0; A (snd e)]
           | None => L [A cNotFound; A 0]
           end :: ac_ops st ops'
  end.
Definition run_ac (inp : sx) : sx := L (ac_ops [] (sx_list (sx_nth inp 1))).

Definition run14 (inp orc : sx) : sx :=
  let k := sx_Z (sx_nth inp 0) in
  if k =? 0 then run_write inp orc
  else if k =? 1 then run_read inp
  else if k =? 2 then run_batch_update inp
  else if k =? 3 then run_batch_read inp
  else if k =? 4 then run_find_missing inp
  else if k =? 5 then run_cs inp
  else run_ac inp.

(** ** agreement of an implementation observation with the model's output *)
Definition sx_forall2 (f : sx -> sx -> bool) (a b : list sx) : bool :=
  (length a =? length b)%nat && forallb (fun p => f (fst p) (snd p)) (combine a b).
Definition sx_subset (a b : list sx) : bool := forallb (fun x => existsb (sx_eqb x) b) a.
Definition sx_seteq (a b : list sx) : bool := sx_subset a b && sx_subset b a.
(** per-operation results of a client<->server case: FindMissing answers are sets *)
Definition cs_res_eqb (op r m : sx) : bool :=
  if sx_Z (sx_nth op 0) =? 2
  then sx_eqb (sx_nth r 0) (sx_nth m 0) && sx_seteq (sx_list (sx_nth r 1)) (sx_list (sx_nth m 1))
  else sx_eqb r m.
Fixpoint cs_res_all (ops rs ms : list sx) : bool :=
  match ops, rs, ms with
  | [], [], [] => true
  | op :: ops', r :: rs', m :: ms' => cs_res_eqb op r m && cs_res_all ops' rs' ms'
  | _, _, _ => false
  end.

Definition agree14 (inp m res : sx) : bool :=
  let k := sx_Z (sx_nth inp 0) in
  if k =? 0 then
    let c := sx_Z (sx_nth res 0) in
    ((c =? sx_Z (sx_nth m 0)) && ((negb (c =? 0)) || (sx_Z (sx_nth res 1) =? sx_Z (sx_nth m 2)))
     && sx_eqb (sx_nth res 2) (sx_nth m 3))
    || (existsb (Z.eqb c) (sx_Zs (sx_nth m 1)) && sx_eqb (sx_nth res 2) (L []))
  else if k =? 1 then
    let zstd := sx_Z (sx_nth (sx_nth inp 2) 0) =? 1 in
    let chunk := sx_Z (sx_nth inp 6) in
    if zstd then
      match dec_sendfail (sx_nth inp 7) with
      | None => sx_eqb (sx_nth res 0) (sx_nth m 0) && sx_eqb (sx_nth res 2) (sx_nth m 2)
                && sx_eqb (sx_nth res 3) (sx_nth m 3)
      | Some (_, fc) =>
          if negb (sx_Z (sx_nth m 0) =? 0) then sx_eqb (sx_nth res 0) (sx_nth m 0) && sx_eqb (sx_nth res 2) (L [])
          else if sx_Z (sx_nth res 0) =? 0
               then sx_eqb (sx_nth res 2) (sx_nth m 2) && sx_eqb (sx_nth res 3) (sx_nth m 3)
               else (sx_Z (sx_nth res 0) =? fc) && is_prefix (sx_Zs (sx_nth res 2)) (sx_Zs (sx_nth m 2))
      end
    else sx_eqb res m
  else if k =? 5 then
    cs_res_all (sx_list (sx_nth inp 4)) (sx_list (sx_nth res 0)) (sx_list (sx_nth m 0))
    && (length (sx_list (sx_nth res 1)) =? length (sx_list (sx_nth m 1)))%nat
    && sx_seteq (sx_list (sx_nth res 1)) (sx_list (sx_nth m 1))
  else if k =? 4 then
    sx_eqb (sx_nth res 0) (sx_nth m 0) && sx_seteq (sx_list (sx_nth res 1)) (sx_list (sx_nth m 1))
  else sx_eqb res m.

(** ** The monitor: the property, evaluated on implementation observations.
    It uses the specification notions only (contiguity, finish, validity,
    suffix, the backend's state), not the operational functions above. *)
Fixpoint upto_fin (ms : list wmsg) : list wmsg :=
  match ms with
  | [] => []
  | m :: ms' => if w_fin m then [m] else m :: upto_fin ms'
  end.
Fixpoint contiguous_b (woff : Z) (ms : list wmsg) : bool :=
  match ms with
  | [] => true
  | m :: ms' => (w_off m =? woff) && contiguous_b (woff + blen (w_data m)) ms'
  end.
Definition tail_contiguous (ms : list wmsg) : bool :=
  match ms with [] => true | m :: ms' => contiguous_b (blen (w_data m)) ms' end.
Definition fin_last_only (ms : list wmsg) : bool :=
  match rev ms with
  | [] => false
  | l :: pre => w_fin l && forallb (fun m => negb (w_fin m)) pre
  end.
Definition cl (b : bool) (n : Z) : list Z := if b then [n] else [].

Definition mon_write (inp orc res : sx) : list Z :=
  let blobs := dec_blobs (sx_nth inp 1) in
  let rk := sx_Z (sx_nth (sx_nth inp 2) 0) in
  let d := rn_dig blobs (sx_nth inp 2) in
  let ms := map dec_msg (sx_list (sx_nth inp 3)) in
  let zstd := rk =? 1 in
  (* a compressed upload is over at the first finish_write: later messages are not part of it *)
  let used := if zstd then upto_fin ms else ms in
  let code := sx_Z (sx_nth res 0) in
  let stored := sx_list (sx_nth res 2) in
  let any := negb (match stored with [] => true | _ => false end) in
  let payload := concat (map w_data used) in
  let content := if zstd then decoded (oracle_decompress ms orc payload) else Some payload in
  let good := match stored, content with
              | [o], Some x => ((rk =? 0) || (rk =? 1)) && ident_eqb o d
                               && bytes_eqb (sx_Zs (sx_nth o 2)) x && valid (hash_of blobs) d x
              | _, _ => false
              end in
  (* 1: stored although the first write_offset is not zero *)
  cl (any && match ms with m :: _ => negb (w_off m =? 0) | [] => true end) 1 ++
  (* 2: stored although offsets are not contiguous or the upload was not finished properly *)
  cl (any && negb (tail_contiguous used && fin_last_only used
                   && (zstd || match dec_term (sx_nth inp 4) with TEof => true | _ => false end))) 2 ++
  (* 3: what was stored is not the (decompressed) concatenation, or does not match the digest *)
  cl (any && negb good) 3 ++
  (* 4: the RPC failed but something became visible *)
  cl (negb (code =? 0) && any) 4 ++
  (* 5: the RPC succeeded but nothing was stored *)
  cl ((code =? 0) && negb any) 5.

Definition mon_read (inp res : sx) : list Z :=
  let blobs := dec_blobs (sx_nth inp 1) in
  let rk := sx_Z (sx_nth (sx_nth inp 2) 0) in
  let d := rn_dig blobs (sx_nth inp 2) in
  let x := blob blobs (sx_Z (sx_nth (sx_nth inp 2) 1)) in
  let present := ((rk =? 0) || (rk =? 1)) && (sx_Z (sx_nth inp 3) =? 0) && valid (hash_of blobs) d x in
  let k := sx_Z (sx_nth inp 4) in
  let code := sx_Z (sx_nth res 0) in
  let got := sx_Zs (sx_nth res 2) in
  let complete := sx_bool (sx_nth res 3) in
  if negb (sx_Z (sx_nth inp 5) =? 0) then []          (* read_limit: not part of the property *)
  else if present && (0 <=? k) && (k <=? blen x) then
    let suffix := skipn (Z.to_nat k) x in
    match dec_sendfail (sx_nth inp 7) with
    | None => cl (negb ((code =? 0) && bytes_eqb got suffix && complete)) 6
    | Some _ => cl (negb (is_prefix got suffix && ((negb (code =? 0)) || (bytes_eqb got suffix && complete)))) 6
    end
  else cl (negb (match got with [] => true | _ => false end)) 6.

Definition mon_batch_update (inp res : sx) : list Z :=
  let blobs := dec_blobs (sx_nth inp 1) in
  let es := map (dec_uentry blobs) (sx_list (sx_nth inp 2)) in
  let code := sx_Z (sx_nth res 0) in
  let sts := sx_list (sx_nth res 1) in
  let stored := sx_list (sx_nth res 2) in
  let ok_status := (code =? 0) && (length sts =? length es)%nat
                   && forallb (fun p => ident_eqb (sx_nth (fst p) 0) (fst (fst (snd p)))) (combine sts es) in
  let pairs := combine sts es in
  (* every stored object matches its digest and was sent, with an OK status, in this call *)
  let stored_ok := forallb (fun o =>
       existsb (fun p => let d := fst (fst (snd p)) in
                         ident_eqb o d && bytes_eqb (sx_Zs (sx_nth o 2)) (snd (fst (snd p)))
                         && valid (hash_of blobs) d (snd (fst (snd p)))
                         && (sx_Z (sx_nth (fst p) 1) =? 0)) pairs) stored in
  (* every OK status is backed by a stored object *)
  let ok_backed := forallb (fun p => negb (sx_Z (sx_nth (fst p) 1) =? 0)
       || existsb (fun o => ident_eqb o (fst (fst (snd p))) && bytes_eqb (sx_Zs (sx_nth o 2)) (snd (fst (snd p)))) stored) pairs in
  cl (negb (ok_status && stored_ok && ok_backed)) 8.

Definition mon_batch_read (inp res : sx) : list Z :=
  let blobs := dec_blobs (sx_nth inp 1) in
  let es := map (dec_rentry blobs) (sx_list (sx_nth inp 2)) in
  let code := sx_Z (sx_nth res 0) in
  let rs := sx_list (sx_nth res 1) in
  if negb (code =? 0) then cl (negb (match rs with [] => true | _ => false end)) 9
  else
    cl (negb ((length rs =? length es)%nat
        && forallb (fun p => let e := snd p in let r := fst p in
             let d := fst (fst e) in
             ident_eqb (sx_nth r 0) d &&
             match rd_mode es d with
             | inl x => if valid (hash_of blobs) d x
                        then (sx_Z (sx_nth r 1) =? 0) && bytes_eqb (sx_Zs (sx_nth r 2)) x   (* the backend's object, exactly *)
                        else negb (sx_Z (sx_nth r 1) =? 0) && bytes_eqb (sx_Zs (sx_nth r 2)) []  (* never a mismatch *)
             | inr _ => negb (sx_Z (sx_nth r 1) =? 0) && bytes_eqb (sx_Zs (sx_nth r 2)) []
             end) (combine rs es))) 9.

Definition mon_find_missing (inp res : sx) : list Z :=
  let blobs := dec_blobs (sx_nth inp 1) in
  let es := map (dec_fentry blobs) (sx_list (sx_nth inp 2)) in
  let code := sx_Z (sx_nth res 0) in
  let ms := sx_list (sx_nth res 1) in
  let illformed := existsb (fun e => d_size (fst e) <? 0) es in
  if illformed || negb (sx_Z (sx_nth inp 3) =? 0)
  then cl (negb (match ms with [] => true | _ => false end) || ((code =? 0) && negb (match es with [] => true | _ => false end))) 10
  else
    cl (negb ((code =? 0)
              (* every reported digest was asked for and is missing in the backend *)
              && forallb (fun m => existsb (fun e => ident_eqb m (fst e) && fm_missing es (fst e)) es) ms
              (* every asked digest that the backend misses is reported *)
              && forallb (fun e => negb (fm_missing es (fst e)) || existsb (fun m => ident_eqb m (fst e)) ms) es)) 10.

(** client <-> server: like the backend itself *)
Fixpoint mon_cs_ops (blobs : list bytes) (st : store) (ops rs : list sx) : bool * store :=
  match ops, rs with
  | [], [] => (true, st)
  | op :: ops', r :: rs' =>
      let k := sx_Z (sx_nth op 0) in
      let code := sx_Z (sx_nth r 0) in
      if k =? 0 then
        let d := dec_dig blobs (sx_nth op 1) (sx_nth op 2) in
        let x := blob blobs (sx_Z (sx_nth op 1)) in
        if valid (hash_of blobs) d x
        then if code =? 0 then mon_cs_ops blobs (st_put st d x) ops' rs' else (false, st)
        else if code =? 0 then (false, st) else mon_cs_ops blobs st ops' rs'
      else if k =? 1 then
        let d := dec_dig blobs (sx_nth op 1) (sx_nth op 2) in
        let good := match st_get st d with
                    | Some x => (code =? 0) && bytes_eqb (sx_Zs (sx_nth r 1)) x
                    | None => (code =? cNotFound) && bytes_eqb (sx_Zs (sx_nth r 1)) []
                    end in
        if good then mon_cs_ops blobs st ops' rs' else (false, st)
      else
        let ds := map (fun e => dec_dig blobs (sx_nth e 0) (sx_nth e 1)) (sx_list (sx_nth op 1)) in
        let ms := sx_list (sx_nth r 1) in
        let miss d := match st_get st d with None => true | Some _ => false end in
        let good := (code =? 0)
                    && forallb (fun m => existsb (fun d => ident_eqb m d && miss d) ds) ms
                    && forallb (fun d => negb (miss d) || existsb (fun m => ident_eqb m d) ms) ds in
        if good then mon_cs_ops blobs st ops' rs' else (false, st)
  | _, _ => (false, st)
  end.

Definition mon_cs (inp res : sx) : list Z :=
  let blobs := dec_blobs (sx_nth inp 1) in
  let '(ok, st) := mon_cs_ops blobs [] (sx_list (sx_nth inp 4)) (sx_list (sx_nth res 0)) in
  let final := sx_list (sx_nth res 1) in
  cl (negb (ok && sx_seteq final (map (fun e => L (enc_ident (fst e) ++ [of_Zs (snd e)])) st))) 11.

Definition mon_ac (inp res : sx) : list Z :=
  cl (negb (sx_eqb res (run_ac inp))) 12.

Definition mon14 (inp obs : sx) : list Z :=
  let orc := sx_nth obs 0 in
  let res := sx_nth obs 1 in
  let k := sx_Z (sx_nth inp 0) in
  if k =? 0 then mon_write inp orc res
  else if k =? 1 then mon_read inp res
  else if k =? 2 then mon_batch_update inp res
  else if k =? 3 then mon_batch_read inp res
  else if k =? 4 then mon_find_missing inp res
  else if k =? 5 then mon_cs inp res
  else mon_ac inp res.

Definition judge14 (inp obs : sx) : sx :=
  let m := run14 inp (sx_nth obs 0) in
  let v := mon14 inp obs in
  verdict (agree14 inp m (sx_nth obs 1)) (negb (match v with [] => true | _ => false end)) m (of_Zs v).
