(** C16: sx interface of the model (decoders, run, monitor, judge).

    input  = (srcK (fn hash size) buffer (answer...) method table)
      buffer (0 (event...)) CAS chunk-reader buffer | (1 attach (event...)) CAS reader buffer
             | (2 bytes) validated byte slice | (3 code) error buffer
      answer (0 buffer) OnError returns a replacement | (1 code) OnError returns an error
      event, method, table, srcK as in C09 (Run/R09.v)
    obs    = (delivered code (extra codes) (callback verdicts) (OnError argument codes) Done-count aux) *)
From BBS Require Import Common.Sx Buffer.Source Buffer.Validate Buffer.Convert Buffer.ErrHandler Run.R09.
Open Scope Z_scope.

Definition dec_evs (s : sx) : list ev := map dec_ev (sx_list s).
Definition dec_buf (s : sx) : bufscript :=
  match s with
  | L [A 0; evs] => BChunk (dec_evs evs)
  | L [A 1; A a; evs] => BReader (dec_evs evs) (negb (a =? 0))
  | L [A 2; d] => BBytes (dec_bytes d)
  | L [A 3; A c] => BError c
  | _ => BError 2
  end.
Definition dec_answer (s : sx) : answer :=
  match s with
  | L [A 0; b] => Replace (dec_buf b)
  | L [A 1; A c] => Fail c
  | _ => Fail 2
  end.

Definition buf_fuel (b : bufscript) : nat :=
  match b with
  | BChunk e | BReader e _ => script_fuel e
  | BBytes d => (16 + 4 * length d)%nat
  | BError _ => 4%nat
  end.
Definition case_fuel (b0 : bufscript) (ans : list answer) : nat :=
  (buf_fuel b0 + fold_right (fun a n => match a with Replace b => buf_fuel b | _ => 4 end + n) 0 ans)%nat.

Definition is_onerror (h : hev) : bool := match h with HOnError _ => true | _ => false end.
Definition enc_out16 (report : bool) (o : outcome16) : sx :=
  L [of_Ns (x_data o); enc_err (x_err o); L (map enc_err (x_extra o));
     L (if report then map of_bool (x_cbs o) else []);
     L (flat_map (fun h => match h with HOnError e => [enc_err e] | HDone => [] end) (x_log o));
     of_nat (length (filter (fun h => negb (is_onerror h)) (x_log o)));
     of_Ns (x_aux o)].

Record case16 := mkCase16 {
  q_report : bool; q_cfg : vcfg; q_b0 : bufscript; q_ans : list answer; q_meth : meth;
  q_tbl : list (bytes * bytes)
}.
Definition dec_case16 (inp : sx) : case16 :=
  let d := sx_nth inp 1 in
  let report := sx_bool (sx_nth inp 0) in
  mkCase16 report (mkVcfg (dec_bytes (sx_nth d 1)) (sx_N (sx_nth d 2)) (if report then 13 else 3))
           (dec_buf (sx_nth inp 2)) (map dec_answer (sx_list (sx_nth inp 3)))
           (dec_meth (sx_nth inp 4)) (dec_table (sx_nth inp 5)).

Definition run16 (inp : sx) : sx :=
  let c := dec_case16 inp in
  enc_out16 (q_report c)
    (run_case (lookup (q_tbl c)) (q_cfg c) (case_fuel (q_b0 c) (q_ans c)) (q_b0 c) (q_ans c) (q_meth c)).

(** * Monitor.  Specification of the stitched unvalidated stream: what each
    buffer delivers from the offset reached so far until it ends or fails,
    the errors offered to the handler on the way, and how the stream ends. *)
Definition ucontent (b : bufscript) : bytes * err :=
  match b with
  | BChunk evs | BReader evs _ => content evs
  | BBytes d => (d, EEof)
  | BError c => ([], ECode c)
  end.
Definition piece_of (b : bufscript) (k : N) : bytes * err :=
  let '(c, t) := ucontent b in
  if (k <=? lenN c)%N then (dropN k c, t)
  else ([], match b with BBytes _ => ECode 3 | _ => t end).
Fixpoint stitch (b : bufscript) (k : N) (ans : list answer) : bytes * err * list err :=
  let '(p, t) := piece_of b k in
  match t with
  | EEof => (p, EEof, [])
  | _ =>
      match ans with
      | [] => (p, ECode 10, [t])
      | Fail c :: _ => (p, ECode c, [t])
      | Replace b' :: rest =>
          let '(p2, t2, offs) := stitch b' (k + lenN p)%N rest in (p ++ p2, t2, t :: offs)
      end
  end.

Fixpoint bytes_prefix (a b : bytes) : bool :=
  match a, b with
  | [], _ => true
  | x :: a', y :: b' => (x =? y)%N && bytes_prefix a' b'
  | _, _ => false
  end.
Fixpoint is_prefix (a b : list Z) : bool :=
  match a, b with
  | [], _ => true
  | x :: a', y :: b' => (x =? y) && is_prefix a' b'
  | _, _ => false
  end.
Definition code_of (e : err) : Z :=
  match e with ENone => 0 | EEof => -1 | EUnexp => -2 | EFuel => -3 | ECode c => c end.

(** the buffer in use after [j] replacements *)
Fixpoint buffer_after (b : bufscript) (ans : list answer) (j : nat) : option bufscript :=
  match j, ans with
  | O, _ => Some b
  | S j', Replace b' :: rest => buffer_after b' rest j'
  | S _, _ => None
  end.
Definition all_bytes_trusted (valid : bytes -> bool) (b0 : bufscript) (ans : list answer) : bool :=
  forallb (fun b => match b with BBytes d => valid d | _ => true end)
          (b0 :: flat_map (fun a => match a with Replace b => [b] | _ => [] end) ans).

Definition mon16 (inp obs : sx) : list Z :=
  let c := dec_case16 inp in
  let H := lookup (q_tbl c) in
  let size := g_size (q_cfg c) in
  let validb (d : bytes) := (lenN d =? size)%N && bytes_eqb (g_hash (q_cfg c)) (H d) in
  let m := q_meth c in
  let delivered := dec_bytes (sx_nth obs 0) in
  let code := sx_Z (sx_nth obs 1) in
  let offered := sx_Zs (sx_nth obs 4) in
  let dones := sx_Z (sx_nth obs 5) in
  let done := completes m code in
  let trusted := all_bytes_trusted validb (q_b0 c) (q_ans c) in
  let j := length offered in
  let streaming := match m with MIntoWriter | MToChunkReader _ _ _ | MToReader _ _ => true | _ => false end in
  let '(st, term, offs) := stitch (q_b0 c) 0 (q_ans c) in
  let st_valid := err_eqb term EEof && validb st in
  (* data handed over together with the handler's error may already exceed the digest's size *)
  let toolong (code : Z) := streaming && (code =? g_code (q_cfg c)) && (size <? lenN st)%N in
  (* 1: Done must be reported exactly once *)
  (if dones =? 1 then [] else [1]) ++
  (if is_discard m then [] else
  (* 2: the last answer consulted was an error: that error is what the consumer gets *)
  (match j with
   | O => []
   | S j' => match nth_error (q_ans c) j' with
             | Some (Fail c') => if (code =? c') || toolong code then [] else [2]
             | None => if (code =? 10) || toolong code then [] else [2]
             | Some (Replace _) => []
             end
   end) ++
  (if streaming then
     (* 3: completion => the stitched stream is valid and the consumer received exactly
           its expected slice: every byte once, in order *)
     (if done && trusted && negb (st_valid && bytes_eqb delivered (expected m st)) then [3] else []) ++
     (* 4: every I/O error of an underlying buffer is offered once, in order (none invented,
           none repeated, none skipped); all of them when the stream completed *)
     (if is_prefix offered (map code_of offs) && (negb done || (j =? length offs)%nat) then [] else [4]) ++
     (* 7: whatever the outcome, the bytes handed out are the stitched stream's, once and in order *)
     (if trusted && negb (bytes_prefix delivered (expected m st)) then [7] else []) ++
     (* 5: invalid stitched stream: fewer than size bytes handed out *)
     (if trusted && negb st_valid && negb (is_nil delivered)
         && negb (m_off m + Z.of_N (lenN delivered) <? Z.of_N size) then [5] else [])
   else
     (* 6: whole-operation retries: completion => the buffer in use after the offered
           errors holds valid content and the consumer received its expected slice *)
     (if done && trusted then
        match buffer_after (q_b0 c) (q_ans c) j with
        | Some b =>
            let '(cont, t) := ucontent b in
            if err_eqb t EEof && validb cont && bytes_eqb delivered (expected m cont) then [] else [6]
        | None => [6]
        end
      else []))).

Definition judge16 : sx -> sx -> sx := judge_det run16 mon16.
