(** C16: sx interface of the model (decoders, run, monitor, judge).

    input  = (srcK (fn hash size) buffer ((answer...) ...) method table)
      buffer (0 (event...)) CAS chunk-reader buffer | (1 attach (event...)) CAS reader buffer
             | (2 bytes) validated byte slice | (3 code) error buffer
      ((answer...) ...)  the script of each error handler of the stack, innermost first:
             WithErrorHandler(... WithErrorHandler(buffer, h0) ..., hk)
      answer (0 buffer) OnError returns a replacement | (1 code) OnError returns an error
      event, method, table, srcK as in C09 (Run/R09.v)
    obs    = (delivered code (extra codes) (callback verdicts)
              ((OnError argument codes) per level) (Done-count per level) aux
              (Close() count of the scripted source of every stream-backed buffer, creation order)) *)
From BBS Require Import Common.Sx Buffer.Source Buffer.Validate Buffer.Convert Buffer.ErrHandler Run.R09.
Open Scope Z_scope.

Definition dec_evs (s : sx) : list ev := map dec_ev (sx_list s).
Definition dec_buf (s : sx) : bufscript :=
  match s with
  | L [A 0; evs] => BChunk (dec_evs evs)
  | L [A 1; A a; evs] => BReader (dec_evs evs) (negb (a =? 0))
  | L [A 2; d] => BBytes (dec_bytes d)
  | L [A 3; A c] => BError c
  | _ => BError 2
  end.
Definition dec_answer (s : sx) : answer :=
  match s with
  | L [A 0; b] => Replace (dec_buf b)
  | L [A 1; A c] => Fail c
  | _ => Fail 2
  end.

Definition buf_fuel (b : bufscript) : nat :=
  match b with
  | BChunk e | BReader e _ => script_fuel e
  | BBytes d => (16 + 4 * length d)%nat
  | BError _ => 4%nat
  end.
Definition ans_fuel (ans : list answer) : nat :=
  fold_right (fun a n => match a with Replace b => buf_fuel b | _ => 4 end + n)%nat 0%nat ans.
Definition case_fuel (b0 : bufscript) (ans : list answer) : nat := (buf_fuel b0 + ans_fuel ans)%nat.
Definition stack_fuel (b0 : bufscript) (anss : list (list answer)) : nat :=
  (buf_fuel b0 + fold_right (fun ans n => ans_fuel ans + n)%nat 0%nat anss)%nat.

Definition is_onerror (h : hev) : bool := match h with HOnError _ => true | _ => false end.
Definition enc_onerrors (log : list hev) : sx :=
  L (flat_map (fun h => match h with HOnError e => [enc_err e] | HDone => [] end) log).
Definition enc_dones (log : list hev) : sx := of_nat (length (filter (fun h => negb (is_onerror h)) log)).
(** depth 1, the model of the single handler ([run_case]); projected observation *)
Definition enc_out16 (report : bool) (o : outcome16) : sx :=
  L [of_Ns (x_data o); enc_err (x_err o); L (map enc_err (x_extra o));
     L (if report then map of_bool (x_cbs o) else []);
     enc_onerrors (x_log o); enc_dones (x_log o); of_Ns (x_aux o)].
Definition enc_out16s (report : bool) (o : outcome16s) : sx :=
  L [of_Ns (y_data o); enc_err (y_err o); L (map enc_err (y_extra o));
     L (if report then map of_bool (y_cbs o) else []);
     L (map enc_onerrors (y_logs o)); L (map enc_dones (y_logs o)); of_Ns (y_aux o);
     of_nats (y_closes o)].

Record case16 := mkCase16 {
  q_report : bool; q_cfg : vcfg; q_b0 : bufscript; q_anss : list (list answer); q_meth : meth;
  q_tbl : list (bytes * bytes)
}.
Definition dec_case16 (inp : sx) : case16 :=
  let d := sx_nth inp 1 in
  let report := sx_bool (sx_nth inp 0) in
  mkCase16 report (mkVcfg (dec_bytes (sx_nth d 1)) (sx_N (sx_nth d 2)) (if report then 13 else 3))
           (dec_buf (sx_nth inp 2)) (map (fun l => map dec_answer (sx_list l)) (sx_list (sx_nth inp 3)))
           (dec_meth (sx_nth inp 4)) (dec_table (sx_nth inp 5)).

Definition run16 (inp : sx) : sx :=
  let c := dec_case16 inp in
  enc_out16s (q_report c)
    (run_stack (lookup (q_tbl c)) (q_cfg c) (stack_fuel (q_b0 c) (q_anss c)) (q_b0 c) (q_anss c) (q_meth c)).

(** a stack of one handler is also run through the model of the single
    handler, the subject of the theorems on [ehc_read], [try_repeatedly] and [run_case] *)
Definition run16_single (inp : sx) : option sx :=
  let c := dec_case16 inp in
  match q_anss c with
  | [ans] => Some (enc_out16 (q_report c)
               (run_case (lookup (q_tbl c)) (q_cfg c) (case_fuel (q_b0 c) ans) (q_b0 c) ans (q_meth c)))
  | _ => None
  end.
Definition project_single (obs : sx) : sx :=
  L [sx_nth obs 0; sx_nth obs 1; sx_nth obs 2; sx_nth obs 3; sx_nth (sx_nth obs 4) 0; sx_nth (sx_nth obs 5) 0;
     sx_nth obs 6].

(** * Monitor.  Specification of the stitched unvalidated stream: what each
    buffer delivers from the offset reached so far until it ends or fails,
    the errors offered to the handler on the way, and how the stream ends. *)
Definition ucontent (b : bufscript) : bytes * err :=
  match b with
  | BChunk evs | BReader evs _ => content evs
  | BBytes d => (d, EEof)
  | BError c => ([], ECode c)
  end.
Definition piece_of (b : bufscript) (k : N) : bytes * err :=
  let '(c, t) := ucontent b in
  if (k <=? lenN c)%N then (dropN k c, t)
  else ([], match b with BBytes _ => ECode 3 | _ => t end).
Fixpoint stitch (b : bufscript) (k : N) (ans : list answer) : bytes * err * list err :=
  let '(p, t) := piece_of b k in
  match t with
  | EEof => (p, EEof, [])
  | _ =>
      match ans with
      | [] => (p, ECode 10, [t])
      | Fail c :: _ => (p, ECode c, [t])
      | Replace b' :: rest =>
          let '(p2, t2, offs) := stitch b' (k + lenN p)%N rest in (p ++ p2, t2, t :: offs)
      end
  end.
(** the stream of one level of a stack: its base delivers [p] and ends with [t] *)
Definition stitch_from (p : bytes) (t : err) (ans : list answer) : bytes * err * list err :=
  match t with
  | EEof => (p, EEof, [])
  | _ =>
      match ans with
      | [] => (p, ECode 10, [t])
      | Fail c :: _ => (p, ECode c, [t])
      | Replace b' :: rest =>
          let '(p2, t2, offs) := stitch b' (lenN p) rest in (p ++ p2, t2, t :: offs)
      end
  end.
(** the stream of the stack and, per level, the errors it is offered *)
Fixpoint stitch_stack (p : bytes) (t : err) (anss : list (list answer)) : bytes * err * list (list err) :=
  match anss with
  | [] => (p, t, [])
  | ans :: rest =>
      let '(p1, t1, offs) := stitch_from p t ans in
      let '(p2, t2, offss) := stitch_stack p1 t1 rest in (p2, t2, offs :: offss)
  end.

Fixpoint bytes_prefix (a b : bytes) : bool :=
  match a, b with
  | [], _ => true
  | x :: a', y :: b' => (x =? y)%N && bytes_prefix a' b'
  | _, _ => false
  end.
Fixpoint is_prefix (a b : list Z) : bool :=
  match a, b with
  | [], _ => true
  | x :: a', y :: b' => (x =? y) && is_prefix a' b'
  | _, _ => false
  end.
Definition code_of (e : err) : Z :=
  match e with ENone => 0 | EEof => -1 | EUnexp => -2 | EFuel => -3 | ECode c => c end.

(** the error a handler has returned, given its script and what it was offered:
    its answer to the last offer (a handler without further answers says 10) *)
Definition returned (ans : list answer) (j : nat) : option Z :=
  match j with
  | O => None
  | S j' => match nth_error ans j' with
            | Some (Fail c) => Some c
            | None => Some 10
            | Some (Replace _) => None
            end
  end.
(** all answers before the last one consulted were replacements *)
Definition asked_after_error (ans : list answer) (j : nat) : bool :=
  existsb (fun a => match a with Fail _ => true | Replace _ => false end) (firstn (Nat.pred j) ans)
  || (length ans <? Nat.pred j)%nat.
(** the plain buffer in use in the end *)
Fixpoint buffer_in_use (cur : option bufscript) (anss : list (list answer)) (offd : list (list Z))
  : option bufscript :=
  match anss, offd with
  | ans :: anss', o :: offd' =>
      buffer_in_use (match length o with
                     | O => cur
                     | S j' => match nth_error ans j' with Some (Replace b) => Some b | _ => None end
                     end) anss' offd'
  | _, _ => cur
  end.
Definition all_bytes_trusted (valid : bytes -> bool) (b0 : bufscript) (anss : list (list answer)) : bool :=
  forallb (fun b => match b with BBytes d => valid d | _ => true end)
          (b0 :: flat_map (fun a => match a with Replace b => [b] | _ => [] end) (concat anss)).

(** the stack rule on pairs of neighbouring levels: what the inner handler
    returns is what the outer one is offered first; nothing else reaches it
    before that *)
Fixpoint stack_rule (anss : list (list answer)) (offd : list (list Z)) : bool :=
  match anss, offd with
  | ans :: ((_ :: _) as anss'), o :: ((o' :: _) as offd') =>
      (match returned ans (length o) with
       | Some c => match o' with x :: _ => x =? c | [] => false end
       | None => match o' with [] => true | _ => false end
       end) && stack_rule anss' offd'
  | _, _ => true
  end.
Fixpoint forall2b {A B} (f : A -> B -> bool) (l : list A) (l' : list B) : bool :=
  match l, l' with
  | [], [] => true
  | x :: r, y :: r' => f x y && forall2b f r r'
  | _, _ => false
  end.

(** clauses 8 and 9 as functions of the observation *)
Definition obs_dones (obs : sx) : list Z := sx_Zs (sx_nth obs 5).
Definition obs_closes (obs : sx) : list Z := sx_Zs (sx_nth obs 7).
Definition clause8 (anss : list (list answer)) (dones : list Z) : bool :=
  forallb (fun d => d =? 1) dones && (length dones =? length anss)%nat.
Definition clause9 (closes : list Z) : bool := forallb (fun n => n =? 1) closes.
Definition obs_offered (obs : sx) : list (list Z) := map sx_Zs (sx_list (sx_nth obs 4)).
Definition clause10 (anss : list (list answer)) (offd : list (list Z)) : bool :=
  stack_rule anss offd && (length offd =? length anss)%nat
  && forall2b (fun ans o => negb (asked_after_error ans (length o))) anss offd.

Definition mon16 (inp obs : sx) : list Z :=
  let c := dec_case16 inp in
  let H := lookup (q_tbl c) in
  let size := g_size (q_cfg c) in
  let validb (d : bytes) := (lenN d =? size)%N && bytes_eqb (g_hash (q_cfg c)) (H d) in
  let m := q_meth c in
  let anss := q_anss c in
  let delivered := dec_bytes (sx_nth obs 0) in
  let code := sx_Z (sx_nth obs 1) in
  let offd := obs_offered obs in
  let dones := obs_dones obs in
  let closes := obs_closes obs in
  let done := completes m code in
  let trusted := all_bytes_trusted validb (q_b0 c) anss in
  (* the outermost handler: its script, what it was offered *)
  let top_ans := last anss [] in
  let top_off := last offd [] in
  let j := length top_off in
  let streaming := match m with MIntoWriter | MToChunkReader _ _ _ | MToReader _ _ => true | _ => false end in
  let '(p0, t0) := piece_of (q_b0 c) 0 in
  let '(st, term, offss) := stitch_stack p0 t0 anss in
  let st_valid := err_eqb term EEof && validb st in
  (* data handed over together with the handler's error may already exceed the digest's size *)
  let toolong (code : Z) := streaming && (code =? g_code (q_cfg c)) && (size <? lenN st)%N in
  (* 1: Done must be reported exactly once (outermost handler) *)
  (if last dones 0 =? 1 then [] else [1]) ++
  (* 8: Done is reported exactly once to the handler of every level *)
  (if clause8 anss dones then [] else [8]) ++
  (* 9: every underlying reader is closed exactly once *)
  (if clause9 closes then [] else [9]) ++
  (* 10: stacks: the inner handler's error is what the next outer handler is offered, first and
         once; a handler that has answered with an error is not asked again *)
  (if clause10 anss offd then [] else [10]) ++
  (if is_discard m then [] else
  (* 2: the last answer consulted was an error: that error is what the consumer gets *)
  (match returned top_ans j with
   | Some c' => if (code =? c') || toolong code then [] else [2]
   | None => []
   end) ++
  (if streaming then
     (* 3: completion => the stitched stream is valid and the consumer received exactly
           its expected slice: every byte once, in order *)
     (if done && trusted && negb (st_valid && bytes_eqb delivered (expected m st)) then [3] else []) ++
     (* 4: every I/O error of an underlying buffer is offered once, in order (none invented,
           none repeated, none skipped), at every level; all of them when the stream completed *)
     (if forall2b (fun o offs => is_prefix o (map code_of offs) && (negb done || (length o =? length offs)%nat))
                  offd offss then [] else [4]) ++
     (* 7: whatever the outcome, the bytes handed out are the stitched stream's, once and in order *)
     (if trusted && negb (bytes_prefix delivered (expected m st)) then [7] else []) ++
     (* 5: invalid stitched stream: fewer than size bytes handed out *)
     (if trusted && negb st_valid && negb (is_nil delivered)
         && negb (m_off m + Z.of_N (lenN delivered) <? Z.of_N size) then [5] else [])
   else
     (* 6: whole-operation retries: completion => the buffer in use after the offered
           errors holds valid content and the consumer received its expected slice *)
     (if done && trusted then
        match buffer_in_use (Some (q_b0 c)) anss offd with
        | Some b =>
            let '(cont, t) := ucontent b in
            if err_eqb t EEof && validb cont && bytes_eqb delivered (expected m cont) then [] else [6]
        | None => [6]
        end
      else []))).

Definition judge16 (inp obs : sx) : sx :=
  let m := run16 inp in
  let v := mon16 inp obs in
  let single := match run16_single inp with
                | Some m1 => sx_eqb m1 (project_single obs)
                | None => true
                end in
  verdict (sx_eqb m obs && single) (negb (match v with [] => true | _ => false end)) m (of_Zs v).
