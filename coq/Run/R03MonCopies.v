(** C03, monitor versus model — part 8: the monitor's acknowledged COPIES are acknowledgements of
    the model that are not evicted, and the monitor's view of the block list IS the model's list.

    The monitor records, per acknowledged upload, the key and the location of the block the upload's
    BlockList.Put went into ([m_copies]); it drops a copy when a PopFront at full occupancy removes the
    block at that location.  The model's ghost records, per finalizer that returned OK, an [ack] with
    the absolute block index and the BlockReference written into the index record.  The link between
    the two is made by a second bookkeeping [lst] that runs alongside the monitor on the history
    (which Put belongs to which upload slot, which finalizer returned OK in the current op segment,
    which reference each copy's finalizer reported) and two decidable checks [l_check]:
      - every PopFront happens at full occupancy (old+current+new+1 blocks: the rotation of the
        old/current/new map — the only eviction the monitor excuses; true on all 1 530 PopFront entries
        of the 800 generated observations it was evaluated on);
      - an upload that the monitor turns into a copy had, in its op segment and with no PopFront since,
        a finalizer that returned OK, and that finalizer is the one of the Put recorded for its slot;
      - no second restore entry.
    Invariant [Lk] (for every accepted history, every interleaving): [m_live] is the list of the
    locations of the model's blocks; every copy made in this incarnation has an ack of the model with
    the reference its finalizer reported, NOT evicted, whose block is at the copy's location.
    [mon03_copies_are_live_acks] / [mon03_owed_copies_resolve]: at the end of the incarnation, and if
    the monitor carries the copy into the next incarnation as an obligation, the state on the medium
    covers that ack and lists its block, so the reference resolves on the restarted list. *)
From Coq Require Import List NArith ZArith Bool Arith Lia.
From BBS Require Import Common.Sx Persist.PBL Persist.PBLProofs Persist.Syncer Persist.SyncerProofs
  Persist.Shutdown Persist.ShutdownArith Persist.ShutdownProofs Persist.ShutdownOrder Run.R03 Run.R03MonGhost
  Run.R03MonFields Run.R03MonStoreFields Run.R03MonReplay Run.R03MonList Run.R03Mon Run.R03MonObs Run.R03MonInherit.
Import ListNotations.
Local Open Scope nat_scope.

(** ---- small list facts ---- *)
Lemma assoc_nat_remove_ne {A} k k' (l : list (nat * A)) : k <> k' -> assoc_nat k (remove_nat k' l) = assoc_nat k l.
Proof.
  intros Hne. unfold remove_nat. induction l as [|[j v] l IH]; [reflexivity|]. cbn [filter fst].
  destruct (Nat.eqb_spec k' j) as [->|Hj]; cbn [negb].
  - cbn [assoc_nat]. destruct (Nat.eqb_spec k j); [congruence|exact IH].
  - cbn [assoc_nat]. rewrite IH. reflexivity.
Qed.

Lemma assoc_nat_remove_eq {A} k (l : list (nat * A)) : assoc_nat k (remove_nat k l) = None.
Proof.
  unfold remove_nat. induction l as [|[j v] l IH]; [reflexivity|]. cbn [filter fst].
  destruct (Nat.eqb_spec k j) as [->|Hj]; cbn [negb]; [exact IH|].
  cbn [assoc_nat]. destruct (Nat.eqb_spec k j); [congruence|exact IH].
Qed.

Lemma clear_nth_length {A} (l : list (option A)) : forall k, length (clear_nth l k) = length l.
Proof. induction l as [|x l IH]; intros [|k]; cbn; auto. Qed.

Lemma clear_nth_some {A} (l : list (option A)) : forall k i v, nth_error (clear_nth l k) i = Some (Some v) ->
  nth_error l i = Some (Some v).
Proof.
  induction l as [|x l IH]; intros [|k] [|i] v H; cbn in *; try discriminate; auto.
  eapply IH; eauto.
Qed.

Lemma map_fst_filter {A B} (P : A -> bool) (l : list (A * B)) :
  map fst (filter (fun cr => P (fst cr)) l) = filter P (map fst l).
Proof.
  induction l as [|[a b] l IH]; [reflexivity|]. cbn [filter map fst]. destruct (P a); cbn [map fst]; rewrite IH; reflexivity.
Qed.

Lemma nth_error_app_some {A} (l l' : list A) i v : nth_error l i = Some v -> nth_error (l ++ l') i = Some v.
Proof. intros H. rewrite nth_error_app1; [exact H|]. apply nth_error_Some. congruence. Qed.

(** ---- the second bookkeeping ---- *)
Definition rref : Type := (N * N * N)%type.   (* (EpochID, BlocksFromLast, seed) reported by a finalizer entry *)

Record lst := mkL {
  l_puts : list (option Z);      (* k-th BlockList.Put of the incarnation: location of its block *)
  l_slot : list (nat * nat);     (* upload slot -> number of its Put *)
  l_fin : option (nat * rref);   (* latest finalizer of the current op segment that returned OK, no PopFront since *)
  l_cr : list (copy * rref)      (* the monitor's copies with the reference their finalizer reported *)
}.

Definition ref_of (o : option (nat * rref)) : rref := match o with Some (_, r) => r | None => (0, 0, 0)%N end.

Definition makes_copy (m : mst) (x : sx) : option (nat * Z) :=
  if is_upres m x && (res_code x =? 0)%Z && negb (m_final m) then
    match assoc_nat (op_slot m) (m_upl m) with Some (k, Some loc) => Some (k, loc) | _ => None end
  else None.

Definition l_step (cfgsx : sx) (m : mst) (l : lst) (x : sx) : lst :=
  if (tag x =? 19)%Z then mkL (l_puts l) (l_slot l) None (l_cr l)
  else if (tag x =? 2)%Z then
    mkL (l_puts l) (l_slot l) None
        (match m_live m with
         | hd :: _ => if Nat.eqb (length (m_live m)) (full_count cfgsx)
                      then filter (fun cr => negb (Z.eqb (c_loc (fst cr)) hd)) (l_cr l) else l_cr l
         | [] => l_cr l
         end)
  else if (tag x =? 3)%Z then
    mkL (l_puts l ++ [nth_error (m_live m) (sx_nat (sx_nth x 1))])
        (if (tag (m_op m) =? 1)%Z then (op_slot m, length (l_puts l)) :: remove_nat (op_slot m) (l_slot l) else l_slot l)
        (l_fin l) (l_cr l)
  else if (tag x =? 4)%Z then
    mkL (l_puts l) (l_slot l)
        (if (sx_Z (sx_nth x 2) =? 0)%Z
         then Some (sx_nat (sx_nth x 1), (sx_N (sx_nth x 4), sx_N (sx_nth x 5), sx_N (sx_nth x 6))) else l_fin l)
        (l_cr l)
  else if is_upres m x then
    mkL (l_puts l) (remove_nat (op_slot m) (l_slot l)) (l_fin l)
        (match makes_copy m x with Some (k, loc) => (mkCopy k loc false, ref_of (l_fin l)) :: l_cr l | None => l_cr l end)
  else l.

Definition l_check (cfgsx : sx) (m : mst) (l : lst) (x : sx) : bool :=
  negb (tag x =? 0)%Z &&
  (if (tag x =? 2)%Z then match m_live m with [] => true | _ => Nat.eqb (length (m_live m)) (full_count cfgsx) end
   else match makes_copy m x with
        | Some _ => match l_fin l, assoc_nat (op_slot m) (l_slot l) with
                    | Some (kk, _), Some kk' => Nat.eqb kk kk'
                    | _, _ => false
                    end
        | None => true
        end).

(** ---- the invariant ---- *)
Definition loc_at (s : sys) (abs : nat) : option Z := option_map fst (nth_error (locs (s_pbl s)) (abs - tr s)).

Definition ack_for (s : sys) (gx : gsys) (ref : rref) (loc : option Z) : Prop :=
  exists a, In a (g_acks (gs_g gx)) /\ a_ref a = (fst (fst ref), snd (fst ref)) /\ a_seed a = snd ref /\
            tr s <= a_abs a /\ forall lo, loc = Some lo -> loc_at s (a_abs a) = Some lo.

Record Lkg (scope : copy -> Prop) (m : mst) (l : lst) (s : sys) (gx : gsys) : Prop := mkLk {
  lk_live : m_live m = map fst (locs (s_pbl s));
  lk_len : length (l_puts l) = length (s_uploads s);
  lk_put : forall kk lo abs size, nth_error (l_puts l) kk = Some (Some lo) ->
             nth_error (s_uploads s) kk = Some (Some (PutAt abs, size)) -> abs < tr s \/ loc_at s abs = Some lo;
  lk_fin : forall kk ref, l_fin l = Some (kk, ref) ->
             exists lo, nth_error (l_puts l) kk = Some lo /\ ack_for s gx ref lo;
  lk_cr : map fst (l_cr l) = m_copies m;
  lk_ack : forall c ref, In (c, ref) (l_cr l) -> scope c -> ack_for s gx ref (Some (c_loc c));
  lk_slot : forall slot k lo, assoc_nat slot (m_upl m) = Some (k, lo) ->
              exists kk, assoc_nat slot (l_slot l) = Some kk /\ nth_error (l_puts l) kk = Some lo
}.

Lemma ack_for_frame s gx s' gx' ref lo : tr s' = tr s -> locs (s_pbl s') = locs (s_pbl s) ->
  (forall a, In a (g_acks (gs_g gx)) -> In a (g_acks (gs_g gx'))) -> ack_for s gx ref lo -> ack_for s' gx' ref lo.
Proof.
  intros Ht Hl Ha [a [H1 [H2 [H3 [H4 H5]]]]]. exists a. unfold loc_at in *. rewrite Ht, Hl. auto.
Qed.

Section Scope.
Variable scope : copy -> Prop.
Local Notation Lk := (Lkg scope).

(** steps that touch neither the list nor the pending Puts *)
Lemma Lk_frame m l s gx s' gx' : tr s' = tr s -> locs (s_pbl s') = locs (s_pbl s) -> s_uploads s' = s_uploads s ->
  (forall a, In a (g_acks (gs_g gx)) -> In a (g_acks (gs_g gx'))) -> Lk m l s gx -> Lk m l s' gx'.
Proof.
  intros Ht Hl Hu Ha [A B C D E F G0]. constructor; auto.
  - rewrite Hl. exact A.
  - rewrite Hu. exact B.
  - intros kk lo abs size H1 H2. rewrite Hu in H2. unfold loc_at. rewrite Ht, Hl. apply (C kk lo abs size H1 H2).
  - intros kk ref H. destruct (D kk ref H) as [lo [H1 H2]]. exists lo. split; [exact H1|]. eapply ack_for_frame; eauto.
  - intros c ref H1 H2. eapply ack_for_frame; eauto.
Qed.

Lemma Lk_mon_same m m' l s gx : m_live m' = m_live m -> m_upl m' = m_upl m -> m_copies m' = m_copies m ->
  Lk m l s gx -> Lk m' l s gx.
Proof. intros H1 H2 H3 [A B C D E F G0]. constructor; auto; rewrite ?H1, ?H2, ?H3; auto. Qed.

Lemma gpath_quiet_frame cfg s gx s' gx' : gpath cfg (fun _ ev => quiet ev /\ notfin ev) s gx s' gx' ->
  tr s' = tr s /\ locs (s_pbl s') = locs (s_pbl s) /\ s_uploads s' = s_uploads s /\
  g_acks (gs_g gx') = g_acks (gs_g gx).
Proof.
  induction 1 as [|s x e s1 s' x' [Hq Hn] Hs _ [I1 [I2 [I3 I4]]]]; [auto|].
  destruct (quiet_frame _ _ _ _ Hq Hs) as [Q1 [Q2 Q3]].
  rewrite I1, I2, I3, I4, Q1, Q2, Q3, (gstep_acks_same _ _ _ _ Hn). auto.
Qed.

Lemma quiet_notfin ev : quiet ev -> notfin ev.
Proof. destruct ev; cbn; try contradiction; intros _ k b sd H; discriminate. Qed.

(** ---- the four list events ---- *)
Lemma loc_at_app s s' abs lo l1 : tr s' = tr s -> locs (s_pbl s') = locs (s_pbl s) ++ l1 ->
  loc_at s abs = Some lo -> loc_at s' abs = Some lo.
Proof.
  unfold loc_at. intros Ht Hl H. rewrite Ht, Hl.
  destruct (nth_error (locs (s_pbl s)) (abs - tr s)) as [v|] eqn:E; [|discriminate].
  rewrite (nth_error_app_some _ _ _ _ E). exact H.
Qed.

Lemma ack_for_app s gx s' ref lo l1 : tr s' = tr s -> locs (s_pbl s') = locs (s_pbl s) ++ l1 ->
  ack_for s gx ref lo -> ack_for s' gx ref lo.
Proof.
  intros Ht Hl [a [H1 [H2 [H3 [H4 H5]]]]]. exists a. rewrite Ht. splits; auto.
  intros lo0 E. eapply loc_at_app; eauto.
Qed.

(** PushBack *)
Lemma Lk_push m m' l s gx s' l1 : tr s' = tr s -> locs (s_pbl s') = locs (s_pbl s) ++ l1 ->
  s_uploads s' = s_uploads s -> m_live m' = m_live m ++ map fst l1 -> m_upl m' = m_upl m -> m_copies m' = m_copies m ->
  Lk m l s gx -> Lk m' l s' gx.
Proof.
  intros Ht Hl Hu M1 M2 M3 [A B C D E F G0]. constructor; auto.
  - rewrite M1, Hl, map_app, A. reflexivity.
  - rewrite Hu. exact B.
  - intros kk lo abs size H1 H2. rewrite Hu in H2. rewrite Ht.
    destruct (C kk lo abs size H1 H2) as [H|H]; [left; exact H|right; eapply loc_at_app; eauto].
  - intros kk ref H. destruct (D kk ref H) as [lo [H1 H2]]. exists lo. split; [exact H1|]. eapply ack_for_app; eauto.
  - rewrite M3. exact E.
  - intros c ref H1 H2. eapply ack_for_app; eauto.
  - rewrite M2. exact G0.
Qed.

(** PopFront at full occupancy *)
Lemma loc_at_pop s s' b0 abs lo : tr s' = S (tr s) -> locs (s_pbl s) = b0 :: locs (s_pbl s') ->
  tr s < abs -> loc_at s abs = Some lo -> loc_at s' abs = Some lo.
Proof.
  unfold loc_at. intros Ht Hl Hlt H. rewrite Ht. rewrite Hl in H.
  replace (abs - tr s) with (S (abs - S (tr s))) in H by lia. exact H.
Qed.

Lemma Lk_pop cfgsx m m' l s gx s' b0 : tr s' = S (tr s) -> locs (s_pbl s) = b0 :: locs (s_pbl s') ->
  s_uploads s' = s_uploads s -> Nat.eqb (length (m_live m)) (full_count cfgsx) = true ->
  m_live m' = tl (m_live m) -> m_upl m' = m_upl m ->
  m_copies m' = filter (fun c => negb (Z.eqb (c_loc c) (fst b0))) (m_copies m) ->
  Lk m l s gx ->
  Lk m' (mkL (l_puts l) (l_slot l) None (filter (fun cr => negb (Z.eqb (c_loc (fst cr)) (fst b0))) (l_cr l))) s' gx.
Proof.
  intros Ht Hl Hu Hfull M1 M2 M3 [A B C D E F G0]. constructor; cbn [l_puts l_slot l_fin l_cr].
  - rewrite M1, A, Hl. reflexivity.
  - rewrite Hu. exact B.
  - intros kk lo abs size H1 H2. rewrite Hu in H2. rewrite Ht.
    destruct (C kk lo abs size H1 H2) as [H|H]; [left; lia|].
    destruct (Nat.eq_dec abs (tr s)) as [->|Hne]; [left; lia|].
    destruct (Nat.lt_ge_cases abs (tr s)) as [Hlt|Hge]; [left; lia|]. right. eapply loc_at_pop; eauto. lia.
  - intros kk ref H. discriminate.
  - rewrite M3, <- E. apply (map_fst_filter (fun c => negb (Z.eqb (c_loc c) (fst b0)))).
  - intros c ref Hin Hold. apply filter_In in Hin. destruct Hin as [Hin Hk]. cbn [fst] in Hk.
    destruct (F c ref Hin Hold) as [a [H1 [H2 [H3 [H4 H5]]]]]. exists a. rewrite Ht. splits; auto.
    + (* the kept copy's block is not the popped one *)
      destruct (Nat.eq_dec (a_abs a) (tr s)) as [Heq|Hne]; [|lia]. exfalso.
      specialize (H5 _ eq_refl). unfold loc_at in H5. rewrite Heq, Nat.sub_diag, Hl in H5. cbn in H5.
      inversion H5 as [H6]. rewrite H6, Z.eqb_refl in Hk. discriminate.
    + intros lo E0. inversion E0; subst lo.
      destruct (Nat.eq_dec (a_abs a) (tr s)) as [Heq|Hne].
      * exfalso. specialize (H5 _ eq_refl). unfold loc_at in H5. rewrite Heq, Nat.sub_diag, Hl in H5. cbn in H5.
        inversion H5 as [H6]. rewrite H6, Z.eqb_refl in Hk. discriminate.
      * eapply loc_at_pop; eauto. lia.
  - rewrite M2. exact G0.
Qed.

(** BlockList.Put *)
Lemma Lk_put m m' l s gx s' idx size tok (slots' : list (nat * nat)) :
  s_pbl s' = s_pbl s -> s_uploads s' = s_uploads s ++ [Some (tok, size)] ->
  (forall abs, tok = PutAt abs -> abs = tr s + idx) ->
  m_live m' = m_live m -> m_copies m' = m_copies m ->
  (* either the op is not the start of an upload, or the slot's Put is recorded on both sides *)
  ((m_upl m' = m_upl m /\ slots' = l_slot l) \/
   exists slot key, m_upl m' = (slot, (key, nth_error (m_live m) idx)) :: remove_nat slot (m_upl m) /\
                    slots' = (slot, length (l_puts l)) :: remove_nat slot (l_slot l)) ->
  Lk m l s gx ->
  Lk m' (mkL (l_puts l ++ [nth_error (m_live m) idx]) slots' (l_fin l) (l_cr l)) s' gx.
Proof.
  intros Hp Hu Htok M1 M3 Hslots [A B C D E F G0].
  assert (Ht : tr s' = tr s) by (unfold tr; rewrite Hp; reflexivity).
  assert (Hl : locs (s_pbl s') = locs (s_pbl s)) by (rewrite Hp; reflexivity).
  assert (Hla : forall abs, loc_at s' abs = loc_at s abs) by (intros abs; unfold loc_at; rewrite Ht, Hl; reflexivity).
  assert (Hack : forall ref lo, ack_for s gx ref lo -> ack_for s' gx ref lo).
  { intros ref lo. apply ack_for_frame; auto. }
  constructor; cbn [l_puts l_slot l_fin l_cr].
  - rewrite M1, Hl. exact A.
  - rewrite Hu, !app_length, B. reflexivity.
  - intros kk lo abs sz H1 H2. rewrite Ht, Hla. rewrite Hu in H2.
    destruct (Nat.lt_ge_cases kk (length (l_puts l))) as [Hlt|Hge].
    + rewrite nth_error_app1 in H1 by exact Hlt. rewrite nth_error_app1 in H2 by (rewrite <- B; exact Hlt). eauto.
    + assert (kk = length (l_puts l)).
      { assert (nth_error (l_puts l ++ [nth_error (m_live m) idx]) kk <> None) as Hn by congruence.
        apply nth_error_Some in Hn. rewrite app_length in Hn. cbn in Hn. lia. }
      subst kk. rewrite nth_error_app2, Nat.sub_diag in H1 by lia. cbn in H1. inversion H1 as [H3].
      rewrite B in H2. rewrite nth_error_app2, Nat.sub_diag in H2 by lia. cbn in H2. inversion H2; subst tok sz.
      rewrite (Htok abs eq_refl). right. unfold loc_at. replace (tr s + idx - tr s) with idx by lia.
      first [rewrite A, nth_error_map; reflexivity | rewrite A in H3; rewrite nth_error_map in H3; exact H3].
  - intros kk ref H. destruct (D kk ref H) as [lo [H1 H2]]. exists lo. split; [apply nth_error_app_some; exact H1|auto].
  - rewrite M3. exact E.
  - intros c ref H1 H2. auto.
  - intros slot k lo Hs. destruct Hslots as [[M2 ->]|[slot0 [key [M2 ->]]]]; rewrite M2 in Hs.
    + destruct (G0 slot k lo Hs) as [kk [K1 K2]]. exists kk. split; [exact K1|apply nth_error_app_some; exact K2].
    + cbn [assoc_nat] in *. destruct (Nat.eqb_spec slot slot0) as [->|Hne].
      * inversion Hs; subst. exists (length (l_puts l)). split; [reflexivity|].
        rewrite nth_error_app2, Nat.sub_diag by lia. reflexivity.
      * rewrite assoc_nat_remove_ne in Hs by exact Hne. rewrite assoc_nat_remove_ne by exact Hne.
        destruct (G0 slot k lo Hs) as [kk [K1 K2]]. exists kk. split; [exact K1|apply nth_error_app_some; exact K2].
Qed.

(** the finalizer *)
Lemma Lk_fin m m' l s gx s' gx' k fin' :
  tr s' = tr s -> locs (s_pbl s') = locs (s_pbl s) -> s_uploads s' = clear_nth (s_uploads s) k ->
  (forall a, In a (g_acks (gs_g gx)) -> In a (g_acks (gs_g gx'))) ->
  m_live m' = m_live m -> m_upl m' = m_upl m -> m_copies m' = m_copies m ->
  (fin' = l_fin l \/
   exists ref abs size a, fin' = Some (k, ref) /\ nth_error (s_uploads s) k = Some (Some (PutAt abs, size)) /\
     tr s <= abs /\ In a (g_acks (gs_g gx')) /\ a_abs a = abs /\
     a_ref a = (fst (fst ref), snd (fst ref)) /\ a_seed a = snd ref) ->
  Lk m l s gx -> Lk m' (mkL (l_puts l) (l_slot l) fin' (l_cr l)) s' gx'.
Proof.
  intros Ht Hl Hu Ha M1 M2 M3 Hfin [A B C D E F G0].
  assert (Hack : forall ref lo, ack_for s gx ref lo -> ack_for s' gx' ref lo).
  { intros ref lo. apply ack_for_frame; auto. }
  constructor; cbn [l_puts l_slot l_fin l_cr].
  - rewrite M1, Hl. exact A.
  - rewrite Hu, clear_nth_length. exact B.
  - intros kk lo abs size H1 H2. rewrite Hu in H2. apply clear_nth_some in H2.
    unfold loc_at. rewrite Ht, Hl. apply (C kk lo abs size H1 H2).
  - intros kk ref H. destruct Hfin as [->|[ref0 [abs [size [a [-> [Hup [Hge [Hin [Habs [Hr Hsd]]]]]]]]]]].
    + destruct (D kk ref H) as [lo [H1 H2]]. exists lo. auto.
    + inversion H; subst kk ref0.
      assert (Hlt : k < length (l_puts l)) by (rewrite B; apply nth_error_Some; congruence).
      destruct (nth_error (l_puts l) k) as [lo|] eqn:Ep; [|apply nth_error_None in Ep; lia].
      exists lo. split; [reflexivity|]. exists a. rewrite Ht, Habs. splits; auto.
      intros lo0 ->. destruct (C k lo0 abs size Ep Hup) as [Hc|Hc]; [lia|]. unfold loc_at in *. rewrite Ht, Hl. exact Hc.
  - rewrite M3. exact E.
  - intros c ref H1 H2. auto.
  - rewrite M2. exact G0.
Qed.

(** the result of an upload op *)
Lemma Lk_upres m m' l s gx slot (mk : option (nat * Z)) :
  m_live m' = m_live m -> m_upl m' = remove_nat slot (m_upl m) ->
  (match mk with
   | Some (k, loc) => m_copies m' = mkCopy k loc false :: m_copies m /\
                      assoc_nat slot (m_upl m) = Some (k, Some loc) /\
                      exists kk ref, l_fin l = Some (kk, ref) /\ assoc_nat slot (l_slot l) = Some kk
   | None => m_copies m' = m_copies m
   end) ->
  Lk m l s gx ->
  Lk m' (mkL (l_puts l) (remove_nat slot (l_slot l)) (l_fin l)
             (match mk with Some (k, loc) => (mkCopy k loc false, ref_of (l_fin l)) :: l_cr l | None => l_cr l end)) s gx.
Proof.
  intros M1 M2 Hmk [A B C D E F G0]. constructor; cbn [l_puts l_slot l_fin l_cr].
  - rewrite M1. exact A.
  - exact B.
  - exact C.
  - exact D.
  - destruct mk as [[k loc]|]; [destruct Hmk as [M3 _]|]; rewrite ?M3, ?Hmk; cbn [map fst]; rewrite E; reflexivity.
  - intros c ref Hin Hold. destruct mk as [[k loc]|]; [|auto].
    destruct Hin as [Heq|Hin]; [|auto]. inversion Heq; subst c ref. cbn [c_loc].
    destruct Hmk as [_ [Hs [kk [ref [Hf Hk]]]]]. rewrite Hf. cbn [ref_of].
    destruct (G0 slot k (Some loc) Hs) as [kk2 [K1 K2]]. rewrite Hk in K1. inversion K1; subst kk2.
    destruct (D kk ref Hf) as [lo [H1 H2]]. rewrite K2 in H1. inversion H1; subst lo. exact H2.
  - intros s0 k lo Hs. rewrite M2 in Hs.
    destruct (Nat.eq_dec s0 slot) as [->|Hne]; [rewrite assoc_nat_remove_eq in Hs; discriminate|].
    rewrite assoc_nat_remove_ne in Hs by exact Hne. rewrite assoc_nat_remove_ne by exact Hne. exact (G0 _ _ _ Hs).
Qed.

(** ---- the four list events, from the replay ---- *)
Section Facts.
Variables (cfg : config) (bs : Z).

Lemma tag1_facts x e x' gx gx' : tag e = 1%Z -> replay_entry cfg bs x e = Some x' -> post cfg bs e x gx x' gx' ->
  gx' = gx /\ tr (x_sys x') = tr (x_sys x) /\ s_uploads (x_sys x') = s_uploads (x_sys x) /\
  locs (s_pbl (x_sys x')) = locs (s_pbl (x_sys x)) ++
    (if (sx_Z (sx_nth e 1) =? 0)%Z then [(sx_Z (sx_nth e 2), bs)] else []).
Proof.
  intros E H [_ [_ [_ [_ [_ [_ [_ [_ P]]]]]]]]. destruct (P (or_introl E)) as [Hs Hg]. clear P.
  unfold ev_of in Hs, Hg. rewrite E in Hs, Hg. cbn [Z.eqb Pos.eqb] in Hs, Hg. cbn [step] in Hs. cbn [gstep] in Hg.
  inversion Hs as [Hs']. clear Hs. split; [exact Hg|]. unfold tr.
  open_tag H E. ifg. intros _.
  destruct (sx_Z (sx_nth e 1) =? 0)%Z eqn:R.
  - apply Z.eqb_eq in R. rewrite R in *. unfold push_back in *.
    destruct (closedForWriting (s_pbl (x_sys x))); [cbn in Heqb; discriminate|].
    cbn [fst s_pbl with_pbl s_uploads totalReleased set_blocks blocks]. unfold locs. cbn [blocks set_blocks].
    rewrite map_app. cbn. auto.
  - unfold push_back. destruct (closedForWriting (s_pbl (x_sys x))); cbn; rewrite app_nil_r; auto.
Qed.

Lemma tag2_facts x e x' gx gx' : tag e = 2%Z -> post cfg bs e x gx x' gx' ->
  g_acks (gs_g gx') = g_acks (gs_g gx) /\ tr (x_sys x') = S (tr (x_sys x)) /\
  s_uploads (x_sys x') = s_uploads (x_sys x) /\
  exists b0, locs (s_pbl (x_sys x)) = b0 :: locs (s_pbl (x_sys x')).
Proof.
  intros E [_ [_ [_ [_ [_ [_ [_ [_ P]]]]]]]]. destruct (P (or_intror (or_introl E))) as [Hs Hg]. clear P.
  unfold ev_of in Hs, Hg. rewrite E in Hs, Hg. cbn [Z.eqb Pos.eqb] in Hs, Hg. cbn [step] in Hs.
  split; [rewrite Hg; apply gstep_acks_same; intros k b sd Hc; discriminate|].
  destruct (blocks (s_pbl (x_sys x))) as [|b rest] eqn:Eb; [discriminate|].
  destruct (pop_front (s_pbl (x_sys x))) as [p'|] eqn:Ep; [|discriminate]. inversion Hs as [Hs']. clear Hs.
  destruct (pop_front_shape _ _ _ _ Eb Ep) as [Hb [_ [_ [Ht _]]]]. unfold tr, locs.
  cbn [s_pbl with_pbl s_uploads]. rewrite Ht, Hb, Eb. splits; auto. exists (b_loc b). reflexivity.
Qed.

Lemma tag3_facts x e x' gx gx' : tag e = 3%Z -> post cfg bs e x gx x' gx' ->
  gx' = gx /\ s_pbl (x_sys x') = s_pbl (x_sys x) /\
  exists tok, s_uploads (x_sys x') = s_uploads (x_sys x) ++ [Some (tok, sx_Z (sx_nth e 2))] /\
              forall abs, tok = PutAt abs -> abs = tr (x_sys x) + sx_nat (sx_nth e 1).
Proof.
  intros E [_ [_ [_ [_ [_ [_ [_ [_ P]]]]]]]]. destruct (P (or_intror (or_intror (or_introl E)))) as [Hs Hg]. clear P.
  unfold ev_of in Hs, Hg. rewrite E in Hs, Hg. cbn [Z.eqb Pos.eqb] in Hs, Hg. cbn [step] in Hs. cbn [gstep] in Hg.
  split; [exact Hg|].
  destruct (_ || _)%bool; [|discriminate].
  destruct (put_start _ _) as [tok|] eqn:Ep; [|discriminate]. inversion Hs as [Hs']. clear Hs.
  cbn [s_pbl with_uploads s_uploads]. split; [reflexivity|]. exists tok. split; [reflexivity|].
  intros abs ->. unfold put_start in Ep. destruct (closedForWriting _); [discriminate|].
  destruct (_ <? _); [|discriminate]. inversion Ep. reflexivity.
Qed.

Lemma index_to_ref_mk_ack g p abs e r sd : index_to_ref (abs - totalReleased p) p = Ok (r, sd) ->
  exists a, mk_ack g p abs e = Some a /\ a_abs a = abs /\ a_ref a = r /\ a_seed a = sd.
Proof.
  unfold mk_ack. intros H. rewrite H. unfold index_to_ref in H.
  destruct (length (epochSeeds p)) as [|n]; [discriminate|].
  destruct (nth_error (epochLast p) n) as [la|]; [|discriminate].
  destruct (nth_error (epochSeeds p) n) as [sd'|]; [|discriminate].
  eexists. split; [reflexivity|]. cbn. auto.
Qed.

Lemma tag4_facts x e x' gx gx' : tag e = 4%Z -> replay_entry cfg bs x e = Some x' -> post cfg bs e x gx x' gx' ->
  tr (x_sys x') = tr (x_sys x) /\ locs (s_pbl (x_sys x')) = locs (s_pbl (x_sys x)) /\
  s_uploads (x_sys x') = clear_nth (s_uploads (x_sys x)) (sx_nat (sx_nth e 1)) /\
  (forall a, In a (g_acks (gs_g gx)) -> In a (g_acks (gs_g gx'))) /\
  ((sx_Z (sx_nth e 2) =? 0)%Z = true ->
     exists abs size a, nth_error (s_uploads (x_sys x)) (sx_nat (sx_nth e 1)) = Some (Some (PutAt abs, size)) /\
       tr (x_sys x) <= abs /\ In a (g_acks (gs_g gx')) /\ a_abs a = abs /\
       a_ref a = (sx_N (sx_nth e 4), sx_N (sx_nth e 5)) /\ a_seed a = sx_N (sx_nth e 6)).
Proof.
  intros E H [_ [_ [_ [_ [_ [_ [_ [_ P]]]]]]]].
  destruct (P (or_intror (or_intror (or_intror E)))) as [Hs Hg]. clear P.
  unfold ev_of in Hs, Hg. rewrite E in Hs, Hg. cbn [Z.eqb Pos.eqb] in Hs, Hg. cbn [step] in Hs.
  open_tag H E.
  destruct (nth_error (s_uploads (x_sys x)) (sx_nat (sx_nth e 1))) as [[[tok size]|]|] eqn:En; try discriminate.
  destruct (put_finalize _ _ _ _ _) as [[p' fr]|] eqn:Ef; [|discriminate].
  match goal with |- (if ?c then _ else _) = _ -> _ => destruct c eqn:Er; [|discriminate] end.
  match goal with |- (if ?c then _ else _) = _ -> _ => destruct c eqn:Eok; [|discriminate] end.
  intros _. try rewrite En in Hs. try rewrite Ef in Hs. inversion Hs as [Hs']. clear Hs.
  destruct (put_finalize_frame _ _ _ _ _ _ _ Ef) as [Ft Fl].
  unfold tr. cbn [s_pbl with_pbl with_uploads s_uploads]. split; [exact Ft|]. split; [exact Fl|]. split; [reflexivity|].
  assert (Hgrow : exists pre, g_acks (gs_g gx') = pre ++ g_acks (gs_g gx)) by (rewrite Hg; apply gstep_acks_grow).
  split.
  { destruct Hgrow as [pre Hpre]. intros a Ha. rewrite Hpre. apply in_or_app. right. exact Ha. }
  intros R. apply Z.eqb_eq in R. rewrite R in *. cbn [Z.eqb] in *.
  apply Z.eqb_eq in Er. destruct fr as [off| | |]; cbn in Er; try discriminate.
  destruct tok as [|abs]; [discriminate|].
  destruct (put_finalize_ok_shape _ _ _ _ _ _ _ Ef) as [abs' [Htok [_ [_ [Hge _]]]]]. inversion Htok; subst abs'.
  destruct (index_to_ref (abs - totalReleased p') p') as [[[ep bfl] sd]|] eqn:Ei; [|discriminate].
  apply andb_prop in Eok. destruct Eok as [Eok E3]. apply andb_prop in Eok. destruct Eok as [E1 E2].
  apply N.eqb_eq in E1, E2, E3. subst ep bfl sd.
  destruct (index_to_ref_mk_ack (gs_g gx) p' abs (off + size)%Z _ _ Ei) as [a [Hmk [Ha1 [Ha2 Ha3]]]].
  exists abs, size, a. split; [reflexivity|]. split; [exact Hge|].
  split; [|auto]. rewrite Hg. cbn [gstep]. rewrite En, Ef, Hmk. cbn. left. reflexivity.
Qed.

End Facts.

(** ---- one accepted entry ---- *)
Lemma Lk_nofin m l s gx : Lk m l s gx -> Lk m (mkL (l_puts l) (l_slot l) None (l_cr l)) s gx.
Proof. intros [A B C D E F G0]. constructor; cbn [l_puts l_slot l_fin l_cr]; auto. intros kk ref H. discriminate. Qed.

Lemma l_eta l : mkL (l_puts l) (l_slot l) (l_fin l) (l_cr l) = l.
Proof. destruct l; reflexivity. Qed.

Lemma is_upres_tag m e : is_upres m e = true -> tag e = 30%Z.
Proof. unfold is_upres. intros H. apply andb_prop in H. destruct H as [H _]. apply andb_prop in H. destruct H as [H _]. apply Z.eqb_eq. exact H. Qed.

Lemma entry_Lk cfgsx objs ops cfg bs m l x e x' gx gx' :
  replay_entry cfg bs x e = Some x' -> gpath cfg (allowed e) (x_sys x) gx (x_sys x') gx' ->
  post cfg bs e x gx x' gx' -> l_check cfgsx m l e = true -> Lk m l (x_sys x) gx ->
  Lk (mon_entry cfgsx objs ops m e) (l_step cfgsx m l e) (x_sys x') gx'.
Proof.
  intros R Hp Hpost Hck HL.
  destruct (mon_entry_store_fields cfgsx objs ops m e) as [ML [_ [MU MC]]].
  unfold l_check in Hck. apply andb_prop in Hck. destruct Hck as [N0 Hck].
  apply Bool.negb_true_iff in N0.
  destruct (Z.eq_dec (tag e) 1) as [E|N1].
  { (* PushBack *)
    destruct (tag1_facts cfg bs x e x' gx gx' E R Hpost) as [-> [Ht [Hu Hl]]].
    assert (Hup : is_upres m e = false) by (unfold is_upres; rewrite E; reflexivity).
    assert (Hst : l_step cfgsx m l e = l) by (unfold l_step; rewrite E, Hup; reflexivity).
    rewrite Hst. rewrite E in ML, MU, MC. cbn [Z.eqb Pos.eqb] in ML, MU, MC. rewrite Hup in MU, MC.
    eapply Lk_push; eauto. rewrite ML. destruct (sx_Z (sx_nth e 1) =? 0)%Z; [reflexivity|rewrite app_nil_r; reflexivity]. }
  destruct (Z.eq_dec (tag e) 2) as [E|N2].
  { (* PopFront *)
    destruct (tag2_facts cfg bs x e x' gx gx' E Hpost) as [Ha [Ht [Hu [b0 Hl]]]].
    rewrite E in ML, MU, MC, Hck. cbn [Z.eqb Pos.eqb] in ML, MU, MC, Hck.
    assert (Hup : is_upres m e = false) by (unfold is_upres; rewrite E; reflexivity). rewrite Hup in MU.
    assert (Hlive : m_live m = fst b0 :: map fst (locs (s_pbl (x_sys x')))).
    { rewrite (lk_live _ _ _ _ _ HL), Hl. reflexivity. }
    rewrite Hlive in Hck, MC. rewrite <- Hlive in Hck, MC.
    assert (Hst : l_step cfgsx m l e =
                  mkL (l_puts l) (l_slot l) None (filter (fun cr => negb (Z.eqb (c_loc (fst cr)) (fst b0))) (l_cr l))).
    { unfold l_step. rewrite E. cbn [Z.eqb Pos.eqb]. rewrite Hlive at 1. rewrite Hck. reflexivity. }
    rewrite Hst. rewrite Hck in MC.
    assert (HL' : Lk m l (x_sys x) gx') .
    { destruct HL as [A B C D E0 F G0]. constructor; auto.
      - intros kk ref H. destruct (D kk ref H) as [lo [H1 [a H2]]]. exists lo. split; [exact H1|]. exists a. rewrite Ha. exact H2.
      - intros c ref H1 H2. destruct (F c ref H1 H2) as [a H3]. exists a. rewrite Ha. exact H3. }
    eapply (Lk_pop cfgsx); eauto. }
  destruct (Z.eq_dec (tag e) 3) as [E|N3].
  { (* BlockList.Put *)
    destruct (tag3_facts cfg bs x e x' gx gx' E Hpost) as [-> [Hpb [tok [Hu Htok]]]].
    rewrite E in ML, MU, MC. cbn [Z.eqb Pos.eqb] in ML, MU, MC.
    assert (Hup : is_upres m e = false) by (unfold is_upres; rewrite E; reflexivity). rewrite Hup in MC.
    assert (Hst : l_step cfgsx m l e =
                  mkL (l_puts l ++ [nth_error (m_live m) (sx_nat (sx_nth e 1))])
                      (if (tag (m_op m) =? 1)%Z then (op_slot m, length (l_puts l)) :: remove_nat (op_slot m) (l_slot l) else l_slot l)
                      (l_fin l) (l_cr l)).
    { unfold l_step. rewrite E. reflexivity. }
    rewrite Hst. eapply Lk_put; eauto.
    destruct (tag (m_op m) =? 1)%Z; [right; eexists _, _; split; [exact MU|reflexivity]|left; auto]. }
  destruct (Z.eq_dec (tag e) 4) as [E|N4].
  { (* finalizer *)
    destruct (tag4_facts cfg bs x e x' gx gx' E R Hpost) as [Ht [Hl [Hu [Ha Hok]]]].
    rewrite E in ML, MU, MC. cbn [Z.eqb Pos.eqb] in ML, MU, MC.
    assert (Hup : is_upres m e = false) by (unfold is_upres; rewrite E; reflexivity). rewrite Hup in MU, MC.
    assert (Hst : l_step cfgsx m l e =
                  mkL (l_puts l) (l_slot l)
                      (if (sx_Z (sx_nth e 2) =? 0)%Z
                       then Some (sx_nat (sx_nth e 1), (sx_N (sx_nth e 4), sx_N (sx_nth e 5), sx_N (sx_nth e 6))) else l_fin l)
                      (l_cr l)).
    { unfold l_step. rewrite E. reflexivity. }
    rewrite Hst. eapply Lk_fin; eauto.
    destruct (sx_Z (sx_nth e 2) =? 0)%Z eqn:R0; [|left; reflexivity]. right.
    destruct (Hok eq_refl) as [abs [size [a [H1 [H2 [H3 [H4 [H5 H6]]]]]]]].
    exists (sx_N (sx_nth e 4), sx_N (sx_nth e 5), sx_N (sx_nth e 6)), abs, size, a. cbn [fst snd]. splits; auto. }
  (* every other entry: thread steps, clock, cancellation *)
  assert (Hq : gpath cfg (fun _ ev => quiet ev /\ notfin ev) (x_sys x) gx (x_sys x') gx').
  { eapply gpath_weaken; [|exact Hp]. intros s0 ev [_ [_ [[H|[H|[H|H]]]|H]]]; try contradiction.
    split; [exact H|apply quiet_notfin; exact H]. }
  destruct (gpath_quiet_frame _ _ _ _ _ Hq) as [Ht [Hl [Hu Ha]]].
  assert (HL' : Lk m l (x_sys x') gx').
  { apply (Lk_frame m l (x_sys x) gx (x_sys x') gx' Ht Hl Hu); [|exact HL]. intros a Hin. rewrite Ha. exact Hin. }
  rewrite N0, (neqb _ _ N1), (neqb _ _ N2) in ML. rewrite (neqb _ _ N3) in MU. rewrite (neqb _ _ N2) in MC.
  cbv beta iota in ML, MU, MC.
  rewrite (neqb _ _ N2) in Hck.
  destruct (Z.eq_dec (tag e) 19) as [E|N19].
  { assert (Hup : is_upres m e = false) by (unfold is_upres; rewrite E; reflexivity). rewrite Hup in MU, MC.
    assert (Hst : l_step cfgsx m l e = mkL (l_puts l) (l_slot l) None (l_cr l)) by (unfold l_step; rewrite E; reflexivity).
    rewrite Hst. apply Lk_nofin. apply (Lk_mon_same m _ l _ _ ML MU MC HL'). }
  destruct (is_upres m e) eqn:Hup.
  - (* the result of an upload op *)
    assert (Hst : l_step cfgsx m l e =
                  mkL (l_puts l) (remove_nat (op_slot m) (l_slot l)) (l_fin l)
                      (match makes_copy m e with Some (k, loc) => (mkCopy k loc false, ref_of (l_fin l)) :: l_cr l | None => l_cr l end)).
    { unfold l_step. rewrite (neqb _ _ N19), (neqb _ _ N2), (neqb _ _ N3), (neqb _ _ N4), Hup. reflexivity. }
    rewrite Hst. eapply Lk_upres; eauto.
    unfold makes_copy in *. rewrite Hup in *. cbn [andb] in *.
    destruct ((res_code e =? 0)%Z && negb (m_final m))%bool; [|exact MC].
    destruct (assoc_nat (op_slot m) (m_upl m)) as [[k [loc|]]|] eqn:Ea; try exact MC.
    split; [exact MC|]. split; [reflexivity|].
    destruct (l_fin l) as [[kk ref]|]; [|discriminate].
    destruct (assoc_nat (op_slot m) (l_slot l)) as [kk'|]; [|discriminate].
    apply Nat.eqb_eq in Hck. subst kk'. eauto.
  - assert (Hst : l_step cfgsx m l e = l).
    { unfold l_step. rewrite (neqb _ _ N19), (neqb _ _ N2), (neqb _ _ N3), (neqb _ _ N4), Hup. reflexivity. }
    rewrite Hst. apply (Lk_mon_same m _ l _ _ ML MU MC HL').
Qed.

(** ---- all entries of an incarnation: every invariant at once ---- *)
Fixpoint l_all (cfgsx objs : sx) (ops : list sx) (m : mst) (l : lst) (es : list sx) : bool :=
  match es with
  | [] => true
  | e :: r => l_check cfgsx m l e && l_all cfgsx objs ops (mon_entry cfgsx objs ops m e) (l_step cfgsx m l e) r
  end.

Fixpoint l_fold (cfgsx objs : sx) (ops : list sx) (m : mst) (l : lst) (es : list sx) : lst :=
  match es with
  | [] => l
  | e :: r => l_fold cfgsx objs ops (mon_entry cfgsx objs ops m e) (l_step cfgsx m l e) r
  end.

Lemma entries_all o cfg bs cfgsx objs ops st0 : forall es n m l x x1 gx,
  G o (x_sys x) gx -> J m (x_sys x) gx -> K st0 x gx -> Bw (x_sys x) gx -> Lk m l (x_sys x) gx ->
  replay_entries cfg bs n x es = (x1, []) -> l_all cfgsx objs ops m l es = true ->
  exists gx1, gpath cfg (fun _ _ => True) (x_sys x) gx (x_sys x1) gx1 /\ G o (x_sys x1) gx1 /\
    J (fold_left (mon_entry cfgsx objs ops) es m) (x_sys x1) gx1 /\ K st0 x1 gx1 /\ Bw (x_sys x1) gx1 /\
    Lk (fold_left (mon_entry cfgsx objs ops) es m) (l_fold cfgsx objs ops m l es) (x_sys x1) gx1.
Proof.
  induction es as [|e es IH]; intros n m l x x1 gx Hg Hj Hk Hb HL H C; cbn in H, C.
  - inversion H; subst. exists gx. cbn. split; [constructor|auto].
  - destruct (replay_entry cfg bs x e) as [x'|] eqn:R; [|discriminate].
    apply andb_prop in C. destruct C as [C1 C2].
    destruct (entry_inv o cfg bs cfgsx objs ops m x e x' gx Hg Hj R) as [gx' [Hp [Hj' Hpost]]].
    assert (Hg' : G o (x_sys x') gx') by (eapply G_gpath; eauto).
    pose proof (entry_K cfg bs st0 e x gx x' gx' Hk Hp Hpost) as Hk'.
    pose proof (Bw_gpath _ _ _ _ _ _ Hp Hb) as Hb'.
    pose proof (entry_Lk cfgsx objs ops cfg bs m l x e x' gx gx' R Hp Hpost C1 HL) as HL'.
    destruct (IH _ _ _ _ _ _ Hg' Hj' Hk' Hb' HL' H C2) as [gx1 [Hp1 Rest]].
    exists gx1. cbn [fold_left l_fold]. split; [|exact Rest].
    eapply gpath_trans; [|exact Hp1]. eapply gpath_weaken; [|exact Hp]. auto.
Qed.

(** ---- the start of an incarnation ---- *)
Definition l0 (crs : list (copy * rref)) : lst := mkL [] [] None crs.

Lemma restore_locs alloc init : forall n bl sd ls, restore_blocks alloc init n = (bl, sd, ls) ->
  map b_loc bl = map bs_loc (firstn (length bl) init).
Proof.
  induction init as [|b rest IH]; intros n bl sd ls H; cbn in H.
  - inversion H. reflexivity.
  - destruct (alloc _ _); [|inversion H; reflexivity].
    destruct (restore_blocks alloc rest (S n)) as [[bl' sd'] ls'] eqn:E. inversion H; subst. cbn.
    rewrite (IH _ _ _ _ E). reflexivity.
Qed.

Lemma restore_live c cfg bs st0 now e0 x0 : replay_restore c cfg bs st0 now e0 = Some x0 ->
  firstn (sx_nat (sx_nth e0 1)) (state_locs (sx_nth e0 2)) = map fst (locs (s_pbl (x_sys x0))) /\
  s_uploads (x_sys x0) = [].
Proof.
  unfold replay_restore. cbv zeta. destruct (negb (Z.eqb (tag e0) 0)) eqn:T; cbn [orb]; [discriminate|].
  destruct (negb (pstate_eqb _ _)); [discriminate|].
  match goal with |- context [pbl_new ?a ?b ?c] => set (al := a); set (ol := b); set (il := c) end.
  destruct (pbl_new al ol il) as [p n] eqn:Ep.
  destruct (get_persistent_state p) as [[p' view]|] eqn:Eg; [|discriminate].
  match goal with |- (if ?cc then _ else _) = _ -> _ => destruct cc eqn:C; [|discriminate] end.
  intros H; inversion H; subst x0. cbn [x_sys s_pbl init_sys s_uploads]. split; [|reflexivity].
  apply andb_prop in C. destruct C as [C _]. apply andb_prop in C. destruct C as [C _]. apply Nat.eqb_eq in C.
  assert (p' = p).
  { assert (Hp : p = fst (pbl_new al ol il)) by (rewrite Ep; reflexivity). rewrite Hp in Eg |- *.
    apply (gps_new _ _ _ _ _ Eg). }
  subst p'. unfold pbl_new in Ep. destruct (restore_blocks al il 0) as [[bl sd] ls] eqn:E. cbn [new_nc] in Ep.
  inversion Ep as [[Hp' Hn]]. rewrite <- C, <- Hn. unfold locs. cbn [blocks]. rewrite (restore_locs _ _ _ _ _ _ E).
  subst il. unfold dec_state. cbn [snd]. unfold state_locs.
  rewrite <- !firstn_map, !map_map. reflexivity.
Qed.

Lemma Lk_start cfgsx objs ops c cfg bs st0 now e0 x0 m0 gx crs : replay_restore c cfg bs st0 now e0 = Some x0 ->
  tag e0 = 0%Z -> m_upl m0 = [] -> map fst crs = m_copies m0 ->
  (forall cp ref, In (cp, ref) crs -> scope cp -> ack_for (x_sys x0) gx ref (Some (c_loc cp))) ->
  Lk (mon_entry cfgsx objs ops m0 e0) (l0 crs) (x_sys x0) gx.
Proof.
  intros Hr T0 Hu Hcr Hack. destruct (restore_live _ _ _ _ _ _ _ Hr) as [Hlive Hup].
  destruct (mon_entry_store_fields cfgsx objs ops m0 e0) as [ML [_ [MU MC]]].
  assert (Hres : is_upres m0 e0 = false) by (unfold is_upres; rewrite T0; reflexivity).
  rewrite T0 in ML, MU, MC. cbn [Z.eqb] in ML, MU, MC. rewrite Hres in MU, MC.
  constructor; unfold l0; cbn [l_puts l_slot l_fin l_cr].
  - rewrite ML. exact Hlive.
  - rewrite Hup. reflexivity.
  - intros kk lo abs size H. destruct kk; discriminate.
  - intros kk ref H. discriminate.
  - rewrite MC. exact Hcr.
  - exact Hack.
  - intros slot k lo H. rewrite MU, Hu in H. discriminate.
Qed.

End Scope.

Notation Lk := (Lkg (fun c => c_old c = false)).

(** the start of an incarnation as the monitor leaves it: no upload in flight, every copy inherited *)
Definition m_start (m : mst) : Prop := m_upl m = [] /\ Forall (fun c => c_old c = true) (m_copies m).
Definition old_crs (m : mst) : list (copy * rref) := map (fun c => (c, (0, 0, 0)%N)) (m_copies m).

Lemma m_init_start : m_start m_init.
Proof. split; [reflexivity|constructor]. Qed.
Lemma mon_exit_start m : m_start (mon_exit m).
Proof.
  split; [reflexivity|]. unfold mon_exit. cbn [m_copies]. destruct (Z.eqb _ 0); [constructor|].
  rewrite Forall_forall. intros c Hin. apply in_map_iff in Hin. destruct Hin as [c0 [<- _]]. reflexivity.
Qed.

(** ---- one incarnation: the copies are live acknowledgements; owed copies resolve ---- *)
Theorem mon03_owed_copies_resolve c cfg bs st0 now e0 es x0 x1 cfgsx objs ops m0 :
  replay_restore c cfg bs st0 now e0 = Some x0 ->
  replay_entries cfg bs 1 x0 es = (x1, []) ->
  m_fresh m0 -> m_start m0 ->
  l_all cfgsx objs ops (mon_entry cfgsx objs ops m0 e0) (l0 (old_crs m0)) es = true ->
  let m1 := fold_left (mon_entry cfgsx objs ops) (e0 :: es) m0 in
  let l1 := l_fold cfgsx objs ops (mon_entry cfgsx objs ops m0 e0) (l0 (old_crs m0)) es in
  map fst (l_cr l1) = m_copies m1 /\
  m_live m1 = map fst (locs (s_pbl (x_sys x1))) /\
  exists alloc oldest init gx, greachable cfg alloc oldest init now (x_sys x1) gx /\
  forall cp ref, In (cp, ref) (l_cr l1) -> c_old cp = false ->
    exists a, In a (g_acks (gs_g gx)) /\ a_ref a = (fst (fst ref), snd (fst ref)) /\ a_seed a = snd ref /\
      totalReleased (s_pbl (x_sys x1)) <= a_abs a /\
      loc_at (x_sys x1) (a_abs a) = Some (c_loc cp) /\
      (m_prev (mon_exit m1) <> 0%Z ->
         exists w rest, gs_writes gx = w :: rest /\ x_state x1 = gw_state w /\ covers w a /\
           gw_base_abs w <= a_abs a /\
           ((N.of_nat (a_ep a - gw_base_ep w) < 2 ^ 32)%N -> (Z.of_nat (a_last a - a_abs a) < 2 ^ 16)%Z ->
            ref_to_index (fst (fst ref)) (snd (fst ref)) (restart_of (x_state x1))
              = Ok (Some (a_abs a - gw_base_abs w, snd ref)) /\
            exists b, nth_error (blocks (restart_of (x_state x1))) (a_abs a - gw_base_abs w) = Some b /\
                      (a_end a <= b_written b)%Z)).
Proof.
  intros Hr He Hf Hs Hall m1 l1. subst m1 l1. cbn [fold_left].
  destruct (replay_restore_init _ _ _ _ _ _ _ Hr) as [T0 [Hst [alloc [oldest [init Hx0]]]]].
  pose proof (G_init alloc oldest init now) as Hg0. rewrite <- Hx0 in Hg0.
  pose proof (J_restore_entry cfgsx objs ops m0 e0 (x_sys x0) g0 T0 Hf) as Hj0.
  assert (Hk0 : K st0 x0 g0) by (unfold K; cbn; exact Hst).
  assert (Hb0 : Bw (x_sys x0) g0) by (apply Bw_nowrites; reflexivity).
  assert (HL0 : Lk (mon_entry cfgsx objs ops m0 e0) (l0 (old_crs m0)) (x_sys x0) g0).
  { destruct Hs as [Hu Hold]. apply (Lk_start _ cfgsx objs ops c cfg bs st0 now e0 x0 m0 g0 _ Hr T0 Hu).
    - unfold old_crs. rewrite map_map. cbn [fst]. apply map_id.
    - intros cp ref Hin Ho. unfold old_crs in Hin. apply in_map_iff in Hin. destruct Hin as [c0 [Heq Hin]].
      inversion Heq; subst. rewrite Forall_forall in Hold. rewrite (Hold _ Hin) in Ho. discriminate. }
  destruct (entries_all _ oldest cfg bs cfgsx objs ops st0 es 1 _ _ x0 x1 g0 Hg0 Hj0 Hk0 Hb0 HL0 He Hall)
    as [gx [Hp [Hg [Hj [Hk [Hb HL]]]]]].
  set (m1 := fold_left _ es _) in *. set (l1 := l_fold _ _ _ _ _ es) in *.
  split; [exact (lk_cr _ _ _ _ _ HL)|]. split; [exact (lk_live _ _ _ _ _ HL)|].
  assert (R : greachable cfg alloc oldest init now (x_sys x1) gx).
  { eapply greachable_gpath; [|exact Hp]. exists []. cbn. rewrite Hx0. reflexivity. }
  exists alloc, oldest, init, gx. split; [exact R|].
  intros cp ref Hin Hold. destruct (lk_ack _ _ _ _ _ HL cp ref Hin Hold) as [a [Ha [Hr1 [Hr2 [Hge Hloc]]]]].
  exists a. split; [exact Ha|]. split; [exact Hr1|]. split; [exact Hr2|]. split; [exact Hge|].
  split; [apply Hloc; reflexivity|].
  intros Hprev.
  assert (Hcov : exists w rest, gs_writes gx = w :: rest /\ gw_cohort w = g_acks (gs_g gx) /\
                   forall a, In a (g_acks (gs_g gx)) -> covers w a).
  { revert Hprev. unfold mon_exit. cbn [m_prev]. destruct (m_exited m1) eqn:Ex.
    - intros _. apply (graceful_G oldest _ _ Hg). apply (j_e _ _ _ _ _ _ _ _ _ _ Hj Ex).
    - destruct (Nat.ltb_spec (m_lastput m1) (m_commit m1)) as [L|L]; [|intros Hc; exfalso; apply Hc; reflexivity].
      intros _. destruct (j_p4 _ _ _ _ _ _ _ _ _ _ Hj L) as [w [Hinw Hc]]. eapply crash_covers_G; eauto. }
  destruct Hcov as [w [rest [Hw [Hc Hcv]]]]. exists w, rest.
  assert (Hxs : x_state x1 = gw_state w) by (unfold K in Hk; rewrite Hw in Hk; exact Hk).
  assert (Hbase : gw_base_abs w <= a_abs a).
  { destruct Hb as [B1 _]. specialize (B1 w). rewrite Hw in B1. specialize (B1 (or_introl eq_refl)).
    unfold tr in B1, Hge. lia. }
  split; [exact Hw|]. split; [exact Hxs|]. split; [apply Hcv; exact Ha|]. split; [exact Hbase|].
  intros H32 H16. rewrite Hxs.
  destruct Hg as [[[[_ [Gi [Wk _]]] _] _] _].
  pose proof (gi_static _ _ _ Gi) as St. rewrite Forall_forall in St.
  rewrite Hw in Wk. apply Forall_inv in Wk. destruct Wk as [_ [_ Wk]].
  destruct (covered_record_resolves oldest w a Hbase (Hcv a Ha) (St a Ha) Wk H32 H16) as [Q1 Q2].
  rewrite Hr1 in Q1. cbn [fst snd] in Q1. rewrite Hr2 in Q1. split; [exact Q1|exact Q2].
Qed.

(** ---- the link checks over all incarnations of an observation ---- *)
Fixpoint l_incs (cfgsx objs : sx) (incs hists : list sx) (m : mst) : bool :=
  match incs, hists with
  | inc :: incs', h :: hists' =>
      match sx_list h with
      | e0 :: es =>
          let ops := sx_list (sx_nth inc 1) in
          l_all cfgsx objs ops (mon_entry cfgsx objs ops m e0) (l0 (old_crs m)) es &&
          l_incs cfgsx objs incs' hists' (mon_exit (fold_left (mon_entry cfgsx objs ops) (e0 :: es) m))
      | [] => true
      end
  | _, _ => true
  end.

Definition l_obs (inp obs : sx) : bool :=
  l_incs (sx_nth inp 0) (sx_nth inp 1) (sx_list (sx_nth inp 2)) (sx_list obs) m_init.
