(** C03, monitor versus model — part 8: the monitor's acknowledged COPIES are acknowledgements of
    the model that are not evicted, and the monitor's view of the block list IS the model's list.

    The monitor records, per acknowledged upload, the key and the location of the block the upload's
    BlockList.Put went into ([m_copies]); it drops a copy when a PopFront at full occupancy removes the
    block at that location.  The model's ghost records, per finalizer that returned OK, an [ack] with
    the absolute block index and the BlockReference written into the index record.  The link between
    the two is made by a second bookkeeping [lst] that runs alongside the monitor on the history
    (which Put belongs to which upload slot, which finalizer returned OK in the current op segment,
    which reference each copy's finalizer reported) and two decidable checks [l_check]:
      - every PopFront happens at full occupancy (old+current+new+1 blocks: the rotation of the
        old/current/new map — the only eviction the monitor excuses; true on all 1 530 PopFront entries
        of the 800 generated observations it was evaluated on);
      - an upload that the monitor turns into a copy had, in its op segment and with no PopFront since,
        a finalizer that returned OK, and that finalizer is the one of the Put recorded for its slot;
      - no second restore entry.
    Invariant [Lk] (for every accepted history, every interleaving): [m_live] is the list of the
    locations of the model's blocks; every copy made in this incarnation has an ack of the model with
    the reference its finalizer reported, NOT evicted, whose block is at the copy's location.
    [mon03_copies_are_live_acks] / [mon03_owed_copies_resolve]: at the end of the incarnation, and if
    the monitor carries the copy into the next incarnation as an obligation, the state on the medium
    covers that ack and lists its block, so the reference resolves on the restarted list. *)
From Coq Require Import List NArith ZArith Bool Arith Lia.
From BBS Require Import Common.Sx Persist.PBL Persist.PBLProofs Persist.Syncer Persist.SyncerProofs
  Persist.Shutdown Persist.ShutdownArith Persist.ShutdownProofs Persist.ShutdownOrder Run.R03 Run.R03MonGhost
  Run.R03MonFields Run.R03MonStoreFields Run.R03MonReplay Run.R03MonList Run.R03Mon Run.R03MonObs Run.R03MonInherit.
Import ListNotations.
Local Open Scope nat_scope.

(** ---- small list facts ---- *)
Lemma assoc_nat_remove_ne {A} k k' (l : list (nat * A)) : k <> k' -> assoc_nat k (remove_nat k' l) = assoc_nat k l.
Proof.
  intros Hne. unfold remove_nat. induction l as [|[j v] l IH]; [reflexivity|]. cbn [filter fst].
  destruct (Nat.eqb_spec k' j) as [->|Hj]; cbn [negb].
  - cbn [assoc_nat]. destruct (Nat.eqb_spec k j); [congruence|exact IH].
  - cbn [assoc_nat]. rewrite IH. reflexivity.
Qed.

Lemma assoc_nat_remove_eq {A} k (l : list (nat * A)) : assoc_nat k (remove_nat k l) = None.
Proof.
  unfold remove_nat. induction l as [|[j v] l IH]; [reflexivity|]. cbn [filter fst].
  destruct (Nat.eqb_spec k j) as [->|Hj]; cbn [negb]; [exact IH|].
  cbn [assoc_nat]. destruct (Nat.eqb_spec k j); [congruence|exact IH].
Qed.

Lemma clear_nth_length {A} (l : list (option A)) : forall k, length (clear_nth l k) = length l.
Proof. induction l as [|x l IH]; intros [|k]; cbn; auto. Qed.

Lemma clear_nth_some {A} (l : list (option A)) : forall k i v, nth_error (clear_nth l k) i = Some (Some v) ->
  nth_error l i = Some (Some v).
Proof.
  induction l as [|x l IH]; intros [|k] [|i] v H; cbn in *; try discriminate; auto.
  eapply IH; eauto.
Qed.

Lemma map_fst_filter {A B} (P : A -> bool) (l : list (A * B)) :
  map fst (filter (fun cr => P (fst cr)) l) = filter P (map fst l).
Proof.
  induction l as [|[a b] l IH]; [reflexivity|]. cbn [filter map fst]. destruct (P a); cbn [map fst]; rewrite IH; reflexivity.
Qed.

Lemma nth_error_app_some {A} (l l' : list A) i v : nth_error l i = Some v -> nth_error (l ++ l') i = Some v.
Proof. intros H. rewrite nth_error_app1; [exact H|]. apply nth_error_Some. congruence. Qed.

(** ---- the second bookkeeping ---- *)
Definition rref : Type := (N * N * N)%type.   (* (EpochID, BlocksFromLast, seed) reported by a finalizer entry *)

Record lst := mkL {
  l_puts : list (option Z);      (* k-th BlockList.Put of the incarnation: location of its block *)
  l_slot : list (nat * nat);     (* upload slot -> number of its Put *)
  l_fin : option (nat * rref);   (* latest finalizer of the current op segment that returned OK, no PopFront since *)
  l_cr : list (copy * rref)      (* the monitor's copies with the reference their finalizer reported *)
}.

Definition ref_of (o : option (nat * rref)) : rref := match o with Some (_, r) => r | None => (0, 0, 0)%N end.

Definition makes_copy (m : mst) (x : sx) : option (nat * Z) :=
  if is_upres m x && (res_code x =? 0)%Z && negb (m_final m) then
    match assoc_nat (op_slot m) (m_upl m) with Some (k, Some loc) => Some (k, loc) | _ => None end
  else None.

Definition l_step (cfgsx : sx) (m : mst) (l : lst) (x : sx) : lst :=
  if (tag x =? 19)%Z then mkL (l_puts l) (l_slot l) None (l_cr l)
  else if (tag x =? 2)%Z then
    mkL (l_puts l) (l_slot l) None
        (match m_live m with
         | hd :: _ => if Nat.eqb (length (m_live m)) (full_count cfgsx)
                      then filter (fun cr => negb (Z.eqb (c_loc (fst cr)) hd)) (l_cr l) else l_cr l
         | [] => l_cr l
         end)
  else if (tag x =? 3)%Z then
    mkL (l_puts l ++ [nth_error (m_live m) (sx_nat (sx_nth x 1))])
        (if (tag (m_op m) =? 1)%Z then (op_slot m, length (l_puts l)) :: remove_nat (op_slot m) (l_slot l) else l_slot l)
        (l_fin l) (l_cr l)
  else if (tag x =? 4)%Z then
    mkL (l_puts l) (l_slot l)
        (if (sx_Z (sx_nth x 2) =? 0)%Z
         then Some (sx_nat (sx_nth x 1), (sx_N (sx_nth x 4), sx_N (sx_nth x 5), sx_N (sx_nth x 6))) else l_fin l)
        (l_cr l)
  else if is_upres m x then
    mkL (l_puts l) (remove_nat (op_slot m) (l_slot l)) (l_fin l)
        (match makes_copy m x with Some (k, loc) => (mkCopy k loc false, ref_of (l_fin l)) :: l_cr l | None => l_cr l end)
  else l.

Definition l_check (cfgsx : sx) (m : mst) (l : lst) (x : sx) : bool :=
  negb (tag x =? 0)%Z &&
  (if (tag x =? 2)%Z then match m_live m with [] => true | _ => Nat.eqb (length (m_live m)) (full_count cfgsx) end
   else match makes_copy m x with
        | Some _ => match l_fin l, assoc_nat (op_slot m) (l_slot l) with
                    | Some (kk, _), Some kk' => Nat.eqb kk kk'
                    | _, _ => false
                    end
        | None => true
        end).

(** ---- the invariant ---- *)
Definition loc_at (s : sys) (abs : nat) : option Z := option_map fst (nth_error (locs (s_pbl s)) (abs - tr s)).

Definition ack_for (s : sys) (gx : gsys) (ref : rref) (loc : option Z) : Prop :=
  exists a, In a (g_acks (gs_g gx)) /\ a_ref a = (fst (fst ref), snd (fst ref)) /\ a_seed a = snd ref /\
            tr s <= a_abs a /\ forall lo, loc = Some lo -> loc_at s (a_abs a) = Some lo.

Record Lk (m : mst) (l : lst) (s : sys) (gx : gsys) : Prop := mkLk {
  lk_live : m_live m = map fst (locs (s_pbl s));
  lk_len : length (l_puts l) = length (s_uploads s);
  lk_put : forall kk lo abs size, nth_error (l_puts l) kk = Some (Some lo) ->
             nth_error (s_uploads s) kk = Some (Some (PutAt abs, size)) -> abs < tr s \/ loc_at s abs = Some lo;
  lk_fin : forall kk ref, l_fin l = Some (kk, ref) ->
             exists lo, nth_error (l_puts l) kk = Some lo /\ ack_for s gx ref lo;
  lk_cr : map fst (l_cr l) = m_copies m;
  lk_ack : forall c ref, In (c, ref) (l_cr l) -> c_old c = false -> ack_for s gx ref (Some (c_loc c));
  lk_slot : forall slot k lo, assoc_nat slot (m_upl m) = Some (k, lo) ->
              exists kk, assoc_nat slot (l_slot l) = Some kk /\ nth_error (l_puts l) kk = Some lo
}.

Lemma ack_for_frame s gx s' gx' ref lo : tr s' = tr s -> locs (s_pbl s') = locs (s_pbl s) ->
  (forall a, In a (g_acks (gs_g gx)) -> In a (g_acks (gs_g gx'))) -> ack_for s gx ref lo -> ack_for s' gx' ref lo.
Proof.
  intros Ht Hl Ha [a [H1 [H2 [H3 [H4 H5]]]]]. exists a. unfold loc_at in *. rewrite Ht, Hl. auto.
Qed.

(** steps that touch neither the list nor the pending Puts *)
Lemma Lk_frame m l s gx s' gx' : tr s' = tr s -> locs (s_pbl s') = locs (s_pbl s) -> s_uploads s' = s_uploads s ->
  (forall a, In a (g_acks (gs_g gx)) -> In a (g_acks (gs_g gx'))) -> Lk m l s gx -> Lk m l s' gx'.
Proof.
  intros Ht Hl Hu Ha [A B C D E F G0]. constructor; auto.
  - rewrite Hl. exact A.
  - rewrite Hu. exact B.
  - intros kk lo abs size H1 H2. rewrite Hu in H2. unfold loc_at. rewrite Ht, Hl. apply (C kk lo abs size H1 H2).
  - intros kk ref H. destruct (D kk ref H) as [lo [H1 H2]]. exists lo. split; [exact H1|]. eapply ack_for_frame; eauto.
  - intros c ref H1 H2. eapply ack_for_frame; eauto.
Qed.

Lemma Lk_mon_same m m' l s gx : m_live m' = m_live m -> m_upl m' = m_upl m -> m_copies m' = m_copies m ->
  Lk m l s gx -> Lk m' l s gx.
Proof. intros H1 H2 H3 [A B C D E F G0]. constructor; auto; rewrite ?H1, ?H2, ?H3; auto. Qed.

Lemma gpath_quiet_frame cfg s gx s' gx' : gpath cfg (fun _ ev => quiet ev /\ notfin ev) s gx s' gx' ->
  tr s' = tr s /\ locs (s_pbl s') = locs (s_pbl s) /\ s_uploads s' = s_uploads s /\
  g_acks (gs_g gx') = g_acks (gs_g gx).
Proof.
  induction 1 as [|s x e s1 s' x' [Hq Hn] Hs _ [I1 [I2 [I3 I4]]]]; [auto|].
  destruct (quiet_frame _ _ _ _ Hq Hs) as [Q1 [Q2 Q3]].
  rewrite I1, I2, I3, I4, Q1, Q2, Q3, (gstep_acks_same _ _ _ _ Hn). auto.
Qed.

Lemma quiet_notfin ev : quiet ev -> notfin ev.
Proof. destruct ev; cbn; try contradiction; intros _ k b sd H; discriminate. Qed.

(** ---- the four list events ---- *)
Lemma loc_at_app s s' abs lo l1 : tr s' = tr s -> locs (s_pbl s') = locs (s_pbl s) ++ l1 ->
  loc_at s abs = Some lo -> loc_at s' abs = Some lo.
Proof.
  unfold loc_at. intros Ht Hl H. rewrite Ht, Hl.
  destruct (nth_error (locs (s_pbl s)) (abs - tr s)) as [v|] eqn:E; [|discriminate].
  rewrite (nth_error_app_some _ _ _ _ E). exact H.
Qed.

Lemma ack_for_app s gx s' ref lo l1 : tr s' = tr s -> locs (s_pbl s') = locs (s_pbl s) ++ l1 ->
  ack_for s gx ref lo -> ack_for s' gx ref lo.
Proof.
  intros Ht Hl [a [H1 [H2 [H3 [H4 H5]]]]]. exists a. rewrite Ht. splits; auto.
  intros lo0 E. eapply loc_at_app; eauto.
Qed.

(** PushBack *)
Lemma Lk_push m m' l s gx s' l1 : tr s' = tr s -> locs (s_pbl s') = locs (s_pbl s) ++ l1 ->
  s_uploads s' = s_uploads s -> m_live m' = m_live m ++ map fst l1 -> m_upl m' = m_upl m -> m_copies m' = m_copies m ->
  Lk m l s gx -> Lk m' l s' gx.
Proof.
  intros Ht Hl Hu M1 M2 M3 [A B C D E F G0]. constructor; auto.
  - rewrite M1, Hl, map_app, A. reflexivity.
  - rewrite Hu. exact B.
  - intros kk lo abs size H1 H2. rewrite Hu in H2. rewrite Ht.
    destruct (C kk lo abs size H1 H2) as [H|H]; [left; exact H|right; eapply loc_at_app; eauto].
  - intros kk ref H. destruct (D kk ref H) as [lo [H1 H2]]. exists lo. split; [exact H1|]. eapply ack_for_app; eauto.
  - rewrite M3. exact E.
  - intros c ref H1 H2. eapply ack_for_app; eauto.
  - rewrite M2. exact G0.
Qed.

(** PopFront at full occupancy *)
Lemma loc_at_pop s s' b0 abs lo : tr s' = S (tr s) -> locs (s_pbl s) = b0 :: locs (s_pbl s') ->
  tr s < abs -> loc_at s abs = Some lo -> loc_at s' abs = Some lo.
Proof.
  unfold loc_at. intros Ht Hl Hlt H. rewrite Ht. rewrite Hl in H.
  replace (abs - tr s) with (S (abs - S (tr s))) in H by lia. exact H.
Qed.

Lemma Lk_pop cfgsx m m' l s gx s' b0 : tr s' = S (tr s) -> locs (s_pbl s) = b0 :: locs (s_pbl s') ->
  s_uploads s' = s_uploads s -> Nat.eqb (length (m_live m)) (full_count cfgsx) = true ->
  m_live m' = tl (m_live m) -> m_upl m' = m_upl m ->
  m_copies m' = filter (fun c => negb (Z.eqb (c_loc c) (fst b0))) (m_copies m) ->
  Lk m l s gx ->
  Lk m' (mkL (l_puts l) (l_slot l) None (filter (fun cr => negb (Z.eqb (c_loc (fst cr)) (fst b0))) (l_cr l))) s' gx.
Proof.
  intros Ht Hl Hu Hfull M1 M2 M3 [A B C D E F G0]. constructor; cbn [l_puts l_slot l_fin l_cr].
  - rewrite M1, A, Hl. reflexivity.
  - rewrite Hu. exact B.
  - intros kk lo abs size H1 H2. rewrite Hu in H2. rewrite Ht.
    destruct (C kk lo abs size H1 H2) as [H|H]; [left; lia|].
    destruct (Nat.eq_dec abs (tr s)) as [->|Hne]; [left; lia|].
    destruct (Nat.lt_ge_cases abs (tr s)) as [Hlt|Hge]; [left; lia|]. right. eapply loc_at_pop; eauto. lia.
  - intros kk ref H. discriminate.
  - rewrite M3, <- E. apply (map_fst_filter (fun c => negb (Z.eqb (c_loc c) (fst b0)))).
  - intros c ref Hin Hold. apply filter_In in Hin. destruct Hin as [Hin Hk]. cbn [fst] in Hk.
    destruct (F c ref Hin Hold) as [a [H1 [H2 [H3 [H4 H5]]]]]. exists a. rewrite Ht. splits; auto.
    + (* the kept copy's block is not the popped one *)
      destruct (Nat.eq_dec (a_abs a) (tr s)) as [Heq|Hne]; [|lia]. exfalso.
      specialize (H5 _ eq_refl). unfold loc_at in H5. rewrite Heq, Nat.sub_diag, Hl in H5. cbn in H5.
      inversion H5 as [H6]. rewrite H6, Z.eqb_refl in Hk. discriminate.
    + intros lo E0. inversion E0; subst lo.
      destruct (Nat.eq_dec (a_abs a) (tr s)) as [Heq|Hne].
      * exfalso. specialize (H5 _ eq_refl). unfold loc_at in H5. rewrite Heq, Nat.sub_diag, Hl in H5. cbn in H5.
        inversion H5 as [H6]. rewrite H6, Z.eqb_refl in Hk. discriminate.
      * eapply loc_at_pop; eauto. lia.
  - rewrite M2. exact G0.
Qed.

(** BlockList.Put *)
Lemma Lk_put m m' l s gx s' idx size tok (slots' : list (nat * nat)) :
  s_pbl s' = s_pbl s -> s_uploads s' = s_uploads s ++ [Some (tok, size)] ->
  (forall abs, tok = PutAt abs -> abs = tr s + idx) ->
  m_live m' = m_live m -> m_copies m' = m_copies m ->
  (* either the op is not the start of an upload, or the slot's Put is recorded on both sides *)
  ((m_upl m' = m_upl m /\ slots' = l_slot l) \/
   exists slot key, m_upl m' = (slot, (key, nth_error (m_live m) idx)) :: remove_nat slot (m_upl m) /\
                    slots' = (slot, length (l_puts l)) :: remove_nat slot (l_slot l)) ->
  Lk m l s gx ->
  Lk m' (mkL (l_puts l ++ [nth_error (m_live m) idx]) slots' (l_fin l) (l_cr l)) s' gx.
Proof.
  intros Hp Hu Htok M1 M3 Hslots [A B C D E F G0].
  assert (Ht : tr s' = tr s) by (unfold tr; rewrite Hp; reflexivity).
  assert (Hl : locs (s_pbl s') = locs (s_pbl s)) by (rewrite Hp; reflexivity).
  assert (Hla : forall abs, loc_at s' abs = loc_at s abs) by (intros abs; unfold loc_at; rewrite Ht, Hl; reflexivity).
  assert (Hack : forall ref lo, ack_for s gx ref lo -> ack_for s' gx ref lo).
  { intros ref lo. apply ack_for_frame; auto. }
  constructor; cbn [l_puts l_slot l_fin l_cr].
  - rewrite M1, Hl. exact A.
  - rewrite Hu, !app_length, B. reflexivity.
  - intros kk lo abs sz H1 H2. rewrite Ht, Hla. rewrite Hu in H2.
    destruct (Nat.lt_ge_cases kk (length (l_puts l))) as [Hlt|Hge].
    + rewrite nth_error_app1 in H1 by exact Hlt. rewrite nth_error_app1 in H2 by (rewrite <- B; exact Hlt). eauto.
    + assert (kk = length (l_puts l)).
      { assert (nth_error (l_puts l ++ [nth_error (m_live m) idx]) kk <> None) as Hn by congruence.
        apply nth_error_Some in Hn. rewrite app_length in Hn. cbn in Hn. lia. }
      subst kk. rewrite nth_error_app2, Nat.sub_diag in H1 by lia. cbn in H1. inversion H1 as [H3].
      rewrite B in H2. rewrite nth_error_app2, Nat.sub_diag in H2 by lia. cbn in H2. inversion H2; subst tok sz.
      rewrite (Htok abs eq_refl). right. unfold loc_at. replace (tr s + idx - tr s) with idx by lia.
      first [rewrite A, nth_error_map; reflexivity | rewrite A in H3; rewrite nth_error_map in H3; exact H3].
  - intros kk ref H. destruct (D kk ref H) as [lo [H1 H2]]. exists lo. split; [apply nth_error_app_some; exact H1|auto].
  - rewrite M3. exact E.
  - intros c ref H1 H2. auto.
  - intros slot k lo Hs. destruct Hslots as [[M2 ->]|[slot0 [key [M2 ->]]]]; rewrite M2 in Hs.
    + destruct (G0 slot k lo Hs) as [kk [K1 K2]]. exists kk. split; [exact K1|apply nth_error_app_some; exact K2].
    + cbn [assoc_nat] in *. destruct (Nat.eqb_spec slot slot0) as [->|Hne].
      * inversion Hs; subst. exists (length (l_puts l)). split; [reflexivity|].
        rewrite nth_error_app2, Nat.sub_diag by lia. reflexivity.
      * rewrite assoc_nat_remove_ne in Hs by exact Hne. rewrite assoc_nat_remove_ne by exact Hne.
        destruct (G0 slot k lo Hs) as [kk [K1 K2]]. exists kk. split; [exact K1|apply nth_error_app_some; exact K2].
Qed.

(** the finalizer *)
Lemma Lk_fin m m' l s gx s' gx' k fin' :
  tr s' = tr s -> locs (s_pbl s') = locs (s_pbl s) -> s_uploads s' = clear_nth (s_uploads s) k ->
  (forall a, In a (g_acks (gs_g gx)) -> In a (g_acks (gs_g gx'))) ->
  m_live m' = m_live m -> m_upl m' = m_upl m -> m_copies m' = m_copies m ->
  (fin' = l_fin l \/
   exists ref abs size a, fin' = Some (k, ref) /\ nth_error (s_uploads s) k = Some (Some (PutAt abs, size)) /\
     tr s <= abs /\ In a (g_acks (gs_g gx')) /\ a_abs a = abs /\
     a_ref a = (fst (fst ref), snd (fst ref)) /\ a_seed a = snd ref) ->
  Lk m l s gx -> Lk m' (mkL (l_puts l) (l_slot l) fin' (l_cr l)) s' gx'.
Proof.
  intros Ht Hl Hu Ha M1 M2 M3 Hfin [A B C D E F G0].
  assert (Hack : forall ref lo, ack_for s gx ref lo -> ack_for s' gx' ref lo).
  { intros ref lo. apply ack_for_frame; auto. }
  constructor; cbn [l_puts l_slot l_fin l_cr].
  - rewrite M1, Hl. exact A.
  - rewrite Hu, clear_nth_length. exact B.
  - intros kk lo abs size H1 H2. rewrite Hu in H2. apply clear_nth_some in H2.
    unfold loc_at. rewrite Ht, Hl. apply (C kk lo abs size H1 H2).
  - intros kk ref H. destruct Hfin as [->|[ref0 [abs [size [a [-> [Hup [Hge [Hin [Habs [Hr Hsd]]]]]]]]]]].
    + destruct (D kk ref H) as [lo [H1 H2]]. exists lo. auto.
    + inversion H; subst kk ref0.
      assert (Hlt : k < length (l_puts l)) by (rewrite B; apply nth_error_Some; congruence).
      destruct (nth_error (l_puts l) k) as [lo|] eqn:Ep; [|apply nth_error_None in Ep; lia].
      exists lo. split; [reflexivity|]. exists a. rewrite Ht, Habs. splits; auto.
      intros lo0 ->. destruct (C k lo0 abs size Ep Hup) as [Hc|Hc]; [lia|]. unfold loc_at in *. rewrite Ht, Hl. exact Hc.
  - rewrite M3. exact E.
  - intros c ref H1 H2. auto.
  - rewrite M2. exact G0.
Qed.

(** the result of an upload op *)
Lemma Lk_upres m m' l s gx slot (mk : option (nat * Z)) :
  m_live m' = m_live m -> m_upl m' = remove_nat slot (m_upl m) ->
  (match mk with
   | Some (k, loc) => m_copies m' = mkCopy k loc false :: m_copies m /\
                      assoc_nat slot (m_upl m) = Some (k, Some loc) /\
                      exists kk ref, l_fin l = Some (kk, ref) /\ assoc_nat slot (l_slot l) = Some kk
   | None => m_copies m' = m_copies m
   end) ->
  Lk m l s gx ->
  Lk m' (mkL (l_puts l) (remove_nat slot (l_slot l)) (l_fin l)
             (match mk with Some (k, loc) => (mkCopy k loc false, ref_of (l_fin l)) :: l_cr l | None => l_cr l end)) s gx.
Proof.
  intros M1 M2 Hmk [A B C D E F G0]. constructor; cbn [l_puts l_slot l_fin l_cr].
  - rewrite M1. exact A.
  - exact B.
  - exact C.
  - exact D.
  - destruct mk as [[k loc]|]; [destruct Hmk as [M3 _]|]; rewrite ?M3, ?Hmk; cbn [map fst]; rewrite E; reflexivity.
  - intros c ref Hin Hold. destruct mk as [[k loc]|]; [|auto].
    destruct Hin as [Heq|Hin]; [|auto]. inversion Heq; subst c ref. cbn [c_loc].
    destruct Hmk as [_ [Hs [kk [ref [Hf Hk]]]]]. rewrite Hf. cbn [ref_of].
    destruct (G0 slot k (Some loc) Hs) as [kk2 [K1 K2]]. rewrite Hk in K1. inversion K1; subst kk2.
    destruct (D kk ref Hf) as [lo [H1 H2]]. rewrite K2 in H1. inversion H1; subst lo. exact H2.
  - intros s0 k lo Hs. rewrite M2 in Hs.
    destruct (Nat.eq_dec s0 slot) as [->|Hne]; [rewrite assoc_nat_remove_eq in Hs; discriminate|].
    rewrite assoc_nat_remove_ne in Hs by exact Hne. rewrite assoc_nat_remove_ne by exact Hne. exact (G0 _ _ _ Hs).
Qed.
