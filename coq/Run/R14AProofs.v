(** C14A: the monitor [mon14A] is silent on every observation the judge
    accepts as agreeing with the model, hence on the model's own output — for
    all histories of Put / Get through the client and raw UpdateActionResult /
    GetActionResult requests, all instance names, digest functions, hash
    lengths, sizes and values. *)
From Coq Require Import List ZArith Bool Lia.
From BBS Require Import Common.Sx Rpc.ActionCache Rpc.ActionCacheProofs Run.MonSilentSx Run.R14 Run.R14A.
Import ListNotations.
Open Scope Z_scope.

(** the operations through the client carry a digest.Digest *)
Definition op_wf14A (op : sx) : Prop :=
  sx_Z (sx_nth op 0) = 0 \/ sx_Z (sx_nth op 0) = 1 -> key_wf inst_ok14 (dec_key op) = true.
Definition inp_wf14A (inp : sx) : Prop := Forall op_wf14A (sx_list (sx_nth inp 0)).

Lemma legacy_infer len : legacy_fn len = infer_fn len.
Proof.
  unfold legacy_fn, infer_fn. cbn [find].
  change (fn_len 1) with (Some 32). change (fn_len 2) with (Some 40). change (fn_len 3) with (Some 64).
  change (fn_len 4) with (Some 96). change (fn_len 5) with (Some 128). cbv iota beta.
  rewrite !(Z.eqb_sym _ len). reflexivity.
Qed.

Lemma mon_key_server q :
  mon_key true q = match server_digest inst_ok14 q with inr k => Some k | inl _ => None end.
Proof.
  unfold mon_key, server_digest, get_bare_function. cbn [andb]. rewrite legacy_infer.
  rewrite (Z.leb_antisym (k_size q) 0).
  destruct (k_fn q =? 0).
  - destruct (infer_fn (k_len q)) as [f|]; [|destruct (inst_ok14 (k_inst q)); reflexivity].
    destruct (inst_ok14 (k_inst q)); cbn [negb andb]; [|reflexivity].
    destruct (fn_len f) as [l|]; [|reflexivity]. rewrite (Z.eqb_sym l).
    destruct (k_len q =? l); cbn [negb andb]; [|reflexivity].
    destruct (k_size q <? 0); reflexivity.
  - destruct (inst_ok14 (k_inst q)); cbn [negb andb].
    + destruct (fn_len (k_fn q)) as [l|] eqn:El; [|reflexivity]. rewrite El, (Z.eqb_sym l).
      destruct (k_len q =? l); cbn [negb andb]; [|reflexivity].
      destruct (k_size q <? 0); reflexivity.
    + destruct (fn_len (k_fn q)); reflexivity.
Qed.

Lemma mon_key_client q : key_wf inst_ok14 q = true -> mon_key false q = Some q.
Proof.
  unfold key_wf, mon_key. cbn [andb]. intro H.
  destruct (fn_len (k_fn q)) as [l|]; [|rewrite andb_false_r in H; discriminate].
  rewrite (Z.eqb_sym l), H. destruct q. reflexivity.
Qed.

Lemma mon_ac_op_model st op :
  op_wf14A op -> mon_ac_op st op (enc_res (snd (ac_op st op))) = ([], fst (ac_op st op)).
Proof.
  intro Hwf. unfold op_wf14A in Hwf. unfold mon_ac_op, ac_op.
  destruct (sx_Z (sx_nth op 0) =? 0) eqn:K0.
  { apply Z.eqb_eq in K0. specialize (Hwf (or_introl K0)).
    rewrite (client_put_wf _ _ _ _ Hwf). cbn [orb negb]. rewrite (mon_key_client _ Hwf).
    cbn -[sx_eqb enc_req]. rewrite sx_eqb_refl. reflexivity. }
  destruct (sx_Z (sx_nth op 0) =? 1) eqn:K1.
  { apply Z.eqb_eq in K1. specialize (Hwf (or_intror K1)).
    rewrite (client_get_wf _ _ _ Hwf). cbn [orb negb]. rewrite (mon_key_client _ Hwf).
    assert (K2 : sx_Z (sx_nth op 0) =? 2 = false) by (rewrite K1; reflexivity). rewrite K2.
    destruct (ac_get st (dec_key op)) as [v|]; cbn -[sx_eqb enc_req];
      rewrite sx_eqb_refl, ?Z.eqb_refl; reflexivity. }
  cbn [orb negb]. rewrite mon_key_server.
  destruct (sx_Z (sx_nth op 0) =? 2) eqn:K2.
  - unfold server_update. destruct (server_digest inst_ok14 (dec_key op)) as [c|k] eqn:E.
    + apply server_digest_inl in E. subst c. reflexivity.
    + cbn -[sx_eqb enc_req]. rewrite sx_eqb_refl. reflexivity.
  - unfold server_get. destruct (server_digest inst_ok14 (dec_key op)) as [c|k] eqn:E.
    + apply server_digest_inl in E. subst c. reflexivity.
    + destruct (ac_get st k) as [v|]; cbn -[sx_eqb enc_req];
        rewrite sx_eqb_refl, ?Z.eqb_refl; reflexivity.
Qed.

Lemma mon_ac_ops_model : forall ops st,
  Forall op_wf14A ops -> mon_ac_ops st ops (snd (ac_ops st ops)) = ([], fst (ac_ops st ops)).
Proof.
  induction ops as [|op ops IH]; intros st Hwf; [reflexivity|].
  inversion Hwf as [|? ? Hop Hops]. subst. cbn [ac_ops].
  pose proof (mon_ac_op_model st op Hop) as Hm.
  destruct (ac_op st op) as [st1 r]. cbn [fst snd] in Hm.
  specialize (IH st1 Hops). destruct (ac_ops st1 ops) as [st2 rs]. cbn [fst snd] in *.
  cbn [mon_ac_ops]. rewrite Hm, IH. reflexivity.
Qed.

Lemma sx_seteq_refl14A l : sx_seteq l l = true.
Proof.
  unfold sx_seteq. assert (H : sx_subset l l = true).
  { unfold sx_subset. apply forallb_forall. intros z Hz. apply existsb_exists.
    exists z. split; [exact Hz|apply sx_eqb_refl]. }
  rewrite H. reflexivity.
Qed.

Theorem mon14A_silent_on_agreeing : forall inp obs,
  inp_wf14A inp -> agree14A (run14A inp) obs = true -> mon14A inp obs = [].
Proof.
  intros inp obs Hwf. unfold agree14A, run14A, mon14A.
  pose proof (mon_ac_ops_model (sx_list (sx_nth inp 0)) [] Hwf) as Hm.
  destruct (ac_ops [] (sx_list (sx_nth inp 0))) as [st rs]. cbn [fst snd] in Hm.
  rewrite !sx_nth_L. cbn [nth sx_list]. intro H.
  apply andb_prop in H. destruct H as [H H3]. apply andb_prop in H. destruct H as [H1 H2].
  apply sx_eqb_eq in H1. rewrite H1. cbn [sx_list]. rewrite Hm. cbn [app].
  unfold enc_store in H2. rewrite map_length in H2. rewrite H2, H3. reflexivity.
Qed.

Theorem agree14A_model : forall inp, agree14A (run14A inp) (run14A inp) = true.
Proof.
  intro inp. unfold agree14A. rewrite sx_eqb_refl, Nat.eqb_refl, sx_seteq_refl14A. reflexivity.
Qed.

Theorem mon14A_silent_on_model : forall inp, inp_wf14A inp -> mon14A inp (run14A inp) = [].
Proof. intros inp Hwf. apply mon14A_silent_on_agreeing; [exact Hwf|apply agree14A_model]. Qed.
