(** C07: sx interface of the persistence model — decoders, the coarse
    ("run to quiescence") executor over the fine-grained LTS of
    Persist/Syncer.v, the monitor on implementation observations, the judge.

    Input  : (cfg ops)
      cfg  = (interval retry t0 oldestEpochID (initblock ...))
      initblock = ((off size) writeOffset (seed ...) found)
      op   = (1 back size off blkerr)   Put into block len-1-back (no-op when absent)
           | (2 k)                      run the finalizer of the k-th started Put
           | (3)                        PopFront (no-op on an empty list)
           | (4 ok)                     PushBack; the allocator succeeds iff ok
           | (5 ok)                     the pending DataSyncer call returns (nil iff ok)
           | (6 ok)                     the pending WritePersistentState call returns
           | (7 d)                      the clock advances by d
           | (8 who)                    the timer loop who (0 release, 1 put) waits on fires (if due)
           | (9)                        the context is cancelled
           | (10 epoch bfl)             BlockReferenceToBlockIndex
           | (11 idx)                   BlockIndexToBlockReference
    Observation: one entry per op, taken when both loops are blocked again:
      (res r p putReadable releaseReadable (released-block-offset ...))
      r = (0) waiting on a channel | (5) waiting for a mutex | (1 n oldest blocks) n-th state write
          in flight | (2 deadline) retry timer
      p = the same, plus (2 deadline kind) kind 0 = interval timer, 1 = retry timer; (3 n) n-th
          DataSyncer call in flight; (4) ProcessBlockPut returned false.
    A panic anywhere is the observation (-1), a hang (no quiescence) is (-2). *)
From BBS Require Import Common.Sx Persist.PBL Persist.Syncer.
Open Scope Z_scope.

(** ---- decoding ---- *)
Definition dec_loc (s : sx) : loc := (sx_Z (sx_nth s 0), sx_Z (sx_nth s 1)).
Definition dec_init (s : sx) : bstate * bool :=
  (mkBstate (dec_loc (sx_nth s 0)) (sx_Z (sx_nth s 1)) (sx_Ns (sx_nth s 2)), sx_bool (sx_nth s 3)).

Definition alloc_at_of (inits : list (bstate * bool)) (l : loc) (w : Z) : bool :=
  match find (fun e => loc_eqb (bs_loc (fst e)) l) inits with
  | Some e => snd e
  | None => false
  end.

Definition cfg_of (c : sx) : config := mkConfig (sx_N (sx_nth c 0)) (sx_N (sx_nth c 1)).

Record xst := mkX {
  x_sys : sys;
  x_nalloc : nat;             (* successful NewBlock calls so far *)
  x_nseed : N;                (* epochs created so far (canonical seed numbering) *)
  x_blk : list (option Z);    (* per started Put: what the block's finalizer will return *)
  x_nwr : nat;                (* WritePersistentState calls issued so far *)
  x_nsy : nat                 (* DataSyncer calls issued so far *)
}.

Definition x_with_sys (x : xst) (s : sys) : xst :=
  mkX s (x_nalloc x) (x_nseed x) (x_blk x) (x_nwr x) (x_nsy x).

Definition init_x (c : sx) : xst :=
  let inits := map dec_init (sx_list (sx_nth c 4)) in
  let '(p, _) := pbl_new (alloc_at_of inits) (sx_N (sx_nth c 3)) (map fst inits) in
  mkX (init_sys p (sx_N (sx_nth c 2))) 0 0 [] 0 0.

(** ---- thread steps with call counting ---- *)
Definition at_getstate (t : tid) (s : sys) : bool :=
  match t with
  | TR => match s_r s with RW WGetState => true | _ => false end
  | TP => match s_p s with PW _ WGetState => true | _ => false end
  end.
Definition is_syncing (s : sys) : bool := match s_p s with PSyncing _ _ => true | _ => false end.
Definition writer (s : sys) : option tid :=
  match s_r s, s_p s with
  | RW (WWriting _), _ => Some TR
  | _, PW _ (WWriting _) => Some TP
  | _, _ => None
  end.

Definition tstep (cfg : config) (t : tid) (a : ans) (x : xst) : option (outcome xst) :=
  match step cfg (x_sys x) (EStep t a) with
  | None => None
  | Some Panic => Some Panic
  | Some (Ok s') =>
      let wr := if at_getstate t (x_sys x) then S (x_nwr x) else x_nwr x in
      let sy := match t with
                | TP => if is_syncing s' then S (x_nsy x) else x_nsy x
                | TR => x_nsy x
                end in
      Some (Ok (mkX s' (x_nalloc x) (x_nseed x) (x_blk x) wr sy))
  end.

(** Both loops want storeLock and it is free: Go's sync.Mutex does not say
    who gets it.  The judge resolves the tie from the observation. *)
Definition store_tie (s : sys) : bool :=
  match s_store s, s_r s, s_p s with
  | None, RW WAcquire, PW _ WAcquire => true
  | _, _, _ => false
  end.

Definition internal_ans : ans := mkAns true 0.

Fixpoint quiesce (cfg : config) (fuel : nat) (rwins : bool) (x : xst) : outcome xst :=
  match fuel with
  | O => Ok x
  | S f =>
      let s := x_sys x in
      let ri := r_internal cfg s in
      let pi := p_internal cfg s in
      let pick := if ri && (negb (store_tie s) || rwins) then Some TR
                  else if pi then Some TP
                  else if ri then Some TR else None in
      match pick with
      | None => Ok x
      | Some t =>
          match tstep cfg t internal_ans x with
          | None => Ok x
          | Some Panic => Panic
          | Some (Ok x') => quiesce cfg f rwins x'
          end
      end
  end.

(** ---- encoding ---- *)
Definition enc_bstate (b : bstate) : sx := L [A (fst (bs_loc b)); A (bs_off b); of_Ns (bs_seeds b)].
Definition enc_wpc (n : nat) (kind : bool) (w : wpc) : sx :=
  match w with
  | WAcquire => L [A 5]
  | WWriting st => L [A 1; of_nat n; of_N (fst st); L (map enc_bstate (snd st))]
  | WSleep dl => if kind then L [A 2; of_N dl; A 1] else L [A 2; of_N dl]
  | _ => L [A 99]
  end.
Definition enc_r (x : xst) : sx :=
  match s_r (x_sys x) with
  | RWait _ => L [A 0]
  | RW w => enc_wpc (x_nwr x) false w
  | RStart => L [A 99]
  end.
Definition enc_p (x : xst) : sx :=
  match s_p (x_sys x) with
  | PIdle _ => L [A 0]
  | PTimer dl => L [A 2; of_N dl; A 0]
  | PSyncing _ _ => L [A 3; of_nat (x_nsy x)]
  | PSyncSleep _ _ dl => L [A 2; of_N dl; A 1]
  | PW _ w => enc_wpc (x_nwr x) true w
  | PExit => L [A 4]
  | _ => L [A 99]
  end.

Definition enc_obs (res : sx) (x : xst) : sx :=
  let p := s_pbl (x_sys x) in
  L [res; enc_r x; enc_p x; of_bool (put_chan_closed p); of_bool (release_chan_closed p);
     L (map (fun l => A (fst l)) (releasedLog p))].

(** ---- one op ---- *)
Definition env_step (cfg : config) (x : xst) (e : event) : option (outcome xst) :=
  match step cfg (x_sys x) e with
  | None => None
  | Some Panic => Some Panic
  | Some (Ok s') => Some (Ok (x_with_sys x s'))
  end.

Definition due (dl : N) (s : sys) : bool := (dl <=? s_now s)%N.

Definition do_op (cfg : config) (op : sx) (x : xst) : outcome (xst * sx) :=
  let s := x_sys x in
  let p := s_pbl s in
  let noop (r : Z) := Ok (x, L [A r]) in
  let lift (o : option (outcome xst)) (r : sx) (no : Z) : outcome (xst * sx) :=
    match o with
    | None => Ok (x, L [A no])
    | Some Panic => Panic
    | Some (Ok x') => Ok (x', r)
    end in
  match sx_Z (sx_nth op 0) with
  | 1 =>
      let back := sx_nat (sx_nth op 1) in
      let n := length (blocks p) in
      if (back <? n)%nat then
        let idx := (n - 1 - back)%nat in
        let blk := if sx_bool (sx_nth op 4) then None else Some (sx_Z (sx_nth op 3)) in
        let lo := if closedForWriting p then (-1) else
                  match nth_error (blocks p) idx with Some b => fst (b_loc b) | None => -1 end in
        match env_step cfg x (EPutStart idx (sx_Z (sx_nth op 2))) with
        | None => noop 0
        | Some Panic => Panic
        | Some (Ok x') =>
            Ok (mkX (x_sys x') (x_nalloc x') (x_nseed x') (x_blk x' ++ [blk]) (x_nwr x') (x_nsy x'),
                L [A 1; A lo])
        end
      else noop 0
  | 2 =>
      let k := sx_nat (sx_nth op 1) in
      match nth_error (s_uploads s) k, nth_error (x_blk x) k with
      | Some (Some (tok, size)), Some blk =>
          let seed := (1000 + x_nseed x)%N in
          match put_finalize tok blk size seed p with
          | Panic => Panic
          | Ok (p', fr) =>
              match env_step cfg x (EFinalize k blk seed) with
              | None => noop (-1)
              | Some Panic => Panic
              | Some (Ok x') =>
                  let grew := (length (epochSeeds p) <? length (epochSeeds p'))%nat in
                  let x'' := mkX (x_sys x') (x_nalloc x') (if grew then x_nseed x' + 1 else x_nseed x')%N
                                 (x_blk x') (x_nwr x') (x_nsy x') in
                  match fr with
                  | FinOk off =>
                      let idx := match tok with PutAt abs => (abs - totalReleased p')%nat | PutClosed => O end in
                      match index_to_ref idx p' with
                      | Panic => Panic
                      | Ok ((e, bfl), sd) => Ok (x'', L [A 0; A off; of_N e; of_N bfl; of_N sd])
                      end
                  | FinBlockError => Ok (x'', L [A 10])
                  | FinClosed => Ok (x'', L [A 14])
                  | FinReleased => Ok (x'', L [A 13])
                  end
              end
          end
      | _, _ => noop (-1)
      end
  | 3 => lift (env_step cfg x EPopFront) (L [A 1]) 0
  | 4 =>
      let ok := sx_bool (sx_nth op 1) in
      let l : loc := (10000 + 100 * Z.of_nat (x_nalloc x), 100) in
      let alloc := if ok then Some l else None in
      match snd (push_back alloc p) with
      | PushOk =>
          match env_step cfg x (EPushBack alloc) with
          | Some (Ok x') => Ok (mkX (x_sys x') (S (x_nalloc x')) (x_nseed x') (x_blk x') (x_nwr x') (x_nsy x'),
                                L [A 0; A (fst l)])
          | _ => Panic
          end
      | PushClosed => Ok (x, L [A 14])
      | PushAllocFailed => Ok (x, L [A 8])
      end
  | 5 =>
      if is_syncing s then lift (tstep cfg TP (mkAns (sx_bool (sx_nth op 1)) (s_now s)) x) (L [A 1]) 0
      else noop 0
  | 6 =>
      match writer s with
      | Some t => lift (tstep cfg t (mkAns (sx_bool (sx_nth op 1)) (s_now s)) x) (L [A 1]) 0
      | None => noop 0
      end
  | 7 => lift (env_step cfg x (ETick (sx_N (sx_nth op 1)))) (L []) 0
  | 8 =>
      if Z.eqb (sx_Z (sx_nth op 1)) 0 then
        match s_r s with
        | RW (WSleep dl) => if due dl s then lift (tstep cfg TR (mkAns false (s_now s)) x) (L [A 1]) 0 else noop 0
        | _ => noop 0
        end
      else
        match s_p s with
        | PTimer dl | PSyncSleep _ _ dl | PW _ (WSleep dl) =>
            if due dl s then lift (tstep cfg TP (mkAns false (s_now s)) x) (L [A 1]) 0 else noop 0
        | _ => noop 0
        end
  | 9 => lift (env_step cfg x ECancel) (L []) 0
  | 10 =>
      match ref_to_index (sx_N (sx_nth op 1)) (sx_N (sx_nth op 2)) p with
      | Panic => Panic
      | Ok None => noop (-1)
      | Ok (Some (i, sd)) => Ok (x, L [of_nat i; of_N sd])
      end
  | 11 =>
      match index_to_ref (sx_nat (sx_nth op 1)) p with
      | Panic => noop (-2)
      | Ok ((e, bfl), sd) => Ok (x, L [of_N e; of_N bfl; of_N sd])
      end
  | _ => noop (-9)
  end.

(** The observation's own answer to a storeLock tie at this step: does the
    release loop hold the in-flight state write afterwards? *)
Definition hint_rwins (o : sx) : bool := Z.eqb (sx_Z (sx_nth (sx_nth o 1) 0)) 1.

Fixpoint run_ops (cfg : config) (ops : list sx) (hints : list sx) (x : xst) : outcome (list sx) :=
  match ops with
  | [] => Ok []
  | op :: ops' =>
      let h := match hints with h :: _ => hint_rwins h | [] => true end in
      match do_op cfg op x with
      | Panic => Panic
      | Ok (x1, res) =>
          match quiesce cfg 64 h x1 with
          | Panic => Panic
          | Ok x2 =>
              match run_ops cfg ops' (tl hints) x2 with
              | Panic => Panic
              | Ok r => Ok (enc_obs res x2 :: r)
              end
          end
      end
  end.

Definition run07h (inp : sx) (hints : list sx) : sx :=
  let c := sx_nth inp 0 in
  let cfg := cfg_of c in
  match quiesce cfg 64 true (init_x c) with
  | Panic => L [A (-1)]
  | Ok x0 =>
      match run_ops cfg (sx_list (sx_nth inp 1)) hints x0 with
      | Panic => L [A (-1)]
      | Ok r => L r
      end
  end.

(** ---- the monitor: the property as a check on implementation observations ---- *)
Record ack := mkAck { k_step : nat; k_loc : Z; k_end : Z; k_epoch : N }.

Record pendw := mkPendw {
  pw_content : sx;               (* (oldest blocks) *)
  pw_cover_before : option nat;  (* uploads acknowledged before this step must be covered *)
  pw_popped : list Z
}.

Record mst := mkM {
  m_step : nat;
  m_now : N;
  m_blocks : list Z;
  m_popped : list Z;
  m_upl : list (Z * Z);           (* started Puts: block offset (or -1), end offset *)
  m_acks : list ack;
  m_nsy : nat;                    (* highest DataSyncer call number seen *)
  m_series_start : nat;
  m_retry : bool;
  m_last_ok_start : option nat;
  m_nwr : nat;                    (* highest state-write call number seen *)
  m_cur : option pendw;
  m_written : option sx;          (* content of the latest completed state write *)
  m_prev_p : sx;
  m_last_sched : N;
  m_armed : bool;                 (* an interval timer has fired and its sync has not started yet *)
  m_cancelled : bool;             (* the context has been cancelled: the final sync is exempt *)
  m_viol : list Z
}.

Definition zmem (z : Z) (l : list Z) : bool := existsb (Z.eqb z) l.

Definition content_nseeds (c : sx) : nat :=
  fold_right (fun b a => (length (sx_list (sx_nth b 2)) + a)%nat) O (sx_list (sx_nth c 1)).
Definition covers_epoch (c : sx) (e : N) : bool :=
  (N.modulo (e + 2 ^ 32 - N.modulo (sx_N (sx_nth c 0)) (2 ^ 32)) (2 ^ 32) <? N.of_nat (content_nseeds c))%N.
Definition covers_off (c : sx) (lo en : Z) : bool :=
  existsb (fun b => Z.eqb (sx_Z (sx_nth b 0)) lo && (en <=? sx_Z (sx_nth b 1))) (sx_list (sx_nth c 1)).
Definition covers (c : sx) (k : ack) : bool := covers_epoch c (k_epoch k) && covers_off c (k_loc k) (k_end k).

(** clauses 4 and 6, evaluated when a state write completes successfully *)
Definition check_write (w : pendw) (acks : list ack) : list Z :=
  flat_map (fun k =>
    if zmem (k_loc k) (pw_popped w) then []
    else
      let should := match pw_cover_before w with Some j => (k_step k <? j)%nat | None => false end in
      (if should && negb (covers (pw_content w) k) then [4] else []) ++
      (if negb should && covers_epoch (pw_content w) (k_epoch k) then [6] else [])) acks.

Definition tag (s : sx) : Z := sx_Z (sx_nth s 0).
Definition is_write (s : sx) : bool := Z.eqb (tag s) 1.

Definition mon_step (interval : N) (m : mst) (op o : sx) : mst :=
  let res := sx_nth o 0 in
  let r := sx_nth o 1 in
  let p := sx_nth o 2 in
  let released := sx_list (sx_nth o 5) in
  let i := m_step m in
  let code := tag op in
  let hit := Z.eqb (tag res) 1 in
  (* --- effect of the op itself --- *)
  let now := if Z.eqb code 7 then (m_now m + sx_N (sx_nth op 1))%N else m_now m in
  let upl := if Z.eqb code 1 && hit
             then m_upl m ++ [(sx_Z (sx_nth res 1), sx_Z (sx_nth op 3) + sx_Z (sx_nth op 2))]
             else m_upl m in
  let acks := if Z.eqb code 2 && Z.eqb (tag res) 0 && (1 <? length (sx_list res))%nat then
                match nth_error (m_upl m) (sx_nat (sx_nth op 1)) with
                | Some (lo, en) => m_acks m ++ [mkAck i lo en (sx_N (sx_nth res 2))]
                | None => m_acks m
                end
              else m_acks m in
  let '(blocks, popped) :=
    if Z.eqb code 3 && hit then
      match m_blocks m with
      | b :: rest => (rest, m_popped m ++ [b])
      | [] => (m_blocks m, m_popped m)
      end
    else if Z.eqb code 4 && Z.eqb (tag res) 0 && (1 <? length (sx_list res))%nat
    then (m_blocks m ++ [sx_Z (sx_nth res 1)], m_popped m)
    else (m_blocks m, m_popped m) in
  (* --- completions --- *)
  let sync_done := Z.eqb code 5 && hit in
  let sync_ok := sync_done && sx_bool (sx_nth op 1) in
  let last_ok := if sync_ok then Some (m_series_start m) else m_last_ok_start m in
  let retry := if sync_done then negb (sx_bool (sx_nth op 1)) else m_retry m in
  let write_done := Z.eqb code 6 && hit in
  let write_ok := write_done && sx_bool (sx_nth op 1) in
  let v46 := if write_ok then match m_cur m with Some w => check_write w acks | None => [] end else [] in
  let written := if write_ok then match m_cur m with Some w => Some (pw_content w) | None => m_written m end
                 else m_written m in
  let cur0 := if write_done then None else m_cur m in
  (* --- new calls issued during this step --- *)
  let new_sync := Z.eqb (tag p) 3 && (m_nsy m <? sx_nat (sx_nth p 1))%nat in
  let series_start := if new_sync && negb retry then i else m_series_start m in
  let nsy := if new_sync then sx_nat (sx_nth p 1) else m_nsy m in
  let wobs := if is_write r then Some r else if is_write p then Some p else None in
  let '(nwr, cur) :=
    match wobs with
    | Some w => if (m_nwr m <? sx_nat (sx_nth w 1))%nat
                then (sx_nat (sx_nth w 1), Some (mkPendw (L [sx_nth w 2; sx_nth w 3]) last_ok popped))
                else (m_nwr m, cur0)
    | None => (m_nwr m, cur0)
    end in
  (* --- clause 2: minimum interval between schedule times --- *)
  let fired := Z.eqb code 8 && hit && Z.eqb (sx_Z (sx_nth op 1)) 1
               && Z.eqb (tag (m_prev_p m)) 2 && Z.eqb (sx_Z (sx_nth (m_prev_p m) 2)) 0 in
  (* a DataSyncer call that starts a new series (not a retry) while the store is
     running, with no interval timer having fired for it, is itself a schedule time *)
  let cancelled := m_cancelled m || Z.eqb code 9 in
  let started := new_sync && negb retry && negb cancelled in
  let unarmed := started && negb (fired || m_armed m) in
  let v2 := if (fired || unarmed) && (now <? m_last_sched m + interval)%N then [2] else [] in
  let last_sched := if fired || unarmed then now else m_last_sched m in
  let armed := (fired || m_armed m) && negb new_sync in
  (* --- clause 1 / 5: stalls --- *)
  let r_waits := Z.eqb (tag r) 0 || (Z.eqb (tag r) 5 && negb (is_write p)) in
  let v1 := if (length released <? length popped)%nat && r_waits then [1] else [] in
  let uncovered := existsb (fun k => negb (zmem (k_loc k) popped) &&
                                     negb (match written with Some c => covers c k | None => false end)) acks in
  let p_waits := Z.eqb (tag p) 0 || Z.eqb (tag p) 4 || (Z.eqb (tag p) 5 && negb (is_write r)) in
  let v5 := if uncovered && p_waits then [5] else [] in
  mkM (S i) now blocks popped upl acks nsy series_start retry last_ok nwr cur written p last_sched armed cancelled
      (m_viol m ++ v46 ++ v2 ++ v1 ++ v5).

Fixpoint restored_locs (inits : list (bstate * bool)) : list Z :=
  match inits with
  | [] => []
  | (b, f) :: rest => if f then fst (bs_loc b) :: restored_locs rest else []
  end.

Fixpoint mon_run (interval : N) (m : mst) (ops obs : list sx) : mst :=
  match ops, obs with
  | op :: ops', o :: obs' => mon_run interval (mon_step interval m op o) ops' obs'
  | _, _ => m
  end.

Fixpoint dedupz (l : list Z) : list Z :=
  match l with
  | [] => []
  | x :: r => if zmem x r then dedupz r else x :: dedupz r
  end.

Definition is_marker (obs : sx) : bool :=
  match obs with L [A z] => Z.ltb z 0 | _ => false end.

Definition mon07 (inp obs : sx) : list Z :=
  if is_marker obs then [3]
  else
    let c := sx_nth inp 0 in
    let inits := map dec_init (sx_list (sx_nth c 4)) in
    let t0 := sx_N (sx_nth c 2) in
    let m0 := mkM 0 t0 (restored_locs inits) [] [] [] 0 0 false None 0 None None (L []) t0 false false [] in
    let m := mon_run (sx_N (sx_nth c 0)) m0 (sx_list (sx_nth inp 1)) (sx_list obs) in
    dedupz (m_viol m).

Definition run07 (inp : sx) : sx := run07h inp [].

Definition judge07 (inp obs : sx) : sx :=
  let m := run07h inp (sx_list obs) in
  let v := mon07 inp obs in
  verdict (sx_eqb m obs) (negb (match v with [] => true | _ => false end)) m (of_Zs v).
