(** C19W — proofs: the monitor [mon19W] (C19's demultiplexer clauses 6-10 and the
    error-annotation clause 15) is silent on the model's own output, for every
    input whose owners have a backend description and whose operations carry
    well-formed instance names (C19's hypotheses for demultiplexer inputs); the
    model is C19's demultiplexer model, observation by observation. *)
From Coq Require Import List ZArith NArith Bool Arith Lia.
From BBS Require Import Common.Sx Routing.Names Routing.NamesProofs Routing.Trie Routing.TrieProofs
  Routing.Patcher Routing.PatcherProofs Routing.Demux Routing.DemuxProofs Routing.HierProofs
  Routing.TrieFullMonCanon Routing.TrieFullMonDemux Run.R19 Run.R19W.
Import ListNotations.
Open Scope Z_scope.

(** ---------------------------------------------- clauses 6-10: nothing new *)

Lemma mon_demux_op_ext cfg bsx op ob ob' :
  sx_nth ob 0 = sx_nth ob' 0 -> sx_nth ob 1 = sx_nth ob' 1 -> sx_nth ob 2 = sx_nth ob' 2 ->
  mon_demux_op cfg bsx op ob = mon_demux_op cfg bsx op ob'.
Proof. intros H0 H1 H2. unfold mon_demux_op. rewrite H0, H1, H2. reflexivity. Qed.

Lemma mon_demux_op_run19W cfg bs bsx op :
  mon_demux_op cfg bsx op (run_op19W cfg bs op) = mon_demux_op cfg bsx op (run_demux_op cfg bs op).
Proof. apply mon_demux_op_ext; reflexivity. Qed.

Lemma run_demux_op_enc cfg bs op : exists c d calls, run_demux_op cfg bs op = enc_op3 c d calls.
Proof.
  rewrite run_demux_op_eq. destruct (kind4 (sx_Z (sx_nth op 0))) as [|[|[|k]]].
  - destruct (demux_get _ _ _) as [r calls]. destruct (enc_data r) as [c d]. eauto.
  - destruct (demux_gfc _ _ _ _) as [r calls]. destruct (enc_data r) as [c d]. eauto.
  - destruct (demux_put _ _ _) as [r calls]. destruct r as [[code disc]| |]; eauto.
  - destruct (demux_fm _ _ _) as [r calls]. destruct r; eauto.
Qed.

Lemma strip3_run_op19W cfg bs op : strip3 (run_op19W cfg bs op) = run_demux_op cfg bs op.
Proof.
  destruct (run_demux_op_enc cfg bs op) as [c [d [calls E]]].
  unfold run_op19W, strip3. rewrite E. reflexivity.
Qed.

(** ------------------------------------------------- clause 15, Get and Put *)

Lemma mon_single_nil_inv cfg bsx code data calls kind d others :
  mon_single cfg bsx code data calls kind d others = [] ->
  ((owner cfg (fst d) <? 0) = true /\ calls = []) \/
  ((owner cfg (fst d) <? 0) = false /\ exists c, calls = [c] /\ call_idx c = Z.to_nat (owner cfg (fst d))).
Proof.
  unfold mon_single. cbv zeta. destruct (owner cfg (fst d) <? 0) eqn:Eo.
  - intros H. left. split; [reflexivity|]. destruct calls as [|c r]; [reflexivity|].
    cbn [is_nil] in H. rewrite andb_false_r in H. discriminate H.
  - intros H. right. split; [reflexivity|]. apply app_eq_nil in H as [H _].
    destruct calls as [|c [|c2 r]]; [discriminate H| |discriminate H].
    exists c. split; [reflexivity|].
    destruct (Nat.eqb (call_idx c) (Z.to_nat (owner cfg (fst d)))) eqn:E; [apply Nat.eqb_eq; exact E|].
    cbn [andb] in H. discriminate H.
Qed.

Lemma named_enc s : named [enc_str s] s = true.
Proof. unfold named, dec_str, enc_str. rewrite sx_Ns_of_Ns. apply str_eqb_refl. Qed.

Lemma mon15_single_ok cfg code calls d :
  ((owner cfg (fst d) <? 0) = true /\ calls = []) \/
  ((owner cfg (fst d) <? 0) = false /\ exists c, calls = [c] /\ call_idx c = Z.to_nat (owner cfg (fst d))) ->
  mon15_single cfg code (sx_list (errname cfg code calls)) d = [].
Proof.
  unfold mon15_single, errname. cbv zeta. intros [[Ho ->]|[Ho [c [-> Hc]]]]; rewrite Ho.
  - cbn [is_nil]. rewrite orb_true_r. reflexivity.
  - cbn [is_nil orb last]. rewrite orb_false_r. destruct (code =? 0); [reflexivity|].
    cbn [sx_list]. rewrite Hc, named_enc. reflexivity.
Qed.

(** ---------------------------------------------- clause 15, FindMissing *)

Section FMShape.
  Variable cfg : list centry.
  Variable bsx : list sx.
  Hypothesis Hlen : (length cfg <= length bsx)%nat.
  Notation bs := (mk_backends 0 bsx).

  (** what the model's FindMissing returns: success only when every name is
      known; a failure is either the getter's (no call) or that of the backend
      called last, which owns one of the requested digests *)
  Lemma demux_fm_shape ds0 r calls : forallb dg_wf ds0 = true ->
    demux_fm cfg bs ds0 = (r, calls) ->
    match r with
    | Ok _ => True
    | Err e =>
        (existsb (fun d => owner cfg (fst d) <? 0) (canon ds0) = true /\ calls = []) \/
        (existsb (fun d => owner cfg (fst d) <? 0) (canon ds0) = false /\
         exists calls0 i q, calls = calls0 ++ [CFm i q] /\ bfault bsx i = e /\ e <> 0 /\
                            exists d, In d (canon ds0) /\ own cfg d = i)
    | Panic => False
    end.
  Proof.
    intros Hwf E. unfold demux_fm in E.
    assert (Hwf' : forall d, In d (canon ds0) -> dg_wf d = true).
    { intros d Hd. rewrite canon_In in Hd. rewrite forallb_forall in Hwf. apply Hwf. exact Hd. }
    destruct (fm_partition_spec cfg (canon ds0) [] [] [] (Inv_init cfg))
      as [[parts [cache [Hp [HI Hok]]]]|[Hp [d0 [Hd0 Hg0]]]]; rewrite Hp in E.
    2:{ injection E as <- <-. left. split; [|reflexivity].
        apply existsb_exists. exists d0. split; [exact Hd0|].
        destruct (gb_cases cfg (fst d0)) as [[_ E]|[k [e [E _]]]]; [rewrite E; reflexivity|congruence]. }
    cbn [app] in HI.
    pose proof (fm_partition_inv2 cfg (canon ds0) [] [] [] parts (fun pt (H : In pt []) => match H with end) Hp) as HI2.
    cbn [app] in HI2.
    assert (H6 : existsb (fun d => owner cfg (fst d) <? 0) (canon ds0) = false).
    { apply existsb_false. intros d Hd. destruct (Hok d Hd) as [t Ht].
      destruct (gb_cases cfg (fst d)) as [[E' _]|[k [e [_ [_ [E' _]]]]]]; [congruence|].
      rewrite E'. apply Z.ltb_ge. lia. }
    assert (Hrange : forall pt, In pt parts -> (p_idx pt < length bsx)%nat).
    { intros pt Hpt. destruct (part_owner cfg _ parts HI2 pt Hpt) as [Hi _]. lia. }
    destruct (existsb (fun i => negb (bfault bsx i =? 0)) (map (own cfg) (canon ds0))) eqn:Ef.
    - apply existsb_exists in Ef as [i [Hi Hf]]. apply in_map_iff in Hi as [d [<- Hd]].
      destruct (dig_part cfg _ cache parts Hwf' HI d Hd) as [pt [Hpt [Hidx _]]].
      destruct (first_bad (fun pt => bfault bsx (p_idx pt)) parts) as [p1 [x [p2 [Eparts [H1 Hx]]]]].
      { exists pt. split; [exact Hpt|]. rewrite Hidx. apply negb_true_iff, Z.eqb_neq in Hf. exact Hf. }
      assert (Hsub : forall y, In y (p1 ++ [x]) -> In y parts).
      { intros y Hy. rewrite Eparts. apply in_app_iff in Hy as [Hy|[<-|[]]]; apply in_or_app; [left; exact Hy|right; left; reflexivity]. }
      rewrite Eparts, fm_calls_fault in E; [|intros y Hy; apply Hrange, Hsub, Hy|exact H1|exact Hx].
      injection E as <- <-. right. split; [exact H6|].
      exists (map fm_call_of p1), (p_idx x), (canon (p_digs x)).
      split; [rewrite map_app; reflexivity|]. split; [reflexivity|]. split; [exact Hx|].
      assert (Hxp : In x parts) by (apply Hsub, in_or_app; right; left; reflexivity).
      destruct (part_owner cfg _ parts HI2 x Hxp) as [_ [d' [Hd' Ho']]]. exists d'. auto.
    - assert (H0 : forall pt, In pt parts -> (p_idx pt < length bsx)%nat /\ bfault bsx (p_idx pt) = 0).
      { intros pt Hpt. split; [apply Hrange; exact Hpt|].
        destruct (part_owner cfg _ parts HI2 pt Hpt) as [_ [d [Hd Ho]]].
        pose proof (proj1 (existsb_false _ _) Ef (p_idx pt)) as H. cbv beta in H.
        apply negb_false_iff, Z.eqb_eq in H; [exact H|]. apply in_map_iff. exists d. auto. }
      rewrite (fm_calls_ok bsx parts [] [] H0) in E. injection E as <- <-. exact I.
  Qed.

  Lemma mon15_fm_ok ds0 r calls : forallb dg_wf ds0 = true ->
    demux_fm cfg bs ds0 = (r, calls) ->
    let code := match r with Ok _ => 0 | Err e => e | Panic => -1 end in
    r <> Panic /\
    mon15_fm cfg bsx code (sx_list (errname cfg code (map enc_call calls))) ds0 = [].
  Proof.
    intros Hwf E. pose proof (demux_fm_shape ds0 r calls Hwf E) as Hs. cbv zeta.
    unfold mon15_fm, errname. cbv zeta. destruct r as [ms|e|]; [| |destruct Hs].
    - split; [discriminate|]. cbn [Z.eqb orb sx_list is_nil]. rewrite orb_true_r. reflexivity.
    - split; [discriminate|]. destruct Hs as [[Hu ->]|[Hu [calls0 [i [q [-> [Hb [He [d [Hd Ho]]]]]]]]]]; rewrite Hu.
      + cbn [map is_nil orb]. rewrite orb_true_r. reflexivity.
      + apply Z.eqb_neq in He. rewrite He. cbn [orb].
        rewrite map_app. cbn [map].
        replace (is_nil (map enc_call calls0 ++ [enc_call (CFm i q)])) with false
          by (destruct (map enc_call calls0); reflexivity).
        rewrite last_last. cbn [sx_list].
        destruct (call_enc (CFm i q)) as [E1 _]. rewrite E1. cbn [call_of fst].
        replace (existsb _ (canon ds0)) with true; [reflexivity|].
        symmetry. apply existsb_exists. exists d. split; [exact Hd|]. cbv zeta.
        unfold own in Ho. rewrite Ho, Hb, Z.eqb_refl, named_enc. reflexivity.
  Qed.
End FMShape.

(** ------------------------------------------------------- all operations *)

Theorem mon15_op_silent cfg bsx op :
  (length cfg <= length bsx)%nat -> op_wf op = true ->
  mon15_op cfg bsx op (run_op19W cfg (mk_backends 0 bsx) op) = [].
Proof.
  intros Hlen Hwf. pose proof (mon_demux_op_silent cfg bsx op Hlen Hwf) as Hs.
  rewrite mon_demux_op_eq in Hs. cbv zeta in Hs.
  unfold mon15_op, run_op19W. cbv zeta. rewrite zmatch4.
  cbn [sx_nth sx_list nth]. fold (sx_nth (run_demux_op cfg (mk_backends 0 bsx) op) 0).
  fold (sx_nth (run_demux_op cfg (mk_backends 0 bsx) op) 2).
  destruct (kind4 (sx_Z (sx_nth op 0))) as [|[|[|k]]] eqn:Hk.
  - apply mon15_single_ok. exact (mon_single_nil_inv _ _ _ _ _ _ _ _ Hs).
  - reflexivity.
  - apply mon15_single_ok. exact (mon_single_nil_inv _ _ _ _ _ _ _ _ Hs).
  - clear Hs. unfold op_wf in Hwf. rewrite Hk in Hwf.
    rewrite run_demux_op_eq, Hk.
    destruct (demux_fm cfg (mk_backends 0 bsx) (dec_dgs (sx_nth op 1))) as [r calls] eqn:E.
    destruct (mon15_fm_ok cfg bsx Hlen _ r calls Hwf E) as [Hp H]. cbv zeta in H.
    destruct r as [ms|e|]; [| |congruence]; rewrite ob_code, ob_calls; exact H.
Qed.

Theorem mon19W_silent : forall inp,
  (length (dec_cfg (sx_nth inp 1)) <= length (sx_list (sx_nth inp 2)))%nat ->
  forallb op_wf (sx_list (sx_nth inp 3)) = true ->
  mon19W inp (run19W inp) = [].
Proof.
  intros inp Hlen Hops. unfold mon19W, run19W. cbv zeta. cbn [sx_list].
  rewrite forallb_forall in Hops.
  rewrite !concat_zip_nil; [reflexivity| |].
  - intros op Hop. apply mon15_op_silent; auto.
  - intros op Hop. rewrite mon_demux_op_run19W. apply mon_demux_op_silent; auto.
Qed.

(** the model is C19's demultiplexer model: dropping the annotation gives C19's
    [run19] on the same (kind 2) input; the monitor is C19's [mon19] on the
    stripped observations plus clause 15 *)
Theorem run19W_is_run19 : forall inp, sx_Z (sx_nth inp 0) = 2 ->
  L (map strip3 (sx_list (run19W inp))) = run19 inp.
Proof.
  intros inp H. unfold run19W, run19. rewrite H. cbv zeta. cbn [sx_list].
  rewrite map_map. f_equal. apply map_ext. intros op. apply strip3_run_op19W.
Qed.

Theorem mon19W_is_mon19 : forall inp obs, sx_Z (sx_nth inp 0) = 2 ->
  mon19W inp obs = mon19 inp obs
    ++ concat (zip_with (mon15_op (dec_cfg (sx_nth inp 1)) (sx_list (sx_nth inp 2)))
                        (sx_list (sx_nth inp 3)) (sx_list obs)).
Proof. intros inp obs H. unfold mon19W, mon19. rewrite H. reflexivity. Qed.
