(** C02: sx interface — decoders, the monitor on implementation observations,
    the model tie (post-crash media, restart, per-slot resolution) and the judge.

    Input (harness/c02.go):
      case = (0 cfg keys gen) | (1 cfg state records)        (1: resolution differential)
      cfg  = (sector spb old cur new spare nrec maxget maxput interval validate)
      keys = ((size_ver0 size_ver1 ...) ...)
      gen  = (ops exps)
      op   = (1 key ver) | (2 tid key ver) | (3 tid n) | (4 tid code) | (5 key) | (6 (key ...))
           | (7 d) | (8 who) | (9 ok) | (10 k fail)
      exp  = (j koff (dmode darg) (imode iarg) dirk garb gen)
    Observation of one life:
      (restored slots probe opres final log exps events)
      restored = (present oldest ((lo size woff (seed ...)) ...) hinit initialBlockCount)
      slots    = ((slot key attempt blockIndex off size) ...)   what the REAL record array resolves
      probe    = ((fm get) ...) per key, after a restart;  get = (code) | (0 payload)
                 payload = (1 key ver): exactly the content of that object version | (2 len bytes)
      final    = (get ...) per key, after the schedule
      log      = the global I/O log of this life:
                 (1 off len) | (2) | (3 ok) | (4 slot epoch bfl key att off size wseed) | (5) | (6) | (7 state)
                 | (8) | (9) | (10)
      exps     = ((n dataflags indexflags dirpending life) ...)
    (-1) = panic, (-2) = hang. *)
From Coq Require Import List NArith ZArith Bool Arith Lia.
From BBS Require Import Common.Sx Index.Klm Index.KlmFnv Index.RecordCodec Persist.PBL Persist.Crash.
(* -- *)
Import ListNotations.
Open Scope Z_scope.

(** ---- decoding ---- *)
Record jcfg := mkJcfg {
  j_sector : Z; j_spb : Z; j_old : nat; j_cur : nat; j_new : nat; j_spare : nat; j_nrec : nat
}.
Definition dec_cfg (c : sx) : jcfg :=
  mkJcfg (sx_Z (sx_nth c 0)) (sx_Z (sx_nth c 1)) (sx_nat (sx_nth c 2)) (sx_nat (sx_nth c 3)) (sx_nat (sx_nth c 4))
         (sx_nat (sx_nth c 5)) (sx_nat (sx_nth c 6)).
Definition j_bs (c : jcfg) : Z := j_sector c * j_spb c.
Definition j_nblocks (c : jcfg) : nat := (j_old c + j_cur c + j_new c + j_spare c)%nat.
(** getBlockLocationMessage: (i * blockSectorCount * sector, blockSectorCount * sector) *)
Definition j_geom (c : jcfg) (l : loc) : bool :=
  existsb (fun i => loc_eqb l (Z.of_nat i * j_bs c, j_bs c)) (seq 0 (j_nblocks c)).

(** record payload of the judge's log: the decoded fields and the seed the code used *)
Record jrec := mkJrec { jr_epoch : N; jr_bfl : N; jr_key : Z; jr_att : Z; jr_off : Z; jr_size : Z; jr_seed : Z }.

Definition dec_bstate (b : sx) : bstate :=
  mkBstate (sx_Z (sx_nth b 0), sx_Z (sx_nth b 1)) (sx_Z (sx_nth b 2)) (sx_Ns (sx_nth b 3)).
Definition dec_state (s : sx) : sfile :=
  ((sx_N (sx_nth s 0), map dec_bstate (sx_list (sx_nth s 1))), sx_N (sx_nth s 2)).

Definition dec_io (e : sx) : io jrec :=
  match sx_Z (sx_nth e 0) with
  | 1 => IoData 0 (sx_Z (sx_nth e 1), sx_Z (sx_nth e 2)) 0 (sx_Z (sx_nth e 2))
  | 2 => IoSyncBegin
  | 3 => IoSyncEnd (sx_bool (sx_nth e 1))
  | 4 => IoIndex (sx_nat (sx_nth e 1))
                 (mkJrec (sx_N (sx_nth e 2)) (sx_N (sx_nth e 3)) (sx_Z (sx_nth e 4)) (sx_Z (sx_nth e 5))
                         (sx_Z (sx_nth e 6)) (sx_Z (sx_nth e 7)) (sx_Z (sx_nth e 8)))
  | 5 => IoRemoveNew
  | 6 => IoCreateNew
  | 7 => IoWriteNew (dec_state (sx_nth e 1))
  | 8 => IoFsyncNew
  | 9 => IoRenameNew
  | _ => IoDirSync
  end.

Definition dec_flags (s : sx) : list bool := map sx_bool (sx_list s).

(** ---- the model side of one crash experiment ---- *)
Definition enc_bstate (b : bstate) : sx :=
  L [A (fst (bs_loc b)); A (snd (bs_loc b)); A (bs_off b); of_Ns (bs_seeds b)].

(** what the restart restores, in the harness's format *)
Definition enc_restored (c : jcfg) (st : option sfile) : sx :=
  match st with
  | None => L [A 0; A 1; L []; A 0; A 0]
  | Some ((oldest, bl), h) =>
      L [A 1; of_N (u32 oldest); L (map enc_bstate bl); of_N h; of_nat (snd (restart (j_geom c) st))]
  end.

Definition resolve_slot (c : jcfg) (m : medium jrec) (p : pbl) (cut : nat) (s : nat) : list sx :=
  match slot_get (m_index m) s None with
  | Some r =>
      if (jr_seed r <? 0) then [] else
      match resolve_ref p cut (jr_epoch r) (jr_bfl r) (Z.to_N (jr_seed r)) with
      | Some i => [L [of_nat s; A (jr_key r); A (jr_att r); of_nat i; A (jr_off r); A (jr_size r)]]
      | None => []
      end
  | None => []
  end.

Definition model_slots (c : jcfg) (m : medium jrec) : sx :=
  let '(p, n) := restart (j_geom c) (m_state m) in
  let cut := ocn_cut (j_old c) (j_cur c) (j_new c) n in
  L (flat_map (resolve_slot c m p cut) (seq 0 (j_nrec c))).

Definition pending_dir_ops (base : medium jrec) (l : list (io jrec)) : nat :=
  length (d_pend (dir_run (dir_init (m_state base) (m_new base)) l)).

(** ---- the monitor (property level, implementation observations only) ---- *)
(** versions of [key] whose upload was attempted in the given op lists *)
Definition attempted (opss : list sx) (key ver : Z) : bool :=
  existsb (fun ops =>
    existsb (fun op =>
      match sx_Z (sx_nth op 0) with
      | 1 => Z.eqb (sx_Z (sx_nth op 1)) key && Z.eqb (sx_Z (sx_nth op 2)) ver
      | 2 => Z.eqb (sx_Z (sx_nth op 2)) key && Z.eqb (sx_Z (sx_nth op 3)) ver
      | _ => false
      end) (sx_list ops)) opss.

(** a read result for [key]: OK with exactly the bytes of an attempted upload of that key,
    or NOT_FOUND, or UNAVAILABLE (refresh could not allocate: legitimate transient) *)
Definition get_clauses (opss : list sx) (key : Z) (g : sx) : list Z :=
  match sx_list g with
  | [A code] => if Z.eqb code 5 || Z.eqb code 14 then [] else [2]
  | [A 0; pay] =>
      if Z.eqb (sx_Z (sx_nth pay 0)) 1 && Z.eqb (sx_Z (sx_nth pay 1)) key
         && attempted opss key (sx_Z (sx_nth pay 2)) then [] else [1]
  | _ => [3]
  end.

Definition fm_clauses (f : sx) : list Z :=
  match sx_list f with
  | A 0 :: _ => []
  | [A 14] => []
  | _ => [4]
  end.

Fixpoint zip_index {T} (i : Z) (l : list T) : list (Z * T) :=
  match l with [] => [] | x :: t => (i, x) :: zip_index (i + 1) t end.

Definition abnormal (o : sx) : bool :=
  match sx_list o with [A z] => Z.ltb z 0 | _ => false end.

(** monitor of one life at depth [d] (0 = before any crash: nothing is demanded of it) *)
Fixpoint mon_life (fuel : nat) (d : nat) (opss : list sx) (ing obs : sx) : list Z :=
  match fuel with
  | O => []
  | S f =>
      if abnormal obs then [3] else
      let ops := sx_nth ing 0 in
      let opss' := ops :: opss in
      let here :=
        match d with
        | O => []
        | _ =>
            flat_map (fun kp => fm_clauses (sx_nth (snd kp) 0) ++ get_clauses opss' (fst kp) (sx_nth (snd kp) 1))
                     (zip_index 0 (sx_list (sx_nth obs 2)))
            ++ flat_map (fun kg => get_clauses opss' (fst kg) (snd kg)) (zip_index 0 (sx_list (sx_nth obs 4)))
            ++ flat_map (fun oo => match sx_Z (sx_nth (fst oo) 0) with
                                   | 5 => get_clauses opss' (sx_Z (sx_nth (fst oo) 1)) (snd oo)
                                   | 6 => fm_clauses (snd oo)
                                   | _ => []
                                   end)
                        (combine (sx_list ops) (sx_list (sx_nth obs 3)))
        end in
      here ++ flat_map (fun eo => mon_life f (S d) opss' (sx_nth (fst eo) 6) (sx_nth (snd eo) 4))
                       (combine (sx_list (sx_nth ing 1)) (sx_list (sx_nth obs 6)))
  end.

(** ---- the model tie ---- *)
Definition served_keys (probe : sx) : list Z :=
  flat_map (fun kp => match sx_list (sx_nth (snd kp) 1) with [A 0; _] => [fst kp] | _ => [] end)
           (zip_index 0 (sx_list probe)).

Definition slot_has_key (slots : sx) (k : Z) : bool :=
  existsb (fun s => Z.eqb (sx_Z (sx_nth s 1)) k) (sx_list slots).

(** ---- proved lemmas of the model, checked on the IMPLEMENTATION's log ----
    [seed_in_state_file_only_after_sync] (Props/C02.v): for every state file written at log position
    q and every seed in it, every record write of this life carrying that seed lies below the durable
    frontier of the prefix before q. *)
Fixpoint enum_from {T} (i : nat) (l : list T) : list (nat * T) :=
  match l with [] => [] | x :: t => (i, x) :: enum_from (S i) t end.

Definition state_seeds (st : sfile) : list N := concat (map bs_seeds (snd (fst st))).

Definition log_seed_rule (log : list (io jrec)) : bool :=
  let el := enum_from 0 log in
  forallb (fun qe =>
    match snd qe with
    | IoWriteNew st =>
        let d := durable_upto (firstn (fst qe) log) in
        forallb (fun s =>
          forallb (fun pe =>
            match snd pe with
            | IoIndex _ r => if Z.eqb (jr_seed r) (Z.of_N s) then (fst pe <? d)%nat else true
            | _ => true
            end) el) (state_seeds st)
    | _ => true
    end) el.

(** [restored_offsets_cover]: every location that resolves at a restart ends at or below the
    restored write offset of its block. *)
Definition slots_covered (st : option sfile) (slots : sx) : bool :=
  match st with
  | None => match sx_list slots with [] => true | _ => false end
  | Some ((_, bl), _) =>
      forallb (fun s =>
        match nth_error bl (sx_nat (sx_nth s 3)) with
        | Some b => (0 <=? sx_Z (sx_nth s 4)) && (0 <=? sx_Z (sx_nth s 5))
                    && (sx_Z (sx_nth s 4) + sx_Z (sx_nth s 5) <=? bs_off b)
        | None => false
        end) (sx_list slots)
  end.

(** ---- the PBL-level event history of a life, replayed on Persist/PBL.v ----
    events (recorded by a transparent wrapper around the real PersistentBlockList, in the order in
    which the calls returned):
      (1 ok lo size)            PushBack (ok: the region NewBlock handed out)
      (2)                       PopFront
      (3 index size)            Put (the k-th such event is upload k)
      (4 k code off seed)       the finalizer of upload k returned (offset, code); seed = hash seed of
                                the newest epoch afterwards (what the model draws if it creates one)
      (5 final) (6) (8)         NotifySyncStarting / NotifySyncCompleted / NotifyPersistentStateWritten
      (7 oldest blocks)         GetPersistentState returned this
      (9 slot epoch bfl idx seed)  a record write carrying reference (epoch, bfl), which the list
                                resolves to block index idx under hash seed seed
    The model must return the same persistent states, the same finalizer outcomes, and
    BlockIndexToBlockReference of the model must give exactly the reference and seed written. *)
Record hst := mkH { h_p : pbl; h_toks : list (put_token * Z); h_bad : bool }.

Definition enc_pstate (st : pstate) : sx := L [of_N (fst st); L (map enc_bstate (snd st))].

Definition hist_step (h : hst) (e : sx) : hst :=
  if h_bad h then h else
  let p := h_p h in
  let bad := mkH p (h_toks h) true in
  let ok (p' : pbl) := mkH p' (h_toks h) false in
  match sx_Z (sx_nth e 0) with
  | 1 =>
      let succ := sx_bool (sx_nth e 1) in
      let alloc := if succ then Some (sx_Z (sx_nth e 2), sx_Z (sx_nth e 3)) else None in
      match push_back alloc p, succ with
      | (p', PushOk), true => ok p'
      | (_, PushOk), false => bad
      | (_, _), true => bad
      | (p', _), false => ok p'
      end
  | 2 => match pop_front p with Ok p' => ok p' | Panic => bad end
  | 3 => match put_start (sx_nat (sx_nth e 1)) p with
         | Ok tok => mkH p (h_toks h ++ [(tok, sx_Z (sx_nth e 2))]) false
         | Panic => bad
         end
  | 4 =>
      let code := sx_Z (sx_nth e 2) in
      let off := sx_Z (sx_nth e 3) in
      match nth_error (h_toks h) (sx_nat (sx_nth e 1)) with
      | Some (tok, size) =>
          let blk := if Z.eqb code 0 || Z.eqb code 13 || Z.eqb code 14 then Some off else None in
          match put_finalize tok blk size (sx_N (sx_nth e 4)) p with
          | Ok (p', FinOk o) => if Z.eqb code 0 && Z.eqb o off then ok p' else bad
          | Ok (p', FinClosed) => if Z.eqb code 14 then ok p' else bad
          | Ok (p', FinReleased) => if Z.eqb code 13 then ok p' else bad
          | Ok (p', FinBlockError) => if Z.eqb code 0 then bad else ok p'
          | Panic => bad
          end
      | None => bad
      end
  | 5 => ok (notify_sync_starting (sx_bool (sx_nth e 1)) p)
  | 6 => ok (notify_sync_completed p)
  | 7 => match get_persistent_state p with
         | Ok (p', st) => if sx_eqb (enc_pstate st) (L [sx_nth e 1; sx_nth e 2]) then ok p' else bad
         | Panic => bad
         end
  | 8 => match notify_state_written p with Ok p' => ok p' | Panic => bad end
  | 9 =>
      if sx_Z (sx_nth e 4) <? 0 then bad else
      match index_to_ref (sx_nat (sx_nth e 4)) p with
      | Ok ((ep, bfl), sd) =>
          if N.eqb ep (sx_N (sx_nth e 2)) && N.eqb bfl (sx_N (sx_nth e 3)) && N.eqb sd (sx_N (sx_nth e 5))
          then ok p else bad
      | Panic => bad
      end
  | _ => bad
  end.

Definition hist_ok (p0 : pbl) (evs : sx) : bool :=
  negb (h_bad (fold_left hist_step (sx_list evs) (mkH p0 [] false))).

(** agreement of one life's observation with the model, given the media it started on;
    returns the list of disagreement codes (empty = agree) *)
Fixpoint tie_life (fuel : nat) (c : jcfg) (base : medium jrec) (ing obs : sx) : list Z :=
  match fuel with
  | O => []
  | S f =>
      if abnormal obs then [] else
      let log := map dec_io (sx_list (sx_nth obs 5)) in
      let here :=
        (if sx_eqb (sx_nth obs 0) (enc_restored c (m_state base)) then [] else [10]) ++
        (if sx_eqb (sx_nth obs 1) (model_slots c base) then [] else [11]) ++
        (if forallb (slot_has_key (sx_nth obs 1)) (served_keys (sx_nth obs 2)) then [] else [12]) ++
        (if log_seed_rule log then [] else [17]) ++
        (if slots_covered (m_state base) (sx_nth obs 1) then [] else [18]) ++
        (if hist_ok (fst (restart (j_geom c) (m_state base))) (sx_nth obs 7) then [] else [19]) in
      here ++
      flat_map (fun eo =>
        let e := fst eo in let o := snd eo in
        let n := sx_nat (sx_nth o 0) in
        let pre := firstn n log in
        let df := dec_flags (sx_nth o 1) in
        let xf := dec_flags (sx_nth o 2) in
        let ch := mkChoice df xf (sx_nat (sx_nth e 4)) (sx_nat (sx_nth e 5)) in
        let m := crash_medium base pre ch in
        (if (n <=? length log)%nat then [] else [13]) ++
        (if Nat.eqb (length df) (length (data_pending pre)) then [] else [14]) ++
        (if Nat.eqb (length xf) (length (index_writes pre)) then [] else [15]) ++
        (if Nat.eqb (sx_nat (sx_nth o 3)) (pending_dir_ops base pre) then [] else [16]) ++
        tie_life f c m (sx_nth e 6) (sx_nth o 4))
        (combine (sx_list (sx_nth ing 1)) (sx_list (sx_nth obs 6)))
  end.

(** ---- resolution differential (kind 1) ----
    input (1 cfg state ((slot seed epoch bfl (key32) att off size flip) ...)):
    the harness writes the state file and, through the REAL record array with hash seed [seed],
    the records (then xors device byte [flip] of the record with 1 when flip < 66), restarts the
    real store and reports (restored ((slot (key32) att blockIndex off size) ...) ((slot (66 bytes)) ...)
    (((key32) found blockIndex off size) ...)); the last list is what the REAL key-location map (hash
    initialisation taken from the state file) finds for every key occurring in a record.
    The model decodes the reported device bytes with Index/RecordCodec under the seed the
    restarted list gives for the record's reference. *)
Definition diff_slot (p : pbl) (cut : nat) (e : sx) : list sx :=
  let s := sx_nth e 0 in
  let bytes := sx_Ns (sx_nth e 1) in
  let epoch := le_dec (slice 0 4 bytes) in
  let bfl := le_dec (slice 4 6 bytes) in
  match ref_to_index epoch bfl p with
  | Ok (Some (i, seed)) =>
      if (i <? cut)%nat then [] else
      match decode seed bytes with
      | Some r => [L [s; of_Ns (d_key r); of_N (d_att r); of_nat i; of_N (d_off r); of_N (d_size r)]]
      | None => []
      end
  | _ => []
  end.

(** new_blob_access.go: the record count is lowered to a prime (when > 3) *)
Definition is_prime (n : nat) : bool := forallb (fun d => negb (Nat.eqb (Nat.modulo n d) 0)) (seq 2 (n - 2)).
Fixpoint adj_prime (fuel n : nat) : nat :=
  match fuel with
  | O => n
  | S f => if (3 <? n)%nat && negb (is_prime n) then adj_prime f (n - 1) else n
  end.

(** the resolved record of a slot as a key-location-map table entry *)
Definition table_entry (resolved : list sx) (s : nat) : option (Klm.rec bkey) :=
  match find (fun e => Nat.eqb (sx_nat (sx_nth e 0)) s) resolved with
  | Some e => Some {| rkey := sx_Ns (sx_nth e 1); ratt := sx_nat (sx_nth e 2);
                      rloc := {| blk := sx_N (sx_nth e 3); off := sx_N (sx_nth e 4); size := sx_N (sx_nth e 5) |} |}
  | None => None
  end.

Definition diff_key (hinit : N) (n maxget : nat) (tbl : Klm.table bkey) (k : sx) : sx :=
  let key := sx_Ns (sx_nth k 0) in
  match lookup_of (Klm.get bkey bkey_eqb (fnv_slot hinit n) maxget 0 (2 ^ 62) tbl key) with
  | Some l => L [sx_nth k 0; A 1; of_N (blk l); of_N (off l); of_N (size l)]
  | None => L [sx_nth k 0; A 0]
  end.

Definition run_diff (inp obs : sx) : sx :=
  let c := dec_cfg (sx_nth inp 1) in
  let st := Some (dec_state (sx_nth inp 2)) in
  let '(p, n) := restart (j_geom c) st in
  let cut := ocn_cut (j_old c) (j_cur c) (j_new c) n in
  let resolved := flat_map (diff_slot p cut) (sx_list (sx_nth obs 2)) in
  let nt := adj_prime 64 (j_nrec c) in
  let tbl := map (table_entry resolved) (seq 0 (j_nrec c)) in
  let hinit := snd (dec_state (sx_nth inp 2)) in
  L [enc_restored c st; L resolved;
     L (map (diff_key hinit nt (sx_nat (sx_nth (sx_nth inp 1) 7)) tbl) (sx_list (sx_nth obs 3)))].

(** ---- the judge ---- *)
Definition judge02 (inp obs : sx) : sx :=
  match sx_Z (sx_nth inp 0) with
  | 1 =>
      let m := run_diff inp obs in
      verdict (sx_eqb (sx_nth m 0) (sx_nth obs 0) && sx_eqb (sx_nth m 1) (sx_nth obs 1) && sx_eqb (sx_nth m 2) (sx_nth obs 3)) (abnormal obs) m
              (if abnormal obs then of_Zs [3] else of_Zs [])
  | _ =>
      let c := dec_cfg (sx_nth inp 1) in
      let v := mon_life 6 0 [] (sx_nth inp 3) obs in
      let t := tie_life 6 c medium_empty (sx_nth inp 3) obs in
      verdict (match t with [] => true | _ => false end) (negb (match v with [] => true | _ => false end))
              (of_Zs t) (of_Zs (nodup Z.eq_dec v))
  end.
