(** C09: sx interface of the model (decoders, run, monitor, judge).

    input  = (kind srcK (fn hash size) (attach (event...)) method table)
      kind   0 NewCASBufferFromByteSlice (data = the script's content), 1 ..FromReader, 2 ..FromChunkReader
      srcK   0 UserProvided, 1 BackendProvided(callback recorded)
      event  (0 bytes) chunk | (1 code) error | (2) EOF
      method (0 max) ToByteSlice | (1) IntoWriter | (2 plen off) ReadAt | (3 off max extra) ToChunkReader
             | (4 (cap...) extra) ToReader | (5 max) CloneCopy | (6) Discard
      table  ((content hash)...)  hashes computed by Go; H = lookup, [] if absent
    obs    = (delivered code (extra codes) (callback verdicts) closes aux)
      code   0 nil, -1 io.EOF, -2 io.ErrUnexpectedEOF, otherwise the gRPC code *)
From BBS Require Import Common.Sx Buffer.Source Buffer.Validate Buffer.Convert.
Open Scope Z_scope.

Definition dec_bytes (s : sx) : bytes := sx_Ns s.
Definition dec_ev (s : sx) : ev :=
  match s with
  | L [A 0; bs] => Chunk (dec_bytes bs)
  | L [A 1; A c] => Err c
  | _ => Eof
  end.
Definition dec_meth (s : sx) : meth :=
  match s with
  | L [A 0; A max] => MToByteSlice (Z.to_N max)
  | L [A 1] => MIntoWriter
  | L [A 2; A plen; A off] => MReadAt (Z.to_N plen) off
  | L [A 3; A off; A max; A k] => MToChunkReader off (Z.to_N max) (Z.to_nat k)
  | L [A 4; caps; A k] => MToReader (sx_Ns caps) (Z.to_nat k)
  | L [A 5; A max] => MCloneCopy (Z.to_N max)
  | _ => MDiscard
  end.

Fixpoint lookup (tbl : list (bytes * bytes)) (bs : bytes) : bytes :=
  match tbl with
  | [] => []
  | (c, h) :: t => if bytes_eqb c bs then h else lookup t bs
  end.
Definition dec_table (s : sx) : list (bytes * bytes) :=
  map (fun e => (dec_bytes (sx_nth e 0), dec_bytes (sx_nth e 1))) (sx_list s).

Definition enc_err (e : err) : sx :=
  A (match e with ENone => 0 | EEof => -1 | EUnexp => -2 | EFuel => -3 | ECode c => c end).
Definition enc_out (report : bool) (o : outcome) : sx :=
  L [of_Ns (o_data o); enc_err (o_err o); L (map enc_err (o_extra o));
     L (if report then map of_bool (o_cbs o) else []); of_nat (o_closed o); of_Ns (o_aux o)].

Definition script_fuel (evs : list ev) : nat :=
  (16 + 4 * fold_right (fun e a => match e with Chunk bs => S (length bs) | _ => 1 end + a) 0 evs)%nat.

Record case09 := mkCase {
  k_kind : Z; k_report : bool; k_cfg : vcfg; k_attach : bool; k_evs : list ev; k_meth : meth;
  k_tbl : list (bytes * bytes)
}.
Definition dec_case (inp : sx) : case09 :=
  let d := sx_nth inp 2 in
  let report := sx_bool (sx_nth inp 1) in
  mkCase (sx_Z (sx_nth inp 0)) report
         (mkVcfg (dec_bytes (sx_nth d 1)) (sx_N (sx_nth d 2)) (if report then 13 else 3))
         (sx_bool (sx_nth (sx_nth inp 3) 0)) (map dec_ev (sx_list (sx_nth (sx_nth inp 3) 1)))
         (dec_meth (sx_nth inp 4)) (dec_table (sx_nth inp 5)).

Definition run09 (inp : sx) : sx :=
  let c := dec_case inp in
  let H := lookup (k_tbl c) in
  let fuel := script_fuel (k_evs c) in
  enc_out (k_report c)
    (match k_kind c with
     | 0 => cas_byte_slice H (k_cfg c) fuel (fst (content (k_evs c))) (k_meth c)
     | 1 => cas_reader H (k_cfg c) fuel (k_evs c) (k_attach c) (k_meth c)
     | _ => cas_chunk_reader H (k_cfg c) fuel (k_evs c) (k_meth c)
     end).

(** * Monitor: the property itself, evaluated on the implementation's
    observation; it uses only the specification function [content]. *)
Definition m_off (m : meth) : Z :=
  match m with MReadAt _ off => off | MToChunkReader off _ _ => off | _ => 0 end.
Definition expected (m : meth) (c : bytes) : bytes :=
  match m with
  | MReadAt plen off => takeN plen (dropN (Z.to_N off) c)
  | MToChunkReader off _ _ => dropN (Z.to_N off) c
  | MDiscard => []
  | _ => c
  end.
Definition completes (m : meth) (code : Z) : bool :=
  match m with
  | MReadAt _ _ => (code =? 0) || (code =? -1)
  | MToChunkReader _ _ _ | MToReader _ _ => code =? -1
  | _ => code =? 0
  end.
(** a parameter the method itself must reject with INVALID_ARGUMENT *)
Definition bad_param (size : N) (m : meth) : bool :=
  match m with
  | MToByteSlice max | MCloneCopy max => (max <? size)%N
  | MReadAt _ off => off <? 0
  | MToChunkReader off _ _ => negb (valid_offset size off)
  | _ => false
  end.
Definition is_discard (m : meth) : bool := match m with MDiscard => true | _ => false end.

Definition mon09 (inp obs : sx) : list Z :=
  let c := dec_case inp in
  let H := lookup (k_tbl c) in
  let '(cont, term) := content (k_evs c) in
  let cont := cont in
  let term := if k_kind c =? 0 then EEof else term in
  let size := g_size (k_cfg c) in
  let valid := err_eqb term EEof && (lenN cont =? size)%N && bytes_eqb (g_hash (k_cfg c)) (H cont) in
  let m := k_meth c in
  let delivered := dec_bytes (sx_nth obs 0) in
  let code := sx_Z (sx_nth obs 1) in
  let cbs := map sx_bool (sx_list (sx_nth obs 3)) in
  let aux := dec_bytes (sx_nth obs 5) in
  let done := completes m code in
  if is_discard m then [] else
  (* 1: completion although the content does not have the digest's size and hash *)
  (if done && negb valid then [1] else []) ++
  (* 2: completion, but the consumer did not receive the expected bytes *)
  (if done && valid && negb (bytes_eqb delivered (expected m cont)
        && match m with MCloneCopy _ => bytes_eqb aux cont | _ => true end) then [2] else []) ++
  (* 3: failure with a code that is neither the source's mismatch code for invalid content,
        nor the source's own I/O error, nor INVALID_ARGUMENT for a bad parameter *)
  (if negb done &&
      negb ((negb valid && (err_eqb term EEof || (size <? lenN cont)%N) && (code =? g_code (k_cfg c)))
            || err_eqb term (ECode code)
            || (bad_param size m && (code =? 3)))
   then [3] else []) ++
  (* 4: invalid content, no I/O error, sane parameters: the code must be the source's *)
  (if negb valid && err_eqb term EEof && negb (bad_param size m) && negb (code =? g_code (k_cfg c))
   then [4] else []) ++
  (* 5: invalid content, yet the consumer received the data up to the digest's size *)
  (if negb valid && negb (is_nil delivered) && negb (m_off m + Z.of_N (lenN delivered) <? Z.of_N size)
   then [5] else []) ++
  (* 6/7: integrity callback: positive verdict for invalid, negative for valid content *)
  (if existsb (fun b => b) cbs && negb valid then [6] else []) ++
  (if existsb negb cbs && valid then [7] else []).

Definition judge09 : sx -> sx -> sx := judge_det run09 mon09.
