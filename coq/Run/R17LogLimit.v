(** C17, clause 24 for the concurrency-limiting replicator: on the event log of
    every trace of the model, a caller that returned success has, for every
    object of its set, a successful sink.Put of its own after its start.

    Invariant (per caller j, log so far [lg]): while inside the base
    replicator at [Get d rest] / [Put d _ rest], every object of the caller's
    set is d, or still in [rest], or already justified after the caller's
    start; at [Done 0] all of them are justified; a success event of j in the
    log means j is at [Done 0].  The semaphore hand-over ([notify]) only turns
    waiting callers into granted ones. *)
From Coq Require Import List ZArith NArith Bool Arith Lia.
From BBS Require Import Common.Sx Common.ListX Run.MonSilentSx Compose.ExistenceCache Compose.ExistenceCacheProofs
  Compose.Replicators Compose.ReplicatorsProofs Compose.MonSilentRepl Compose.ReplEntry Compose.ReplEntryProofs
  Compose.EventLog Run.R17Conc Run.R17LogBase.
Import ListNotations.
Local Open Scope nat_scope.

Lemma notify_keep k : forall fuel s i t, QW s -> nth_error (thr s) i = Some t -> tpc t <> WaitSem ->
  nth_error (thr (notify fuel k s)) i = Some t.
Proof.
  induction fuel as [|f IH]; intros s i t Q Hi Hw; cbn [notify]; [exact Hi|].
  destruct (semq s) as [|j0 q'] eqn:Eq; [exact Hi|]. destruct (Nat.ltb (cur s) k); [|exact Hi].
  destruct (nth_error (thr s) j0) as [t0|] eqn:H0; [|exact Hi].
  destruct Q as [N Q]. rewrite Eq in N, Q. inversion N as [|? ? Hn0 Nq]; subst.
  assert (P0 : tpc t0 = WaitSem) by (apply (Q j0 t0); [left; reflexivity|exact H0]).
  assert (Hne : j0 <> i) by (intros ->; rewrite Hi in H0; inversion H0; subst; contradiction).
  apply IH; [|cbn [thr]; rewrite nth_error_upd_neq by exact Hne; exact Hi|exact Hw].
  split; cbn [semq thr]; [exact Nq|]. intros j1 t1 Hin Hn. apply nth_error_upd_inv in Hn.
  destruct Hn as [[-> _]|[_ Hn]]; [contradiction|]. apply (Q j1 t1); [right; exact Hin|exact Hn].
Qed.

Lemma QW_upd s s1 i t x : QW s -> nth_error (thr s) i = Some t -> tpc t <> WaitSem ->
  thr s1 = upd i x (thr s) -> semq s1 = semq s -> QW s1.
Proof.
  intros [N Q] Hi Hw Ht Hq. split; rewrite Hq; [exact N|]. intros j tj Hin Hn. rewrite Ht in Hn.
  apply nth_error_upd_inv in Hn. destruct Hn as [[-> _]|[_ Hn]]; [|apply (Q j tj Hin Hn)].
  exfalso. apply Hw. apply (Q i t Hin Hi).
Qed.

Lemma QW_dequeue s s1 i x : QW s -> thr s1 = upd i x (thr s) -> semq s1 = remove_nat i (semq s) -> QW s1.
Proof.
  intros [N Q] Ht Hq. split; rewrite Hq; [apply remove_nat_nodup, N|]. intros j tj Hin Hn.
  apply remove_nat_in in Hin. destruct Hin as [Hne Hin]. rewrite Ht in Hn.
  apply nth_error_upd_inv in Hn. destruct Hn as [[-> _]|[_ Hn]]; [contradiction|apply (Q j tj Hin Hn)].
Qed.

Section Limit.
  Variable lim : nat.
  Variable sets : list (list nat).

  Definition TL (j : nat) (tj : thread) (lg : list sx) : Prop :=
    lpc tj /\ todo tj = nth j sets [] /\
    (forall x, In x lg -> is_succ j x = true -> tpc tj = Done 0) /\
    (forall st, started_at j lg st ->
       match tpc tj with
       | Get d rest _ | Put d _ rest _ => forall d', In d' (todo tj) -> d' = d \/ In d' rest \/ J d' st lg
       | Done c => c = 0%Z -> forall d', In d' (todo tj) -> J d' st lg
       | _ => True
       end).

  Definition allT (s : cstate) (lg : list sx) : Prop := forall j tj, nth_error (thr s) j = Some tj -> TL j tj lg.
  Definition LI (s : cstate) (lg : list sx) : Prop := Inv (MLimit lim) s /\ aux (MLimit lim) s /\ allT s lg.

  Lemma TL_other j tj lg new : (forall x, In x new -> lg_caller x <> j) -> TL j tj lg -> TL j tj (lg ++ new).
  Proof.
    intros Hn (A & B & C & D). split; [exact A|]. split; [exact B|]. split.
    - intros x Hx Sx. apply in_app_or in Hx. destruct Hx as [Hx|Hx]; [exact (C x Hx Sx)|].
      apply is_succ_caller in Sx. exfalso. exact (Hn x Hx Sx).
    - intros st Hst. apply started_app_inv in Hst; [|intros x Hx; apply not_caller_not_start, Hn, Hx].
      pose proof (started_lt _ _ _ Hst) as Hl. specialize (D st Hst).
      destruct (tpc tj); try exact D.
      + intros d' Hd. destruct (D d' Hd) as [E|[E|E]]; auto. right. right. apply J_app; assumption.
      + intros d' Hd. destruct (D d' Hd) as [E|[E|E]]; auto. right. right. apply J_app; assumption.
      + intros Hc d' Hd. apply J_app; [apply D; assumption|exact Hl].
  Qed.

  Lemma TL_granted j tj lg : tpc tj = WaitSem -> TL j tj lg -> TL j (mkthr Granted (todo tj) (cancelled tj) (bset tj)) lg.
  Proof.
    intros Hp (A & B & C & D). split; [exact Logic.I|]. split; [exact B|]. split.
    - intros x Hx Sx. specialize (C x Hx Sx). rewrite Hp in C. discriminate.
    - intros st Hst. exact Logic.I.
  Qed.

  (** The acting caller i moves from t to t'. *)
  Lemma TL_act i t t' lg new :
    TL i t lg -> (forall x, In x new -> is_start i x = false) ->
    lpc t' -> todo t' = todo t -> tpc t <> Done 0 ->
    (forall x, In x new -> is_succ i x = true -> tpc t' = Done 0) ->
    (forall st, started_at i lg st -> st < length lg ->
       match tpc t' with
       | Get d rest _ | Put d _ rest _ => forall d', In d' (todo t) -> d' = d \/ In d' rest \/ J d' st (lg ++ new)
       | Done c => c = 0%Z -> forall d', In d' (todo t) -> J d' st (lg ++ new)
       | _ => True
       end) ->
    TL i t' (lg ++ new).
  Proof.
    intros (A & B & C & D) Hns Hl Htd Hnd Hs Hb. split; [exact Hl|]. split; [rewrite Htd; exact B|]. split.
    - intros x Hx Sx. apply in_app_or in Hx. destruct Hx as [Hx|Hx]; [|exact (Hs x Hx Sx)].
      exfalso. apply Hnd. exact (C x Hx Sx).
    - intros st Hst. apply started_app_inv in Hst; [|exact Hns]. rewrite Htd.
      apply Hb; [exact Hst|eapply started_lt; exact Hst].
  Qed.

  Lemma all_upd s lg' i t' thr' :
    thr' = upd i t' (thr s) -> TL i t' lg' ->
    (forall j tj, j <> i -> nth_error (thr s) j = Some tj -> TL j tj lg') ->
    forall j tj, nth_error thr' j = Some tj -> TL j tj lg'.
  Proof.
    intros -> Hi Ho j tj Hj. apply nth_error_upd_inv in Hj. destruct Hj as [[-> ->]|[Hne Hj]]; [exact Hi|exact (Ho j tj Hne Hj)].
  Qed.

  Lemma all_notify s s1 lg' i t' fuel :
    thr s1 = upd i t' (thr s) -> QW s1 -> TL i t' lg' ->
    (forall j tj, j <> i -> nth_error (thr s) j = Some tj -> TL j tj lg') ->
    forall j tj, nth_error (thr (notify fuel lim s1)) j = Some tj -> TL j tj lg'.
  Proof.
    intros Ht Q Hi Ho j tj' Hj. apply (notify_frame lim fuel s1 j tj' Q) in Hj. destruct Hj as (tj & Hj & D).
    assert (X : TL j tj lg') by (eapply all_upd; [exact Ht|exact Hi|exact Ho|exact Hj]).
    destruct D as [->|[Hw ->]]; [exact X|apply TL_granted; assumption].
  Qed.

  Lemma pc_notify s1 i t' fuel : QW s1 -> nth_error (thr s1) i = Some t' -> tpc t' <> WaitSem ->
    pc_of (notify fuel lim s1) i = tpc t'.
  Proof. intros Q Hi Hw. apply pc_of_at. apply notify_keep; assumption. Qed.

  Local Opaque notify.

  Lemma limit_log_step s lg e s' : LI s lg -> step (MLimit lim) s e = Some s' -> LI s' (lg ++ emit (MLimit lim) s e).
  Proof.
    intros (I & X & T) H. split; [eapply step_inv; eassumption|]. split; [eapply aux_step; eassumption|].
    pose proof (Inv_QW _ _ I) as Q.
    assert (Oth : forall i new, (forall x, In x new -> lg_caller x = i) -> forall j tj, j <> i -> nth_error (thr s) j = Some tj ->
                  TL j tj (lg ++ new)).
    { intros i new Hc j tj Hne Hj. apply TL_other; [|exact (T j tj Hj)]. intros x Hx E. apply Hne. rewrite <- E. apply Hc, Hx. }
    unfold allT. unfold emit in *. rewrite H in *.
    destruct e as [i|i f|i|dt|i alt]; cbn [step] in H; cbn [emit_with actor] in *.
    - (* EStart *)
      destruct (nth_error (thr s) i) as [t|] eqn:Ht; [|discriminate].
      destruct (tpc t) eqn:Hp; try discriminate. inversion H; subst; clear H.
      unfold set_pc. rewrite (pc_of_set_thr s i t _ Ht). cbn [tpc arrive].
      eapply all_upd; [reflexivity| |apply Oth; callers].
      destruct (T i t Ht) as (A & B & C & D). split; [exact Logic.I|]. split; [exact B|]. split.
      + intros x Hx Sx. apply in_app_or in Hx. destruct Hx as [Hx|[<-|[]]]; [|discriminate Sx].
        specialize (C x Hx Sx). rewrite Hp in C. discriminate.
      + intros st Hst. exact Logic.I.
    - (* ERel *)
      destruct (nth_error (thr s) i) as [t|] eqn:Ht; [|discriminate].
      rewrite (pc_of_at s i t Ht).
      destruct (tpc t) eqn:Hp; try discriminate.
      + (* Get *)
        inversion H; subst; clear H. unfold set_pc. rewrite (pc_of_set_thr s i t _ Ht). cbn [tpc arrive returned].
        eapply all_upd; [reflexivity| |apply Oth; callers].
        apply (TL_act i t); [exact (T i t Ht)|intros x [<-|[<-|[]]]; reflexivity|exact Logic.I|reflexivity|rewrite Hp; discriminate
                            |intros x [<-|[<-|[]]] Sx; discriminate Sx|].
        cbn [tpc]. intros st Hst Hl d' Hd. destruct (T i t Ht) as (_ & _ & _ & D). specialize (D st Hst). rewrite Hp in D.
        destruct (D d' Hd) as [E|[E|E]]; auto. right. right. apply J_app; assumption.
      + (* Put *)
        destruct ((if negb (f =? 0)%Z then f else b) =? 0)%Z eqn:Ec.
        * cbn [returned]. apply Z.eqb_eq in Ec. rewrite Ec.
          assert (Jd : forall st, st < length lg -> forall tl, J d st (lg ++ ev_ret i 0 1 d 0 [] (clk s) :: tl)).
          { intros st Hl tl. eapply J_new; [exact Hl|left; reflexivity|apply justifies_put_ok]. }
          destruct rest as [|d' rest']; inversion H; subst; clear H.
          -- (* last object copied: the base replicator returns OK *)
             cbn [finish_base]. unfold sem_release.
             set (t' := mkthr (Done 0) (todo t) (cancelled t) None).
             match goal with |- context [notify ?fu lim ?sx] => set (s1 := sx); set (fu0 := fu) end.
             assert (Q1 : QW s1) by (eapply (QW_upd s s1 i t t'); [exact Q|exact Ht|rewrite Hp; discriminate|reflexivity|reflexivity]).
             rewrite (pc_notify s1 i t' fu0 Q1); [|cbn [s1 thr set_thr]; eapply nth_error_upd_eq; exact Ht|discriminate].
             cbn [t' tpc arrive returned app].
             eapply all_notify with (s := s) (i := i) (t' := t'); [reflexivity|exact Q1| |apply Oth; callers].
             apply (TL_act i t); [exact (T i t Ht)|intros x [<-|[<-|[]]]; reflexivity|exact Logic.I|reflexivity|rewrite Hp; discriminate
                                 |intros x [<-|[<-|[]]] Sx; [discriminate Sx|reflexivity]|].
             cbn [t' tpc]. intros st Hst Hl _ d' Hd. destruct (T i t Ht) as (_ & _ & _ & D). specialize (D st Hst). rewrite Hp in D.
             destruct (D d' Hd) as [->|[[]|E]]; [apply Jd; exact Hl|apply J_app; assumption].
          -- unfold set_pc. erewrite pc_of_set_thr; [|cbn [thr]; exact Ht]. cbn [tpc arrive returned app].
             eapply all_upd; [reflexivity| |apply Oth; callers].
             apply (TL_act i t); [exact (T i t Ht)|intros x [<-|[<-|[]]]; reflexivity|exact Logic.I|reflexivity|rewrite Hp; discriminate
                                 |intros x [<-|[<-|[]]] Sx; discriminate Sx|].
             cbn [tpc]. intros st Hst Hl x Hx. destruct (T i t Ht) as (_ & _ & _ & D). specialize (D st Hst). rewrite Hp in D.
             destruct (D x Hx) as [->|[[->|E]|E]]; [right; right; apply Jd; exact Hl|left; reflexivity|right; left; exact E|].
             right. right. apply J_app; assumption.
        * inversion H; subst; clear H.
          cbn [finish_base]. unfold sem_release.
          set (c := if negb (f =? 0)%Z then f else b) in *.
          set (t' := mkthr (Done c) (todo t) (cancelled t) None).
          match goal with |- context [notify ?fu lim ?sx] => set (s1 := sx); set (fu0 := fu) end.
          assert (Q1 : QW s1) by (eapply (QW_upd s s1 i t t'); [exact Q|exact Ht|rewrite Hp; discriminate|reflexivity|reflexivity]).
          rewrite (pc_notify s1 i t' fu0 Q1); [|cbn [s1 thr set_thr]; eapply nth_error_upd_eq; exact Ht|discriminate].
          cbn [t' tpc arrive returned app].
          eapply all_notify with (s := s) (i := i) (t' := t'); [reflexivity|exact Q1| |apply Oth; callers].
          apply (TL_act i t); [exact (T i t Ht)|intros x [<-|[<-|[]]]; reflexivity|exact Logic.I|reflexivity|rewrite Hp; discriminate| |].
          -- intros x [<-|[<-|[]]] Sx; [discriminate Sx|]. apply is_succ_done in Sx. destruct Sx as [_ Sx].
             rewrite Sx in Ec. discriminate.
          -- cbn [t' tpc]. intros st Hst Hl Hc. rewrite Hc in Ec. discriminate.
    - (* ECancel *)
      destruct (nth_error (thr s) i) as [t|] eqn:Ht; [|discriminate].
      destruct (cancelled t); [discriminate|]. inversion H; subst; clear H.
      eapply all_upd; [reflexivity| |apply Oth; callers]. rewrite app_nil_r. exact (T i t Ht).
    - (* EAdv *)
      inversion H; subst; clear H. cbn [thr]. rewrite app_nil_r. exact T.
    - (* ETau *)
      destruct (nth_error (thr s) i) as [t|] eqn:Ht; [|discriminate].
      pose proof (T i t Ht) as Ti. destruct Ti as (Lt & Td & _ & _). unfold lpc in Lt.
      destruct (tpc t) eqn:Hp; try contradiction; destruct alt; try discriminate.
      + (* Idle *)
        destruct (cancelled t) eqn:Hc.
        * inversion H; subst; clear H. unfold set_pc. rewrite (pc_of_set_thr s i t _ Ht). cbn [tpc arrive].
          eapply all_upd; [reflexivity| |apply Oth; callers].
          apply (TL_act i t); [exact (T i t Ht)|intros x [<-|[]]; reflexivity|exact Logic.I|reflexivity|rewrite Hp; discriminate
                              |intros x [<-|[]] Sx; nosucc Sx|].
          cbn [tpc]. intros st _ _ X1. discriminate X1.
        * destruct (Nat.ltb (cur s) lim && match semq s with [] => true | _ => false end); inversion H; subst; clear H.
          -- (* a permit is free: enters the base replicator *)
             unfold begin_base. destruct (todo t) as [|d rest] eqn:Etd.
             ++ cbn [finish_base]. unfold sem_release.
                set (t' := mkthr (Done 0) (todo (mkthr (tpc t) [] (cancelled t) (Some []))) (cancelled (mkthr (tpc t) [] (cancelled t) (Some []))) None).
                match goal with |- context [notify ?fu lim ?sx] => set (s1 := sx); set (fu0 := fu) end.
                assert (E1 : thr s1 = upd i t' (thr s)) by (cbn [s1 thr set_thr note_max]; apply upd_upd).
                assert (Q1 : QW s1) by (eapply (QW_upd s s1 i t t'); [exact Q|exact Ht|rewrite Hp; discriminate|exact E1|reflexivity]).
                rewrite (pc_notify s1 i t' fu0 Q1); [|rewrite E1; eapply nth_error_upd_eq; exact Ht|discriminate].
                cbn [t' tpc arrive].
                eapply all_notify with (s := s) (i := i) (t' := t'); [exact E1|exact Q1| |apply Oth; callers].
                apply (TL_act i t); [exact (T i t Ht)|intros x [<-|[]]; reflexivity|exact Logic.I|cbn; symmetry; exact Etd|rewrite Hp; discriminate
                                    |intros x [<-|[]] Sx; reflexivity|].
                cbn [t' tpc]. rewrite Etd. intros st _ _ _ d' [].
             ++ set (t' := mkthr (Get d rest 0) (d :: rest) (cancelled t) (Some (d :: rest))).
                match goal with |- context [pc_of ?sx i] => set (s1 := sx) end.
                assert (E1 : thr s1 = upd i t' (thr s)) by (cbn [s1 thr set_thr note_max]; rewrite upd_upd; reflexivity).
                assert (P1 : pc_of s1 i = tpc t') by (apply pc_of_at; rewrite E1; eapply nth_error_upd_eq; exact Ht).
                rewrite P1. cbn [t' tpc arrive].
                eapply all_upd; [exact E1| |apply Oth; callers].
                apply (TL_act i t); [exact (T i t Ht)|intros x [<-|[]]; reflexivity|exact Logic.I|cbn; symmetry; exact Etd|rewrite Hp; discriminate
                                    |intros x [<-|[]] Sx; nosucc Sx|].
                cbn [t' tpc]. rewrite Etd. intros st _ _ d' [<-|Hd]; auto.
          -- (* queued on the semaphore *)
             cbn [thr]. rewrite (pc_of_at _ i (mkthr WaitSem (todo t) (cancelled t) (bset t)));
               [|cbn [thr set_pc set_thr]; eapply nth_error_upd_eq; exact Ht].
             cbn [tpc arrive]. eapply all_upd; [reflexivity| |apply Oth; callers].
             apply (TL_act i t); [exact (T i t Ht)|intros x []|exact Logic.I|reflexivity|rewrite Hp; discriminate|intros x []|].
             cbn [tpc]. intros; exact Logic.I.
      + (* WaitSem, cancelled *)
        destruct (cancelled t); [|discriminate]. inversion H; subst; clear H.
        set (t' := mkthr (Done 1) (todo t) (cancelled t) (bset t)).
        match goal with |- context [notify ?fu lim ?sx] => set (s1 := sx); set (fu0 := fu) end.
        assert (Q1 : QW s1) by (eapply (QW_dequeue s s1 i t'); [exact Q|reflexivity|reflexivity]).
        rewrite (pc_notify s1 i t' fu0 Q1); [|cbn [s1 thr set_pc set_thr]; eapply nth_error_upd_eq; exact Ht|discriminate].
        cbn [t' tpc arrive].
        eapply all_notify with (s := s) (i := i) (t' := t'); [reflexivity|exact Q1| |apply Oth; callers].
        apply (TL_act i t); [exact (T i t Ht)|intros x [<-|[]]; reflexivity|exact Logic.I|reflexivity|rewrite Hp; discriminate
                            |intros x [<-|[]] Sx; nosucc Sx|].
        cbn [t' tpc]. intros st _ _ X1. discriminate X1.
      + (* Granted *)
        destruct (cancelled t) eqn:Hc; inversion H; subst; clear H.
        * unfold sem_release.
          set (t' := mkthr (Done 1) (todo t) (cancelled t) (bset t)).
          match goal with |- context [notify ?fu lim ?sx] => set (s1 := sx); set (fu0 := fu) end.
          assert (Q1 : QW s1) by (eapply (QW_upd s s1 i t t'); [exact Q|exact Ht|rewrite Hp; discriminate|reflexivity|reflexivity]).
          rewrite (pc_notify s1 i t' fu0 Q1); [|cbn [s1 thr set_pc set_thr]; eapply nth_error_upd_eq; exact Ht|discriminate].
          cbn [t' tpc arrive].
          eapply all_notify with (s := s) (i := i) (t' := t'); [reflexivity|exact Q1| |apply Oth; callers].
          apply (TL_act i t); [exact (T i t Ht)|intros x [<-|[]]; reflexivity|exact Logic.I|reflexivity|rewrite Hp; discriminate
                              |intros x [<-|[]] Sx; nosucc Sx|].
          cbn [t' tpc]. intros st _ _ X1. discriminate X1.
        * unfold begin_base. destruct (todo t) as [|d rest] eqn:Etd.
          -- cbn [finish_base]. unfold sem_release.
             set (t' := mkthr (Done 0) (todo (mkthr (tpc t) [] (cancelled t) (Some []))) (cancelled (mkthr (tpc t) [] (cancelled t) (Some []))) None).
             match goal with |- context [notify ?fu lim ?sx] => set (s1 := sx); set (fu0 := fu) end.
             assert (E1 : thr s1 = upd i t' (thr s)) by (cbn [s1 thr set_thr note_max]; apply upd_upd).
             assert (Q1 : QW s1) by (eapply (QW_upd s s1 i t t'); [exact Q|exact Ht|rewrite Hp; discriminate|exact E1|reflexivity]).
             rewrite (pc_notify s1 i t' fu0 Q1); [|rewrite E1; eapply nth_error_upd_eq; exact Ht|discriminate].
             cbn [t' tpc arrive].
             eapply all_notify with (s := s) (i := i) (t' := t'); [exact E1|exact Q1| |apply Oth; callers].
             apply (TL_act i t); [exact (T i t Ht)|intros x [<-|[]]; reflexivity|exact Logic.I|cbn; symmetry; exact Etd|rewrite Hp; discriminate
                                 |intros x [<-|[]] Sx; reflexivity|].
             cbn [t' tpc]. rewrite Etd. intros st _ _ _ d' [].
          -- set (t' := mkthr (Get d rest 0) (d :: rest) (cancelled t) (Some (d :: rest))).
             match goal with |- context [pc_of ?sx i] => set (s1 := sx) end.
             assert (E1 : thr s1 = upd i t' (thr s)) by (cbn [s1 thr set_thr note_max]; rewrite upd_upd; reflexivity).
             assert (P1 : pc_of s1 i = tpc t') by (apply pc_of_at; rewrite E1; eapply nth_error_upd_eq; exact Ht).
             rewrite P1. cbn [t' tpc arrive].
             eapply all_upd; [exact E1| |apply Oth; callers].
             apply (TL_act i t); [exact (T i t Ht)|intros x [<-|[]]; reflexivity|exact Logic.I|cbn; symmetry; exact Etd|rewrite Hp; discriminate
                                 |intros x [<-|[]] Sx; nosucc Sx|].
             cbn [t' tpc]. rewrite Etd. intros st _ _ d' [<-|Hd]; auto.
  Qed.

  Local Transparent notify.

  Lemma LI_init source sink : LI (init_state sets source sink) [].
  Proof.
    split; [apply inv_init|]. split; [apply aux_init|]. intros j tj Hj. apply init_thread_at in Hj. subst tj.
    split; [exact Logic.I|]. split; [reflexivity|]. split; [intros x []|]. intros st Hst. exact Logic.I.
  Qed.

  (** Clause 24 on the log of every trace of the concurrency-limiting replicator. *)
  Theorem limit_clause24 source sink tr s : run (MLimit lim) (init_state sets source sink) tr = Some s ->
    clause24_ok sets (tlog (MLimit lim) (init_state sets source sink) tr).
  Proof.
    intros H. pose proof (tlog_inv (MLimit lim) LI _ (LI_init source sink) limit_log_step tr s H) as (_ & _ & T).
    intros i p st Hi Hs Hst.
    destruct (nth_error (thr s) i) as [t|] eqn:Ht.
    2: { apply nth_error_None in Ht. rewrite (run_length _ _ _ _ H), init_length in Ht. lia. }
    destruct (T i t Ht) as (_ & Td & C & D).
    apply iw_some_in in Hs. destruct Hs as (x & Hx & Sx). specialize (C x Hx Sx). specialize (D st Hst). rewrite C in D.
    apply forallb_forall. intros d Hd. apply D; [reflexivity|rewrite Td; exact Hd].
  Qed.
End Limit.
