(** C06: sx interface of the key-location index model (decoders, run, monitor, judge).

    input  (0 backend n maxGet maxPut hashInit h0 (key...) (op...))
             backend 0 = in-memory record array, 1 = block-device backed (same model)
             key = list of 32 bytes ; h0 = number of blocks at the start
             op  = (0 ki blk off size) Put | (1 ki) Get | (2) PopFront | (3) PushBack
    obs    ( ((metric deltas of the operation) (get sweep, one entry per key)) ... )
             metric deltas = (ins_n ins_sum upd_n upd_sum ign_n ign_sum tma_n tma_sum tmi gtm)
             sweep entry   = (status blk off size), status 0 NotFound, 1 Found,
                             2 NotFound counted by get_too_many_attempts_total
           | (-1) when the implementation panics (recordsCount = 0).
    input  (1 blk_epoch bfl key attempt off size seed)  record codec case, see RecordCodec. *)
From BBS Require Import Common.Sx Generated.Consts Index.Klm Index.KlmFnv Index.RecordCodec.
(* -- (keeps lib/checklib.py's dependency scan from reading past the sentence) *)
Open Scope Z_scope.

Definition dec_key (s : sx) : bkey := sx_Ns s.
Definition dec_loc (o : sx) : loc :=
  {| blk := sx_N (sx_nth o 2); off := sx_N (sx_nth o 3); size := sx_N (sx_nth o 4) |}.

Record cfg06 := { c_n : nat; c_maxget : nat; c_maxput : nat; c_init : N; c_h0 : N;
                  c_keys : list bkey; c_ops : list sx }.
Definition dec_cfg (inp : sx) : cfg06 :=
  {| c_n := sx_nat (sx_nth inp 2); c_maxget := sx_nat (sx_nth inp 3);
     c_maxput := sx_nat (sx_nth inp 4); c_init := sx_N (sx_nth inp 5);
     c_h0 := sx_N (sx_nth inp 6); c_keys := map dec_key (sx_list (sx_nth inp 7));
     c_ops := sx_list (sx_nth inp 8) |}.

Definition key_at (c : cfg06) (i : nat) : bkey := nth i (c_keys c) [].

Definition enc_get (g : gres) : sx :=
  match g with
  | GFound l _ => L [A 1; of_N (blk l); of_N (off l); of_N (size l)]
  | GNotFound _ => L [A 0; A 0; A 0; A 0]
  | GTooMany => L [A 2; A 0; A 0; A 0]
  end.

Definition enc_put (o : pres nat) : sx :=
  let z := of_nat in
  match o with
  | PInserted _ it =>          L [A 1; z it; A 0; A 0; A 0; A 0; A 0; A 0; A 0; A 0]
  | PUpdated _ it =>           L [A 0; A 0; A 1; z it; A 0; A 0; A 0; A 0; A 0; A 0]
  | PIgnoredOlder _ it =>      L [A 0; A 0; A 0; A 0; A 1; z it; A 0; A 0; A 0; A 0]
  | PTooManyAttempts _ it _ => L [A 0; A 0; A 0; A 0; A 0; A 0; A 1; z it; A 0; A 0]
  | PTooManyIterations _ _ =>  L [A 0; A 0; A 0; A 0; A 0; A 0; A 0; A 0; A 1; A 0]
  end.
Definition no_metrics (gtm : bool) : sx :=
  L [A 0; A 0; A 0; A 0; A 0; A 0; A 0; A 0; A 0; of_bool gtm].

Section Inst.
  Variable c : cfg06.
  (** keys are represented by their canonical index in the key list; the slot
      function is the real FNV-1a one, tabulated (attempts never exceed
      max 1 maxGet). *)
  Variable tb : list (list nat).   (* = i_tab c, computed once per case *)
  Definition i_slot := tab_slot tb.
  Definition i_get := klm_get nat Nat.eqb i_slot (c_maxget c).
  Definition i_put := klm_put nat Nat.eqb i_slot (c_maxget c) (c_maxput c).
  Definition i_key (i : nat) : nat := canon (c_keys c) i.

  Definition sweep (s : klm nat) : sx :=
    L (map (fun i => enc_get (i_get s (i_key i))) (seq 0 (length (c_keys c)))).

  (** one operation: new state and metric deltas.  A Put outside the block
      window / a PopFront without blocks is not a well-formed case (the harness
      refuses it); the model leaves the state alone. *)
  Definition do_op (s : klm nat) (o : sx) : klm nat * sx :=
    match sx_Z (sx_nth o 0) with
    | 0 => let k := i_key (sx_nat (sx_nth o 1)) in
           let l := dec_loc o in
           if valid (lo s) (hi s) l then let '(s', r) := i_put s k l in (s', enc_put r)
           else (s, no_metrics false)
    | 1 => let k := i_key (sx_nat (sx_nth o 1)) in
           (s, no_metrics (match i_get s k with GTooMany => true | _ => false end))
    | 2 => if (lo s <? hi s)%N then (klm_release nat s, no_metrics false) else (s, no_metrics false)
    | _ => (klm_grow nat s, no_metrics false)
    end.

  Fixpoint run_ops (s : klm nat) (ops : list sx) : list sx :=
    match ops with
    | [] => []
    | o :: ops' => let '(s', m) := do_op s o in L [m; sweep s'] :: run_ops s' ops'
    end.
End Inst.
Definition i_tab (c : cfg06) := slot_table (c_init c) (c_n c) (c_keys c) (c_maxget c).

Definition is_nil {T} (l : list T) : bool := match l with [] => true | _ => false end.

Definition run06_hist (inp : sx) : sx :=
  let c := dec_cfg inp in
  if Nat.eqb (c_n c) 0 && negb (is_nil (c_ops c)) && negb (is_nil (c_keys c)) then L [A (-1)]
  else let tb := i_tab c in L (run_ops c tb (klm_empty nat (c_n c) (c_h0 c)) (c_ops c)).

(** ---- monitor: the property on implementation observations ----
    It uses the history, the block window and the specification-level notions
    [older]/[valid]/[amap_*] only, never [get]/[put]. *)
Definition dec_res (e : sx) : option loc :=
  if Z.eqb (sx_Z (sx_nth e 0)) 1
  then Some {| blk := sx_N (sx_nth e 1); off := sx_N (sx_nth e 2); size := sx_N (sx_nth e 3) |}
  else None.
Definition oloc_eqb (a b : option loc) : bool :=
  match a, b with
  | Some x, Some y => loc_eqb x y
  | None, None => true
  | _, _ => false
  end.

Record mst := { m_lo : N; m_hi : N; m_hist : list (nat * loc);   (* puts so far (key index, loc) *)
                m_prev : list (option loc); m_disc : nat;        (* discards reported so far *)
                m_amap : amap nat }.

Definition stored (h : list (nat * loc)) (ki : nat) (l : loc) : bool :=
  existsb (fun '(k, l') => Nat.eqb k ki && loc_eqb l l') h.

Definition newest_of (p : option loc) (l : loc) : loc :=
  match p with Some l0 => if older l0 l then l else l0 | None => l end.

(** keys given as indices may denote equal byte strings: compare the keys. *)
Definition same_key (c : cfg06) (i j : nat) : bool := bkey_eqb (key_at c i) (key_at c j).

Definition mon_step (c : cfg06) (st : mst) (o : sx) (ob : sx) : mst * list Z :=
  let m := sx_nth ob 0 in
  let res := map dec_res (sx_list (sx_nth ob 1)) in
  let nk := length (c_keys c) in
  let idx := seq 0 nk in
  let prev := m_prev st in
  let kind := sx_Z (sx_nth o 0) in
  let ki := sx_nat (sx_nth o 1) in
  let l := dec_loc o in
  let isput := Z.eqb kind 0 in
  let lo' := if Z.eqb kind 2 then N.succ (m_lo st) else m_lo st in
  let hi' := if Z.eqb kind 3 then N.succ (m_hi st) else m_hi st in
  (* the history identifies keys by content: record the put under every index with equal bytes *)
  let hist' := if isput then map (fun j => (j, l)) (filter (same_key c ki) idx) ++ m_hist st else m_hist st in
  let ndisc := if isput then Z.to_nat (sx_Z (sx_nth m 6) + sx_Z (sx_nth m 8)) else O in
  let am' := if isput then amap_put nat (same_key c) (m_amap st) ki l else m_amap st in
  let get_now i := nth i res None in
  let get_prev i := nth i prev None in
  (* 1 soundness: a returned location was stored for exactly that key and is in an unreleased block *)
  let c1 := negb (forallb (fun i => match get_now i with
                                    | Some x => stored hist' i x && valid lo' hi' x
                                    | None => true end) idx) in
  (* 2 frame: other keys unchanged, except at most one per reported discard *)
  let others := filter (fun i => negb (isput && same_key c ki i)) idx in
  let changed := filter (fun i => negb (oloc_eqb (get_now i) (get_prev i))) others in
  (* keys with equal bytes are one key: count distinct keys among the changed *)
  let changed_distinct :=
    filter (fun i => negb (existsb (fun j => Nat.ltb j i && same_key c i j) changed)) changed in
  let c2 := if isput then Nat.ltb ndisc (length changed_distinct)
            else if Z.eqb kind 2 then false else negb (is_nil changed) in
  (* 3 a victim falls back to an older valid location or to nothing *)
  let c3 := isput && negb (forallb (fun i => match get_prev i, get_now i with
                                             | Some p, Some x => older x p
                                             | None, Some _ => false
                                             | _, None => true end) changed) in
  (* 4 a discarded entry is never newer than the entry being stored *)
  let c4 := isput && negb (forallb (fun i => match get_prev i with
                                             | Some p => negb (older l p)
                                             | None => true end) changed) in
  (* 5 the key stored: newest of (previous, new); with a reported discard it may itself be the victim *)
  let c5 := isput && negb (forallb (fun i =>
                 if same_key c ki i then
                   oloc_eqb (get_now i) (Some (newest_of (get_prev i) l))
                   || (Nat.ltb 0 ndisc && oloc_eqb (get_now i) (get_prev i))
                 else true) idx) in
  (* 6 release removes exactly the entries pointing into released blocks *)
  let c6 := Z.eqb kind 2 && negb (forallb (fun i =>
                 oloc_eqb (get_now i)
                          (match get_prev i with
                           | Some p => if valid lo' hi' p then Some p else None
                           | None => None end)) idx) in
  (* 7 without any reported discard the index is the map key -> newest valid stored location *)
  let disc' := (m_disc st + ndisc)%nat in
  let c7 := Nat.eqb disc' 0 && negb (forallb (fun i => oloc_eqb (get_now i) (amap_get nat lo' hi' am' i)) idx) in
  let fl (b : bool) (z : Z) := if b then [z] else [] in
  ({| m_lo := lo'; m_hi := hi'; m_hist := hist'; m_prev := res; m_disc := disc'; m_amap := am' |},
   fl c1 1 ++ fl c2 2 ++ fl c3 3 ++ fl c4 4 ++ fl c5 5 ++ fl c6 6 ++ fl c7 7).

Fixpoint mon_ops (c : cfg06) (st : mst) (ops obs : list sx) : list Z :=
  match ops, obs with
  | o :: ops', ob :: obs' => let '(st', v) := mon_step c st o ob in v ++ mon_ops c st' ops' obs'
  | _, _ => []
  end.

Fixpoint dedupZ (l : list Z) : list Z :=
  match l with
  | [] => []
  | x :: t => if existsb (Z.eqb x) t then dedupZ t else x :: dedupZ t
  end.

Definition mon06_hist (inp obs : sx) : list Z :=
  let c := dec_cfg inp in
  if sx_eqb obs (L [A (-1)]) then []   (* a panic is judged by agreement with the model *)
  else
  dedupZ (mon_ops c {| m_lo := 0; m_hi := c_h0 c; m_hist := [];
                       m_prev := map (fun _ => None) (c_keys c); m_disc := O;
                       m_amap := amap_empty nat |}
                  (c_ops c) (sx_list obs)).

(** ---- record codec cases ---- *)
Definition run06_codec (inp : sx) : sx := codec_case inp.
Definition mon06_codec (inp obs : sx) : list Z := codec_mon inp obs.

Definition run06 (inp : sx) : sx :=
  if Z.eqb (sx_Z (sx_nth inp 0)) 0 then run06_hist inp else run06_codec inp.
Definition mon06 (inp obs : sx) : list Z :=
  if Z.eqb (sx_Z (sx_nth inp 0)) 0 then mon06_hist inp obs else mon06_codec inp obs.
Definition judge06 : sx -> sx -> sx := judge_det run06 mon06.
