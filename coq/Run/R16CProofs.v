(** C16C: the monitor of the clone sub-check is silent on the clone model.
    Everything is derived from C16's [mon16_silent_on_model_fuel] (the monitor
    of the single consumer is silent on [run16]): a handle's view differs from
    the single consumer's observation only in the offset and the bytes, which
    are the single consumer's bytes from that offset. *)
From Coq Require Import List ZArith NArith Bool Lia.
From BBS Require Import Common.Sx Buffer.Source Buffer.Validate Buffer.Convert Buffer.ErrHandler
  Buffer.StreamProofs Buffer.ErrHandlerProofs Buffer.C09FullMonitor Buffer.EHFullMon3 Buffer.EHFullMonS Buffer.EHFuelMon
  Run.R09 Run.R16 Run.R16C.
Import ListNotations.
Open Scope Z_scope.

Lemma dec_case16_set_meth inner m :
  dec_case16 (set_meth inner m) =
  let c := dec_case16 inner in
  mkCase16 (q_report c) (q_cfg c) (q_b0 c) (q_anss c) (dec_meth m) (q_tbl c).
Proof. reflexivity. Qed.

Lemma prefix_true : forall a b, bytes_prefix a b = true -> exists rest, b = a ++ rest.
Proof.
  induction a as [|x a IH]; intros b Hp; [exists b; reflexivity|].
  destruct b as [|y b]; [discriminate|]. cbn in Hp. apply andb_true_iff in Hp. destruct Hp as (Hx & Hp).
  apply N.eqb_eq in Hx. subst y. destruct (IH _ Hp) as (rest & ->). exists rest. reflexivity.
Qed.

Lemma prefix_dropN k D st : bytes_prefix D st = true -> bytes_prefix (dropN k D) (dropN k st) = true.
Proof.
  intros Hp. destruct (prefix_true _ _ Hp) as (rest & ->).
  destruct (N.le_gt_cases k (lenN D)) as [Hk|Hk].
  - rewrite dropN_app by exact Hk. apply bytes_prefix_app.
  - rewrite (dropN_all k D) by lia. reflexivity.
Qed.

(** the bytes a handle shows: the single consumer's bytes from the handle's
    offset, or nothing (a failed ToByteSlice) when the stream did not complete *)
Definition shows (off : Z) (D : bytes) (E : Z) (D' : bytes) : Prop :=
  D' = dropN (Z.to_N off) D \/ (D' = [] /\ E <> -1).

(** The transfer: C16's monitor silent on the single consumer's observation
    => silent on every handle's view of it. *)
Lemma mon16_view inner c0 D E x cbs onerrs dones y closes off c D' :
  mon16 (set_meth inner (L [A 3; A 0; A c0; A 0])) (L [of_Ns D; A E; x; cbs; onerrs; dones; y; closes]) = [] ->
  0 <= off -> shows off D E D' ->
  mon16 (set_meth inner (L [A 3; A off; A c; A 0])) (L [of_Ns D'; A E; L []; cbs; onerrs; dones; L []; closes]) = [].
Proof.
  intros H Hoff Hsh. unfold shows in Hsh. unfold mon16 in *. rewrite dec_case16_set_meth in *.
  cbv zeta in *. cbn [q_report q_cfg q_b0 q_anss q_meth q_tbl dec_meth] in *.
  destruct (piece_of (q_b0 (dec_case16 inner)) 0) as [p0 t0].
  destruct (stitch_stack p0 t0 (q_anss (dec_case16 inner))) as [[st term] offss].
  unfold obs_dones, obs_closes, obs_offered in *.
  cbn [sx_nth sx_list nth is_discard completes expected m_off sx_Z] in *.
  rewrite !dec_bytes_of_Ns in *.
  apply app_eq_nil in H. destruct H as (H1 & H). apply app_eq_nil in H. destruct H as (H8 & H).
  apply app_eq_nil in H. destruct H as (H9 & H). apply app_eq_nil in H. destruct H as (H10 & H).
  apply app_eq_nil in H. destruct H as (H2 & H). apply app_eq_nil in H. destruct H as (H3 & H).
  apply app_eq_nil in H. destruct H as (H4 & H). apply app_eq_nil in H. destruct H as (H7 & H5).
  rewrite H1, H8, H9, H10, H2, H4. cbn [app].
  change (Z.to_N 0) with 0%N in *. rewrite dropN_0 in *.
  set (k := Z.to_N off) in *.
  remember (all_bytes_trusted
              (fun d : bytes => ((lenN d =? g_size (q_cfg (dec_case16 inner)))%N
                 && bytes_eqb (g_hash (q_cfg (dec_case16 inner))) (lookup (q_tbl (dec_case16 inner)) d))%bool)
              (q_b0 (dec_case16 inner)) (q_anss (dec_case16 inner))) as trusted eqn:Ht.
  destruct trusted.
  2:{ rewrite !andb_false_r. cbn [andb app]. reflexivity. }
  rewrite !andb_true_r in *. cbn [andb] in *.
  assert (Hpre : bytes_prefix D st = true).
  { destruct (bytes_prefix D st); [reflexivity|discriminate H7]. }
  assert (Hpre' : bytes_prefix D' (dropN k st) = true).
  { destruct Hsh as [->|(-> & _)]; [apply prefix_dropN; exact Hpre|reflexivity]. }
  rewrite Hpre'. cbn [negb app].
  remember (err_eqb term EEof
            && ((lenN st =? g_size (q_cfg (dec_case16 inner)))%N
                && bytes_eqb (g_hash (q_cfg (dec_case16 inner))) (lookup (q_tbl (dec_case16 inner)) st)))%bool
    as stv eqn:Hstv.
  destruct (E =? -1) eqn:HE.
  - (* the stream completed *)
    destruct Hsh as [->|(_ & Hne)]; [|apply Z.eqb_eq in HE; contradiction].
    destruct stv.
    + cbn [andb negb] in *.
      destruct (bytes_eqb D st) eqn:Heq; [|discriminate H3].
      apply bytes_eqb_eq in Heq. subst D. rewrite bytes_eqb_refl. reflexivity.
    + cbn [andb negb] in H3. discriminate H3.
  - cbn [andb app].
    destruct stv; [reflexivity|]. cbn [negb andb] in *.
    destruct (is_nil D') eqn:Hn; [reflexivity|]. cbn [negb andb].
    destruct Hsh as [->|(-> & _)]; [|discriminate Hn].
    destruct D as [|d0 D0]; [destruct k; discriminate Hn|].
    cbn [is_nil negb andb] in H5.
    destruct (0 + Z.of_N (lenN (d0 :: D0)) <? Z.of_N (g_size (q_cfg (dec_case16 inner)))) eqn:Hlt; [|discriminate H5].
    apply Z.ltb_lt in Hlt.
    assert (Hk : (k < lenN (d0 :: D0))%N).
    { destruct (N.lt_ge_cases k (lenN (d0 :: D0))) as [Hk|Hk]; [exact Hk|].
      rewrite (dropN_all k (d0 :: D0)) in Hn by exact Hk. discriminate Hn. }
    rewrite lenN_dropN.
    assert (Hlt' : off + Z.of_N (lenN (d0 :: D0) - k) <? Z.of_N (g_size (q_cfg (dec_case16 inner))) = true).
    { apply Z.ltb_lt. subst k. rewrite N2Z.inj_sub by lia. rewrite Z2N.id by exact Hoff. lia. }
    rewrite Hlt'. reflexivity.
Qed.

(** the same for the Discard view: only clauses 1, 8, 9, 10, which do not
    look at the consumer's result *)
Lemma mon16_discard_view inner D E x cbs onerrs dones y closes :
  mon16 (set_meth inner (L [A 6])) (L [D; E; x; cbs; onerrs; dones; y; closes]) = [] ->
  mon16 (set_meth inner (L [A 6])) (L [L []; A 0; L []; cbs; onerrs; dones; L []; closes]) = [].
Proof. intros H. exact H. Qed.

(** * The clone model under the monitor *)

(** the handles of the harness: the five methods, offsets inside the object *)
Definition handle_ok (m : meth) : bool :=
  match m with
  | MReadAt _ _ | MCloneCopy _ => false
  | MToChunkReader off _ _ => 0 <=? off
  | _ => true
  end.

(** the domain: C16's domain for the single consumer; well-formed handles;
    the single consumer's stream does not end with "no error" (it ends with
    io.EOF or an error; C16's domain asks the same of error codes) *)
Definition dom16C (inp : sx) : Prop :=
  dom16F (base_inp inp) /\
  forallb handle_ok (hmeths inp) = true /\
  (forallb is_discard (hmeths inp) = false -> sx_Z (sx_nth (run16 (base_inp inp)) 1) <> 0).

Lemma handle_view m D E :
  handle_ok m = true -> is_discard m = false -> E <> 0 ->
  exists D' c,
    res_bytes (handle_res m D E) = of_Ns D' /\
    view_code m (res_code (handle_res m D E)) = E /\
    view_meth m = L [A 3; A (m_off m); A c; A 0] /\
    0 <= m_off m /\
    shows (m_off m) D E D' /\
    (hidden m (res_code (handle_res m D E)) = true \/ D' = dropN (Z.to_N (m_off m)) D).
Proof.
  intros Hok Hnd HE. unfold shows.
  destruct m as [max| |plen off|off c k|caps k|max|]; try discriminate Hok; try discriminate Hnd;
    cbn [handle_res view_meth m_off hidden view_code].
  - (* ToByteSlice *)
    destruct (E =? -1) eqn:H1.
    + apply Z.eqb_eq in H1. subst E. exists D, 1. cbn. rewrite dropN_0. repeat split; auto; lia.
    + apply Z.eqb_neq in H1. exists [], 1. unfold res_code, res_bytes. cbn [sx_nth sx_list nth sx_Z].
      destruct (E =? 0) eqn:H0; [apply Z.eqb_eq in H0; contradiction|].
      cbn [negb]. repeat split; auto; lia.
  - (* IntoWriter *)
    exists D, 1. unfold res_code, res_bytes. cbn [sx_nth sx_list nth sx_Z].
    change (Z.to_N 0) with 0%N. rewrite dropN_0.
    destruct (E =? -1) eqn:H1.
    + apply Z.eqb_eq in H1. subst E. cbn. repeat split; auto; lia.
    + destruct (E =? 0) eqn:H0; [apply Z.eqb_eq in H0; contradiction|]. repeat split; auto; lia.
  - (* ToChunkReader *)
    cbn [handle_ok] in Hok. apply Z.leb_le in Hok.
    exists (dropN (Z.to_N off) D), (Z.of_N c). unfold res_code, res_bytes. cbn [sx_nth sx_list nth sx_Z].
    repeat split; auto.
  - (* ToReader *)
    exists D, 1. unfold res_code, res_bytes. cbn [sx_nth sx_list nth sx_Z].
    change (Z.to_N 0) with 0%N. rewrite dropN_0. repeat split; auto; lia.
Qed.

Lemma discard_handle inner obs m D E :
  is_discard m = true -> mon_handle inner obs m (handle_res m D E) = [].
Proof. destruct m; try discriminate. reflexivity. Qed.

Lemma mon_handles_model inner obs D E : forall ms,
  (forall m, In m ms -> mon_handle inner obs m (handle_res m D E) = []) ->
  mon_handles inner obs ms (map (fun m => handle_res m D E) ms) = [].
Proof.
  induction ms as [|m ms IH]; intros H; [reflexivity|].
  cbn [map mon_handles]. rewrite (H m (or_introl eq_refl)). cbn [app]. apply IH.
  intros m' Hin. apply H. right. exact Hin.
Qed.

Section Agreement.
  Variables (D : bytes) (E : Z).
  Hypothesis HE : E <> 0.
  Let hr := fun m => handle_res m D E.

  Lemma first_code_model : forall ms, forallb handle_ok ms = true ->
    first_code ms (map hr ms) = None \/ first_code ms (map hr ms) = Some E.
  Proof.
    induction ms as [|m ms IH]; intros Hok; [left; reflexivity|].
    cbn [forallb] in Hok. apply andb_true_iff in Hok. destruct Hok as (Hm & Hok).
    cbn [map first_code]. destruct (is_discard m) eqn:Hd; [exact (IH Hok)|].
    right. destruct (handle_view m D E Hm Hd HE) as (D' & c & _ & Hc & _). unfold hr. rewrite Hc. reflexivity.
  Qed.

  Lemma reference_model : forall ms, forallb handle_ok ms = true ->
    reference ms (map hr ms) = None \/ reference ms (map hr ms) = Some D.
  Proof.
    induction ms as [|m ms IH]; intros Hok; [left; reflexivity|].
    cbn [forallb] in Hok. apply andb_true_iff in Hok. destruct Hok as (Hm & Hok).
    cbn [map reference]. destruct (is_discard m) eqn:Hd; cbn [negb andb]; [exact (IH Hok)|].
    destruct (m_off0 m) eqn:H0; cbn [andb]; [|exact (IH Hok)].
    destruct (handle_view m D E Hm Hd HE) as (D' & c & Hb & _ & _ & _ & _ & Hh). unfold hr.
    destruct (hidden m (res_code (handle_res m D E))) eqn:Hhid; cbn [negb]; [exact (IH Hok)|].
    right. destruct Hh as [Hh|Hh]; [discriminate Hh|]. rewrite Hb, dec_bytes_of_Ns, Hh.
    assert (Hz : m_off m = 0).
    { destruct m; try reflexivity; try discriminate Hm. cbn in H0. apply Z.eqb_eq in H0. exact H0. }
    rewrite Hz. change (Z.to_N 0) with 0%N. rewrite dropN_0. reflexivity.
  Qed.

  Lemma agree_model ref : ref = None \/ ref = Some D -> forall ms, forallb handle_ok ms = true ->
    agree_handles E ref ms (map hr ms) = true.
  Proof.
    intros Href. induction ms as [|m ms IH]; intros Hok; [reflexivity|].
    cbn [forallb] in Hok. apply andb_true_iff in Hok. destruct Hok as (Hm & Hok).
    cbn [map agree_handles]. rewrite (IH Hok), andb_true_r.
    destruct (is_discard m) eqn:Hd; [reflexivity|]. cbn [orb].
    destruct (handle_view m D E Hm Hd HE) as (D' & c & Hb & Hc & _ & _ & _ & Hh). unfold hr.
    rewrite Hc, Z.eqb_refl. cbn [andb].
    destruct Href as [->| ->]; [reflexivity|].
    destruct Hh as [Hh|Hh]; [rewrite Hh; reflexivity|].
    rewrite Hb, dec_bytes_of_Ns, Hh, bytes_eqb_refl. apply orb_true_r.
  Qed.

  Lemma clause11_model ms : forallb handle_ok ms = true -> clause11 ms (map hr ms) = true.
  Proof.
    intros Hok. unfold clause11.
    destruct (first_code_model ms Hok) as [-> | ->]; [reflexivity|].
    apply agree_model; [apply reference_model|]; exact Hok.
  Qed.
End Agreement.

Lemma clause11_all_discarded D E : forall ms, forallb is_discard ms = true ->
  clause11 ms (map (fun m => handle_res m D E) ms) = true.
Proof.
  intros ms H. unfold clause11.
  assert (Hf : first_code ms (map (fun m => handle_res m D E) ms) = None).
  { induction ms as [|m ms IH]; [reflexivity|]. cbn [forallb] in H. apply andb_true_iff in H. destruct H as (Hm & H).
    cbn [map first_code]. rewrite Hm. exact (IH H). }
  rewrite Hf. reflexivity.
Qed.

Theorem mon16C_raw_silent_on_model inp : dom16C inp -> mon16C_raw inp (run16C inp) = [].
Proof.
  intros (Hdom & Hok & HE).
  pose proof (mon16_silent_on_model_fuel _ Hdom) as Hmon.
  unfold mon16C_raw, run16C. rewrite run16_out16 in *.
  set (o := out16 (base_inp inp)) in *. set (rep := q_report (dec_case16 (base_inp inp))) in *.
  unfold enc_out16s in *. unfold clone_obs. cbn [sx_nth sx_list nth] in *. rewrite dec_bytes_of_Ns.
  unfold enc_err in *. cbn [sx_Z] in *.
  set (E := match y_err o with ENone => 0 | EEof => -1 | EUnexp => -2 | EFuel => -3 | ECode c => c end) in *.
  set (D := y_data o) in *.
  unfold base_inp in Hmon.
  destruct (forallb is_discard (hmeths inp)) eqn:Hall.
  - (* every handle discarded *)
    unfold base_meth in Hmon. rewrite Hall in Hmon.
    unfold view_obs. cbn [sx_nth sx_list nth].
    rewrite (mon16_discard_view _ _ _ _ _ _ _ _ _ Hmon). cbn [app].
    rewrite mon_handles_model.
    + rewrite clause11_all_discarded by exact Hall. reflexivity.
    + intros m Hin. apply discard_handle. rewrite forallb_forall in Hall. exact (Hall m Hin).
  - unfold base_meth in Hmon. rewrite Hall in Hmon. specialize (HE eq_refl).
    cbn [app]. rewrite mon_handles_model.
    + rewrite clause11_model by assumption. reflexivity.
    + intros m Hin. destruct (is_discard m) eqn:Hd; [apply discard_handle; exact Hd|].
      rewrite forallb_forall in Hok. pose proof (Hok m Hin) as Hm.
      destruct (handle_view m D E Hm Hd HE) as (D' & c & Hb & Hc & Hv & Hoff & Hsh & _).
      unfold mon_handle. rewrite Hd, Hb, Hc, Hv. unfold view_obs. cbn [sx_nth sx_list nth].
      exact (mon16_view _ _ _ _ _ _ _ _ _ _ _ c _ Hmon Hoff Hsh).
Qed.

Theorem mon16C_silent_on_model inp : dom16C inp -> mon16C inp (run16C inp) = [].
Proof. intros H. unfold mon16C. rewrite (mon16C_raw_silent_on_model inp H). reflexivity. Qed.
