(** C17 / C17L: the log clauses do not depend on the order in which the log
    lines of different callers are written between two quiescent points.

    The model emits the events of one atomic step contiguously ([tlog]); the
    harness's goroutines write their own lines, so when one caller's
    lock-protected section wakes another, the lines the two write next may
    appear in either order.  Start events are written by the scheduler at
    quiescent points, so no line moves across a start event, and every
    caller's own lines keep their order.  [same_run lg lg'] captures exactly
    that (same per-caller subsequences; start events at the same positions
    with the same per-caller counts before them); it is reflexive, transitive
    and contains every swap of two adjacent non-start lines of different
    callers.  Clauses 24, 25 and 27 are invariant under it. *)
From Coq Require Import List ZArith NArith Bool Arith Lia.
From BBS Require Import Common.Sx Common.ListX Run.MonSilentSx Compose.ExistenceCache Compose.Replicators
  Compose.ReplEntry Compose.EventLog Run.R17Conc Run.R17L Run.R17LogBase Run.R17LogEntry.
Import ListNotations.
Local Open Scope nat_scope.

Definition byc (j : nat) (x : sx) : bool := Nat.eqb (lg_caller x) j.
Definition proj (j : nat) (lg : list sx) : list sx := filter (byc j) lg.
Definition cnt (j n : nat) (lg : list sx) : nat := length (proj j (firstn n lg)).
Lemma byc_self e : byc (lg_caller e) e = true.
Proof. unfold byc. apply Nat.eqb_refl. Qed.

Definition is_start_ev (x : sx) : bool := Z.eqb (lg_kind x) 0.

Record same_run (lg lg' : list sx) : Prop := mk_same_run {
  sr_proj : forall j, proj j lg' = proj j lg;
  sr_fwd : forall p x, nth_error lg p = Some x -> is_start_ev x = true ->
             nth_error lg' p = Some x /\ forall j, cnt j p lg' = cnt j p lg;
  sr_bwd : forall p x, nth_error lg' p = Some x -> is_start_ev x = true -> nth_error lg p = Some x }.

Lemma same_run_refl lg : same_run lg lg.
Proof. constructor; auto. Qed.

Lemma same_run_trans a b c : same_run a b -> same_run b c -> same_run a c.
Proof.
  intros [P1 F1 B1] [P2 F2 B2]. constructor.
  - intros j. rewrite P2. apply P1.
  - intros p x Hx Hs. destruct (F1 p x Hx Hs) as [H1 C1]. destruct (F2 p x H1 Hs) as [H2 C2].
    split; [exact H2|]. intros j. rewrite C2. apply C1.
  - intros p x Hx Hs. apply B1; [|exact Hs]. apply B2; assumption.
Qed.

Lemma same_run_in lg lg' x : same_run lg lg' -> (In x lg' <-> In x lg).
Proof.
  intros [P _ _]. specialize (P (lg_caller x)). unfold proj in P.
  assert (E : forall l, In x l <-> In x (filter (byc (lg_caller x)) l)).
  { intros l. rewrite filter_In, byc_self. tauto. }
  rewrite (E lg'), (E lg), P. tauto.
Qed.

(** * [justified_after] in terms of per-caller subsequences and counts *)
Lemma iw_firstn p l : forall n k,
  filter p (firstn k l) = [] <-> match index_where p l n with Some nx => n + k <= nx | None => True end.
Proof.
  induction l as [|x r IH]; intros n k.
  - rewrite firstn_nil. cbn. tauto.
  - destruct k as [|k']; cbn [firstn filter index_where].
    + destruct (p x); [split; [lia|reflexivity]|].
      destruct (index_where p r (S n)) as [nx|] eqn:E; [|tauto]. apply iw_range in E. split; [lia|reflexivity].
    + destruct (p x).
      * split; [discriminate|lia].
      * rewrite (IH (S n) k'). destruct (index_where p r (S n)); [|tauto]. split; lia.
Qed.

Lemma ja_decomp d st lg : forall pos, justified_after d st lg pos = true <->
  exists l1 e l2, lg = l1 ++ e :: l2 /\ justifies d e = true /\
    match index_where (byc (lg_caller e)) l2 (S (pos + length l1)) with Some nx => st < nx | None => True end.
Proof.
  induction lg as [|x r IH]; intros pos; cbn [justified_after].
  - split; [discriminate|]. intros (l1 & e & l2 & E & _). destruct l1; discriminate.
  - rewrite orb_true_iff, andb_true_iff, IH. split.
    + intros [[Hj Hn]|(l1 & e & l2 & -> & Hj & Hn)].
      * exists [], x, r. split; [reflexivity|]. split; [exact Hj|]. cbn [length]. rewrite Nat.add_0_r.
        change (fun e' : sx => Nat.eqb (lg_caller e') (lg_caller x)) with (byc (lg_caller x)) in Hn.
        destruct (index_where (byc (lg_caller x)) r (S pos)); [apply Nat.ltb_lt; exact Hn|exact Logic.I].
      * exists (x :: l1), e, l2. split; [reflexivity|]. split; [exact Hj|]. cbn [length].
        replace (S (pos + S (length l1))) with (S (S pos + length l1)) by lia. exact Hn.
    + intros (l1 & e & l2 & E & Hj & Hn). destruct l1 as [|y l1]; cbn [app] in E; inversion E; subst.
      * left. split; [exact Hj|]. cbn [length] in Hn. rewrite Nat.add_0_r in Hn.
        change (fun e' : sx => Nat.eqb (lg_caller e') (lg_caller e)) with (byc (lg_caller e)).
        destruct (index_where (byc (lg_caller e)) l2 (S pos)); [apply Nat.ltb_lt; exact Hn|reflexivity].
      * right. exists l1, e, l2. split; [reflexivity|]. split; [exact Hj|]. cbn [length] in Hn.
        replace (S (S pos + length l1)) with (S (pos + S (length l1))) by lia. exact Hn.
Qed.

Lemma proj_app j a b : proj j (a ++ b) = proj j a ++ proj j b.
Proof. apply filter_app. Qed.

Lemma J_counts d st lg : J d st lg <->
  exists j m e, nth_error (proj j lg) m = Some e /\ justifies d e = true /\ lg_caller e = j /\ cnt j (S st) lg <= S m.
Proof.
  unfold J. rewrite ja_decomp. split.
  - intros (l1 & e & l2 & -> & Hj & Hn). exists (lg_caller e), (length (proj (lg_caller e) l1)), e.
    split; [|split; [exact Hj|split; [reflexivity|]]].
    + rewrite proj_app. rewrite nth_error_app2, Nat.sub_diag by lia. cbn [proj filter]. rewrite byc_self. reflexivity.
    + unfold cnt. cbn [Nat.add] in Hn. destruct (Nat.le_gt_cases (S st) (length l1)) as [Hle|Hgt].
      * rewrite firstn_app. replace (S st - length l1) with 0 by lia. change (firstn 0 (e :: l2)) with (@nil sx). rewrite app_nil_r.
        assert (X : length (proj (lg_caller e) (firstn (S st) l1)) <= length (proj (lg_caller e) l1)).
        { rewrite <- (firstn_skipn (S st) l1) at 2. rewrite proj_app, app_length. lia. }
        lia.
      * rewrite firstn_app, (firstn_all2 (n := S st) l1) by lia.
        replace (S st - length l1) with (S (st - length l1)) by lia. cbn [firstn].
        rewrite proj_app, app_length. cbn [proj filter]. rewrite byc_self. cbn [length].
        assert (Z : proj (lg_caller e) (firstn (st - length l1) l2) = []).
        { apply (iw_firstn _ l2 (S (length l1))). destruct (index_where _ l2 _); [lia|exact Logic.I]. }
        unfold proj in Z. rewrite Z. cbn. lia.
  - intros (j & m & e & Hm & Hj & Hc & Hcnt). subst j.
    (* locate e in lg *)
    assert (D : forall lg0 m0, nth_error (proj (lg_caller e) lg0) m0 = Some e ->
                exists l1 l2, lg0 = l1 ++ e :: l2 /\ length (proj (lg_caller e) l1) = m0).
    { induction lg0 as [|x r IH]; intros m0 H; [destruct m0; discriminate|]. cbn [proj filter] in H.
      destruct (byc (lg_caller e) x) eqn:Bx.
      - destruct m0 as [|m0]; cbn [nth_error] in H.
        + inversion H; subst. exists [], r. auto.
        + destruct (IH m0 H) as (l1 & l2 & -> & L). exists (x :: l1), l2. split; [reflexivity|].
          cbn [proj filter]. rewrite Bx. cbn [length]. unfold proj in L. lia.
      - destruct (IH m0 H) as (l1 & l2 & -> & L). exists (x :: l1), l2. split; [reflexivity|].
        cbn [proj filter]. rewrite Bx. exact L. }
    destruct (D lg m Hm) as (l1 & l2 & -> & Lm). exists l1, e, l2. split; [reflexivity|]. split; [exact Hj|].
    cbn [Nat.add]. destruct (index_where (byc (lg_caller e)) l2 (S (length l1))) as [nx|] eqn:E; [|exact Logic.I].
    destruct (Nat.le_gt_cases (S st) (length l1)) as [Hle|Hgt]; [apply iw_range in E; lia|].
    unfold cnt in Hcnt. rewrite firstn_app, (firstn_all2 (n := S st) l1) in Hcnt by lia.
    replace (S st - length l1) with (S (st - length l1)) in Hcnt by lia. cbn [firstn] in Hcnt.
    rewrite proj_app, app_length in Hcnt. cbn [proj filter] in Hcnt. rewrite byc_self in Hcnt. cbn [length] in Hcnt.
    assert (Z : filter (byc (lg_caller e)) (firstn (st - length l1) l2) = []).
    { destruct (filter (byc (lg_caller e)) (firstn (st - length l1) l2)); [reflexivity|]. exfalso. cbn [length] in Hcnt. unfold proj in Lm, Hcnt. lia. }
    apply (iw_firstn _ l2 (S (length l1))) in Z. rewrite E in Z. lia.
Qed.

Lemma cnt_S j lg st x : nth_error lg st = Some x -> cnt j (S st) lg = cnt j st lg + (if byc j x then 1 else 0).
Proof.
  intros H. unfold cnt.
  assert (E : firstn (S st) lg = firstn st lg ++ [x]).
  { revert st H. induction lg as [|y r IH]; intros [|st] H; cbn in H; try discriminate.
    - inversion H; subst. reflexivity.
    - cbn [firstn app]. rewrite <- (IH st H). reflexivity. }
  rewrite E, proj_app, app_length. cbn [proj filter]. destruct (byc j x); reflexivity.
Qed.

(** Justification at a start position is the same in both logs. *)
Lemma J_same_run lg lg' d st x : same_run lg lg' -> nth_error lg st = Some x -> is_start_ev x = true ->
  J d st lg -> J d st lg'.
Proof.
  intros [P F B] Hx Hs. rewrite !J_counts. intros (j & m & e & Hm & Hj & Hc & Hcnt).
  exists j, m, e. rewrite P. split; [exact Hm|]. split; [exact Hj|]. split; [exact Hc|].
  destruct (F st x Hx Hs) as [Hx' C]. rewrite (cnt_S j lg' st x Hx'), C, <- (cnt_S j lg st x Hx). exact Hcnt.
Qed.

(** * Where a caller started *)
Lemma iw_le p l : forall n st q x, index_where p l n = Some st -> nth_error l q = Some x -> p x = true -> st <= n + q.
Proof.
  induction l as [|y r IH]; intros n st q x H Hq Px; [discriminate|]. cbn [index_where] in H.
  destruct (p y) eqn:Py; [inversion H; lia|]. destruct q as [|q]; cbn [nth_error] in Hq.
  - inversion Hq; subst. congruence.
  - specialize (IH (S n) st q x H Hq Px). lia.
Qed.

Lemma iw_found p l : forall n x, In x l -> p x = true -> exists st, index_where p l n = Some st.
Proof.
  induction l as [|y r IH]; intros n x Hin Px; [destruct Hin|]. cbn [index_where].
  destruct (p y) eqn:Py; [eexists; reflexivity|]. destruct Hin as [->|Hin]; [congruence|]. eapply IH; eassumption.
Qed.

Lemma iw_at p l st : index_where p l 0 = Some st -> exists x, nth_error l st = Some x /\ p x = true.
Proof.
  intros H. pose proof (iw_range _ _ _ _ H) as R. pose proof (iw_nth _ _ _ _ H) as N. rewrite Nat.sub_0_r in N.
  exists (nth st l (L [])). split; [apply nth_error_nth'; lia|exact N].
Qed.

Lemma is_start_is_start_ev i x : is_start i x = true -> is_start_ev x = true.
Proof. unfold is_start, is_start_ev. intros H. apply andb_prop in H. apply H. Qed.

Lemma started_same_run lg lg' i st : same_run lg lg' -> started_at i lg' st ->
  started_at i lg st /\ exists x, nth_error lg st = Some x /\ is_start_ev x = true /\ nth_error lg' st = Some x.
Proof.
  intros S H. pose proof S as [P F B]. unfold started_at in *.
  destruct (iw_at _ _ _ H) as (x & Hx & Px). pose proof (is_start_is_start_ev _ _ Px) as Sx.
  pose proof (B st x Hx Sx) as Hx0.
  destruct (iw_found (is_start i) lg 0 x (nth_error_In _ _ Hx0) Px) as (st0 & H0).
  pose proof (iw_le _ _ _ _ _ _ H0 Hx0 Px) as Hle. cbn [Nat.add] in Hle.
  destruct (iw_at _ _ _ H0) as (x0 & Hx00 & Px0).
  destruct (F st0 x0 Hx00 (is_start_is_start_ev _ _ Px0)) as [Hx0' _].
  pose proof (iw_le _ _ _ _ _ _ H Hx0' Px0) as Hle'. cbn [Nat.add] in Hle'.
  assert (st0 = st) by lia. subst st0. split; [exact H0|]. exists x. auto.
Qed.

(** * The clauses *)
Theorem clause24_same_run sets lg lg' : same_run lg lg' -> clause24_ok sets lg -> clause24_ok sets lg'.
Proof.
  intros S H i p st Hi Hs Hst.
  destruct (started_same_run lg lg' i st S Hst) as (Hst0 & x & Hx & Sx & _).
  destruct (iw_some_in _ _ _ _ Hs) as (y & Hy & Py). apply (same_run_in lg lg' y S) in Hy.
  destruct (iw_found (is_succ i) lg 0 y Hy Py) as (p0 & Hp0).
  specialize (H i p0 st Hi Hp0 Hst0). rewrite forallb_forall in *. intros d Hd.
  apply (J_same_run lg lg' d st x S Hx Sx). apply H, Hd.
Qed.

Lemma existsb_same {T} (p : T -> bool) l l' : (forall x, In x l' <-> In x l) -> existsb p l' = existsb p l.
Proof.
  intros E. destruct (existsb p l) eqn:A.
  - apply existsb_exists in A. destruct A as (x & Hx & Px). apply existsb_exists. exists x. split; [apply E, Hx|exact Px].
  - destruct (existsb p l') eqn:A'; [|reflexivity]. apply existsb_exists in A'. destruct A' as (x & Hx & Px).
    assert (existsb p l = true) by (apply existsb_exists; exists x; split; [apply E, Hx|exact Px]). congruence.
Qed.

Lemma existsb_ext' {T} (f g : T -> bool) l : (forall x, f x = g x) -> existsb f l = existsb g l.
Proof. intros E. induction l as [|x r IH]; [reflexivity|]. cbn [existsb]. rewrite E, IH. reflexivity. Qed.
Lemma forallb_ext' {T} (f g : T -> bool) l : (forall x, f x = g x) -> forallb f l = forallb g l.
Proof. intros E. induction l as [|x r IH]; [reflexivity|]. cbn [forallb]. rewrite E, IH. reflexivity. Qed.

Lemma copied_within_same d dur t lg lg' : (forall x, In x lg' <-> In x lg) ->
  copied_within d dur t lg' = copied_within d dur t lg.
Proof.
  intros E. unfold copied_within. rewrite (existsb_same _ lg lg' E).
  apply existsb_ext'. intros e. rewrite (existsb_same _ lg lg' E). reflexivity.
Qed.

Theorem clause25_same_run dur sets lg lg' : same_run lg lg' -> clause25_ok dur sets lg -> clause25_ok dur sets lg'.
Proof.
  intros S H i p st Hi Hs Hst.
  destruct (started_same_run lg lg' i st S Hst) as (Hst0 & x & Hx & Sx & Hx').
  destruct (iw_some_in _ _ _ _ Hs) as (y & Hy & Py). apply (same_run_in lg lg' y S) in Hy.
  destruct (iw_found (is_succ i) lg 0 y Hy Py) as (p0 & Hp0).
  specialize (H i p0 st Hi Hp0 Hst0).
  assert (T : tstart_of lg' st = tstart_of lg st).
  { unfold tstart_of. rewrite (nth_error_nth lg' st (L []) Hx'), (nth_error_nth lg st (L []) Hx). reflexivity. }
  rewrite T. erewrite forallb_ext'; [exact H|]. intros d. apply copied_within_same. intros z. apply same_run_in, S.
Qed.

Theorem clause27_same_run kinds lg lg' : same_run lg lg' -> clause27_ok kinds lg -> clause27_ok kinds lg'.
Proof.
  intros S H i d R (x & Hx & Sx). apply (same_run_in lg lg' x S) in Hx.
  destruct (H i d R (ex_intro _ x (conj Hx Sx))) as (y & Hy & Py). exists y. split; [apply (same_run_in lg lg' y S), Hy|exact Py].
Qed.

(** * [same_run] contains the swaps of adjacent lines of different callers *)
Lemma swap_proj j l1 a b l2 : lg_caller a <> lg_caller b -> proj j (l1 ++ b :: a :: l2) = proj j (l1 ++ a :: b :: l2).
Proof.
  intros Hne. rewrite !proj_app. f_equal. cbn [proj filter].
  destruct (byc j b) eqn:Eb; destruct (byc j a) eqn:Ea; try reflexivity.
  unfold byc in Ea, Eb. apply Nat.eqb_eq in Ea, Eb. congruence.
Qed.

Lemma swap_nth l1 a b l2 p x : nth_error (l1 ++ a :: b :: l2) p = Some x -> is_start_ev x = true ->
  is_start_ev a = false -> is_start_ev b = false ->
  nth_error (l1 ++ b :: a :: l2) p = Some x /\ (p < length l1 \/ length l1 + 2 <= p).
Proof.
  intros H Sx Sa Sb. destruct (Nat.lt_ge_cases p (length l1)) as [Hl|Hl].
  - rewrite nth_error_app1 in * by exact Hl. auto.
  - rewrite nth_error_app2 in * by exact Hl. destruct (p - length l1) as [|[|q]] eqn:E; cbn [nth_error] in *.
    + inversion H; subst. congruence.
    + inversion H; subst. congruence.
    + split; [exact H|right; lia].
Qed.

Lemma swap_cnt j l1 a b l2 p : lg_caller a <> lg_caller b -> p < length l1 \/ length l1 + 2 <= p ->
  cnt j p (l1 ++ b :: a :: l2) = cnt j p (l1 ++ a :: b :: l2).
Proof.
  intros Hne [Hl|Hl]; unfold cnt.
  - rewrite !firstn_app. replace (p - length l1) with 0 by lia. reflexivity.
  - rewrite !firstn_app, !(firstn_all2 (n := p) l1) by lia.
    replace (p - length l1) with (S (S (p - length l1 - 2))) by lia. cbn [firstn].
    rewrite (swap_proj j l1 a b _ Hne). reflexivity.
Qed.

Theorem same_run_swap l1 a b l2 : lg_caller a <> lg_caller b -> is_start_ev a = false -> is_start_ev b = false ->
  same_run (l1 ++ a :: b :: l2) (l1 ++ b :: a :: l2).
Proof.
  intros Hne Sa Sb. constructor.
  - intros j. apply swap_proj, Hne.
  - intros p x Hx Sx. destruct (swap_nth l1 a b l2 p x Hx Sx Sa Sb) as [H1 H2]. split; [exact H1|].
    intros j. apply swap_cnt; assumption.
  - intros p x Hx Sx. exact (proj1 (swap_nth l1 b a l2 p x Hx Sx Sb Sa)).
Qed.

(** * For the logs of all traces, however the lines of one round are ordered *)
Theorem clause24_any_write_order sets lg lg' : clause24_ok sets lg -> same_run lg lg' -> clause24_ok sets lg'.
Proof. intros H S. eapply clause24_same_run; eassumption. Qed.
