(** C12 — the run-time monitors [mon12_sel] / [mon12_ba] never fire on what the
    model itself predicts, nor on any observation the judge accepts as
    agreeing with the model (FindMissing failures may name any one of the
    failing shards).

    Selector cases need one hypothesis: every variant the constructor accepts
    has non-zero weights (with a zero weight the code's answer depends on the
    listing order, see [C12.weight0_order_dependent]).  No bound on hashes or
    key hashes is needed: splitmix64 wraps.  Blob-access cases need none. *)
From Coq Require Import List Arith NArith ZArith Bool Lia.
From BBS Require Import Common.Sx Common.ListX Common.SxFactsMA Generated.Consts
     Sharding.Rendezvous Sharding.RendezvousArith Sharding.RendezvousProofs Sharding.MonSilentSel
     Run.R12.
Import ListNotations.
Open Scope Z_scope.

(** ---- small list facts ---- *)
Lemma existsb_all_false {T} (f : T -> bool) l : (forall x, In x l -> f x = false) -> existsb f l = false.
Proof.
  induction l as [|a l IH]; intros H; [reflexivity|]. cbn [existsb].
  rewrite (H a (or_introl eq_refl)), IH; [reflexivity|]. intros x Hx. apply H. right; exact Hx.
Qed.

Lemma in_combine_map {T U} (g : T -> U) l v o : In (v, o) (combine l (map g l)) -> In v l /\ o = g v.
Proof.
  induction l as [|a l IH]; cbn [map combine]; intros H; [destruct H|].
  destruct H as [H|H]; [inversion H; subst; split; [left|]; reflexivity|].
  destruct (IH H) as [H1 H2]. split; [right; exact H1|exact H2].
Qed.

Lemma memb_in x l : memb x l = true <-> In x l.
Proof.
  unfold memb. rewrite existsb_exists. split.
  - intros (y & Hy & He). apply Nat.eqb_eq in He. subst. exact Hy.
  - intros H. exists x. split; [exact H|apply Nat.eqb_refl].
Qed.

Lemma nth_error_map_inv {T U} (f : T -> U) l n y :
  nth_error (map f l) n = Some y -> exists x, nth_error l n = Some x /\ f x = y.
Proof.
  revert n. induction l as [|a l IH]; intros [|n] H; cbn in H; try discriminate.
  - inversion H. exists a. split; reflexivity.
  - apply IH. exact H.
Qed.

(** =================== selector cases =================== *)
Definition variants12 (inp : sx) : list (list nat) := map sx_nats (sx_list (sx_nth inp 2)).

(** every variant accepted by the constructor has weights >= 1 *)
Definition wf12_sel (inp : sx) : Prop :=
  forall v, In v (variants12 inp) ->
            new_selector (pool_cfg (sx_nth inp 1) v) <> None ->
            weights_pos (pool_cfg (sx_nth inp 1) v).

Definition choice12 (sel : list shard) (v : list nat) (h : N) : nat := nth (get_shard sel h) v 0%nat.

Lemma is_reject_choices (f : N -> nat) hashes : is_reject (L (map (fun h => of_nat (f h)) hashes)) = false.
Proof.
  destruct hashes as [|h [|h' t]]; cbn; try reflexivity.
  apply Z.eqb_neq. lia.
Qed.

Lemma sx_nats_choices (f : N -> nat) hashes : sx_nats (L (map (fun h => of_nat (f h)) hashes)) = map f hashes.
Proof.
  change (L (map (fun h => of_nat (f h)) hashes)) with (L (map (fun h => of_nat (f h)) hashes)).
  rewrite <- (map_map f of_nat). apply (sx_nats_of_nats (map f hashes)).
Qed.

Lemma variant_choices_cases pool v hashes :
  (new_selector (pool_cfg pool v) = None /\ variant_choices pool v hashes = L [A (-3)]) \/
  (exists sel, new_selector (pool_cfg pool v) = Some sel /\
               variant_choices pool v hashes = L (map (fun h => of_nat (choice12 sel v h)) hashes)).
Proof.
  unfold variant_choices. destruct (new_selector (pool_cfg pool v)) as [sel|].
  - right. exists sel. split; reflexivity.
  - left. split; reflexivity.
Qed.

Lemma zip_ok_pointwise vj vk (cj ck : N -> nat) hashes :
  (forall h, In (cj h) vk -> In (ck h) vj -> cj h = ck h) ->
  zip_ok vj vk (map cj hashes) (map ck hashes) = true.
Proof.
  intros H. induction hashes as [|h t IH]; [reflexivity|]. cbn [map zip_ok].
  rewrite IH, andb_true_r.
  destruct (memb (cj h) vk) eqn:Ha; [|reflexivity].
  destruct (memb (ck h) vj) eqn:Hb; [|reflexivity]. cbn [andb].
  apply Nat.eqb_eq. apply H; apply memb_in; assumption.
Qed.

Section SelChoice.
  Variable pool : sx.
  Let e (i : nat) : N * N := (sx_N (sx_nth (sx_nth pool i) 1), sx_N (sx_nth (sx_nth pool i) 2)).

  Lemma pool_cfg_map v : pool_cfg pool v = map e v.
  Proof. reflexivity. Qed.

  Lemma choice_member v sel h :
    new_selector (pool_cfg pool v) = Some sel -> In (choice12 sel v h) v.
  Proof.
    intros Hs. unfold choice12. apply nth_In.
    pose proof (get_shard_in_range _ _ h Hs) as H. rewrite pool_cfg_map, map_length in H. exact H.
  Qed.

  Lemma choice_best v sel h :
    new_selector (pool_cfg pool v) = Some sel -> weights_pos (pool_cfg pool v) ->
    is_bestP (scoreP h) (pool_cfg pool v) (e (choice12 sel v h)).
  Proof.
    intros Hs Hw. destruct (get_shard_best _ _ h Hs Hw) as (p & Hn & Hb).
    rewrite pool_cfg_map in Hn. apply nth_error_map_inv in Hn. destruct Hn as (a & Ha & <-).
    unfold choice12. rewrite (nth_error_nth _ _ 0%nat Ha). exact Hb.
  Qed.

  Lemma choice_iia vj vk selj selk h :
    new_selector (pool_cfg pool vj) = Some selj -> weights_pos (pool_cfg pool vj) ->
    new_selector (pool_cfg pool vk) = Some selk -> weights_pos (pool_cfg pool vk) ->
    In (choice12 selj vj h) vk -> In (choice12 selk vk h) vj ->
    choice12 selj vj h = choice12 selk vk h.
  Proof.
    intros Hsj Hwj Hsk Hwk Hjk Hkj.
    pose proof (choice_best vj selj h Hsj Hwj) as Hbj.
    pose proof (choice_best vk selk h Hsk Hwk) as Hbk.
    assert (Hf : fst (e (choice12 selj vj h)) = fst (e (choice12 selk vk h))).
    { apply (best_cross_same_hash h (pool_cfg pool vj) (pool_cfg pool vk)); try assumption.
      - rewrite pool_cfg_map. apply in_map. exact Hjk.
      - rewrite pool_cfg_map. apply in_map. exact Hkj. }
    destruct (new_selector_some _ _ Hsj) as (_ & Hnd & _).
    rewrite pool_cfg_map, map_map in Hnd.
    apply (NoDup_map_inj (fun i => fst (e i)) vj); try assumption.
    apply (choice_member vj selj h Hsj).
  Qed.
End SelChoice.

Theorem mon12_sel_silent : forall inp, wf12_sel inp -> mon12_sel inp (run12_sel inp) = [].
Proof.
  intros inp Hwf. unfold mon12_sel, run12_sel. fold (variants12 inp).
  set (pool := sx_nth inp 1). set (hashes := sx_Ns (sx_nth inp 3)).
  cbn [sx_list].
  set (pairs := combine (variants12 inp) (map (fun v => variant_choices pool v hashes) (variants12 inp))).
  assert (Hpairs : forall v o, In (v, o) pairs -> In v (variants12 inp) /\ o = variant_choices pool v hashes).
  { intros v o H. apply (in_combine_map (fun v => variant_choices pool v hashes)). exact H. }
  assert (H1 : existsb (fun '(vj, oj) =>
      existsb (fun '(vk, ok) =>
        if is_reject oj || is_reject ok then false
        else negb (zip_ok vj vk (sx_nats oj) (sx_nats ok))) pairs) pairs = false).
  { apply existsb_all_false. intros [vj oj] Hj. apply existsb_all_false. intros [vk ok] Hk.
    destruct (Hpairs _ _ Hj) as [Hvj ->]. destruct (Hpairs _ _ Hk) as [Hvk ->].
    destruct (variant_choices_cases pool vj hashes) as [[_ ->]|(selj & Hsj & ->)]; [reflexivity|].
    destruct (variant_choices_cases pool vk hashes) as [[_ ->]|(selk & Hsk & ->)];
      [rewrite orb_true_r; reflexivity|].
    rewrite !is_reject_choices. cbn [orb]. rewrite !sx_nats_choices.
    rewrite zip_ok_pointwise; [reflexivity|].
    intros h Ha Hb. apply (choice_iia pool vj vk selj selk h); try assumption.
    - apply Hwf; [exact Hvj|fold pool; rewrite Hsj; discriminate].
    - apply Hwf; [exact Hvk|fold pool; rewrite Hsk; discriminate]. }
  assert (H2 : existsb (fun '(vj, oj) => if is_reject oj then false
                              else negb (forallb (fun c => memb c vj) (sx_nats oj))) pairs = false).
  { apply existsb_all_false. intros [vj oj] Hj. destruct (Hpairs _ _ Hj) as [Hvj ->].
    destruct (variant_choices_cases pool vj hashes) as [[_ ->]|(selj & Hsj & ->)]; [reflexivity|].
    rewrite is_reject_choices, sx_nats_choices.
    apply negb_false_iff. apply forallb_forall. intros c Hc. apply in_map_iff in Hc.
    destruct Hc as (h & <- & _). apply memb_in. apply (choice_member pool vj selj h Hsj). }
  rewrite H1, H2. reflexivity.
Qed.

(** =================== blob-access cases =================== *)
Lemma Zmatch3 {T} (a b : T) z : z <> 3 -> match z with 3 => a | _ => b end = b.
Proof. intros H. destruct z as [|[[p|p|]|p|]|p]; try reflexivity. contradiction. Qed.

Section BA.
  Variable digests : sx.
  Let hd (i : nat) : N := sx_N (sx_nth (sx_nth digests i) 0).
  Let dg_of (i : nat) : dg := (hd i, i).
  Let mod3 := fun x => Nat.eqb (Nat.modulo x 3) 0.
  Let enc_asked := fun '((i, p) : nat * list nat) => L [of_nat i; of_nats p].

  (** what [run12_op] computes, by kind *)
  Lemma run12_op_fm sel nb op :
    sx_Z (sx_nth op 0) = 3 ->
    run12_op sel nb digests op =
      let ds := map dg_of (sx_nats (sx_nth op 1)) in
      let faults := map sx_bool (sx_list (sx_nth op 2)) in
      let fm := find_missing sel nb (fm_oracle faults) ds in
      L [L (map enc_asked (fst fm));
         match snd fm with
         | Some r => L [A 0; of_nats r]
         | None => L [A 14; of_nats (map fst (filter (fun '(i, _) => nth i faults false) (fst fm)))]
         end].
  Proof.
    intros H. unfold run12_op. rewrite H. cbv zeta.
    fold hd. change (fun i : nat => (hd i, i)) with dg_of.
    destruct (find_missing _ _ _ _) as [asked res]. reflexivity.
  Qed.

  Lemma run12_op_other sel nb op :
    sx_Z (sx_nth op 0) <> 3 ->
    run12_op sel nb digests op =
      let k := sx_Z (sx_nth op 0) in
      let d := sx_nat (sx_nth op 1) in
      let fault := sx_bool (sx_nth op (if Z.eqb k 2 then 3 else 2)%nat) in
      let i := route sel (dg_of d) in
      L [of_nat i; of_nat d; A (if fault then 14 else 0); if fault then L [of_nat i] else L []].
  Proof.
    intros H. unfold run12_op. fold hd. change (fun i : nat => (hd i, i)) with dg_of.
    generalize dependent (sx_Z (sx_nth op 0)). intros z Hz.
    destruct z as [|[[p|p|]|p|]|p]; try reflexivity. contradiction.
  Qed.

  Lemma op_routes_fm op o :
    sx_Z (sx_nth op 0) = 3 ->
    op_routes digests op o =
      concat (map (fun a => map (fun d => (hd d, sx_nat (sx_nth a 0))) (sx_nats (sx_nth a 1)))
                  (sx_list (sx_nth o 0))).
  Proof. intros H. unfold op_routes. rewrite H. reflexivity. Qed.

  Lemma op_routes_other op o :
    sx_Z (sx_nth op 0) <> 3 ->
    op_routes digests op o = [(hd (sx_nat (sx_nth op 1)), sx_nat (sx_nth o 0))].
  Proof. intros H. unfold op_routes. rewrite (Zmatch3 _ _ _ H). reflexivity. Qed.

  Lemma op_routes_ext op o o' : sx_nth o 0 = sx_nth o' 0 -> op_routes digests op o = op_routes digests op o'.
  Proof.
    intros H. destruct (Z.eq_dec (sx_Z (sx_nth op 0)) 3) as [E|E].
    - rewrite !(op_routes_fm _ _ E), H. reflexivity.
    - rewrite !(op_routes_other _ _ E), H. reflexivity.
  Qed.

  Lemma fm_union_ok_other op o : sx_Z (sx_nth op 0) <> 3 -> fm_union_ok op o = true.
  Proof. intros H. unfold fm_union_ok. rewrite (Zmatch3 _ _ _ H). reflexivity. Qed.

  Lemma fm_union_ok_failed op o : sx_Z (sx_nth (sx_nth o 1) 0) = 14 -> fm_union_ok op o = true.
  Proof.
    intros H. destruct (Z.eq_dec (sx_Z (sx_nth op 0)) 3) as [E|E]; [|apply fm_union_ok_other; exact E].
    unfold fm_union_ok. rewrite E, H. reflexivity.
  Qed.

  (** an observation of one operation is good when every route it reports is
      the selector's and its FindMissing answer is the union *)
  Definition good_op (sel : list shard) (op o : sx) : Prop :=
    (forall k v, In (k, v) (op_routes digests op o) -> v = get_shard sel k) /\ fm_union_ok op o = true.

  Lemma map_enc_asked_parts (f : list nat -> list nat) asked :
    map (fun a => f (sx_nats (sx_nth a 1))) (map enc_asked asked) = map (fun '(i, p) => f p) asked.
  Proof.
    rewrite map_map. apply map_ext. intros [i p]. unfold enc_asked, sx_nth. cbn [sx_list nth].
    rewrite sx_nats_of_nats. reflexivity.
  Qed.

  Lemma map_enc_asked_snd asked :
    map (fun a => sx_nats (sx_nth a 1)) (map enc_asked asked) = map snd asked.
  Proof.
    rewrite map_map. apply map_ext. intros [i p]. unfold enc_asked, sx_nth. cbn [sx_list nth snd].
    apply sx_nats_of_nats.
  Qed.

  Lemma fm_res_some sel nb faults ds r :
    snd (find_missing sel nb (fm_oracle faults) ds) = Some r ->
    r = dedup_sort (concat (map (fun '(i, p) => filter mod3 p) (fst (find_missing sel nb (fm_oracle faults) ds)))).
  Proof.
    unfold find_missing. cbn [fst snd]. set (asked := filter _ _).
    destruct (forallb _ _) eqn:Hall; [|discriminate]. intros H. inversion H. clear H H1.
    f_equal. f_equal. clear -Hall. induction asked as [|[i p] t IH]; [reflexivity|].
    cbn [map forallb] in *. apply andb_true_iff in Hall. destruct Hall as [H1 H2].
    rewrite (IH H2). f_equal. unfold fm_oracle in *. destruct (nth i faults false); [discriminate|reflexivity].
  Qed.

  Lemma good_model cfg sel op :
    new_selector cfg = Some sel -> good_op sel op (run12_op sel (length cfg) digests op).
  Proof.
    intros Hs. destruct (Z.eq_dec (sx_Z (sx_nth op 0)) 3) as [E|E].
    - rewrite (run12_op_fm _ _ _ E). cbv zeta.
      set (reqs := sx_nats (sx_nth op 1)). set (ds := map dg_of reqs).
      set (faults := map sx_bool (sx_list (sx_nth op 2))).
      set (fm := find_missing sel (length cfg) (fm_oracle faults) ds).
      assert (Hown : forall i p x, In (i, p) (fst fm) -> In x p -> In x reqs /\ get_shard sel (hd x) = i).
      { intros i p x Hip Hx.
        destruct (fm_asks_own_only _ _ _ _ _ _ _ Hip Hx) as (d & Hd & Hsnd & Hr).
        apply in_map_iff in Hd. destruct Hd as (y & <- & Hy). cbn [snd dg_of] in Hsnd. subst y.
        split; [exact Hy|exact Hr]. }
      split.
      + intros k v Hin. rewrite (op_routes_fm _ _ E) in Hin.
        unfold sx_nth at 3 in Hin. cbn [sx_list nth] in Hin.
        apply in_concat in Hin. destruct Hin as (l & Hl & Hin).
        apply in_map_iff in Hl. destruct Hl as (a & <- & Ha).
        apply in_map_iff in Ha. destruct Ha as ([i p] & <- & Hip).
        unfold enc_asked, sx_nth in Hin. cbn [sx_list nth] in Hin.
        rewrite sx_nats_of_nats, sx_nat_of_nat in Hin.
        apply in_map_iff in Hin. destruct Hin as (x & Heq & Hx). inversion Heq; subst k v.
        symmetry. apply (Hown i p x Hip Hx).
      + unfold fm_union_ok. rewrite E.
        destruct (snd fm) as [r|] eqn:Hres; [|reflexivity].
        change (sx_nth (L [L (map enc_asked (fst fm)); L [A 0; of_nats r]]) 1) with (L [A 0; of_nats r]).
        change (sx_list (sx_nth (L [L (map enc_asked (fst fm)); L [A 0; of_nats r]]) 0)) with (map enc_asked (fst fm)).
        change (sx_Z (sx_nth (L [A 0; of_nats r]) 0)) with 0.
        change (sx_nth (L [A 0; of_nats r]) 1) with (of_nats r). cbn [Z.eqb].
        rewrite (map_enc_asked_parts (filter (fun x => Nat.eqb (Nat.modulo x 3) 0))), map_enc_asked_snd.
        fold reqs. fold mod3.
        pose proof (fm_res_some _ _ _ _ _ Hres) as Hrr. fold fm in Hrr.
        rewrite <- Hrr, sx_eqb_refl. cbn [andb].
        apply sx_eqb_iff. apply (f_equal of_nats). apply dedup_sort_ext. intros x. rewrite in_concat. split.
        * intros (l & Hl & Hx). apply in_map_iff in Hl. destruct Hl as ([i p] & <- & Hip).
          cbn [snd] in Hx. apply (Hown i p x Hip Hx).
        * intros Hx.
          assert (Hd : In (dg_of x) ds) by (apply in_map; exact Hx).
          assert (Hr : (route sel (dg_of x) < length cfg)%nat) by (apply get_shard_in_range; exact Hs).
          destruct (fm_every_digest_asked sel (length cfg) (fm_oracle faults) ds _ Hd Hr) as (p & Hp & Hxp).
          exists p. split; [|exact Hxp]. apply in_map_iff. exists (route sel (dg_of x), p). split; [reflexivity|exact Hp].
    - rewrite (run12_op_other _ _ _ E). cbv zeta. split; [|apply fm_union_ok_other; exact E].
      intros k v Hin. rewrite (op_routes_other _ _ E) in Hin. unfold sx_nth at 2 in Hin. cbn [sx_list nth] in Hin.
      rewrite sx_nat_of_nat in Hin. destruct Hin as [Hin|[]]. inversion Hin. reflexivity.
  Qed.

  Lemma agree12_op_cases m o :
    agree12_op m o = true -> m = o \/ (sx_nth m 0 = sx_nth o 0 /\ sx_Z (sx_nth (sx_nth o 1) 0) = 14).
  Proof.
    unfold agree12_op. intros H.
    repeat match type of H with
           | context [match ?x with _ => _ end] => destruct x
           end;
      first [ left; apply sx_eqb_eq; exact H
            | right; apply andb_true_iff in H; destruct H as [H _]; split; [apply sx_eqb_eq; exact H|reflexivity] ].
  Qed.

  Lemma good_agree sel op m o : agree12_op m o = true -> good_op sel op m -> good_op sel op o.
  Proof.
    intros Ha [G1 G2]. destruct (agree12_op_cases m o Ha) as [<-|[H0 H1]]; [split; assumption|].
    split.
    - intros k v Hin. rewrite <- (op_routes_ext op m o H0) in Hin. apply G1. exact Hin.
    - apply fm_union_ok_failed. exact H1.
  Qed.

  Lemma good_all cfg sel ops os :
    new_selector cfg = Some sel ->
    all2 agree12_op (map (run12_op sel (length cfg) digests) ops) os = true ->
    forall op o, In (op, o) (combine ops os) -> good_op sel op o.
  Proof.
    intros Hs. revert os. induction ops as [|a ops IH]; intros [|b os] H op o Hin; cbn in *; try contradiction; try discriminate.
    apply andb_true_iff in H. destruct H as [H1 H2]. destruct Hin as [Hin|Hin].
    - inversion Hin; subst. apply (good_agree sel op _ o H1). apply good_model. exact Hs.
    - apply (IH os H2 op o Hin).
  Qed.

  Lemma routes_functional (f : N -> nat) l :
    (forall k v, In (k, v) l -> v = f k) -> routes_conflict l = false.
  Proof.
    induction l as [|[k v] t IH]; intros H; [reflexivity|]. cbn [routes_conflict].
    rewrite IH by (intros k' v' Hin; apply H; right; exact Hin). rewrite orb_false_r.
    assert (Hv : v = f k) by (apply H; left; reflexivity).
    assert (Ht : forall k' v', In (k', v') t -> v' = f k') by (intros k' v' Hin; apply H; right; exact Hin).
    clear H IH. induction t as [|[k' v'] t IHt]; [reflexivity|]. cbn [assoc_conflict].
    rewrite IHt by (intros k2 v2 Hin; apply Ht; right; exact Hin). rewrite orb_false_r.
    destruct (N.eqb k k') eqn:E; [|reflexivity]. apply N.eqb_eq in E. subst k'.
    rewrite (Ht k v' (or_introl eq_refl)), Hv, Nat.eqb_refl. reflexivity.
  Qed.
End BA.

(** ---- clause 5: errors name the failing shard ---- *)
Section NAMED.
  Variable digests : sx.
  Let hd (i : nat) : N := sx_N (sx_nth (sx_nth digests i) 0).
  Let dg_of (i : nat) : dg := (hd i, i).

  Lemma fm_none_has_faulted sel nb faults ds :
    snd (find_missing sel nb (fm_oracle faults) ds) = None ->
    filter (fun '(i, _) => nth i faults false) (fst (find_missing sel nb (fm_oracle faults) ds)) <> [].
  Proof.
    unfold find_missing. cbn [fst snd]. set (asked := filter _ _).
    destruct (forallb _ _) eqn:Hall; [discriminate|]. intros _.
    clear -Hall. induction asked as [|[i p] t IH]; [discriminate|].
    cbn [map forallb filter] in *. unfold fm_oracle at 1 in Hall.
    destruct (nth i faults false); [discriminate|]. cbn [andb] in Hall. apply IH. exact Hall.
  Qed.

  Lemma named_model sel nb op : err_named_ok op (run12_op sel nb digests op) = true.
  Proof.
    destruct (Z.eq_dec (sx_Z (sx_nth op 0)) 3) as [E|E].
    - rewrite (run12_op_fm digests _ _ _ E). cbv zeta.
      set (faults := map sx_bool (sx_list (sx_nth op 2))).
      set (fm := find_missing sel nb (fm_oracle faults) _).
      unfold err_named_ok. rewrite E. change (Z.eqb 3 3) with true. cbv iota. fold faults.
      destruct (snd fm) as [r|] eqn:Hres; [reflexivity|].
      set (named := map fst (filter (fun '(i, _) => nth i faults false) (fst fm))).
      change (sx_nth (L [L (map (fun '(i, p) => L [of_nat i; of_nats p]) (fst fm)); L [A 14; of_nats named]]) 1)
        with (L [A 14; of_nats named]).
      change (sx_Z (sx_nth (L [A 14; of_nats named]) 0)) with 14.
      change (Z.eqb 14 0) with false. cbv iota.
      change (sx_list (sx_nth (L [A 14; of_nats named]) 1)) with (map of_nat named).
      pose proof (fm_none_has_faulted _ _ _ _ Hres) as Hne. fold fm in Hne.
      apply andb_true_iff. split.
      + unfold named. destruct (filter _ (fst fm)); [contradiction|reflexivity].
      + apply forallb_forall. intros n Hn. apply in_map_iff in Hn. destruct Hn as (x & <- & Hx).
        rewrite sx_nat_of_nat. unfold named in Hx. apply in_map_iff in Hx. destruct Hx as ([i q] & <- & Hiq).
        apply filter_In in Hiq. exact (proj2 Hiq).
    - rewrite (run12_op_other digests _ _ _ E). cbv zeta. unfold err_named_ok.
      destruct (Z.eqb (sx_Z (sx_nth op 0)) 3) eqn:E3; [apply Z.eqb_eq in E3; contradiction|].
      destruct (sx_bool _); [|reflexivity].
      match goal with |- context [L [?a; ?b; A 14; L [?a]]] =>
        change (sx_Z (sx_nth (L [a; b; A 14; L [a]]) 2)) with 14;
        change (sx_nth (L [a; b; A 14; L [a]]) 3) with (L [a]);
        change (sx_nth (L [a; b; A 14; L [a]]) 0) with a end.
      change (Z.eqb 14 0) with false. cbv iota. apply sx_eqb_refl.
  Qed.

  Lemma agree12_op_cases2 m o : agree12_op m o = true ->
    m = o \/ exists failing named,
               sx_nth m 1 = L [A 14; L failing] /\ sx_nth o 1 = L [A 14; L [named]] /\ In named failing.
  Proof.
    unfold agree12_op. intros H.
    remember (sx_nth m 1) as a eqn:Ea. remember (sx_nth o 1) as b eqn:Eb.
    repeat match type of H with
           | context [match ?x with _ => _ end] => destruct x
           end;
      first [ left; apply sx_eqb_eq; exact H
            | right; eexists _, _; split; [reflexivity|split; [reflexivity|]];
              apply andb_true_iff in H; destruct H as [_ H]; apply existsb_exists in H;
              destruct H as (f & Hf & Heq); apply sx_eqb_eq in Heq; subst f; exact Hf ].
  Qed.

  Lemma named_good sel nb op o :
    agree12_op (run12_op sel nb digests op) o = true -> err_named_ok op o = true.
  Proof.
    intros Ha. destruct (agree12_op_cases2 _ _ Ha) as [<-|(failing & named & Em & Eo & Hin)]; [apply named_model|].
    pose proof (named_model sel nb op) as Hm.
    destruct (Z.eq_dec (sx_Z (sx_nth op 0)) 3) as [E|E].
    - unfold err_named_ok in *. rewrite E in *. change (Z.eqb 3 3) with true in *. cbv iota in *.
      rewrite Em in Hm. rewrite Eo.
      change (sx_Z (sx_nth (L [A 14; L failing]) 0)) with 14 in Hm.
      change (sx_Z (sx_nth (L [A 14; L [named]]) 0)) with 14.
      change (Z.eqb 14 0) with false in *. cbv iota in *.
      change (sx_list (sx_nth (L [A 14; L failing]) 1)) with failing in Hm.
      change (sx_list (sx_nth (L [A 14; L [named]]) 1)) with [named].
      apply andb_true_iff in Hm. destruct Hm as [_ Hall].
      cbn [negb forallb andb]. rewrite andb_true_r.
      rewrite forallb_forall in Hall. apply Hall. exact Hin.
    - rewrite (run12_op_other digests _ _ _ E) in Em. cbv zeta in Em. discriminate Em.
  Qed.

  Lemma named_all sel nb ops os :
    all2 agree12_op (map (run12_op sel nb digests) ops) os = true ->
    forall op o, In (op, o) (combine ops os) -> err_named_ok op o = true.
  Proof.
    revert os. induction ops as [|a ops IH]; intros [|b os] H op o Hin; cbn in *; try contradiction; try discriminate.
    apply andb_true_iff in H. destruct H as [H1 H2]. destruct Hin as [Hin|Hin].
    - inversion Hin; subst. apply (named_good sel nb op o H1).
    - apply (IH os H2 op o Hin).
  Qed.
End NAMED.

(** the judge's notion of agreement in blob-access cases (literally the [ag]
    of [judge12], see [judge12_ba_fields]) *)
Definition agree12_ba (inp obs : sx) : bool :=
  let m := run12_ba inp in
  if is_reject m then sx_eqb m obs else all2 agree12_op (sx_list m) (sx_list obs).

Lemma all2_refl (f : sx -> sx -> bool) l : (forall x, f x x = true) -> all2 f l l = true.
Proof. intros H. induction l as [|a l IH]; [reflexivity|]. cbn. rewrite H, IH. reflexivity. Qed.

Lemma agree12_op_refl m : agree12_op m m = true.
Proof.
  unfold agree12_op.
  repeat match goal with
         | |- context [match ?x with _ => _ end] => destruct x eqn:?
         end; try apply sx_eqb_refl.
  rewrite sx_eqb_refl. cbn [andb].
  match goal with |- existsb (sx_eqb ?n) ?l = true => cbn [existsb]; rewrite sx_eqb_refl; reflexivity end.
Qed.

Lemma agree12_ba_refl inp : agree12_ba inp (run12_ba inp) = true.
Proof.
  unfold agree12_ba. cbv zeta. destruct (is_reject (run12_ba inp)); [apply sx_eqb_refl|].
  apply all2_refl. apply agree12_op_refl.
Qed.

Theorem mon12_ba_silent_on_allowed : forall inp obs, agree12_ba inp obs = true -> mon12_ba inp obs = [].
Proof.
  intros inp obs Hag. unfold mon12_ba. destruct (is_reject obs) eqn:Hrej; [reflexivity|].
  unfold agree12_ba in Hag. cbv zeta in Hag. unfold run12_ba in Hag.
  set (cfg := cfg_of (sx_nth inp 1)) in *.
  destruct (new_selector cfg) as [sel|] eqn:Hs.
  2:{ cbn [is_reject Z.eqb] in Hag. apply sx_eqb_eq in Hag. subst obs. discriminate. }
  set (digests := sx_nth inp 2) in *. set (ops := sx_list (sx_nth inp 3)) in *.
  assert (Hgood : forall op o, In (op, o) (combine ops (sx_list obs)) -> good_op digests sel op o).
  { destruct (is_reject (L (map (run12_op sel (length cfg) digests) ops))) eqn:Hr.
    - apply sx_eqb_eq in Hag. subst obs. rewrite Hr in Hrej. discriminate.
    - cbn [sx_list] in Hag. apply (good_all digests cfg sel ops (sx_list obs) Hs Hag). }
  rewrite (routes_functional (get_shard sel)).
  2:{ intros k v Hin. apply in_concat in Hin. destruct Hin as (l & Hl & Hin).
      apply in_map_iff in Hl. destruct Hl as ([op o] & <- & Hp).
      apply (proj1 (Hgood op o Hp)). exact Hin. }
  assert (Hall : forallb (fun '(op, o) => fm_union_ok op o) (combine ops (sx_list obs)) = true).
  { apply forallb_forall. intros [op o] Hp. apply (proj2 (Hgood op o Hp)). }
  rewrite Hall.
  assert (Hnamed : forallb (fun '(op, o) => err_named_ok op o) (combine ops (sx_list obs)) = true).
  { apply forallb_forall. intros [op o] Hp.
    destruct (is_reject (L (map (run12_op sel (length cfg) digests) ops))) eqn:Hr.
    - apply sx_eqb_eq in Hag. subst obs. rewrite Hr in Hrej. discriminate.
    - cbn [sx_list] in Hag. apply (named_all digests sel (length cfg) ops (sx_list obs) Hag op o Hp). }
  rewrite Hnamed. reflexivity.
Qed.

Theorem mon12_ba_silent : forall inp, mon12_ba inp (run12_ba inp) = [].
Proof. intros inp. apply mon12_ba_silent_on_allowed. apply agree12_ba_refl. Qed.

(** ---- the judge: "agree" implies "no violation" ---- *)
Lemma judge12_ba_fields inp obs :
  sx_Z (sx_nth inp 0) <> 0 ->
  judged_agree (judge12 inp obs) = agree12_ba inp obs /\
  judged_violates (judge12 inp obs) = negb (match mon12_ba inp obs with [] => true | _ => false end).
Proof.
  intros H. unfold judge12. destruct (sx_Z (sx_nth inp 0)); [contradiction| |]; cbv zeta; apply verdict_fields.
Qed.

Theorem judge12_agree_not_violates : forall inp obs,
  (sx_Z (sx_nth inp 0) = 0 -> wf12_sel inp) ->
  judged_agree (judge12 inp obs) = true -> judged_violates (judge12 inp obs) = false.
Proof.
  intros inp obs Hwf. destruct (Z.eq_dec (sx_Z (sx_nth inp 0)) 0) as [E|E].
  - unfold judge12. rewrite E. unfold judge_det. cbv zeta.
    destruct (verdict_fields (sx_eqb (run12_sel inp) obs)
                (negb (match mon12_sel inp obs with [] => true | _ => false end))
                (run12_sel inp) (of_Zs (mon12_sel inp obs))) as [-> ->].
    intros Ha. apply sx_eqb_eq in Ha. subst obs. rewrite (mon12_sel_silent inp (Hwf E)). reflexivity.
  - destruct (judge12_ba_fields inp obs E) as [-> ->]. intros Ha.
    rewrite (mon12_ba_silent_on_allowed inp obs Ha). reflexivity.
Qed.

(** ---- the hypothesis is needed: with zero weights the model's answers for two
    listings of the same two shards differ, and clause 1 fires.  (The harness
    executes such an input — it only refuses weights above 2^32-1 — but the
    generators never produce weight 0, and the property text excludes it.) *)
Example mon12_sel_needs_nonzero_weights :
  let inp := L [A 0; L [L [A 0; A 5; A 0]; L [A 1; A 9; A 0]]; L [L [A 0; A 1]; L [A 1; A 0]]; L [A 1]] in
  mon12_sel inp (run12_sel inp) = [1].
Proof. vm_compute. reflexivity. Qed.

(** hashes and key hashes beyond 64 bits, by contrast, are harmless *)
Example wf12_sel_example :
  wf12_sel (L [A 0; L [L [A 0; A 5; A 1]; L [A 1; A (2 ^ 70); A 4294967295]; L [A 2; A 5; A 0]];
               L [L [A 0; A 1]; L [A 1; A 0]; L [A 0; A 2]]; L [A 1; A (2 ^ 64)]]).
Proof.
  intros v Hv Hsel p Hp. vm_compute in Hv.
  destruct Hv as [<-|[<-|[<-|[]]]]; try (vm_compute in Hsel; congruence);
    vm_compute in Hp; destruct Hp as [<-|[<-|[]]]; vm_compute; discriminate.
Qed.
