(** C20: the monitor of Run/R20.v is silent on the model's own output
    ([judge20] is deterministic: [mon20 inp (run20 inp) = []]).

    Hypotheses ([inp_wf20]), each shown necessary by a [vm_compute] witness at
    the end of this file:
      - structured digests (kind 3): the size is below 2^63 (an int64);
      - digest sets (kind 6): every universe entry is written canonically
        (byte atoms >= 0, function atom >= 0, exactly four fields) with a size
        below 2^63, and set members are indices into the universe.
    harness/c20.go takes sizes as int64, bytes as 0..255 and builds the entries
    itself, so none of the witnesses is an input the harness can produce. *)
From Coq Require Import List NArith ZArith Bool Lia.
Import ListNotations.
From BBS Require Import Common.Sx Generated.Consts Digest.DigestModel Digest.SetModel
  Digest.DigestProofs Digest.SetProofs Digest.MonSilentDigest Run.MonSilentSx Run.R20.
Open Scope Z_scope.

(** * Encoders: decoding back, and no panic marker *)
Lemma sx_N_of_N n : sx_N (of_N n) = n.
Proof. unfold sx_N, of_N. cbn [sx_Z]. apply N2Z.id. Qed.

Lemma sxb_enc b : sxb (enc_bytes b) = b.
Proof.
  unfold sxb, enc_bytes, sx_Ns, of_Ns. cbn [sx_list]. rewrite map_map.
  induction b as [|x b IH]; [reflexivity|]. cbn [map]. rewrite sx_N_of_N, IH. reflexivity.
Qed.

Lemma has_panic_L l : has_panic (L l) = existsb has_panic l.
Proof. induction l as [|x r IH]; [reflexivity|]. cbn [existsb]. rewrite <- IH. reflexivity. Qed.

Lemma has_panic_A z : z <> -1 -> has_panic (A z) = false.
Proof. intro H. cbn. apply Z.eqb_neq. exact H. Qed.

Lemma has_panic_of_N n : has_panic (of_N n) = false.
Proof. apply has_panic_A. lia. Qed.

Lemma has_panic_of_nat n : has_panic (of_nat n) = false.
Proof. apply has_panic_A. lia. Qed.

Lemma has_panic_map {T} (f : T -> sx) l :
  (forall x, In x l -> has_panic (f x) = false) -> has_panic (L (map f l)) = false.
Proof.
  intro H. rewrite has_panic_L. induction l as [|x r IH]; [reflexivity|]. cbn [map existsb].
  rewrite H by (left; reflexivity). apply IH. intros y Hy. apply H. right. exact Hy.
Qed.

Lemma has_panic_bytes b : has_panic (enc_bytes b) = false.
Proof. apply has_panic_map. intros. apply has_panic_of_N. Qed.

Lemma has_panic_list l : has_panic (enc_list l) = false.
Proof. apply has_panic_map. intros. apply has_panic_bytes. Qed.

Lemma has_panic_sets l : has_panic (enc_sets l) = false.
Proof. apply has_panic_map. intros. apply has_panic_list. Qed.

Lemma has_panic_cons x l : has_panic (L (x :: l)) = has_panic x || has_panic (L l).
Proof. rewrite !has_panic_L. reflexivity. Qed.

Lemma has_panic_nil : has_panic (L []) = false.
Proof. reflexivity. Qed.

Definition good_out {T} (o : outcome T) : Prop := o <> Panic /\ forall c, o = Err c -> 0 < c.

Lemma good_ok {T} (x : T) : good_out (Ok x).
Proof. split; [discriminate|intros c H; discriminate]. Qed.

Lemma has_panic_enc_out {T} (f : T -> sx) o :
  good_out o -> (forall x, o = Ok x -> has_panic (f x) = false) -> has_panic (enc_out f o) = false.
Proof.
  intros [Hp He] Hf. destruct o as [x|c|]; cbn [enc_out].
  - rewrite !has_panic_cons, has_panic_nil, (Hf x eq_refl). reflexivity.
  - rewrite has_panic_cons, has_panic_nil, has_panic_A; [reflexivity|]. specialize (He c eq_refl). lia.
  - congruence.
Qed.

Lemma status_err_pos c : status_err c -> 0 < c.
Proof. intros [-> | ->]; reflexivity. Qed.

Lemma good_parse_read s : good_out (parse_read_path s).
Proof.
  split; [apply parse_total_proof|]. intros c H. apply status_err_pos. eapply parse_read_path_err; eauto.
Qed.
Lemma good_parse_write s : good_out (parse_write_path s).
Proof.
  split; [apply parse_total_proof|]. intros c H. apply status_err_pos. eapply parse_write_path_err; eauto.
Qed.

Lemma has_panic_enc_parse o : good_out o -> has_panic (enc_parse o) = false.
Proof.
  intro H. apply has_panic_enc_out; [exact H|]. intros [v c] _. cbn [fst snd].
  rewrite !has_panic_cons, has_panic_nil, has_panic_bytes, has_panic_of_N. reflexivity.
Qed.

(** * The observation of a valid digest *)
Definition dobs_of (d : digest) (hb cb : bytes) (parents : list bytes) : sx :=
  L [enc_bytes (pack d);
     L [A 0; of_N (d_fn d)];
     L [A 0; enc_bytes (d_hash d)];
     L [A 0; A (d_size d)];
     L [A 0; enc_bytes (d_inst d)];
     L [A 0; enc_bytes (key0 d)];
     L [A 0; L [enc_bytes (d_hash d); A (d_size d)]];
     L [A 0; enc_bytes hb];
     L [A 0; enc_bytes cb];
     L [A 0; enc_list parents]].

Lemma enc_dobs_valid d :
  valid_digest d ->
  exists hb cb comps,
    hex_encode hb = d_hash d /\ d_inst d = join_slash comps /\ Forall valid_component comps
    /\ enc_dobs (pack d)
       = dobs_of d hb cb (map (fun p => pack (with_instance d (join_slash p))) (prefixes comps)).
Proof.
  intro V. destruct (pack_unpack_accessors d V) as (H1 & H2 & H3 & H4 & H5 & _ & H7 & (hb & H8 & Hhb) & (b & H9 & _)).
  destruct (vd_inst d V) as (comps & Hi & Hc).
  exists hb, (d_fn d :: b ++ put_varint (d_size d)), comps.
  split; [exact Hhb|]. split; [exact Hi|]. split; [exact Hc|].
  unfold enc_dobs. rewrite H1, H2, H3, H4, H5, H7, H8, H9, (parents_spec_proof d comps V Hi Hc).
  reflexivity.
Qed.

Lemma seq_prefixes_eq {T} (l : list T) : seq_prefixes l = prefixes l.
Proof.
  unfold seq_prefixes. induction l as [|x r IH]; [reflexivity|].
  cbn [length]. change (seq 0 (S (S (length r)))) with (0%nat :: seq 1 (S (length r))).
  rewrite <- seq_shift, map_cons, map_map. cbn [prefixes firstn].
  rewrite <- IH, map_map. reflexivity.
Qed.

Lemma valid_inst_wf v : valid_instance v -> inst_wf v = true.
Proof.
  intro H. destruct (valid_instance_wf v H) as (H1 & H2 & H3 & H4).
  unfold inst_wf, spec_components. rewrite H1, H2, H3, H4. reflexivity.
Qed.

Lemma is_supported_true fn : In fn supported_enums -> is_supported fn = true.
Proof.
  intro H. destruct (supported_entry _ H) as (n & Hn). unfold is_supported.
  apply existsb_exists. exists (fn, n). split; [exact Hn|apply N.eqb_refl].
Qed.

Lemma is_supported_in fn : is_supported fn = true -> In fn supported_enums.
Proof.
  unfold is_supported. intro H. apply existsb_exists in H. destruct H as ([f n] & Hin & E).
  cbn in E. apply N.eqb_eq in E. subst. unfold supported_enums. apply in_map_iff. exists (fn, n). auto.
Qed.

Lemma has_panic_dobs d hb cb ps : 0 <= d_size d -> has_panic (dobs_of d hb cb ps) = false.
Proof.
  intro Hs. unfold dobs_of.
  repeat rewrite ?has_panic_cons, ?has_panic_nil, ?has_panic_bytes, ?has_panic_of_N, ?has_panic_list.
  rewrite !has_panic_A by lia. reflexivity.
Qed.

Lemma dobs_wf_valid d hb cb ps : valid_digest d -> dobs_wf (dobs_of d hb cb ps) = true.
Proof.
  intros [Hfn (hbs & Hhb & Hlen) Hhex Hsz Hinst]. unfold dobs_wf, dobs_of.
  rewrite !sx_nth_L. cbn [nth is_ok ok_val andb sx_Z]. rewrite sx_N_of_N, !sxb_enc.
  rewrite (is_supported_true _ Hfn), Hhex, (valid_inst_wf _ Hinst).
  change (hash_size_of (d_fn d)) with (hash_bytes_of (d_fn d)). rewrite Hhb.
  rewrite (proj2 (N.eqb_eq _ _) Hlen).
  rewrite (proj2 (Z.leb_le _ _) (proj1 Hsz)), (proj2 (Z.ltb_lt _ _) (proj2 Hsz)). reflexivity.
Qed.

Lemma dobs_consistent_valid d hb cb comps :
  valid_digest d -> hex_encode hb = d_hash d -> d_inst d = join_slash comps -> Forall valid_component comps ->
  dobs_consistent (dobs_of d hb cb (map (fun p => pack (with_instance d (join_slash p))) (prefixes comps))) = true.
Proof.
  intros V Hhb Hi Hc. pose proof (vd_size d V) as Hsz.
  unfold dobs_consistent, dobs_of. rewrite !sx_nth_L. cbn [nth ok_val sx_Z]. rewrite sx_N_of_N, !sxb_enc.
  fold (key0 d). rewrite beqb_refl, <- (pack_shape d) by lia. rewrite !beqb_refl, Z.eqb_refl, Hhb, beqb_refl.
  cbn [andb].
  unfold spec_components. rewrite Hi.
  destruct (valid_component_facts comps Hc) as (_ & Hgf & _).
  rewrite (fields_join comps Hgf), seq_prefixes_eq.
  rewrite !sx_nth_L. cbn [nth]. rewrite sxb_enc, beqb_refl. cbn [andb].
  match goal with |- sx_eqb ?a ?b = true => replace b with a; [apply sx_eqb_refl|] end.
  f_equal. apply map_ext. intro p.
  rewrite (pack_shape (with_instance d (join_slash p))) by (cbn; lia). reflexivity.
Qed.

(** everything the monitor asks of the observation of one valid digest *)
Lemma dobs_facts d :
  valid_digest d ->
  has_panic (enc_dobs (pack d)) = false
  /\ dobs_wf (enc_dobs (pack d)) = true
  /\ dobs_consistent (enc_dobs (pack d)) = true
  /\ sx_nth (enc_dobs (pack d)) 0 = enc_bytes (pack d)
  /\ sx_nth (enc_dobs (pack d)) 1 = L [A 0; of_N (d_fn d)]
  /\ sx_nth (enc_dobs (pack d)) 2 = L [A 0; enc_bytes (d_hash d)]
  /\ sx_nth (enc_dobs (pack d)) 3 = L [A 0; A (d_size d)]
  /\ sx_nth (enc_dobs (pack d)) 4 = L [A 0; enc_bytes (d_inst d)].
Proof.
  intro V. destruct (enc_dobs_valid d V) as (hb & cb & comps & Hhb & Hi & Hc & ->).
  pose proof (vd_size d V) as Hsz.
  split; [apply has_panic_dobs; lia|]. split; [apply dobs_wf_valid, V|].
  split; [apply dobs_consistent_valid; assumption|]. repeat split; reflexivity.
Qed.

(** * Kinds 0 and 1: resource names *)
Lemma parse_int_decimal s z : parse_int s = Some z -> decimal_of s z = true.
Proof.
  unfold parse_int, decimal_of. destruct s as [|c r]; [discriminate|].
  destruct (N.eqb c 43); [|destruct (N.eqb c dash)].
  - destruct r as [|c' r']; [discriminate|].
    destruct (forallb is_digit (c' :: r')); [|discriminate].
    destruct (N.ltb _ _); [|discriminate]. intros [= <-]. cbn [nonempty andb]. apply Z.eqb_refl.
  - destruct r as [|c' r']; [discriminate|].
    destruct (forallb is_digit (c' :: r')); [|discriminate].
    destruct (N.leb _ _); [|discriminate]. intros [= <-]. cbn [nonempty andb]. apply Z.eqb_refl.
  - destruct (forallb is_digit (c :: r)); [|discriminate].
    destruct (N.ltb _ _); [|discriminate]. intros [= <-]. cbn [nonempty andb]. apply Z.eqb_refl.
Qed.

Lemma adjacent_fields_intro h z s post : forall pre,
  decimal_of s z = true -> adjacent_fields h z (pre ++ h :: s :: post) = true.
Proof.
  induction pre as [|x pre IH]; intro H.
  - cbn [app adjacent_fields]. rewrite beqb_refl, H. reflexivity.
  - cbn [app]. specialize (IH H).
    destruct (pre ++ h :: s :: post) as [|y rest] eqn:E; [destruct pre; discriminate|].
    change (adjacent_fields h z (x :: y :: rest))
      with ((beqb x h && decimal_of y z) || adjacent_fields h z (y :: rest)).
    rewrite IH. apply orb_true_r.
Qed.

Section ParseKinds.
  Variable parse : bytes -> outcome (bytes * N).
  Variable fmt : bytes -> N -> outcome bytes.
  Hypothesis parse_sound : forall s v c, parse s = Ok (v, c) ->
    exists d sz, valid_digest d /\ v = pack d /\ valid_compressor c
                 /\ adjacent (d_hash d) sz (fields_by_slash s) /\ parse_int sz = Some (d_size d).
  Hypothesis parse_good : forall s, good_out (parse s).
  Hypothesis round_trip : forall d c, valid_digest d -> valid_compressor c ->
    exists s, fmt (pack d) c = Ok s /\ parse s = Ok (pack d, c).

  Lemma mon_parse_silent clause path : mon_parse clause path (run_parse parse fmt path) = [].
  Proof.
    unfold run_parse. destruct (parse path) as [[v c]|e|] eqn:Ep.
    - destruct (parse_sound _ _ _ Ep) as (d & sz & V & -> & Hc & Hadj & Hsz).
      destruct (round_trip d c V Hc) as (s & Hf & Hr). rewrite Hf. cbn [after_format enc_out]. rewrite Hr.
      cbn [enc_parse enc_out fst snd].
      destruct (dobs_facts d V) as (Hp & Hwf & Hcons & E0 & _ & E2 & E3 & _).
      unfold mon_parse. cbn [head_is0]. rewrite !sx_nth_L. cbn [nth].
      rewrite Hwf, Hcons, E0, E2, E3. cbn [ok_val sx_Z]. rewrite sxb_enc.
      destruct Hadj as (pre & post & ->).
      rewrite (adjacent_fields_intro _ _ _ _ _ (parse_int_decimal _ _ Hsz)), sx_eqb_refl.
      repeat rewrite ?has_panic_cons, ?has_panic_nil, ?has_panic_bytes, ?has_panic_of_N. rewrite Hp.
      reflexivity.
    - destruct (parse_good path) as [_ He]. specialize (He e Ep).
      unfold mon_parse. cbn [head_is0]. destruct e; try lia.
      rewrite has_panic_cons, has_panic_nil, has_panic_A by lia. reflexivity.
    - destruct (parse_good path) as [Hp _]. congruence.
  Qed.
End ParseKinds.

Lemma in_firstn {T} (x : T) n l : In x (firstn n l) -> In x l.
Proof. intro H. rewrite <- (firstn_skipn n l). apply in_or_app. left. exact H. Qed.
Lemma in_skipn {T} (x : T) n l : In x (skipn n l) -> In x l.
Proof. intro H. rewrite <- (firstn_skipn n l). apply in_or_app. right. exact H. Qed.

Lemma hex_encode_no_slash b : ~ In slash (hex_encode b).
Proof.
  assert (Hd : forall v, hexdigit v <> slash).
  { intro v. unfold hexdigit, slash. destruct (N.ltb v 10); lia. }
  induction b as [|x b IH]; [intros []|]. cbn [hex_encode]. intros [E|[E|H]]; [eapply Hd|eapply Hd|]; eauto.
Qed.

Lemma uuid_string_ok u : uuid_string u <> [] /\ ~ In slash (uuid_string u).
Proof.
  unfold uuid_string. split.
  - intro E. apply app_eq_nil in E. destruct E as [_ E]. discriminate.
  - pose proof (hex_encode_no_slash u) as Hn.
    intro H. repeat (apply in_app_or in H; destruct H as [H|H];
                     [apply Hn; repeat (first [apply in_firstn in H|apply in_skipn in H]); exact H|];
                     destruct H as [E|H]; [unfold dash, slash in E; lia|]).
    apply Hn. repeat (first [apply in_firstn in H|apply in_skipn in H]). exact H.
Qed.

Lemma silent_read_path path : mon_parse 2 path (run_parse parse_read_path get_read_path path) = [].
Proof.
  apply mon_parse_silent.
  - intros s v c H. apply parse_sound_adj. left. exact H.
  - apply good_parse_read.
  - apply read_path_roundtrip_proof.
Qed.

Lemma silent_write_path uuid path :
  mon_parse 3 path (run_parse parse_write_path (fun v c => get_write_path v (uuid_string uuid) c) path) = [].
Proof.
  apply mon_parse_silent.
  - intros s v c H. apply parse_sound_adj. right. exact H.
  - apply good_parse_write.
  - intros d c V Hc. destruct (uuid_string_ok uuid) as [H1 H2]. apply write_path_roundtrip_proof; assumption.
Qed.

(** * Kind 2: instance names *)
Lemma silent_instance_name name : mon_instance_name name (run_instance_name name) = [].
Proof.
  unfold run_instance_name. destruct (new_instance_name name) as [v|c|] eqn:E.
  - destruct (new_instance_name_ok _ _ E) as (-> & _ & _ & _ & _ & Hj & Hv & Hval).
    unfold new_instance_name_from_components. rewrite Hval. cbn [bind enc_out]. rewrite Hj.
    unfold mon_instance_name. cbn [head_is0]. rewrite !sx_nth_L. cbn [nth].
    rewrite (valid_inst_wf _ Hv), sxb_enc, beqb_refl, !sx_eqb_refl.
    repeat rewrite ?has_panic_cons, ?has_panic_nil, ?has_panic_bytes, ?has_panic_list. reflexivity.
  - pose proof (new_instance_name_err _ _ E) as ->.
    unfold mon_instance_name. cbn [head_is0].
    assert (Hw : inst_wf name = false).
    { unfold inst_wf, spec_components. eapply new_instance_name_rejects; eauto. }
    rewrite Hw. reflexivity.
  - exfalso. eapply instance_name_total_proof; eauto.
Qed.

(** * Kind 4: compact binary *)
Lemma silent_compact inst inp : mon_compact (run_compact inst inp) = [].
Proof.
  unfold run_compact. destruct (new_instance_name inst) as [inm|c|] eqn:E.
  - destruct (new_instance_name_ok _ _ E) as (-> & _ & _ & _ & _ & _ & Hv & _).
    destruct (new_digest_from_compact_binary inst inp) as [[v rest]|c|] eqn:Ec.
    + destruct (compact_sound _ _ _ _ Hv Ec) as (d & V & -> & _).
      destruct (dobs_facts d V) as (Hp & Hwf & Hcons & _).
      unfold mon_compact. cbn [head_is0]. rewrite !sx_nth_L. cbn [nth]. rewrite Hwf, Hcons.
      repeat rewrite ?has_panic_cons, ?has_panic_nil, ?has_panic_of_nat. rewrite Hp. reflexivity.
    + pose proof (compact_err _ _ _ Ec) as Hc. unfold mon_compact.
      assert (Hh : head_is0 (L [A c]) = false) by (destruct c; try lia; reflexivity).
      rewrite Hh, has_panic_cons, has_panic_nil, has_panic_A by lia. reflexivity.
    + exfalso. eapply compact_total_proof; eauto.
  - pose proof (new_instance_name_err _ _ E) as ->. reflexivity.
  - exfalso. eapply instance_name_total_proof; eauto.
Qed.

(** * Kind 3: structured digests *)
Lemma by_enum_key_ok : forallb (fun p : N * bare => N.eqb (fst p) (fst (snd p))) c20_bare_by_enum = true.
Proof. vm_compute. reflexivity. Qed.
Lemma by_size_key_ok : forallb (fun p : N * bare => N.eqb (fst p) (2 * snd (snd p))) c20_bare_by_size = true.
Proof. vm_compute. reflexivity. Qed.

Lemma by_enum_fst fn f : assoc fn c20_bare_by_enum = Some f -> fst f = fn.
Proof.
  intro H. apply assoc_In in H. pose proof by_enum_key_ok as T. rewrite forallb_forall in T.
  specialize (T _ H). cbn in T. apply N.eqb_eq in T. auto.
Qed.
Lemma by_size_len k f : assoc k c20_bare_by_size = Some f -> (k = 2 * snd f)%N.
Proof.
  intro H. apply assoc_In in H. pose proof by_size_key_ok as T. rewrite forallb_forall in T.
  specialize (T _ H). cbn in T. apply N.eqb_eq in T. auto.
Qed.

Lemma valid_comp_true c : valid_comp c = true -> valid_compressor c.
Proof.
  unfold valid_comp, valid_compressor. intro H. apply orb_prop in H. destruct H as [H|H].
  - left. apply N.eqb_eq. exact H.
  - right. apply existsb_exists in H. destruct H as ([c' n] & Hin & E). cbn in E. apply N.eqb_eq in E. subst.
    apply in_map_iff. exists (c, n). auto.
Qed.

Lemma get_read_path_ok d comp : valid_digest d -> exists s, get_read_path (pack d) comp = Ok s.
Proof.
  intro V. pose proof (unpack_pack d V) as U.
  destruct (pack_unpack_accessors d V) as [_ [Hh [_ [Hin _]]]].
  unfold get_hash_string, get_instance_name in Hh, Hin. rewrite U in Hh, Hin. cbn [bind u_hs u_he u_se] in Hh, Hin.
  unfold get_read_path. rewrite U. cbn [bind u_hs u_he u_se u_fn u_size]. rewrite Hin, Hh. cbn [bind].
  eexists. reflexivity.
Qed.

Lemma get_write_path_ok d uuid comp : valid_digest d -> exists s, get_write_path (pack d) uuid comp = Ok s.
Proof.
  intro V. pose proof (unpack_pack d V) as U.
  destruct (pack_unpack_accessors d V) as [_ [Hh [_ [Hin _]]]].
  unfold get_hash_string, get_instance_name in Hh, Hin. rewrite U in Hh, Hin. cbn [bind u_hs u_he u_se] in Hh, Hin.
  unfold get_write_path. rewrite U. cbn [bind u_hs u_he u_se u_fn u_size]. rewrite Hin, Hh. cbn [bind].
  eexists. reflexivity.
Qed.

Lemma flag_false n b : b = false -> flag n b = [].
Proof. intros ->. reflexivity. Qed.

Lemma silent_structured inp :
  sx_Z (sx_nth inp 4) < 2 ^ 63 ->
  mon_structured inp (run_structured (sxb (sx_nth inp 1)) (sx_N (sx_nth inp 2)) (sxb (sx_nth inp 3))
                                     (sx_Z (sx_nth inp 4)) (sx_N (sx_nth inp 5)) (sxb (sx_nth inp 6))) = [].
Proof.
  intro Hsz. unfold mon_structured. cbv zeta.
  set (inst := sxb (sx_nth inp 1)). set (fn := sx_N (sx_nth inp 2)). set (hash := sxb (sx_nth inp 3)).
  set (size := sx_Z (sx_nth inp 4)) in *. set (comp := sx_N (sx_nth inp 5)). set (uuid := sxb (sx_nth inp 6)).
  unfold run_structured.
  destruct (new_instance_name inst) as [inm|c|] eqn:Ei.
  2:{ pose proof (new_instance_name_err _ _ Ei) as ->. rewrite sx_nth_L. cbn [nth sx_Z].
      assert (Hw : inst_wf inst = false).
      { unfold inst_wf, spec_components. eapply new_instance_name_rejects; eauto. }
      rewrite Hw. reflexivity. }
  2:{ exfalso. eapply instance_name_total_proof; eauto. }
  destruct (new_instance_name_ok _ _ Ei) as (-> & _ & _ & _ & _ & _ & Hvi & _).
  unfold get_digest_function.
  destruct (get_bare_function fn (N.of_nat (length hash))) as [f|] eqn:Egb.
  2:{ rewrite sx_nth_L. cbn [nth sx_Z]. unfold get_bare_function in Egb.
      destruct (N.eqb fn c20_enum_unknown) eqn:Eu.
      - rewrite Egb. reflexivity.
      - destruct (is_supported fn) eqn:Es; [|reflexivity]. exfalso.
        apply is_supported_in in Es. destruct (supported_facts _ Es) as (_ & _ & _ & hb & Ha & _).
        rewrite Ha in Egb. discriminate. }
  destruct (new_digest inst f hash size) as [v|c|] eqn:En.
  3:{ exfalso. eapply new_digest_no_panic; eauto. }
  2:{ pose proof (new_digest_err _ _ _ _ _ En) as ->. rewrite sx_nth_L. cbn [nth sx_Z].
      unfold new_digest in En.
      destruct (N.eqb (N.of_nat (length hash)) (2 * snd f)) eqn:El; cbn [negb] in En.
      - destruct (forallb lowerhex hash); cbn [negb] in En; [|rewrite andb_false_r; reflexivity].
        destruct (Z.ltb_spec size 0) as [Hneg|]; [|discriminate].
        assert (Hn : (0 <=? size) = false) by (apply Z.leb_gt; exact Hneg).
        rewrite Hn, andb_false_r. reflexivity.
      - unfold get_bare_function in Egb. destruct (N.eqb fn c20_enum_unknown).
        + apply by_size_len in Egb. rewrite Egb, N.eqb_refl in El. discriminate.
        + unfold hash_size_of. rewrite Egb, El. reflexivity. }
  (* accepted *)
  destruct (new_digest_ok _ _ _ _ _ _ _ Hvi Egb Hsz En) as [V Hv].
  set (d0 := {| d_fn := fst f; d_hash := hash; d_size := size; d_inst := inst |}) in *.
  destruct (dobs_facts d0 V) as (Hp & Hwf & Hcons & E0 & E1 & E2 & E3 & E4).
  destruct (get_read_path_ok d0 comp V) as (srp & Hrp).
  destruct (get_write_path_ok d0 (uuid_string uuid) comp V) as (swp & Hwp).
  destruct (pack_unpack_accessors d0 V) as (_ & _ & _ & _ & H5 & _).
  destruct (compact_roundtrip_proof d0 trailing_garbage V) as (cb & Hcb & Hcrt).
  subst v. rewrite Hrp, Hwp, H5, Hcb. cbn [d_hash d_size d_inst d0] in *.
  rewrite En, Hcrt. cbn [after_format enc_out fst snd].
  rewrite !sx_nth_L. cbn [nth sx_Z]. rewrite Hwf, Hcons, E0, E1, E2, E3, E4. cbn [ok_val sx_Z negb andb].
  rewrite sx_N_of_N, !sxb_enc, !beqb_refl, Z.eqb_refl, !sx_eqb_refl. cbn [negb andb].
  assert (Hfn : N.eqb fn c20_enum_unknown || N.eqb (fst f) fn = true).
  { unfold get_bare_function in Egb. destruct (N.eqb fn c20_enum_unknown); [reflexivity|].
    apply by_enum_fst in Egb. rewrite Egb, N.eqb_refl. reflexivity. }
  cbn [d_fn d0]. rewrite Hfn. cbn [negb].
  assert (H2 : valid_comp comp && negb (sx_eqb (enc_parse (parse_read_path srp))
                                              (L [A 0; L [enc_bytes (pack d0); of_N comp]])) = false).
  { destruct (valid_comp comp) eqn:Evc; [|reflexivity]. cbn [andb].
    destruct (read_path_roundtrip_proof d0 comp V (valid_comp_true _ Evc)) as (s & Hs1 & Hs2).
    rewrite Hrp in Hs1. inversion Hs1. subst s. rewrite Hs2. cbn [enc_parse enc_out fst snd].
    rewrite sx_eqb_refl. reflexivity. }
  assert (H3 : valid_comp comp && negb (sx_eqb (enc_parse (parse_write_path swp))
                                              (L [A 0; L [enc_bytes (pack d0); of_N comp]])) = false).
  { destruct (valid_comp comp) eqn:Evc; [|reflexivity]. cbn [andb].
    destruct (uuid_string_ok uuid) as [U1 U2].
    destruct (write_path_roundtrip_proof d0 (uuid_string uuid) comp V (valid_comp_true _ Evc) U1 U2) as (s & Hs1 & Hs2).
    rewrite Hwp in Hs1. inversion Hs1. subst s. rewrite Hs2. cbn [enc_parse enc_out fst snd].
    rewrite sx_eqb_refl. reflexivity. }
  rewrite H2, H3.
  repeat rewrite ?has_panic_cons, ?has_panic_nil, ?has_panic_bytes, ?has_panic_of_N, ?has_panic_of_nat.
  rewrite Hp, (has_panic_enc_parse _ (good_parse_read srp)), (has_panic_enc_parse _ (good_parse_write swp)).
  reflexivity.
Qed.

(** * Kind 6: digest sets *)

(** ** The set monitor, clause by clause (definitionally [mon_sets]) *)
Definition m_entry_of (entries : list sx) (us : list bytes) (x : bytes) : sx :=
  match find (fun i => beqb (nth i us []) x) (seq 0 (length entries)) with
  | Some i => nth i entries (L [])
  | None => L []
  end.
Definition m_inst_of entries us x := sxb (sx_nth (m_entry_of entries us x) 0).
Definition m_size_of entries us x := sx_Z (sx_nth (m_entry_of entries us x) 3).
Definition m_noinst (e : sx) := L [sx_nth e 1; sx_nth e 2; sx_nth e 3].
Definition c6 (entries : list sx) (us k0 : list bytes) : bool :=
  negb (forallb (fun i => forallb (fun j =>
          Bool.eqb (beqb (nth i us []) (nth j us [])) (sx_eqb (nth i entries (L [])) (nth j entries (L [])))
          && Bool.eqb (beqb (nth i k0 []) (nth j k0 []))
                      (sx_eqb (m_noinst (nth i entries (L []))) (m_noinst (nth j entries (L [])))))
        (seq 0 (length entries))) (seq 0 (length entries)))
  || negb (Nat.eqb (length us) (length entries)) || negb (Nat.eqb (length k0) (length entries)).
Definition c10 (sets : list (list nat)) (us : list bytes) (built : list (list bytes)) : bool :=
  negb (Nat.eqb (length built) (length sets))
  || negb (forallb (fun p : list nat * list bytes => strictly_sorted (snd p)
                               && same_set (snd p) (map (fun i => nth i us []) (fst p)))
                   (combine sets built)).
Definition c11 (built : list (list bytes)) (u : list bytes) (o8 o3 : sx) : bool :=
  negb (strictly_sorted u && same_set u (concat built)) || negb (sx_eqb o8 o3).
Definition c12 (a b l0 l1 l2 : list bytes) : bool :=
  negb (strictly_sorted l0 && strictly_sorted l1 && strictly_sorted l2
        && same_set l0 (filter (fun x => negb (memb x b)) a)
        && same_set l1 (filter (fun x => memb x b) a)
        && same_set l2 (filter (fun x => negb (memb x a)) b)).
Definition c13 entries us (u : list bytes) (o5 : sx) : bool :=
  negb (sx_eqb o5 (L [A 0; enc_sets (map (fun i => filter (fun x => beqb (m_inst_of entries us x) i) u)
                                         (first_occ [] (map (m_inst_of entries us) u)))])).
Definition c14 entries us (u : list bytes) (o6 : sx) : bool :=
  negb (sx_eqb o6 (L [A 0; enc_list (filter (fun x => negb (m_size_of entries us x =? 0)) u)])).
Definition c15 (built : list (list bytes)) (o7 : sx) : bool :=
  negb (sx_eqb o7 (L (map (fun s => of_option enc_bytes (match s with [] => None | x :: _ => Some x end)) built))).

Lemma mon_sets_eq inp obs :
  mon_sets inp obs =
  let entries := sx_list (sx_nth inp 1) in
  let sets := map sx_nats (sx_list (sx_nth inp 2)) in
  let us := map sxb (sx_list (sx_nth obs 0)) in
  let k0 := map (fun s => sxb (ok_val s)) (sx_list (sx_nth obs 1)) in
  let built := map (fun s => map sxb (sx_list s)) (sx_list (sx_nth obs 2)) in
  let u := map sxb (sx_list (sx_nth obs 3)) in
  let lst (s : sx) := map sxb (sx_list s) in
  flag 9 (has_panic obs) ++ flag 6 (c6 entries us k0) ++ flag 10 (c10 sets us built) ++
  flag 11 (c11 built u (sx_nth obs 8) (sx_nth obs 3)) ++
  flag 12 (c12 (nth 0 built []) (nth 1 built []) (lst (sx_nth (sx_nth obs 4) 0)) (lst (sx_nth (sx_nth obs 4) 1))
               (lst (sx_nth (sx_nth obs 4) 2))) ++
  flag 13 (c13 entries us u (sx_nth obs 5)) ++ flag 14 (c14 entries us u (sx_nth obs 6)) ++
  flag 15 (c15 built (sx_nth obs 7)).
Proof. reflexivity. Qed.

(** ** Generic facts *)
Lemma strictly_sorted_of l : sorted l -> strictly_sorted l = true.
Proof.
  induction l as [|x r IH]; intro H; [reflexivity|]. cbn [strictly_sorted].
  destruct r as [|y r']; [reflexivity|].
  pose proof (sorted_head_lt x (y :: r') y H (or_introl eq_refl)) as Hlt. unfold blt in Hlt. rewrite Hlt.
  apply IH. eapply sorted_tail; eauto.
Qed.

Lemma subset_intro a b : (forall x, In x a -> In x b) -> subset a b = true.
Proof. intro H. unfold subset. apply forallb_forall. intros x Hx. apply memb_In, H, Hx. Qed.

Lemma same_set_intro a b : (forall x, In x a <-> In x b) -> same_set a b = true.
Proof. intro H. unfold same_set. rewrite !subset_intro; [reflexivity| |]; intros x Hx; apply H, Hx. Qed.

Lemma sorted_ext a : forall b, sorted a -> sorted b -> (forall x, In x a <-> In x b) -> a = b.
Proof.
  induction a as [|x a IH]; intros b Ha Hb H.
  - destruct b as [|y b]; [reflexivity|]. exfalso. apply (H y). left. reflexivity.
  - destruct b as [|y b]; [exfalso; apply (H x); left; reflexivity|].
    assert (Exy : x = y).
    { destruct (proj1 (H x) (or_introl eq_refl)) as [E|Hxb]; [auto|].
      destruct (proj2 (H y) (or_introl eq_refl)) as [E|Hya]; [auto|].
      pose proof (sorted_head_lt _ _ _ Hb Hxb) as L1. pose proof (sorted_head_lt _ _ _ Ha Hya) as L2.
      unfold blt in *. rewrite (bltb_asym _ _ L1) in L2. discriminate. }
    subst y. f_equal. apply IH; [eapply sorted_tail; eauto|eapply sorted_tail; eauto|].
    pose proof (sorted_NoDup _ Ha) as Na. pose proof (sorted_NoDup _ Hb) as Nb.
    inversion Na; inversion Nb; subst.
    intro z. split; intro Hz.
    + destruct (proj1 (H z) (or_intror Hz)) as [E|Hzb]; [subst; contradiction|exact Hzb].
    + destruct (proj2 (H z) (or_intror Hz)) as [E|Hza]; [subst; contradiction|exact Hza].
Qed.

Lemma first_occ_firsts_gen l : forall acc seen,
  (forall x, memb x seen = existsb (beqb x) acc) ->
  fold_left (fstep beqb) l acc = acc ++ first_occ seen l.
Proof.
  induction l as [|x r IH]; intros acc seen H; cbn [fold_left first_occ]; [rewrite app_nil_r; reflexivity|].
  unfold fstep at 2. rewrite <- H. destruct (memb x seen) eqn:E.
  - apply IH, H.
  - rewrite (IH (acc ++ [x]) (x :: seen)).
    + rewrite <- app_assoc. reflexivity.
    + intro y. rewrite existsb_app. cbn [memb existsb]. unfold memb in H. rewrite <- H.
      unfold memb. rewrite orb_false_r. apply orb_comm.
Qed.

Lemma first_occ_firsts l : first_occ [] l = firsts beqb l.
Proof. unfold firsts. rewrite (first_occ_firsts_gen l [] []); [reflexivity|]. intro x. reflexivity. Qed.

Lemma filter_map_comm {X Y} (p : Y -> bool) (f : X -> Y) l :
  filter p (map f l) = map f (filter (fun x => p (f x)) l).
Proof.
  induction l as [|x r IH]; [reflexivity|]. cbn [map filter]. destruct (p (f x)); cbn [map]; rewrite IH; reflexivity.
Qed.

Lemma filter_ext_in' {X} (p q : X -> bool) l : (forall x, In x l -> p x = q x) -> filter p l = filter q l.
Proof.
  induction l as [|x r IH]; intro H; [reflexivity|]. cbn [filter].
  rewrite (H x (or_introl eq_refl)), IH; [reflexivity|]. intros y Hy. apply H. right. exact Hy.
Qed.

Lemma nth_map_lt {X Y} (f : X -> Y) l i dx dy : (i < length l)%nat -> nth i (map f l) dy = f (nth i l dx).
Proof. intro H. rewrite (nth_indep _ dy (f dx)) by (rewrite map_length; exact H). apply map_nth. Qed.

Lemma eqb_iff (a b : bool) : (a = true <-> b = true) -> Bool.eqb a b = true.
Proof. destruct a, b; intros [H1 H2]; try reflexivity; [specialize (H1 eq_refl)|specialize (H2 eq_refl)]; discriminate. Qed.

Lemma dec_enc_list l : map sxb (sx_list (enc_list l)) = l.
Proof.
  unfold enc_list. cbn [sx_list]. rewrite map_map. rewrite <- (map_id l) at 2. apply map_ext. apply sxb_enc.
Qed.

Lemma dec_enc_sets l : map (fun s => map sxb (sx_list s)) (sx_list (enc_sets l)) = l.
Proof.
  unfold enc_sets. cbn [sx_list]. rewrite map_map. rewrite <- (map_id l) at 2. apply map_ext. apply dec_enc_list.
Qed.

(** ** Universe entries *)
Definition enc_entry (d : digest) : sx :=
  L [enc_bytes (d_inst d); of_N (d_fn d); enc_bytes (d_hash d); A (d_size d)].

Lemma sx_Ns_enc b : sx_Ns (enc_bytes b) = b.
Proof. exact (sxb_enc b). Qed.

Lemma dec_entry_enc d : valid_digest d -> dec_entry (enc_entry d) = Ok (pack d).
Proof.
  intro V. unfold dec_entry, enc_entry. rewrite !sx_nth_L. cbn [nth sx_Z]. rewrite sx_N_of_N, !sx_Ns_enc.
  rewrite (instance_name_accepts_valid_proof _ (vd_inst d V)). cbn [bind].
  destruct (valid_bare d V) as (hb & Hgb & _). unfold get_digest_function. rewrite Hgb. cbn [bind].
  apply new_digest_valid; assumption.
Qed.

Lemma map_outcome_entries ds :
  Forall valid_digest ds -> map_outcome dec_entry (map enc_entry ds) = Ok (map pack ds).
Proof.
  induction 1 as [|d ds V _ IH]; [reflexivity|]. cbn [map map_outcome].
  rewrite (dec_entry_enc d V). cbn [bind]. rewrite IH. reflexivity.
Qed.

Lemma pack_inj d1 d2 : valid_digest d1 -> valid_digest d2 -> pack d1 = pack d2 -> d1 = d2.
Proof.
  intros V1 V2 E. apply (key_with_instance_eq_iff d1 d2 V1 V2).
  change (get_key (pack d1) 1) with (Ok (pack d1)). change (get_key (pack d2) 1) with (Ok (pack d2)).
  rewrite E. reflexivity.
Qed.

Lemma enc_entry_inj d1 d2 : enc_entry d1 = enc_entry d2 -> d1 = d2.
Proof.
  unfold enc_entry. intro H.
  pose proof (f_equal (fun s => sxb (sx_nth s 0)) H) as H1.
  pose proof (f_equal (fun s => sx_N (sx_nth s 1)) H) as H2.
  pose proof (f_equal (fun s => sxb (sx_nth s 2)) H) as H3.
  pose proof (f_equal (fun s => sx_Z (sx_nth s 3)) H) as H4.
  cbv beta in H1, H2, H3, H4. rewrite !sx_nth_L in H1, H2, H3, H4. cbn [nth sx_Z] in H1, H2, H3, H4.
  rewrite !sxb_enc in H1, H3. rewrite !sx_N_of_N in H2.
  destruct d1, d2. cbn in *. subst. reflexivity.
Qed.

Section Universe.
  Variable ds : list digest.
  Hypothesis V : Forall valid_digest ds.
  Local Notation entries := (map enc_entry ds).
  Local Notation us := (map pack ds).
  Let d0 : digest := {| d_fn := 0%N; d_hash := []; d_size := 0; d_inst := [] |}.

  Lemma valid_in d : In d ds -> valid_digest d.
  Proof. rewrite Forall_forall in V. apply V. Qed.

  Lemma nth_us i : (i < length ds)%nat -> nth i us [] = pack (nth i ds d0).
  Proof. apply nth_map_lt. Qed.
  Lemma nth_entries i : (i < length ds)%nat -> nth i entries (L []) = enc_entry (nth i ds d0).
  Proof. apply nth_map_lt. Qed.

  Lemma entry_of_pack d : In d ds -> m_entry_of entries us (pack d) = enc_entry d.
  Proof.
    intro Hd. unfold m_entry_of. rewrite map_length.
    destruct (find (fun i => beqb (nth i us []) (pack d)) (seq 0 (length ds))) as [i|] eqn:Ef.
    - apply find_some in Ef. destruct Ef as [Hi Hb]. apply in_seq in Hi. apply beqb_eq in Hb.
      rewrite nth_us in Hb by lia. rewrite nth_entries by lia. f_equal.
      apply pack_inj; [apply valid_in, nth_In; lia|apply valid_in, Hd|exact Hb].
    - exfalso. destruct (In_nth _ _ d0 Hd) as (j & Hj & Ej).
      pose proof (find_none _ _ Ef j) as Hn. cbv beta in Hn.
      rewrite nth_us, Ej, beqb_refl in Hn by exact Hj. specialize (Hn ltac:(apply in_seq; lia)). discriminate.
  Qed.

  Lemma c6_false : c6 entries us (map key0 ds) = false.
  Proof.
    unfold c6. rewrite !map_length, Nat.eqb_refl. cbn [negb orb]. rewrite !orb_false_r.
    apply negb_false_iff, forallb_forall. intros i Hi. apply forallb_forall. intros j Hj.
    apply in_seq in Hi. apply in_seq in Hj.
    rewrite !nth_us, !nth_entries by lia.
    rewrite (nth_map_lt key0 ds i d0 []), (nth_map_lt key0 ds j d0 []) by lia.
    set (di := nth i ds d0). set (dj := nth j ds d0).
    assert (Vi : valid_digest di) by (apply valid_in, nth_In; lia).
    assert (Vj : valid_digest dj) by (apply valid_in, nth_In; lia).
    apply andb_true_intro. split; apply eqb_iff.
    - split; intro H.
      + apply beqb_eq in H. apply pack_inj in H; [|assumption|assumption]. rewrite H. apply sx_eqb_refl.
      + apply sx_eqb_eq, enc_entry_inj in H. rewrite H. apply beqb_refl.
    - destruct (pack_unpack_accessors di Vi) as (_ & _ & _ & _ & _ & _ & Ki & _).
      destruct (pack_unpack_accessors dj Vj) as (_ & _ & _ & _ & _ & _ & Kj & _).
      pose proof (key_without_instance_eq_iff di dj Vi Vj) as K. rewrite Ki, Kj in K.
      unfold m_noinst, enc_entry. rewrite !sx_nth_L. cbn [nth].
      split; intro H.
      + apply beqb_eq in H. destruct (proj1 K (f_equal Ok H)) as (E1 & E2 & E3).
        rewrite E1, E2, E3. apply sx_eqb_refl.
      + apply sx_eqb_eq in H.
        pose proof (f_equal (fun s => sx_N (sx_nth s 0)) H) as H1.
        pose proof (f_equal (fun s => sxb (sx_nth s 1)) H) as H2.
        pose proof (f_equal (fun s => sx_Z (sx_nth s 2)) H) as H3.
        cbv beta in H1, H2, H3. rewrite !sx_nth_L in H1, H2, H3. cbn [nth sx_Z] in H1, H2, H3.
        rewrite !sx_N_of_N in H1. rewrite !sxb_enc in H2.
        assert (E : Ok (key0 di) = Ok (key0 dj)) by (apply K; auto).
        inversion E as [E']. rewrite E'. apply beqb_refl.
  Qed.

  (** lists of members of the universe *)
  Lemma members l : (forall x, In x l -> In x us) ->
    exists dl, l = map pack dl /\ Forall (fun d => In d ds) dl.
  Proof.
    induction l as [|x r IH]; intro H; [exists []; split; [reflexivity|constructor]|].
    destruct IH as (dl & -> & Hdl); [intros y Hy; apply H; right; exact Hy|].
    destruct (proj1 (in_map_iff _ _ _) (H x (or_introl eq_refl))) as (d & <- & Hd).
    exists (d :: dl). split; [reflexivity|constructor; assumption].
  Qed.

  Lemma inst_of_pack d : In d ds -> m_inst_of entries us (pack d) = d_inst d.
  Proof.
    intro Hd. unfold m_inst_of. rewrite (entry_of_pack d Hd). unfold enc_entry. rewrite sx_nth_L. cbn [nth].
    apply sxb_enc.
  Qed.
  Lemma size_of_pack d : In d ds -> m_size_of entries us (pack d) = d_size d.
  Proof.
    intro Hd. unfold m_size_of. rewrite (entry_of_pack d Hd). unfold enc_entry. rewrite sx_nth_L. reflexivity.
  Qed.

  Lemma c13_false dl :
    Forall (fun d => In d ds) dl ->
    c13 entries us (map pack dl) (enc_out enc_sets (partition_by_instance_name (map pack dl))) = false.
  Proof.
    intro Hdl. assert (Vdl : Forall valid_digest dl).
    { apply Forall_forall. intros d Hd. rewrite Forall_forall in Hdl. apply valid_in, Hdl, Hd. }
    unfold c13. rewrite (partition_spec_proof dl Vdl). cbn [enc_out]. apply negb_false_iff.
    match goal with |- sx_eqb ?a ?b = true => replace b with a; [apply sx_eqb_refl|] end.
    do 3 f_equal. rewrite map_map.
    assert (E : map (fun x => m_inst_of entries us (pack x)) dl = map d_inst dl).
    { apply map_ext_in. intros d Hd. apply inst_of_pack. rewrite Forall_forall in Hdl. apply Hdl, Hd. }
    rewrite E, first_occ_firsts. f_equal. apply map_ext. intro i.
    rewrite filter_map_comm. f_equal. apply filter_ext_in'. intros d Hd.
    rewrite inst_of_pack; [reflexivity|]. rewrite Forall_forall in Hdl. apply Hdl, Hd.
  Qed.

  Lemma c14_false dl :
    Forall (fun d => In d ds) dl -> sorted (map pack dl) ->
    c14 entries us (map pack dl) (enc_out enc_list (remove_empty_blob (map pack dl))) = false.
  Proof.
    intros Hdl Hs. assert (Vdl : Forall valid_digest dl).
    { apply Forall_forall. intros d Hd. rewrite Forall_forall in Hdl. apply valid_in, Hdl, Hd. }
    unfold c14. destruct (remove_empty_spec_proof dl Vdl Hs) as (r & -> & _ & ->). cbn [enc_out].
    apply negb_false_iff.
    assert (E : filter (fun x => negb (m_size_of entries us x =? 0)) (map pack dl)
                = map pack (filter (fun d => negb (d_size d =? 0)) dl)).
    { rewrite filter_map_comm. f_equal. apply filter_ext_in'. intros d Hd.
      rewrite size_of_pack; [reflexivity|]. rewrite Forall_forall in Hdl. apply Hdl, Hd. }
    rewrite E. apply sx_eqb_refl.
  Qed.
End Universe.

Lemma first_occ_in l : forall seen k, In k (first_occ seen l) <-> (In k l /\ memb k seen = false).
Proof.
  induction l as [|a l IH]; intros seen k; cbn [first_occ].
  - split; [intros []|intros [[] _]].
  - destruct (memb a seen) eqn:E.
    + rewrite IH. split; intros [H1 H2]; (split; [|exact H2]); [right; exact H1|].
      destruct H1 as [->|H1]; [congruence|exact H1].
    + cbn [In]. rewrite IH.
      assert (Hm : memb k (a :: seen) = beqb k a || memb k seen) by reflexivity.
      rewrite Hm. split.
      * intros [->|[H1 H2]]; [split; [left; reflexivity|exact E]|].
        apply orb_false_iff in H2. destruct H2 as [_ H2]. split; [right; exact H1|exact H2].
      * intros [[->|H1] H2]; [left; reflexivity|].
        destruct (beqb k a) eqn:Eb; [apply beqb_eq in Eb; subst; left; reflexivity|].
        right. split; [exact H1|]. cbn [orb]. exact H2.
Qed.

Lemma sorted_map_filter {X} (f : X -> bytes) (p : X -> bool) l :
  sorted (map f l) -> sorted (map f (filter p l)).
Proof.
  induction l as [|x l IH]; intro H; [constructor|]. cbn [map] in H. inversion H as [|? ? Hs Hx]; subst.
  cbn [filter]. destruct (p x); [|apply IH, Hs]. cbn [map]. constructor; [apply IH, Hs|].
  rewrite Forall_forall in *. intros y Hy. apply Hx. apply in_map_iff in Hy. destruct Hy as (z & <- & Hz).
  apply filter_In in Hz. apply in_map. tauto.
Qed.

Lemma combine_map_map {X Y Z} (f : X -> Y) (g : X -> Z) l :
  combine (map f l) (map g l) = map (fun x => (f x, g x)) l.
Proof. induction l as [|x l IH]; [reflexivity|]. cbn. rewrite IH. reflexivity. Qed.

Lemma sorted_nil : sorted [].
Proof. constructor. Qed.

Lemma silent_sets inp ds :
  Forall valid_digest ds -> sx_list (sx_nth inp 1) = map enc_entry ds ->
  Forall (fun s => Forall (fun i => (i < length ds)%nat) (sx_nats s)) (sx_list (sx_nth inp 2)) ->
  mon_sets inp (run_sets (sx_nth inp 1) (sx_nth inp 2)) = [].
Proof.
  intros V Hent Hsets. unfold run_sets. rewrite Hent, (map_outcome_entries ds V). cbv zeta.
  set (us := map pack ds).
  set (built := map (fun s : sx => build (map (fun i : nat => nth i us []) (sx_nats s))) (sx_list (sx_nth inp 2))).
  set (u := union built).
  destruct (diff_inter (nth 0 built []) (nth 1 built [])) as [[oa bo] ob] eqn:Edi.
  assert (Hbs : Forall sorted built).
  { apply Forall_forall. intros s Hs. apply in_map_iff in Hs. destruct Hs as (s0 & <- & _). apply build_spec_proof. }
  assert (Hbm : forall s x, In s built -> In x s -> In x us).
  { intros s x Hs Hx. apply in_map_iff in Hs. destruct Hs as (s0 & <- & Hs0).
    apply (proj1 (proj2 (proj2 (build_spec_proof _)) _)) in Hx. apply in_map_iff in Hx. destruct Hx as (i & <- & Hi).
    rewrite Forall_forall in Hsets. specialize (Hsets s0 Hs0). rewrite Forall_forall in Hsets.
    apply nth_In. unfold us. rewrite map_length. apply Hsets, Hi. }
  destruct (union_spec_proof built Hbs) as (Hus & _ & Hum). fold u in Hus, Hum.
  destruct (members ds u) as (du & Hdu & Hdl).
  { intros x Hx. apply Hum in Hx. destruct Hx as (s & Hs & Hx). eapply Hbm; eauto. }
  assert (Vdu : Forall valid_digest du).
  { apply Forall_forall. intros d Hd. rewrite Forall_forall in Hdl, V. apply V, Hdl, Hd. }
  (* the partition joins back to the set *)
  assert (Hpart : exists ps, partition_by_instance_name u = Ok ps /\ union ps = u).
  { rewrite Hdu. rewrite (partition_spec_proof du Vdu). eexists. split; [reflexivity|].
    set (ps := map _ (firsts beqb (map d_inst du))).
    assert (Hps : Forall sorted ps).
    { apply Forall_forall. intros p Hp. apply in_map_iff in Hp. destruct Hp as (i & <- & _).
      apply sorted_map_filter. rewrite <- Hdu. exact Hus. }
    destruct (union_spec_proof ps Hps) as (Hs & _ & Hm).
    apply sorted_ext; [exact Hs|rewrite <- Hdu; exact Hus|].
    intro x. rewrite Hm. split.
    - intros (p & Hp & Hx). apply in_map_iff in Hp. destruct Hp as (i & <- & _).
      apply in_map_iff in Hx. destruct Hx as (d & <- & Hd). apply filter_In in Hd. apply in_map. tauto.
    - intro Hx. apply in_map_iff in Hx. destruct Hx as (d & <- & Hd).
      exists (map pack (filter (fun d' => beqb (d_inst d') (d_inst d)) du)). split.
      + apply in_map_iff. exists (d_inst d). split; [reflexivity|].
        rewrite <- first_occ_firsts. apply first_occ_in. split; [apply in_map, Hd|reflexivity].
      + apply in_map, filter_In. split; [exact Hd|apply beqb_refl]. }
  destruct Hpart as (ps & Hps & Hups).
  rewrite mon_sets_eq. cbv zeta. rewrite !sx_nth_L. cbn [nth]. try rewrite !sx_nth_L. cbn [nth].
  rewrite Hent, !dec_enc_list, dec_enc_sets.
  (* keys without instance name *)
  assert (Hk0 : map (fun s => sxb (ok_val s)) (sx_list (L (map (fun v => enc_out enc_bytes (get_key v 0)) us)))
                = map key0 ds).
  { cbn [sx_list]. unfold us. rewrite !map_map. apply map_ext_in. intros d Hd.
    rewrite Forall_forall in V. destruct (pack_unpack_accessors d (V d Hd)) as (_ & _ & _ & _ & _ & _ & K & _).
    rewrite K. cbn [enc_out ok_val]. apply sxb_enc. }
  rewrite Hk0.
  pose proof (c6_false ds V) as H6. fold us in H6. rewrite H6.
  (* Build *)
  assert (H10 : c10 (map sx_nats (sx_list (sx_nth inp 2))) us built = false).
  { unfold c10, built. rewrite !map_length, Nat.eqb_refl. cbn [negb orb]. apply negb_false_iff.
    rewrite combine_map_map. apply forallb_forall. intros p Hp. apply in_map_iff in Hp.
    destruct Hp as (s0 & <- & _). cbn [fst snd]. destruct (build_spec_proof (map (fun i : nat => nth i us []) (sx_nats s0))) as (B1 & _ & B3).
    rewrite (strictly_sorted_of _ B1). cbn [andb]. apply same_set_intro. exact B3. }
  rewrite H10.
  (* GetUnion, and the union of the partition *)
  assert (H11 : c11 built u (match partition_by_instance_name u with Ok ps0 => enc_list (union ps0) | _ => skipped end)
                    (enc_list u) = false).
  { unfold c11. rewrite Hps, Hups, sx_eqb_refl, (strictly_sorted_of _ Hus). cbn [andb negb orb].
    rewrite orb_false_r. apply negb_false_iff, same_set_intro. intro x. rewrite Hum, in_concat. reflexivity. }
  rewrite H11.
  (* GetDifferenceAndIntersection *)
  assert (Hn : forall i, sorted (nth i built [])).
  { intro i. destruct (Nat.lt_ge_cases i (length built)) as [Hl|Hl].
    - rewrite Forall_forall in Hbs. apply Hbs, nth_In, Hl.
    - rewrite nth_overflow by exact Hl. apply sorted_nil. }
  assert (H12 : c12 (nth 0 built []) (nth 1 built []) oa bo ob = false).
  { pose proof (diff_inter_spec_proof _ _ (Hn 0%nat) (Hn 1%nat)) as D. rewrite Edi in D.
    destruct D as ((S1 & S2 & S3) & M1 & M2 & M3).
    unfold c12. rewrite (strictly_sorted_of _ S1), (strictly_sorted_of _ S2), (strictly_sorted_of _ S3).
    cbn [andb]. apply negb_false_iff.
    rewrite !same_set_intro; [reflexivity| | |].
    - intro x. rewrite M3, filter_In. split; intros [A1 A2]; (split; [exact A1|]).
      + apply negb_true_iff. destruct (memb x (nth 0 built [])) eqn:E; [|reflexivity]. apply memb_In in E. contradiction.
      + intro Hin. apply memb_In in Hin. rewrite Hin in A2. discriminate.
    - intro x. rewrite M2, filter_In. split; intros [A1 A2]; (split; [exact A1|]); apply memb_In; exact A2.
    - intro x. rewrite M1, filter_In. split; intros [A1 A2]; (split; [exact A1|]).
      + apply negb_true_iff. destruct (memb x (nth 1 built [])) eqn:E; [|reflexivity]. apply memb_In in E. contradiction.
      + intro Hin. apply memb_In in Hin. rewrite Hin in A2. discriminate. }
  rewrite H12.
  (* PartitionByInstanceName, RemoveEmptyBlob *)
  assert (H13 : c13 (map enc_entry ds) us u (enc_out enc_sets (partition_by_instance_name u)) = false).
  { rewrite Hdu. apply c13_false; assumption. }
  assert (H14 : c14 (map enc_entry ds) us u (enc_out enc_list (remove_empty_blob u)) = false).
  { rewrite Hdu. apply c14_false; [assumption|assumption|]. rewrite <- Hdu. exact Hus. }
  rewrite H13, H14.
  assert (H15 : c15 built (L (map (fun s => of_option enc_bytes (first s)) built)) = false).
  { unfold c15. apply negb_false_iff. apply sx_eqb_refl. }
  rewrite H15.
  (* no panic marker *)
  match goal with |- flag 9 ?b ++ _ = [] => assert (Hb : b = false); [|rewrite Hb; reflexivity] end.
  destruct (remove_empty_spec_proof du Vdu) as (r & Hr & _); [rewrite <- Hdu; exact Hus|].
  rewrite <- Hdu in Hr. rewrite Hps, Hr. cbn [enc_out].
  repeat rewrite ?has_panic_cons, ?has_panic_nil, ?has_panic_list, ?has_panic_sets.
  rewrite !has_panic_A by lia.
  rewrite (has_panic_map (fun v => enc_out enc_bytes (get_key v 0)) us).
  2:{ intros v Hv. apply in_map_iff in Hv. destruct Hv as (d & <- & Hd). rewrite Forall_forall in V.
      destruct (pack_unpack_accessors d (V d Hd)) as (_ & _ & _ & _ & _ & _ & K & _). rewrite K.
      apply has_panic_enc_out; [apply good_ok|]. intros. apply has_panic_bytes. }
  rewrite (has_panic_map (fun s => of_option enc_bytes (first s)) built).
  2:{ intros s _. destruct (first s) as [x|]; cbn [of_option]; [|reflexivity].
      rewrite has_panic_cons, has_panic_nil, has_panic_bytes. reflexivity. }
  reflexivity.
Qed.

(** * The theorem *)

(** The universe of a set case is a list of canonically written valid digests,
    and the sets are lists of indices into it. *)
Definition universe_ok (inp : sx) : Prop :=
  exists ds, Forall valid_digest ds /\ sx_list (sx_nth inp 1) = map enc_entry ds
    /\ Forall (fun s => Forall (fun i => (i < length ds)%nat) (sx_nats s)) (sx_list (sx_nth inp 2)).

Definition inp_wf20 (inp : sx) : Prop :=
  (sx_Z (sx_nth inp 0) = 3 -> sx_Z (sx_nth inp 4) < 2 ^ 63)
  /\ (sx_Z (sx_nth inp 0) = 6 -> universe_ok inp).

Theorem mon20_silent_on_model inp : inp_wf20 inp -> mon20 inp (run20 inp) = [].
Proof.
  intros [H3 H6]. unfold mon20, run20.
  destruct (sx_Z (sx_nth inp 0)) as [|p|p] eqn:E; [apply silent_read_path| |reflexivity].
  do 3 (try destruct p as [p|p|]); try reflexivity;
    match type of E with
    | _ = 6 => destruct (H6 eq_refl) as (ds & V & Hent & Hs); eapply silent_sets; eauto
    | _ = 4 => apply silent_compact
    | _ = 2 => apply silent_instance_name
    | _ = 3 => apply silent_structured; apply H3; reflexivity
    | _ = 1 => apply silent_write_path
    end.
Qed.

(** * Every hypothesis is needed: the monitor fires on the model without it *)
Definition ex_md5hex : sx :=
  L (map A [56; 98; 49; 97; 57; 57; 53; 51; 99; 52; 54; 49; 49; 50; 57; 54; 97; 56; 50; 55; 97; 98; 102; 56; 99; 52; 55; 56; 48; 52; 100; 55]).
Definition ex_uuid : sx := L (map A [1; 2; 3; 4; 5; 6; 7; 8; 9; 10; 11; 12; 13; 14; 15; 16]).
Definition ex_structured (size : Z) : sx := L [A 3; L [A 97]; A 3; ex_md5hex; A size; A 0; ex_uuid].
Definition ex_entry (inst : sx) (fn size : Z) : sx := L [inst; A fn; ex_md5hex; A size].
Definition ex_sets (u s : sx) : sx := L [A 6; u; s].

(** a structured digest whose size is 2^63 (not an int64): accepted by the
    model's constructor (which only rejects negative sizes), degenerate for the monitor *)
Example size_bound_needed :
  mon20 (ex_structured (2 ^ 63)) (run20 (ex_structured (2 ^ 63))) = [8; 1; 2; 3; 4; 5].
Proof. vm_compute. reflexivity. Qed.

(** two universe entries that differ only in how a byte is written (-5 decodes to 0) *)
Example canonical_entries_needed :
  let i := ex_sets (L [ex_entry (L [A 0]) 3 5; ex_entry (L [A (-5)]) 3 5]) (L []) in
  mon20 i (run20 i) = [6].
Proof. vm_compute. reflexivity. Qed.

(** a universe entry that is not a digest (digest function 99) *)
Example valid_entries_needed :
  let i := ex_sets (L [ex_entry (L [A 97]) 99 5]) (L []) in mon20 i (run20 i) = [6; 13; 14].
Proof. vm_compute. reflexivity. Qed.

(** a universe entry of size 2^64 (the accessor's int64 arithmetic wraps it to 0) *)
Example entry_size_needed :
  let i := ex_sets (L [ex_entry (L [A 97]) 3 (2 ^ 64)]) (L [L [A 0]]) in mon20 i (run20 i) = [14].
Proof. vm_compute. reflexivity. Qed.

(** a set member that is not an index into the universe *)
Example set_index_needed :
  let i := ex_sets (L [ex_entry (L [A 97]) 3 5]) (L [L [A 5]]) in mon20 i (run20 i) = [9; 11; 13; 14].
Proof. vm_compute. reflexivity. Qed.

(** Non-vacuity: a set case inside the domain (two digests with different instance
    names, the second an empty blob; two overlapping sets). *)
Definition ex_sets_ok : sx :=
  ex_sets (L [ex_entry (L [A 97]) 3 5; ex_entry (L [A 98]) 3 0]) (L [L [A 0; A 1]; L [A 1]]).

Example ex_sets_ok_wf : inp_wf20 ex_sets_ok.
Proof.
  split; [intro H; vm_compute in H; discriminate|]. intros _.
  assert (Hv : forall inst size, (inst = [97%N] \/ inst = [98%N]) -> 0 <= size < 2 ^ 63 ->
             valid_digest {| d_fn := 3%N; d_hash := sxb ex_md5hex; d_size := size; d_inst := inst |}).
  { intros inst size Hi Hs. constructor; cbn [d_fn d_hash d_size d_inst].
    - vm_compute. tauto.
    - exists 16%N. split; reflexivity.
    - reflexivity.
    - exact Hs.
    - exists [inst]. split; [reflexivity|]. constructor; [|constructor].
      destruct Hi as [-> | ->]; (split; [discriminate|split; [cbn; unfold slash; intuition discriminate|]]);
        intro K; apply memb_In in K; vm_compute in K; discriminate. }
  exists [ {| d_fn := 3%N; d_hash := sxb ex_md5hex; d_size := 5; d_inst := [97%N] |};
           {| d_fn := 3%N; d_hash := sxb ex_md5hex; d_size := 0; d_inst := [98%N] |} ].
  split; [|split].
  - constructor; [apply Hv; [auto|lia]|constructor; [apply Hv; [auto|lia]|constructor]].
  - reflexivity.
  - repeat constructor.
Qed.

Example ex_sets_ok_silent : mon20 ex_sets_ok (run20 ex_sets_ok) = [].
Proof. apply mon20_silent_on_model, ex_sets_ok_wf. Qed.
