(** C20: the monitor of Run/R20.v is silent on the model's own output
    ([judge20] is deterministic: [mon20 inp (run20 inp) = []]).

    Hypotheses ([inp_wf20]), each shown necessary by a [vm_compute] witness at
    the end of this file:
      - structured digests (kind 3): the size is below 2^63 (an int64);
      - digest sets (kind 6): every universe entry is written canonically
        (byte atoms >= 0, function atom >= 0, exactly four fields) with a size
        below 2^63, and set members are indices into the universe.
    harness/c20.go takes sizes as int64, bytes as 0..255 and builds the entries
    itself, so none of the witnesses is an input the harness can produce. *)
From Coq Require Import List NArith ZArith Bool Lia.
Import ListNotations.
From BBS Require Import Common.Sx Generated.Consts Digest.DigestModel Digest.SetModel
  Digest.DigestProofs Digest.SetProofs Digest.MonSilentDigest Run.MonSilentSx Run.R20.
Open Scope Z_scope.

(** * Encoders: decoding back, and no panic marker *)
Lemma sx_N_of_N n : sx_N (of_N n) = n.
Proof. unfold sx_N, of_N. cbn [sx_Z]. apply N2Z.id. Qed.

Lemma sxb_enc b : sxb (enc_bytes b) = b.
Proof.
  unfold sxb, enc_bytes, sx_Ns, of_Ns. cbn [sx_list]. rewrite map_map.
  induction b as [|x b IH]; [reflexivity|]. cbn [map]. rewrite sx_N_of_N, IH. reflexivity.
Qed.

Lemma has_panic_L l : has_panic (L l) = existsb has_panic l.
Proof. induction l as [|x r IH]; [reflexivity|]. cbn [existsb]. rewrite <- IH. reflexivity. Qed.

Lemma has_panic_A z : z <> -1 -> has_panic (A z) = false.
Proof. intro H. cbn. apply Z.eqb_neq. exact H. Qed.

Lemma has_panic_of_N n : has_panic (of_N n) = false.
Proof. apply has_panic_A. lia. Qed.

Lemma has_panic_of_nat n : has_panic (of_nat n) = false.
Proof. apply has_panic_A. lia. Qed.

Lemma has_panic_map {T} (f : T -> sx) l :
  (forall x, In x l -> has_panic (f x) = false) -> has_panic (L (map f l)) = false.
Proof.
  intro H. rewrite has_panic_L. induction l as [|x r IH]; [reflexivity|]. cbn [map existsb].
  rewrite H by (left; reflexivity). apply IH. intros y Hy. apply H. right. exact Hy.
Qed.

Lemma has_panic_bytes b : has_panic (enc_bytes b) = false.
Proof. apply has_panic_map. intros. apply has_panic_of_N. Qed.

Lemma has_panic_list l : has_panic (enc_list l) = false.
Proof. apply has_panic_map. intros. apply has_panic_bytes. Qed.

Lemma has_panic_sets l : has_panic (enc_sets l) = false.
Proof. apply has_panic_map. intros. apply has_panic_list. Qed.

Lemma has_panic_cons x l : has_panic (L (x :: l)) = has_panic x || has_panic (L l).
Proof. rewrite !has_panic_L. reflexivity. Qed.

Lemma has_panic_nil : has_panic (L []) = false.
Proof. reflexivity. Qed.

Definition good_out {T} (o : outcome T) : Prop := o <> Panic /\ forall c, o = Err c -> 0 < c.

Lemma good_ok {T} (x : T) : good_out (Ok x).
Proof. split; [discriminate|intros c H; discriminate]. Qed.

Lemma has_panic_enc_out {T} (f : T -> sx) o :
  good_out o -> (forall x, o = Ok x -> has_panic (f x) = false) -> has_panic (enc_out f o) = false.
Proof.
  intros [Hp He] Hf. destruct o as [x|c|]; cbn [enc_out].
  - rewrite !has_panic_cons, has_panic_nil, (Hf x eq_refl). reflexivity.
  - rewrite has_panic_cons, has_panic_nil, has_panic_A; [reflexivity|]. specialize (He c eq_refl). lia.
  - congruence.
Qed.

Lemma status_err_pos c : status_err c -> 0 < c.
Proof. intros [-> | ->]; reflexivity. Qed.

Lemma good_parse_read s : good_out (parse_read_path s).
Proof.
  split; [apply parse_total_proof|]. intros c H. apply status_err_pos. eapply parse_read_path_err; eauto.
Qed.
Lemma good_parse_write s : good_out (parse_write_path s).
Proof.
  split; [apply parse_total_proof|]. intros c H. apply status_err_pos. eapply parse_write_path_err; eauto.
Qed.

Lemma has_panic_enc_parse o : good_out o -> has_panic (enc_parse o) = false.
Proof.
  intro H. apply has_panic_enc_out; [exact H|]. intros [v c] _. cbn [fst snd].
  rewrite !has_panic_cons, has_panic_nil, has_panic_bytes, has_panic_of_N. reflexivity.
Qed.

(** * The observation of a valid digest *)
Definition dobs_of (d : digest) (hb cb : bytes) (parents : list bytes) : sx :=
  L [enc_bytes (pack d);
     L [A 0; of_N (d_fn d)];
     L [A 0; enc_bytes (d_hash d)];
     L [A 0; A (d_size d)];
     L [A 0; enc_bytes (d_inst d)];
     L [A 0; enc_bytes (key0 d)];
     L [A 0; L [enc_bytes (d_hash d); A (d_size d)]];
     L [A 0; enc_bytes hb];
     L [A 0; enc_bytes cb];
     L [A 0; enc_list parents]].

Lemma enc_dobs_valid d :
  valid_digest d ->
  exists hb cb comps,
    hex_encode hb = d_hash d /\ d_inst d = join_slash comps /\ Forall valid_component comps
    /\ enc_dobs (pack d)
       = dobs_of d hb cb (map (fun p => pack (with_instance d (join_slash p))) (prefixes comps)).
Proof.
  intro V. destruct (pack_unpack_accessors d V) as (H1 & H2 & H3 & H4 & H5 & _ & H7 & (hb & H8 & Hhb) & (b & H9 & _)).
  destruct (vd_inst d V) as (comps & Hi & Hc).
  exists hb, (d_fn d :: b ++ put_varint (d_size d)), comps.
  split; [exact Hhb|]. split; [exact Hi|]. split; [exact Hc|].
  unfold enc_dobs. rewrite H1, H2, H3, H4, H5, H7, H8, H9, (parents_spec_proof d comps V Hi Hc).
  reflexivity.
Qed.

Lemma seq_prefixes_eq {T} (l : list T) : seq_prefixes l = prefixes l.
Proof.
  unfold seq_prefixes. induction l as [|x r IH]; [reflexivity|].
  cbn [length]. change (seq 0 (S (S (length r)))) with (0%nat :: seq 1 (S (length r))).
  rewrite <- seq_shift, map_cons, map_map. cbn [prefixes firstn].
  rewrite <- IH, map_map. reflexivity.
Qed.

Lemma valid_inst_wf v : valid_instance v -> inst_wf v = true.
Proof.
  intro H. destruct (valid_instance_wf v H) as (H1 & H2 & H3 & H4).
  unfold inst_wf, spec_components. rewrite H1, H2, H3, H4. reflexivity.
Qed.

Lemma is_supported_true fn : In fn supported_enums -> is_supported fn = true.
Proof.
  intro H. destruct (supported_entry _ H) as (n & Hn). unfold is_supported.
  apply existsb_exists. exists (fn, n). split; [exact Hn|apply N.eqb_refl].
Qed.

Lemma is_supported_in fn : is_supported fn = true -> In fn supported_enums.
Proof.
  unfold is_supported. intro H. apply existsb_exists in H. destruct H as ([f n] & Hin & E).
  cbn in E. apply N.eqb_eq in E. subst. unfold supported_enums. apply in_map_iff. exists (fn, n). auto.
Qed.

Lemma has_panic_dobs d hb cb ps : 0 <= d_size d -> has_panic (dobs_of d hb cb ps) = false.
Proof.
  intro Hs. unfold dobs_of.
  repeat rewrite ?has_panic_cons, ?has_panic_nil, ?has_panic_bytes, ?has_panic_of_N, ?has_panic_list.
  rewrite !has_panic_A by lia. reflexivity.
Qed.

Lemma dobs_wf_valid d hb cb ps : valid_digest d -> dobs_wf (dobs_of d hb cb ps) = true.
Proof.
  intros [Hfn (hbs & Hhb & Hlen) Hhex Hsz Hinst]. unfold dobs_wf, dobs_of.
  rewrite !sx_nth_L. cbn [nth is_ok ok_val andb sx_Z]. rewrite sx_N_of_N, !sxb_enc.
  rewrite (is_supported_true _ Hfn), Hhex, (valid_inst_wf _ Hinst).
  change (hash_size_of (d_fn d)) with (hash_bytes_of (d_fn d)). rewrite Hhb.
  rewrite (proj2 (N.eqb_eq _ _) Hlen).
  rewrite (proj2 (Z.leb_le _ _) (proj1 Hsz)), (proj2 (Z.ltb_lt _ _) (proj2 Hsz)). reflexivity.
Qed.

Lemma dobs_consistent_valid d hb cb comps :
  valid_digest d -> hex_encode hb = d_hash d -> d_inst d = join_slash comps -> Forall valid_component comps ->
  dobs_consistent (dobs_of d hb cb (map (fun p => pack (with_instance d (join_slash p))) (prefixes comps))) = true.
Proof.
  intros V Hhb Hi Hc. pose proof (vd_size d V) as Hsz.
  unfold dobs_consistent, dobs_of. rewrite !sx_nth_L. cbn [nth ok_val sx_Z]. rewrite sx_N_of_N, !sxb_enc.
  fold (key0 d). rewrite beqb_refl, <- (pack_shape d) by lia. rewrite !beqb_refl, Z.eqb_refl, Hhb, beqb_refl.
  cbn [andb].
  unfold spec_components. rewrite Hi.
  destruct (valid_component_facts comps Hc) as (_ & Hgf & _).
  rewrite (fields_join comps Hgf), seq_prefixes_eq.
  rewrite !sx_nth_L. cbn [nth]. rewrite sxb_enc, beqb_refl. cbn [andb].
  match goal with |- sx_eqb ?a ?b = true => replace b with a; [apply sx_eqb_refl|] end.
  f_equal. apply map_ext. intro p.
  rewrite (pack_shape (with_instance d (join_slash p))) by (cbn; lia). reflexivity.
Qed.

(** everything the monitor asks of the observation of one valid digest *)
Lemma dobs_facts d :
  valid_digest d ->
  has_panic (enc_dobs (pack d)) = false
  /\ dobs_wf (enc_dobs (pack d)) = true
  /\ dobs_consistent (enc_dobs (pack d)) = true
  /\ sx_nth (enc_dobs (pack d)) 0 = enc_bytes (pack d)
  /\ sx_nth (enc_dobs (pack d)) 1 = L [A 0; of_N (d_fn d)]
  /\ sx_nth (enc_dobs (pack d)) 2 = L [A 0; enc_bytes (d_hash d)]
  /\ sx_nth (enc_dobs (pack d)) 3 = L [A 0; A (d_size d)]
  /\ sx_nth (enc_dobs (pack d)) 4 = L [A 0; enc_bytes (d_inst d)].
Proof.
  intro V. destruct (enc_dobs_valid d V) as (hb & cb & comps & Hhb & Hi & Hc & ->).
  pose proof (vd_size d V) as Hsz.
  split; [apply has_panic_dobs; lia|]. split; [apply dobs_wf_valid, V|].
  split; [apply dobs_consistent_valid; assumption|]. repeat split; reflexivity.
Qed.

(** * Kinds 0 and 1: resource names *)
Lemma parse_int_decimal s z : parse_int s = Some z -> decimal_of s z = true.
Proof.
  unfold parse_int, decimal_of. destruct s as [|c r]; [discriminate|].
  destruct (N.eqb c 43); [|destruct (N.eqb c dash)].
  - destruct r as [|c' r']; [discriminate|].
    destruct (forallb is_digit (c' :: r')); [|discriminate].
    destruct (N.ltb _ _); [|discriminate]. intros [= <-]. cbn [nonempty andb]. apply Z.eqb_refl.
  - destruct r as [|c' r']; [discriminate|].
    destruct (forallb is_digit (c' :: r')); [|discriminate].
    destruct (N.leb _ _); [|discriminate]. intros [= <-]. cbn [nonempty andb]. apply Z.eqb_refl.
  - destruct (forallb is_digit (c :: r)); [|discriminate].
    destruct (N.ltb _ _); [|discriminate]. intros [= <-]. cbn [nonempty andb]. apply Z.eqb_refl.
Qed.

Lemma adjacent_fields_intro h z s post : forall pre,
  decimal_of s z = true -> adjacent_fields h z (pre ++ h :: s :: post) = true.
Proof.
  induction pre as [|x pre IH]; intro H.
  - cbn [app adjacent_fields]. rewrite beqb_refl, H. reflexivity.
  - cbn [app]. specialize (IH H).
    destruct (pre ++ h :: s :: post) as [|y rest] eqn:E; [destruct pre; discriminate|].
    change (adjacent_fields h z (x :: y :: rest))
      with ((beqb x h && decimal_of y z) || adjacent_fields h z (y :: rest)).
    rewrite IH. apply orb_true_r.
Qed.

Section ParseKinds.
  Variable parse : bytes -> outcome (bytes * N).
  Variable fmt : bytes -> N -> outcome bytes.
  Hypothesis parse_sound : forall s v c, parse s = Ok (v, c) ->
    exists d sz, valid_digest d /\ v = pack d /\ valid_compressor c
                 /\ adjacent (d_hash d) sz (fields_by_slash s) /\ parse_int sz = Some (d_size d).
  Hypothesis parse_good : forall s, good_out (parse s).
  Hypothesis round_trip : forall d c, valid_digest d -> valid_compressor c ->
    exists s, fmt (pack d) c = Ok s /\ parse s = Ok (pack d, c).

  Lemma mon_parse_silent clause path : mon_parse clause path (run_parse parse fmt path) = [].
  Proof.
    unfold run_parse. destruct (parse path) as [[v c]|e|] eqn:Ep.
    - destruct (parse_sound _ _ _ Ep) as (d & sz & V & -> & Hc & Hadj & Hsz).
      destruct (round_trip d c V Hc) as (s & Hf & Hr). rewrite Hf. cbn [after_format enc_out]. rewrite Hr.
      cbn [enc_parse enc_out fst snd].
      destruct (dobs_facts d V) as (Hp & Hwf & Hcons & E0 & _ & E2 & E3 & _).
      unfold mon_parse. cbn [head_is0]. rewrite !sx_nth_L. cbn [nth].
      rewrite Hwf, Hcons, E0, E2, E3. cbn [ok_val sx_Z]. rewrite sxb_enc.
      destruct Hadj as (pre & post & ->).
      rewrite (adjacent_fields_intro _ _ _ _ _ (parse_int_decimal _ _ Hsz)), sx_eqb_refl.
      repeat rewrite ?has_panic_cons, ?has_panic_nil, ?has_panic_bytes, ?has_panic_of_N. rewrite Hp.
      reflexivity.
    - destruct (parse_good path) as [_ He]. specialize (He e Ep).
      unfold mon_parse. cbn [head_is0]. destruct e; try lia.
      rewrite has_panic_cons, has_panic_nil, has_panic_A by lia. reflexivity.
    - destruct (parse_good path) as [Hp _]. congruence.
  Qed.
End ParseKinds.

Lemma in_firstn {T} (x : T) n l : In x (firstn n l) -> In x l.
Proof. intro H. rewrite <- (firstn_skipn n l). apply in_or_app. left. exact H. Qed.
Lemma in_skipn {T} (x : T) n l : In x (skipn n l) -> In x l.
Proof. intro H. rewrite <- (firstn_skipn n l). apply in_or_app. right. exact H. Qed.

Lemma hex_encode_no_slash b : ~ In slash (hex_encode b).
Proof.
  assert (Hd : forall v, hexdigit v <> slash).
  { intro v. unfold hexdigit, slash. destruct (N.ltb v 10); lia. }
  induction b as [|x b IH]; [intros []|]. cbn [hex_encode]. intros [E|[E|H]]; [eapply Hd|eapply Hd|]; eauto.
Qed.

Lemma uuid_string_ok u : uuid_string u <> [] /\ ~ In slash (uuid_string u).
Proof.
  unfold uuid_string. split.
  - intro E. apply app_eq_nil in E. destruct E as [_ E]. discriminate.
  - pose proof (hex_encode_no_slash u) as Hn.
    intro H. repeat (apply in_app_or in H; destruct H as [H|H];
                     [apply Hn; repeat (first [apply in_firstn in H|apply in_skipn in H]); exact H|];
                     destruct H as [E|H]; [unfold dash, slash in E; lia|]).
    apply Hn. repeat (first [apply in_firstn in H|apply in_skipn in H]). exact H.
Qed.

Lemma silent_read_path path : mon_parse 2 path (run_parse parse_read_path get_read_path path) = [].
Proof.
  apply mon_parse_silent.
  - intros s v c H. apply parse_sound_adj. left. exact H.
  - apply good_parse_read.
  - apply read_path_roundtrip_proof.
Qed.

Lemma silent_write_path uuid path :
  mon_parse 3 path (run_parse parse_write_path (fun v c => get_write_path v (uuid_string uuid) c) path) = [].
Proof.
  apply mon_parse_silent.
  - intros s v c H. apply parse_sound_adj. right. exact H.
  - apply good_parse_write.
  - intros d c V Hc. destruct (uuid_string_ok uuid) as [H1 H2]. apply write_path_roundtrip_proof; assumption.
Qed.

(** * Kind 2: instance names *)
Lemma silent_instance_name name : mon_instance_name name (run_instance_name name) = [].
Proof.
  unfold run_instance_name. destruct (new_instance_name name) as [v|c|] eqn:E.
  - destruct (new_instance_name_ok _ _ E) as (-> & _ & _ & _ & _ & Hj & Hv & Hval).
    unfold new_instance_name_from_components. rewrite Hval. cbn [bind enc_out]. rewrite Hj.
    unfold mon_instance_name. cbn [head_is0]. rewrite !sx_nth_L. cbn [nth].
    rewrite (valid_inst_wf _ Hv), sxb_enc, beqb_refl, !sx_eqb_refl.
    repeat rewrite ?has_panic_cons, ?has_panic_nil, ?has_panic_bytes, ?has_panic_list. reflexivity.
  - pose proof (new_instance_name_err _ _ E) as ->.
    unfold mon_instance_name. cbn [head_is0].
    assert (Hw : inst_wf name = false).
    { unfold inst_wf, spec_components. eapply new_instance_name_rejects; eauto. }
    rewrite Hw. reflexivity.
  - exfalso. eapply instance_name_total_proof; eauto.
Qed.

(** * Kind 4: compact binary *)
Lemma silent_compact inst inp : mon_compact (run_compact inst inp) = [].
Proof.
  unfold run_compact. destruct (new_instance_name inst) as [inm|c|] eqn:E.
  - destruct (new_instance_name_ok _ _ E) as (-> & _ & _ & _ & _ & _ & Hv & _).
    destruct (new_digest_from_compact_binary inst inp) as [[v rest]|c|] eqn:Ec.
    + destruct (compact_sound _ _ _ _ Hv Ec) as (d & V & -> & _).
      destruct (dobs_facts d V) as (Hp & Hwf & Hcons & _).
      unfold mon_compact. cbn [head_is0]. rewrite !sx_nth_L. cbn [nth]. rewrite Hwf, Hcons.
      repeat rewrite ?has_panic_cons, ?has_panic_nil, ?has_panic_of_nat. rewrite Hp. reflexivity.
    + pose proof (compact_err _ _ _ Ec) as Hc. unfold mon_compact.
      assert (Hh : head_is0 (L [A c]) = false) by (destruct c; try lia; reflexivity).
      rewrite Hh, has_panic_cons, has_panic_nil, has_panic_A by lia. reflexivity.
    + exfalso. eapply compact_total_proof; eauto.
  - pose proof (new_instance_name_err _ _ E) as ->. reflexivity.
  - exfalso. eapply instance_name_total_proof; eauto.
Qed.

(** * Kind 3: structured digests *)
Lemma by_enum_key_ok : forallb (fun p : N * bare => N.eqb (fst p) (fst (snd p))) c20_bare_by_enum = true.
Proof. vm_compute. reflexivity. Qed.
Lemma by_size_key_ok : forallb (fun p : N * bare => N.eqb (fst p) (2 * snd (snd p))) c20_bare_by_size = true.
Proof. vm_compute. reflexivity. Qed.

Lemma by_enum_fst fn f : assoc fn c20_bare_by_enum = Some f -> fst f = fn.
Proof.
  intro H. apply assoc_In in H. pose proof by_enum_key_ok as T. rewrite forallb_forall in T.
  specialize (T _ H). cbn in T. apply N.eqb_eq in T. auto.
Qed.
Lemma by_size_len k f : assoc k c20_bare_by_size = Some f -> (k = 2 * snd f)%N.
Proof.
  intro H. apply assoc_In in H. pose proof by_size_key_ok as T. rewrite forallb_forall in T.
  specialize (T _ H). cbn in T. apply N.eqb_eq in T. auto.
Qed.

Lemma valid_comp_true c : valid_comp c = true -> valid_compressor c.
Proof.
  unfold valid_comp, valid_compressor. intro H. apply orb_prop in H. destruct H as [H|H].
  - left. apply N.eqb_eq. exact H.
  - right. apply existsb_exists in H. destruct H as ([c' n] & Hin & E). cbn in E. apply N.eqb_eq in E. subst.
    apply in_map_iff. exists (c, n). auto.
Qed.

Lemma get_read_path_ok d comp : valid_digest d -> exists s, get_read_path (pack d) comp = Ok s.
Proof.
  intro V. pose proof (unpack_pack d V) as U.
  destruct (pack_unpack_accessors d V) as [_ [Hh [_ [Hin _]]]].
  unfold get_hash_string, get_instance_name in Hh, Hin. rewrite U in Hh, Hin. cbn [bind u_hs u_he u_se] in Hh, Hin.
  unfold get_read_path. rewrite U. cbn [bind u_hs u_he u_se u_fn u_size]. rewrite Hin, Hh. cbn [bind].
  eexists. reflexivity.
Qed.

Lemma get_write_path_ok d uuid comp : valid_digest d -> exists s, get_write_path (pack d) uuid comp = Ok s.
Proof.
  intro V. pose proof (unpack_pack d V) as U.
  destruct (pack_unpack_accessors d V) as [_ [Hh [_ [Hin _]]]].
  unfold get_hash_string, get_instance_name in Hh, Hin. rewrite U in Hh, Hin. cbn [bind u_hs u_he u_se] in Hh, Hin.
  unfold get_write_path. rewrite U. cbn [bind u_hs u_he u_se u_fn u_size]. rewrite Hin, Hh. cbn [bind].
  eexists. reflexivity.
Qed.

Lemma flag_false n b : b = false -> flag n b = [].
Proof. intros ->. reflexivity. Qed.

Lemma silent_structured inp :
  sx_Z (sx_nth inp 4) < 2 ^ 63 ->
  mon_structured inp (run_structured (sxb (sx_nth inp 1)) (sx_N (sx_nth inp 2)) (sxb (sx_nth inp 3))
                                     (sx_Z (sx_nth inp 4)) (sx_N (sx_nth inp 5)) (sxb (sx_nth inp 6))) = [].
Proof.
  intro Hsz. unfold mon_structured. cbv zeta.
  set (inst := sxb (sx_nth inp 1)). set (fn := sx_N (sx_nth inp 2)). set (hash := sxb (sx_nth inp 3)).
  set (size := sx_Z (sx_nth inp 4)) in *. set (comp := sx_N (sx_nth inp 5)). set (uuid := sxb (sx_nth inp 6)).
  unfold run_structured.
  destruct (new_instance_name inst) as [inm|c|] eqn:Ei.
  2:{ pose proof (new_instance_name_err _ _ Ei) as ->. rewrite sx_nth_L. cbn [nth sx_Z].
      assert (Hw : inst_wf inst = false).
      { unfold inst_wf, spec_components. eapply new_instance_name_rejects; eauto. }
      rewrite Hw. reflexivity. }
  2:{ exfalso. eapply instance_name_total_proof; eauto. }
  destruct (new_instance_name_ok _ _ Ei) as (-> & _ & _ & _ & _ & _ & Hvi & _).
  unfold get_digest_function.
  destruct (get_bare_function fn (N.of_nat (length hash))) as [f|] eqn:Egb.
  2:{ rewrite sx_nth_L. cbn [nth sx_Z]. unfold get_bare_function in Egb.
      destruct (N.eqb fn c20_enum_unknown) eqn:Eu.
      - rewrite Egb. reflexivity.
      - destruct (is_supported fn) eqn:Es; [|reflexivity]. exfalso.
        apply is_supported_in in Es. destruct (supported_facts _ Es) as (_ & _ & _ & hb & Ha & _).
        rewrite Ha in Egb. discriminate. }
  destruct (new_digest inst f hash size) as [v|c|] eqn:En.
  3:{ exfalso. eapply new_digest_no_panic; eauto. }
  2:{ pose proof (new_digest_err _ _ _ _ _ En) as ->. rewrite sx_nth_L. cbn [nth sx_Z].
      unfold new_digest in En.
      destruct (N.eqb (N.of_nat (length hash)) (2 * snd f)) eqn:El; cbn [negb] in En.
      - destruct (forallb lowerhex hash); cbn [negb] in En; [|rewrite andb_false_r; reflexivity].
        destruct (Z.ltb_spec size 0) as [Hneg|]; [|discriminate].
        assert (Hn : (0 <=? size) = false) by (apply Z.leb_gt; exact Hneg).
        rewrite Hn, andb_false_r. reflexivity.
      - unfold get_bare_function in Egb. destruct (N.eqb fn c20_enum_unknown).
        + apply by_size_len in Egb. rewrite Egb, N.eqb_refl in El. discriminate.
        + unfold hash_size_of. rewrite Egb, El. reflexivity. }
  (* accepted *)
  destruct (new_digest_ok _ _ _ _ _ _ _ Hvi Egb Hsz En) as [V Hv].
  set (d0 := {| d_fn := fst f; d_hash := hash; d_size := size; d_inst := inst |}) in *.
  destruct (dobs_facts d0 V) as (Hp & Hwf & Hcons & E0 & E1 & E2 & E3 & E4).
  destruct (get_read_path_ok d0 comp V) as (srp & Hrp).
  destruct (get_write_path_ok d0 (uuid_string uuid) comp V) as (swp & Hwp).
  destruct (pack_unpack_accessors d0 V) as (_ & _ & _ & _ & H5 & _).
  destruct (compact_roundtrip_proof d0 trailing_garbage V) as (cb & Hcb & Hcrt).
  subst v. rewrite Hrp, Hwp, H5, Hcb. cbn [d_hash d_size d_inst d0] in *.
  rewrite En, Hcrt. cbn [after_format enc_out fst snd].
  rewrite !sx_nth_L. cbn [nth sx_Z]. rewrite Hwf, Hcons, E0, E1, E2, E3, E4. cbn [ok_val sx_Z negb andb].
  rewrite sx_N_of_N, !sxb_enc, !beqb_refl, Z.eqb_refl, !sx_eqb_refl. cbn [negb andb].
  assert (Hfn : N.eqb fn c20_enum_unknown || N.eqb (fst f) fn = true).
  { unfold get_bare_function in Egb. destruct (N.eqb fn c20_enum_unknown); [reflexivity|].
    apply by_enum_fst in Egb. rewrite Egb, N.eqb_refl. reflexivity. }
  cbn [d_fn d0]. rewrite Hfn. cbn [negb].
  assert (H2 : valid_comp comp && negb (sx_eqb (enc_parse (parse_read_path srp))
                                              (L [A 0; L [enc_bytes (pack d0); of_N comp]])) = false).
  { destruct (valid_comp comp) eqn:Evc; [|reflexivity]. cbn [andb].
    destruct (read_path_roundtrip_proof d0 comp V (valid_comp_true _ Evc)) as (s & Hs1 & Hs2).
    rewrite Hrp in Hs1. inversion Hs1. subst s. rewrite Hs2. cbn [enc_parse enc_out fst snd].
    rewrite sx_eqb_refl. reflexivity. }
  assert (H3 : valid_comp comp && negb (sx_eqb (enc_parse (parse_write_path swp))
                                              (L [A 0; L [enc_bytes (pack d0); of_N comp]])) = false).
  { destruct (valid_comp comp) eqn:Evc; [|reflexivity]. cbn [andb].
    destruct (uuid_string_ok uuid) as [U1 U2].
    destruct (write_path_roundtrip_proof d0 (uuid_string uuid) comp V (valid_comp_true _ Evc) U1 U2) as (s & Hs1 & Hs2).
    rewrite Hwp in Hs1. inversion Hs1. subst s. rewrite Hs2. cbn [enc_parse enc_out fst snd].
    rewrite sx_eqb_refl. reflexivity. }
  rewrite H2, H3.
  repeat rewrite ?has_panic_cons, ?has_panic_nil, ?has_panic_bytes, ?has_panic_of_N, ?has_panic_of_nat.
  rewrite Hp, (has_panic_enc_parse _ (good_parse_read srp)), (has_panic_enc_parse _ (good_parse_write swp)).
  reflexivity.
Qed.
