(** C07, "the monitor is silent on the model" — part 8: the coverage
    relation between monitor and model across [do_op] (clauses 4 and 6).

    [cov]: the monitor's block / popped / upload / acknowledgement lists
    against the model state: block offsets by absolute index, pending upload
    tokens, one valid ghost record per acknowledged upload whose level is the
    one the monitor derives from its sync bookkeeping ([lvl]).  [cov_op]: one
    [do_op] preserves it (with the monitor's lists AFTER the operation and the
    sync bookkeeping of BEFORE). *)
From Coq Require Import List NArith ZArith Bool Arith Lia.
From BBS Require Import Common.Sx Persist.PBL Persist.PBLProofs Persist.Syncer Persist.SyncerProofs
  Persist.LiveActs Persist.LiveCover Persist.LiveRelease Run.R07 Run.R07MonBase Run.R07MonOps Run.R07MonC123
  Run.R07MonCov1 Run.R07MonCov2 Run.R07MonOps2.
Import ListNotations.
Local Open Scope nat_scope.

Definition lvl (lo : option nat) (ss : nat) (k : ack) : nat :=
  if should lo k then 2 else if (k_step k <? ss)%nat then 1 else 0.
Definition rng (na : nat) (z : Z) : Prop :=
  (z < 10000)%Z \/ exists j, j < na /\ z = (10000 + 100 * Z.of_nat j)%Z.

Record cov (sb : nat) (lo : option nat) (ss : nat) (blks popped : list Z) (upl : list (Z * Z))
           (acks : list ack) (gs : list gack)
           (p : pbl) (ups : list (option (put_token * Z))) (xb : list (option Z)) (na : nat) : Prop := mkCov {
  cv_blocks : blks = offs p;
  cv_popped : length popped = totalReleased p;
  cv_nodup : NoDup (popped ++ blks);
  cv_range : Forall (rng na) (popped ++ blks);
  cv_len : length upl = length ups /\ length xb = length ups;
  cv_upl : forall k abs size, nth_error ups k = Some (Some (PutAt abs, size)) ->
     exists lo en, nth_error upl k = Some (lo, en) /\ nth_error (popped ++ blks) abs = Some lo /\
       (forall off, nth_error xb k = Some (Some off) -> en = (off + size)%Z);
  cv_acks : Forall2 (ack_ok p) acks gs;
  cv_acks2 : Forall2 (fun k g => nth_error (popped ++ blks) (o_block (g_o g)) = Some (k_loc k) /\ k_step k < sb
                                 /\ g_lv g = lvl lo ss k) acks gs
}.
Definition covx sb lo ss blks popped upl acks gs (x : xst) : Prop :=
  cov sb lo ss blks popped upl acks gs (s_pbl (x_sys x)) (s_uploads (x_sys x)) (x_blk x) (x_nalloc x).

(** ---- small list facts ---- *)
Lemma offs_set_written bs i w : map b_loc (set_written bs i w) = map b_loc bs.
Proof.
  revert i. induction bs as [|b r IH]; intros [|i]; cbn; auto.
  - destruct (b_written b <? w)%Z; reflexivity.
  - rewrite IH. reflexivity.
Qed.

Lemma offs_bump bs : map b_loc (bump_last_epoch_count bs) = map b_loc bs.
Proof.
  induction bs as [|b r IH]; [reflexivity|]. destruct r as [|b' r']; [reflexivity|].
  change (bump_last_epoch_count (b :: b' :: r')) with (b :: bump_last_epoch_count (b' :: r')).
  cbn [map]. rewrite IH. reflexivity.
Qed.

Lemma fin_offs tok blk size seed p p' fr : put_finalize tok blk size seed p = Ok (p', fr) -> offs p' = offs p.
Proof.
  intros Hf. destruct (fin_cases _ _ _ _ _ _ _ Hf) as [[-> _]|
    (abs & off & bumped & _ & _ & _ & _ & _ & _ & Fb & _)]; [reflexivity|].
  unfold offs. rewrite Fb. rewrite <- !(map_map b_loc fst).
  destruct bumped; rewrite ?offs_bump, offs_set_written; reflexivity.
Qed.

Lemma fin_seeds_len tok blk size seed p p' fr : put_finalize tok blk size seed p = Ok (p', fr) ->
  length (epochSeeds p') <= S (length (epochSeeds p)).
Proof.
  intros Hf. destruct (fin_cases _ _ _ _ _ _ _ Hf) as [[-> _]|
    (abs & off & bumped & _ & _ & _ & _ & _ & _ & _ & Fs & _)]; [lia|].
  rewrite Fs. destruct bumped; rewrite ?app_length; cbn; lia.
Qed.

Lemma clear_nth_len {A} (l : list (option A)) k : length (clear_nth l k) = length l.
Proof. revert k. induction l as [|a r IH]; intros [|k]; cbn; auto. Qed.

Lemma clear_nth_some {A} (l : list (option A)) k k' v : nth_error (clear_nth l k) k' = Some (Some v) ->
  nth_error l k' = Some (Some v).
Proof.
  revert k k'. induction l as [|a r IH]; intros [|k] [|k']; cbn; auto; try discriminate. apply IH.
Qed.

Lemma nth_error_offs p i : nth_error (offs p) i = option_map (fun b => fst (b_loc b)) (nth_error (blocks p) i).
Proof. unfold offs. apply nth_error_map. Qed.

Lemma zmem_in z l : zmem z l = true <-> In z l.
Proof.
  unfold zmem. rewrite existsb_exists. split.
  - intros [y [Hy E]]. apply Z.eqb_eq in E. subst. exact Hy.
  - intros H. exists z. split; [exact H|apply Z.eqb_refl].
Qed.

Lemma F2_app {A B} (R : A -> B -> Prop) l1 l2 a b : Forall2 R l1 l2 -> R a b -> Forall2 R (l1 ++ [a]) (l2 ++ [b]).
Proof. intros F H. apply Forall2_app; [exact F|constructor; [exact H|constructor]]. Qed.

Lemma F2_impl2 {A B} (R R' : A -> B -> Prop) l1 l2 : (forall a b, R a b -> R' a b) -> Forall2 R l1 l2 -> Forall2 R' l1 l2.
Proof. intros H F. induction F; constructor; auto. Qed.

Lemma F2_map_r {A B C} (R : A -> C -> Prop) (f : B -> C) l1 l2 :
  Forall2 (fun a b => R a (f b)) l1 l2 -> Forall2 R l1 (map f l2).
Proof. intros F. induction F; cbn; constructor; auto. Qed.

Lemma F2_in_l {A B} (R : A -> B -> Prop) l1 l2 a : Forall2 R l1 l2 -> In a l1 -> exists b, R a b.
Proof. intros F. induction F as [|x y l l' H F IH]; intros []; subst; eauto. Qed.

(** ---- the encoded in-flight write ---- *)
Lemma wobs_writer res x t st : inv3 (x_sys x) -> written_state (x_sys x) t = Some st ->
  exists w, ms_wobs (enc_obs res x) = Some w /\ sx_nat (sx_nth w 1) = x_nwr x /\ L [sx_nth w 2; sx_nth w 3] = enc_st st.
Proof.
  intros [_ I3] Hw. unfold ms_wobs. rewrite obs_nth1, obs_nth2. unfold enc_r, enc_p.
  destruct t; cbn [written_state] in Hw.
  - destruct (s_r (x_sys x)) as [| |[]] eqn:Er; try discriminate. inversion Hw; subst.
    cbn [enc_wpc]. change (is_write (L [A 1; of_nat (x_nwr x); of_N (fst st); L (map enc_bstate (snd st))])) with true.
    cbn iota. eexists. split; [reflexivity|]. split; [apply sx_nat_of_nat|reflexivity].
  - destruct (s_p (x_sys x)) as [| | | | | | | |k []|] eqn:Ep; try discriminate. inversion Hw; subst.
    assert (is_write (match s_r (x_sys x) with
                      | RWait _ => L [A 0] | RW w => enc_wpc (x_nwr x) false w | RStart => L [A 99] end) = false) as ->.
    { unfold r_holds, p_holds in I3. rewrite Ep in I3. cbn in I3.
      destruct (s_r (x_sys x)) as [| |[]]; try reflexivity. cbn in I3. discriminate. }
    cbn [enc_wpc]. change (is_write (L [A 1; of_nat (x_nwr x); of_N (fst st); L (map enc_bstate (snd st))])) with true.
    cbn iota. eexists. split; [reflexivity|]. split; [apply sx_nat_of_nat|reflexivity].
Qed.

Lemma wobs_none res x : (forall t st, written_state (x_sys x) t <> Some st) -> ms_wobs (enc_obs res x) = None.
Proof.
  intros H. unfold ms_wobs. rewrite obs_nth1, obs_nth2. unfold enc_r, enc_p.
  pose proof (H TR) as Hr. pose proof (H TP) as Hp. cbn [written_state] in Hr, Hp.
  destruct (s_r (x_sys x)) as [| |[]]; try (exfalso; eapply Hr; reflexivity);
    destruct (s_p (x_sys x)) as [| | | | | | | |k []|]; try (exfalso; eapply Hp; reflexivity); reflexivity.
Qed.

Lemma NoDup_snoc {A} (l : list A) z : NoDup l -> ~ In z l -> NoDup (l ++ [z]).
Proof.
  induction l as [|a r IH]; intros Hn Hi; cbn; [constructor; [intros []|constructor]|].
  inversion Hn; subst. constructor.
  - intros H. apply in_app_or in H. destruct H as [H|[H|[]]]; [contradiction|subst; apply Hi; left; reflexivity].
  - apply IH; [assumption|]. intros H. apply Hi. right. exact H.
Qed.

Lemma cov_sb sb sb' lo ss blks popped upl acks gs p ups xb na : sb <= sb' ->
  cov sb lo ss blks popped upl acks gs p ups xb na -> cov sb' lo ss blks popped upl acks gs p ups xb na.
Proof.
  intros Hle [C1 C2 C3 C4 C5 C6 C7 C8]. constructor; auto.
  eapply F2_impl2; [|exact C8]. intros k g [H1 [H2 H3]]. splits; auto. lia.
Qed.

(** the ghost records after a block-list call that leaves the levels alone *)
Lemma acks2_next a p sb lo ss (h h' : list Z) acks gs :
  (forall lv, lv_next lv a = lv) -> (forall n z, nth_error h n = Some z -> nth_error h' n = Some z) ->
  Forall2 (fun k g => nth_error h (o_block (g_o g)) = Some (k_loc k) /\ k_step k < sb /\ g_lv g = lvl lo ss k) acks gs ->
  Forall2 (fun k g => nth_error h' (o_block (g_o g)) = Some (k_loc k) /\ k_step k < sb /\ g_lv g = lvl lo ss k)
          acks (map (g_next a p) gs).
Proof.
  intros Hl Hh F. apply F2_map_r. eapply F2_impl2; [|exact F].
  intros k g [H1 [H2 H3]]. unfold g_next. cbn [g_o g_lv]. rewrite Hl. splits; auto.
Qed.

(** ---- the monitor's lists when the operation is not the one that changes them ---- *)
Lemma bp_same m op o : (tag op <> 3%Z \/ ms_hit o = false) -> (tag op <> 4%Z \/ tag (sx_nth o 0) <> 0%Z) ->
  ms_bp m op o = (m_blocks m, m_popped m).
Proof.
  intros H3 H4. unfold ms_bp.
  assert (Z.eqb (tag op) 3 && ms_hit o = false) as ->.
  { destruct H3 as [H|H]; [destruct (Z.eqb_spec (tag op) 3); [contradiction|reflexivity]|rewrite H; apply andb_false_r]. }
  assert (Z.eqb (tag op) 4 && Z.eqb (tag (sx_nth o 0)) 0 = false) as ->; [|reflexivity].
  destruct H4 as [H|H]; [destruct (Z.eqb_spec (tag op) 4); [contradiction|reflexivity]|].
  destruct (Z.eqb_spec (tag (sx_nth o 0)) 0); [contradiction|apply andb_false_r].
Qed.

Lemma upl_same m op o : (tag op <> 1%Z \/ ms_hit o = false) -> ms_upl m op o = m_upl m.
Proof.
  intros H. unfold ms_upl.
  assert (Z.eqb (tag op) 1 && ms_hit o = false) as ->; [|reflexivity].
  destruct H as [H|H]; [destruct (Z.eqb_spec (tag op) 1); [contradiction|reflexivity]|rewrite H; apply andb_false_r].
Qed.

Lemma acks_same m op o : (tag op <> 2%Z \/ tag (sx_nth o 0) <> 0%Z) -> ms_acks m op o = m_acks m.
Proof.
  intros H. unfold ms_acks.
  assert (Z.eqb (tag op) 2 && Z.eqb (tag (sx_nth o 0)) 0 = false) as ->; [|reflexivity].
  destruct H as [H|H]; [destruct (Z.eqb_spec (tag op) 2); [contradiction|reflexivity]|].
  destruct (Z.eqb_spec (tag (sx_nth o 0)) 0); [contradiction|apply andb_false_r].
Qed.

Lemma cur_same m op o : (tag op <> 6%Z \/ ms_hit o = false) -> ms_cur0 m op o = m_cur m /\ ms_write_ok op o = false.
Proof.
  intros H. unfold ms_cur0, ms_write_ok, ms_write_done.
  assert (Z.eqb (tag op) 6 && ms_hit o = false) as ->; [|auto].
  destruct H as [H|H]; [destruct (Z.eqb_spec (tag op) 6); [contradiction|reflexivity]|rewrite H; apply andb_false_r].
Qed.

Section C46.
Variable cfg : config.
Variable alloc : loc -> Z -> bool.
Variable oldest : N.
Variable init : list bstate.
Variable t0 : N.
Notation good := (good cfg alloc oldest init t0).
Notation rel1 := (rel1 cfg alloc oldest init t0).

Record rel2 (rem : nat) (m : mst) (x : xst) : Prop := mkRel2 {
  r2_1 : rel1 m x;
  r2_cov : exists gs, covx (m_step m) (m_last_ok_start m) (m_series_start m) (m_blocks m) (m_popped m) (m_upl m)
                           (m_acks m) gs x;
  r2_series : m_series_start m <= m_step m /\ (forall j, m_last_ok_start m = Some j -> j <= m_series_start m);
  r2_nwr : m_nwr m = x_nwr x;
  r2_w : exists Etot, Etot + length (epochSeeds (s_pbl (x_sys x))) + rem < N.to_nat M32 /\
                      Wp (m_acks m) Etot (m_step m) (x_sys x) (m_cur m)
}.

Definition post1 (rem : nat) (m : mst) (op o : sx) (x x1 : xst) : Prop :=
  exists gs1 Etot1,
    covx (S (m_step m)) (m_last_ok_start m) (m_series_start m) (fst (ms_bp m op o)) (ms_popped m op o)
         (ms_upl m op o) (ms_acks m op o) gs1 x1
    /\ Etot1 + length (epochSeeds (s_pbl (x_sys x1))) + rem < N.to_nat M32
    /\ Wp (ms_acks m op o) Etot1 (S (m_step m)) (x_sys x1) (ms_cur0 m op o)
    /\ x_nwr x1 = m_nwr m
    /\ ms_v46 m op o = []
    /\ ((forall k, In k (ms_acks m op o) -> k_step k < m_step m) \/
        (s_p (x_sys x1) = s_p (x_sys x) /\ s_cancel (x_sys x1) = s_cancel (x_sys x) /\ tag op = 2%Z)).

Lemma Wp_weaken acks E sb sb' s cur : sb <= sb' -> Wp acks E sb s cur -> Wp acks E sb' s cur.
Proof.
  intros Hle W t st Hw. destruct (W t st Hw) as [j [po [E0 [H1 [H2 [H3 [H4 H5]]]]]]].
  exists j, po, E0. splits; auto. intros j0 Hj. specialize (H5 j0 Hj). lia.
Qed.

Lemma lvl_step_old lo ss i k : ss <= i -> (forall j, lo = Some j -> j <= ss) -> k_step k = i -> lvl lo ss k = 0.
Proof.
  intros H1 H2 H3. unfold lvl, should. destruct lo as [j|].
  - specialize (H2 j eq_refl). destruct (Nat.ltb_spec (k_step k) j); [lia|]. destruct (Nat.ltb_spec (k_step k) ss); [lia|reflexivity].
  - destruct (Nat.ltb_spec (k_step k) ss); [lia|reflexivity].
Qed.

Lemma old_steps m gs x : covx (m_step m) (m_last_ok_start m) (m_series_start m) (m_blocks m) (m_popped m) (m_upl m)
                              (m_acks m) gs x -> forall k, In k (m_acks m) -> k_step k < m_step m.
Proof.
  intros C k Hk. destruct (F2_in_l _ _ _ _ (cv_acks2 _ _ _ _ _ _ _ _ _ _ _ _ C) Hk) as [g [_ [H _]]]. exact H.
Qed.

(** the in-flight write across one block-list call, for an unchanged acknowledgement list *)
Lemma Wp_act acks Etot sb s s' cur a : pbl_inv (s_pbl s) -> apply_act a (s_pbl s) = Ok (s_pbl s') ->
  (forall t st, written_state s' t = Some st -> written_state s t = Some st) ->
  Wp acks Etot sb s cur -> Wp acks (Etot + popc a (s_pbl s)) sb s' cur.
Proof.
  intros I Ha Hw W t st Hws. destruct (W t st (Hw t st Hws)) as [j [po [E0 [H1 [H2 [H3 [H4 H5]]]]]]].
  exists j, po, (E0 + popc a (s_pbl s)). splits; auto; [eapply winv_act; eauto|lia].
Qed.

(** ---- scenario: the block list, the uploads and the monitor's lists are unchanged ---- *)
Lemma post_keep rem m x op o x1 : rel2 (S rem) m x ->
  s_pbl (x_sys x1) = s_pbl (x_sys x) -> s_uploads (x_sys x1) = s_uploads (x_sys x) -> cnt_same x x1 ->
  x_nwr x1 = x_nwr x ->
  ms_bp m op o = (m_blocks m, m_popped m) -> ms_upl m op o = m_upl m -> ms_acks m op o = m_acks m ->
  ((ms_cur0 m op o = m_cur m /\ ms_write_ok op o = false /\
    (forall t st, written_state (x_sys x1) t = Some st -> written_state (x_sys x) t = Some st)) \/
   (ms_v46 m op o = [] /\ forall t st, written_state (x_sys x1) t <> Some st)) ->
  post1 rem m op o x x1.
Proof.
  intros [R [gs C] [S1 S2] Hnwr [Etot [Hb W]]] Ep Eu [Eb En] Enw Ebp Eupl Eacks Hcur.
  exists gs, Etot. unfold ms_popped. rewrite Ebp, Eupl, Eacks. cbn [fst snd].
  split; [|split; [|split; [|split; [|split]]]].
  - unfold covx in *. rewrite Ep, Eu, Eb, En. eapply cov_sb; [|exact C]. lia.
  - rewrite Ep. lia.
  - destruct Hcur as [[E1 [E2 Hw]]|[E1 Hw]].
    + rewrite E1. intros t st Hws. destruct (W t st (Hw t st Hws)) as [j [po [E0 [H1 [H2 [H3 [H4 H5]]]]]]].
      exists j, po, E0. rewrite Ep. splits; auto. all: intros j0 Hj; specialize (H5 j0 Hj); lia.
    + intros t st Hws. exfalso. eapply Hw; eauto.
  - congruence.
  - destruct Hcur as [[E1 [E2 Hw]]|[E1 Hw]]; [|exact E1]. unfold ms_v46. rewrite E2. reflexivity.
  - left. eapply old_steps; eauto.
Qed.

(** ---- scenario: PushBack ---- *)
Lemma post_push rem m x op o x1 res : rel2 (S rem) m x -> tag op = 4%Z -> sx_nth o 0 = res ->
  (let l : loc := ((10000 + 100 * Z.of_nat (x_nalloc x))%Z, 100%Z) in
   closedForWriting (s_pbl (x_sys x)) = false /\
   step cfg (x_sys x) (EPushBack (Some l)) = Some (Ok (x_sys x1)) /\
   x_blk x1 = x_blk x /\ x_nalloc x1 = S (x_nalloc x) /\ res = L [A 0; A (fst l)]) ->
  x_nwr x1 = x_nwr x -> post1 rem m op o x x1.
Proof.
  intros [R [gs C] [S1 S2] Hnwr [Etot [Hb W]]] Hc Ho [Hcl [Hs [Eb [En Hres]]]] Enw.
  pose proof (r1_good _ _ _ _ _ _ _ R) as G. pose proof (good_inv1 _ _ _ _ _ _ G) as II.
  destruct (reachable_linv _ _ _ _ _ _ (proj1 G)) as [_ LL].
  set (l := ((10000 + 100 * Z.of_nat (x_nalloc x))%Z, 100%Z) : loc) in *.
  pose proof (step_act _ _ _ _ Hs) as Ha. cbn [act_of] in Ha.
  cbn [step] in Hs. injection Hs as Hs.
  assert (Ep : s_pbl (x_sys x1) = set_blocks (s_pbl (x_sys x)) (blocks (s_pbl (x_sys x)) ++ [mkBinfo l 0 0 0 0])).
  { rewrite <- Hs. cbn. unfold push_back. rewrite Hcl. reflexivity. }
  assert (Eu : s_uploads (x_sys x1) = s_uploads (x_sys x)) by (rewrite <- Hs; reflexivity).
  assert (Ebp : ms_bp m op o = (m_blocks m ++ [fst l], m_popped m)).
  { unfold ms_bp, ms_hit. rewrite Ho, Hc, Hres. reflexivity. }
  assert (Eupl : ms_upl m op o = m_upl m) by (apply upl_same; left; rewrite Hc; discriminate).
  assert (Eacks : ms_acks m op o = m_acks m) by (apply acks_same; left; rewrite Hc; discriminate).
  destruct (cur_same m op o) as [Ecur Ewok]; [left; rewrite Hc; discriminate|].
  destruct C as [C1 C2 C3 C4 C5 C6 C7 C8].
  exists (map (g_next (APush (Some l)) (s_pbl (x_sys x))) gs), Etot.
  unfold ms_popped. rewrite Ebp, Eupl, Eacks, Ecur. cbn [fst snd].
  assert (Hnin : ~ In (fst l) (m_popped m ++ m_blocks m)).
  { intros Hi. rewrite Forall_forall in C4. destruct (C4 _ Hi) as [Hlt|[j [Hj Hz]]]; unfold l in *; cbn [fst] in *; lia. }
  split; [|split; [|split; [|split; [|split]]]].
  - unfold covx. rewrite Eu, Eb, En. constructor.
    + rewrite Ep. unfold offs. cbn [blocks set_blocks]. rewrite map_app. cbn. rewrite C1. reflexivity.
    + rewrite Ep. cbn. exact C2.
    + rewrite app_assoc. apply NoDup_snoc; assumption.
    + rewrite app_assoc. apply Forall_app. split.
      * eapply Forall_impl; [|exact C4]. intros z [Hz|[j [Hj Hz]]]; [left; exact Hz|right; exists j; split; [lia|exact Hz]].
      * constructor; [|constructor]. right. exists (x_nalloc x). split; [lia|reflexivity].
    + exact C5.
    + intros k abs size Hk. destruct (C6 k abs size Hk) as [lo [en [H1 [H2 H3]]]]. exists lo, en. splits; auto.
      rewrite app_assoc. apply nth_error_app_some. exact H2.
    + apply (F2_next _ _ _ _ _ (proj1 II) LL Ha C7).
    + apply acks2_next with (h := m_popped m ++ m_blocks m); [reflexivity| |eapply F2_impl2; [|exact C8]; intros k g [H1 [H2 H3]]; splits; auto].
      intros n z Hn. rewrite app_assoc. apply nth_error_app_some. exact Hn.
  - rewrite Ep. cbn [epochSeeds set_blocks]. lia.
  - pose proof (Wp_act (m_acks m) Etot (S (m_step m)) (x_sys x) (x_sys x1) (m_cur m) (APush (Some l)) (proj1 II) Ha) as W'.
    cbn [popc] in W'. rewrite Nat.add_0_r in W'. apply W'.
    + intros t st. rewrite <- Hs. destruct t; cbn; auto.
    + eapply Wp_weaken; [|exact W]. lia.
  - congruence.
  - unfold ms_v46. rewrite Ewok. reflexivity.
  - left. apply (old_steps m gs x). constructor; auto.
Qed.

(** ---- scenario: PopFront ---- *)
Lemma post_pop rem m x op o x1 res : rel2 (S rem) m x -> tag op = 3%Z -> sx_nth o 0 = res -> res = L [A 1] ->
  step cfg (x_sys x) EPopFront = Some (Ok (x_sys x1)) -> cnt_same x x1 -> x_nwr x1 = x_nwr x ->
  post1 rem m op o x x1.
Proof.
  intros [R [gs C] [S1 S2] Hnwr [Etot [Hb W]]] Hc Ho Hres Hs [Eb En] Enw.
  pose proof (r1_good _ _ _ _ _ _ _ R) as G. pose proof (good_inv1 _ _ _ _ _ _ G) as II.
  destruct (reachable_linv _ _ _ _ _ _ (proj1 G)) as [_ LL].
  pose proof (step_act _ _ _ _ Hs) as Ha. cbn [act_of] in Ha.
  assert (Hne : forall t a, EPopFront <> EStep t a) by (intros; discriminate).
  destruct (env_frame cfg _ _ _ Hne Hs) as [Er Ep].
  cbn [step] in Hs. destruct (blocks (s_pbl (x_sys x))) as [|fb rest] eqn:Ebl; [discriminate|].
  destruct (pop_front (s_pbl (x_sys x))) as [p'|] eqn:Epop; [|discriminate]. injection Hs as Hs.
  assert (Epb : s_pbl (x_sys x1) = p') by (rewrite <- Hs; reflexivity).
  assert (Eu : s_uploads (x_sys x1) = s_uploads (x_sys x)) by (rewrite <- Hs; reflexivity).
  destruct (pop_fields _ _ _ _ Ebl Epop) as [Fb [Fs [_ [Ft _]]]].
  destruct C as [C1 C2 C3 C4 C5 C6 C7 C8].
  assert (Emb : m_blocks m = fst (b_loc fb) :: offs p').
  { rewrite C1. unfold offs. rewrite Ebl, Fb. reflexivity. }
  assert (Ebp : ms_bp m op o = (offs p', m_popped m ++ [fst (b_loc fb)])).
  { unfold ms_bp, ms_hit. rewrite Ho, Hc, Hres, Emb. reflexivity. }
  assert (Eupl : ms_upl m op o = m_upl m) by (apply upl_same; left; rewrite Hc; discriminate).
  assert (Eacks : ms_acks m op o = m_acks m) by (apply acks_same; left; rewrite Hc; discriminate).
  destruct (cur_same m op o) as [Ecur Ewok]; [left; rewrite Hc; discriminate|].
  assert (Eh : (m_popped m ++ [fst (b_loc fb)]) ++ offs p' = m_popped m ++ m_blocks m).
  { rewrite <- app_assoc, Emb. reflexivity. }
  assert (Hec : b_epochs fb <= length (epochSeeds (s_pbl (x_sys x)))).
  { rewrite <- (i_sum _ (proj1 II)), Ebl. apply hd_epochs_le. }
  exists (map (g_next APop (s_pbl (x_sys x))) gs), (Etot + b_epochs fb).
  unfold ms_popped. rewrite Ebp, Eupl, Eacks, Ecur. cbn [fst snd].
  split; [|split; [|split; [|split; [|split]]]].
  - unfold covx. rewrite Eu, Eb, En, Epb. constructor; rewrite ?Eh; auto.
    + rewrite app_length, Ft. cbn. lia.
    + rewrite <- Epb. apply (F2_next _ _ _ _ _ (proj1 II) LL Ha C7).
    + apply acks2_next with (h := m_popped m ++ m_blocks m); [reflexivity|auto|].
      eapply F2_impl2; [|exact C8]. intros k g [H1 [H2 H3]]. splits; auto.
  - rewrite Epb, Fs, skipn_length. lia.
  - pose proof (Wp_act (m_acks m) Etot (S (m_step m)) (x_sys x) (x_sys x1) (m_cur m) APop (proj1 II) Ha) as W'.
    cbn [popc] in W'. rewrite Ebl in W'. apply W'.
    + intros t st. destruct t; cbn [written_state]; rewrite ?Er, ?Ep; auto.
    + eapply Wp_weaken; [|exact W]. lia.
  - congruence.
  - unfold ms_v46. rewrite Ewok. reflexivity.
  - left. apply (old_steps m gs x). constructor; auto.
Qed.

(** ---- scenario: Put ---- *)
Lemma post_put rem m x op o x1 res idx : rel2 (S rem) m x -> tag op = 1%Z -> sx_nth o 0 = res ->
  (let p := s_pbl (x_sys x) in
   idx < length (blocks p) /\
   step cfg (x_sys x) (EPutStart idx (sx_Z (sx_nth op 2))) = Some (Ok (x_sys x1)) /\
   x_blk x1 = x_blk x ++ [if sx_bool (sx_nth op 4) then None else Some (sx_Z (sx_nth op 3))] /\
   x_nalloc x1 = x_nalloc x /\
   res = L [A 1; A (if closedForWriting p then (-1)%Z else
                    match nth_error (blocks p) idx with Some b => fst (b_loc b) | None => (-1)%Z end)]) ->
  x_nwr x1 = x_nwr x -> post1 rem m op o x x1.
Proof.
  intros [R [gs C] [S1 S2] Hnwr [Etot [Hb W]]] Hc Ho [Hidx [Hs [Eb [En Hres]]]] Enw.
  pose proof (r1_good _ _ _ _ _ _ _ R) as G. pose proof (good_inv1 _ _ _ _ _ _ G) as II.
  cbn [step] in Hs. destruct (closedForWriting (s_pbl (x_sys x)) || _) eqn:Eg; [|discriminate].
  destruct (put_start idx (s_pbl (x_sys x))) as [tok|] eqn:Etok; [|discriminate]. injection Hs as Hs.
  assert (Epb : s_pbl (x_sys x1) = s_pbl (x_sys x)) by (rewrite <- Hs; reflexivity).
  assert (Eu : s_uploads (x_sys x1) = s_uploads (x_sys x) ++ [Some (tok, sx_Z (sx_nth op 2))]) by (rewrite <- Hs; reflexivity).
  assert (Ebp : ms_bp m op o = (m_blocks m, m_popped m)).
  { apply bp_same; left; rewrite Hc; discriminate. }
  set (lo := if closedForWriting (s_pbl (x_sys x)) then (-1)%Z else
             match nth_error (blocks (s_pbl (x_sys x))) idx with Some b => fst (b_loc b) | None => (-1)%Z end) in *.
  assert (Eupl : ms_upl m op o = m_upl m ++ [(lo, (sx_Z (sx_nth op 3) + sx_Z (sx_nth op 2))%Z)]).
  { unfold ms_upl, ms_hit. rewrite Ho, Hc, Hres. reflexivity. }
  assert (Eacks : ms_acks m op o = m_acks m) by (apply acks_same; left; rewrite Hc; discriminate).
  destruct (cur_same m op o) as [Ecur Ewok]; [left; rewrite Hc; discriminate|].
  destruct C as [C1 C2 C3 C4 [C5a C5b] C6 C7 C8].
  exists gs, Etot. unfold ms_popped. rewrite Ebp, Eupl, Eacks, Ecur. cbn [fst snd].
  split; [|split; [|split; [|split; [|split]]]].
  - unfold covx. rewrite Eu, Eb, En, Epb. constructor; auto.
    + rewrite !app_length. cbn. lia.
    + intros k abs size Hk.
      destruct (Nat.lt_ge_cases k (length (s_uploads (x_sys x)))) as [Hlt|Hge].
      * rewrite nth_error_app1 in Hk by exact Hlt. destruct (C6 k abs size Hk) as [lo0 [en [H1 [H2 H3]]]].
        exists lo0, en. splits; auto.
        -- apply nth_error_app_some. exact H1.
        -- intros off Hoff. apply H3. rewrite nth_error_app1 in Hoff by lia. exact Hoff.
      * rewrite nth_error_app2 in Hk by exact Hge.
        destruct (k - length (s_uploads (x_sys x))) as [|n] eqn:Ek; [|destruct n; discriminate].
        assert (k = length (s_uploads (x_sys x))) as -> by lia. cbn in Hk. inversion Hk; subst tok size. clear Hk.
        unfold put_start in Etok. destruct (closedForWriting (s_pbl (x_sys x))) eqn:Ecl; [discriminate|].
        destruct (idx <? length (blocks (s_pbl (x_sys x)))); [|discriminate]. inversion Etok; subst abs. clear Etok.
        exists lo, (sx_Z (sx_nth op 3) + sx_Z (sx_nth op 2))%Z. splits.
        -- rewrite nth_error_app2 by lia. replace (length (s_uploads (x_sys x)) - length (m_upl m)) with 0 by lia. reflexivity.
        -- rewrite nth_error_app2 by lia. rewrite C2, Nat.add_comm, Nat.add_sub, C1, nth_error_offs. unfold lo.
           destruct (nth_error (blocks (s_pbl (x_sys x))) idx) eqn:En0; [reflexivity|].
           apply nth_error_None in En0. lia.
        -- intros off Hoff. rewrite nth_error_app2 in Hoff by lia.
           replace (length (s_uploads (x_sys x)) - length (x_blk x)) with 0 in Hoff by lia. cbn in Hoff.
           destruct (sx_bool (sx_nth op 4)); inversion Hoff. reflexivity.
    + eapply F2_impl2; [|exact C8]. intros k g [H1 [H2 H3]]. splits; auto.
  - rewrite Epb. lia.
  - intros t st Hws. assert (written_state (x_sys x) t = Some st) as Hw0.
    { rewrite <- Hs in Hws. destruct t; exact Hws. }
    destruct (W t st Hw0) as [j [po [E0 [H1 [H2 [H3 [H4 H5]]]]]]].
    exists j, po, E0. rewrite Epb. splits; auto. all: intros j0 Hj; specialize (H5 j0 Hj); lia.
  - congruence.
  - unfold ms_v46. rewrite Ewok. reflexivity.
  - left. apply (old_steps m gs x). constructor; auto.
Qed.

(** ---- scenario: a finalizer runs ---- *)
Lemma post_fin rem m x op o x1 res tok size blk seed p' fr : rel2 (S rem) m x -> tag op = 2%Z -> sx_nth o 0 = res ->
  (let k := sx_nat (sx_nth op 1) in
   let p := s_pbl (x_sys x) in
   nth_error (s_uploads (x_sys x)) k = Some (Some (tok, size)) /\ nth_error (x_blk x) k = Some blk /\
   put_finalize tok blk size seed p = Ok (p', fr) /\
   step cfg (x_sys x) (EFinalize k blk seed) = Some (Ok (x_sys x1)) /\ cnt_same x x1 /\
   match fr with
   | FinOk off => exists e bfl sd,
       index_to_ref (match tok with PutAt abs => abs - totalReleased p' | PutClosed => 0 end) p' = Ok ((e, bfl), sd)
       /\ res = L [A 0; A off; of_N e; of_N bfl; of_N sd]
   | _ => tag res <> 0%Z
   end) ->
  x_nwr x1 = x_nwr x -> post1 rem m op o x x1.
Proof.
  intros [R [gs C] [S1 S2] Hnwr [Etot [Hb W]]] Hc Ho [Hu [Hxb [Hf [Hs [[Eb En] Hfr]]]]] Enw.
  pose proof (r1_good _ _ _ _ _ _ _ R) as G. pose proof (good_inv1 _ _ _ _ _ _ G) as II.
  destruct (reachable_linv _ _ _ _ _ _ (proj1 G)) as [_ LL].
  pose proof (step_act _ _ _ _ Hs) as Ha. cbn [act_of] in Ha. rewrite Hu in Ha.
  assert (Hne : forall t a, EFinalize (sx_nat (sx_nth op 1)) blk seed <> EStep t a) by (intros; discriminate).
  destruct (env_frame cfg _ _ _ Hne Hs) as [Er Ep]. pose proof (env_now_cancel _ _ _ _ Hs) as [_ Ecan].
  cbn [step] in Hs. rewrite Hu, Hf in Hs. injection Hs as Hs.
  assert (Epb : s_pbl (x_sys x1) = p') by (rewrite <- Hs; reflexivity).
  assert (Eu : s_uploads (x_sys x1) = clear_nth (s_uploads (x_sys x)) (sx_nat (sx_nth op 1))) by (rewrite <- Hs; reflexivity).
  assert (Ebp : ms_bp m op o = (m_blocks m, m_popped m)).
  { apply bp_same; left; rewrite Hc; discriminate. }
  assert (Eupl : ms_upl m op o = m_upl m) by (apply upl_same; left; rewrite Hc; discriminate).
  destruct (cur_same m op o) as [Ecur Ewok]; [left; rewrite Hc; discriminate|].
  destruct C as [C1 C2 C3 C4 [C5a C5b] C6 C7 C8].
  pose proof (fin_offs _ _ _ _ _ _ _ Hf) as Foffs. pose proof (fin_sfields _ _ _ _ _ _ _ Hf) as Fsf.
  pose proof (fin_seeds_len _ _ _ _ _ _ _ Hf) as Fsl.
  assert (Ftr : totalReleased p' = totalReleased (s_pbl (x_sys x))) by (unfold sfields in Fsf; congruence).
  assert (Fold : Forall2 (ack_ok p') (m_acks m) (map (g_next (AFin tok blk size seed) (s_pbl (x_sys x))) gs)).
  { rewrite <- Epb. apply (F2_next _ _ _ _ _ (proj1 II) LL Ha C7). }
  assert (Fold2 : Forall2 (fun k g => nth_error (m_popped m ++ m_blocks m) (o_block (g_o g)) = Some (k_loc k)
                             /\ k_step k < S (m_step m) /\ g_lv g = lvl (m_last_ok_start m) (m_series_start m) k)
                          (m_acks m) (map (g_next (AFin tok blk size seed) (s_pbl (x_sys x))) gs)).
  { apply acks2_next with (h := m_popped m ++ m_blocks m); [reflexivity|auto|].
    eapply F2_impl2; [|exact C8]. intros k g [H1 [H2 H3]]. splits; auto. }
  assert (Wold : Wp (m_acks m) Etot (S (m_step m)) (x_sys x1) (m_cur m)).
  { pose proof (Wp_act (m_acks m) Etot (S (m_step m)) (x_sys x) (x_sys x1) (m_cur m) _ (proj1 II) Ha) as W'.
    cbn [popc] in W'. rewrite Nat.add_0_r in W'. apply W'.
    - intros t st. destruct t; cbn [written_state]; rewrite ?Er, ?Ep; auto.
    - eapply Wp_weaken; [|exact W]. lia. }
  assert (Hcov : forall acks' gs', Forall2 (ack_ok p') acks' gs' ->
            Forall2 (fun k g => nth_error (m_popped m ++ m_blocks m) (o_block (g_o g)) = Some (k_loc k)
                             /\ k_step k < S (m_step m) /\ g_lv g = lvl (m_last_ok_start m) (m_series_start m) k) acks' gs' ->
            covx (S (m_step m)) (m_last_ok_start m) (m_series_start m) (m_blocks m) (m_popped m) (m_upl m) acks' gs' x1).
  { intros acks' gs' F1 F2. unfold covx. rewrite Eu, Eb, En, Epb. constructor; auto.
    - congruence.
    - congruence.
    - rewrite clear_nth_len. auto.
    - intros k abs sz Hk. apply clear_nth_some in Hk. apply C6. exact Hk. }
  assert (Hright : s_p (x_sys x1) = s_p (x_sys x) /\ s_cancel (x_sys x1) = s_cancel (x_sys x) /\ tag op = 2%Z) by auto.
  assert (Hbound : Etot + length (epochSeeds (s_pbl (x_sys x1))) + rem < N.to_nat M32) by (rewrite Epb; lia).
  unfold post1, ms_popped. rewrite Ebp, Eupl, Ecur. cbn [fst snd].
  assert (Hnoack : tag res <> 0%Z ->
            exists gs1 Etot1, covx (S (m_step m)) (m_last_ok_start m) (m_series_start m) (m_blocks m) (m_popped m)
                                   (m_upl m) (ms_acks m op o) gs1 x1
              /\ Etot1 + length (epochSeeds (s_pbl (x_sys x1))) + rem < N.to_nat M32
              /\ Wp (ms_acks m op o) Etot1 (S (m_step m)) (x_sys x1) (m_cur m)
              /\ x_nwr x1 = m_nwr m /\ ms_v46 m op o = []
              /\ ((forall k, In k (ms_acks m op o) -> k_step k < m_step m) \/
                  (s_p (x_sys x1) = s_p (x_sys x) /\ s_cancel (x_sys x1) = s_cancel (x_sys x) /\ tag op = 2%Z))).
  { intros Hr. assert (Eacks : ms_acks m op o = m_acks m) by (apply acks_same; right; rewrite Ho; exact Hr).
    rewrite Eacks. eexists _, Etot. splits; [apply Hcov; eauto|exact Hbound|exact Wold|congruence| |right; exact Hright].
    unfold ms_v46. rewrite Ewok. reflexivity. }
  destruct fr as [off| | |]; try (apply Hnoack; exact Hfr).
  (* FinOk: a new acknowledged upload *)
  destruct Hfr as [e [bfl [sd [Hir Hres]]]].
  destruct (fin_cases _ _ _ _ _ _ _ Hf) as [[_ Hno]|
    (abs & off' & bumped & Ht & Hblk & Hfr' & _ & Hge & Hlt & _)]; [exfalso; eapply Hno; reflexivity|].
  inversion Hfr'; subst off'. subst tok blk. clear Hfr'.
  destruct (C6 _ _ _ Hu) as [lo [en [Hul [Hhl Hen]]]]. specialize (Hen off Hxb).
  set (knew := mkAck (m_step m) lo en e).
  assert (Eacks : ms_acks m op o = m_acks m ++ [knew]).
  { unfold ms_acks. rewrite Ho, Hc, Hres. cbn [tag sx_nth sx_list nth sx_Z Z.eqb Pos.eqb andb length Nat.ltb Nat.leb].
    rewrite Hul. unfold knew. change (sx_nth (L [A 0; A off; of_N e; of_N bfl; of_N sd]) 2) with (of_N e).
    rewrite sx_N_of_N. reflexivity. }
  assert (Hloc : lo = fst (nth (abs - totalReleased (s_pbl (x_sys x))) (map b_loc (blocks (s_pbl (x_sys x)))) (0, 0)%Z)).
  { rewrite nth_error_app2 in Hhl by lia. rewrite C2, C1, nth_error_offs in Hhl.
    destruct (nth_error (blocks (s_pbl (x_sys x))) (abs - totalReleased (s_pbl (x_sys x)))) as [b|] eqn:Enb; [|discriminate].
    cbn in Hhl. inversion Hhl; subst lo. erewrite nth_error_nth; [reflexivity|]. apply map_nth_error. exact Enb. }
  destruct (ack_ok_new abs (Some off) size seed _ p' off e bfl sd knew (proj1 II) Hf Hir Hen eq_refl Hloc) as [Hnew Hge'].
  set (gnew := mkG (obj_of (s_pbl (x_sys x)) p' abs (off + size)) 0 0) in *.
  rewrite Eacks.
  exists (map (g_next (AFin (PutAt abs) (Some off) size seed) (s_pbl (x_sys x))) gs ++ [gnew]), Etot.
  splits.
  - apply Hcov; apply F2_app; auto. cbn [g_o g_lv gnew knew k_loc k_step o_block obj_of]. splits; [exact Hhl|lia|].
    symmetry. apply lvl_step_old with (i := m_step m); auto.
  - exact Hbound.
  - intros t st Hws. destruct (Wold t st Hws) as [j [po [E0 [H1 [H2 [H3 [H4 H5]]]]]]].
    exists j, po, E0. splits; auto. apply Forall_app. split; [exact H2|]. constructor; [|constructor].
    rewrite Epb in H3. destruct H3 as [H3a H3b].
    eapply okw_later with (g := gnew) (E := E0) (p := p'); eauto.
    + rewrite Epb in Hbound. lia.
    + unfold should. destruct j as [j0|]; [|reflexivity]. specialize (H5 j0 eq_refl).
      apply Nat.ltb_ge. cbn [knew k_step]. (* j0 <= S i is too weak: use the bound before this operation *)
      destruct (W t st) as [j1 [po1 [E1 [G1 [_ [_ [_ G5]]]]]]].
      { destruct t; cbn [written_state] in *; rewrite ?Er, ?Ep in Hws; exact Hws. }
      rewrite H1 in G1. inversion G1; subst j1. apply (G5 j0 eq_refl).
  - congruence.
  - unfold ms_v46. rewrite Ewok. reflexivity.
  - right. exact Hright.
Qed.

Lemma writer_cases s t : writer s = Some t ->
  (t = TR /\ exists st, s_r s = RW (WWriting st)) \/ (t = TP /\ exists k st, s_p s = PW k (WWriting st)).
Proof.
  unfold writer. destruct (s_r s) as [| |[]]; destruct (s_p s) as [| | | | | | | |k []|]; intros H; inversion H;
    first [left; split; [reflexivity|eexists; reflexivity]|right; split; [reflexivity|eexists _, _; reflexivity]].
Qed.

(** thread steps with an external answer perform no block-list call *)
Lemma thr_act_none op x t a res : thr_ok op x t a res -> act_of (x_sys x) (EStep t a) = ANone /\ at_getstate t (x_sys x) = false.
Proof.
  intros [_ [_ Hth]]. destruct Hth as [[_ [-> [Hsyn _]]]|[[_ [Hwr _]]|[_ [_ [[_ [-> [dl Er]]]|[_ [-> [dl [Hat _]]]]]]]]].
  - unfold is_syncing in Hsyn. cbn [act_of at_getstate]. destruct (s_p (x_sys x)); try discriminate. auto.
  - destruct (writer_cases _ _ Hwr) as [[-> [st Er]]|[-> [k [st Ep]]]]; cbn [act_of at_getstate]; rewrite ?Er, ?Ep; auto.
  - cbn [act_of at_getstate]. rewrite Er. auto.
  - cbn [act_of at_getstate]. destruct Hat as [Ep|[[k [f Ep]]|[k Ep]]]; rewrite Ep; auto.
Qed.

Lemma cov_op rem m x op x1 res xo :
  rel2 (S rem) m x -> tri cfg op x x1 res -> do_op cfg op x = Ok (x1, res) ->
  post1 rem m op (enc_obs res xo) x x1.
Proof.
  intros R2 T Hd. pose proof R2 as [R [gs C] [S1 S2] Hnwr [Etot [Hb W]]].
  pose proof (r1_good _ _ _ _ _ _ _ R) as G. pose proof (good_inv1 _ _ _ _ _ _ G) as II.
  destruct (reachable_inv_all _ _ _ _ _ _ (proj1 G)) as [_ [_ [I3 _]]].
  destruct (do_op_detail _ _ _ _ _ Hd) as [D1 [D2 [D4 Dn]]].
  set (o := enc_obs res xo).
  assert (Ho : sx_nth o 0 = res) by reflexivity.
  assert (Hnoop : forall (Hres3 : tag op = 3%Z -> tag res <> 1%Z) (Hres1 : tag op = 1%Z -> tag res <> 1%Z)
                         (Hres6 : tag op = 6%Z -> tag res <> 1%Z)
                         (Hres4 : tag op = 4%Z -> tag res <> 0%Z) (Hres2 : tag op = 2%Z -> tag res <> 0%Z),
            x1 = x -> post1 rem m op o x x1).
  { intros H3 H1 H6 H4 H2 ->.
    assert (Hh : forall c, (tag op = c -> tag res <> 1%Z) -> tag op <> c \/ ms_hit o = false).
    { intros c Hc. destruct (Z.eq_dec (tag op) c) as [E|E]; [right|left; exact E].
      unfold ms_hit. rewrite Ho. destruct (Z.eqb_spec (tag res) 1); [exfalso; apply (Hc E); assumption|reflexivity]. }
    assert (Hz : forall c, (tag op = c -> tag res <> 0%Z) -> tag op <> c \/ tag (sx_nth o 0) <> 0%Z).
    { intros c Hc. rewrite Ho. destruct (Z.eq_dec (tag op) c) as [E|E]; [right; auto|left; exact E]. }
    apply post_keep; auto; try (split; reflexivity).
    - apply bp_same; auto.
    - apply upl_same; auto.
    - apply acks_same; auto.
    - left. destruct (cur_same m op o (Hh 6%Z H6)) as [E1 E2]. auto. }
  destruct (Z.eq_dec (tag op) 1) as [E1|N1].
  { destruct (D1 E1) as [[-> Hr]|[idx Hd1]].
    - apply Hnoop; auto; intros; try lia; rewrite Hr; discriminate.
    - apply (post_put rem m x op o x1 res idx R2 E1 Ho Hd1).
      destruct Hd1 as [_ [Hs _]]. cbv zeta in Hs.
      destruct T as [[-> _]|[[e [_ [_ [_ En2]]]]|[t [a [[_ [_ Hth]] _]]]]]; auto.
      destruct Hth as [[E _]|[[E _]|[E _]]]; lia. }
  destruct (Z.eq_dec (tag op) 2) as [E2|N2].
  { destruct (D2 E2) as [[-> Hr]|[tok [size [blk [seed [p' [fr Hd2]]]]]]].
    - apply Hnoop; auto; intros; lia.
    - apply (post_fin rem m x op o x1 res tok size blk seed p' fr R2 E2 Ho Hd2).
      destruct T as [[-> _]|[[e [_ [_ [_ En2]]]]|[t [a [[_ [_ Hth]] _]]]]]; auto.
      destruct Hth as [[E _]|[[E _]|[E _]]]; lia. }
  destruct (Z.eq_dec (tag op) 4) as [E4|N4].
  { destruct (D4 E4) as [[-> Hr]|Hd4].
    - apply Hnoop; auto; intros; lia.
    - apply (post_push rem m x op o x1 res R2 E4 Ho Hd4).
      destruct T as [[-> _]|[[e [_ [_ [_ En2]]]]|[t [a [[_ [_ Hth]] _]]]]]; auto.
      destruct Hth as [[E _]|[[E _]|[E _]]]; lia. }
  specialize (Dn N1 N2 N4).
  destruct T as [[-> Hn]|[[e [He [Hs [En1 En2]]]]|[t [a [Hth Ht]]]]].
  - destruct Hn as [Hn1 _]. apply Hnoop; auto; intros; try lia; rewrite Hn1 by auto; discriminate.
  - (* PopFront, clock, cancellation *)
    assert (Hne : forall t a, e <> EStep t a) by (intros t a E; subst e; exact He).
    destruct (env_frame cfg _ _ _ Hne Hs) as [Er Ep].
    destruct e as [al| |idx size|k blk seed|d| |t a]; cbn [env_ok] in He;
      [destruct He as [Hc _]; lia| |destruct He as [Hc _]; lia|lia| | |destruct He].
    + destruct He as [Hc Hres]. apply (post_pop rem m x op o x1 res R2 Hc Ho Hres Hs Dn En2).
    + destruct He as [Hc [_ Hres]]. cbn [step] in Hs. injection Hs as Hs.
      apply post_keep; auto; try (rewrite <- Hs; reflexivity).
      * apply bp_same; left; rewrite Hc; discriminate.
      * apply upl_same; left; rewrite Hc; discriminate.
      * apply acks_same; left; rewrite Hc; discriminate.
      * left. destruct (cur_same m op o) as [E1 E2]; [left; rewrite Hc; discriminate|]. splits; auto.
        intros t st. rewrite <- Hs. destruct t; auto.
    + destruct He as [Hc Hres]. cbn [step] in Hs. injection Hs as Hs.
      apply post_keep; auto; try (rewrite <- Hs; reflexivity).
      * apply bp_same; left; rewrite Hc; discriminate.
      * apply upl_same; left; rewrite Hc; discriminate.
      * apply acks_same; left; rewrite Hc; discriminate.
      * left. destruct (cur_same m op o) as [E1 E2]; [left; rewrite Hc; discriminate|]. splits; auto.
        intros t st. rewrite <- Hs. destruct t; auto.
  - (* a thread step with an external answer *)
    destruct (tstep_ok _ _ _ _ _ Ht) as [Hs [_ [Hwr _]]].
    destruct (thr_act_none _ _ _ _ _ Hth) as [Han Hng].
    pose proof (step_act _ _ _ _ Hs) as Ha. rewrite Han in Ha. cbn in Ha. injection Ha as Ha.
    pose proof (thr_uploads _ _ _ _ _ II Hs) as Eu.
    rewrite Hng in Hwr.
    destruct Hth as [Hres [_ Hth]].
    assert (Hc : tag op = 5%Z \/ tag op = 6%Z \/ tag op = 8%Z).
    { destruct Hth as [[E _]|[[E _]|[E _]]]; auto. }
    assert (Hwsub : forall t' st, written_state (x_sys x1) t' = Some st -> written_state (x_sys x) t' = Some st).
    { intros t' st Hw. destruct (tid_eqb t' t) eqn:Et.
      - assert (t' = t) as -> by (destruct t', t; auto; discriminate).
        destruct (written_new _ _ _ _ _ _ Hs II Hw) as [H|H]; [exact H|congruence].
      - assert (t' <> t) as Hne by (intros ->; destruct t; discriminate).
        rewrite <- (written_frame _ _ _ _ _ _ II Hs Hne). exact Hw. }
    apply post_keep; auto.
    + apply bp_same; left; lia.
    + apply upl_same; left; lia.
    + apply acks_same; left; lia.
    + destruct (Z.eq_dec (tag op) 6) as [E6|N6].
      * (* the state write completes *)
        right.
        destruct Hth as [[E _]|[[_ [Hwr6 _]]|[E _]]]; try lia.
        assert (exists st, written_state (x_sys x) t = Some st) as [st Hw].
        { destruct (writer_cases _ _ Hwr6) as [[-> [st Er]]|[-> [k [st Ep]]]]; cbn [written_state]; rewrite ?Er, ?Ep; eauto. }
        split.
        -- destruct (W t st Hw) as [j [po [E0 [H1 [H2 _]]]]]. unfold ms_v46. rewrite H1.
           rewrite (acks_same m op o) by (left; lia). rewrite (check_write_nil _ _ H2).
           destruct (ms_write_ok op o); reflexivity.
        -- intros t' st' Hw'. pose proof (Hwsub _ _ Hw') as Hw0.
           pose proof (holds_excl _ _ _ I3 (writing_holds _ _ _ Hw0) (writing_holds _ _ _ Hw)) as Et. subst t'.
           (* the writer has left WWriting *)
           destruct t; cbn [step written_state] in *.
           ++ pose proof (rstep_shape _ _ _ _ Hs) as Sh. revert Sh Hw'.
              destruct (s_r (x_sys x)) as [| |[]]; try discriminate. intros [[w' [-> Sw]]|[Sw _]]; [|discriminate Sw].
              destruct Sw as [[_ ->]|[_ ->]]; discriminate.
           ++ destruct (pstep_shape _ _ _ _ II Hs) as [_ [_ [Sh _]]]. revert Sh Hw'.
              destruct (s_p (x_sys x)) as [| | | | | | | |k []|]; try discriminate. intros [[w' [-> Sw]]|[Sw _]]; [|discriminate Sw].
              destruct Sw as [[_ ->]|[_ ->]]; discriminate.
      * left. destruct (cur_same m op o) as [E1 E2]; [left; exact N6|]. auto.
Qed.

(** ---- level arithmetic of the monitor's sync bookkeeping ---- *)
Lemma lvl2_iff lo ss k : lvl lo ss k = 2 <-> should lo k = true.
Proof.
  unfold lvl. destruct (should lo k); [split; auto|]. destruct (_ <? _); split; intros H; discriminate.
Qed.

Lemma lvl_enter lo ss i k : k_step k < i -> lvl lo i k = Nat.max (lvl lo ss k) 1.
Proof.
  intros H. unfold lvl. destruct (should lo k); [reflexivity|].
  destruct (Nat.ltb_spec (k_step k) i); [|lia]. destruct (_ <? _); reflexivity.
Qed.

Lemma lvl_done lo ss k b i : (forall j, lo = Some j -> j <= ss) -> k_step k < i ->
  lv_next (lvl lo ss k) (ASyncDone b) = lvl (Some ss) (if b then i else ss) k.
Proof.
  intros H1 H3. unfold lvl, should.
  assert (Hs : match lo with Some j0 => (k_step k <? j0) | None => false end = true -> (k_step k <? ss) = true).
  { destruct lo as [j|]; [|discriminate]. specialize (H1 j eq_refl). intros H. apply Nat.ltb_lt in H. apply Nat.ltb_lt. lia. }
  destruct (match lo with Some j0 => (k_step k <? j0) | None => false end) eqn:E1.
  - rewrite (Hs eq_refl). destruct b; reflexivity.
  - destruct (Nat.ltb_spec (k_step k) ss) as [Hlt|Hge]; destruct b; cbn [lv_next]; try reflexivity.
    + destruct (Nat.ltb_spec (k_step k) i); [reflexivity|lia].
    + destruct (Nat.ltb_spec (k_step k) ss); [lia|reflexivity].
Qed.

(** ---- trajectories on which the put loop cannot reach a DataSyncer call ---- *)
Definition nos (p : ppc) : bool :=
  match p with
  | PW _ WAcquire | PW _ WGetState | PW _ (WWriting _) | PW _ (WSleep _) | PExit | PSyncSleep _ _ _ => true
  | _ => false
  end.

Lemma nos_traj f rw x1 x2 : good (x_sys x1) -> nos (s_p (x_sys x1)) = true -> quiesce cfg f rw x1 = Ok x2 ->
  nos (s_p (x_sys x2)) = true.
Proof.
  intros G Hn H.
  destruct (quiesce_ind cfg alloc oldest init t0 (fun xc => nos (s_p (x_sys xc)) = true)) with (f := f) (rw := rw) (x := x1) (x2 := x2)
    as [Q _]; auto.
  intros x t x' P Gx Hi Ht. destruct (tstep_ok _ _ _ _ _ Ht) as [Hs _].
  pose proof (good_inv1 _ _ _ _ _ _ Gx) as II.
  destruct t; cbn [step t_internal] in *.
  - rewrite (rstep_frame _ _ _ _ II Hs). exact P.
  - destruct (pstep_shape _ _ _ _ II Hs) as [_ [_ [Sh _]]]. revert Sh P Hi. unfold p_internal, p_in_io, p_in_timer.
    destruct (s_p (x_sys x)) as [| | | | | | | |k w|]; cbn; try discriminate; intros Sh P Hi.
    + destruct Sh as [[w' [-> Sw]]|[-> _]]; [|discriminate P].
      destruct w; cbn in Hi; try discriminate Hi.
      * subst w'. reflexivity.
      * destruct Sw as [st ->]. reflexivity.
      * destruct Sw.
    + destruct Sh.
Qed.

Lemma quiet_cancel_nos s : inv1 s -> quiet cfg s -> s_cancel s = true -> nos (s_p s) = true \/ is_syncing s = true.
Proof.
  intros II [_ Qp] Hc.
  destruct (s_p s) as [|ch|ch|dl|keep|keep final|keep final|keep final dl|keep w|] eqn:Ep; auto;
    try (exfalso; unfold p_internal, p_in_io, p_in_timer, enabled in Qp; cbn [step] in Qp; unfold pstep in Qp;
         rewrite Ep in Qp; cbn in Qp; rewrite ?Hc in Qp; cbn in Qp;
         try (revert Qp; match goal with |- context [is_closed ?h ?c] => destruct (is_closed h c) end; intros Qp; cbn in Qp);
         try (revert Qp; match goal with |- context [negb ?k && negb ?f] => destruct k, f end; intros Qp; cbn in Qp);
         discriminate Qp).
  - right. unfold is_syncing. rewrite Ep. reflexivity.
  - destruct w; auto. exfalso.
    destruct (holder_enabled_p cfg s II) as [H|H]; [unfold p_holds; rewrite Ep; reflexivity| |congruence].
    unfold p_in_io in H. rewrite Ep in H. discriminate.
Qed.

Lemma quiet_not_syncret s k f : quiet cfg s -> s_p s <> PSyncRet k f.
Proof.
  intros [_ Qp] E. unfold p_internal, p_in_io, p_in_timer, enabled in Qp. cbn [step] in Qp. unfold pstep in Qp.
  rewrite E in Qp. cbn in Qp. destruct (negb k && negb f); discriminate.
Qed.

Lemma r_internal_with_p s pc : r_internal cfg (with_p s pc) = r_internal cfg s.
Proof.
  unfold r_internal, r_in_io, r_in_timer, enabled. cbn [step]. unfold rstep. cbn [s_r with_p].
  destruct (s_r s) as [| |w]; cbn; try reflexivity.
  - destruct (is_closed _ _); reflexivity.
  - unfold wstep. destruct w; cbn; try reflexivity.
    + destruct (s_store s); reflexivity.
    + destruct (get_persistent_state _) as [[p' st]|]; reflexivity.
    + destruct (notify_state_written _); reflexivity.
Qed.

(** ---- the sync bookkeeping of the monitor against the model ---- *)
Lemma series_eq m op res x1 x2 : mid1 cfg m op res x2 x1 -> qtraj x1 x2 ->
  ms_new_sync m (enc_obs res x2) && negb (ms_retry m op (enc_obs res x2)) = entered x1 x2.
Proof.
  intros [_ _ _ _ M5 M6 _] [_ _ _ _ Q5 _ _ Q8 _]. rewrite new_sync_eq. unfold entered.
  destruct (is_syncing (x_sys x2)) eqn:E2; [|rewrite andb_false_r; reflexivity]. cbn [andb]. rewrite andb_true_r.
  destruct (is_syncing (x_sys x1)) eqn:E1; cbn [negb].
  - destruct Q5 as [Q5 _]. destruct M6 as [M6|[M6 [_ M6']]].
    + assert ((m_nsy m <? x_nsy x2) = false) as -> by (apply Nat.ltb_ge; lia). reflexivity.
    + rewrite M6'. apply andb_false_r.
  - destruct M6 as [M6|[_ [M6 _]]]; [|congruence]. rewrite ?E1, ?E2 in Q5. cbv iota in Q5.
    assert ((m_nsy m <? x_nsy x2) = true) as -> by (apply Nat.ltb_lt; lia). cbn [andb].
    destruct (ms_retry m op (enc_obs res x2)) eqn:Er; [exfalso|reflexivity].
    destruct (M5 eq_refl) as [Hs|Hs]; [|congruence].
    unfold is_syncing in E2. rewrite (Q8 Hs) in E2. unfold is_sleep in Hs. destruct (s_p (x_sys x1)); discriminate.
Qed.

Lemma no_entry_fin m x x1 f rw x2 : rel1 m x -> good (x_sys x1) ->
  s_p (x_sys x1) = s_p (x_sys x) -> s_cancel (x_sys x1) = s_cancel (x_sys x) ->
  quiesce cfg f rw x1 = Ok x2 -> entered x1 x2 = false.
Proof.
  intros R G1 Ep Ec Hq. pose proof (quiesce_traj _ _ _ _ _ _ _ _ _ G1 Hq) as Q.
  destruct (quiesce_ind cfg alloc oldest init t0 (fun _ => True) (fun _ _ _ _ _ _ _ => I) f rw x1 x2 G1 I Hq) as [_ G2].
  unfold entered. destruct (is_syncing (x_sys x1)) eqn:E1; [reflexivity|]. cbn [negb andb].
  destruct (is_syncing (x_sys x2)) eqn:E2; [exfalso|reflexivity].
  unfold is_syncing in E2. destruct (s_p (x_sys x2)) as [| | | | |k f0| | | |] eqn:Ep2; try discriminate.
  destruct k.
  - destruct (q_keep _ _ Q) as [H|H]; [right; eauto| |].
    + rewrite Ep in H. eapply quiet_not_notify; [apply (r1_quiet _ _ _ _ _ _ _ R)|exact H].
    + unfold is_syncing in E1. rewrite H, Ep2 in E1. discriminate.
  - destruct G2 as [_ [_ K]]. unfold keepc in K. rewrite Ep2 in K.
    rewrite (q_cancel _ _ Q), Ec in K.
    destruct (quiet_cancel_nos _ (good_inv1 _ _ _ _ _ _ (r1_good _ _ _ _ _ _ _ R)) (r1_quiet _ _ _ _ _ _ _ R) K) as [H|H].
    + rewrite <- Ep in H. pose proof (nos_traj _ _ _ _ G1 H Hq) as H2. rewrite Ep2 in H2. discriminate.
    + unfold is_syncing in H, E1. rewrite <- Ep in H. congruence.
Qed.

(** after a successful DataSyncer call the put loop's next step is NotifySyncCompleted *)
Lemma syncret_cases m x op x1 res xo : rel1 m x -> tri cfg op x x1 res ->
  (ms_sync_ok op (enc_obs res xo) = true /\ exists k f, x_sys x1 = with_p (x_sys x) (PSyncRet k f) /\ x_nwr x1 = x_nwr x
                                                      /\ same_counters x x1 /\ tag op = 5%Z) \/
  (ms_sync_ok op (enc_obs res xo) = false /\ forall k f, s_p (x_sys x1) <> PSyncRet k f).
Proof.
  intros R T. pose proof (r1_good _ _ _ _ _ _ _ R) as G. pose proof (good_inv1 _ _ _ _ _ _ G) as II.
  pose proof (r1_quiet _ _ _ _ _ _ _ R) as Qx.
  unfold ms_sync_ok, ms_sync_done, ms_hit. rewrite obs_nth0.
  destruct T as [[-> Hn]|[[e [He [Hs [En1 En2]]]]|[t [a [[Hres [Hat Hth]] Ht]]]]].
  - right. split; [|intros k f; apply quiet_not_syncret; exact Qx].
    destruct Hn as [Hn1 _]. destruct (Z.eqb_spec (tag op) 5) as [E|E]; [rewrite Hn1 by auto|]; reflexivity.
  - right. assert (Hne : forall t a, e <> EStep t a) by (intros t a E; subst e; exact He).
    destruct (env_frame cfg _ _ _ Hne Hs) as [_ Ep]. destruct (env_ok_code _ _ _ _ He) as [_ [_ [_ [Hc5 _]]]].
    split; [destruct (Z.eqb_spec (tag op) 5); [contradiction|reflexivity]|].
    intros k f. rewrite Ep. apply quiet_not_syncret; exact Qx.
  - destruct (tstep_ok _ _ _ _ _ Ht) as [Hs [Hcnt [Hwr _]]].
    destruct (thr_act_none _ _ _ _ _ (conj Hres (conj Hat Hth))) as [_ Hng]. rewrite Hng in Hwr.
    destruct t; cbn [step] in Hs.
    + right. pose proof (rstep_frame _ _ _ _ II Hs) as Ep. split.
      * destruct Hth as [[E [Et _]]|[[E _]|[E _]]]; [discriminate Et|rewrite E; reflexivity|rewrite E; reflexivity].
      * intros k f. rewrite Ep. apply quiet_not_syncret; exact Qx.
    + destruct (pstep_shape _ _ _ _ II Hs) as [_ [_ [Sh _]]].
      destruct Hth as [[E5 [_ [Hsyn Hok]]]|[[E6 [Hwr6 _]]|[E8 [Hok [[_ [Et _]]|[_ [_ [dl [Hat' _]]]]]]]]].
      * unfold is_syncing in Hsyn. revert Sh Hs. unfold pstep.
        destruct (s_p (x_sys x)) as [| | | | |k f| | | |]; try discriminate. intros Sh Hs.
        rewrite E5, Hres. change (Z.eqb 5 5 && Z.eqb (tag (L [A 1%Z])) 1) with true. cbn [andb]. rewrite <- Hok.
        destruct (a_ok a).
        -- left. split; [reflexivity|]. exists k, f. inversion Hs. splits; auto.
        -- right. split; [reflexivity|]. destruct Sh as [[Hc _]|[_ Sh]]; [discriminate|]. intros k' f'. rewrite Sh. discriminate.
      * right. split; [rewrite E6; reflexivity|].
        destruct (writer_cases _ _ Hwr6) as [[Et _]|[_ [k [st Ep]]]]; [discriminate Et|]. rewrite Ep in Sh.
        intros k' f'. destruct Sh as [[w' [-> _]]|[_ ->]]; [discriminate|destruct k; discriminate].
      * discriminate Et.
      * right. split; [rewrite E8; reflexivity|]. intros k' f'.
        destruct Hat' as [Ep|[[k [f Ep]]|[k Ep]]]; rewrite Ep in Sh.
        -- destruct Sh as [[_ [-> _]]|[-> _]]; discriminate.
        -- rewrite Sh. discriminate.
        -- destruct Sh as [[w' [-> _]]|[_ ->]]; [discriminate|destruct k; discriminate].
Qed.

Lemma F2_conj {A B} (R R' : A -> B -> Prop) l1 l2 : Forall2 R l1 l2 -> Forall2 R' l1 l2 ->
  Forall2 (fun a b => R a b /\ R' a b) l1 l2.
Proof. intros F. induction F; intros F'; inversion F'; subst; constructor; auto. Qed.

Lemma zm_of_cov sb lo ss blks popped upl acks gs p ups xb na :
  cov sb lo ss blks popped upl acks gs p ups xb na ->
  Forall2 (fun k g => o_block (g_o g) < totalReleased p -> zmem (k_loc k) popped = true) acks gs.
Proof.
  intros [C1 C2 C3 C4 C5 C6 C7 C8]. eapply F2_impl2; [|exact C8]. intros k g [H1 _] Hlt.
  apply zmem_in. rewrite <- C2 in Hlt. rewrite nth_error_app1 in H1 by exact Hlt. eapply nth_error_In; eauto.
Qed.

(** the monitor's record of the state write in flight *)
Lemma nc_eq m op res x2 nw0 cur_c :
  let o := enc_obs res x2 in
  inv3 (x_sys x2) -> nw0 = m_nwr m ->
  ((x_nwr x2 = nw0 /\ cur_c = ms_cur0 m op o) \/
   (x_nwr x2 = S nw0 /\ exists t st, written_state (x_sys x2) t = Some st
      /\ cur_c = Some (mkPendw (enc_st st) (ms_last_ok m op o) (ms_popped m op o)))) ->
  ms_nc m op o (ms_popped m op o) = (x_nwr x2, cur_c).
Proof.
  intros o I3 -> H. subst o. unfold ms_nc.
  destruct H as [[E1 E2]|[E1 [t [st [Hw E2]]]]].
  - assert (Hcase : (exists t st, written_state (x_sys x2) t = Some st) \/ (forall t st, written_state (x_sys x2) t <> Some st)).
    { destruct (written_state (x_sys x2) TR) as [st|] eqn:Er; [left; eauto|].
      destruct (written_state (x_sys x2) TP) as [st|] eqn:Ep; [left; eauto|].
      right. intros t st. destruct t; congruence. }
    destruct Hcase as [[t [st Hw]]|Hno].
    + destruct (wobs_writer res x2 t st I3 Hw) as [w [Hw1 [Hw2 _]]]. rewrite Hw1, Hw2.
      assert ((m_nwr m <? x_nwr x2) = false) as -> by (apply Nat.ltb_ge; lia). congruence.
    + rewrite (wobs_none res x2 Hno). congruence.
  - destruct (wobs_writer res x2 t st I3 Hw) as [w [Hw1 [Hw2 Hw3]]]. rewrite Hw1, Hw2, Hw3.
    assert ((m_nwr m <? x_nwr x2) = true) as -> by (apply Nat.ltb_lt; lia). congruence.
Qed.

Lemma finish2 rem m op res xs x2 gsS Etot1 loX ssX :
  let o := enc_obs res x2 in
  let i := m_step m in
  let m' := mon_step (c_interval cfg) m op o in
  rel1 m' x2 ->
  covx (S i) loX ssX (fst (ms_bp m op o)) (ms_popped m op o) (ms_upl m op o) (ms_acks m op o) gsS xs ->
  ctraj (ms_acks m op o) gsS (ms_cur0 m op o) (ms_last_ok m op o) (ms_popped m op o) Etot1 (S i) xs x2 ->
  inv3 (x_sys x2) ->
  Forall2 (fun k g => g_lv (lift (entered xs x2) g) = lvl (ms_last_ok m op o) (ms_series m op o) k) (ms_acks m op o) gsS ->
  Etot1 + length (epochSeeds (s_pbl (x_sys xs))) + rem < N.to_nat M32 ->
  x_nwr xs = m_nwr m ->
  ms_series m op o <= S i -> (forall j, ms_last_ok m op o = Some j -> j <= ms_series m op o) ->
  rel2 rem m' x2.
Proof.
  intros o i m' R1 C CT I3 Hlv Hb Hnw Hs1 Hs2.
  destruct CT as [T1 T2 T3 [cur_c [T4 T4']] T5 T6 T7 T8 [T9a [T9b T9c]]].
  destruct C as [C1 C2 C3 C4 C5 C6 C7 C8].
  assert (Hnc : ms_nc m op o (ms_popped m op o) = (x_nwr x2, cur_c)).
  { apply (nc_eq m op res x2 (x_nwr xs) cur_c I3 Hnw). exact T4'. }
  constructor.
  - exact R1.
  - exists (map (lift (entered xs x2)) gsS). unfold m'. rewrite mon_step_eq.
    cbn [m_step m_last_ok_start m_series_start m_blocks m_popped m_upl m_acks].
    unfold covx. rewrite T8, T9c, T9a. constructor; auto.
    + rewrite T5. exact C1.
    + rewrite T7. exact C2.
    + apply F2_map_r. eapply F2_impl2; [|exact (F2_conj _ _ _ _ C8 Hlv)].
      intros k g [[H1 [H2 _]] H3]. splits; auto. destruct (entered xs x2); exact H1.
  - unfold m'. rewrite mon_step_eq. cbn [m_step m_last_ok_start m_series_start]. auto.
  - unfold m'. rewrite mon_step_eq. cbn [m_nwr]. fold o. rewrite Hnc. reflexivity.
  - exists Etot1. unfold m'. rewrite mon_step_eq. cbn [m_step m_acks m_cur]. fold o. rewrite Hnc. cbn [snd].
    split; [rewrite T6; exact Hb|exact T4].
Qed.

Lemma F2_impl_in {A B} (R R' : A -> B -> Prop) l1 l2 :
  (forall a b, In a l1 -> R a b -> R' a b) -> Forall2 R l1 l2 -> Forall2 R' l1 l2.
Proof.
  intros H F. induction F as [|a b l l' Hab F IH]; constructor.
  - apply H; [left; reflexivity|exact Hab].
  - apply IH. intros a0 b0 Hi. apply H. right. exact Hi.
Qed.

Lemma not_syncing_nos p : nos p = true -> match p with PSyncing _ _ => true | _ => false end = false.
Proof. destruct p; try reflexivity. discriminate. Qed.

(** ---- one operation: the coverage relation is preserved, clauses 4 and 6 stay silent ---- *)
Lemma rel2_step rem m x op rw x1 res x2 :
  rel2 (S rem) m x -> tri cfg op x x1 res -> do_op cfg op x = Ok (x1, res) -> quiesce cfg 64 rw x1 = Ok x2 ->
  rel2 rem (mon_step (c_interval cfg) m op (enc_obs res x2)) x2 /\ ms_v46 m op (enc_obs res x2) = [].
Proof.
  intros R2 T Hd Hq. pose proof R2 as [R [gs0 C0] [S1 S2] Hnwr0 _].
  set (o := enc_obs res x2).
  destruct (rel1_step _ _ _ _ _ m x op rw x1 res x2 R T Hq) as [R1' _].
  destruct (rel1_mid _ _ _ _ _ m x op x1 res x2 R T) as [G1 M].
  destruct (cov_op rem m x op x1 res x2 R2 T Hd) as [gs1 [Etot1 [C [Hb [W [Hnw [Hv46 Hfresh]]]]]]].
  fold o in C, Hb, W, Hv46, Hfresh.
  split; [|exact Hv46].
  pose proof (quiesce_traj _ _ _ _ _ _ _ _ _ G1 Hq) as Q.
  destruct (quiesce_ind cfg alloc oldest init t0 (fun _ => True) (fun _ _ _ _ _ _ _ => I) 64 rw x1 x2 G1 I Hq) as [_ G2].
  destruct (reachable_inv_all _ _ _ _ _ _ (proj1 G2)) as [_ [_ [I32 _]]].
  pose proof (series_eq m op res x1 x2 M Q) as Hser. fold o in Hser.
  pose proof (good_inv1 _ _ _ _ _ _ G1) as II1.
  destruct (reachable_linv _ _ _ _ _ _ (proj1 G1)) as [_ LL1].
  assert (Ess : ms_series m op o = if entered x1 x2 then m_step m else m_series_start m).
  { unfold ms_series. rewrite Hser. reflexivity. }
  destruct (syncret_cases m x op x1 res x2 R T) as [[Hok [k [f [Ex1 [Enw1 [Ecnt E5]]]]]]|[Hok Hnret]]; fold o in Hok.
  - (* NotifySyncCompleted comes first *)
    assert (Elo : ms_last_ok m op o = Some (m_series_start m)) by (unfold ms_last_ok; rewrite Hok; reflexivity).
    assert (Ep1 : s_p (x_sys x1) = PSyncRet k f) by (rewrite Ex1; reflexivity).
    assert (Hold : forall k0, In k0 (ms_acks m op o) -> k_step k0 < m_step m).
    { destruct Hfresh as [H|[_ [_ H]]]; [exact H|lia]. }
    assert (Hri : r_internal cfg (x_sys x1) = false).
    { rewrite Ex1, r_internal_with_p. apply (r1_quiet _ _ _ _ _ _ _ R). }
    assert (Hpi : p_internal cfg (x_sys x1) = true).
    { unfold p_internal, p_in_io, p_in_timer, enabled. cbn [step]. unfold pstep. rewrite Ep1. cbn.
      destruct (negb k && negb f); reflexivity. }
    assert (Hpick : pick_of cfg rw (x_sys x1) = Some TP).
    { unfold pick_of. rewrite Hri, Hpi. reflexivity. }
    change 64 with (S 63) in Hq. rewrite quiesce_S, Hpick in Hq.
    destruct (tstep cfg TP internal_ans x1) as [[x1'|]|] eqn:Et.
    2:{ exfalso. exact (tstep_nopanic cfg alloc oldest init t0 TP internal_ans x1 G1 Et). }
    2:{ exfalso. unfold tstep in Et. pose proof (internal_enabled cfg (x_sys x1) TP Hpi) as Hen.
        destruct (step cfg (x_sys x1) (EStep TP internal_ans)) as [[s'|]|]; try discriminate. congruence. }
    destruct (tstep_ok _ _ _ _ _ Et) as [Hs' [[Ec1 [Ec2 Ec3]] [Hwr' _]]].
    assert (Hwr1 : x_nwr x1' = x_nwr x1).
    { rewrite Hwr'. unfold at_getstate. rewrite Ep1. reflexivity. }
    pose proof (step_good _ _ _ _ _ _ _ _ G1 Hs') as G1'.
    pose proof (step_act _ _ _ _ Hs') as Ha. cbn [act_of] in Ha. rewrite Ep1 in Ha.
    set (b := negb k && negb f) in *.
    pose proof (int_fields _ _ _ Ha) as [Foffs Fseeds]. cbn [step] in Hs'.
    destruct (pstep_shape _ _ _ _ II1 Hs') as [_ [_ [Sh _]]]. rewrite Ep1 in Sh.
    pose proof (internal_act_tr cfg _ TP _ _ Hs') as Ftr.
    pose proof (thr_uploads cfg _ TP _ _ II1 Hs') as Fup.
    set (gsS := map (g_next (ASyncDone b) (s_pbl (x_sys x1))) gs1).
    assert (Hsub : forall t st, written_state (x_sys x1') t = Some st -> written_state (x_sys x1) t = Some st).
    { intros t st Hw. destruct t.
      - rewrite <- (written_frame cfg _ TP _ _ TR II1 Hs') by discriminate. exact Hw.
      - destruct (written_new cfg _ TP _ _ _ Hs' II1 Hw) as [H|H]; [exact H|].
        unfold at_getstate in H. rewrite Ep1 in H. discriminate. }
    destruct C as [C1 C2 C3 C4 C5 C6 C7 C8].
    assert (CS : covx (S (m_step m)) (Some (m_series_start m)) (if b then m_step m else m_series_start m)
                      (fst (ms_bp m op o)) (ms_popped m op o) (ms_upl m op o) (ms_acks m op o) gsS x1').
    { unfold covx. rewrite Fup, Ec3, Ec1. constructor; auto.
      - rewrite Foffs. exact C1.
      - rewrite Ftr. exact C2.
      - apply (F2_next _ _ _ _ _ (proj1 II1) LL1 Ha C7).
      - apply F2_map_r. eapply F2_impl_in; [|exact C8]. intros k0 g Hin [H1 [H2 H3]].
        unfold g_next. cbn [g_o g_lv]. splits; auto. rewrite H3. apply lvl_done; auto. }
    assert (Hnos : b = false -> nos (s_p (x_sys x1')) = true).
    { intros Hbf. destruct Sh as [[-> [-> _]]|[_ ->]]; [discriminate Hbf|reflexivity]. }
    assert (Hent' : entered x1' x2 = false).
    { unfold entered. destruct Sh as [[_ [_ Sh]]|[Hkf Sh]].
      - unfold is_syncing. rewrite Sh. reflexivity.
      - assert (nos (s_p (x_sys x1')) = true) as Hn by (rewrite Sh; reflexivity).
        pose proof (nos_traj _ _ _ _ G1' Hn Hq) as Hn2. unfold is_syncing. rewrite (not_syncing_nos _ Hn2). apply andb_false_r. }
    assert (Hent : entered x1 x2 = b).
    { unfold entered, is_syncing. rewrite Ep1. cbn [negb andb]. destruct Sh as [[-> [-> Sh]]|[Hkf Sh]].
      - pose proof (quiesce_traj _ _ _ _ _ _ _ _ _ G1' Hq) as Q'. pose proof (q_nsy _ _ Q') as Q5.
        unfold is_syncing in Q5. rewrite Sh in Q5. destruct Q5 as [_ Q5]. rewrite Q5. reflexivity.
      - assert (nos (s_p (x_sys x1')) = true) as Hn by (rewrite Sh; reflexivity).
        pose proof (nos_traj _ _ _ _ G1' Hn Hq) as Hn2. rewrite (not_syncing_nos _ Hn2).
        unfold b. destruct Hkf as [-> | ->]; try destruct k; try destruct f; reflexivity. }
    assert (HB : length (epochSeeds (s_pbl (x_sys x1'))) < N.to_nat M32) by (rewrite Fseeds; lia).
    assert (HL : Forall2 (fun k0 g => g_lv g = 2 <-> should (ms_last_ok m op o) k0 = true) (ms_acks m op o) gsS).
    { rewrite Elo. eapply F2_impl2; [|exact (cv_acks2 _ _ _ _ _ _ _ _ _ _ _ _ CS)].
      intros k0 g [_ [_ H3]]. rewrite H3. apply lvl2_iff. }
    assert (HJ : forall j0, ms_last_ok m op o = Some j0 -> j0 <= S (m_step m)).
    { rewrite Elo. intros j0 E. inversion E; subst. lia. }
    assert (CT0 : ctraj (ms_acks m op o) gsS (ms_cur0 m op o) (ms_last_ok m op o) (ms_popped m op o) Etot1 (S (m_step m)) x1' x1').
    { apply ctraj_refl.
      - exact (cv_acks _ _ _ _ _ _ _ _ _ _ _ _ CS).
      - intros k' f' E. destruct Sh as [[_ [_ Sh]]|[_ Sh]]; rewrite Sh in E; discriminate.
      - pose proof (Wp_act (ms_acks m op o) Etot1 (S (m_step m)) (x_sys x1) (x_sys x1') (ms_cur0 m op o) _ (proj1 II1) Ha Hsub W) as W'.
        cbn [popc] in W'. rewrite Nat.add_0_r in W'. exact W'. }
    pose proof (quiesce_ctraj cfg alloc oldest init t0 _ _ _ _ _ _ _ x1' HB (zm_of_cov _ _ _ _ _ _ _ _ _ _ _ _ CS) HL HJ
                              63 rw x2 G1' CT0 Hq) as CT.
    apply (finish2 rem m op res x1' x2 gsS Etot1 _ _ R1' CS CT I32).
    + rewrite Hent'. fold o. rewrite Elo, Ess, Hent. eapply F2_impl2; [|exact (cv_acks2 _ _ _ _ _ _ _ _ _ _ _ _ CS)].
      intros k0 g [_ [_ H3]]. exact H3.
    + rewrite Fseeds. exact Hb.
    + congruence.
    + fold o. rewrite Ess. destruct (entered x1 x2); lia.
    + fold o. rewrite Elo, Ess. intros j E. inversion E; subst. destruct (entered x1 x2); lia.
  - (* no sync completion in this operation *)
    assert (Elo : ms_last_ok m op o = m_last_ok_start m) by (unfold ms_last_ok; rewrite Hok; reflexivity).
    assert (HB : length (epochSeeds (s_pbl (x_sys x1))) < N.to_nat M32) by lia.
    assert (HL : Forall2 (fun k0 g => g_lv g = 2 <-> should (ms_last_ok m op o) k0 = true) (ms_acks m op o) gs1).
    { rewrite Elo. eapply F2_impl2; [|exact (cv_acks2 _ _ _ _ _ _ _ _ _ _ _ _ C)].
      intros k0 g [_ [_ H3]]. rewrite H3. apply lvl2_iff. }
    assert (HJ : forall j0, ms_last_ok m op o = Some j0 -> j0 <= S (m_step m)).
    { rewrite Elo. intros j0 E. specialize (S2 j0 E). lia. }
    assert (CT0 : ctraj (ms_acks m op o) gs1 (ms_cur0 m op o) (ms_last_ok m op o) (ms_popped m op o) Etot1 (S (m_step m)) x1 x1).
    { apply ctraj_refl; [exact (cv_acks _ _ _ _ _ _ _ _ _ _ _ _ C)|exact Hnret|exact W]. }
    pose proof (quiesce_ctraj cfg alloc oldest init t0 _ _ _ _ _ _ _ x1 HB (zm_of_cov _ _ _ _ _ _ _ _ _ _ _ _ C) HL HJ
                              64 rw x2 G1 CT0 Hq) as CT.
    apply (finish2 rem m op res x1 x2 gs1 Etot1 _ _ R1' C CT I32).
    + fold o. rewrite Elo, Ess. destruct (entered x1 x2) eqn:Ee.
      * assert (Hold : forall k0, In k0 (ms_acks m op o) -> k_step k0 < m_step m).
        { destruct Hfresh as [H|[Hp [Hc _]]]; [exact H|exfalso].
          rewrite (no_entry_fin m x x1 64 rw x2 R G1 Hp Hc Hq) in Ee. discriminate. }
        eapply F2_impl_in; [|exact (cv_acks2 _ _ _ _ _ _ _ _ _ _ _ _ C)]. intros k0 g Hin [_ [_ H3]].
        cbn [lift g_lv]. rewrite H3. symmetry. apply lvl_enter. apply Hold. exact Hin.
      * eapply F2_impl2; [|exact (cv_acks2 _ _ _ _ _ _ _ _ _ _ _ _ C)]. intros k0 g [_ [_ H3]]. exact H3.
    + exact Hb.
    + exact Hnw.
    + fold o. rewrite Ess. destruct (entered x1 x2); lia.
    + fold o. rewrite Elo, Ess. intros j E. specialize (S2 j E). destruct (entered x1 x2); lia.
Qed.

End C46.
