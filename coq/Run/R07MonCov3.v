(** C07, "the monitor is silent on the model" — part 8: the coverage
    relation between monitor and model across [do_op] (clauses 4 and 6).

    [cov]: the monitor's block / popped / upload / acknowledgement lists
    against the model state: block offsets by absolute index, pending upload
    tokens, one valid ghost record per acknowledged upload whose level is the
    one the monitor derives from its sync bookkeeping ([lvl]).  [cov_op]: one
    [do_op] preserves it (with the monitor's lists AFTER the operation and the
    sync bookkeeping of BEFORE). *)
From Coq Require Import List NArith ZArith Bool Arith Lia.
From BBS Require Import Common.Sx Persist.PBL Persist.PBLProofs Persist.Syncer Persist.SyncerProofs
  Persist.LiveActs Persist.LiveCover Persist.LiveRelease Run.R07 Run.R07MonBase Run.R07MonOps Run.R07MonC123
  Run.R07MonCov1 Run.R07MonCov2 Run.R07MonOps2.
Import ListNotations.
Local Open Scope nat_scope.

Definition lvl (lo : option nat) (ss : nat) (k : ack) : nat :=
  if should lo k then 2 else if (k_step k <? ss)%nat then 1 else 0.
Definition rng (na : nat) (z : Z) : Prop :=
  (z < 10000)%Z \/ exists j, j < na /\ z = (10000 + 100 * Z.of_nat j)%Z.

Record cov (sb : nat) (lo : option nat) (ss : nat) (blks popped : list Z) (upl : list (Z * Z))
           (acks : list ack) (gs : list gack)
           (p : pbl) (ups : list (option (put_token * Z))) (xb : list (option Z)) (na : nat) : Prop := mkCov {
  cv_blocks : blks = offs p;
  cv_popped : length popped = totalReleased p;
  cv_nodup : NoDup (popped ++ blks);
  cv_range : Forall (rng na) (popped ++ blks);
  cv_len : length upl = length ups /\ length xb = length ups;
  cv_upl : forall k abs size, nth_error ups k = Some (Some (PutAt abs, size)) ->
     exists lo en, nth_error upl k = Some (lo, en) /\ nth_error (popped ++ blks) abs = Some lo /\
       (forall off, nth_error xb k = Some (Some off) -> en = (off + size)%Z);
  cv_acks : Forall2 (ack_ok p) acks gs;
  cv_acks2 : Forall2 (fun k g => nth_error (popped ++ blks) (o_block (g_o g)) = Some (k_loc k) /\ k_step k < sb
                                 /\ g_lv g = lvl lo ss k) acks gs
}.
Definition covx sb lo ss blks popped upl acks gs (x : xst) : Prop :=
  cov sb lo ss blks popped upl acks gs (s_pbl (x_sys x)) (s_uploads (x_sys x)) (x_blk x) (x_nalloc x).

(** ---- small list facts ---- *)
Lemma offs_set_written bs i w : map b_loc (set_written bs i w) = map b_loc bs.
Proof.
  revert i. induction bs as [|b r IH]; intros [|i]; cbn; auto.
  - destruct (b_written b <? w)%Z; reflexivity.
  - rewrite IH. reflexivity.
Qed.

Lemma offs_bump bs : map b_loc (bump_last_epoch_count bs) = map b_loc bs.
Proof.
  induction bs as [|b r IH]; [reflexivity|]. destruct r as [|b' r']; [reflexivity|].
  change (bump_last_epoch_count (b :: b' :: r')) with (b :: bump_last_epoch_count (b' :: r')).
  cbn [map]. rewrite IH. reflexivity.
Qed.

Lemma fin_offs tok blk size seed p p' fr : put_finalize tok blk size seed p = Ok (p', fr) -> offs p' = offs p.
Proof.
  intros Hf. destruct (fin_cases _ _ _ _ _ _ _ Hf) as [[-> _]|
    (abs & off & bumped & _ & _ & _ & _ & _ & _ & Fb & _)]; [reflexivity|].
  unfold offs. rewrite Fb. rewrite <- !(map_map b_loc fst).
  destruct bumped; rewrite ?offs_bump, offs_set_written; reflexivity.
Qed.

Lemma fin_seeds_len tok blk size seed p p' fr : put_finalize tok blk size seed p = Ok (p', fr) ->
  length (epochSeeds p') <= S (length (epochSeeds p)).
Proof.
  intros Hf. destruct (fin_cases _ _ _ _ _ _ _ Hf) as [[-> _]|
    (abs & off & bumped & _ & _ & _ & _ & _ & _ & _ & Fs & _)]; [lia|].
  rewrite Fs. destruct bumped; rewrite ?app_length; cbn; lia.
Qed.

Lemma clear_nth_len {A} (l : list (option A)) k : length (clear_nth l k) = length l.
Proof. revert k. induction l as [|a r IH]; intros [|k]; cbn; auto. Qed.

Lemma clear_nth_some {A} (l : list (option A)) k k' v : nth_error (clear_nth l k) k' = Some (Some v) ->
  nth_error l k' = Some (Some v).
Proof.
  revert k k'. induction l as [|a r IH]; intros [|k] [|k']; cbn; auto; try discriminate. apply IH.
Qed.

Lemma nth_error_offs p i : nth_error (offs p) i = option_map (fun b => fst (b_loc b)) (nth_error (blocks p) i).
Proof. unfold offs. apply nth_error_map. Qed.

Lemma zmem_in z l : zmem z l = true <-> In z l.
Proof.
  unfold zmem. rewrite existsb_exists. split.
  - intros [y [Hy E]]. apply Z.eqb_eq in E. subst. exact Hy.
  - intros H. exists z. split; [exact H|apply Z.eqb_refl].
Qed.

Lemma F2_app {A B} (R : A -> B -> Prop) l1 l2 a b : Forall2 R l1 l2 -> R a b -> Forall2 R (l1 ++ [a]) (l2 ++ [b]).
Proof. intros F H. apply Forall2_app; [exact F|constructor; [exact H|constructor]]. Qed.

Lemma F2_impl2 {A B} (R R' : A -> B -> Prop) l1 l2 : (forall a b, R a b -> R' a b) -> Forall2 R l1 l2 -> Forall2 R' l1 l2.
Proof. intros H F. induction F; constructor; auto. Qed.

Lemma F2_map_r {A B C} (R : A -> C -> Prop) (f : B -> C) l1 l2 :
  Forall2 (fun a b => R a (f b)) l1 l2 -> Forall2 R l1 (map f l2).
Proof. intros F. induction F; cbn; constructor; auto. Qed.

Lemma F2_in_l {A B} (R : A -> B -> Prop) l1 l2 a : Forall2 R l1 l2 -> In a l1 -> exists b, R a b.
Proof. intros F. induction F as [|x y l l' H F IH]; intros []; subst; eauto. Qed.

(** ---- the encoded in-flight write ---- *)
Lemma wobs_writer res x t st : inv3 (x_sys x) -> written_state (x_sys x) t = Some st ->
  exists w, ms_wobs (enc_obs res x) = Some w /\ sx_nat (sx_nth w 1) = x_nwr x /\ L [sx_nth w 2; sx_nth w 3] = enc_st st.
Proof.
  intros [_ I3] Hw. unfold ms_wobs. rewrite obs_nth1, obs_nth2. unfold enc_r, enc_p.
  destruct t; cbn [written_state] in Hw.
  - destruct (s_r (x_sys x)) as [| |[]] eqn:Er; try discriminate. inversion Hw; subst.
    cbn [enc_wpc]. change (is_write (L [A 1; of_nat (x_nwr x); of_N (fst st); L (map enc_bstate (snd st))])) with true.
    cbn iota. eexists. split; [reflexivity|]. split; [apply sx_nat_of_nat|reflexivity].
  - destruct (s_p (x_sys x)) as [| | | | | | | |k []|] eqn:Ep; try discriminate. inversion Hw; subst.
    assert (is_write (match s_r (x_sys x) with
                      | RWait _ => L [A 0] | RW w => enc_wpc (x_nwr x) false w | RStart => L [A 99] end) = false) as ->.
    { unfold r_holds, p_holds in I3. rewrite Ep in I3. cbn in I3.
      destruct (s_r (x_sys x)) as [| |[]]; try reflexivity. cbn in I3. discriminate. }
    cbn [enc_wpc]. change (is_write (L [A 1; of_nat (x_nwr x); of_N (fst st); L (map enc_bstate (snd st))])) with true.
    cbn iota. eexists. split; [reflexivity|]. split; [apply sx_nat_of_nat|reflexivity].
Qed.

Lemma wobs_none res x : (forall t st, written_state (x_sys x) t <> Some st) -> ms_wobs (enc_obs res x) = None.
Proof.
  intros H. unfold ms_wobs. rewrite obs_nth1, obs_nth2. unfold enc_r, enc_p.
  pose proof (H TR) as Hr. pose proof (H TP) as Hp. cbn [written_state] in Hr, Hp.
  destruct (s_r (x_sys x)) as [| |[]]; try (exfalso; eapply Hr; reflexivity);
    destruct (s_p (x_sys x)) as [| | | | | | | |k []|]; try (exfalso; eapply Hp; reflexivity); reflexivity.
Qed.

Lemma NoDup_snoc {A} (l : list A) z : NoDup l -> ~ In z l -> NoDup (l ++ [z]).
Proof.
  induction l as [|a r IH]; intros Hn Hi; cbn; [constructor; [intros []|constructor]|].
  inversion Hn; subst. constructor.
  - intros H. apply in_app_or in H. destruct H as [H|[H|[]]]; [contradiction|subst; apply Hi; left; reflexivity].
  - apply IH; [assumption|]. intros H. apply Hi. right. exact H.
Qed.

Lemma cov_sb sb sb' lo ss blks popped upl acks gs p ups xb na : sb <= sb' ->
  cov sb lo ss blks popped upl acks gs p ups xb na -> cov sb' lo ss blks popped upl acks gs p ups xb na.
Proof.
  intros Hle [C1 C2 C3 C4 C5 C6 C7 C8]. constructor; auto.
  eapply F2_impl2; [|exact C8]. intros k g [H1 [H2 H3]]. splits; auto. lia.
Qed.

(** the ghost records after a block-list call that leaves the levels alone *)
Lemma acks2_next a p sb lo ss (h h' : list Z) acks gs :
  (forall lv, lv_next lv a = lv) -> (forall n z, nth_error h n = Some z -> nth_error h' n = Some z) ->
  Forall2 (fun k g => nth_error h (o_block (g_o g)) = Some (k_loc k) /\ k_step k < sb /\ g_lv g = lvl lo ss k) acks gs ->
  Forall2 (fun k g => nth_error h' (o_block (g_o g)) = Some (k_loc k) /\ k_step k < sb /\ g_lv g = lvl lo ss k)
          acks (map (g_next a p) gs).
Proof.
  intros Hl Hh F. apply F2_map_r. eapply F2_impl2; [|exact F].
  intros k g [H1 [H2 H3]]. unfold g_next. cbn [g_o g_lv]. rewrite Hl. splits; auto.
Qed.

(** ---- the monitor's lists when the operation is not the one that changes them ---- *)
Lemma bp_same m op o : (tag op <> 3%Z \/ ms_hit o = false) -> (tag op <> 4%Z \/ tag (sx_nth o 0) <> 0%Z) ->
  ms_bp m op o = (m_blocks m, m_popped m).
Proof.
  intros H3 H4. unfold ms_bp.
  assert (Z.eqb (tag op) 3 && ms_hit o = false) as ->.
  { destruct H3 as [H|H]; [destruct (Z.eqb_spec (tag op) 3); [contradiction|reflexivity]|rewrite H; apply andb_false_r]. }
  assert (Z.eqb (tag op) 4 && Z.eqb (tag (sx_nth o 0)) 0 = false) as ->; [|reflexivity].
  destruct H4 as [H|H]; [destruct (Z.eqb_spec (tag op) 4); [contradiction|reflexivity]|].
  destruct (Z.eqb_spec (tag (sx_nth o 0)) 0); [contradiction|apply andb_false_r].
Qed.

Lemma upl_same m op o : (tag op <> 1%Z \/ ms_hit o = false) -> ms_upl m op o = m_upl m.
Proof.
  intros H. unfold ms_upl.
  assert (Z.eqb (tag op) 1 && ms_hit o = false) as ->; [|reflexivity].
  destruct H as [H|H]; [destruct (Z.eqb_spec (tag op) 1); [contradiction|reflexivity]|rewrite H; apply andb_false_r].
Qed.

Lemma acks_same m op o : (tag op <> 2%Z \/ tag (sx_nth o 0) <> 0%Z) -> ms_acks m op o = m_acks m.
Proof.
  intros H. unfold ms_acks.
  assert (Z.eqb (tag op) 2 && Z.eqb (tag (sx_nth o 0)) 0 = false) as ->; [|reflexivity].
  destruct H as [H|H]; [destruct (Z.eqb_spec (tag op) 2); [contradiction|reflexivity]|].
  destruct (Z.eqb_spec (tag (sx_nth o 0)) 0); [contradiction|apply andb_false_r].
Qed.

Lemma cur_same m op o : (tag op <> 6%Z \/ ms_hit o = false) -> ms_cur0 m op o = m_cur m /\ ms_write_ok op o = false.
Proof.
  intros H. unfold ms_cur0, ms_write_ok, ms_write_done.
  assert (Z.eqb (tag op) 6 && ms_hit o = false) as ->; [|auto].
  destruct H as [H|H]; [destruct (Z.eqb_spec (tag op) 6); [contradiction|reflexivity]|rewrite H; apply andb_false_r].
Qed.

Section C46.
Variable cfg : config.
Variable alloc : loc -> Z -> bool.
Variable oldest : N.
Variable init : list bstate.
Variable t0 : N.
Notation good := (good cfg alloc oldest init t0).
Notation rel1 := (rel1 cfg alloc oldest init t0).

Record rel2 (rem : nat) (m : mst) (x : xst) : Prop := mkRel2 {
  r2_1 : rel1 m x;
  r2_cov : exists gs, covx (m_step m) (m_last_ok_start m) (m_series_start m) (m_blocks m) (m_popped m) (m_upl m)
                           (m_acks m) gs x;
  r2_series : m_series_start m <= m_step m /\ (forall j, m_last_ok_start m = Some j -> j <= m_series_start m);
  r2_nwr : m_nwr m = x_nwr x;
  r2_w : exists Etot, Etot + length (epochSeeds (s_pbl (x_sys x))) + rem < N.to_nat M32 /\
                      Wp (m_acks m) Etot (m_step m) (x_sys x) (m_cur m)
}.

Definition post1 (rem : nat) (m : mst) (op o : sx) (x x1 : xst) : Prop :=
  exists gs1 Etot1,
    covx (S (m_step m)) (m_last_ok_start m) (m_series_start m) (fst (ms_bp m op o)) (ms_popped m op o)
         (ms_upl m op o) (ms_acks m op o) gs1 x1
    /\ Etot1 + length (epochSeeds (s_pbl (x_sys x1))) + rem < N.to_nat M32
    /\ Wp (ms_acks m op o) Etot1 (S (m_step m)) (x_sys x1) (ms_cur0 m op o)
    /\ x_nwr x1 = m_nwr m
    /\ ms_v46 m op o = []
    /\ ((forall k, In k (ms_acks m op o) -> k_step k < m_step m) \/
        (s_p (x_sys x1) = s_p (x_sys x) /\ s_cancel (x_sys x1) = s_cancel (x_sys x) /\ tag op = 2%Z)).

Lemma Wp_weaken acks E sb sb' s cur : sb <= sb' -> Wp acks E sb s cur -> Wp acks E sb' s cur.
Proof.
  intros Hle W t st Hw. destruct (W t st Hw) as [j [po [E0 [H1 [H2 [H3 [H4 H5]]]]]]].
  exists j, po, E0. splits; auto. intros j0 Hj. specialize (H5 j0 Hj). lia.
Qed.

Lemma lvl_step_old lo ss i k : ss <= i -> (forall j, lo = Some j -> j <= ss) -> k_step k = i -> lvl lo ss k = 0.
Proof.
  intros H1 H2 H3. unfold lvl, should. destruct lo as [j|].
  - specialize (H2 j eq_refl). destruct (Nat.ltb_spec (k_step k) j); [lia|]. destruct (Nat.ltb_spec (k_step k) ss); [lia|reflexivity].
  - destruct (Nat.ltb_spec (k_step k) ss); [lia|reflexivity].
Qed.

Lemma old_steps m gs x : covx (m_step m) (m_last_ok_start m) (m_series_start m) (m_blocks m) (m_popped m) (m_upl m)
                              (m_acks m) gs x -> forall k, In k (m_acks m) -> k_step k < m_step m.
Proof.
  intros C k Hk. destruct (F2_in_l _ _ _ _ (cv_acks2 _ _ _ _ _ _ _ _ _ _ _ _ C) Hk) as [g [_ [H _]]]. exact H.
Qed.

(** the in-flight write across one block-list call, for an unchanged acknowledgement list *)
Lemma Wp_act acks Etot sb s s' cur a : pbl_inv (s_pbl s) -> apply_act a (s_pbl s) = Ok (s_pbl s') ->
  (forall t st, written_state s' t = Some st -> written_state s t = Some st) ->
  Wp acks Etot sb s cur -> Wp acks (Etot + popc a (s_pbl s)) sb s' cur.
Proof.
  intros I Ha Hw W t st Hws. destruct (W t st (Hw t st Hws)) as [j [po [E0 [H1 [H2 [H3 [H4 H5]]]]]]].
  exists j, po, (E0 + popc a (s_pbl s)). splits; auto; [eapply winv_act; eauto|lia].
Qed.

(** ---- scenario: the block list, the uploads and the monitor's lists are unchanged ---- *)
Lemma post_keep rem m x op o x1 : rel2 (S rem) m x ->
  s_pbl (x_sys x1) = s_pbl (x_sys x) -> s_uploads (x_sys x1) = s_uploads (x_sys x) -> cnt_same x x1 ->
  x_nwr x1 = x_nwr x ->
  ms_bp m op o = (m_blocks m, m_popped m) -> ms_upl m op o = m_upl m -> ms_acks m op o = m_acks m ->
  ((ms_cur0 m op o = m_cur m /\ ms_write_ok op o = false /\
    (forall t st, written_state (x_sys x1) t = Some st -> written_state (x_sys x) t = Some st)) \/
   (ms_v46 m op o = [] /\ forall t st, written_state (x_sys x1) t <> Some st)) ->
  post1 rem m op o x x1.
Proof.
  intros [R [gs C] [S1 S2] Hnwr [Etot [Hb W]]] Ep Eu [Eb En] Enw Ebp Eupl Eacks Hcur.
  exists gs, Etot. unfold ms_popped. rewrite Ebp, Eupl, Eacks. cbn [fst snd].
  split; [|split; [|split; [|split; [|split]]]].
  - unfold covx in *. rewrite Ep, Eu, Eb, En. eapply cov_sb; [|exact C]. lia.
  - rewrite Ep. lia.
  - destruct Hcur as [[E1 [E2 Hw]]|[E1 Hw]].
    + rewrite E1. intros t st Hws. destruct (W t st (Hw t st Hws)) as [j [po [E0 [H1 [H2 [H3 [H4 H5]]]]]]].
      exists j, po, E0. rewrite Ep. splits; auto. all: intros j0 Hj; specialize (H5 j0 Hj); lia.
    + intros t st Hws. exfalso. eapply Hw; eauto.
  - congruence.
  - destruct Hcur as [[E1 [E2 Hw]]|[E1 Hw]]; [|exact E1]. unfold ms_v46. rewrite E2. reflexivity.
  - left. eapply old_steps; eauto.
Qed.

(** ---- scenario: PushBack ---- *)
Lemma post_push rem m x op o x1 res : rel2 (S rem) m x -> tag op = 4%Z -> sx_nth o 0 = res ->
  (let l : loc := ((10000 + 100 * Z.of_nat (x_nalloc x))%Z, 100%Z) in
   closedForWriting (s_pbl (x_sys x)) = false /\
   step cfg (x_sys x) (EPushBack (Some l)) = Some (Ok (x_sys x1)) /\
   x_blk x1 = x_blk x /\ x_nalloc x1 = S (x_nalloc x) /\ res = L [A 0; A (fst l)]) ->
  x_nwr x1 = x_nwr x -> post1 rem m op o x x1.
Proof.
  intros [R [gs C] [S1 S2] Hnwr [Etot [Hb W]]] Hc Ho [Hcl [Hs [Eb [En Hres]]]] Enw.
  pose proof (r1_good _ _ _ _ _ _ _ R) as G. pose proof (good_inv1 _ _ _ _ _ _ G) as II.
  destruct (reachable_linv _ _ _ _ _ _ (proj1 G)) as [_ LL].
  set (l := ((10000 + 100 * Z.of_nat (x_nalloc x))%Z, 100%Z) : loc) in *.
  pose proof (step_act _ _ _ _ Hs) as Ha. cbn [act_of] in Ha.
  cbn [step] in Hs. injection Hs as Hs.
  assert (Ep : s_pbl (x_sys x1) = set_blocks (s_pbl (x_sys x)) (blocks (s_pbl (x_sys x)) ++ [mkBinfo l 0 0 0 0])).
  { rewrite <- Hs. cbn. unfold push_back. rewrite Hcl. reflexivity. }
  assert (Eu : s_uploads (x_sys x1) = s_uploads (x_sys x)) by (rewrite <- Hs; reflexivity).
  assert (Ebp : ms_bp m op o = (m_blocks m ++ [fst l], m_popped m)).
  { unfold ms_bp, ms_hit. rewrite Ho, Hc, Hres. reflexivity. }
  assert (Eupl : ms_upl m op o = m_upl m) by (apply upl_same; left; rewrite Hc; discriminate).
  assert (Eacks : ms_acks m op o = m_acks m) by (apply acks_same; left; rewrite Hc; discriminate).
  destruct (cur_same m op o) as [Ecur Ewok]; [left; rewrite Hc; discriminate|].
  destruct C as [C1 C2 C3 C4 C5 C6 C7 C8].
  exists (map (g_next (APush (Some l)) (s_pbl (x_sys x))) gs), Etot.
  unfold ms_popped. rewrite Ebp, Eupl, Eacks, Ecur. cbn [fst snd].
  assert (Hnin : ~ In (fst l) (m_popped m ++ m_blocks m)).
  { intros Hi. rewrite Forall_forall in C4. destruct (C4 _ Hi) as [Hlt|[j [Hj Hz]]]; unfold l in *; cbn [fst] in *; lia. }
  split; [|split; [|split; [|split; [|split]]]].
  - unfold covx. rewrite Eu, Eb, En. constructor.
    + rewrite Ep. unfold offs. cbn [blocks set_blocks]. rewrite map_app. cbn. rewrite C1. reflexivity.
    + rewrite Ep. cbn. exact C2.
    + rewrite app_assoc. apply NoDup_snoc; assumption.
    + rewrite app_assoc. apply Forall_app. split.
      * eapply Forall_impl; [|exact C4]. intros z [Hz|[j [Hj Hz]]]; [left; exact Hz|right; exists j; split; [lia|exact Hz]].
      * constructor; [|constructor]. right. exists (x_nalloc x). split; [lia|reflexivity].
    + exact C5.
    + intros k abs size Hk. destruct (C6 k abs size Hk) as [lo [en [H1 [H2 H3]]]]. exists lo, en. splits; auto.
      rewrite app_assoc. apply nth_error_app_some. exact H2.
    + apply (F2_next _ _ _ _ _ (proj1 II) LL Ha C7).
    + apply acks2_next with (h := m_popped m ++ m_blocks m); [reflexivity| |eapply F2_impl2; [|exact C8]; intros k g [H1 [H2 H3]]; splits; auto].
      intros n z Hn. rewrite app_assoc. apply nth_error_app_some. exact Hn.
  - rewrite Ep. cbn [epochSeeds set_blocks]. lia.
  - pose proof (Wp_act (m_acks m) Etot (S (m_step m)) (x_sys x) (x_sys x1) (m_cur m) (APush (Some l)) (proj1 II) Ha) as W'.
    cbn [popc] in W'. rewrite Nat.add_0_r in W'. apply W'.
    + intros t st. rewrite <- Hs. destruct t; cbn; auto.
    + eapply Wp_weaken; [|exact W]. lia.
  - congruence.
  - unfold ms_v46. rewrite Ewok. reflexivity.
  - left. apply (old_steps m gs x). constructor; auto.
Qed.

(** ---- scenario: PopFront ---- *)
Lemma post_pop rem m x op o x1 res : rel2 (S rem) m x -> tag op = 3%Z -> sx_nth o 0 = res -> res = L [A 1] ->
  step cfg (x_sys x) EPopFront = Some (Ok (x_sys x1)) -> cnt_same x x1 -> x_nwr x1 = x_nwr x ->
  post1 rem m op o x x1.
Proof.
  intros [R [gs C] [S1 S2] Hnwr [Etot [Hb W]]] Hc Ho Hres Hs [Eb En] Enw.
  pose proof (r1_good _ _ _ _ _ _ _ R) as G. pose proof (good_inv1 _ _ _ _ _ _ G) as II.
  destruct (reachable_linv _ _ _ _ _ _ (proj1 G)) as [_ LL].
  pose proof (step_act _ _ _ _ Hs) as Ha. cbn [act_of] in Ha.
  assert (Hne : forall t a, EPopFront <> EStep t a) by (intros; discriminate).
  destruct (env_frame cfg _ _ _ Hne Hs) as [Er Ep].
  cbn [step] in Hs. destruct (blocks (s_pbl (x_sys x))) as [|fb rest] eqn:Ebl; [discriminate|].
  destruct (pop_front (s_pbl (x_sys x))) as [p'|] eqn:Epop; [|discriminate]. injection Hs as Hs.
  assert (Epb : s_pbl (x_sys x1) = p') by (rewrite <- Hs; reflexivity).
  assert (Eu : s_uploads (x_sys x1) = s_uploads (x_sys x)) by (rewrite <- Hs; reflexivity).
  destruct (pop_fields _ _ _ _ Ebl Epop) as [Fb [Fs [_ [Ft _]]]].
  destruct C as [C1 C2 C3 C4 C5 C6 C7 C8].
  assert (Emb : m_blocks m = fst (b_loc fb) :: offs p').
  { rewrite C1. unfold offs. rewrite Ebl, Fb. reflexivity. }
  assert (Ebp : ms_bp m op o = (offs p', m_popped m ++ [fst (b_loc fb)])).
  { unfold ms_bp, ms_hit. rewrite Ho, Hc, Hres, Emb. reflexivity. }
  assert (Eupl : ms_upl m op o = m_upl m) by (apply upl_same; left; rewrite Hc; discriminate).
  assert (Eacks : ms_acks m op o = m_acks m) by (apply acks_same; left; rewrite Hc; discriminate).
  destruct (cur_same m op o) as [Ecur Ewok]; [left; rewrite Hc; discriminate|].
  assert (Eh : (m_popped m ++ [fst (b_loc fb)]) ++ offs p' = m_popped m ++ m_blocks m).
  { rewrite <- app_assoc, Emb. reflexivity. }
  assert (Hec : b_epochs fb <= length (epochSeeds (s_pbl (x_sys x)))).
  { rewrite <- (i_sum _ (proj1 II)), Ebl. apply hd_epochs_le. }
  exists (map (g_next APop (s_pbl (x_sys x))) gs), (Etot + b_epochs fb).
  unfold ms_popped. rewrite Ebp, Eupl, Eacks, Ecur. cbn [fst snd].
  split; [|split; [|split; [|split; [|split]]]].
  - unfold covx. rewrite Eu, Eb, En, Epb. constructor; rewrite ?Eh; auto.
    + rewrite app_length, Ft. cbn. lia.
    + rewrite <- Epb. apply (F2_next _ _ _ _ _ (proj1 II) LL Ha C7).
    + apply acks2_next with (h := m_popped m ++ m_blocks m); [reflexivity|auto|].
      eapply F2_impl2; [|exact C8]. intros k g [H1 [H2 H3]]. splits; auto.
  - rewrite Epb, Fs, skipn_length. lia.
  - pose proof (Wp_act (m_acks m) Etot (S (m_step m)) (x_sys x) (x_sys x1) (m_cur m) APop (proj1 II) Ha) as W'.
    cbn [popc] in W'. rewrite Ebl in W'. apply W'.
    + intros t st. destruct t; cbn [written_state]; rewrite ?Er, ?Ep; auto.
    + eapply Wp_weaken; [|exact W]. lia.
  - congruence.
  - unfold ms_v46. rewrite Ewok. reflexivity.
  - left. apply (old_steps m gs x). constructor; auto.
Qed.

(** ---- scenario: Put ---- *)
Lemma post_put rem m x op o x1 res idx : rel2 (S rem) m x -> tag op = 1%Z -> sx_nth o 0 = res ->
  (let p := s_pbl (x_sys x) in
   idx < length (blocks p) /\
   step cfg (x_sys x) (EPutStart idx (sx_Z (sx_nth op 2))) = Some (Ok (x_sys x1)) /\
   x_blk x1 = x_blk x ++ [if sx_bool (sx_nth op 4) then None else Some (sx_Z (sx_nth op 3))] /\
   x_nalloc x1 = x_nalloc x /\
   res = L [A 1; A (if closedForWriting p then (-1)%Z else
                    match nth_error (blocks p) idx with Some b => fst (b_loc b) | None => (-1)%Z end)]) ->
  x_nwr x1 = x_nwr x -> post1 rem m op o x x1.
Proof.
  intros [R [gs C] [S1 S2] Hnwr [Etot [Hb W]]] Hc Ho [Hidx [Hs [Eb [En Hres]]]] Enw.
  pose proof (r1_good _ _ _ _ _ _ _ R) as G. pose proof (good_inv1 _ _ _ _ _ _ G) as II.
  cbn [step] in Hs. destruct (closedForWriting (s_pbl (x_sys x)) || _) eqn:Eg; [|discriminate].
  destruct (put_start idx (s_pbl (x_sys x))) as [tok|] eqn:Etok; [|discriminate]. injection Hs as Hs.
  assert (Epb : s_pbl (x_sys x1) = s_pbl (x_sys x)) by (rewrite <- Hs; reflexivity).
  assert (Eu : s_uploads (x_sys x1) = s_uploads (x_sys x) ++ [Some (tok, sx_Z (sx_nth op 2))]) by (rewrite <- Hs; reflexivity).
  assert (Ebp : ms_bp m op o = (m_blocks m, m_popped m)).
  { apply bp_same; left; rewrite Hc; discriminate. }
  set (lo := if closedForWriting (s_pbl (x_sys x)) then (-1)%Z else
             match nth_error (blocks (s_pbl (x_sys x))) idx with Some b => fst (b_loc b) | None => (-1)%Z end) in *.
  assert (Eupl : ms_upl m op o = m_upl m ++ [(lo, (sx_Z (sx_nth op 3) + sx_Z (sx_nth op 2))%Z)]).
  { unfold ms_upl, ms_hit. rewrite Ho, Hc, Hres. reflexivity. }
  assert (Eacks : ms_acks m op o = m_acks m) by (apply acks_same; left; rewrite Hc; discriminate).
  destruct (cur_same m op o) as [Ecur Ewok]; [left; rewrite Hc; discriminate|].
  destruct C as [C1 C2 C3 C4 [C5a C5b] C6 C7 C8].
  exists gs, Etot. unfold ms_popped. rewrite Ebp, Eupl, Eacks, Ecur. cbn [fst snd].
  split; [|split; [|split; [|split; [|split]]]].
  - unfold covx. rewrite Eu, Eb, En, Epb. constructor; auto.
    + rewrite !app_length. cbn. lia.
    + intros k abs size Hk.
      destruct (Nat.lt_ge_cases k (length (s_uploads (x_sys x)))) as [Hlt|Hge].
      * rewrite nth_error_app1 in Hk by exact Hlt. destruct (C6 k abs size Hk) as [lo0 [en [H1 [H2 H3]]]].
        exists lo0, en. splits; auto.
        -- apply nth_error_app_some. exact H1.
        -- intros off Hoff. apply H3. rewrite nth_error_app1 in Hoff by lia. exact Hoff.
      * rewrite nth_error_app2 in Hk by exact Hge.
        destruct (k - length (s_uploads (x_sys x))) as [|n] eqn:Ek; [|destruct n; discriminate].
        assert (k = length (s_uploads (x_sys x))) as -> by lia. cbn in Hk. inversion Hk; subst tok size. clear Hk.
        unfold put_start in Etok. destruct (closedForWriting (s_pbl (x_sys x))) eqn:Ecl; [discriminate|].
        destruct (idx <? length (blocks (s_pbl (x_sys x)))); [|discriminate]. inversion Etok; subst abs. clear Etok.
        exists lo, (sx_Z (sx_nth op 3) + sx_Z (sx_nth op 2))%Z. splits.
        -- rewrite nth_error_app2 by lia. replace (length (s_uploads (x_sys x)) - length (m_upl m)) with 0 by lia. reflexivity.
        -- rewrite nth_error_app2 by lia. rewrite C2, Nat.add_comm, Nat.add_sub, C1, nth_error_offs. unfold lo.
           destruct (nth_error (blocks (s_pbl (x_sys x))) idx) eqn:En0; [reflexivity|].
           apply nth_error_None in En0. lia.
        -- intros off Hoff. rewrite nth_error_app2 in Hoff by lia.
           replace (length (s_uploads (x_sys x)) - length (x_blk x)) with 0 in Hoff by lia. cbn in Hoff.
           destruct (sx_bool (sx_nth op 4)); inversion Hoff. reflexivity.
    + eapply F2_impl2; [|exact C8]. intros k g [H1 [H2 H3]]. splits; auto.
  - rewrite Epb. lia.
  - intros t st Hws. assert (written_state (x_sys x) t = Some st) as Hw0.
    { rewrite <- Hs in Hws. destruct t; exact Hws. }
    destruct (W t st Hw0) as [j [po [E0 [H1 [H2 [H3 [H4 H5]]]]]]].
    exists j, po, E0. rewrite Epb. splits; auto. all: intros j0 Hj; specialize (H5 j0 Hj); lia.
  - congruence.
  - unfold ms_v46. rewrite Ewok. reflexivity.
  - left. apply (old_steps m gs x). constructor; auto.
Qed.

(** ---- scenario: a finalizer runs ---- *)
Lemma post_fin rem m x op o x1 res tok size blk seed p' fr : rel2 (S rem) m x -> tag op = 2%Z -> sx_nth o 0 = res ->
  (let k := sx_nat (sx_nth op 1) in
   let p := s_pbl (x_sys x) in
   nth_error (s_uploads (x_sys x)) k = Some (Some (tok, size)) /\ nth_error (x_blk x) k = Some blk /\
   put_finalize tok blk size seed p = Ok (p', fr) /\
   step cfg (x_sys x) (EFinalize k blk seed) = Some (Ok (x_sys x1)) /\ cnt_same x x1 /\
   match fr with
   | FinOk off => exists e bfl sd,
       index_to_ref (match tok with PutAt abs => abs - totalReleased p' | PutClosed => 0 end) p' = Ok ((e, bfl), sd)
       /\ res = L [A 0; A off; of_N e; of_N bfl; of_N sd]
   | _ => tag res <> 0%Z
   end) ->
  x_nwr x1 = x_nwr x -> post1 rem m op o x x1.
Proof.
  intros [R [gs C] [S1 S2] Hnwr [Etot [Hb W]]] Hc Ho [Hu [Hxb [Hf [Hs [[Eb En] Hfr]]]]] Enw.
  pose proof (r1_good _ _ _ _ _ _ _ R) as G. pose proof (good_inv1 _ _ _ _ _ _ G) as II.
  destruct (reachable_linv _ _ _ _ _ _ (proj1 G)) as [_ LL].
  pose proof (step_act _ _ _ _ Hs) as Ha. cbn [act_of] in Ha. rewrite Hu in Ha.
  assert (Hne : forall t a, EFinalize (sx_nat (sx_nth op 1)) blk seed <> EStep t a) by (intros; discriminate).
  destruct (env_frame cfg _ _ _ Hne Hs) as [Er Ep]. pose proof (env_now_cancel _ _ _ _ Hs) as [_ Ecan].
  cbn [step] in Hs. rewrite Hu, Hf in Hs. injection Hs as Hs.
  assert (Epb : s_pbl (x_sys x1) = p') by (rewrite <- Hs; reflexivity).
  assert (Eu : s_uploads (x_sys x1) = clear_nth (s_uploads (x_sys x)) (sx_nat (sx_nth op 1))) by (rewrite <- Hs; reflexivity).
  assert (Ebp : ms_bp m op o = (m_blocks m, m_popped m)).
  { apply bp_same; left; rewrite Hc; discriminate. }
  assert (Eupl : ms_upl m op o = m_upl m) by (apply upl_same; left; rewrite Hc; discriminate).
  destruct (cur_same m op o) as [Ecur Ewok]; [left; rewrite Hc; discriminate|].
  destruct C as [C1 C2 C3 C4 [C5a C5b] C6 C7 C8].
  pose proof (fin_offs _ _ _ _ _ _ _ Hf) as Foffs. pose proof (fin_sfields _ _ _ _ _ _ _ Hf) as Fsf.
  pose proof (fin_seeds_len _ _ _ _ _ _ _ Hf) as Fsl.
  assert (Ftr : totalReleased p' = totalReleased (s_pbl (x_sys x))) by (unfold sfields in Fsf; congruence).
  assert (Fold : Forall2 (ack_ok p') (m_acks m) (map (g_next (AFin tok blk size seed) (s_pbl (x_sys x))) gs)).
  { rewrite <- Epb. apply (F2_next _ _ _ _ _ (proj1 II) LL Ha C7). }
  assert (Fold2 : Forall2 (fun k g => nth_error (m_popped m ++ m_blocks m) (o_block (g_o g)) = Some (k_loc k)
                             /\ k_step k < S (m_step m) /\ g_lv g = lvl (m_last_ok_start m) (m_series_start m) k)
                          (m_acks m) (map (g_next (AFin tok blk size seed) (s_pbl (x_sys x))) gs)).
  { apply acks2_next with (h := m_popped m ++ m_blocks m); [reflexivity|auto|].
    eapply F2_impl2; [|exact C8]. intros k g [H1 [H2 H3]]. splits; auto. }
  assert (Wold : Wp (m_acks m) Etot (S (m_step m)) (x_sys x1) (m_cur m)).
  { pose proof (Wp_act (m_acks m) Etot (S (m_step m)) (x_sys x) (x_sys x1) (m_cur m) _ (proj1 II) Ha) as W'.
    cbn [popc] in W'. rewrite Nat.add_0_r in W'. apply W'.
    - intros t st. destruct t; cbn [written_state]; rewrite ?Er, ?Ep; auto.
    - eapply Wp_weaken; [|exact W]. lia. }
  assert (Hcov : forall acks' gs', Forall2 (ack_ok p') acks' gs' ->
            Forall2 (fun k g => nth_error (m_popped m ++ m_blocks m) (o_block (g_o g)) = Some (k_loc k)
                             /\ k_step k < S (m_step m) /\ g_lv g = lvl (m_last_ok_start m) (m_series_start m) k) acks' gs' ->
            covx (S (m_step m)) (m_last_ok_start m) (m_series_start m) (m_blocks m) (m_popped m) (m_upl m) acks' gs' x1).
  { intros acks' gs' F1 F2. unfold covx. rewrite Eu, Eb, En, Epb. constructor; auto.
    - congruence.
    - congruence.
    - rewrite clear_nth_len. auto.
    - intros k abs sz Hk. apply clear_nth_some in Hk. apply C6. exact Hk. }
  assert (Hright : s_p (x_sys x1) = s_p (x_sys x) /\ s_cancel (x_sys x1) = s_cancel (x_sys x) /\ tag op = 2%Z) by auto.
  assert (Hbound : Etot + length (epochSeeds (s_pbl (x_sys x1))) + rem < N.to_nat M32) by (rewrite Epb; lia).
  unfold post1, ms_popped. rewrite Ebp, Eupl, Ecur. cbn [fst snd].
  assert (Hnoack : tag res <> 0%Z ->
            exists gs1 Etot1, covx (S (m_step m)) (m_last_ok_start m) (m_series_start m) (m_blocks m) (m_popped m)
                                   (m_upl m) (ms_acks m op o) gs1 x1
              /\ Etot1 + length (epochSeeds (s_pbl (x_sys x1))) + rem < N.to_nat M32
              /\ Wp (ms_acks m op o) Etot1 (S (m_step m)) (x_sys x1) (m_cur m)
              /\ x_nwr x1 = m_nwr m /\ ms_v46 m op o = []
              /\ ((forall k, In k (ms_acks m op o) -> k_step k < m_step m) \/
                  (s_p (x_sys x1) = s_p (x_sys x) /\ s_cancel (x_sys x1) = s_cancel (x_sys x) /\ tag op = 2%Z))).
  { intros Hr. assert (Eacks : ms_acks m op o = m_acks m) by (apply acks_same; right; rewrite Ho; exact Hr).
    rewrite Eacks. eexists _, Etot. splits; [apply Hcov; eauto|exact Hbound|exact Wold|congruence| |right; exact Hright].
    unfold ms_v46. rewrite Ewok. reflexivity. }
  destruct fr as [off| | |]; try (apply Hnoack; exact Hfr).
  (* FinOk: a new acknowledged upload *)
  destruct Hfr as [e [bfl [sd [Hir Hres]]]].
  destruct (fin_cases _ _ _ _ _ _ _ Hf) as [[_ Hno]|
    (abs & off' & bumped & Ht & Hblk & Hfr' & _ & Hge & Hlt & _)]; [exfalso; eapply Hno; reflexivity|].
  inversion Hfr'; subst off'. subst tok blk. clear Hfr'.
  destruct (C6 _ _ _ Hu) as [lo [en [Hul [Hhl Hen]]]]. specialize (Hen off Hxb).
  set (knew := mkAck (m_step m) lo en e).
  assert (Eacks : ms_acks m op o = m_acks m ++ [knew]).
  { unfold ms_acks. rewrite Ho, Hc, Hres. cbn [tag sx_nth sx_list nth sx_Z Z.eqb Pos.eqb andb length Nat.ltb Nat.leb].
    rewrite Hul. unfold knew. change (sx_nth (L [A 0; A off; of_N e; of_N bfl; of_N sd]) 2) with (of_N e).
    rewrite sx_N_of_N. reflexivity. }
  assert (Hloc : lo = fst (nth (abs - totalReleased (s_pbl (x_sys x))) (map b_loc (blocks (s_pbl (x_sys x)))) (0, 0)%Z)).
  { rewrite nth_error_app2 in Hhl by lia. rewrite C2, C1, nth_error_offs in Hhl.
    destruct (nth_error (blocks (s_pbl (x_sys x))) (abs - totalReleased (s_pbl (x_sys x)))) as [b|] eqn:Enb; [|discriminate].
    cbn in Hhl. inversion Hhl; subst lo. erewrite nth_error_nth; [reflexivity|]. apply map_nth_error. exact Enb. }
  destruct (ack_ok_new abs (Some off) size seed _ p' off e bfl sd knew (proj1 II) Hf Hir Hen eq_refl Hloc) as [Hnew Hge'].
  set (gnew := mkG (obj_of (s_pbl (x_sys x)) p' abs (off + size)) 0 0) in *.
  rewrite Eacks.
  exists (map (g_next (AFin (PutAt abs) (Some off) size seed) (s_pbl (x_sys x))) gs ++ [gnew]), Etot.
  splits.
  - apply Hcov; apply F2_app; auto. cbn [g_o g_lv gnew knew k_loc k_step o_block obj_of]. splits; [exact Hhl|lia|].
    symmetry. apply lvl_step_old with (i := m_step m); auto.
  - exact Hbound.
  - intros t st Hws. destruct (Wold t st Hws) as [j [po [E0 [H1 [H2 [H3 [H4 H5]]]]]]].
    exists j, po, E0. splits; auto. apply Forall_app. split; [exact H2|]. constructor; [|constructor].
    rewrite Epb in H3. destruct H3 as [H3a H3b].
    eapply okw_later with (g := gnew) (E := E0) (p := p'); eauto.
    + rewrite Epb in Hbound. lia.
    + unfold should. destruct j as [j0|]; [|reflexivity]. specialize (H5 j0 eq_refl).
      apply Nat.ltb_ge. cbn [knew k_step]. (* j0 <= S i is too weak: use the bound before this operation *)
      destruct (W t st) as [j1 [po1 [E1 [G1 [_ [_ [_ G5]]]]]]].
      { destruct t; cbn [written_state] in *; rewrite ?Er, ?Ep in Hws; exact Hws. }
      rewrite H1 in G1. inversion G1; subst j1. apply (G5 j0 eq_refl).
  - congruence.
  - unfold ms_v46. rewrite Ewok. reflexivity.
  - right. exact Hright.
Qed.

Lemma writer_cases s t : writer s = Some t ->
  (t = TR /\ exists st, s_r s = RW (WWriting st)) \/ (t = TP /\ exists k st, s_p s = PW k (WWriting st)).
Proof.
  unfold writer. destruct (s_r s) as [| |[]]; destruct (s_p s) as [| | | | | | | |k []|]; intros H; inversion H;
    first [left; split; [reflexivity|eexists; reflexivity]|right; split; [reflexivity|eexists _, _; reflexivity]].
Qed.

(** thread steps with an external answer perform no block-list call *)
Lemma thr_act_none op x t a res : thr_ok op x t a res -> act_of (x_sys x) (EStep t a) = ANone /\ at_getstate t (x_sys x) = false.
Proof.
  intros [_ [_ Hth]]. destruct Hth as [[_ [-> [Hsyn _]]]|[[_ [Hwr _]]|[_ [_ [[_ [-> [dl Er]]]|[_ [-> [dl [Hat _]]]]]]]]].
  - unfold is_syncing in Hsyn. cbn [act_of at_getstate]. destruct (s_p (x_sys x)); try discriminate. auto.
  - destruct (writer_cases _ _ Hwr) as [[-> [st Er]]|[-> [k [st Ep]]]]; cbn [act_of at_getstate]; rewrite ?Er, ?Ep; auto.
  - cbn [act_of at_getstate]. rewrite Er. auto.
  - cbn [act_of at_getstate]. destruct Hat as [Ep|[[k [f Ep]]|[k Ep]]]; rewrite Ep; auto.
Qed.

Lemma cov_op rem m x op x1 res xo :
  rel2 (S rem) m x -> tri cfg op x x1 res -> do_op cfg op x = Ok (x1, res) ->
  post1 rem m op (enc_obs res xo) x x1.
Proof.
  intros R2 T Hd. pose proof R2 as [R [gs C] [S1 S2] Hnwr [Etot [Hb W]]].
  pose proof (r1_good _ _ _ _ _ _ _ R) as G. pose proof (good_inv1 _ _ _ _ _ _ G) as II.
  destruct (reachable_inv_all _ _ _ _ _ _ (proj1 G)) as [_ [_ [I3 _]]].
  destruct (do_op_detail _ _ _ _ _ Hd) as [D1 [D2 [D4 Dn]]].
  set (o := enc_obs res xo).
  assert (Ho : sx_nth o 0 = res) by reflexivity.
  assert (Hnoop : forall (Hres3 : tag op = 3%Z -> tag res <> 1%Z) (Hres1 : tag op = 1%Z -> tag res <> 1%Z)
                         (Hres6 : tag op = 6%Z -> tag res <> 1%Z)
                         (Hres4 : tag op = 4%Z -> tag res <> 0%Z) (Hres2 : tag op = 2%Z -> tag res <> 0%Z),
            x1 = x -> post1 rem m op o x x1).
  { intros H3 H1 H6 H4 H2 ->.
    assert (Hh : forall c, (tag op = c -> tag res <> 1%Z) -> tag op <> c \/ ms_hit o = false).
    { intros c Hc. destruct (Z.eq_dec (tag op) c) as [E|E]; [right|left; exact E].
      unfold ms_hit. rewrite Ho. destruct (Z.eqb_spec (tag res) 1); [exfalso; apply (Hc E); assumption|reflexivity]. }
    assert (Hz : forall c, (tag op = c -> tag res <> 0%Z) -> tag op <> c \/ tag (sx_nth o 0) <> 0%Z).
    { intros c Hc. rewrite Ho. destruct (Z.eq_dec (tag op) c) as [E|E]; [right; auto|left; exact E]. }
    apply post_keep; auto; try (split; reflexivity).
    - apply bp_same; auto.
    - apply upl_same; auto.
    - apply acks_same; auto.
    - left. destruct (cur_same m op o (Hh 6%Z H6)) as [E1 E2]. auto. }
  destruct (Z.eq_dec (tag op) 1) as [E1|N1].
  { destruct (D1 E1) as [[-> Hr]|[idx Hd1]].
    - apply Hnoop; auto; intros; try lia; rewrite Hr; discriminate.
    - apply (post_put rem m x op o x1 res idx R2 E1 Ho Hd1).
      destruct Hd1 as [_ [Hs _]]. cbv zeta in Hs.
      destruct T as [[-> _]|[[e [_ [_ [_ En2]]]]|[t [a [[_ [_ Hth]] _]]]]]; auto.
      destruct Hth as [[E _]|[[E _]|[E _]]]; lia. }
  destruct (Z.eq_dec (tag op) 2) as [E2|N2].
  { destruct (D2 E2) as [[-> Hr]|[tok [size [blk [seed [p' [fr Hd2]]]]]]].
    - apply Hnoop; auto; intros; lia.
    - apply (post_fin rem m x op o x1 res tok size blk seed p' fr R2 E2 Ho Hd2).
      destruct T as [[-> _]|[[e [_ [_ [_ En2]]]]|[t [a [[_ [_ Hth]] _]]]]]; auto.
      destruct Hth as [[E _]|[[E _]|[E _]]]; lia. }
  destruct (Z.eq_dec (tag op) 4) as [E4|N4].
  { destruct (D4 E4) as [[-> Hr]|Hd4].
    - apply Hnoop; auto; intros; lia.
    - apply (post_push rem m x op o x1 res R2 E4 Ho Hd4).
      destruct T as [[-> _]|[[e [_ [_ [_ En2]]]]|[t [a [[_ [_ Hth]] _]]]]]; auto.
      destruct Hth as [[E _]|[[E _]|[E _]]]; lia. }
  specialize (Dn N1 N2 N4).
  destruct T as [[-> Hn]|[[e [He [Hs [En1 En2]]]]|[t [a [Hth Ht]]]]].
  - destruct Hn as [Hn1 _]. apply Hnoop; auto; intros; try lia; rewrite Hn1 by auto; discriminate.
  - (* PopFront, clock, cancellation *)
    assert (Hne : forall t a, e <> EStep t a) by (intros t a E; subst e; exact He).
    destruct (env_frame cfg _ _ _ Hne Hs) as [Er Ep].
    destruct e as [al| |idx size|k blk seed|d| |t a]; cbn [env_ok] in He;
      [destruct He as [Hc _]; lia| |destruct He as [Hc _]; lia|lia| | |destruct He].
    + destruct He as [Hc Hres]. apply (post_pop rem m x op o x1 res R2 Hc Ho Hres Hs Dn En2).
    + destruct He as [Hc [_ Hres]]. cbn [step] in Hs. injection Hs as Hs.
      apply post_keep; auto; try (rewrite <- Hs; reflexivity).
      * apply bp_same; left; rewrite Hc; discriminate.
      * apply upl_same; left; rewrite Hc; discriminate.
      * apply acks_same; left; rewrite Hc; discriminate.
      * left. destruct (cur_same m op o) as [E1 E2]; [left; rewrite Hc; discriminate|]. splits; auto.
        intros t st. rewrite <- Hs. destruct t; auto.
    + destruct He as [Hc Hres]. cbn [step] in Hs. injection Hs as Hs.
      apply post_keep; auto; try (rewrite <- Hs; reflexivity).
      * apply bp_same; left; rewrite Hc; discriminate.
      * apply upl_same; left; rewrite Hc; discriminate.
      * apply acks_same; left; rewrite Hc; discriminate.
      * left. destruct (cur_same m op o) as [E1 E2]; [left; rewrite Hc; discriminate|]. splits; auto.
        intros t st. rewrite <- Hs. destruct t; auto.
  - (* a thread step with an external answer *)
    destruct (tstep_ok _ _ _ _ _ Ht) as [Hs [_ [Hwr _]]].
    destruct (thr_act_none _ _ _ _ _ Hth) as [Han Hng].
    pose proof (step_act _ _ _ _ Hs) as Ha. rewrite Han in Ha. cbn in Ha. injection Ha as Ha.
    pose proof (thr_uploads _ _ _ _ _ II Hs) as Eu.
    rewrite Hng in Hwr.
    destruct Hth as [Hres [_ Hth]].
    assert (Hc : tag op = 5%Z \/ tag op = 6%Z \/ tag op = 8%Z).
    { destruct Hth as [[E _]|[[E _]|[E _]]]; auto. }
    assert (Hwsub : forall t' st, written_state (x_sys x1) t' = Some st -> written_state (x_sys x) t' = Some st).
    { intros t' st Hw. destruct (tid_eqb t' t) eqn:Et.
      - assert (t' = t) as -> by (destruct t', t; auto; discriminate).
        destruct (written_new _ _ _ _ _ _ Hs II Hw) as [H|H]; [exact H|congruence].
      - assert (t' <> t) as Hne by (intros ->; destruct t; discriminate).
        rewrite <- (written_frame _ _ _ _ _ _ II Hs Hne). exact Hw. }
    apply post_keep; auto.
    + apply bp_same; left; lia.
    + apply upl_same; left; lia.
    + apply acks_same; left; lia.
    + destruct (Z.eq_dec (tag op) 6) as [E6|N6].
      * (* the state write completes *)
        right.
        destruct Hth as [[E _]|[[_ [Hwr6 _]]|[E _]]]; try lia.
        assert (exists st, written_state (x_sys x) t = Some st) as [st Hw].
        { destruct (writer_cases _ _ Hwr6) as [[-> [st Er]]|[-> [k [st Ep]]]]; cbn [written_state]; rewrite ?Er, ?Ep; eauto. }
        split.
        -- destruct (W t st Hw) as [j [po [E0 [H1 [H2 _]]]]]. unfold ms_v46. rewrite H1.
           rewrite (acks_same m op o) by (left; lia). rewrite (check_write_nil _ _ H2).
           destruct (ms_write_ok op o); reflexivity.
        -- intros t' st' Hw'. pose proof (Hwsub _ _ Hw') as Hw0.
           pose proof (holds_excl _ _ _ I3 (writing_holds _ _ _ Hw0) (writing_holds _ _ _ Hw)) as Et. subst t'.
           (* the writer has left WWriting *)
           destruct t; cbn [step written_state] in *.
           ++ pose proof (rstep_shape _ _ _ _ Hs) as Sh. revert Sh Hw'.
              destruct (s_r (x_sys x)) as [| |[]]; try discriminate. intros [[w' [-> Sw]]|[Sw _]]; [|discriminate Sw].
              destruct Sw as [[_ ->]|[_ ->]]; discriminate.
           ++ destruct (pstep_shape _ _ _ _ II Hs) as [_ [_ [Sh _]]]. revert Sh Hw'.
              destruct (s_p (x_sys x)) as [| | | | | | | |k []|]; try discriminate. intros [[w' [-> Sw]]|[Sw _]]; [|discriminate Sw].
              destruct Sw as [[_ ->]|[_ ->]]; discriminate.
      * left. destruct (cur_same m op o) as [E1 E2]; [left; exact N6|]. auto.
Qed.
