(** Run/R01SMonBase.v — groundwork for "the C01S monitor is silent on the model's run"
    (Run/R01SMon.v): sx round trips, enabledness of the sector-writer steps the harness
    model [exec] performs, reachability of the states it visits, stability of the start
    offsets, and the facts about device writes and device contents that the monitor's
    clauses 1, 2, 3, 5 ask for, derived from the theorems of Props/C01S.v. *)
From Coq Require Import List Arith ZArith Bool Lia.
From BBS Require Import Common.Sx Store.SectorWriter Store.SectorWriterProofs Store.SectorWriterSpec
  Store.SectorWriterCommute Store.SectorWriterInv Store.SectorWriterAccum
  Store.SectorWriterDevice Run.R01S.
Import ListNotations.
Open Scope nat_scope.

(** * sx round trips *)

Lemma sx_nats_of_nats l : sx_nats (of_nats l) = l.
Proof.
  unfold sx_nats, of_nats. cbn [sx_list]. rewrite map_map.
  rewrite <- (map_id l) at 2. apply map_ext. intros a. unfold sx_nat, of_nat. cbn [sx_Z]. apply Nat2Z.id.
Qed.

Lemma dec_enc_bytes b : dec_bytes (enc_bytes b) = b.
Proof.
  unfold dec_bytes, enc_bytes, sx_Zs, of_Zs. cbn [sx_list]. rewrite map_map.
  rewrite <- (map_id b) at 2. apply map_ext. reflexivity.
Qed.

Lemma dec_enc_write w : dec_write (enc_write w) = w.
Proof.
  destruct w as [o b]. unfold dec_write, enc_write, sx_nth. cbn [sx_list nth fst snd].
  rewrite dec_enc_bytes. unfold sx_nat, of_nat. cbn [sx_Z]. rewrite Nat2Z.id. reflexivity.
Qed.

Lemma dec_enc_log l : dec_log (enc_log l) = l.
Proof.
  unfold dec_log, enc_log. cbn [sx_list]. rewrite map_map.
  rewrite <- (map_id l) at 2. apply map_ext. apply dec_enc_write.
Qed.

(** * lists *)

Lemma upd_same {T} (l : list T) i x : nth_error l i = Some x -> upd l i x = l.
Proof.
  revert i; induction l as [|h l IH]; intros [|i] H; cbn in *; try discriminate; try reflexivity.
  - inversion H; reflexivity.
  - rewrite IH; auto.
Qed.

Lemma upd_upd {T} (l : list T) i x y : upd (upd l i x) i y = upd l i y.
Proof. revert i; induction l as [|h l IH]; intros [|i]; cbn; try reflexivity. rewrite IH; reflexivity. Qed.

Lemma nth_map_nth_error {A B} (f : A -> B) l j x d : nth_error l j = Some x -> nth j (map f l) d = f x.
Proof.
  revert j; induction l as [|h l IH]; intros [|j] H; cbn in *; try discriminate.
  - inversion H; reflexivity.
  - apply IH; exact H.
Qed.

Lemma nth_error_lt {T} (l : list T) j x : nth_error l j = Some x -> j < length l.
Proof. intros H. apply nth_error_Some. congruence. Qed.

Lemma bytes_eqb_refl a : bytes_eqb a a = true.
Proof. induction a as [|x a IH]; cbn [bytes_eqb]; [reflexivity|]. rewrite Z.eqb_refl, IH. reflexivity. Qed.

Lemma slice_eq (dev : list byte) off n (data : list byte) :
  off + n <= length dev -> length data = n ->
  (forall i, i < n -> nth (off + i) dev 0%Z = nth i data 0%Z) ->
  slice dev off n = data.
Proof.
  intros Hl Hd Hn. unfold slice. apply list_ext; unfold byte in *.
  - rewrite firstn_length, skipn_length. rewrite Nat.min_l by lia. lia.
  - intros i Hi. rewrite firstn_length, skipn_length in Hi. rewrite Nat.min_l in Hi by lia.
    rewrite nth_firstn_lt by lia. rewrite nth_skipn_add. apply Hn. lia.
Qed.

(** * the steps of the transition system that [exec] performs are enabled *)
Section Steps.
Variable c : cfg.

Lemma step_skip_some s e s' l : step c s e = Some (s', l) -> step_skip c s e = (s', l).
Proof. intros H. unfold step_skip. rewrite H. reflexivity. Qed.

Lemma step_alloc_ok s n : has_space c (st_cur s) n = true ->
  exists s' t, step c s (EAlloc n) = Some (s', []) /\ st_threads s' = st_threads s ++ [t] /\
    t_size t = n /\ t_data t = [] /\ t_status t = Active /\ st_dev s' = st_dev s.
Proof.
  intros H. cbn [step]. rewrite H.
  destruct (alloc c (st_cur s) (st_images s) n) as [[[b' im'] w] st].
  do 2 eexists. split; [reflexivity|]. cbn. repeat split.
Qed.

Lemma step_write_ok s j t ch :
  nth_error (st_threads s) j = Some t -> t_status t = Active ->
  length (t_data t) + length ch <= t_size t ->
  exists s' l t', step c s (EWrite j ch) = Some (s', l) /\ st_threads s' = upd (st_threads s) j t' /\
    t_start t' = t_start t /\ t_size t' = t_size t /\ t_data t' = t_data t ++ ch /\
    t_status t' = Active /\ st_dev s' = apply_writes (st_dev s) l.
Proof.
  intros Hj Ha Hl. cbn [step]. rewrite Hj, Ha. apply Nat.leb_le in Hl. rewrite Hl.
  destruct (write c (st_images s) (t_w t) ch) as [[im w'] l].
  do 3 eexists. split; [reflexivity|]. cbn. repeat split.
Qed.

Lemma step_flush_ok s j t :
  nth_error (st_threads s) j = Some t -> t_status t = Active -> length (t_data t) = t_size t ->
  exists s' l t', step c s (EFlush j) = Some (s', l) /\ st_threads s' = upd (st_threads s) j t' /\
    t_start t' = t_start t /\ t_size t' = t_size t /\ t_data t' = t_data t /\
    t_status t' = Flushed /\ st_dev s' = apply_writes (st_dev s) l.
Proof.
  intros Hj Ha Hl. cbn [step]. rewrite Hj, Ha. apply Nat.eqb_eq in Hl. rewrite Hl.
  destruct (flush c (st_images s) (t_w t)) as [im l].
  do 3 eexists. split; [reflexivity|]. cbn. repeat split.
Qed.

Lemma step_abandon_ok s j t :
  nth_error (st_threads s) j = Some t -> t_status t = Active ->
  exists s' t', step c s (EAbandon j) = Some (s', []) /\ st_threads s' = upd (st_threads s) j t' /\
    t_start t' = t_start t /\ t_size t' = t_size t /\ t_data t' = t_data t /\
    t_status t' = Abandoned /\ st_dev s' = st_dev s.
Proof.
  intros Hj Ha. cbn [step]. rewrite Hj, Ha.
  do 2 eexists. split; [reflexivity|]. cbn. repeat split.
Qed.

Lemma steps_skip_1 s e s' l : step_skip c s e = (s', l) -> steps_skip c s [e] = (s', l).
Proof. intros H. unfold steps_skip. cbn [fold_left fst snd]. rewrite H. reflexivity. Qed.

Lemma steps_skip_2 s e1 e2 s1 l1 s2 l2 :
  step_skip c s e1 = (s1, l1) -> step_skip c s1 e2 = (s2, l2) -> steps_skip c s [e1; e2] = (s2, l1 ++ l2).
Proof. intros H1 H2. unfold steps_skip. cbn [fold_left fst snd]. rewrite H1. cbn [fst snd]. rewrite H2. reflexivity. Qed.

(** ** start offsets and sizes of existing writers never change; writers are only appended *)
Definition ext (s s2 : state) : Prop :=
  forall j t, nth_error (st_threads s) j = Some t ->
    exists t2, nth_error (st_threads s2) j = Some t2 /\ t_start t2 = t_start t /\ t_size t2 = t_size t.

Lemma ext_refl s : ext s s.
Proof. intros j t H. exists t. auto. Qed.

Lemma ext_trans s1 s2 s3 : ext s1 s2 -> ext s2 s3 -> ext s1 s3.
Proof.
  intros H12 H23 j t H. destruct (H12 _ _ H) as (t2 & H2 & E1 & E2).
  destruct (H23 _ _ H2) as (t3 & H3 & E3 & E4). exists t3. repeat split; congruence.
Qed.

Lemma step_ext s e s' l : step c s e = Some (s', l) -> ext s s'.
Proof.
  intros Hs. destruct (is_alloc e) eqn:Ha.
  - destruct e as [n| | |]; try discriminate. cbn [step] in Hs.
    destruct (has_space c (st_cur s) n); [|discriminate].
    destruct (alloc c (st_cur s) (st_images s) n) as [[[b' im'] w] st].
    inversion Hs; subst; clear Hs. intros j t Hj. exists t. cbn [st_threads].
    rewrite nth_error_app1 by (eapply nth_error_lt; eauto). auto.
  - destruct (step_writer_shape _ _ _ _ _ Hs Ha) as (k & t & t' & im' & Hk & _ & -> & (E1 & E2 & _)).
    intros j u Hj. cbn [set_thread st_threads]. destruct (Nat.eq_dec k j) as [->|Hne].
    + exists t'. rewrite nth_error_upd_eq by (eapply nth_error_lt; eauto).
      rewrite Hk in Hj. inversion Hj; subst. auto.
    + exists u. rewrite nth_error_upd_ne by exact Hne. auto.
Qed.

Lemma step_skip_ext s e s' l : step_skip c s e = (s', l) -> ext s s'.
Proof.
  unfold step_skip. destruct (step c s e) as [[s1 l1]|] eqn:Hs; intros H; inversion H; subst.
  - eapply step_ext; eauto.
  - apply ext_refl.
Qed.

Lemma steps_skip_ext es : forall s l0 s' l,
  fold_left (fun acc e => let '(s', l) := step_skip c (fst acc) e in (s', snd acc ++ l)) es (s, l0) = (s', l) ->
  ext s s'.
Proof.
  induction es as [|e es IH]; intros s l0 s' l H; cbn [fold_left] in H.
  - inversion H; subst. apply ext_refl.
  - cbn [fst snd] in H. destruct (step_skip c s e) as [s1 l1] eqn:H1.
    eapply ext_trans; [eapply step_skip_ext; eauto|eapply IH; eauto].
Qed.

Lemma exec_ext r ev r' res l : exec c r ev = (r', res, l) -> ext (r_st r) (r_st r').
Proof.
  unfold exec. cbv zeta. intros H.
  repeat match type of H with context [match ?x with _ => _ end] => destruct x eqn:? end;
    inversion H; subst; cbn [r_st];
    first [apply ext_refl | solve [eapply step_skip_ext; eauto]
          | solve [unfold steps_skip in *; eapply steps_skip_ext; eauto]].
Qed.

Lemma exec_all_ext evs : forall r r2 out, exec_all c r evs = (r2, out) -> ext (r_st r) (r_st r2).
Proof.
  induction evs as [|ev evs IH]; intros r r2 out H; cbn [exec_all] in H.
  - inversion H; subst. apply ext_refl.
  - destruct (exec c r ev) as [[r1 res] l] eqn:H1. destruct (exec_all c r1 evs) as [r2' out'] eqn:H2.
    inversion H; subst. eapply ext_trans; [eapply exec_ext; eauto|eapply IH; eauto].
Qed.
End Steps.

(** * reachable states of one harness case *)
Section Reach.
Variable k : cfg01s.
Let c := k_cfg k.
Let SS := c_sector c.
Hypothesis HS : 1 <= c_sector c.
Hypothesis Hbase : c_base c = c_spb c.

Definition Reach (s : state) : Prop :=
  exists tr, run (k_cfg k) (init_state (init_dev k) (init_cursor k)) tr = Some s.

Lemma reach_init : Reach (init_state (init_dev k) (init_cursor k)).
Proof. exists []. reflexivity. Qed.

Lemma reach_step s e s' l : Reach s -> step c s e = Some (s', l) -> Reach s'.
Proof.
  intros [tr H] Hs. exists (tr ++ [e]). rewrite run_app, H. cbn [run]. fold c. rewrite Hs. reflexivity.
Qed.

Lemma init_cursor_shared : b_shared (init_cursor k) = None.
Proof. unfold init_cursor. destruct (k_restored k); reflexivity. Qed.

Lemma init_cursor_wf : cursor_wf c (init_cursor k).
Proof. unfold cursor_wf. rewrite init_cursor_shared. exact I. Qed.

Lemma init_dev_len : (c_base c + c_spb c) * c_sector c <= length (init_dev k).
Proof. unfold init_dev. rewrite repeat_length. fold c. rewrite Hbase. nia. Qed.

Lemma init_cursor_restored r : k_restored k = Some r -> r <= cpos c (init_cursor k).
Proof.
  intros H. unfold init_cursor. rewrite H. fold c. pose proof (new_block_at_pos c r HS). lia.
Qed.

(** every writer's range lies in the block, at or above the initial cursor *)
Lemma reach_bounds s j t : Reach s -> nth_error (st_threads s) j = Some t ->
  cpos c (init_cursor k) <= t_start t /\ t_start t + t_size t <= c_spb c * c_sector c.
Proof.
  intros [tr H] Hj.
  destruct (allocations_disjoint_proof c _ _ tr s HS init_cursor_wf H) as (_ & Hb & _). eauto.
Qed.

Lemma run_dev_len tr : forall s s', run c s tr = Some s' -> length (st_dev s') = length (st_dev s).
Proof.
  induction tr as [|e tr IH]; intros s s' H; cbn [run] in H.
  - inversion H; reflexivity.
  - destruct (step c s e) as [[s1 l]|] eqn:Hs; [|discriminate].
    rewrite (IH _ _ H). eapply step_dev_length; eauto.
Qed.

Lemma reach_dev_len s : Reach s -> length (st_dev s) = length (init_dev k).
Proof. intros [tr H]. apply (run_dev_len _ _ _ H). Qed.

(** clause 1: the device holds the data of every flushed writer *)
Lemma reach_flushed_slice s j t : Reach s -> nth_error (st_threads s) j = Some t -> t_status t = Flushed ->
  slice (st_dev s) (c_base c * c_sector c + t_start t) (t_size t) = t_data t.
Proof.
  intros HR Hj Hf. destruct (reach_bounds _ _ _ HR Hj) as [_ Hhi]. destruct HR as [tr H].
  apply slice_eq.
  - rewrite (run_dev_len _ _ _ H). cbn [init_state st_dev]. pose proof init_dev_len. nia.
  - eapply flushed_writer_has_all_bytes_proof; eauto.
  - intros i Hi.
    eapply completed_writer_data_on_device_proof; eauto using init_cursor_shared, init_dev_len.
Qed.

(** clauses 2, 3, 5: the device writes of one step of writer j *)
Definition span_ok (st sz : nat) (l : list dwrite) : Prop :=
  forallb (in_range (c_base c * SS + st / SS * SS) (c_base c * SS + (st + sz + SS - 1) / SS * SS)) l = true /\
  forallb (in_range (c_base c * SS) ((c_base c + c_spb c) * SS)) l = true /\
  (forall r, k_restored k = Some r -> forallb (fun w => c_base c * SS + r <=? fst w) l = true).

Lemma span_ok_nil st sz : span_ok st sz [].
Proof. repeat split. Qed.

Lemma span_ok_app st sz l1 l2 : span_ok st sz l1 -> span_ok st sz l2 -> span_ok st sz (l1 ++ l2).
Proof.
  intros (A1 & A2 & A3) (B1 & B2 & B3). unfold span_ok. split; [|split].
  - rewrite forallb_app. apply andb_true_intro. split; assumption.
  - rewrite forallb_app. apply andb_true_intro. split; assumption.
  - intros r Hr. rewrite forallb_app. apply andb_true_intro. split; [exact (A3 _ Hr)|exact (B3 _ Hr)].
Qed.

Lemma reach_step_span s e s' l j t :
  Reach s -> step c s e = Some (s', l) -> ev_thread e = Some j -> nth_error (st_threads s) j = Some t ->
  span_ok (t_start t) (t_size t) l.
Proof.
  intros HR Hs He Hj. destruct (reach_bounds _ _ _ HR Hj) as [Hlo Hhi]. destruct HR as [tr H].
  pose proof (writer_writes_only_own_sectors_proof c _ _ tr s e s' l j t HS init_cursor_shared H Hs He Hj) as HF.
  rewrite Forall_forall in HF. fold SS in HF, Hhi |- *.
  set (st := t_start t) in *. set (sz := t_size t) in *.
  pose proof (Nat.div_mod (st + sz + SS - 1) SS ltac:(unfold SS; lia)) as E1.
  pose proof (Nat.mod_upper_bound (st + sz + SS - 1) SS ltac:(unfold SS; lia)) as U1.
  pose proof (Nat.div_mod st SS ltac:(unfold SS; lia)) as E2.
  pose proof (Nat.mod_upper_bound st SS ltac:(unfold SS; lia)) as U2.
  set (q1 := (st + sz + SS - 1) / SS) in *. set (q2 := st / SS) in *.
  assert (Hq1 : q1 <= c_spb c) by nia.
  unfold span_ok. repeat split.
  - apply forallb_forall. intros w Hw. destruct (HF _ Hw) as [L1 L2]. unfold in_range.
    apply andb_true_intro; split; apply Nat.leb_le; nia.
  - apply forallb_forall. intros w Hw. destruct (HF _ Hw) as [L1 L2]. unfold in_range.
    apply andb_true_intro; split; apply Nat.leb_le; nia.
  - intros r Hr. pose proof (init_cursor_restored _ Hr) as Hr1.
    assert (Hm : exists m, cpos c (init_cursor k) = m * SS).
    { unfold init_cursor. rewrite Hr. exists (b_wos (new_block_at c r)). unfold cpos. cbn. fold c. fold SS. lia. }
    destruct Hm as [m Hm]. assert (m <= q2) by nia.
    apply forallb_forall. intros w Hw. destruct (HF _ Hw) as [L1 L2]. apply Nat.leb_le. nia.
Qed.
End Reach.
