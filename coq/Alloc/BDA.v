(** The accounting of pkg/blobstore/local/block_device_backed_block_allocator.go
    (sub-check C04A of C04): the free list of device regions, the use count of
    every block object, and the allocation of space inside a block.

    Faithful to the Go code as it is:
    - NewBlockDeviceBackedBlockAllocator: freeOffsets = [0; spb; 2*spb; ...]
      (sector offsets), in this order;
    - NewBlock: empty free list => Unavailable; otherwise the FRONT entry is
      taken (freeOffsets[1:]); use count 1, write offset 0;
    - NewBlockAtLocation(location, writeOffsetBytes): the first entry whose
      location message (offset*sector, spb*sector) equals [location] is
      removed by SWAP-REMOVE (overwritten with the last entry, list truncated
      by one); use count 1, write offset ceil(writeOffsetBytes / sector)
      sectors; no entry matches => (nil, false);
    - Block.Release (also reader Close and the end of a BlockPutWriter): use
      count - 1; negative => panic; 0 => the region is APPENDED to the free list;
    - Block.Get / Block.Put: use count + 1; result <= 1 => panic;
    - Block.HasSpace / Block.Put: space inside the block in whole sectors plus
      the shared trailing sector.

    Ghost fields (not state of the Go code; state of its caller): [b_rel] = the
    owner (the block list) has called Release() on the block; [b_pins] = number
    of readers / writers obtained from the block that are not finished yet;
    [p_open] = the reader has not been closed / the writer has not been run yet.
    No function of the model reads [b_rel] or [b_pins].

    int64 arithmetic is modelled in Z (no overflow for the sizes generated). *)
From Coq Require Import List ZArith Bool Lia.
Import ListNotations.
Open Scope Z_scope.

Record acfg := mkCfg { c_sector : Z; c_spb : Z; c_n : nat }.

Definition wf_cfg (c : acfg) : Prop := 0 < c_sector c /\ 0 < c_spb c.
Definition wf_cfgb (c : acfg) : bool := (0 <? c_sector c) && (0 <? c_spb c).

Record blk := mkBlk {
  b_off : Z;       (* deviceOffsetSectors *)
  b_use : Z;       (* usecount *)
  b_wos : Z;       (* writeOffsetSectors *)
  b_sh : Z;        (* sharedSector.writeOffsetBytes, 0 when sharedSector == nil *)
  b_rel : bool;    (* ghost: the owner's reference has been dropped *)
  b_pins : nat     (* ghost: readers / writers obtained from the block and not yet finished *)
}.

(** a reader (kind 1) or writer (kind 2) obtained from block [p_h] *)
Record pin := mkPin { p_h : nat; p_open : bool; p_kind : Z; p_off : Z }.

Record ast := mkA {
  a_free : list Z;     (* freeOffsets *)
  a_blks : list blk;   (* every block object handed out so far, by handle *)
  a_pins : list pin;
  a_nfreed : nat       (* releases_total: times a use count reached 0 *)
}.

Inductive op :=
| ONew                               (* NewBlock() *)
| OAt (off size wo : Z)              (* NewBlockAtLocation({off,size}, wo) *)
| ORel (h : nat)                     (* blocks[h].Release() by the owner *)
| OGet (h : nat)                     (* blocks[h].Get(...): a reader held open *)
| OPut (h : nat) (size : Z)          (* HasSpace(size) and, if so, Put(size) *)
| OFin (p : nat)                     (* close reader p / run writer p *)
| OBad.

Inductive res :=
| RHanded (o : Z)                    (* a block object at sector offset o *)
| RMem                               (* a block object of the in-memory allocator *)
| RUnavail                           (* NewBlock: Unavailable *)
| RAtFail                            (* NewBlockAtLocation: (nil, false) *)
| RSkip                              (* no such handle / pin: nothing called *)
| RRel
| RGot
| RPut (ok : bool)                   (* HasSpace result; true => writer held *)
| RFin (kind off : Z)
| RPanic.

Definition regions (c : acfg) : list Z := map (fun i => Z.of_nat i * c_spb c) (seq 0 (c_n c)).

Definition init_a (c : acfg) : ast := mkA (regions c) [] [] 0.

(** the loop of NewBlockAtLocation with its swap-remove: the first entry
    satisfying [p] and the free list afterwards *)
Fixpoint take_at (p : Z -> bool) (l : list Z) : option (Z * list Z) :=
  match l with
  | [] => None
  | x :: r =>
      if p x then Some (x, match r with [] => [] | _ :: _ => last r 0 :: removelast r end)
      else match take_at p r with
           | Some (y, r') => Some (y, x :: r')
           | None => None
           end
  end.

Fixpoint upd {T} (i : nat) (f : T -> T) (l : list T) : list T :=
  match l with
  | [] => []
  | x :: r => match i with O => f x :: r | S i' => x :: upd i' f r end
  end.

Definition set_use (u : Z) (b : blk) : blk := mkBlk (b_off b) u (b_wos b) (b_sh b) (b_rel b) (b_pins b).
Definition set_rel (b : blk) : blk := mkBlk (b_off b) (b_use b) (b_wos b) (b_sh b) true (b_pins b).
Definition pin_blk (b : blk) : blk := mkBlk (b_off b) (b_use b + 1) (b_wos b) (b_sh b) (b_rel b) (S (b_pins b)).
Definition unpin_blk (b : blk) : blk := mkBlk (b_off b) (b_use b) (b_wos b) (b_sh b) (b_rel b) (pred (b_pins b)).
Definition put_blk (c_sec e : Z) (b : blk) : blk :=
  mkBlk (b_off b) (b_use b + 1) (b_wos b + Z.quot e c_sec) (Z.rem e c_sec) (b_rel b) (S (b_pins b)).
Definition close_pin (p : pin) : pin := mkPin (p_h p) false (p_kind p) (p_off p).

(** blockDeviceBackedBlock.Release(); None = panic *)
Definition release (h : nat) (b : blk) (a : ast) : option ast :=
  let u := b_use b - 1 in
  if u <? 0 then None
  else Some (mkA (if u =? 0 then a_free a ++ [b_off b] else a_free a)
                 (upd h (set_use u) (a_blks a)) (a_pins a)
                 (if u =? 0 then S (a_nfreed a) else a_nfreed a)).

Definition at_match (c : acfg) (off size : Z) (x : Z) : bool :=
  (x * c_sector c =? off) && (c_spb c * c_sector c =? size).

Definition has_space (c : acfg) (b : blk) (size : Z) : bool :=
  size <=? (c_spb c - b_wos b) * c_sector c - b_sh b.

Definition step (c : acfg) (a : ast) (o : op) : ast * res :=
  match o with
  | ONew =>
      match a_free a with
      | [] => (a, RUnavail)
      | x :: f' => (mkA f' (a_blks a ++ [mkBlk x 1 0 0 false 0]) (a_pins a) (a_nfreed a), RHanded x)
      end
  | OAt off size wo =>
      match take_at (at_match c off size) (a_free a) with
      | None => (a, RAtFail)
      | Some (x, f') =>
          (mkA f' (a_blks a ++ [mkBlk x 1 (Z.quot (wo + c_sector c - 1) (c_sector c)) 0 false 0])
               (a_pins a) (a_nfreed a), RHanded x)
      end
  | ORel h =>
      match nth_error (a_blks a) h with
      | None => (a, RSkip)
      | Some b =>
          match release h b a with
          | None => (a, RPanic)
          | Some a' => (mkA (a_free a') (upd h set_rel (a_blks a')) (a_pins a') (a_nfreed a'), RRel)
          end
      end
  | OGet h =>
      match nth_error (a_blks a) h with
      | None => (a, RSkip)
      | Some b =>
          if b_use b + 1 <=? 1 then (a, RPanic)
          else (mkA (a_free a) (upd h pin_blk (a_blks a))
                    (a_pins a ++ [mkPin h true 1 0]) (a_nfreed a), RGot)
      end
  | OPut h size =>
      match nth_error (a_blks a) h with
      | None => (a, RSkip)
      | Some b =>
          if size <? 0 then (a, RSkip)
          else if negb (has_space c b size) then (a, RPut false)
          else if b_use b + 1 <=? 1 then (a, RPanic)
          else
            let e := b_sh b + size in
            (mkA (a_free a)
                 (upd h (put_blk (c_sector c) e) (a_blks a))
                 (a_pins a ++ [mkPin h true 2 (b_wos b * c_sector c + b_sh b)]) (a_nfreed a),
             RPut true)
      end
  | OFin p =>
      match nth_error (a_pins a) p with
      | None => (a, RSkip)
      | Some pn =>
          if negb (p_open pn) then (a, RSkip)
          else match nth_error (a_blks a) (p_h pn) with
               | None => (a, RSkip)
               | Some b =>
                   match release (p_h pn) b a with
                   | None => (a, RPanic)
                   | Some a' =>
                       (mkA (a_free a') (upd (p_h pn) unpin_blk (a_blks a')) (upd p close_pin (a_pins a'))
                            (a_nfreed a'),
                        RFin (p_kind pn) (p_off pn))
                   end
               end
      end
  | OBad => (a, RSkip)
  end.

(** a case: the operations in order; execution stops at a panic *)
Fixpoint exec (c : acfg) (a : ast) (ops : list op) : ast * list res :=
  match ops with
  | [] => (a, [])
  | o :: ops' =>
      match step c a o with
      | (a', RPanic) => (a', [RPanic])
      | (a', r) => let (a'', rs) := exec c a' ops' in (a'', r :: rs)
      end
  end.

(** the state only (no stop at a panic needed: a panicking step keeps the state) *)
Definition exec_st (c : acfg) (a : ast) (ops : list op) : ast := fst (exec c a ops).

(** at the end of a case: NewBlock() until it fails, at most [fuel] times *)
Fixpoint drain (c : acfg) (fuel : nat) (a : ast) : ast * list res :=
  match fuel with
  | O => (a, [])
  | S f =>
      match step c a ONew with
      | (a', RHanded x) => let (a'', rs) := drain c f a' in (a'', RHanded x :: rs)
      | (a', r) => (a', [r])
      end
  end.

Definition panicked (rs : list res) : bool :=
  existsb (fun r => match r with RPanic => true | _ => false end) rs.

(** sector offsets of the regions that are in use: blocks with a positive use count *)
Definition live_offs (a : ast) : list Z :=
  map b_off (filter (fun b => 0 <? b_use b) (a_blks a)).

(** ---- the in-memory allocator (in_memory_block_allocator.go): no regions, no
    free list, no use counts: NewBlock always succeeds (fresh byte slice, nil
    location), NewBlockAtLocation always fails, Release is a no-op; space inside
    a block is a byte offset.  [b_wos] is the write offset in bytes. ---- *)
Definition step_mem (bs : Z) (a : ast) (o : op) : ast * res :=
  match o with
  | ONew => (mkA [] (a_blks a ++ [mkBlk (-1) 1 0 0 false 0]) (a_pins a) 0, RMem)
  | OAt _ _ _ => (a, RAtFail)
  | ORel h =>
      match nth_error (a_blks a) h with
      | None => (a, RSkip)
      | Some _ => (mkA [] (upd h set_rel (a_blks a)) (a_pins a) 0, RRel)
      end
  | OGet h =>
      match nth_error (a_blks a) h with
      | None => (a, RSkip)
      | Some _ => (mkA [] (a_blks a) (a_pins a ++ [mkPin h true 1 0]) 0, RGot)
      end
  | OPut h size =>
      match nth_error (a_blks a) h with
      | None => (a, RSkip)
      | Some b =>
          if size <? 0 then (a, RSkip)
          else if negb (size <=? bs - b_wos b) then (a, RPut false)
          else (mkA [] (upd h (fun b => mkBlk (b_off b) (b_use b) (b_wos b + size) 0 (b_rel b) (b_pins b)) (a_blks a))
                    (a_pins a ++ [mkPin h true 2 (b_wos b)]) 0, RPut true)
      end
  | OFin p =>
      match nth_error (a_pins a) p with
      | None => (a, RSkip)
      | Some pn =>
          if negb (p_open pn) then (a, RSkip)
          else (mkA [] (a_blks a) (upd p close_pin (a_pins a)) 0, RFin (p_kind pn) (p_off pn))
      end
  | OBad => (a, RSkip)
  end.

Fixpoint exec_mem (bs : Z) (a : ast) (ops : list op) : ast * list res :=
  match ops with
  | [] => (a, [])
  | o :: ops' =>
      let (a', r) := step_mem bs a o in
      let (a'', rs) := exec_mem bs a' ops' in (a'', r :: rs)
  end.
