(** Proofs about the allocator accounting model Alloc/BDA.v: the invariant
    "free list ++ regions in use = all regions, without duplicates" for every
    reachable state (ANY sequence of calls, including misuse), exact use
    counts for callers that keep the protocol, and what each call may return. *)
From Coq Require Import List ZArith Bool Lia Permutation Arith.
From BBS Require Import Alloc.BDA.
Import ListNotations.
Open Scope Z_scope.

(** ---- lists ---- *)
Lemma upd_length {T} i (f : T -> T) l : length (upd i f l) = length l.
Proof. revert i; induction l as [|x r IH]; intros [|i]; cbn; auto. Qed.

Lemma nth_error_upd {T} i j (f : T -> T) l :
  nth_error (upd i f l) j = if Nat.eqb i j then option_map f (nth_error l j) else nth_error l j.
Proof.
  revert i j; induction l as [|x r IH]; intros [|i] [|j]; cbn; auto.
  all: try (destruct (Nat.eqb i j); reflexivity).
Qed.

Lemma upd_split {T} i (f : T -> T) l b : nth_error l i = Some b ->
  exists l1 l2, l = l1 ++ b :: l2 /\ length l1 = i /\ upd i f l = l1 ++ f b :: l2.
Proof.
  revert i; induction l as [|x r IH]; intros [|i] H; cbn in H; try discriminate.
  - inversion H; subst. exists [], r. auto.
  - destruct (IH _ H) as (l1 & l2 & E & Hl & Hu). exists (x :: l1), l2. cbn. rewrite Hu, Hl. subst r. auto.
Qed.

Lemma upd_none {T} i (f : T -> T) l : nth_error l i = None -> upd i f l = l.
Proof.
  revert i; induction l as [|x r IH]; intros [|i] H; cbn in *; auto; try discriminate. f_equal; auto.
Qed.

Lemma Forall_upd {T} (P : T -> Prop) i f l :
  Forall P l -> (forall x, P x -> P (f x)) -> Forall P (upd i f l).
Proof.
  intros H Hf. revert i; induction H; intros [|i]; cbn; constructor; auto.
Qed.

Lemma map_upd {T U} (g : T -> U) (f : T -> T) (f' : U -> U) i l :
  (forall x, g (f x) = f' (g x)) -> map g (upd i f l) = upd i f' (map g l).
Proof.
  intros H. revert i; induction l as [|x r IH]; intros [|i]; cbn; auto; f_equal; auto.
Qed.

(** ---- the swap-remove of NewBlockAtLocation ---- *)
Lemma take_at_some p l x l' : take_at p l = Some (x, l') -> Permutation (x :: l') l /\ p x = true.
Proof.
  revert x l'; induction l as [|a r IH]; cbn; intros x l' H; [discriminate|].
  destruct (p a) eqn:E.
  - inversion H; subst. split; auto. destruct r as [|z r0]; [reflexivity|].
    constructor.
    rewrite (app_removelast_last 0 (l := z :: r0)) at 3 by discriminate.
    apply Permutation_cons_append.
  - destruct (take_at p r) as [[y r']|]; [|discriminate].
    inversion H; subst. destruct (IH _ _ eq_refl) as [HP Hx]. split; auto.
    eapply perm_trans; [apply perm_swap|]. constructor. exact HP.
Qed.

Lemma take_at_none p l : take_at p l = None -> forall x, In x l -> p x = false.
Proof.
  induction l as [|a r IH]; cbn; intros H x Hin; [contradiction|].
  destruct (p a) eqn:E; [discriminate|].
  destruct (take_at p r) as [[y r']|]; [discriminate|].
  destruct Hin as [<-|Hin]; auto.
Qed.

(** ---- regions ---- *)
Lemma regions_NoDup c : wf_cfg c -> NoDup (regions c).
Proof.
  intros [_ Hs]. unfold regions. apply FinFun.Injective_map_NoDup; [|apply seq_NoDup].
  intros i j H. nia.
Qed.

Lemma regions_length c : length (regions c) = c_n c.
Proof. unfold regions. rewrite map_length, seq_length. reflexivity. Qed.

(** ---- regions in use ---- *)
Definition one (b : blk) : list Z := if 0 <? b_use b then [b_off b] else [].
Definition lo (l : list blk) : list Z := map b_off (filter (fun b => 0 <? b_use b) l).

Lemma live_offs_lo a : live_offs a = lo (a_blks a).
Proof. reflexivity. Qed.

Lemma lo_app l1 l2 : lo (l1 ++ l2) = lo l1 ++ lo l2.
Proof. unfold lo. rewrite filter_app, map_app. reflexivity. Qed.

Lemma lo_cons b l : lo (b :: l) = one b ++ lo l.
Proof. unfold lo, one. cbn. destruct (0 <? b_use b); reflexivity. Qed.

Lemma lo_upd h f l b : nth_error l h = Some b ->
  exists l1 l2, lo l = lo l1 ++ one b ++ lo l2 /\ lo (upd h f l) = lo l1 ++ one (f b) ++ lo l2.
Proof.
  intros H. destruct (upd_split h f l b H) as (l1 & l2 & E & _ & Hu).
  exists l1, l2. rewrite Hu, E, !lo_app, !lo_cons. auto.
Qed.

Lemma lo_upd_same h f l :
  (forall b, b_off (f b) = b_off b) ->
  (forall b, nth_error l h = Some b -> (0 <? b_use (f b)) = (0 <? b_use b)) ->
  lo (upd h f l) = lo l.
Proof.
  intros Ho Hu. destruct (nth_error l h) as [b|] eqn:E.
  - destruct (lo_upd h f l b E) as (l1 & l2 & E1 & E2). rewrite E1, E2.
    unfold one. rewrite Ho, (Hu b eq_refl). reflexivity.
  - rewrite upd_none; auto.
Qed.

(** ---- the accounting invariant: every reachable state, any calls ---- *)
Definition inv (c : acfg) (a : ast) : Prop :=
  Permutation (a_free a ++ live_offs a) (regions c) /\ Forall (fun b => 0 <= b_use b) (a_blks a).

Lemma inv_init c : inv c (init_a c).
Proof. split; [cbn; rewrite app_nil_r; reflexivity|constructor]. Qed.

Lemma inv_NoDup c a : wf_cfg c -> inv c a -> NoDup (a_free a ++ live_offs a).
Proof.
  intros Hc [HP _]. eapply Permutation_NoDup; [symmetry; exact HP|apply regions_NoDup; exact Hc].
Qed.

Lemma inv_hand c a x f' wos :
  inv c a -> Permutation (x :: f') (a_free a) ->
  inv c (mkA f' (a_blks a ++ [mkBlk x 1 wos 0 false 0]) (a_pins a) (a_nfreed a)).
Proof.
  intros [HP HF] Hx. split.
  - unfold live_offs in *. cbn [a_free a_blks]. fold (lo (a_blks a ++ [mkBlk x 1 wos 0 false 0])).
    fold (lo (a_blks a)) in HP. rewrite lo_app, lo_cons. cbn.
    rewrite app_assoc. eapply perm_trans; [symmetry; apply Permutation_cons_append|].
    eapply perm_trans; [|exact HP]. rewrite app_comm_cons. apply Permutation_app_tail. exact Hx.
  - cbn. apply Forall_app. split; auto. constructor; [cbn; lia|constructor].
Qed.

Lemma inv_release c a h b a' :
  inv c a -> nth_error (a_blks a) h = Some b -> release h b a = Some a' ->
  inv c a' /\ 1 <= b_use b /\ a_pins a' = a_pins a
  /\ a_blks a' = upd h (set_use (b_use b - 1)) (a_blks a).
Proof.
  intros [HP HF] Hb H. unfold release in H.
  destruct (b_use b - 1 <? 0) eqn:E; [discriminate|]. apply Z.ltb_ge in E.
  inversion H; subst a'; clear H. cbn [a_pins a_blks].
  split; [split|split; [lia|split; reflexivity]].
  - unfold live_offs in *. cbn [a_free a_blks]. fold (lo (a_blks a)) in HP.
    fold (lo (upd h (set_use (b_use b - 1)) (a_blks a))).
    destruct (lo_upd h (set_use (b_use b - 1)) _ _ Hb) as (l1 & l2 & E1 & E2).
    rewrite E2. rewrite E1 in HP. unfold one in *. cbn [b_use b_off set_use].
    replace (0 <? b_use b) with true in HP by (symmetry; apply Z.ltb_lt; lia).
    destruct (b_use b - 1 =? 0) eqn:E0.
    + apply Z.eqb_eq in E0. rewrite E0. cbn [Z.ltb Z.compare app].
      eapply perm_trans; [|exact HP]. rewrite <- !app_assoc. apply Permutation_app_head.
      cbn. apply Permutation_middle.
    + apply Z.eqb_neq in E0. replace (0 <? b_use b - 1) with true by (symmetry; apply Z.ltb_lt; lia).
      exact HP.
  - cbn [a_blks]. apply Forall_upd; auto.
Qed.

Lemma inv_same_lo c a bl ps nf :
  inv c a -> lo bl = lo (a_blks a) -> Forall (fun b => 0 <= b_use b) bl ->
  inv c (mkA (a_free a) bl ps nf).
Proof. intros [HP HF] E F. split; auto. unfold live_offs. cbn. fold (lo bl). rewrite E. exact HP. Qed.

Lemma step_inv c a o : wf_cfg c -> inv c a -> inv c (fst (step c a o)).
Proof.
  intros Hc Hi. destruct o; cbn [step]; auto.
  - destruct (a_free a) as [|x f'] eqn:E; auto. cbn. apply inv_hand; auto. rewrite E. reflexivity.
  - destruct (take_at _ _) as [[x f']|] eqn:E; auto. cbn.
    apply take_at_some in E. apply inv_hand; auto. apply E.
  - destruct (nth_error (a_blks a) h) as [b|] eqn:Eb; auto.
    destruct (release h b a) as [a'|] eqn:Er; auto. cbn.
    destruct (inv_release _ _ _ _ _ Hi Eb Er) as (Hi' & _ & _ & _).
    apply (inv_same_lo c a'); auto.
    + apply lo_upd_same; auto.
    + apply Forall_upd; [apply Hi'|]. auto.
  - destruct (nth_error (a_blks a) h) as [b|] eqn:Eb; auto.
    destruct (b_use b + 1 <=? 1) eqn:E; auto. cbn. apply Z.leb_gt in E.
    apply inv_same_lo; auto.
    + apply lo_upd_same; auto. intros b0 Hb0. rewrite Eb in Hb0. inversion Hb0; subst. cbn.
      transitivity true; [apply Z.ltb_lt; lia|symmetry; apply Z.ltb_lt; lia].
    + apply Forall_upd; [apply Hi|]. intros x Hx. cbn. lia.
  - destruct (nth_error (a_blks a) h) as [b|] eqn:Eb; auto.
    destruct (size <? 0); auto. destruct (negb (has_space c b size)); auto.
    destruct (b_use b + 1 <=? 1) eqn:E; auto. cbn. apply Z.leb_gt in E.
    apply inv_same_lo; auto.
    + apply lo_upd_same; auto. intros b0 Hb0. rewrite Eb in Hb0. inversion Hb0; subst. cbn.
      transitivity true; [apply Z.ltb_lt; lia|symmetry; apply Z.ltb_lt; lia].
    + apply Forall_upd; [apply Hi|]. intros x Hx. cbn. lia.
  - destruct (nth_error (a_pins a) p) as [pn|] eqn:Ep; auto.
    destruct (negb (p_open pn)); auto.
    destruct (nth_error (a_blks a) (p_h pn)) as [b|] eqn:Eb; auto.
    destruct (release (p_h pn) b a) as [a'|] eqn:Er; auto. cbn.
    destruct (inv_release _ _ _ _ _ Hi Eb Er) as (Hi' & _ & _ & _).
    apply (inv_same_lo c a'); auto.
    + apply lo_upd_same; auto.
    + apply Forall_upd; [apply Hi'|]. auto.
Qed.

Lemma exec_inv c ops : wf_cfg c -> forall a, inv c a -> inv c (fst (exec c a ops)).
Proof.
  intros Hc. induction ops as [|o ops IH]; intros a Hi; cbn; auto.
  pose proof (step_inv c a o Hc Hi) as Hs.
  destruct (step c a o) as [a' r]. cbn in Hs.
  specialize (IH a' Hs). destruct (exec c a' ops) as [a'' rs].
  destruct r; cbn; auto.
Qed.

Lemma inv_free_length c a : inv c a -> (length (a_free a) <= c_n c)%nat.
Proof.
  intros [HP _]. apply Permutation_length in HP. rewrite app_length, regions_length in HP. lia.
Qed.

(** ---- what a call may return, at any state satisfying the invariant ---- *)
Lemma handed_is_free c a o a' x : step c a o = (a', RHanded x) -> In x (a_free a).
Proof.
  destruct o; cbn [step]; intros H.
  - destruct (a_free a) as [|y f']; inversion H; subst. left; reflexivity.
  - destruct (take_at _ _) as [[y f']|] eqn:E; inversion H; subst.
    apply take_at_some in E. destruct E as [HP _].
    eapply Permutation_in; [exact HP|left; reflexivity].
  - destruct (nth_error _ _); [destruct (release _ _ _)|]; inversion H.
  - destruct (nth_error _ _) as [b|]; [destruct (_ <=? _)|]; inversion H.
  - destruct (nth_error _ _) as [b|]; [|inversion H]. destruct (_ <? _); [inversion H|].
    destruct (negb _); [inversion H|]. destruct (_ <=? _); inversion H.
  - destruct (nth_error _ _) as [pn|]; [|inversion H]. destruct (negb _); [inversion H|].
    destruct (nth_error _ _) as [b|]; [|inversion H]. destruct (release _ _ _); inversion H.
  - inversion H.
Qed.

Lemma free_not_live c a x : wf_cfg c -> inv c a -> In x (a_free a) ->
  ~ In x (live_offs a) /\ In x (regions c).
Proof.
  intros Hc Hi Hx. pose proof (inv_NoDup c a Hc Hi) as Hn. split.
  - intros Hl. apply in_split in Hx. destruct Hx as (f1 & f2 & E). rewrite E in Hn.
    rewrite <- app_assoc in Hn. cbn in Hn. apply NoDup_remove_2 in Hn. apply Hn.
    rewrite !in_app_iff. auto.
  - eapply Permutation_in; [apply Hi|]. apply in_or_app; auto.
Qed.

Lemma region_free_or_live c a x : inv c a -> In x (regions c) -> In x (a_free a) \/ In x (live_offs a).
Proof.
  intros [HP _] Hx. apply in_app_or. eapply Permutation_in; [symmetry; exact HP|exact Hx].
Qed.

(** ---- exact use counts, for callers that keep the protocol ---- *)
Definition count_open (h : nat) (ps : list pin) : nat :=
  length (filter (fun p => Nat.eqb (p_h p) h && p_open p) ps).

Definition use_ok (b : blk) : Prop :=
  b_use b = (if b_rel b then 0 else 1) + Z.of_nat (b_pins b).

Definition inv2 (a : ast) : Prop :=
  Forall use_ok (a_blks a)
  /\ (forall h b, nth_error (a_blks a) h = Some b -> b_pins b = count_open h (a_pins a))
  /\ (forall p, In p (a_pins a) -> (p_h p < length (a_blks a))%nat).

(** the caller's protocol: Release() once by the owner; no Get/Put after it *)
Definition okop (c : acfg) (a : ast) (o : op) : bool :=
  match o with
  | ORel h | OGet h =>
      match nth_error (a_blks a) h with Some b => negb (b_rel b) | None => true end
  | OPut h size =>
      match nth_error (a_blks a) h with
      | Some b => negb (b_rel b) || (size <? 0) || negb (has_space c b size)
      | None => true
      end
  | _ => true
  end.

Lemma count_open_app h l1 l2 : count_open h (l1 ++ l2) = (count_open h l1 + count_open h l2)%nat.
Proof. unfold count_open. rewrite filter_app, app_length. reflexivity. Qed.

Lemma count_open_none h ps : (forall p, In p ps -> p_h p <> h) -> count_open h ps = O.
Proof.
  unfold count_open. induction ps as [|p r IH]; intros H; cbn; auto.
  destruct (Nat.eqb (p_h p) h) eqn:E.
  - apply Nat.eqb_eq in E. exfalso. apply (H p); [left; reflexivity|exact E].
  - cbn. apply IH. intros q Hq. apply H. right; exact Hq.
Qed.

Lemma inv2_init c : inv2 (init_a c).
Proof.
  split; [constructor|]. split.
  - intros [|h] b H; discriminate.
  - intros p [].
Qed.

Lemma inv2_hand a x f' wos nf :
  inv2 a -> inv2 (mkA f' (a_blks a ++ [mkBlk x 1 wos 0 false 0]) (a_pins a) nf).
Proof.
  intros (H1 & H2 & H3). split; [|split]; cbn [a_blks a_pins].
  - apply Forall_app. split; auto. constructor; [reflexivity|constructor].
  - intros h b Hb. destruct (Nat.lt_ge_cases h (length (a_blks a))) as [Hl|Hl].
    + rewrite nth_error_app1 in Hb by exact Hl. auto.
    + rewrite nth_error_app2 in Hb by exact Hl.
      destruct (h - length (a_blks a))%nat as [|k] eqn:Ek; cbn in Hb.
      * inversion Hb; subst b. cbn. symmetry. apply count_open_none.
        intros p Hp. specialize (H3 p Hp). lia.
      * destruct k; discriminate.
  - intros p Hp. rewrite app_length. specialize (H3 p Hp). lia.
Qed.

(** changing block [h] by [f] where [f] keeps the pins *)
Lemma inv2_upd a h f fr nf :
  inv2 a ->
  (forall b, nth_error (a_blks a) h = Some b -> use_ok (f b) /\ b_pins (f b) = b_pins b) ->
  inv2 (mkA fr (upd h f (a_blks a)) (a_pins a) nf).
Proof.
  intros (H1 & H2 & H3) Hf. split; [|split]; cbn [a_blks a_pins].
  - destruct (nth_error (a_blks a) h) as [b|] eqn:Eb.
    + destruct (upd_split h f _ _ Eb) as (l1 & l2 & E & _ & Hu). rewrite Hu. rewrite E in H1.
      apply Forall_app in H1. destruct H1 as [Ha Hb]. inversion Hb; subst.
      apply Forall_app. split; auto. constructor; auto. apply (Hf b eq_refl).
    + rewrite upd_none; auto.
  - intros h' b Hb. rewrite nth_error_upd in Hb. destruct (Nat.eqb h h') eqn:E.
    + apply Nat.eqb_eq in E. subst h'. destruct (nth_error (a_blks a) h) as [b0|] eqn:E0; [|discriminate].
      inversion Hb; subst b. rewrite (proj2 (Hf b0 eq_refl)). auto.
    + auto.
  - intros p Hp. rewrite upd_length. auto.
Qed.

Lemma inv2_pin a h b f k off :
  inv2 a -> nth_error (a_blks a) h = Some b ->
  use_ok (f b) -> b_pins (f b) = S (b_pins b) ->
  inv2 (mkA (a_free a) (upd h f (a_blks a)) (a_pins a ++ [mkPin h true k off]) (a_nfreed a)).
Proof.
  intros (H1 & H2 & H3) Eb Hu Hp. split; [|split]; cbn [a_blks a_pins].
  - destruct (upd_split h f _ _ Eb) as (l1 & l2 & E & _ & Hu'). rewrite Hu'. rewrite E in H1.
    apply Forall_app in H1. destruct H1 as [Ha Hb]. inversion Hb; subst.
    apply Forall_app. split; auto.
  - intros h' b' Hb. rewrite count_open_app. unfold count_open at 2. cbn.
    rewrite nth_error_upd in Hb. destruct (Nat.eqb h h') eqn:E.
    + apply Nat.eqb_eq in E. subst h'. rewrite Eb in Hb. inversion Hb; subst b'.
      rewrite Hp, (H2 _ _ Eb). cbn. lia.
    + cbn. rewrite (H2 _ _ Hb). lia.
  - intros p Hin. rewrite upd_length. apply in_app_or in Hin. destruct Hin as [Hin|[<-|[]]]; auto.
    cbn. apply nth_error_Some. rewrite Eb. discriminate.
Qed.

Lemma count_open_cons h p l :
  count_open h (p :: l) = ((if Nat.eqb (p_h p) h && p_open p then 1 else 0) + count_open h l)%nat.
Proof. unfold count_open. cbn. destruct (Nat.eqb (p_h p) h && p_open p); reflexivity. Qed.

Lemma count_open_close h p ps pn :
  nth_error ps p = Some pn -> p_open pn = true ->
  count_open h ps = (count_open h (upd p close_pin ps) + (if Nat.eqb (p_h pn) h then 1 else 0))%nat.
Proof.
  intros Ep Ho. destruct (upd_split p close_pin _ _ Ep) as (l1 & l2 & E & _ & Hu).
  rewrite Hu, E, !count_open_app, !count_open_cons. cbn. rewrite Ho.
  destruct (Nat.eqb (p_h pn) h); cbn; lia.
Qed.

Lemma upd_upd {T} i (f g : T -> T) l : upd i g (upd i f l) = upd i (fun x => g (f x)) l.
Proof. revert i; induction l as [|x r IH]; intros [|i]; cbn; auto. f_equal; auto. Qed.

Lemma open_pin_counts a p pn b :
  inv2 a -> nth_error (a_pins a) p = Some pn -> p_open pn = true ->
  nth_error (a_blks a) (p_h pn) = Some b -> (1 <= b_pins b)%nat.
Proof.
  intros (_ & H2 & _) Ep Ho Eb. rewrite (H2 _ _ Eb).
  rewrite (count_open_close (p_h pn) p _ pn Ep Ho), Nat.eqb_refl. lia.
Qed.

Lemma inv2_unpin a b f p pn fr nf :
  inv2 a -> nth_error (a_pins a) p = Some pn -> p_open pn = true ->
  nth_error (a_blks a) (p_h pn) = Some b ->
  use_ok (f b) -> b_pins (f b) = pred (b_pins b) ->
  inv2 (mkA fr (upd (p_h pn) f (a_blks a)) (upd p close_pin (a_pins a)) nf).
Proof.
  intros Hj Ep Ho Eb Hu Hp. pose proof (open_pin_counts _ _ _ _ Hj Ep Ho Eb) as H1p.
  destruct Hj as (H1 & H2 & H3). split; [|split]; cbn [a_blks a_pins].
  - destruct (upd_split (p_h pn) f _ _ Eb) as (l1 & l2 & E & _ & Hu'). rewrite Hu'. rewrite E in H1.
    apply Forall_app in H1. destruct H1 as [Ha Hb]. inversion Hb; subst.
    apply Forall_app. split; auto.
  - intros h' b' Hb. rewrite nth_error_upd in Hb.
    destruct (Nat.eqb (p_h pn) h') eqn:E.
    + apply Nat.eqb_eq in E. subst h'. rewrite Eb in Hb. inversion Hb; subst b'.
      rewrite Hp, (H2 _ _ Eb). rewrite (count_open_close (p_h pn) p _ pn Ep Ho), Nat.eqb_refl. lia.
    + rewrite (H2 _ _ Hb). rewrite (count_open_close h' p _ pn Ep Ho), E. lia.
  - intros q Hq. rewrite upd_length.
    destruct (upd_split p close_pin _ _ Ep) as (l1 & l2 & E & _ & Hu'). rewrite Hu' in Hq.
    apply in_app_or in Hq. destruct Hq as [Hq|[<-|Hq]].
    + apply H3. rewrite E. apply in_or_app. auto.
    + cbn. apply nth_error_Some. rewrite Eb. discriminate.
    + apply H3. rewrite E. apply in_or_app. right. right. exact Hq.
Qed.

Lemma use_ok_nth a h b : inv2 a -> nth_error (a_blks a) h = Some b -> use_ok b.
Proof.
  intros (H1 & _) Eb. rewrite Forall_forall in H1. apply H1. eapply nth_error_In; eauto.
Qed.

Lemma step_inv2 c a o : inv2 a -> okop c a o = true ->
  inv2 (fst (step c a o)) /\ snd (step c a o) <> RPanic.
Proof.
  intros Hj Hok. destruct o; cbn [step]; try (split; [exact Hj|discriminate]).
  - destruct (a_free a) as [|x f']; cbn; [split; [exact Hj|discriminate]|].
    split; [apply inv2_hand; exact Hj|discriminate].
  - destruct (take_at _ _) as [[x f']|]; cbn; [|split; [exact Hj|discriminate]].
    split; [apply inv2_hand; exact Hj|discriminate].
  - cbn in Hok. destruct (nth_error (a_blks a) h) as [b|] eqn:Eb; [|split; [exact Hj|discriminate]].
    pose proof (use_ok_nth _ _ _ Hj Eb) as Hb.
    unfold use_ok in Hb. destruct (b_rel b) eqn:Er; [discriminate|].
    unfold release. replace (b_use b - 1 <? 0) with false by (symmetry; apply Z.ltb_ge; lia).
    cbn. split; [|discriminate]. rewrite upd_upd.
    apply (inv2_upd a); auto. intros b0 Hb0. rewrite Eb in Hb0. inversion Hb0; subst b0.
    split; [|reflexivity]. unfold use_ok. cbn. lia.
  - cbn in Hok. destruct (nth_error (a_blks a) h) as [b|] eqn:Eb; [|split; [exact Hj|discriminate]].
    pose proof (use_ok_nth _ _ _ Hj Eb) as Hb.
    unfold use_ok in Hb. destruct (b_rel b) eqn:Er; [discriminate|].
    replace (b_use b + 1 <=? 1) with false by (symmetry; apply Z.leb_gt; lia).
    cbn. split; [|discriminate].
    apply inv2_pin with (b := b); auto.
    unfold use_ok. cbn. rewrite Er. lia.
  - cbn in Hok. destruct (nth_error (a_blks a) h) as [b|] eqn:Eb; [|split; [exact Hj|discriminate]].
    destruct (size <? 0); [split; [exact Hj|discriminate]|].
    destruct (has_space c b size); cbn [negb]; [|split; [exact Hj|discriminate]].
    pose proof (use_ok_nth _ _ _ Hj Eb) as Hb.
    unfold use_ok in Hb. destruct (b_rel b) eqn:Er; [discriminate|].
    replace (b_use b + 1 <=? 1) with false by (symmetry; apply Z.leb_gt; lia).
    cbn. split; [|discriminate].
    apply inv2_pin with (b := b); auto.
    unfold use_ok. cbn. rewrite Er. lia.
  - destruct (nth_error (a_pins a) p) as [pn|] eqn:Ep; [|split; [exact Hj|discriminate]].
    destruct (p_open pn) eqn:Ho; cbn [negb]; [|split; [exact Hj|discriminate]].
    destruct (nth_error (a_blks a) (p_h pn)) as [b|] eqn:Eb; [|split; [exact Hj|discriminate]].
    pose proof (use_ok_nth _ _ _ Hj Eb) as Hb.
    pose proof (open_pin_counts _ _ _ _ Hj Ep Ho Eb) as Hp.
    unfold use_ok in Hb.
    unfold release. replace (b_use b - 1 <? 0) with false by (symmetry; apply Z.ltb_ge; destruct (b_rel b); lia).
    cbn. split; [|discriminate]. rewrite upd_upd.
    apply (inv2_unpin a b); auto.
    unfold use_ok. cbn. destruct (b_rel b); lia.
Qed.
