(** The C04A monitor (Run/R04A.v) never fires on the model: for EVERY
    geometry and EVERY sequence of calls (also those that break the caller's
    protocol), [mon04A inp (run04A inp) = []].

    The monitor's state is a function [abs] of the model's state as long as the
    caller keeps the protocol; at the first breach the monitor stops. *)
From Coq Require Import List ZArith Bool Lia Permutation Arith.
From BBS Require Import Common.Sx Alloc.BDA Alloc.BDAProofs Run.R04A.
Import ListNotations.
Open Scope Z_scope.

Definition abs_h (c : acfg) (b : blk) : mh := mkMh (b_off b * c_sector c) (b_rel b) (b_pins b).
Definition abs_p (p : pin) : nat * bool := (p_h p, p_open p).
Definition abs (c : acfg) (a : ast) : mst :=
  mkM (map (abs_h c) (a_blks a)) (map abs_p (a_pins a)) [] false.

Lemma zmem_In x l : zmem x l = true <-> In x l.
Proof.
  unfold zmem. rewrite existsb_exists. split.
  - intros (y & Hy & E). apply Z.eqb_eq in E. subst; auto.
  - intros H. exists x. split; auto. apply Z.eqb_refl.
Qed.

Lemma zmem_false x l : zmem x l = false <-> ~ In x l.
Proof. rewrite <- zmem_In. destruct (zmem x l); split; intros; try discriminate; auto. exfalso; auto. Qed.

Lemma regions_b_eq c : regions_b c = map (fun o => o * c_sector c) (regions c).
Proof. unfold regions_b, regions. rewrite map_map. reflexivity. Qed.

Lemma in_scaled s x l : 0 < s -> In (x * s) (map (fun o => o * s) l) <-> In x l.
Proof.
  intros Hs. rewrite in_map_iff. split.
  - intros (y & E & Hy). assert (y = x) by nia. subst; auto.
  - intros H. exists x; auto.
Qed.

Lemma live_regs_abs c a : inv2 a ->
  live_regs (abs c a) = map (fun o => o * c_sector c) (live_offs a).
Proof.
  intros (H1 & _). unfold live_regs, live_offs, abs. cbn [ms_h].
  induction H1 as [|b l Hb Hl IH]; [reflexivity|]. cbn.
  replace (mh_live (abs_h c b)) with (0 <? b_use b).
  - destruct (0 <? b_use b); cbn; rewrite IH; reflexivity.
  - unfold mh_live, abs_h, use_ok in *. cbn. rewrite Hb.
    destruct (b_rel b), (b_pins b); cbn; try reflexivity.
    all: try (apply Z.ltb_lt; lia).
Qed.

Lemma add_viol_nil m : add_viol m [] = m.
Proof. destruct m; unfold add_viol; cbn. rewrite app_nil_r. reflexivity. Qed.

Lemma abs_hand c a x f' wos :
  mkM (ms_h (abs c a) ++ [mkMh (x * c_sector c) false 0]) (ms_p (abs c a)) [] false
  = abs c (mkA f' (a_blks a ++ [mkBlk x 1 wos 0 false 0]) (a_pins a) (a_nfreed a)).
Proof. unfold abs. cbn. rewrite map_app. reflexivity. Qed.

(** a hand-out of a free region is accepted: clauses 1 and 5 *)
Lemma mon_hand_free c a x f' wos : wf_cfg c -> inv c a -> inv2 a -> In x (a_free a) ->
  mon_hand c (abs c a) (x * c_sector c) (c_spb c * c_sector c) (x * c_sector c)
  = abs c (mkA f' (a_blks a ++ [mkBlk x 1 wos 0 false 0]) (a_pins a) (a_nfreed a)).
Proof.
  intros Hc Hi Hj Hx. destruct (free_not_live c a x Hc Hi Hx) as [Hnl Hr].
  unfold mon_hand. rewrite live_regs_abs by exact Hj.
  replace (zmem (x * c_sector c) (map (fun o => o * c_sector c) (live_offs a))) with false.
  2:{ symmetry. apply zmem_false. rewrite in_scaled by apply Hc. exact Hnl. }
  replace (zmem (x * c_sector c) (regions_b c)) with true.
  2:{ symmetry. apply zmem_In. rewrite regions_b_eq, in_scaled by apply Hc. exact Hr. }
  unfold bs_of. rewrite !Z.eqb_refl. cbn [andb app]. rewrite <- abs_hand. reflexivity.
Qed.

Lemma all_live_full c a : wf_cfg c -> inv c a -> inv2 a -> a_free a = [] -> all_live c (abs c a) = true.
Proof.
  intros Hc Hi Hj Hf. unfold all_live. rewrite forallb_forall. intros r Hr.
  rewrite live_regs_abs by exact Hj. rewrite regions_b_eq, in_map_iff in Hr.
  destruct Hr as (x & <- & Hx). apply zmem_In. rewrite in_scaled by apply Hc.
  destruct (region_free_or_live c a x Hi Hx) as [H|H]; auto. rewrite Hf in H. contradiction.
Qed.

(** the location designates a region without live handle <-> the code finds it *)
Lemma want_iff c a off size : wf_cfg c -> inv c a -> inv2 a ->
  zmem off (regions_b c) && (size =? bs_of c) && negb (zmem off (live_regs (abs c a))) = true
  <-> exists x, In x (a_free a) /\ at_match c off size x = true.
Proof.
  intros Hc Hi Hj. rewrite live_regs_abs by exact Hj. rewrite !andb_true_iff, negb_true_iff.
  rewrite zmem_In, zmem_false, Z.eqb_eq, regions_b_eq. unfold at_match, bs_of. split.
  - intros [[Hr Hs] Hl]. rewrite in_map_iff in Hr. destruct Hr as (x & <- & Hx).
    rewrite in_scaled in Hl by apply Hc. exists x. split.
    + destruct (region_free_or_live c a x Hi Hx); auto. contradiction.
    + rewrite Z.eqb_refl. cbn. apply Z.eqb_eq. auto.
  - intros (x & Hx & Hm). rewrite andb_true_iff, !Z.eqb_eq in Hm. destruct Hm as [<- <-].
    destruct (free_not_live c a x Hc Hi Hx) as [Hnl Hr]. rewrite !in_scaled by apply Hc. auto.
Qed.

Lemma nth_abs_h c a h : nth_error (ms_h (abs c a)) h = option_map (abs_h c) (nth_error (a_blks a) h).
Proof. unfold abs. cbn. apply nth_error_map. Qed.

Lemma nth_abs_p c a p : nth_error (ms_p (abs c a)) p = option_map abs_p (nth_error (a_pins a) p).
Proof. unfold abs. cbn. apply nth_error_map. Qed.

(** ---- one call, protocol kept: the monitor follows the model ---- *)
Lemma mon_step_ok c cl a o : wf_cfg c -> inv c a -> inv2 a -> okop c a o = true ->
  mon_step c cl (abs c a) (o, res_ob c (snd (step c a o))) = abs c (fst (step c a o)).
Proof.
  intros Hc Hi Hj Hok. unfold mon_step. cbn [ms_stop abs]. fold (abs c a).
  destruct o; cbn [step].
  - (* NewBlock *)
    destruct (a_free a) as [|x f'] eqn:Ef; cbn [fst snd res_ob].
    + rewrite (all_live_full c a Hc Hi Hj Ef). cbn. apply add_viol_nil.
    + apply mon_hand_free; auto. rewrite Ef. left; reflexivity.
  - (* NewBlockAtLocation *)
    pose proof (want_iff c a off size Hc Hi Hj) as Hw.
    destruct (take_at (at_match c off size) (a_free a)) as [[x f']|] eqn:Et; cbn [fst snd res_ob].
    + destruct (take_at_some _ _ _ _ Et) as [HP Hm].
      assert (Hx : In x (a_free a)) by (eapply Permutation_in; [exact HP|left; reflexivity]).
      replace (zmem off (regions_b c) && (size =? bs_of c) && negb (zmem off (live_regs (abs c a)))) with true
        by (symmetry; apply Hw; eauto).
      unfold at_match in Hm. rewrite andb_true_iff, !Z.eqb_eq in Hm. destruct Hm as [Hm1 Hm2].
      rewrite Hm1, Z.eqb_refl. cbn [andb]. rewrite add_viol_nil. rewrite <- Hm1.
      apply mon_hand_free; auto.
    + destruct (zmem off (regions_b c) && (size =? bs_of c) && negb (zmem off (live_regs (abs c a)))) eqn:E.
      * exfalso. destruct (proj1 Hw eq_refl) as (x & Hx & Hm).
        rewrite (take_at_none _ _ Et x Hx) in Hm. discriminate.
      * apply add_viol_nil.
  - (* Release by the owner *)
    cbn in Hok. unfold on_owned. rewrite nth_abs_h.
    destruct (nth_error (a_blks a) h) as [b|] eqn:Eb; cbn [option_map fst snd res_ob]; [|reflexivity].
    pose proof (use_ok_nth _ _ _ Hj Eb) as Hb. unfold use_ok in Hb.
    cbn [abs_h m_rel]. destruct (b_rel b) eqn:Er; [discriminate|].
    unfold release. replace (b_use b - 1 <? 0) with false by (symmetry; apply Z.ltb_ge; lia).
    cbn [fst snd res_ob a_free a_blks a_pins a_nfreed]. unfold set_hs, abs. cbn. f_equal.
    rewrite upd_upd. symmetry. apply map_upd. intros x. reflexivity.
  - (* Get *)
    cbn in Hok. unfold on_owned. rewrite nth_abs_h.
    destruct (nth_error (a_blks a) h) as [b|] eqn:Eb; cbn [option_map fst snd res_ob]; [|reflexivity].
    pose proof (use_ok_nth _ _ _ Hj Eb) as Hb. unfold use_ok in Hb.
    cbn [abs_h m_rel]. destruct (b_rel b) eqn:Er; [discriminate|].
    replace (b_use b + 1 <=? 1) with false by (symmetry; apply Z.leb_gt; lia).
    cbn [fst snd res_ob]. unfold abs. cbn. rewrite map_app. f_equal.
    symmetry. apply map_upd. intros x. reflexivity.
  - (* HasSpace / Put *)
    cbn in Hok. unfold on_owned. rewrite nth_abs_h.
    destruct (nth_error (a_blks a) h) as [b|] eqn:Eb; cbn [option_map fst snd res_ob]; [|reflexivity].
    destruct (size <? 0); cbn [fst snd res_ob orb]; [reflexivity|].
    destruct (has_space c b size); cbn [negb fst snd res_ob]; [|reflexivity].
    pose proof (use_ok_nth _ _ _ Hj Eb) as Hb. unfold use_ok in Hb.
    cbn [abs_h m_rel]. destruct (b_rel b) eqn:Er; [discriminate|].
    replace (b_use b + 1 <=? 1) with false by (symmetry; apply Z.leb_gt; lia).
    cbn [fst snd res_ob]. unfold abs. cbn. rewrite map_app. f_equal.
    symmetry. apply map_upd. intros x. reflexivity.
  - (* finish a reader / writer *)
    rewrite nth_abs_p.
    destruct (nth_error (a_pins a) p) as [pn|] eqn:Ep; cbn [option_map fst snd res_ob]; [|reflexivity].
    unfold abs_p at 1. destruct (p_open pn) eqn:Ho; cbn [negb fst snd res_ob]; [|reflexivity].
    destruct (nth_error (a_blks a) (p_h pn)) as [b|] eqn:Eb.
    2:{ exfalso. destruct Hj as (_ & _ & H3). apply nth_error_None in Eb.
        specialize (H3 pn (nth_error_In _ _ Ep)). lia. }
    pose proof (use_ok_nth _ _ _ Hj Eb) as Hb.
    pose proof (open_pin_counts _ _ _ _ Hj Ep Ho Eb) as Hp. unfold use_ok in Hb.
    unfold release.
    replace (b_use b - 1 <? 0) with false by (symmetry; apply Z.ltb_ge; destruct (b_rel b); lia).
    cbn [fst snd res_ob a_free a_blks a_pins a_nfreed]. unfold abs. cbn. f_equal.
    + rewrite upd_upd. symmetry. apply map_upd. intros x. reflexivity.
    + symmetry. apply map_upd. intros x. reflexivity.
  - reflexivity.
Qed.

(** ---- the first breach of the protocol: the monitor stops, silently ---- *)
Lemma mon_step_breach c cl a o : okop c a o = false ->
  let m := mon_step c cl (abs c a) (o, res_ob c (snd (step c a o))) in
  ms_stop m = true /\ ms_viol m = [].
Proof.
  intros Hok. unfold mon_step. cbn [ms_stop abs]. fold (abs c a).
  destruct o; cbn in Hok; try discriminate; cbn [step].
  - unfold on_owned. rewrite nth_abs_h.
    destruct (nth_error (a_blks a) h) as [b|] eqn:Eb; [|discriminate].
    cbn [option_map abs_h m_rel]. destruct (b_rel b); [|discriminate]. split; reflexivity.
  - unfold on_owned. rewrite nth_abs_h.
    destruct (nth_error (a_blks a) h) as [b|] eqn:Eb; [|discriminate].
    cbn [option_map abs_h m_rel]. destruct (b_rel b); [|discriminate]. split; reflexivity.
  - unfold on_owned. rewrite nth_abs_h.
    destruct (nth_error (a_blks a) h) as [b|] eqn:Eb; [|discriminate].
    rewrite !orb_false_iff, !negb_false_iff in Hok. destruct Hok as [[Hr Hs] Hh].
    rewrite Hs, Hh. cbn [negb option_map abs_h m_rel]. rewrite Hr.
    destruct (b_use b + 1 <=? 1); cbn [snd res_ob]; split; reflexivity.
Qed.

Lemma fold_stopped c cl l m : ms_stop m = true -> fold_left (mon_step c cl) l m = m.
Proof.
  intros H. induction l as [|[o b] l IH]; cbn [fold_left]; [reflexivity|].
  unfold mon_step at 2. rewrite H. exact IH.
Qed.

Lemma exec_cons c a o ops a' r : step c a o = (a', r) -> r <> RPanic ->
  exec c a (o :: ops) = (let (a'', rs) := exec c a' ops in (a'', r :: rs)).
Proof. intros H Hr. cbn [exec]. rewrite H. destruct r; try reflexivity. congruence. Qed.

Lemma exec_cons_head c a o ops : exists af rs,
  exec c a (o :: ops) = (af, snd (step c a o) :: rs).
Proof.
  cbn [exec]. destruct (step c a o) as [a' r]. destruct (exec c a' ops) as [a'' rs].
  destruct r; cbn [snd]; eauto.
Qed.

(** ---- all calls of a case ---- *)
Lemma mon_exec c : wf_cfg c -> forall ops a, inv c a -> inv2 a ->
  let m := fold_left (mon_step c 2) (combine ops (map (res_ob c) (snd (exec c a ops)))) (abs c a) in
  ms_viol m = [] /\
  (ms_stop m = true \/
   (panicked (snd (exec c a ops)) = false /\ m = abs c (fst (exec c a ops))
    /\ inv c (fst (exec c a ops)) /\ inv2 (fst (exec c a ops)))).
Proof.
  intros Hc. induction ops as [|o ops IH]; intros a Hi Hj.
  - cbn. split; auto.
  - destruct (okop c a o) eqn:Hok.
    + pose proof (mon_step_ok c 2 a o Hc Hi Hj Hok) as Hm.
      pose proof (step_inv c a o Hc Hi) as Hi'.
      destruct (step_inv2 c a o Hj Hok) as [Hj' Hnp].
      destruct (step c a o) as [a' r] eqn:Es. cbn [fst snd] in *.
      rewrite (exec_cons c a o ops a' r Es Hnp).
      specialize (IH a' Hi' Hj'). destruct (exec c a' ops) as [a'' rs]. cbn [fst snd] in *.
      cbn [map combine fold_left]. rewrite Hm.
      destruct IH as [Hv [Hs|(Hp & He & Hi2 & Hj2)]]; split; auto.
      right. split; auto. cbn. destruct r; auto. congruence.
    + destruct (mon_step_breach c 2 a o Hok) as [Hs Hv].
      destruct (exec_cons_head c a o ops) as (af & rs & E). rewrite E. cbn [snd map combine fold_left].
      rewrite fold_stopped by exact Hs. auto.
Qed.

(** ---- the drain at the end ---- *)
Lemma mon_drain c : wf_cfg c -> forall fuel a, inv c a -> inv2 a -> (length (a_free a) < fuel)%nat ->
  let ds := map (res_ob c) (snd (drain c fuel a)) in
  fold_left (mon_step c 3) (combine (repeat ONew (length ds)) ds) (abs c a) = abs c (fst (drain c fuel a))
  /\ is_fail (last ds BJunk) = true.
Proof.
  intros Hc. induction fuel as [|f IH]; intros a Hi Hj Hl; [lia|].
  pose proof (mon_step_ok c 3 a ONew Hc Hi Hj eq_refl) as Hm.
  pose proof (step_inv c a ONew Hc Hi) as Hi'.
  destruct (step_inv2 c a ONew Hj eq_refl) as [Hj' _].
  cbn [drain]. cbn [step] in *. destruct (a_free a) as [|x f'] eqn:Ef.
  - cbn [fst snd map length repeat combine fold_left last] in *. rewrite Hm. split; reflexivity.
  - cbn [fst snd] in *.
    set (a' := mkA f' (a_blks a ++ [mkBlk x 1 0 0 false 0]) (a_pins a) (a_nfreed a)) in *.
    assert (Hl' : (length (a_free a') < f)%nat) by (cbn in *; lia).
    specialize (IH a' Hi' Hj' Hl'). destruct (drain c f a') as [a'' rs]. cbn [fst snd] in *.
    cbn [map length repeat combine fold_left]. rewrite Hm. destruct IH as [IH1 IH2]. split; auto.
    destruct (map (res_ob c) rs) as [|d ds'] eqn:Ed; [discriminate|].
    cbn [res_ob last]. exact IH2.
Qed.

Theorem mon_dev_silent c ops : wf_cfg c ->
  mon_dev c ops (fst (fst (run_dev c ops))) (snd (fst (run_dev c ops))) = [].
Proof.
  intros Hc. unfold run_dev.
  pose proof (mon_exec c Hc ops (init_a c) (inv_init c) (inv2_init c)) as H.
  destruct (exec c (init_a c) ops) as [a rs]. cbn [fst snd] in H. destruct H as [Hv Hs].
  destruct (panicked rs) eqn:Ep.
  - cbn [fst snd]. unfold mon_dev. change mon_init with (abs c (init_a c)).
    cbn [length repeat combine fold_left last is_fail].
    rewrite Hv. destruct Hs as [Hs|(Hp & _)]; [rewrite Hs; reflexivity|discriminate].
  - destruct (drain c (S (c_n c)) a) as [a' ds] eqn:Ed. cbn [fst snd]. unfold mon_dev.
    change mon_init with (abs c (init_a c)).
    destruct Hs as [Hs|(_ & He & Hi & Hj)].
    + rewrite fold_stopped by exact Hs. rewrite Hv, Hs. reflexivity.
    + assert (Hl : (length (a_free a) < S (c_n c))%nat) by (pose proof (inv_free_length c a Hi); lia).
      pose proof (mon_drain c Hc (S (c_n c)) a Hi Hj Hl) as Hd. rewrite Ed in Hd. cbn [fst snd] in Hd.
      destruct Hd as [Hd1 Hd2]. rewrite He, Hd1, Hd2. reflexivity.
Qed.

(** ---- the in-memory allocator ---- *)
Lemma mon_mem_silent bs c ops a :
  flat_map mon_mem_step (combine ops (map (res_ob c) (snd (exec_mem bs a ops)))) = [].
Proof.
  revert a. induction ops as [|o ops IH]; intros a; [reflexivity|].
  cbn [exec_mem]. destruct (step_mem bs a o) as [a' r] eqn:Es.
  specialize (IH a'). destruct (exec_mem bs a' ops) as [a'' rs]. cbn [fst snd] in *.
  cbn [map combine flat_map]. rewrite IH, app_nil_r.
  destruct o; cbn [step_mem] in Es.
  - inversion Es; reflexivity.
  - inversion Es; reflexivity.
  - destruct (nth_error _ _); inversion Es; reflexivity.
  - destruct (nth_error _ _); inversion Es; reflexivity.
  - destruct (nth_error _ _); [|inversion Es; reflexivity].
    destruct (_ <? _); [inversion Es; reflexivity|]. destruct (negb _); inversion Es; reflexivity.
  - destruct (nth_error _ _); [|inversion Es; reflexivity].
    destruct (negb _); inversion Es; reflexivity.
  - inversion Es; reflexivity.
Qed.

(** ---- the statement on sx ---- *)
Lemma dec_enc_ob b : dec_ob (enc_ob b) = b.
Proof. destruct b; try reflexivity; cbn; try destruct ok; reflexivity. Qed.

Lemma dec_enc_obs l : map dec_ob (map enc_ob l) = l.
Proof. rewrite map_map. rewrite <- (map_id l) at 2. apply map_ext. exact dec_enc_ob. Qed.

Theorem mon04A_silent inp : mon04A inp (run04A inp) = [].
Proof.
  unfold mon04A, run04A. destruct (wf_cfgb (dec_cfg inp)) eqn:Hw; cbn [negb]; [|reflexivity].
  assert (Hc : wf_cfg (dec_cfg inp)).
  { unfold wf_cfgb in Hw. rewrite andb_true_iff, !Z.ltb_lt in Hw. exact Hw. }
  destruct (dec_kind inp =? 0).
  - pose proof (mon_dev_silent (dec_cfg inp) (dec_ops inp) Hc) as H.
    destruct (run_dev (dec_cfg inp) (dec_ops inp)) as [[os ds] [[x y] z]]. cbn [fst snd] in H.
    unfold enc_run. cbn [sx_nth sx_list nth]. rewrite !dec_enc_obs, H. reflexivity.
  - unfold run_mem.
    pose proof (mon_mem_silent (c_spb (dec_cfg inp) * c_sector (dec_cfg inp)) (dec_cfg inp) (dec_ops inp)
                  (mkA [] [] [] 0)) as H.
    destruct (exec_mem _ _ _) as [a rs]. cbn [fst snd] in H.
    unfold enc_run. cbn [sx_nth sx_list nth sx_Z]. rewrite !dec_enc_obs. unfold mon_mem. rewrite H. reflexivity.
Qed.
