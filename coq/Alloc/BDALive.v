(** Model-level statements of the C04A clauses and the liveness of clause 3:
    callers that keep the protocol never see a panic and use counts are exact;
    a block's region returns to the free list as soon as its owner has released
    it and its readers / writers are finished, and NewBlock() then hands it out
    within (length of the free list) calls. *)
From Coq Require Import List ZArith Bool Lia Permutation Arith.
From BBS Require Import Alloc.BDA Alloc.BDAProofs.
Import ListNotations.
Open Scope Z_scope.

(** the caller keeps the protocol along the whole sequence *)
Fixpoint proto_ok (c : acfg) (a : ast) (ops : list op) : bool :=
  match ops with
  | [] => true
  | o :: r => okop c a o && proto_ok c (fst (step c a o)) r
  end.

Definition steps (c : acfg) (a : ast) (ops : list op) : ast :=
  fold_left (fun a o => fst (step c a o)) ops a.

Lemma exec_proto c : wf_cfg c -> forall ops a, inv c a -> inv2 a -> proto_ok c a ops = true ->
  fst (exec c a ops) = steps c a ops /\ panicked (snd (exec c a ops)) = false
  /\ inv c (steps c a ops) /\ inv2 (steps c a ops).
Proof.
  intros Hc. induction ops as [|o ops IH]; intros a Hi Hj Hp; [cbn; auto|].
  cbn [proto_ok] in Hp. apply andb_true_iff in Hp. destruct Hp as [Hok Hp].
  pose proof (step_inv c a o Hc Hi) as Hi'. destruct (step_inv2 c a o Hj Hok) as [Hj' Hnp].
  cbn [exec steps fold_left]. destruct (step c a o) as [a' r]. cbn [fst snd] in *.
  specialize (IH a' Hi' Hj' Hp). fold (steps c a' ops).
  destruct (exec c a' ops) as [a'' rs]. cbn [fst snd] in *.
  destruct r; cbn [fst snd panicked existsb orb]; try exact IH. congruence.
Qed.

(** indices of the readers / writers of block [h] that are not finished *)
Fixpoint open_idx (h : nat) (i : nat) (ps : list pin) : list nat :=
  match ps with
  | [] => []
  | p :: r => (if Nat.eqb (p_h p) h && p_open p then [i] else []) ++ open_idx h (S i) r
  end.

Lemma open_idx_length h i ps : length (open_idx h i ps) = count_open h ps.
Proof.
  revert i; induction ps as [|p r IH]; intros i; [reflexivity|].
  cbn [open_idx]. rewrite app_length, IH, count_open_cons.
  destruct (Nat.eqb (p_h p) h && p_open p); reflexivity.
Qed.

Lemma open_idx_in h i ps q : In q (open_idx h i ps) ->
  (i <= q)%nat /\ exists pn, nth_error ps (q - i) = Some pn /\ p_h pn = h /\ p_open pn = true.
Proof.
  revert i; induction ps as [|p r IH]; intros i H; [contradiction|].
  cbn [open_idx] in H. apply in_app_or in H. destruct H as [H|H].
  - destruct (Nat.eqb (p_h p) h && p_open p) eqn:E; [|contradiction].
    destruct H as [<-|[]]. split; [lia|]. rewrite Nat.sub_diag. exists p. cbn.
    apply andb_true_iff in E. destruct E as [E1 E2]. apply Nat.eqb_eq in E1. auto.
  - destruct (IH _ H) as (Hl & pn & Hn & Hh & Ho). split; [lia|]. exists pn.
    replace (q - i)%nat with (S (q - S i)) by lia. cbn. auto.
Qed.

Lemma open_idx_NoDup h i ps : NoDup (open_idx h i ps).
Proof.
  revert i; induction ps as [|p r IH]; intros i; [constructor|].
  cbn [open_idx]. destruct (Nat.eqb (p_h p) h && p_open p); cbn [app]; [|apply IH].
  constructor; [|apply IH]. intros H. apply open_idx_in in H. lia.
Qed.

(** Release-type calls only add to the free list *)
Lemma fin_free_mono c a p x : In x (a_free a) -> In x (a_free (fst (step c a (OFin p)))).
Proof.
  intros H. cbn [step]. destruct (nth_error (a_pins a) p) as [pn|]; auto.
  destruct (negb (p_open pn)); auto. destruct (nth_error (a_blks a) (p_h pn)) as [b|]; auto.
  unfold release. destruct (b_use b - 1 <? 0); auto. cbn.
  destruct (b_use b - 1 =? 0); auto. apply in_or_app; auto.
Qed.

(** finishing the readers / writers of a block its owner has released *)
Lemma finish_pins c : forall ps a h b,
  inv2 a -> nth_error (a_blks a) h = Some b -> b_rel b = true ->
  b_pins b = length ps -> NoDup ps -> ps <> [] ->
  (forall p, In p ps -> exists pn, nth_error (a_pins a) p = Some pn /\ p_h pn = h /\ p_open pn = true) ->
  In (b_off b) (a_free (steps c a (map OFin ps))).
Proof.
  induction ps as [|p ps IH]; intros a h b Hj Eb Hr Hn Hnd Hne Hps; [congruence|].
  destruct (Hps p (or_introl eq_refl)) as (pn & Ep & Hh & Ho). subst h.
  pose proof (use_ok_nth _ _ _ Hj Eb) as Hu. unfold use_ok in Hu. rewrite Hr in Hu.
  destruct (step_inv2 c a (OFin p) Hj eq_refl) as [Hj' _].
  cbn [map steps fold_left]. fold (steps c (fst (step c a (OFin p))) (map OFin ps)).
  assert (Es : step c a (OFin p) =
               (mkA (if b_use b - 1 =? 0 then a_free a ++ [b_off b] else a_free a)
                    (upd (p_h pn) unpin_blk (upd (p_h pn) (set_use (b_use b - 1)) (a_blks a)))
                    (upd p close_pin (a_pins a))
                    (if b_use b - 1 =? 0 then S (a_nfreed a) else a_nfreed a),
                RFin (p_kind pn) (p_off pn))).
  { cbn [step]. rewrite Ep, Ho, Eb. cbn [negb]. unfold release.
    replace (b_use b - 1 <? 0) with false by (symmetry; apply Z.ltb_ge; cbn [length] in Hn; lia).
    reflexivity. }
  rewrite Es in *. cbn [fst] in *. inversion Hnd as [|p' ps' Hnin Hnd']; subst.
  destruct ps as [|q ps].
  - cbn. cbn [length] in Hn. replace (b_use b - 1 =? 0) with true by (symmetry; apply Z.eqb_eq; lia).
    apply in_or_app. right. left. reflexivity.
  - set (a' := mkA _ _ _ _) in *.
    apply (IH a' (p_h pn) (unpin_blk (set_use (b_use b - 1) b))); auto.
    + unfold a'. cbn [a_blks]. rewrite upd_upd, nth_error_upd, Nat.eqb_refl, Eb. reflexivity.
    + cbn. rewrite Hn. reflexivity.
    + discriminate.
    + intros p' Hp'. destruct (Hps p' (or_intror Hp')) as (pn' & Ep' & Hh' & Ho').
      exists pn'. unfold a'. cbn [a_pins]. rewrite nth_error_upd.
      destruct (Nat.eqb p p') eqn:E; auto. apply Nat.eqb_eq in E. subst p'. contradiction.
Qed.

Lemma steps_fin_mono c ps a x : In x (a_free a) -> In x (a_free (steps c a (map OFin ps))).
Proof.
  revert a; induction ps as [|p ps IH]; intros a H; [exact H|].
  cbn [map steps fold_left]. apply IH. apply fin_free_mono. exact H.
Qed.

(** liveness of clause 3, at any state a protocol-keeping caller can reach *)
Lemma release_then_finish c a h b :
  inv c a -> inv2 a -> nth_error (a_blks a) h = Some b -> b_rel b = false ->
  let ext := ORel h :: map OFin (open_idx h 0 (a_pins a)) in
  proto_ok c a ext = true /\ In (b_off b) (a_free (steps c a ext)).
Proof.
  intros Hi Hj Eb Hr ext. split.
  - cbn [ext proto_ok okop]. rewrite Eb, Hr. cbn [negb andb].
    generalize (fst (step c a (ORel h))). induction (open_idx h 0 (a_pins a)); intros; cbn; auto.
  - pose proof (use_ok_nth _ _ _ Hj Eb) as Hu. unfold use_ok in Hu. rewrite Hr in Hu.
    assert (Hok : okop c a (ORel h) = true) by (cbn; rewrite Eb, Hr; reflexivity).
    destruct (step_inv2 c a (ORel h) Hj Hok) as [Hj' _].
    cbn [ext steps fold_left]. fold (steps c (fst (step c a (ORel h))) (map OFin (open_idx h 0 (a_pins a)))).
    assert (Es : step c a (ORel h) =
                 (mkA (if b_use b - 1 =? 0 then a_free a ++ [b_off b] else a_free a)
                      (upd h set_rel (upd h (set_use (b_use b - 1)) (a_blks a))) (a_pins a)
                      (if b_use b - 1 =? 0 then S (a_nfreed a) else a_nfreed a), RRel)).
    { cbn [step]. rewrite Eb. unfold release.
      replace (b_use b - 1 <? 0) with false by (symmetry; apply Z.ltb_ge; lia). reflexivity. }
    rewrite Es in *. cbn [fst] in *.
    destruct Hj as (_ & H2 & _). pose proof (H2 _ _ Eb) as Hc. rewrite <- (open_idx_length h 0) in Hc.
    destruct (open_idx h 0 (a_pins a)) as [|q qs] eqn:Eo.
    + cbn. cbn [length] in Hc. replace (b_use b - 1 =? 0) with true by (symmetry; apply Z.eqb_eq; lia).
      apply in_or_app. right. left. reflexivity.
    + set (a' := mkA _ _ _ _) in *.
      apply (finish_pins c (q :: qs) a' h (set_rel (set_use (b_use b - 1) b))); auto.
      * unfold a'. cbn [a_blks]. rewrite upd_upd, nth_error_upd, Nat.eqb_refl, Eb. reflexivity.
      * rewrite <- Eo. apply open_idx_NoDup.
      * discriminate.
      * intros p Hp. rewrite <- Eo in Hp. apply open_idx_in in Hp.
        rewrite Nat.sub_0_r in Hp. unfold a'. cbn [a_pins]. apply Hp.
Qed.

(** NewBlock() until it fails hands out exactly the free list, front first *)
Lemma drain_hands_out_free c : forall fuel a, (length (a_free a) < fuel)%nat ->
  snd (drain c fuel a) = map RHanded (a_free a) ++ [RUnavail].
Proof.
  induction fuel as [|f IH]; intros a Hl; [lia|].
  cbn [drain step]. destruct (a_free a) as [|x f'] eqn:Ef; [reflexivity|].
  set (a' := mkA f' _ _ _). specialize (IH a'). cbn [a_free a'] in IH. cbn [length] in Hl.
  destruct (drain c f a') as [a'' rs]. cbn [snd] in *. rewrite IH by lia. reflexivity.
Qed.

(** ---- what each call may return, at reachable states ---- *)
Lemma new_block_unavailable_iff c a : snd (step c a ONew) = RUnavail <-> a_free a = [].
Proof. cbn [step]. destruct (a_free a); cbn; split; intros; try reflexivity; discriminate. Qed.

Lemma no_free_all_live c a : inv c a -> a_free a = [] -> Permutation (live_offs a) (regions c).
Proof. intros [HP _] E. rewrite E in HP. exact HP. Qed.

Lemma at_location_iff c a off size wo : wf_cfg c -> inv c a ->
  (exists x, snd (step c a (OAt off size wo)) = RHanded x)
  <-> (exists x, In x (regions c) /\ ~ In x (live_offs a)
                 /\ x * c_sector c = off /\ c_spb c * c_sector c = size).
Proof.
  intros Hc Hi. cbn [step]. split.
  - intros (x & H). destruct (take_at _ _) as [[y f']|] eqn:Et; [|discriminate].
    cbn in H. inversion H; subst y. destruct (take_at_some _ _ _ _ Et) as [HP Hm].
    assert (Hx : In x (a_free a)) by (eapply Permutation_in; [exact HP|left; reflexivity]).
    destruct (free_not_live c a x Hc Hi Hx). unfold at_match in Hm.
    rewrite andb_true_iff, !Z.eqb_eq in Hm. exists x. tauto.
  - intros (x & Hr & Hl & Ho & Hs). destruct (take_at _ _) as [[y f']|] eqn:Et; [cbn; eauto|].
    exfalso. destruct (region_free_or_live c a x Hi Hr) as [Hf|]; [|contradiction].
    pose proof (take_at_none _ _ Et x Hf) as Hm. unfold at_match in Hm.
    rewrite Ho, Hs, !Z.eqb_refl in Hm. discriminate.
Qed.

Lemma at_location_region c a off size wo a' x :
  step c a (OAt off size wo) = (a', RHanded x) -> x * c_sector c = off.
Proof.
  cbn [step]. destruct (take_at _ _) as [[y f']|] eqn:Et; [|discriminate]. intros H. inversion H; subst.
  destruct (take_at_some _ _ _ _ Et) as [_ Hm]. unfold at_match in Hm.
  rewrite andb_true_iff, !Z.eqb_eq in Hm. tauto.
Qed.

(** ---- the statements of Props/C04A.v ---- *)
Definition reach (c : acfg) (ops : list op) : ast := fst (exec c (init_a c) ops).

Lemma reach_inv c ops : wf_cfg c -> inv c (reach c ops).
Proof. intros Hc. apply exec_inv; [exact Hc|apply inv_init]. Qed.

Lemma accounting_reach c ops : wf_cfg c ->
  let a := reach c ops in
  NoDup (a_free a ++ live_offs a) /\ Permutation (a_free a ++ live_offs a) (regions c).
Proof.
  intros Hc a. pose proof (reach_inv c ops Hc) as Hi. split; [apply (inv_NoDup c); auto|apply Hi].
Qed.

Lemma use_exact_reach c ops : wf_cfg c -> proto_ok c (init_a c) ops = true ->
  let a := reach c ops in
  panicked (snd (exec c (init_a c) ops)) = false /\
  forall h b, nth_error (a_blks a) h = Some b ->
    b_use b = (if b_rel b then 0 else 1) + Z.of_nat (count_open h (a_pins a)).
Proof.
  intros Hc Hp a. destruct (exec_proto c Hc ops _ (inv_init c) (inv2_init c) Hp) as (E & Hn & _ & Hj).
  split; [exact Hn|]. intros h b Eb. unfold a, reach in *. rewrite E in Eb |- *.
  pose proof (use_ok_nth _ _ _ Hj Eb) as Hu. destruct Hj as (_ & H2 & _).
  rewrite <- (H2 _ _ Eb). exact Hu.
Qed.

Lemma handout_reach c ops o a' x : wf_cfg c ->
  step c (reach c ops) o = (a', RHanded x) ->
  In x (regions c) /\ ~ In x (live_offs (reach c ops)).
Proof.
  intros Hc H. apply handed_is_free in H.
  destruct (free_not_live c _ x Hc (reach_inv c ops Hc) H). auto.
Qed.

Lemma unavailable_reach c ops : wf_cfg c ->
  let a := reach c ops in
  (snd (step c a ONew) = RUnavail -> Permutation (live_offs a) (regions c))
  /\ ((exists x, In x (regions c) /\ ~ In x (live_offs a)) ->
      exists y, snd (step c a ONew) = RHanded y /\ ~ In y (live_offs a)).
Proof.
  intros Hc a. pose proof (reach_inv c ops Hc) as Hi. fold a in Hi. split.
  - intros H. apply new_block_unavailable_iff in H. apply no_free_all_live; auto.
  - intros (x & Hr & Hl). destruct (region_free_or_live c a x Hi Hr) as [Hf|]; [|contradiction].
    cbn [step]. destruct (a_free a) as [|y f'] eqn:Ef; [contradiction|]. exists y. split; [reflexivity|].
    apply (free_not_live c a y Hc Hi). rewrite Ef. left; reflexivity.
Qed.

Lemma at_location_reach c ops off size wo : wf_cfg c ->
  let a := reach c ops in
  ((exists x, snd (step c a (OAt off size wo)) = RHanded x)
   <-> (exists x, In x (regions c) /\ ~ In x (live_offs a)
                  /\ x * c_sector c = off /\ c_spb c * c_sector c = size))
  /\ (forall x, snd (step c a (OAt off size wo)) = RHanded x -> x * c_sector c = off).
Proof.
  intros Hc a. split; [apply at_location_iff; [exact Hc|apply reach_inv; exact Hc]|].
  intros x H. destruct (step c a (OAt off size wo)) as [a' r] eqn:Es. cbn in H. subst r.
  eapply at_location_region; eauto.
Qed.

Lemma liveness_reach c ops h b : wf_cfg c -> proto_ok c (init_a c) ops = true ->
  let a := reach c ops in
  nth_error (a_blks a) h = Some b -> b_rel b = false ->
  let ext := ORel h :: map OFin (open_idx h 0 (a_pins a)) in
  let a' := fst (exec c a ext) in
  panicked (snd (exec c a ext)) = false
  /\ In (b_off b) (a_free a')
  /\ In (RHanded (b_off b)) (snd (drain c (S (c_n c)) a')).
Proof.
  intros Hc Hp.
  destruct (exec_proto c Hc ops _ (inv_init c) (inv2_init c) Hp) as (E & _ & Hi & Hj).
  intros a. subst a. unfold reach. rewrite E. intros Eb Hr. cbv zeta.
  destruct (release_then_finish c _ h b Hi Hj Eb Hr) as [Hp' Hin].
  destruct (exec_proto c Hc _ _ Hi Hj Hp') as (E' & Hn' & Hi' & _).
  rewrite E'. split; [exact Hn'|]. split; [exact Hin|].
  rewrite drain_hands_out_free by (pose proof (inv_free_length c _ Hi'); lia).
  apply in_or_app. left. apply in_map. exact Hin.
Qed.

Lemma in_memory_calls bs a :
  snd (step_mem bs a ONew) = RMem
  /\ forall off size wo, snd (step_mem bs a (OAt off size wo)) = RAtFail.
Proof. split; reflexivity. Qed.

(** clause 1 in the monitor's vocabulary: under a protocol-keeping caller,
    every earlier handle on the region handed out is dead — released by its
    owner and without unfinished reader / writer *)
Lemma live_block_in_live_offs a h b :
  nth_error (a_blks a) h = Some b -> 0 < b_use b -> In (b_off b) (live_offs a).
Proof.
  intros Eb Hu. unfold live_offs. apply in_map. apply filter_In. split.
  - eapply nth_error_In; eauto.
  - apply Z.ltb_lt. exact Hu.
Qed.

Lemma handout_handles_dead c ops o a' x h b : wf_cfg c -> proto_ok c (init_a c) ops = true ->
  step c (reach c ops) o = (a', RHanded x) ->
  nth_error (a_blks (reach c ops)) h = Some b -> b_off b = x ->
  b_rel b = true /\ count_open h (a_pins (reach c ops)) = O.
Proof.
  intros Hc Hp Hs Eb Ho.
  destruct (handout_reach c ops o a' x Hc Hs) as [_ Hnl].
  destruct (use_exact_reach c ops Hc Hp) as [_ Hu]. specialize (Hu h b Eb).
  assert (Hle : ~ 0 < b_use b).
  { intros H. apply Hnl. rewrite <- Ho. eapply live_block_in_live_offs; eauto. }
  destruct (b_rel b); split; try reflexivity; lia.
Qed.
