(** S-expressions: the one data format shared by the Go harness, the OCaml
    driver and the extracted models.  Decoders are total; a malformed input
    decodes to defaults and is flagged by [wf] predicates where it matters. *)
From Coq Require Export List ZArith NArith Bool Lia.
Export ListNotations.
Open Scope Z_scope.

Inductive sx : Type :=
| A (z : Z)
| L (l : list sx).

Definition sx_Z (s : sx) : Z := match s with A z => z | L _ => 0 end.
Definition sx_N (s : sx) : N := Z.to_N (sx_Z s).
Definition sx_nat (s : sx) : nat := Z.to_nat (sx_Z s).
Definition sx_bool (s : sx) : bool := negb (Z.eqb (sx_Z s) 0).
Definition sx_list (s : sx) : list sx := match s with A _ => [] | L l => l end.
Definition sx_nth (s : sx) (i : nat) : sx := nth i (sx_list s) (L []).
Definition sx_Zs (s : sx) : list Z := map sx_Z (sx_list s).
Definition sx_Ns (s : sx) : list N := map sx_N (sx_list s).
Definition sx_nats (s : sx) : list nat := map sx_nat (sx_list s).

Definition of_bool (b : bool) : sx := A (if b then 1 else 0).
Definition of_nat (n : nat) : sx := A (Z.of_nat n).
Definition of_N (n : N) : sx := A (Z.of_N n).
Definition of_Zs (l : list Z) : sx := L (map A l).
Definition of_Ns (l : list N) : sx := L (map of_N l).
Definition of_nats (l : list nat) : sx := L (map of_nat l).
Definition of_option {T} (f : T -> sx) (o : option T) : sx :=
  match o with None => L [] | Some x => L [f x] end.

Fixpoint sx_eqb (a b : sx) {struct a} : bool :=
  match a, b with
  | A x, A y => Z.eqb x y
  | L xs, L ys =>
      (fix go (xs ys : list sx) {struct xs} : bool :=
         match xs, ys with
         | [], [] => true
         | x :: xs', y :: ys' => sx_eqb x y && go xs' ys'
         | _, _ => false
         end) xs ys
  | _, _ => false
  end.

(** Verdict returned to the driver by every property's [judge]:
    [L [A agree; A violates; model_output; detail]]. *)
Definition verdict (agree violates : bool) (model detail : sx) : sx :=
  L [of_bool agree; of_bool violates; model; detail].

(** The default judge: deterministic model, structural comparison. *)
Definition judge_det (run : sx -> sx) (mon : sx -> sx -> list Z) (inp obs : sx) : sx :=
  let m := run inp in
  let v := mon inp obs in
  verdict (sx_eqb m obs) (negb (match v with [] => true | _ => false end)) m (of_Zs v).
