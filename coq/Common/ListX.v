(** Small list utilities shared by several models (definitions and lemmas). *)
From Coq Require Import List Arith NArith Lia Permutation.
Import ListNotations.

Fixpoint insert_sorted (n : nat) (l : list nat) : list nat :=
  match l with
  | [] => [n]
  | h :: t => if Nat.ltb n h then n :: l else if Nat.eqb n h then l else h :: insert_sorted n t
  end.
Definition dedup_sort (l : list nat) : list nat := fold_right insert_sorted [] l.

Lemma insert_sorted_in n x l : In x (insert_sorted n l) <-> x = n \/ In x l.
Proof.
  induction l as [|h t IH]; cbn [insert_sorted].
  - cbn. intuition.
  - destruct (Nat.ltb n h); [cbn; intuition|].
    destruct (Nat.eqb n h) eqn:He.
    + apply Nat.eqb_eq in He. subst. cbn. intuition.
    + cbn. rewrite IH. intuition.
Qed.

Lemma dedup_sort_in x l : In x (dedup_sort l) <-> In x l.
Proof.
  induction l as [|h t IH]; cbn [dedup_sort fold_right]; [reflexivity|].
  fold (dedup_sort t). rewrite insert_sorted_in, IH. cbn. intuition.
Qed.

Inductive strictly_sorted : list nat -> Prop :=
| ss_nil : strictly_sorted []
| ss_one x : strictly_sorted [x]
| ss_cons x y l : x < y -> strictly_sorted (y :: l) -> strictly_sorted (x :: y :: l).

Lemma insert_sorted_sorted n l : strictly_sorted l -> strictly_sorted (insert_sorted n l).
Proof.
  induction 1 as [|x|x y l Hxy Hs IH]; cbn [insert_sorted].
  - constructor.
  - destruct (Nat.ltb n x) eqn:H1; [apply Nat.ltb_lt in H1; repeat constructor; assumption|].
    destruct (Nat.eqb n x) eqn:H2; [constructor|].
    apply Nat.ltb_ge in H1. apply Nat.eqb_neq in H2. repeat constructor. lia.
  - destruct (Nat.ltb n x) eqn:H1; [apply Nat.ltb_lt in H1; repeat (constructor; try assumption)|].
    destruct (Nat.eqb n x) eqn:H2; [constructor; assumption|].
    apply Nat.ltb_ge in H1. apply Nat.eqb_neq in H2.
    cbn [insert_sorted] in IH.
    destruct (Nat.ltb n y) eqn:H3.
    + apply Nat.ltb_lt in H3. constructor; [lia|]. constructor; assumption.
    + destruct (Nat.eqb n y) eqn:H4.
      * constructor; assumption.
      * constructor; assumption.
Qed.

Lemma dedup_sort_sorted l : strictly_sorted (dedup_sort l).
Proof.
  induction l as [|h t IH]; cbn [dedup_sort fold_right]; [constructor|].
  apply insert_sorted_sorted. exact IH.
Qed.
