(** Round-trip and equality facts about the shared data format [sx], used by
    the "monitor is silent on the model" proofs of C06, C11 and C12. *)
From Coq Require Import List ZArith NArith Bool Arith Lia.
From BBS Require Import Common.Sx.
Import ListNotations.
Open Scope Z_scope.

Lemma sx_eqb_refl : forall s, sx_eqb s s = true.
Proof.
  fix IH 1. intros [z|l].
  - cbn. apply Z.eqb_refl.
  - cbn. induction l as [|x l IHl]; [reflexivity|]. rewrite IH. exact IHl.
Qed.

Lemma sx_eqb_eq : forall a b, sx_eqb a b = true -> a = b.
Proof.
  fix IH 1. intros [x|xs] [y|ys]; cbn; intros H; try discriminate.
  - apply Z.eqb_eq in H. subst. reflexivity.
  - f_equal. revert ys H. induction xs as [|a xs IHl]; intros [|b ys] H; try discriminate; [reflexivity|].
    apply andb_true_iff in H. destruct H as [H1 H2].
    rewrite (IH a b H1). f_equal. apply IHl. exact H2.
Qed.

Lemma sx_eqb_iff a b : sx_eqb a b = true <-> a = b.
Proof. split; [apply sx_eqb_eq|intros ->; apply sx_eqb_refl]. Qed.

Lemma sx_nat_of_nat n : sx_nat (of_nat n) = n.
Proof. unfold sx_nat, of_nat. cbn [sx_Z]. apply Nat2Z.id. Qed.
Lemma sx_N_of_N n : sx_N (of_N n) = n.
Proof. unfold sx_N, of_N. cbn [sx_Z]. apply N2Z.id. Qed.
Lemma sx_bool_of_bool b : sx_bool (of_bool b) = b.
Proof. destruct b; reflexivity. Qed.
Lemma sx_nats_of_nats l : sx_nats (of_nats l) = l.
Proof.
  unfold sx_nats, of_nats. cbn [sx_list]. rewrite map_map.
  induction l as [|x l IH]; [reflexivity|]. cbn [map]. rewrite sx_nat_of_nat, IH. reflexivity.
Qed.
Lemma sx_Ns_of_Ns l : sx_Ns (of_Ns l) = l.
Proof.
  unfold sx_Ns, of_Ns. cbn [sx_list]. rewrite map_map.
  induction l as [|x l IH]; [reflexivity|]. cbn [map]. rewrite sx_N_of_N, IH. reflexivity.
Qed.
Lemma sx_Zs_of_Zs l : sx_Zs (of_Zs l) = l.
Proof.
  unfold sx_Zs, of_Zs. cbn [sx_list]. rewrite map_map.
  induction l as [|x l IH]; [reflexivity|]. cbn [map]. f_equal. exact IH.
Qed.

(** ---- the verdict of a judge: "agree" and "violates" fields ---- *)
Definition judged_agree (v : sx) : bool := sx_bool (sx_nth v 0).
Definition judged_violates (v : sx) : bool := sx_bool (sx_nth v 1).

Lemma verdict_fields a v m d : judged_agree (verdict a v m d) = a /\ judged_violates (verdict a v m d) = v.
Proof.
  unfold judged_agree, judged_violates, verdict, sx_nth. cbn [sx_list nth]. rewrite !sx_bool_of_bool.
  split; reflexivity.
Qed.

(** for the default judge: a monitor that is silent on the model never fires
    on an observation the judge accepts as agreeing with the model *)
Lemma judge_det_agree_not_violates (run : sx -> sx) (mon : sx -> sx -> list Z) inp obs :
  mon inp (run inp) = [] ->
  judged_agree (judge_det run mon inp obs) = true -> judged_violates (judge_det run mon inp obs) = false.
Proof.
  intros Hm. unfold judge_det. cbv zeta.
  destruct (verdict_fields (sx_eqb (run inp) obs) (negb (match mon inp obs with [] => true | _ => false end))
              (run inp) (of_Zs (mon inp obs))) as [-> ->].
  intros Ha. apply sx_eqb_eq in Ha. subst obs. rewrite Hm. reflexivity.
Qed.
