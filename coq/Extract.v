(** Extraction of the executable models and monitors.  ExtrOcamlBasic only:
    bool, option, list, prod, unit, sumbool map to OCaml's; N, Z, positive and
    nat stay Coq inductives.  No Extract Constant. *)
From Coq Require Import extraction.Extraction extraction.ExtrOcamlBasic.
From BBS Require Import Common.Sx Run.R12 Run.R18.
Extraction "bbs.ml" Z.add Z.mul Z.opp sx_eqb judge12 judge18.
