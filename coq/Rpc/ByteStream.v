(** C14 — model of the ByteStream service of pkg/blobstore/grpcservers
    (byte_stream_server.go) on top of the validating consumers of
    pkg/blobstore/buffer.  Definitions only.

    A request stream is a list of WriteRequest messages followed by a terminal
    ([TEof]: the client half-closed; [TErr c]: Recv fails with gRPC code c).
    A ChunkReader / io.Reader is described by the "script" it yields when read
    to the end: the chunks and the final non-nil error (io.EOF or a code).
    The hash function, the decompressor and the compressor are arguments.

    The zstd paths are modelled as REPAIRED (findings F2 and F6): the first
    write_offset of a compressed upload is compared with 0, and a compressed
    read honours (and validates) read_offset. *)
From Coq Require Import List ZArith Bool Lia.
Import ListNotations.
Open Scope Z_scope.

Definition bytes := list Z.
Definition blen (b : bytes) : Z := Z.of_nat (length b).

(** gRPC codes that the code under study produces itself. *)
Definition cOK : Z := 0.
Definition cUnknown : Z := 2.
Definition cInvalidArgument : Z := 3.
Definition cNotFound : Z := 5.
Definition cUnimplemented : Z := 12.
Definition cInternal : Z := 13.

Record wmsg := mkW { w_off : Z; w_data : bytes; w_fin : bool }.
Inductive term := TEof | TErr (c : Z).
Inductive rterm := REof | RErr (c : Z).
Definition script := (list bytes * rterm)%type.

(** A digest as far as validation is concerned: hash value and size. *)
Record dig := mkD { d_hash : Z; d_size : Z }.

(** Compressor named by the resource name, after parsing (parsing itself is
    C20): identity, zstd, another known compressor (the service answers
    UNIMPLEMENTED), or a name the parser rejects with the given code. *)
Inductive rname :=
| RIdentity (d : dig)
| RZstd (d : dig)
| ROther
| RBad (c : Z).

Section WithHash.
Variable hashf : bytes -> Z.

Definition valid (d : dig) (x : bytes) : bool :=
  (blen x =? d_size d) && (hashf x =? d_hash d).

(** ** casValidatingChunkReader + toByteSliceViaChunkReader
    [src] is the code of the buffer's Source (INVALID_ARGUMENT for
    UserProvided, INTERNAL for BackendProvided). *)

(** maybeFinalize once bytesRemaining = 0: trailing chunks must be empty. *)
Fixpoint drain (src : Z) (cs : list bytes) (r : rterm) : option Z :=
  match cs with
  | [] => match r with REof => None | RErr c => Some c end
  | c :: cs' => if 0 <? blen c then Some src else drain src cs' r
  end.

Fixpoint vconsume (src : Z) (d : dig) (rem : Z) (acc : bytes) (cs : list bytes) (r : rterm)
  : bytes + Z :=
  if rem <=? 0 then
    match drain src cs r with
    | Some c => inr c
    | None => if hashf acc =? d_hash d then inl acc else inr src
    end
  else
    match cs with
    | [] => match r with REof => inr src | RErr c => inr c end
    | c :: cs' =>
        if rem <? blen c then inr src
        else vconsume src d (rem - blen c) (acc ++ c) cs' r
    end.

(** ToByteSlice(maximum) of a CAS buffer backed by a chunk reader. *)
Definition to_byte_slice (src : Z) (d : dig) (maxsz : Z) (s : script) : bytes + Z :=
  if maxsz <? d_size d then inr cInvalidArgument
  else vconsume src d (d_size d) [] (fst s) (snd s).

(** ** The backend of the harness: Put either consumes the buffer to
    completion (mode 0) and stores it iff that succeeds, or discards the
    buffer and fails with the given code. *)
Definition backend_max : Z := 1048576.

Record wres := mkWres { wr_code : Z; wr_alts : list Z; wr_committed : Z; wr_stored : option bytes }.
Definition wfail (c : Z) : wres := mkWres c [] 0 None.

(** ** Identity uploads: byteStreamWriteServerChunkReader *)
Fixpoint id_recv (woff : Z) (fin : bool) (ms : list wmsg) (t : term) : script :=
  match ms with
  | [] => ([], match t with
               | TEof => if fin then REof else RErr cInvalidArgument
               | TErr c => RErr c
               end)
  | m :: ms' =>
      if fin then ([], RErr cInvalidArgument)              (* "Client closed stream twice" *)
      else if negb (w_off m =? woff) then ([], RErr cInvalidArgument)
      else let '(cs, r) := id_recv (woff + blen (w_data m)) (w_fin m) ms' t in
           (w_data m :: cs, r)
  end.

Definition write_identity (pm : Z) (d : dig) (first : wmsg) (rest : list wmsg) (t : term) : wres :=
  if negb (w_off first =? 0) then wfail cInvalidArgument      (* setRequest on the first message *)
  else if negb (pm =? 0) then wfail pm
  else
    let '(cs, r) := id_recv (blen (w_data first)) (w_fin first) rest t in
    (* the first message's data is handed out only when non-empty *)
    let cs' := if 0 <? blen (w_data first) then w_data first :: cs else cs in
    match to_byte_slice cInvalidArgument d backend_max (cs', r) with
    | inl x => mkWres 0 [] (d_size d) (Some x)
    | inr c => wfail c
    end.

(** ** zstd uploads: zstdWriteStreamReader -> decoder -> casValidatingReader.
    What the decoder makes of a complete compressed stream: all of it decodes
    ([DOk]); it decodes to [x] and then ends inside a frame or frame header
    (io.ErrUnexpectedEOF, [DTrunc]); or it is damaged ([DBad]).
    casValidatingReader's final end-of-file probe treats io.ErrUnexpectedEOF
    like io.EOF, so a [DTrunc] stream whose decoded bytes are exactly the
    object is accepted — the stored bytes match the digest all the same. *)
Inductive dres := DOk (x : bytes) | DTrunc (x : bytes) | DBad.
Definition decoded (r : dres) : option bytes :=
  match r with DOk x | DTrunc x => Some x | DBad => None end.
Variable decompress : bytes -> dres.

(** Compressed bytes handed to the decoder, how the stream ends for the
    decoder, and the final nextOffset. *)
Fixpoint z_recv (noff : Z) (fin : bool) (ms : list wmsg) (t : term) : bytes * rterm * Z :=
  if fin then ([], REof, noff)
  else match ms with
       | [] => ([], match t with TEof => RErr cInvalidArgument | TErr c => RErr c end, noff)
       | m :: ms' =>
           if negb (w_off m =? noff) then ([], RErr cInvalidArgument, noff)
           else let '(b, r, n) := z_recv (noff + blen (w_data m)) (w_fin m) ms' t in
                (w_data m ++ b, r, n)
       end.

(** [wr_alts]: the outcome is either (code, committed, stored) or a failure
    with one of the alternative codes and nothing stored (the order in which
    the decoder and the validating reader notice two different problems is
    library behaviour). *)
Definition write_zstd (pm : Z) (d : dig) (first : wmsg) (rest : list wmsg) (t : term) : wres :=
  if negb (w_off first =? 0) then wfail cInvalidArgument      (* repaired: finding F2 *)
  else if negb (pm =? 0) then wfail pm
  else if backend_max <? d_size d then wfail cInvalidArgument
  else
    let '(b, r, n) := z_recv (blen (w_data first)) (w_fin first) rest t in
    let c := w_data first ++ b in
    match r with
    | REof =>
        match decompress c with
        | DOk x => if valid d x then mkWres 0 [] n (Some x) else wfail cInvalidArgument
        | DTrunc x =>
            if valid d x then mkWres 0 [cUnknown; cInvalidArgument] n (Some x)
            else if blen x <? d_size d then mkWres cUnknown [cInvalidArgument] 0 None
            else mkWres cInvalidArgument [cUnknown] 0 None
        (* a frame error surfaces as a non-status error (UNKNOWN); the bytes decoded
           before it may already have failed validation (INVALID_ARGUMENT) *)
        | DBad => mkWres cUnknown [cInvalidArgument] 0 None
        end
    | RErr e =>
        (* the bytes decoded before the stream error may already have failed
           validation, or the frame may be damaged before it *)
        mkWres e [cInvalidArgument; cUnknown] 0 None
    end.

Definition write (pm : Z) (rn : rname) (ms : list wmsg) (t : term) : wres :=
  match ms with
  | [] => match t with TEof => wfail cInvalidArgument | TErr c => wfail c end
  | first :: rest =>
      match rn with
      | RBad c => wfail c
      | ROther => wfail cUnimplemented
      | RIdentity d => write_identity pm d first rest t
      | RZstd d => write_zstd pm d first rest t
      end
  end.

(** ** Reads.  The backend's answer for the digest: its bytes or a code. *)
Fixpoint chunks_fuel (fuel : nat) (n : nat) (x : bytes) : list bytes :=
  match fuel with
  | O => []
  | S f => match x with
           | [] => []
           | _ => firstn n x :: chunks_fuel f n (skipn n x)
           end
  end.
Definition chunks_of (n : nat) (x : bytes) : list bytes := chunks_fuel (length x) n x.

Definition offset_ok (content : bytes) (k : Z) : bool := (0 <=? k) && (k <=? blen content).

(** Result of a Read: code and the messages sent. *)
Definition apply_sendfail (sendfail : option (nat * Z)) (cs : list bytes) : Z * list bytes :=
  match sendfail with
  | Some (j, c) => if Nat.ltb j (length cs) then (c, firstn j cs) else (0, cs)
  | None => (0, cs)
  end.

Definition read_identity (g : bytes + Z) (k : Z) (chunk : nat) (sendfail : option (nat * Z))
  : Z * list bytes :=
  match g with
  | inr c => (c, [])
  | inl content =>
      if offset_ok content k
      then apply_sendfail sendfail (chunks_of chunk (skipn (Z.to_nat k) content))
      else (cInvalidArgument, [])
  end.

(** zstd read (repaired, finding F6): the compressed form of the suffix, cut
    into messages by the encoder ([pieces]: how many bytes each Write call
    of the encoder carries is the library's business). *)
Variable compress : bytes -> bytes.

Fixpoint cut (pieces : list nat) (x : bytes) : list bytes :=
  match pieces with
  | [] => match x with [] => [] | _ => [x] end
  | p :: ps => match x with
               | [] => []
               | _ => firstn (S p) x :: cut ps (skipn (S p) x)
               end
  end.

Definition read_zstd (g : bytes + Z) (k : Z) (pieces : list nat) (sendfail : option (nat * Z))
  : Z * list bytes :=
  match g with
  | inr c => (c, [])
  | inl content =>
      if offset_ok content k
      then apply_sendfail sendfail (cut pieces (compress (skipn (Z.to_nat k) content)))
      else (cInvalidArgument, [])
  end.

Definition read (rn : rname) (limit : Z) (get : dig -> bytes + Z) (k : Z) (chunk : nat)
    (pieces : list nat) (sendfail : option (nat * Z)) : Z * list bytes :=
  if negb (limit =? 0) then (cUnimplemented, [])
  else match rn with
       | RBad c => (c, [])
       | ROther => (cUnimplemented, [])
       | RIdentity d => read_identity (get d) k chunk sendfail
       | RZstd d => read_zstd (get d) k pieces sendfail
       end.

End WithHash.
