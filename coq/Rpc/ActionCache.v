(** The Action Cache through the repository's gRPC client and server
    (grpcclients/ac_blob_access.go in front of grpcservers/action_cache_server.go)
    over a backend keyed by the full digest.

    An Action Cache key is (instance name, digest function, hash, size); the
    hash is abstracted to (number of hex digits, identity): two hashes are
    equal iff both components are.  The Action Cache is not content
    addressed: nothing relates the value to the key.

    Digest functions (pkg/digest/bare_function.go):
      1 MD5 (32 hex digits)  2 SHA1 (40)  3 SHA256 (64)  4 SHA384 (96)
      5 SHA512 (128)  6 BLAKE3 (64)  7 SHA256TREE (64)  8 GITSHA1 (40)
      0 = UNKNOWN (the request does not name a function), anything else:
      unsupported. *)
From BBS Require Import Common.Sx.

Record ackey := mkK { k_inst : Z; k_fn : Z; k_len : Z; k_hi : Z; k_size : Z }.

Definition ackey_eqb (a b : ackey) : bool :=
  (k_inst a =? k_inst b) && (k_fn a =? k_fn b) && (k_len a =? k_len b)
  && (k_hi a =? k_hi b) && (k_size a =? k_size b).

(** hex digits of a digest function's hashes; None: not a supported function *)
Definition fn_len (f : Z) : option Z :=
  if f =? 1 then Some 32 else if f =? 2 then Some 40 else if f =? 3 then Some 64
  else if f =? 4 then Some 96 else if f =? 5 then Some 128
  else if f =? 6 then Some 64 else if f =? 7 then Some 64 else if f =? 8 then Some 40
  else None.

(** getBareFunction, case DigestFunction_UNKNOWN: inference from the hash length *)
Definition infer_fn (len : Z) : option Z :=
  if len =? 32 then Some 1 else if len =? 40 then Some 2 else if len =? 64 then Some 3
  else if len =? 96 then Some 4 else if len =? 128 then Some 5 else None.

(** getBareFunction *)
Definition get_bare_function (fn len : Z) : option Z :=
  if fn =? 0 then infer_fn len
  else match fn_len fn with Some _ => Some fn | None => None end.

Definition cInvalidArgument : Z := 3.
Definition cNotFoundAC : Z := 5.

(** The server's digest of a request (both RPCs): NewInstanceName,
    InstanceName.GetDigestFunction(in.DigestFunction, len(hash)),
    Function.NewDigestFromProto (hash length of the function, size >= 0;
    hashes are hexadecimal in this model).  [inst_ok]: which instance names
    are valid. *)
Definition server_digest (inst_ok : Z -> bool) (q : ackey) : Z + ackey :=
  if negb (inst_ok (k_inst q)) then inl cInvalidArgument
  else match get_bare_function (k_fn q) (k_len q) with
       | None => inl cInvalidArgument
       | Some f =>
           match fn_len f with
           | None => inl cInvalidArgument
           | Some l =>
               if negb (k_len q =? l) then inl cInvalidArgument
               else if k_size q <? 0 then inl cInvalidArgument
               else inr (mkK (k_inst q) f (k_len q) (k_hi q) (k_size q))
           end
       end.

(** the backend: a map from keys to values (exit codes of ActionResults) *)
Definition acstore := list (ackey * Z).
Definition ac_get (s : acstore) (k : ackey) : option Z :=
  match find (fun e => ackey_eqb (fst e) k) s with Some e => Some (snd e) | None => None end.
Definition ac_put (s : acstore) (k : ackey) (v : Z) : acstore :=
  (k, v) :: filter (fun e => negb (ackey_eqb (fst e) k)) s.

(** a request the backend receives: (false, key) = Put, (true, key) = Get *)
Definition acreq := (bool * ackey)%type.

(** result of an operation: status, value (0 unless a successful Get), the
    requests the backend received *)
Record acres := mkR { r_code : Z; r_val : Z; r_reqs : list acreq }.

(** UpdateActionResult / GetActionResult on the server; [q] is the request:
    k_fn is the digest_function field as sent *)
Definition server_update (inst_ok : Z -> bool) (st : acstore) (q : ackey) (v : Z) : acstore * acres :=
  match server_digest inst_ok q with
  | inl c => (st, mkR c 0 [])
  | inr k => (ac_put st k v, mkR 0 0 [(false, k)])
  end.

Definition server_get (inst_ok : Z -> bool) (st : acstore) (q : ackey) : acres :=
  match server_digest inst_ok q with
  | inl c => mkR c 0 []
  | inr k => match ac_get st k with
             | Some v => mkR 0 v [(true, k)]
             | None => mkR cNotFoundAC 0 [(true, k)]
             end
  end.

(** The client (acBlobAccess.Put / Get): the request carries the digest's
    instance name, ITS DIGEST FUNCTION, hash and size.  The caller hands in a
    digest.Digest, i.e. a well-formed key ([key_wf]). *)
Definition client_request (k : ackey) : ackey := k.
Definition client_put (inst_ok : Z -> bool) (st : acstore) (k : ackey) (v : Z) : acstore * acres :=
  server_update inst_ok st (client_request k) v.
Definition client_get (inst_ok : Z -> bool) (st : acstore) (k : ackey) : acres :=
  server_get inst_ok st (client_request k).

Definition key_wf (inst_ok : Z -> bool) (k : ackey) : bool :=
  inst_ok (k_inst k)
  && match fn_len (k_fn k) with Some l => k_len k =? l | None => false end
  && (0 <=? k_size k).
