(** Action Cache client∘server: identity on keys, round trip, separation of
    digest functions, the server's handling of the digest_function field. *)
From Coq Require Import List ZArith Bool Lia.
From BBS Require Import Common.Sx Rpc.ActionCache.
Import ListNotations.
Open Scope Z_scope.

Lemma ackey_eqb_eq a b : ackey_eqb a b = true <-> a = b.
Proof.
  unfold ackey_eqb. destruct a, b. cbn. rewrite !andb_true_iff, !Z.eqb_eq. split.
  - intros [[[[-> ->] ->] ->] ->]. reflexivity.
  - intro H. inversion H. auto.
Qed.

Lemma ackey_eqb_refl a : ackey_eqb a a = true.
Proof. apply ackey_eqb_eq. reflexivity. Qed.

Lemma ackey_eqb_neq a b : a <> b -> ackey_eqb a b = false.
Proof. intro H. destruct (ackey_eqb a b) eqn:E; [apply ackey_eqb_eq in E; contradiction|reflexivity]. Qed.

(** ** the backend is a map *)
Lemma ac_get_put_same st k v : ac_get (ac_put st k v) k = Some v.
Proof. unfold ac_get, ac_put. cbn. rewrite ackey_eqb_refl. reflexivity. Qed.

Lemma find_filter_other (st : acstore) k k' :
  k <> k' ->
  find (fun e => ackey_eqb (fst e) k') (filter (fun e => negb (ackey_eqb (fst e) k)) st)
  = find (fun e => ackey_eqb (fst e) k') st.
Proof.
  intro H. induction st as [|[a x] st IH]; [reflexivity|]. cbn.
  destruct (ackey_eqb a k) eqn:E1; cbn.
  - apply ackey_eqb_eq in E1. subst a. rewrite (ackey_eqb_neq _ _ H). exact IH.
  - destruct (ackey_eqb a k'); [reflexivity|exact IH].
Qed.

Lemma ac_get_put_other st k k' v : k <> k' -> ac_get (ac_put st k v) k' = ac_get st k'.
Proof.
  intro H. unfold ac_get, ac_put. cbn. rewrite (ackey_eqb_neq _ _ H), (find_filter_other _ _ _ H). reflexivity.
Qed.

(** ** the server's digest *)
Lemma fn_len_supported f l : fn_len f = Some l -> 1 <= f <= 8.
Proof.
  unfold fn_len. repeat match goal with |- context [?a =? ?b] => destruct (Z.eqb_spec a b) end;
    intro; try discriminate; lia.
Qed.

(** An explicit, supported digest function is used as is. *)
Lemma get_bare_function_explicit f l len : fn_len f = Some l -> get_bare_function f len = Some f.
Proof.
  intro H. unfold get_bare_function. pose proof (fn_len_supported _ _ H).
  destruct (f =? 0) eqn:E; [apply Z.eqb_eq in E; lia|]. rewrite H. reflexivity.
Qed.

(** client∘server is the identity on keys: the backend is asked for exactly
    the key the caller named. *)
Lemma server_digest_wf inst_ok k : key_wf inst_ok k = true -> server_digest inst_ok (client_request k) = inr k.
Proof.
  unfold key_wf, server_digest, client_request. intro H.
  apply andb_prop in H. destruct H as [H Hs]. apply andb_prop in H. destruct H as [Hi Hl].
  rewrite Hi. cbn [negb]. destruct (fn_len (k_fn k)) as [l|] eqn:El; [|discriminate].
  rewrite (get_bare_function_explicit _ _ _ El), El, Hl. cbn [negb].
  apply Z.leb_le in Hs. destruct (k_size k <? 0) eqn:E; [apply Z.ltb_lt in E; lia|].
  destruct k. reflexivity.
Qed.

(** Whatever the request, the key the server uses is well formed, keeps
    instance name, hash and size, and its function is the requested one
    unless that was UNKNOWN; failures are INVALID_ARGUMENT. *)
Lemma server_digest_inr inst_ok q k :
  server_digest inst_ok q = inr k ->
  key_wf inst_ok k = true /\ k_inst k = k_inst q /\ k_len k = k_len q /\ k_hi k = k_hi q /\ k_size k = k_size q
  /\ (k_fn q <> 0 -> k_fn k = k_fn q) /\ (k_fn q = 0 -> infer_fn (k_len q) = Some (k_fn k)).
Proof.
  unfold server_digest. destruct (inst_ok (k_inst q)) eqn:Ei; cbn [negb]; [|discriminate].
  destruct (get_bare_function (k_fn q) (k_len q)) as [f|] eqn:Eg; [|discriminate].
  destruct (fn_len f) as [l|] eqn:El; [|discriminate].
  destruct (k_len q =? l) eqn:Ell; cbn [negb]; [|discriminate].
  destruct (k_size q <? 0) eqn:Es; [discriminate|]. intro H. inversion H. subst k. cbn.
  unfold key_wf. cbn. rewrite Ei, El, Ell. apply Z.ltb_ge in Es.
  repeat split; auto.
  - apply andb_true_iff. split; [reflexivity|apply Z.leb_le; exact Es].
  - intro Hn. unfold get_bare_function in Eg. destruct (k_fn q =? 0) eqn:E0; [apply Z.eqb_eq in E0; contradiction|].
    destruct (fn_len (k_fn q)); inversion Eg. reflexivity.
  - intro Hz. unfold get_bare_function in Eg. rewrite Hz in Eg. cbn in Eg. exact Eg.
Qed.

Lemma server_digest_inl inst_ok q c : server_digest inst_ok q = inl c -> c = cInvalidArgument.
Proof.
  unfold server_digest. destruct (negb (inst_ok (k_inst q))); [intro H; inversion H; reflexivity|].
  destruct (get_bare_function (k_fn q) (k_len q)) as [f|]; [|intro H; inversion H; reflexivity].
  destruct (fn_len f) as [l|]; [|intro H; inversion H; reflexivity].
  destruct (negb (k_len q =? l)); [intro H; inversion H; reflexivity|].
  destruct (k_size q <? 0); [intro H; inversion H; reflexivity|discriminate].
Qed.

(** Inference only ever yields a legacy function. *)
Lemma infer_fn_legacy len f : infer_fn len = Some f -> 1 <= f <= 5 /\ fn_len f = Some len.
Proof.
  unfold infer_fn. repeat match goal with |- context [?a =? ?b] => destruct (Z.eqb_spec a b) end;
    intro H; try discriminate; inversion H; subst; split; try lia; reflexivity.
Qed.

(** ** client_server_ac_*: round trips *)
Lemma client_put_wf inst_ok st k v :
  key_wf inst_ok k = true -> client_put inst_ok st k v = (ac_put st k v, mkR 0 0 [(false, k)]).
Proof. intro H. unfold client_put, server_update. rewrite (server_digest_wf _ _ H). reflexivity. Qed.

Lemma client_get_wf inst_ok st k :
  key_wf inst_ok k = true ->
  client_get inst_ok st k = match ac_get st k with
                            | Some v => mkR 0 v [(true, k)]
                            | None => mkR cNotFoundAC 0 [(true, k)]
                            end.
Proof. intro H. unfold client_get, server_get. rewrite (server_digest_wf _ _ H). reflexivity. Qed.

Lemma client_server_put_get inst_ok st k v :
  key_wf inst_ok k = true ->
  exists st', client_put inst_ok st k v = (st', mkR 0 0 [(false, k)])
    /\ client_get inst_ok st' k = mkR 0 v [(true, k)].
Proof.
  intro H. exists (ac_put st k v). split; [apply client_put_wf; exact H|].
  rewrite (client_get_wf _ _ _ H), ac_get_put_same. reflexivity.
Qed.

Lemma client_server_put_other inst_ok st k k' v :
  key_wf inst_ok k = true -> key_wf inst_ok k' = true -> k <> k' ->
  client_get inst_ok (fst (client_put inst_ok st k v)) k' = client_get inst_ok st k'.
Proof.
  intros H H' Hn. rewrite (client_put_wf _ _ _ _ H). cbn [fst].
  rewrite !(client_get_wf _ _ _ H'), (ac_get_put_other _ _ _ _ Hn). reflexivity.
Qed.

Lemma client_server_not_found inst_ok st k :
  key_wf inst_ok k = true -> ac_get st k = None -> client_get inst_ok st k = mkR cNotFoundAC 0 [(true, k)].
Proof. intros H Hg. rewrite (client_get_wf _ _ _ H), Hg. reflexivity. Qed.

(** A request without the digest_function field is NOT a substitute for the
    client's request: for BLAKE3, SHA256TREE and GITSHA1 keys the server
    would use another key. *)
Lemma unknown_function_other_key inst_ok k k' :
  key_wf inst_ok k = true -> 6 <= k_fn k <= 8 ->
  server_digest inst_ok (mkK (k_inst k) 0 (k_len k) (k_hi k) (k_size k)) = inr k' ->
  k' <> k /\ 1 <= k_fn k' <= 5.
Proof.
  intros Hwf Hf H. apply server_digest_inr in H. cbn in H.
  destruct H as (_ & _ & _ & _ & _ & _ & Hi). specialize (Hi eq_refl).
  apply infer_fn_legacy in Hi. destruct Hi as [Hr _]. split; [|exact Hr].
  intro E. subst k'. lia.
Qed.

Lemma unknown_function_same_key inst_ok k :
  key_wf inst_ok k = true -> 1 <= k_fn k <= 5 ->
  server_digest inst_ok (mkK (k_inst k) 0 (k_len k) (k_hi k) (k_size k)) = inr k.
Proof.
  unfold key_wf, server_digest. intros H Hf. cbn.
  apply andb_prop in H. destruct H as [H Hs]. apply andb_prop in H. destruct H as [Hi Hl].
  rewrite Hi. cbn [negb]. destruct (fn_len (k_fn k)) as [l|] eqn:El; [|discriminate].
  apply Z.eqb_eq in Hl. apply Z.leb_le in Hs.
  assert (Hinf : infer_fn (k_len k) = Some (k_fn k)).
  { rewrite Hl. unfold fn_len in El.
    repeat match type of El with context [?a =? ?b] => destruct (Z.eqb_spec a b) end;
      try discriminate; try lia; inversion El; subst l; match goal with e : k_fn k = _ |- _ => rewrite e end; reflexivity. }
  unfold get_bare_function. cbn. rewrite Hinf, El, Hl, Z.eqb_refl. cbn [negb].
  destruct (k_size k <? 0) eqn:E; [apply Z.ltb_lt in E; lia|]. rewrite <- Hl. destruct k. reflexivity.
Qed.
