(** C14F — FindMissing of the repository's CAS client
    (grpcclients/cas_blob_access.go, findMissingBlobsInternal) composed with the
    server's FindMissingBlobs ([Batch.find_missing]) when the requested set
    names digests of SEVERAL instance names and digest functions.

    The client partitions the set by digest function (instance name + hash
    algorithm: [qkey]), issues one FindMissingBlobs RPC per partition (in Go
    map order: the order [ks] is an argument), converts every answer back
    with the digest function OF THAT PARTITION and returns the union; the
    first failing RPC ends the call with its error and the empty set.
    Definitions only. *)
From Coq Require Import List ZArith Bool Lia.
From BBS Require Import Rpc.ByteStream Rpc.Batch.
Import ListNotations.
Open Scope Z_scope.

(** A digest qualified by instance name and digest function (both as indices
    into small tables owned by the harness). *)
Record qdig := mkQ { q_inst : Z; q_fn : Z; q_dig : dig }.

Definition pkey := (Z * Z)%type.
Definition qkey (q : qdig) : pkey := (q_inst q, q_fn q).
Definition key_eqb (a b : pkey) : bool := (fst a =? fst b) && (snd a =? snd b).
Definition qdig_eqb (a b : qdig) : bool := key_eqb (qkey a) (qkey b) && dig_eqb (q_dig a) (q_dig b).

(** The distinct partition keys of a request, in order of first occurrence. *)
Fixpoint dedup_keys (ks : list pkey) : list pkey :=
  match ks with
  | [] => []
  | k :: ks' => k :: filter (fun k' => negb (key_eqb k k')) (dedup_keys ks')
  end.
Definition keys (qs : list qdig) : list pkey := dedup_keys (map qkey qs).

Definition partition_of (k : pkey) (qs : list qdig) : list qdig :=
  filter (fun q => key_eqb (qkey q) k) qs.

Definition requalify (k : pkey) (d : dig) : qdig := mkQ (fst k) (snd k) d.

(** One RPC: the server's FindMissingBlobs over the backend restricted to the
    partition's instance name and digest function ([err k]: the backend's
    FindMissing fails with that code for this partition, 0: it answers);
    the answer is converted back with the partition's digest function. *)
Definition part_result (missing : qdig -> bool) (err : pkey -> Z) (qs : list qdig) (k : pkey) : Z * list qdig :=
  let '(c, ds) := find_missing (fun d => missing (requalify k d)) (err k) (map q_dig (partition_of k qs)) in
  (c, map (requalify k) ds).

(** The loop over the partitions: union of the answers, first error wins. *)
Fixpoint client_fm_loop (rs : list (Z * list qdig)) (acc : list qdig) : Z * list qdig :=
  match rs with
  | [] => (0, acc)
  | r :: rs' => if fst r =? 0 then client_fm_loop rs' (acc ++ snd r) else (fst r, [])
  end.

Definition client_find_missing (missing : qdig -> bool) (err : pkey -> Z) (ks : list pkey) (qs : list qdig) : Z * list qdig :=
  client_fm_loop (map (part_result missing err qs) ks) [].

(** The codes of the failing partitions: whichever the map order reaches first is returned. *)
Definition failing_codes (missing : qdig -> bool) (err : pkey -> Z) (ks : list pkey) (qs : list qdig) : list Z :=
  filter (fun c => negb (c =? 0)) (map (fun k => fst (part_result missing err qs k)) ks).
