(** C14 — the repository's client (grpcclients/cas_blob_access.go) composed
    with the server model: message generator for Put, chunk-reader consumer
    for Get.  Definitions only.  The zstd read path of the client is
    modelled as REPAIRED (finding F7): decoded bytes are handed out with a
    nil error and end-of-file is reported by the next call. *)
From Coq Require Import List ZArith Bool Lia.
From BBS Require Import Rpc.ByteStream Rpc.Batch.
Import ListNotations.
Open Scope Z_scope.

(** Messages with running offsets, none finishing. *)
Fixpoint with_offsets (off : Z) (cs : list bytes) : list wmsg :=
  match cs with
  | [] => []
  | c :: cs' => mkW off c false :: with_offsets (off + blen c) cs'
  end.

Definition total_len (cs : list bytes) : Z := blen (concat cs).

(** Put, both compressors: the payload cut into [cs], then an empty message
    carrying finish_write. *)
Definition client_msgs (cs : list bytes) : list wmsg :=
  with_offsets 0 cs ++ [mkW (total_len cs) [] true].

Section WithCodec.
Variable hashf : bytes -> Z.
Variable decompress : bytes -> dres.
Variable compress : bytes -> bytes.

(** [zstd]: compression negotiated.  [pieces]: how the encoder cuts its
    output into Write calls (library behaviour, any list). *)
Definition client_put (zstd : bool) (chunk : nat) (pieces : list nat) (d : dig) (data : bytes) : wres :=
  if valid hashf d data then
    if zstd
    then write hashf decompress 0 (RZstd d) (client_msgs (cut pieces (compress data))) TEof
    else write hashf decompress 0 (RIdentity d) (client_msgs (chunks_of chunk data)) TEof
  else
    (* the upload buffer is an error buffer: the identity path cancels the call,
       the zstd path finishes the (empty) stream *)
    let r := if zstd
             then write hashf decompress 0 (RZstd d) (client_msgs []) TEof
             else write hashf decompress 0 (RIdentity d) [] (TErr 1) in
    mkWres cInvalidArgument [] 0 (wr_stored r).

(** Get: the server's messages feed the client's chunk reader, which feeds
    casValidatingChunkReader (BackendProvided) and ToByteSlice. *)
Definition client_script (zstd : bool) (chunk : nat) (pieces : list nat) (srv : Z * list bytes) : script :=
  let '(code, msgs) := srv in
  if zstd then
    match code, decompress (concat msgs) with
    | 0, DOk x => (cut pieces x, REof)
    | 0, DTrunc x => (cut pieces x, RErr cUnknown)
    | 0, DBad => ([], RErr cUnknown)
    | c, _ => ([], RErr c)
    end
  else (msgs, if code =? 0 then REof else RErr code).

Definition client_get (zstd : bool) (chunk : nat) (spieces cpieces : list nat)
    (get : dig -> bytes + Z) (d : dig) : bytes + Z :=
  let rn := if zstd then RZstd d else RIdentity d in
  let srv := read compress rn 0 get 0 chunk spieces None in
  to_byte_slice hashf cInternal d backend_max (client_script zstd chunk cpieces srv).

End WithCodec.
