(** C14F — the client's FindMissing over several instance names / digest
    functions, composed with the server, answers like the backend. *)
From Coq Require Import List ZArith Bool Lia.
From BBS Require Import Rpc.ByteStream Rpc.Batch Rpc.BatchProofs Rpc.FindMissingMulti.
Import ListNotations.
Open Scope Z_scope.

Lemma key_eqb_eq a b : key_eqb a b = true <-> a = b.
Proof.
  destruct a as [a1 a2], b as [b1 b2]. unfold key_eqb. cbn [fst snd].
  rewrite andb_true_iff, !Z.eqb_eq. split; [intros [-> ->]; reflexivity|intro H; inversion H; auto].
Qed.

Lemma key_eqb_refl a : key_eqb a a = true.
Proof. apply key_eqb_eq. reflexivity. Qed.

Lemma dig_eqb_true_iff a b : dig_eqb a b = true <-> a = b.
Proof.
  destruct a as [h1 s1], b as [h2 s2]. unfold dig_eqb. cbn [d_hash d_size].
  rewrite andb_true_iff, !Z.eqb_eq. split; [intros [-> ->]; reflexivity|intro H; inversion H; auto].
Qed.

Lemma qdig_eqb_eq a b : qdig_eqb a b = true <-> a = b.
Proof.
  unfold qdig_eqb. rewrite andb_true_iff, key_eqb_eq, dig_eqb_true_iff.
  destruct a as [i1 f1 d1], b as [i2 f2 d2]. unfold qkey. cbn [q_inst q_fn q_dig].
  split; [intros [H ->]; inversion H; reflexivity|intro H; inversion H; auto].
Qed.

Lemma requalify_eta q : requalify (qkey q) (q_dig q) = q.
Proof. destruct q. reflexivity. Qed.

Lemma qkey_requalify k d : qkey (requalify k d) = k.
Proof. destruct k. reflexivity. Qed.

Lemma q_dig_requalify k d : q_dig (requalify k d) = d.
Proof. reflexivity. Qed.

(** ** Partitioning *)
Lemma dedup_keys_in k : forall ks, In k (dedup_keys ks) <-> In k ks.
Proof.
  induction ks as [|k0 ks IH]; [reflexivity|]. cbn [dedup_keys In]. rewrite filter_In, IH.
  destruct (key_eqb k0 k) eqn:E.
  - apply key_eqb_eq in E. subst. cbn. tauto.
  - cbn [negb]. split; [tauto|]. intros [H|H]; [left; exact H|right; auto].
Qed.

Lemma dedup_keys_nodup : forall ks, NoDup (dedup_keys ks).
Proof.
  induction ks as [|k0 ks IH]; [constructor|]. cbn [dedup_keys]. constructor.
  - rewrite filter_In. intros [_ H]. rewrite key_eqb_refl in H. discriminate.
  - apply NoDup_filter. exact IH.
Qed.

(** Every requested digest lands in the partition of its own key. *)
Theorem keys_cover qs q : In q qs -> In (qkey q) (keys qs).
Proof. intro H. unfold keys. apply dedup_keys_in. apply in_map. exact H. Qed.

Theorem keys_nodup qs : NoDup (keys qs).
Proof. apply dedup_keys_nodup. Qed.

Theorem keys_only_requested qs k : In k (keys qs) -> exists q, In q qs /\ qkey q = k.
Proof.
  unfold keys. rewrite dedup_keys_in, in_map_iff. intros (q & E & H). exists q. auto.
Qed.

(** One RPC carries digests of a single instance name and digest function. *)
Theorem partition_of_in k qs q : In q (partition_of k qs) <-> In q qs /\ qkey q = k.
Proof. unfold partition_of. rewrite filter_In, key_eqb_eq. reflexivity. Qed.

(** ** One RPC *)
Lemma find_missing_ok_filter missing fmerr ds ms :
  find_missing missing fmerr ds = (0, ms) -> ms = filter missing ds.
Proof.
  unfold find_missing. destruct ds as [|d0 ds']; [intro H; inversion H; reflexivity|].
  destruct (existsb _ _); [discriminate|].
  destruct (fmerr =? 0) eqn:E; cbn [negb]; intro H; inversion H; [reflexivity|].
  subst. rewrite Z.eqb_refl in E. discriminate.
Qed.

Lemma find_missing_err_nil missing fmerr ds c ms :
  find_missing missing fmerr ds = (c, ms) -> c <> 0 -> ms = [].
Proof.
  unfold find_missing. destruct ds as [|d0 ds']; [intros H; inversion H; contradiction|].
  destruct (existsb _ _); [intros H; inversion H; reflexivity|].
  destruct (negb (fmerr =? 0)); intros H; inversion H; [reflexivity|contradiction].
Qed.

Lemma part_result_ok missing err qs k ms :
  part_result missing err qs k = (0, ms) ->
  forall q, In q ms <-> In q qs /\ qkey q = k /\ missing q = true.
Proof.
  unfold part_result.
  destruct (find_missing _ (err k) (map q_dig (partition_of k qs))) as [c ds] eqn:E.
  intro H. inversion H. subst c ms. apply find_missing_ok_filter in E. subst ds. intro q.
  rewrite in_map_iff. split.
  - intros (d & <- & Hd). apply filter_In in Hd. destruct Hd as [Hd Hm].
    apply in_map_iff in Hd. destruct Hd as (q' & <- & Hq'). apply partition_of_in in Hq'.
    destruct Hq' as [Hin Hk]. subst k. rewrite requalify_eta in *. auto.
  - intros (Hin & Hk & Hm). exists (q_dig q). subst k. rewrite requalify_eta. split; [reflexivity|].
    apply filter_In. rewrite requalify_eta. split; [|exact Hm].
    apply in_map. apply partition_of_in. auto.
Qed.

Lemma part_result_err missing err qs k c ms :
  part_result missing err qs k = (c, ms) -> c <> 0 -> ms = [].
Proof.
  unfold part_result.
  destruct (find_missing _ (err k) (map q_dig (partition_of k qs))) as [c' ds] eqn:E.
  intros H Hc. inversion H. subst c' ms. rewrite (find_missing_err_nil _ _ _ _ _ E Hc). reflexivity.
Qed.

(** The status of one RPC: a partition without members is never sent (and
    the server answers OK to an empty request anyway); a negative size is
    INVALID_ARGUMENT (NewDigestFromProto); otherwise the backend's status. *)
Lemma part_result_code missing err qs k :
  fst (part_result missing err qs k) =
  match partition_of k qs with
  | [] => 0
  | _ => if existsb (fun q => d_size (q_dig q) <? 0) (partition_of k qs) then cInvalidArgument else err k
  end.
Proof.
  unfold part_result.
  destruct (partition_of k qs) as [|q0 p] eqn:Ep; [reflexivity|].
  assert (Hex : forall l, existsb (fun d => d_size d <? 0) (map q_dig l)
                = existsb (fun q => d_size (q_dig q) <? 0) l).
  { induction l as [|a l IH]; [reflexivity|]. cbn. rewrite IH. reflexivity. }
  assert (Hfm : forall m e l, l <> [] -> find_missing m e l =
            if existsb (fun d => d_size d <? 0) l then (cInvalidArgument, [])
            else if negb (e =? 0) then (e, []) else (0, filter m l)).
  { intros m e l Hl. destruct l; [congruence|reflexivity]. }
  rewrite Hfm by (cbn; discriminate). rewrite Hex.
  destruct (existsb _ (q0 :: p)); [reflexivity|].
  destruct (err k =? 0) eqn:E; cbn [negb fst]; [|reflexivity]. apply Z.eqb_eq in E. auto.
Qed.

(** ** The loop *)
Lemma client_fm_loop_ok : forall rs acc ms,
  client_fm_loop rs acc = (0, ms) ->
  Forall (fun r => fst r = 0) rs /\ ms = acc ++ concat (map snd rs).
Proof.
  induction rs as [|r rs IH]; intros acc ms H; cbn [client_fm_loop] in H.
  - inversion H. split; [constructor|]. cbn. rewrite app_nil_r. reflexivity.
  - destruct (fst r =? 0) eqn:E.
    + apply Z.eqb_eq in E. destruct (IH _ _ H) as [H1 H2]. split; [constructor; assumption|].
      rewrite H2. cbn [map concat]. rewrite app_assoc. reflexivity.
    + inversion H as [[H0 H1]]. rewrite H0 in E. discriminate.
Qed.

Lemma client_fm_loop_all_ok : forall rs acc,
  Forall (fun r => fst r = 0) rs -> client_fm_loop rs acc = (0, acc ++ concat (map snd rs)).
Proof.
  induction rs as [|r rs IH]; intros acc H; cbn [client_fm_loop map concat].
  - rewrite app_nil_r. reflexivity.
  - inversion H as [|? ? H1 H2]. subst. rewrite H1. cbn [Z.eqb]. rewrite (IH _ H2), app_assoc. reflexivity.
Qed.

Lemma client_fm_loop_code : forall rs acc,
  fst (client_fm_loop rs acc) = hd 0 (filter (fun c => negb (c =? 0)) (map fst rs)).
Proof.
  induction rs as [|r rs IH]; intros acc; [reflexivity|]. cbn [client_fm_loop map filter].
  destruct (fst r =? 0); cbn [negb]; [apply IH|reflexivity].
Qed.

Lemma client_fm_loop_err : forall rs acc c ms,
  client_fm_loop rs acc = (c, ms) -> c <> 0 -> ms = [].
Proof.
  induction rs as [|r rs IH]; intros acc c ms H Hc; cbn [client_fm_loop] in H.
  - inversion H. subst. contradiction.
  - destruct (fst r =? 0); [eapply IH; eauto|]. inversion H. reflexivity.
Qed.

Section Client.
Variable missing : qdig -> bool.   (* the backend's answer, per (instance name, digest function, blob) *)
Variable err : pkey -> Z.          (* the backend's FindMissing status for a partition *)

(** ** find_missing_exact for sets over several instance names: whatever the
    order of the RPCs, whatever the partitions' statuses, an OK answer is
    exactly the set of requested (instance, function, blob) triples that the
    backend reports missing — a blob missing under instance [a] and present
    under instance [b] is reported under [a] and only under [a]. *)
Theorem client_find_missing_exact ks qs ms :
  (forall q, In q qs -> In (qkey q) ks) ->
  client_find_missing missing err ks qs = (0, ms) ->
  forall q, In q ms <-> In q qs /\ missing q = true.
Proof.
  intros Hcov H q. unfold client_find_missing in H. apply client_fm_loop_ok in H.
  destruct H as [Hall ->]. cbn [app]. rewrite in_concat. split.
  - intros (l & Hl & Hq). apply in_map_iff in Hl. destruct Hl as (r & <- & Hr).
    apply in_map_iff in Hr. destruct Hr as (k & <- & Hk).
    destruct (part_result missing err qs k) as [c msk] eqn:E.
    rewrite Forall_forall in Hall. specialize (Hall (c, msk)). cbn [fst] in Hall.
    rewrite Hall in E by (apply in_map_iff; exists k; auto).
    apply (part_result_ok _ _ _ _ _ E) in Hq. tauto.
  - intros [Hin Hm]. pose proof (Hcov q Hin) as Hk.
    destruct (part_result missing err qs (qkey q)) as [c msk] eqn:E.
    exists msk. split.
    + apply in_map_iff. exists (c, msk). split; [reflexivity|]. apply in_map_iff. exists (qkey q). auto.
    + rewrite Forall_forall in Hall. specialize (Hall (c, msk)). cbn [fst] in Hall.
      rewrite Hall in E by (apply in_map_iff; exists (qkey q); auto).
      apply (part_result_ok _ _ _ _ _ E). auto.
Qed.

(** The status: that of the first failing RPC in the order of the loop. *)
Theorem client_find_missing_code ks qs :
  fst (client_find_missing missing err ks qs) = hd 0 (failing_codes missing err ks qs).
Proof.
  unfold client_find_missing, failing_codes. rewrite client_fm_loop_code, map_map. reflexivity.
Qed.

(** A failing call delivers no (partial) answer, and its status is that of
    one of the failing RPCs. *)
Theorem client_find_missing_failure ks qs c ms :
  client_find_missing missing err ks qs = (c, ms) -> c <> 0 ->
  ms = [] /\ In c (failing_codes missing err ks qs).
Proof.
  intros H Hc. split; [eapply client_fm_loop_err; eauto|].
  pose proof (client_find_missing_code ks qs) as Hcode. rewrite H in Hcode. cbn [fst] in Hcode.
  destruct (failing_codes missing err ks qs) as [|c0 l]; cbn [hd] in Hcode; [contradiction|].
  subst. left. reflexivity.
Qed.

(** The order of the RPCs (Go map order) does not matter for which statuses can occur. *)
Theorem failing_codes_order ks ks' qs c :
  (forall k, In k ks <-> In k ks') ->
  In c (failing_codes missing err ks qs) -> In c (failing_codes missing err ks' qs).
Proof.
  intros Hk. unfold failing_codes. rewrite !filter_In, !in_map_iff.
  intros [(k & E & Hin) Hc]. split; [|exact Hc]. exists k. split; [exact E|apply Hk; exact Hin].
Qed.

End Client.

(** ** client_server_find_missing: with a backend that answers (every
    partition OK) and well-formed digests, client and server back to back
    answer OK with exactly the backend's set, for every request and every
    order of the RPCs. *)
Theorem client_server_find_missing missing ks qs :
  (forall q, In q qs -> 0 <= d_size (q_dig q)) ->
  (forall q, In q qs -> In (qkey q) ks) ->
  exists ms, client_find_missing missing (fun _ => 0) ks qs = (0, ms)
    /\ forall q, In q ms <-> In q qs /\ missing q = true.
Proof.
  intros Hsz Hcov.
  assert (Hall : Forall (fun r => fst r = 0) (map (part_result missing (fun _ => 0) qs) ks)).
  { apply Forall_forall. intros r Hr. apply in_map_iff in Hr. destruct Hr as (k & <- & _).
    rewrite part_result_code. destruct (partition_of k qs) as [|q0 p] eqn:Ep; [reflexivity|].
    destruct (existsb _ (q0 :: p)) eqn:Ex; [|reflexivity].
    apply existsb_exists in Ex. destruct Ex as (q & Hq & Hlt). rewrite <- Ep in Hq.
    apply partition_of_in in Hq. destruct Hq as [Hq _]. specialize (Hsz q Hq).
    apply Z.ltb_lt in Hlt. lia. }
  eexists. split; [unfold client_find_missing; apply client_fm_loop_all_ok; exact Hall|].
  apply client_find_missing_exact with (err := fun _ => 0) (ks := ks); [exact Hcov|].
  unfold client_find_missing. apply client_fm_loop_all_ok. exact Hall.
Qed.

(** What goes wrong when answers are mapped back by hash alone (the check's
    seeded witness): a concrete backend and request for which the exact
    answer has two members under different instance names. *)
Example multi_instance_answer :
  let h := mkD 1 12 in
  let qs := [mkQ 0 0 h; mkQ 1 0 h; mkQ 2 0 h] in
  let missing q := negb (q_inst q =? 1) in
  client_find_missing missing (fun _ => 0) (keys qs) qs = (0, [mkQ 0 0 h; mkQ 2 0 h]).
Proof. vm_compute. reflexivity. Qed.
