(** C14 — proofs about the batch RPC models. *)
From Coq Require Import List ZArith Bool Lia.
From BBS Require Import Rpc.ByteStream Rpc.Batch.
Import ListNotations.
Open Scope Z_scope.

Section WithHash.
Variable hashf : bytes -> Z.

Lemma batch_update_length es : length (batch_update hashf es) = length es.
Proof. unfold batch_update. apply map_length. Qed.

(** Entry i gets its own status; it is stored iff the status is OK, and then
    the stored bytes are the entry's data and match its digest. *)
Lemma batch_update_entry_spec d data pm c o :
  batch_update_entry hashf d data pm = (c, o) ->
  (c = 0 <-> o <> None) /\ (forall x, o = Some x -> x = data /\ valid hashf d data = true /\ pm = 0).
Proof.
  unfold batch_update_entry.
  destruct (d_size d <? 0); [intros H; injection H as <- <-; split; [split; [discriminate|congruence]|discriminate]|].
  destruct (pm =? 0) eqn:Ep; cbn [negb].
  - apply Z.eqb_eq in Ep. destruct (valid hashf d data) eqn:Hv; intros H; injection H as <- <-.
    + split; [split; [discriminate|reflexivity]|]. intros x Hx. injection Hx as <-. auto.
    + split; [split; [discriminate|congruence]|discriminate].
  - apply Z.eqb_neq in Ep. intros H; injection H as <- <-. split; [split; [contradiction|congruence]|discriminate].
Qed.

Theorem batch_update_per_entry es i d data pm :
  nth_error es i = Some (d, data, pm) ->
  exists c o, nth_error (batch_update hashf es) i = Some (c, o)
    /\ (c = 0 <-> o <> None)
    /\ (forall x, o = Some x -> x = data /\ valid hashf d data = true).
Proof.
  intros H. unfold batch_update. rewrite nth_error_map, H. cbn.
  destruct (batch_update_entry hashf d data pm) as [c o] eqn:E.
  exists c, o. split; [reflexivity|]. destruct (batch_update_entry_spec _ _ _ _ _ E) as [H1 H2].
  split; [exact H1|]. intros x Hx. destruct (H2 x Hx) as (A & B & _). auto.
Qed.

Theorem batch_update_never_stores_mismatch es c x :
  In (c, Some x) (batch_update hashf es) ->
  exists d data pm, In (d, data, pm) es /\ x = data /\ valid hashf d x = true /\ c = 0.
Proof.
  unfold batch_update. rewrite in_map_iff. intros ([[d data] pm] & E & Hin). cbn in E.
  destruct (batch_update_entry_spec _ _ _ _ _ E) as [H1 H2].
  destruct (H2 x eq_refl) as (-> & Hv & _). exists d, data, pm. repeat split; try assumption.
  apply H1. discriminate.
Qed.

Lemma batch_read_some get maxsz ds rs :
  batch_read get maxsz ds = Some rs -> rs = map (batch_read_entry get) ds.
Proof.
  unfold batch_read. destruct ds as [|d0 ds']; [intros H; injection H as <-; reflexivity|].
  destruct (budget_ok maxsz (d0 :: ds')); [|discriminate]. intros H. injection H as <-. reflexivity.
Qed.

(** BatchReadBlobs over a validating backend: an OK status comes with exactly
    the backend's bytes and they match the digest; any other status with no data. *)
Theorem batch_read_never_delivers_mismatch held maxsz ds rs i d :
  batch_read (fun d => backend_get hashf (held d) d) maxsz ds = Some rs ->
  nth_error ds i = Some d ->
  exists c x, nth_error rs i = Some (c, x)
    /\ (c = 0 -> held d = Some x /\ valid hashf d x = true)
    /\ (c <> 0 -> x = []).
Proof.
  intros H Hn. apply batch_read_some in H. subst rs.
  rewrite nth_error_map, Hn. cbn. unfold batch_read_entry, backend_get.
  destruct (held d) as [x|] eqn:Hh.
  - destruct (valid hashf d x) eqn:Hv.
    + exists 0, x. split; [reflexivity|]. split; [auto|]. intros Hc. contradiction.
    + exists cInternal, []. split; [reflexivity|]. split; [discriminate|reflexivity].
  - exists cNotFound, []. split; [reflexivity|]. split; [discriminate|reflexivity].
Qed.

Theorem batch_read_per_entry get maxsz ds rs :
  batch_read get maxsz ds = Some rs -> length rs = length ds.
Proof. intros H. apply batch_read_some in H. subst rs. apply map_length. Qed.

(** FindMissingBlobs returns exactly the requested digests the backend reports missing. *)
Theorem find_missing_exact missing ds ms :
  find_missing missing 0 ds = (0, ms) ->
  forall d, In d ms <-> In d ds /\ missing d = true.
Proof.
  unfold find_missing. destruct ds as [|d0 ds']; [intros H; injection H as <-; cbn; tauto|].
  destruct (existsb (fun d => d_size d <? 0) (d0 :: ds')); [discriminate|]. cbn [negb Z.eqb].
  intros H. injection H as <-. intros d. apply (filter_In missing d (d0 :: ds')).
Qed.

Theorem find_missing_backend_error missing fmerr ds :
  fmerr <> 0 -> ds <> [] -> snd (find_missing missing fmerr ds) = [].
Proof.
  intros Hf Hd. unfold find_missing. destruct ds as [|d0 ds']; [contradiction|].
  destruct (existsb _ _); [reflexivity|]. destruct (fmerr =? 0) eqn:E; [apply Z.eqb_eq in E; contradiction|]. reflexivity.
Qed.

End WithHash.
