(** C14 — proofs about the ByteStream model. *)
From Coq Require Import List ZArith Bool Lia.
From BBS Require Import Rpc.ByteStream.
Import ListNotations.
Open Scope Z_scope.

Lemma blen_nonneg x : 0 <= blen x.
Proof. unfold blen. lia. Qed.

Lemma blen_app x y : blen (x ++ y) = blen x + blen y.
Proof. unfold blen. rewrite app_length. lia. Qed.

Lemma blen_nil_inv x : blen x = 0 -> x = [].
Proof. unfold blen. destruct x; cbn; [reflexivity|lia]. Qed.

Lemma blen_nil : blen [] = 0.
Proof. reflexivity. Qed.

(** ** Specification notions *)
Fixpoint contiguous (woff : Z) (ms : list wmsg) : Prop :=
  match ms with
  | [] => True
  | m :: ms' => w_off m = woff /\ contiguous (woff + blen (w_data m)) ms'
  end.

(** [fin_ok fin ms]: starting with "finished = fin", the flag is false
    before every message and true after the last one. *)
Fixpoint fin_ok (fin : bool) (ms : list wmsg) : Prop :=
  match ms with
  | [] => fin = true
  | m :: ms' => fin = false /\ fin_ok (w_fin m) ms'
  end.

Definition finished_at_end (ms : list wmsg) : Prop :=
  exists pre l, ms = pre ++ [l] /\ w_fin l = true /\ Forall (fun m => w_fin m = false) pre.

Definition payload (ms : list wmsg) : bytes := concat (map w_data ms).

Lemma fin_ok_finished m ms : fin_ok (w_fin m) ms -> finished_at_end (m :: ms).
Proof.
  revert m. induction ms as [|m' ms IH]; intros m H; cbn in H.
  - exists [], m. cbn. auto.
  - destruct H as [Hf H]. destruct (IH m' H) as (pre & l & E & Hl & Hp).
    exists (m :: pre), l. cbn. rewrite E. split; [reflexivity|]. split; [exact Hl|].
    constructor; assumption.
Qed.

Lemma finished_fin_ok ms : finished_at_end ms -> fin_ok false ms.
Proof.
  intros (pre & l & E & Hl & Hp). subst ms.
  induction Hp as [|m pre Hm Hp IH]; cbn.
  - rewrite Hl. auto.
  - split; [reflexivity|]. rewrite Hm. exact IH.
Qed.

Section WithHash.
Variable hashf : bytes -> Z.
Variable decompress : bytes -> dres.
Variable compress : bytes -> bytes.

(** ** The validating consumer *)
Lemma drain_none src cs r : drain src cs r = None -> r = REof /\ concat cs = [].
Proof.
  induction cs as [|c cs IH]; cbn.
  - destruct r; [auto|discriminate].
  - destruct (0 <? blen c) eqn:E; [discriminate|]. intros H. destruct (IH H) as [-> Hc].
    split; [reflexivity|]. apply Z.ltb_ge in E. pose proof (blen_nonneg c).
    rewrite (blen_nil_inv c) by lia. exact Hc.
Qed.

Lemma vconsume_inl src d cs : forall rem acc r x, 0 <= rem ->
  vconsume hashf src d rem acc cs r = inl x ->
  r = REof /\ x = acc ++ concat cs /\ blen (concat cs) = rem /\ hashf x = d_hash d.
Proof.
  induction cs as [|c cs IH]; intros rem acc r x Hrem H; cbn [vconsume] in H.
  - destruct (rem <=? 0) eqn:E.
    + apply Z.leb_le in E. destruct r; cbn in H; [|discriminate].
      destruct (hashf acc =? d_hash d) eqn:Hh; [|discriminate]. injection H as <-.
      apply Z.eqb_eq in Hh. cbn [concat]. rewrite app_nil_r. repeat split; try assumption. rewrite blen_nil. lia.
    + destruct r; discriminate.
  - destruct (rem <=? 0) eqn:E.
    + apply Z.leb_le in E.
      destruct (drain src (c :: cs) r) eqn:Hd; [discriminate|].
      destruct (drain_none _ _ _ Hd) as [-> Hc].
      destruct (hashf acc =? d_hash d) eqn:Hh; [|discriminate]. injection H as <-.
      apply Z.eqb_eq in Hh. rewrite Hc, app_nil_r. repeat split; try assumption. rewrite blen_nil. lia.
    + apply Z.leb_gt in E. destruct (rem <? blen c) eqn:E2; [discriminate|]. apply Z.ltb_ge in E2.
      apply IH in H; [|lia]. destruct H as (-> & -> & Hl & Hh).
      cbn [concat]. rewrite blen_app, app_assoc. repeat split; try assumption. lia.
Qed.

Lemma drain_empty src cs : concat cs = [] -> drain src cs REof = None.
Proof.
  induction cs as [|c cs IH]; cbn; [reflexivity|]. intros H. apply app_eq_nil in H as [-> H].
  cbn. apply IH, H.
Qed.

Lemma vconsume_complete src d cs : forall rem acc,
  blen (concat cs) = rem -> hashf (acc ++ concat cs) = d_hash d ->
  vconsume hashf src d rem acc cs REof = inl (acc ++ concat cs).
Proof.
  induction cs as [|c cs IH]; intros rem acc Hl Hh; cbn [concat vconsume] in *.
  - rewrite blen_nil in Hl. subst rem. cbn. rewrite app_nil_r in *. rewrite Hh, Z.eqb_refl. reflexivity.
  - destruct (rem <=? 0) eqn:E.
    + apply Z.leb_le in E. rewrite blen_app in Hl. pose proof (blen_nonneg c). pose proof (blen_nonneg (concat cs)).
      assert (Hc : c = []) by (apply blen_nil_inv; lia).
      assert (Hcs : concat cs = []) by (apply blen_nil_inv; lia).
      subst c. cbn. rewrite (drain_empty src cs Hcs). rewrite Hcs, app_nil_r in *.
      rewrite Hh, Z.eqb_refl. reflexivity.
    + apply Z.leb_gt in E. rewrite blen_app in Hl. pose proof (blen_nonneg (concat cs)).
      destruct (rem <? blen c) eqn:E2; [apply Z.ltb_lt in E2; lia|].
      rewrite app_assoc. apply IH; [lia|]. rewrite <- app_assoc. exact Hh.
Qed.

Lemma to_byte_slice_inl src d maxsz s x : 0 <= d_size d ->
  to_byte_slice hashf src d maxsz s = inl x ->
  snd s = REof /\ x = concat (fst s) /\ valid hashf d x = true.
Proof.
  unfold to_byte_slice. intros Hs H. destruct (maxsz <? d_size d); [discriminate|].
  apply vconsume_inl in H; [|exact Hs]. destruct H as (Hr & -> & Hl & Hh). cbn in *.
  repeat split; try assumption. unfold valid. rewrite Hl, Hh, !Z.eqb_refl. reflexivity.
Qed.

Lemma to_byte_slice_complete src d maxsz cs :
  d_size d <= maxsz -> valid hashf d (concat cs) = true ->
  to_byte_slice hashf src d maxsz (cs, REof) = inl (concat cs).
Proof.
  unfold to_byte_slice, valid. intros Hm Hv. apply andb_prop in Hv as [H1 H2].
  apply Z.eqb_eq in H1. apply Z.eqb_eq in H2.
  destruct (maxsz <? d_size d) eqn:E; [apply Z.ltb_lt in E; lia|]. cbn [fst snd].
  apply (vconsume_complete src d cs (d_size d) []); cbn; assumption.
Qed.

(** ** Identity uploads *)
Lemma id_recv_eof ms : forall woff fin t cs,
  id_recv woff fin ms t = (cs, REof) ->
  t = TEof /\ contiguous woff ms /\ fin_ok fin ms /\ cs = map w_data ms.
Proof.
  induction ms as [|m ms IH]; intros woff fin t cs H; cbn in H.
  - injection H as <- H. destruct t; [|discriminate]. destruct fin; [|discriminate]. cbn. auto.
  - destruct fin; [discriminate|]. destruct (w_off m =? woff) eqn:E; cbn in H; [|discriminate].
    destruct (id_recv (woff + blen (w_data m)) (w_fin m) ms t) as [cs' r] eqn:Hr.
    injection H as <- ->. apply IH in Hr as (-> & Hc & Hf & ->). apply Z.eqb_eq in E. cbn. auto.
Qed.

Lemma id_recv_complete ms : forall woff fin,
  contiguous woff ms -> fin_ok fin ms -> id_recv woff fin ms TEof = (map w_data ms, REof).
Proof.
  induction ms as [|m ms IH]; intros woff fin Hc Hf; cbn in *.
  - subst fin. reflexivity.
  - destruct Hc as [<- Hc], Hf as [-> Hf]. rewrite Z.eqb_refl. cbn. rewrite (IH _ _ Hc Hf). reflexivity.
Qed.

Theorem write_identity_stores_only_if pm d ms t x :
  0 <= d_size d ->
  wr_stored (write hashf decompress pm (RIdentity d) ms t) = Some x ->
  contiguous 0 ms /\ finished_at_end ms /\ t = TEof /\ x = payload ms /\ valid hashf d x = true
  /\ wr_code (write hashf decompress pm (RIdentity d) ms t) = 0.
Proof.
  intros Hs. unfold write. destruct ms as [|first rest]; [destruct t; discriminate|].
  unfold write_identity. destruct (w_off first =? 0) eqn:E0; cbn [negb]; [|discriminate].
  destruct (pm =? 0); cbn [negb]; [|discriminate].
  destruct (id_recv (blen (w_data first)) (w_fin first) rest t) as [cs r] eqn:Hr.
  destruct (to_byte_slice hashf cInvalidArgument d backend_max _) as [y|c] eqn:Hb; [|discriminate].
  cbn. intros H. injection H as <-. apply to_byte_slice_inl in Hb; [|exact Hs]. cbn [fst snd] in Hb.
  destruct Hb as (-> & Hy & Hv). apply id_recv_eof in Hr as (-> & Hc & Hf & ->).
  apply Z.eqb_eq in E0. repeat split; try assumption.
  - apply fin_ok_finished, Hf.
  - rewrite Hy. unfold payload. cbn [map concat].
    destruct (0 <? blen (w_data first)) eqn:E1; [reflexivity|].
    apply Z.ltb_ge in E1. pose proof (blen_nonneg (w_data first)).
    rewrite (blen_nil_inv (w_data first)) by lia. reflexivity.
Qed.

(** ** zstd uploads *)
Lemma z_recv_eof ms : forall noff fin t b n,
  z_recv noff fin ms t = (b, REof, n) ->
  exists pre post, ms = pre ++ post /\ contiguous noff pre /\ fin_ok fin pre
                   /\ b = payload pre /\ n = noff + blen b.
Proof.
  induction ms as [|m ms IH]; intros noff fin t b n H.
  - cbn in H. destruct fin.
    + injection H as <- <-. exists [], []. cbn. repeat split; auto; lia.
    + destruct t; discriminate.
  - cbn in H. destruct fin.
    + injection H as <- <-. exists [], (m :: ms). cbn. repeat split; auto; lia.
    + destruct (w_off m =? noff) eqn:E; cbn in H; [|discriminate].
      destruct (z_recv (noff + blen (w_data m)) (w_fin m) ms t) as [[b' r] n'] eqn:Hr.
      injection H as <- -> <-. apply IH in Hr as (pre & post & -> & Hc & Hf & -> & ->).
      apply Z.eqb_eq in E. exists (m :: pre), post. unfold payload. cbn. rewrite blen_app. repeat split; auto. lia.
Qed.

Lemma z_recv_complete ms : forall noff fin,
  contiguous noff ms -> fin_ok fin ms ->
  z_recv noff fin ms TEof = (payload ms, REof, noff + blen (payload ms)).
Proof.
  induction ms as [|m ms IH]; intros noff fin Hc Hf; cbn in *.
  - subst fin. unfold payload. cbn. rewrite Z.add_0_r. reflexivity.
  - destruct Hc as [<- Hc], Hf as [-> Hf]. rewrite Z.eqb_refl. cbn [negb]. rewrite (IH _ _ Hc Hf).
    unfold payload. cbn [map concat]. rewrite blen_app. f_equal. lia.
Qed.

Theorem write_zstd_stores_only_if pm d ms t x :
  wr_stored (write hashf decompress pm (RZstd d) ms t) = Some x ->
  exists pre post, ms = pre ++ post /\ contiguous 0 pre /\ finished_at_end pre
    /\ decoded (decompress (payload pre)) = Some x /\ valid hashf d x = true.
Proof.
  unfold write. destruct ms as [|first rest]; [destruct t; discriminate|].
  unfold write_zstd. destruct (w_off first =? 0) eqn:E0; cbn [negb]; [|discriminate].
  destruct (pm =? 0); cbn [negb]; [|discriminate].
  destruct (backend_max <? d_size d); [discriminate|].
  destruct (z_recv (blen (w_data first)) (w_fin first) rest t) as [[b r] n] eqn:Hr.
  destruct r; [|discriminate].
  apply z_recv_eof in Hr as (pre & post & -> & Hc & Hf & -> & ->).
  apply Z.eqb_eq in E0.
  assert (Hp : w_data first ++ payload pre = payload (first :: pre)) by reflexivity.
  rewrite Hp. intros H. exists (first :: pre), post. split; [reflexivity|].
  split; [cbn; auto|]. split; [apply fin_ok_finished, Hf|].
  destruct (decompress (payload (first :: pre))) as [y|y|] eqn:Hd; cbn in *.
  - destruct (valid hashf d y) eqn:Hv; [|discriminate]. injection H as <-. auto.
  - destruct (valid hashf d y) eqn:Hv.
    + injection H as <-. auto.
    + destruct (blen y <? d_size d); discriminate.
  - discriminate.
Qed.

(** ** Nothing becomes visible unless the RPC succeeds *)
Theorem write_failure_stores_nothing pm rn ms t :
  wr_code (write hashf decompress pm rn ms t) <> 0 ->
  wr_stored (write hashf decompress pm rn ms t) = None.
Proof.
  unfold write. destruct ms as [|first rest]; [destruct t; reflexivity|].
  destruct rn as [d|d| |c]; try reflexivity.
  - unfold write_identity. destruct (negb (w_off first =? 0)); [reflexivity|].
    destruct (negb (pm =? 0)); [reflexivity|].
    destruct (id_recv _ _ _ _) as [cs r].
    destruct (to_byte_slice _ _ _ _ _); cbn; [congruence|reflexivity].
  - unfold write_zstd. destruct (negb (w_off first =? 0)); [reflexivity|].
    destruct (negb (pm =? 0)); [reflexivity|].
    destruct (backend_max <? d_size d); [reflexivity|].
    destruct (z_recv _ _ _ _) as [[b r] n]. destruct r; [|reflexivity].
    destruct (decompress _) as [y|y|]; [| |reflexivity].
    + destruct (valid hashf d y); cbn; [congruence|reflexivity].
    + destruct (valid hashf d y); cbn; [congruence|]. destruct (blen y <? d_size d); reflexivity.
Qed.

(** The alternative outcomes of [wr_alts] are failures as well: whenever the
    model admits alternatives and stores, they are non-zero codes. *)
Theorem write_alternatives_are_failures pm rn ms t c :
  In c (wr_alts (write hashf decompress pm rn ms t)) -> c <> 0.
Proof.
  unfold write. destruct ms as [|first rest]; [destruct t; cbn; tauto|].
  destruct rn as [d|d| |c']; try (cbn; tauto).
  - unfold write_identity. destruct (negb (w_off first =? 0)); [cbn; tauto|].
    destruct (negb (pm =? 0)); [cbn; tauto|].
    destruct (id_recv _ _ _ _) as [cs r]. destruct (to_byte_slice _ _ _ _ _); cbn; tauto.
  - unfold write_zstd. destruct (negb (w_off first =? 0)); [cbn; tauto|].
    destruct (negb (pm =? 0)); [cbn; tauto|].
    destruct (backend_max <? d_size d); [cbn; tauto|].
    destruct (z_recv _ _ _ _) as [[b r] n].
    assert (Hk : forall l, (forall y, In y l -> y = cUnknown \/ y = cInvalidArgument) -> In c l -> c <> 0).
    { intros l Hl Hc. destruct (Hl _ Hc) as [-> | ->]; discriminate. }
    destruct r.
    + destruct (decompress _) as [y|y|].
      * destruct (valid hashf d y); cbn; tauto.
      * destruct (valid hashf d y); [|destruct (blen y <? d_size d)]; cbn; intuition (subst; discriminate).
      * cbn; intuition (subst; discriminate).
    + cbn; intuition (subst; discriminate).
Qed.

(** ** Reads *)
Lemma chunks_fuel_concat n : (0 < n)%nat -> forall fuel x, (length x <= fuel)%nat ->
  concat (chunks_fuel fuel n x) = x.
Proof.
  intros Hn. induction fuel as [|f IH]; intros x Hl.
  - destruct x; [reflexivity|cbn in Hl; lia].
  - destruct x as [|a x]; [reflexivity|]. cbn [chunks_fuel concat].
    rewrite IH; [apply firstn_skipn|]. rewrite skipn_length. cbn [length] in *. lia.
Qed.

Lemma chunks_of_concat n x : (0 < n)%nat -> concat (chunks_of n x) = x.
Proof. intros Hn. apply chunks_fuel_concat; [exact Hn|apply le_n]. Qed.

Lemma chunks_fuel_bounds n : (0 < n)%nat -> forall fuel x c, In c (chunks_fuel fuel n x) ->
  (0 < length c <= n)%nat.
Proof.
  intros Hn. induction fuel as [|f IH]; intros x c H; [destruct H|].
  destruct x as [|a x]; [destruct H|]. cbn [chunks_fuel] in H. destruct H as [<-|H]; [|eapply IH, H].
  rewrite firstn_length. cbn [length]. lia.
Qed.

Lemma cut_concat ps : forall x, concat (cut ps x) = x.
Proof.
  induction ps as [|p ps IH]; intros x; destruct x as [|a x]; try reflexivity.
  - cbn. rewrite app_nil_r. reflexivity.
  - cbn [cut concat]. rewrite IH. apply firstn_skipn.
Qed.

Lemma firstn_concat_prefix {A} j (cs : list (list A)) :
  exists rest, concat cs = concat (firstn j cs) ++ rest.
Proof.
  exists (concat (skipn j cs)). rewrite <- concat_app, firstn_skipn. reflexivity.
Qed.

Lemma apply_sendfail_prefix sf cs :
  exists rest, concat cs = concat (snd (apply_sendfail sf cs)) ++ rest.
Proof.
  unfold apply_sendfail. destruct sf as [[j c]|]; [match goal with |- context [if ?b then _ else _] => destruct b end|]; cbn [snd].
  - apply firstn_concat_prefix.
  - exists []. rewrite app_nil_r. reflexivity.
  - exists []. rewrite app_nil_r. reflexivity.
Qed.

Theorem read_identity_exact_suffix d get content k chunk pieces :
  get d = inl content -> (0 < chunk)%nat -> 0 <= k <= blen content ->
  exists msgs, read compress (RIdentity d) 0 get k chunk pieces None = (0, msgs)
               /\ concat msgs = skipn (Z.to_nat k) content
               /\ forall m, In m msgs -> (0 < length m <= chunk)%nat.
Proof.
  intros Hg Hc Hk. unfold read, read_identity. cbn. rewrite Hg. unfold offset_ok.
  destruct (0 <=? k) eqn:E1; [|apply Z.leb_gt in E1; lia].
  destruct (k <=? blen content) eqn:E2; [|apply Z.leb_gt in E2; lia]. cbn.
  eexists. split; [reflexivity|]. split; [apply chunks_of_concat, Hc|].
  intros m. apply chunks_fuel_bounds, Hc.
Qed.

Theorem read_zstd_exact_suffix d get content k chunk pieces :
  (forall x, decompress (compress x) = DOk x) ->
  get d = inl content -> 0 <= k <= blen content ->
  exists msgs, read compress (RZstd d) 0 get k chunk pieces None = (0, msgs)
               /\ decompress (concat msgs) = DOk (skipn (Z.to_nat k) content).
Proof.
  intros Hrt Hg Hk. unfold read, read_zstd. cbn. rewrite Hg. unfold offset_ok.
  destruct (0 <=? k) eqn:E1; [|apply Z.leb_gt in E1; lia].
  destruct (k <=? blen content) eqn:E2; [|apply Z.leb_gt in E2; lia]. cbn.
  eexists. split; [reflexivity|]. rewrite cut_concat. apply Hrt.
Qed.

(** Any other offset: an error and no data. *)
Theorem read_bad_offset_no_data rn d get content k chunk pieces sf :
  rn = RIdentity d \/ rn = RZstd d ->
  get d = inl content -> ~ (0 <= k <= blen content) ->
  read compress rn 0 get k chunk pieces sf = (cInvalidArgument, []).
Proof.
  intros Hrn Hg Hk. unfold read, read_identity, read_zstd. cbn.
  assert (Ho : offset_ok content k = false).
  { unfold offset_ok. destruct (0 <=? k) eqn:E1; [|reflexivity].
    destruct (k <=? blen content) eqn:E2; [|reflexivity].
    apply Z.leb_le in E1. apply Z.leb_le in E2. lia. }
  destruct Hrn as [-> | ->]; rewrite Hg, Ho; reflexivity.
Qed.

(** The backend has no (valid) object: its error and no data. *)
Theorem read_backend_error_no_data rn d get c k chunk pieces sf :
  rn = RIdentity d \/ rn = RZstd d ->
  get d = inr c ->
  read compress rn 0 get k chunk pieces sf = (c, []).
Proof.
  intros Hrn Hg. unfold read, read_identity, read_zstd. cbn.
  destruct Hrn as [-> | ->]; rewrite Hg; reflexivity.
Qed.

(** Whatever the name, the limit and the point at which sending fails: what
    was sent is a prefix of the (compressed) suffix — never bytes from elsewhere. *)
Theorem read_sends_prefix_of_suffix rn limit get k chunk pieces sf :
  (0 < chunk)%nat ->
  let msgs := snd (read compress rn limit get k chunk pieces sf) in
  msgs = [] \/
  exists d content rest, get d = inl content /\ 0 <= k <= blen content /\
    ((rn = RIdentity d /\ skipn (Z.to_nat k) content = concat msgs ++ rest) \/
     (rn = RZstd d /\ compress (skipn (Z.to_nat k) content) = concat msgs ++ rest)).
Proof.
  intros Hc. cbv zeta. unfold read. destruct (negb (limit =? 0)); [left; reflexivity|].
  destruct rn as [d|d| |c]; try (left; reflexivity).
  - unfold read_identity. destruct (get d) as [content|c] eqn:Hg; [|left; reflexivity].
    destruct (offset_ok content k) eqn:Ho; [|left; reflexivity].
    unfold offset_ok in Ho. apply andb_prop in Ho as [H1 H2]. apply Z.leb_le in H1. apply Z.leb_le in H2.
    right. destruct (apply_sendfail_prefix sf (chunks_of chunk (skipn (Z.to_nat k) content))) as [rest Hr].
    rewrite chunks_of_concat in Hr by exact Hc.
    exists d, content, rest. split; [exact Hg|]. split; [lia|]. left. split; [reflexivity|exact Hr].
  - unfold read_zstd. destruct (get d) as [content|c] eqn:Hg; [|left; reflexivity].
    destruct (offset_ok content k) eqn:Ho; [|left; reflexivity].
    unfold offset_ok in Ho. apply andb_prop in Ho as [H1 H2]. apply Z.leb_le in H1. apply Z.leb_le in H2.
    right. destruct (apply_sendfail_prefix sf (cut pieces (compress (skipn (Z.to_nat k) content)))) as [rest Hr].
    rewrite cut_concat in Hr.
    exists d, content, rest. split; [exact Hg|]. split; [lia|]. right. split; [reflexivity|exact Hr].
Qed.

End WithHash.
