(** C14 — model of BatchUpdateBlobs, BatchReadBlobs and FindMissingBlobs of
    content_addressable_storage_server.go.  Definitions only. *)
From Coq Require Import List ZArith Bool Lia.
From BBS Require Import Rpc.ByteStream.
Import ListNotations.
Open Scope Z_scope.

Section WithHash.
Variable hashf : bytes -> Z.

(** One BatchUpdateBlobs entry: digest, data, and the backend's Put mode for
    it (0: consume and store; otherwise discard and fail with that code).
    Result: the per-entry status and what the backend stored. *)
Definition batch_update_entry (d : dig) (data : bytes) (pm : Z) : Z * option bytes :=
  if d_size d <? 0 then (cInvalidArgument, None)             (* NewDigestFromProto *)
  else if negb (pm =? 0) then (pm, None)
  else if valid hashf d data then (0, Some data)               (* NewCASBufferFromByteSlice *)
  else (cInvalidArgument, None).

Definition batch_update (es : list (dig * bytes * Z)) : list (Z * option bytes) :=
  map (fun e => batch_update_entry (fst (fst e)) (snd (fst e)) (snd e)) es.

(** BatchReadBlobs: the size budget is checked for the whole request first. *)
Fixpoint budget_ok (remaining : Z) (ds : list dig) : bool :=
  match ds with
  | [] => true
  | d :: ds' => if d_size d <? 0 then false
                else if remaining <? d_size d then false
                else budget_ok (remaining - d_size d) ds'
  end.

Definition batch_read_entry (get : dig -> bytes + Z) (d : dig) : Z * bytes :=
  match get d with
  | inl x => (0, x)
  | inr c => (c, [])
  end.

Definition batch_read (get : dig -> bytes + Z) (maxsz : Z) (ds : list dig) : option (list (Z * bytes)) :=
  match ds with
  | [] => Some []
  | _ => if budget_ok maxsz ds then Some (map (batch_read_entry get) ds) else None
  end.

(** What a CAS backend answers for a digest when it holds [x] under it: the
    buffer is validated against the digest (BackendProvided: INTERNAL). *)
Definition backend_get (held : option bytes) (d : dig) : bytes + Z :=
  match held with
  | None => inr cNotFound
  | Some x => if valid hashf d x then inl x else inr cInternal
  end.

(** FindMissingBlobs: [missing] is the backend's answer as a predicate. *)
Definition dig_eqb (a b : dig) : bool := (d_hash a =? d_hash b) && (d_size a =? d_size b).

Definition find_missing (missing : dig -> bool) (fmerr : Z) (ds : list dig) : Z * list dig :=
  match ds with
  | [] => (0, [])
  | _ => if existsb (fun d => d_size d <? 0) ds then (cInvalidArgument, [])
         else if negb (fmerr =? 0) then (fmerr, [])
         else (0, filter missing ds)
  end.

End WithHash.
