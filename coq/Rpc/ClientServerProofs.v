(** C14 — the repository's client composed with the server behaves like the backend. *)
From Coq Require Import List ZArith Bool Lia.
From BBS Require Import Rpc.ByteStream Rpc.Batch Rpc.ClientServer Rpc.ByteStreamProofs.
Import ListNotations.
Open Scope Z_scope.

Lemma contiguous_app a : forall off b,
  contiguous off (a ++ b) <-> contiguous off a /\ contiguous (off + blen (payload a)) b.
Proof.
  induction a as [|m a IH]; intros off b; cbn.
  - unfold payload. cbn. rewrite Z.add_0_r. tauto.
  - rewrite IH. unfold payload. cbn. rewrite blen_app, Z.add_assoc. tauto.
Qed.

Lemma with_offsets_spec cs : forall off,
  contiguous off (with_offsets off cs) /\ payload (with_offsets off cs) = concat cs
  /\ Forall (fun m => w_fin m = false) (with_offsets off cs).
Proof.
  induction cs as [|c cs IH]; intros off; cbn.
  - repeat split. constructor.
  - destruct (IH (off + blen c)) as (H1 & H2 & H3). unfold payload in *. cbn. rewrite H2.
    repeat split; auto.
Qed.

Lemma client_msgs_spec cs :
  contiguous 0 (client_msgs cs) /\ finished_at_end (client_msgs cs) /\ payload (client_msgs cs) = concat cs.
Proof.
  unfold client_msgs. destruct (with_offsets_spec cs 0) as (H1 & H2 & H3). repeat split.
  - apply contiguous_app. split; [exact H1|]. cbn. rewrite H2. unfold total_len. auto.
  - exists (with_offsets 0 cs), (mkW (total_len cs) [] true). auto.
  - unfold payload in *. rewrite map_app, concat_app, H2. cbn. apply app_nil_r.
Qed.

Section WithCodec.
Variable hashf : bytes -> Z.
Variable decompress : bytes -> dres.
Variable compress : bytes -> bytes.

(** The converses of [write_*_stores_only_if]: a well-formed upload is stored. *)
Theorem write_identity_stores_if d ms :
  contiguous 0 ms -> finished_at_end ms -> valid hashf d (payload ms) = true -> d_size d <= backend_max ->
  write hashf decompress 0 (RIdentity d) ms TEof = mkWres 0 [] (d_size d) (Some (payload ms)).
Proof.
  intros Hc Hf Hv Hm. apply finished_fin_ok in Hf. destruct ms as [|first rest]; [cbn in Hf; discriminate|].
  cbn in Hc, Hf. destruct Hc as [H0 Hc], Hf as [_ Hf].
  unfold write, write_identity. rewrite H0. cbn [Z.eqb negb].
  rewrite (id_recv_complete rest _ _ Hc Hf).
  set (cs' := if 0 <? blen (w_data first) then w_data first :: map w_data rest else map w_data rest).
  assert (Hp : concat cs' = payload (first :: rest)).
  { unfold cs', payload. cbn [map concat]. destruct (0 <? blen (w_data first)) eqn:E; [reflexivity|].
    apply Z.ltb_ge in E. pose proof (blen_nonneg (w_data first)).
    rewrite (blen_nil_inv (w_data first)) by lia. reflexivity. }
  match goal with |- context [to_byte_slice ?a ?b ?c ?e ?s] =>
    replace (to_byte_slice a b c e s) with (@inl bytes Z (concat cs'))
      by (symmetry; apply to_byte_slice_complete; [exact Hm|rewrite Hp; exact Hv]) end.
  rewrite Hp. reflexivity.
Qed.

Theorem write_zstd_stores_if d ms x :
  contiguous 0 ms -> finished_at_end ms -> decompress (payload ms) = DOk x ->
  valid hashf d x = true -> d_size d <= backend_max ->
  write hashf decompress 0 (RZstd d) ms TEof = mkWres 0 [] (blen (payload ms)) (Some x).
Proof.
  intros Hc Hf Hd Hv Hm. apply finished_fin_ok in Hf. destruct ms as [|first rest]; [cbn in Hf; discriminate|].
  cbn in Hc, Hf. destruct Hc as [H0 Hc], Hf as [_ Hf].
  unfold write, write_zstd. rewrite H0. cbn [Z.eqb negb].
  destruct (backend_max <? d_size d) eqn:E; [apply Z.ltb_lt in E; lia|].
  rewrite (z_recv_complete rest _ _ Hc Hf).
  assert (Hp : w_data first ++ payload rest = payload (first :: rest)) by reflexivity.
  rewrite Hp, Hd, Hv. f_equal. unfold payload. cbn [map concat]. rewrite blen_app. reflexivity.
Qed.

(** ** client_server_identity, uploads: for all data and all chunkings the
    server stores exactly the data (both compressors). *)
Theorem client_put_identity_stores chunk pieces d data :
  valid hashf d data = true -> (0 < chunk)%nat -> d_size d <= backend_max ->
  client_put hashf decompress compress false chunk pieces d data = mkWres 0 [] (d_size d) (Some data).
Proof.
  intros Hv Hc Hm. unfold client_put. rewrite Hv.
  destruct (client_msgs_spec (chunks_of chunk data)) as (H1 & H2 & H3).
  rewrite chunks_of_concat in H3 by exact Hc.
  rewrite (write_identity_stores_if d _ H1 H2) by (try rewrite H3; assumption).
  rewrite H3. reflexivity.
Qed.

Hypothesis round_trip : forall x, decompress (compress x) = DOk x.

Theorem client_put_zstd_stores chunk pieces d data :
  valid hashf d data = true -> d_size d <= backend_max ->
  client_put hashf decompress compress true chunk pieces d data
  = mkWres 0 [] (blen (compress data)) (Some data).
Proof.
  intros Hv Hm. unfold client_put. rewrite Hv.
  destruct (client_msgs_spec (cut pieces (compress data))) as (H1 & H2 & H3).
  rewrite cut_concat in H3.
  rewrite (write_zstd_stores_if d _ data H1 H2) by (try rewrite H3; auto).
  rewrite H3. reflexivity.
Qed.

(** A Put whose data does not match its digest fails and stores nothing
    that does not match: whatever the server keeps is valid for the digest. *)
Theorem client_put_invalid zstd chunk pieces d data x :
  0 <= d_size d ->
  valid hashf d data = false ->
  wr_code (client_put hashf decompress compress zstd chunk pieces d data) <> 0 /\
  (wr_stored (client_put hashf decompress compress zstd chunk pieces d data) = Some x -> valid hashf d x = true).
Proof.
  intros Hs Hv. unfold client_put. rewrite Hv. cbn [wr_code wr_stored]. split; [discriminate|].
  destruct zstd.
  - intros H. apply write_zstd_stores_only_if in H. destruct H as (pre & post & _ & _ & _ & _ & H). exact H.
  - cbn. discriminate.
Qed.

(** ** client_server_identity, downloads: the client returns the backend's bytes. *)
Theorem client_get_identity_returns chunk sp cp get d content :
  get d = inl content -> valid hashf d content = true -> (0 < chunk)%nat -> d_size d <= backend_max ->
  client_get hashf decompress compress false chunk sp cp get d = inl content.
Proof.
  intros Hg Hv Hc Hm. unfold client_get.
  destruct (read_identity_exact_suffix compress d get content 0 chunk sp Hg Hc) as (msgs & Hr & Hcat & _).
  { pose proof (blen_nonneg content). lia. }
  rewrite Hr. cbn [client_script Z.eqb]. cbn in Hcat.
  match goal with |- context [to_byte_slice ?a ?b ?c ?e ?s] =>
    replace (to_byte_slice a b c e s) with (@inl bytes Z (concat msgs))
      by (symmetry; apply to_byte_slice_complete; [exact Hm|rewrite Hcat; exact Hv]) end.
  rewrite Hcat. reflexivity.
Qed.

Theorem client_get_zstd_returns chunk sp cp get d content :
  get d = inl content -> valid hashf d content = true -> d_size d <= backend_max ->
  client_get hashf decompress compress true chunk sp cp get d = inl content.
Proof.
  intros Hg Hv Hm. unfold client_get.
  destruct (read_zstd_exact_suffix decompress compress d get content 0 chunk sp round_trip Hg) as (msgs & Hr & Hd).
  { pose proof (blen_nonneg content). lia. }
  rewrite Hr. cbn in Hd. cbn [client_script]. rewrite Hd.
  match goal with |- context [to_byte_slice ?a ?b ?c ?e ?s] =>
    replace (to_byte_slice a b c e s) with (@inl bytes Z (concat (cut cp content)))
      by (symmetry; apply to_byte_slice_complete; [exact Hm|rewrite cut_concat; exact Hv]) end.
  rewrite cut_concat. reflexivity.
Qed.

(** The backend's error reaches the caller unchanged. *)
Theorem client_get_error zstd chunk sp cp get d c :
  get d = inr c -> c <> 0 -> d_size d <= backend_max ->
  client_get hashf decompress compress zstd chunk sp cp get d = inr c.
Proof.
  intros Hg Hc Hm. unfold client_get.
  rewrite (read_backend_error_no_data compress (if zstd then RZstd d else RIdentity d) d get c 0 chunk sp None)
    by (try (destruct zstd; auto); exact Hg).
  assert (Hs : client_script decompress zstd chunk cp (c, []) = ([], RErr c)).
  { unfold client_script. destruct zstd.
    - destruct c; [contradiction| |]; reflexivity.
    - destruct (c =? 0) eqn:E; [apply Z.eqb_eq in E; contradiction|reflexivity]. }
  rewrite Hs. unfold to_byte_slice. destruct (backend_max <? d_size d) eqn:E; [apply Z.ltb_lt in E; lia|].
  cbn. destruct (d_size d <=? 0); reflexivity.
Qed.

End WithCodec.
