(** C13, byte level: util.VisitProtoBytesFields (pkg/util/proto.go) over a
    stream that delivers the bytes [bs] and then ends with [term]
    ([None] = io.EOF, [Some c] = a read error with gRPC code [c]).

    Definitions only.  The visitor's callback cannot influence where the next
    tag is read (the unread remainder of a field is discarded), so the model
    computes the list of *complete* top-level fields handed to the callback
    together with the outcome the visitor reaches when no callback fails; a
    consumer that fails at a field stops there (Complete/Completeness.v).

    protowire.ConsumeVarint / ConsumeTag are modelled exactly (up to ten
    bytes, non-canonical encodings accepted, 10th byte must be < 2, field
    number in 1..2^31-1); bufio.Reader.Peek(32) is modelled by: fewer than 32
    bytes left and the stream ends in an error => that error is returned
    before anything is parsed. *)
From Coq Require Import List NArith ZArith Bool Lia.
Import ListNotations.
Local Open Scope N_scope.

Inductive vres := VOk (v : N) (n : nat) | VTrunc | VOverflow.

(** [varint k shift bs]: [k] bytes may still be consumed (10 initially). *)
Fixpoint varint (k : nat) (shift : N) (bs : list N) : vres :=
  match k with
  | O => VOverflow
  | S k' =>
      match bs with
      | [] => VTrunc
      | b :: t =>
          match k' with
          | O => if b <? 2 then VOk (N.shiftl b shift) 1 else VOverflow
          | S _ =>
              if b <? 128 then VOk (N.shiftl b shift) 1
              else match varint k' (shift + 7) t with
                   | VOk v n => VOk (N.shiftl (b - 128) shift + v) (S n)
                   | e => e
                   end
          end
      end
  end.

Definition consume_varint (bs : list N) : vres := varint 10 0 bs.

Inductive tres := TOk (num typ : N) (n : nat) | TErr.

Definition max_int32 : N := 2147483647.
Definition max_int64 : N := 9223372036854775807.

Definition consume_tag (bs : list N) : tres :=
  match consume_varint bs with
  | VOk v n =>
      let num := N.shiftr v 3 in
      if (max_int32 <? num) || (num <? 1) then TErr else TOk num (N.land v 7) n
  | _ => TErr
  end.

(** gRPC codes used here. *)
Definition code_invalid_argument : Z := 3.

Record visit := mkVisit { v_num : N; v_off : N; v_size : N; v_payload : list N }.
Inductive wres := WOk | WErr (c : Z) | WFuel.

Definition bytes_type : N := 2.

Fixpoint wire_visit (fuel : nat) (bs : list N) (term : option Z) (off : N) : list visit * wres :=
  match fuel with
  | O => ([], WFuel)
  | S f =>
      (* header, err := br.Peek(32) *)
      match (if (length bs <? 32)%nat then term else None) with
      | Some c => ([], WErr c)
      | None =>
          match bs with
          | [] => ([], WOk)
          | _ :: _ =>
              let header := firstn 32 bs in
              match consume_tag header with
              | TErr => ([], WErr code_invalid_argument)
              | TOk num typ ntag =>
                  if negb (typ =? bytes_type) then ([], WErr code_invalid_argument)
                  else
                    match consume_varint (skipn ntag header) with
                    | VOk size nlen =>
                        if max_int64 - off <? size then ([], WErr code_invalid_argument)
                        else
                          let nh := (ntag + nlen)%nat in
                          let rest := skipn nh bs in
                          let off' := off + N.of_nat nh in
                          if N.of_nat (length rest) <? size then
                            (* the field ends prematurely: the callback's reader or
                               br.Discard reports it; a read error wins over EOF *)
                            ([], WErr (match term with Some c => c | None => code_invalid_argument end))
                          else
                            let payload := firstn (N.to_nat size) rest in
                            let (vs, r) := wire_visit f (skipn (N.to_nat size) rest) term (off' + size) in
                            (mkVisit num off' size payload :: vs, r)
                    | _ => ([], WErr code_invalid_argument)
                    end
              end
          end
      end
  end.

(** Every iteration consumes at least two bytes, so this fuel suffices
    ([wire_visit_all_no_fuel] in WireVisitProofs.v). *)
Definition wire_visit_all (bs : list N) (term : option Z) : list visit * wres :=
  wire_visit (S (length bs)) bs term 0.

(** The canonical encoder (protowire.AppendVarint / AppendTag / AppendBytes),
    used to state the visitor's specification. *)
Fixpoint encode_varint (fuel : nat) (v : N) : list N :=
  match fuel with
  | O => [v]
  | S f => if v <? 128 then [v] else (v mod 128 + 128) :: encode_varint f (v / 128)
  end.
Definition enc_varint (v : N) : list N := encode_varint 9 v.

Definition encode_field (num : N) (payload : list N) : list N :=
  enc_varint (num * 8 + bytes_type) ++ enc_varint (N.of_nat (length payload)) ++ payload.

Fixpoint encode_fields (fs : list (N * list N)) : list N :=
  match fs with
  | [] => []
  | (num, p) :: t => encode_field num p ++ encode_fields t
  end.
