(** C13: proofs about Complete/Completeness.v. *)
From Coq Require Import List Arith ZArith Bool Lia.
Import ListNotations.
From BBS Require Import Complete.Completeness.

Lemma seq_inv (a b : action) q r q2 :
  seq a b q = (r, q2) ->
  (exists c, a q = (Some c, q2) /\ r = Some c) \/ (exists q1, a q = (None, q1) /\ b q1 = (r, q2)).
Proof.
  unfold seq. destruct (a q) as [[c|] q1]; intro H.
  - left. exists c. inversion H. auto.
  - right. eauto.
Qed.

Lemma set_add_in x d l : In x (set_add d l) <-> x = d \/ In x l.
Proof.
  unfold set_add. destruct (existsb (Nat.eqb d) l) eqn:E.
  - split; [auto|]. intros [->|H]; [|exact H].
    apply existsb_exists in E. destruct E as (y & Hy & Hd). apply Nat.eqb_eq in Hd. subst. exact Hy.
  - rewrite in_app_iff. cbn. intuition.
Qed.

Lemma set_add_length d l : length (set_add d l) <= S (length l).
Proof.
  unfold set_add. destruct (existsb (Nat.eqb d) l); [lia|]. rewrite app_length. cbn. lia.
Qed.

Section P.
  Variable batch : nat.
  Variables maxmsg maxtree : Z.
  Variable fm : nat -> list nat -> fm_answer.
  Variable gets : list tget.

  Local Notation Finalize := (finalize fm).
  Local Notation Add := (add batch fm).
  Local Notation AddAll := (add_all batch fm).
  Local Notation AddOutdirs := (add_outdirs batch fm).
  Local Notation VisitDir := (visit_dir batch maxmsg fm).
  Local Notation VisitItems := (visit_items batch maxmsg fm).
  Local Notation VisitTree := (visit_tree batch maxmsg fm).
  Local Notation TreeLoop := (tree_loop batch maxmsg fm gets).
  Local Notation CheckAction := (check_action batch maxmsg maxtree fm gets).
  Local Notation Check := (check batch maxmsg maxtree fm gets).

  (** ** What a successful run guarantees *)
  Definition ok_batch (q : qstate) (b : list nat) : Prop :=
    exists k, In (CFm k b (FmMissing [])) (q_log q).
  Definition flushed (q : qstate) (d : nat) : Prop := exists b, ok_batch q b /\ In d b.
  Definition covered (q : qstate) (d : nat) : Prop := In d (q_pending q) \/ flushed q d.
  Definition mono (q q' : qstate) : Prop := forall c, In c (q_log q) -> In c (q_log q').
  Definition ext (q q' : qstate) : Prop := mono q q' /\ forall d, covered q d -> covered q' d.
  Definition guarantees (a : action) (S : list nat) : Prop :=
    forall q q', a q = (None, q') -> ext q q' /\ forall d, In d S -> covered q' d.

  Lemma flushed_mono q q' d : mono q q' -> flushed q d -> flushed q' d.
  Proof. intros Hm (b & (k & Hk) & Hd). exists b. split; [exists k; auto|exact Hd]. Qed.

  Lemma ext_refl q : ext q q.
  Proof. split; [intros c H; exact H|auto]. Qed.

  Lemma ext_trans q1 q2 q3 : ext q1 q2 -> ext q2 q3 -> ext q1 q3.
  Proof. intros [m1 c1] [m2 c2]. split; [intros c H; auto|auto]. Qed.

  Lemma g_ret : guarantees ret [].
  Proof. intros q q' H. inversion H. subst. split; [apply ext_refl|intros d []]. Qed.

  Lemma g_seq a b S1 S2 : guarantees a S1 -> guarantees b S2 -> guarantees (seq a b) (S1 ++ S2).
  Proof.
    intros Ha Hb q q' H. apply seq_inv in H. destruct H as [(c & _ & Hc)|(q1 & H1 & H2)]; [discriminate|].
    destruct (Ha _ _ H1) as [E1 C1]. destruct (Hb _ _ H2) as [E2 C2].
    split; [eapply ext_trans; eauto|].
    intros d Hd. apply in_app_iff in Hd. destruct Hd as [Hd|Hd]; [|auto].
    destruct E2 as [_ E2]. auto.
  Qed.

  Lemma g_weaken a S S' : guarantees a S -> incl S' S -> guarantees a S'.
  Proof. intros Ha Hi q q' H. destruct (Ha _ _ H) as [E C]. split; auto. Qed.

  Lemma finalize_inv q r q' :
    Finalize q = (r, q') ->
    q' = mkQ (q_pending q) (S (q_fmcalls q))
             (CFm (q_fmcalls q) (q_pending q) (fm (q_fmcalls q) (q_pending q)) :: q_log q)
    /\ (r = None <-> fm (q_fmcalls q) (q_pending q) = FmMissing [])
    /\ (forall c, r = Some c -> fm (q_fmcalls q) (q_pending q) = FmErr c
                                \/ (c = code_not_found /\ exists x m, fm (q_fmcalls q) (q_pending q) = FmMissing (x :: m))).
  Proof.
    unfold finalize. destruct (fm (q_fmcalls q) (q_pending q)) as [[|x m]|c]; intro H; inversion H; subst;
      (split; [reflexivity|split; [split; congruence|]]); intros c' Hc; try discriminate.
    - inversion Hc. subst. right. split; [reflexivity|eauto].
    - inversion Hc. subst. left. reflexivity.
  Qed.

  (** All the ways [add] can end. *)
  Inductive add_case (o : odig) (q : qstate) : option Z -> qstate -> Prop :=
  | ac_absent : o = None -> add_case o q None q
  | ac_malformed w : o = Some w -> wd_ok w = false -> add_case o q (Some code_not_found) q
  | ac_push w : o = Some w -> wd_ok w = true -> (batch <=? length (q_pending q)) = false ->
      add_case o q None (mkQ (set_add (wd_id w) (q_pending q)) (q_fmcalls q) (q_log q))
  | ac_flush_push w : o = Some w -> wd_ok w = true -> (batch <=? length (q_pending q)) = true ->
      fm (q_fmcalls q) (q_pending q) = FmMissing [] ->
      add_case o q None (mkQ (set_add (wd_id w) []) (S (q_fmcalls q))
                             (CFm (q_fmcalls q) (q_pending q) (FmMissing []) :: q_log q))
  | ac_flush_fail w c q' : o = Some w -> wd_ok w = true -> (batch <=? length (q_pending q)) = true ->
      Finalize q = (Some c, q') -> add_case o q (Some c) q'.

  Lemma add_cases o q r q' : Add o q = (r, q') -> add_case o q r q'.
  Proof.
    unfold add. destruct o as [w|]; [|intro H; inversion H; subst; constructor; reflexivity].
    destruct (wd_ok w) eqn:Hok; cbn [negb].
    2:{ intro H. inversion H. subst. eapply ac_malformed; eauto. }
    destruct (batch <=? length (q_pending q)) eqn:Hb.
    - destruct (Finalize q) as [[c|] q1] eqn:Hf.
      + intro H. inversion H. subst. eapply ac_flush_fail; eauto.
      + intro H. inversion H. subst. clear H.
        destruct (finalize_inv _ _ _ Hf) as (Hq & Hr & _). subst q1. cbn.
        assert (Hfm : fm (q_fmcalls q) (q_pending q) = FmMissing []) by (apply Hr; reflexivity).
        rewrite Hfm. eapply ac_flush_push; eauto.
    - intro H. inversion H. subst. eapply ac_push; eauto.
  Qed.

  Lemma g_add o : guarantees (Add o) (ids_of [o]).
  Proof.
    intros q q' H. apply add_cases in H. inversion H; subst; clear H.
    - split; [apply ext_refl|]. intros d [].
    - cbn. split.
      + split; [intros c Hc; exact Hc|]. intros d [Hd|Hd]; [left; cbn; apply set_add_in; auto|right; exact Hd].
      + intros d [<-|[]]. left. cbn. first [apply set_add_in; auto|auto].
    - cbn. split.
      + split; [intros c Hc; cbn; auto|].
        intros d [Hd|Hd].
        * right. exists (q_pending q). split; [exists (q_fmcalls q); cbn; auto|exact Hd].
        * right. eapply flushed_mono; [|exact Hd]. intros c Hc. cbn. auto.
      + intros d [<-|[]]. left. cbn. first [apply set_add_in; auto|auto].
  Qed.

  Lemma ids_of_cons o l : ids_of (o :: l) = ids_of [o] ++ ids_of l.
  Proof. unfold ids_of. cbn. rewrite app_nil_r. reflexivity. Qed.

  Lemma g_add_all l : guarantees (AddAll l) (ids_of l).
  Proof.
    induction l as [|o t IH]; [apply g_ret|].
    rewrite ids_of_cons. cbn [add_all]. apply g_seq; [apply g_add|exact IH].
  Qed.

  Lemma g_add_outdirs l : guarantees (AddOutdirs l) (outdir_ids l).
  Proof.
    induction l as [|od t IH]; [apply g_ret|].
    unfold outdir_ids. cbn [flat_map add_outdirs]. fold (outdir_ids t).
    rewrite (ids_of_cons (od_tree od)), <- app_assoc.
    apply g_seq; [apply g_add|]. apply g_seq; [apply g_add|exact IH].
  Qed.

  Lemma g_visit_dir r it : guarantees (VisitDir r it) (item_ids r it).
  Proof.
    unfold visit_dir, item_ids. destruct (Z.ltb maxmsg (snd it)).
    - intros q q' H. discriminate.
    - apply g_seq; [apply g_add_all|]. destruct r; [apply g_add_all|apply g_ret].
  Qed.

  Lemma g_visit_items r items : guarantees (VisitItems r items) (flat_map (item_ids r) items).
  Proof.
    induction items as [|it t IH]; [apply g_ret|].
    cbn [visit_items flat_map]. apply g_seq; [apply g_visit_dir|exact IH].
  Qed.

  Lemma g_visit_tree od g :
    guarantees (VisitTree od g) (flat_map (item_ids (is_some (od_root od))) (tg_items g)).
  Proof.
    intros q q' H. unfold visit_tree in H.
    destruct (VisitItems (is_some (od_root od)) (tg_items g) q) as [[c|] q1] eqn:Hv; [discriminate|].
    destruct (tg_end g); [discriminate|]. inversion H. subst.
    exact (g_visit_items _ _ _ _ Hv).
  Qed.

  Lemma g_log_get i id : guarantees (log_get i id) [].
  Proof.
    intros q q' H. inversion H. subst. split; [|intros d []].
    split; [intros c Hc; cbn; auto|].
    intros d [Hd|Hd]; [left; exact Hd|right]. eapply flushed_mono; [|exact Hd]. intros c Hc. cbn. auto.
  Qed.

  Lemma g_tree_loop dirs : forall i rem, guarantees (TreeLoop i rem dirs) (tree_ids i gets dirs).
  Proof.
    induction dirs as [|od t IH]; intros i rem; [apply g_ret|].
    cbn [tree_loop tree_ids]. destruct (derive (od_tree od)) as [w|]; [|intros q q' H; discriminate].
    destruct (Z.ltb rem (wd_size w)); [intros q q' H; discriminate|].
    change (flat_map (item_ids (is_some (od_root od))) (tg_items (nth i gets get_not_found)) ++ tree_ids (S i) gets t)
      with ([] ++ (flat_map (item_ids (is_some (od_root od))) (tg_items (nth i gets get_not_found)) ++ tree_ids (S i) gets t)).
    apply g_seq; [apply g_log_get|]. apply g_seq; [apply g_visit_tree|apply IH].
  Qed.

  Lemma g_before_finalize ar :
    guarantees (seq (AddAll (ar_files ar))
               (seq (AddOutdirs (ar_dirs ar))
               (seq (Add (ar_stdout ar))
               (seq (Add (ar_stderr ar))
                    (TreeLoop 0 maxtree (ar_dirs ar))))))
               (referenced ar gets).
  Proof.
    unfold referenced.
    apply g_seq; [apply g_add_all|]. apply g_seq; [apply g_add_outdirs|].
    rewrite (ids_of_cons (ar_stdout ar)), <- app_assoc.
    apply g_seq; [apply g_add|]. apply g_seq; [apply g_add|apply g_tree_loop].
  Qed.

  Lemma check_action_assoc ar q :
    CheckAction ar q =
    seq (seq (AddAll (ar_files ar))
        (seq (AddOutdirs (ar_dirs ar))
        (seq (Add (ar_stdout ar))
        (seq (Add (ar_stderr ar))
             (TreeLoop 0 maxtree (ar_dirs ar)))))) Finalize q.
  Proof.
    unfold check_action, seq.
    destruct (AddAll (ar_files ar) q) as [[?|] q1]; [reflexivity|].
    destruct (AddOutdirs (ar_dirs ar) q1) as [[?|] q2]; [reflexivity|].
    destruct (Add (ar_stdout ar) q2) as [[?|] q3]; [reflexivity|].
    destruct (Add (ar_stderr ar) q3) as [[?|] q4]; [reflexivity|].
    destruct (TreeLoop 0 maxtree (ar_dirs ar) q4) as [[?|] q5]; reflexivity.
  Qed.

  Lemma check_ok_flushed ar q :
    Check ar = (None, q) -> forall d, In d (referenced ar gets) -> flushed q d.
  Proof.
    unfold check. rewrite check_action_assoc. intros H d Hd.
    apply seq_inv in H. destruct H as [(c & _ & Hc)|(q1 & H1 & H2)]; [discriminate|].
    destruct (g_before_finalize ar _ _ H1) as [_ C]. specialize (C d Hd).
    destruct (finalize_inv _ _ _ H2) as (Hq & Hr & _).
    assert (Hfm : fm (q_fmcalls q1) (q_pending q1) = FmMissing []) by (apply Hr; reflexivity).
    subst q. rewrite Hfm. destruct C as [C|C].
    - exists (q_pending q1). split; [exists (q_fmcalls q1); cbn; auto|exact C].
    - eapply flushed_mono; [|exact C]. intros c Hc. cbn. auto.
  Qed.

  (** ** Invariant of every run, successful or not: the log records the
      oracle's answers, and batches respect the batch size. *)
  Definition inv (q : qstate) : Prop :=
    (forall k b a, In (CFm k b a) (q_log q) -> a = fm k b /\ (1 <= batch -> length b <= batch))
    /\ (1 <= batch -> length (q_pending q) <= batch).
  Definition preserves (a : action) : Prop := forall q r q', inv q -> a q = (r, q') -> inv q'.

  Lemma p_ret : preserves ret.
  Proof. intros q r q' I H. inversion H. subst. exact I. Qed.
  Lemma p_fail c : preserves (fail c).
  Proof. intros q r q' I H. inversion H. subst. exact I. Qed.
  Lemma p_seq a b : preserves a -> preserves b -> preserves (seq a b).
  Proof.
    intros Ha Hb q r q' I H. apply seq_inv in H. destruct H as [(c & H & _)|(q1 & H1 & H2)]; eauto.
  Qed.

  Lemma p_finalize : preserves Finalize.
  Proof.
    intros q r q' [I1 I2] H. destruct (finalize_inv _ _ _ H) as (-> & _). split; cbn.
    - intros k b a [E|Hin]; [inversion E; subst; auto|auto].
    - exact I2.
  Qed.

  Lemma p_add o : preserves (Add o).
  Proof.
    intros q r q' I H. apply add_cases in H. inversion H; subst; clear H; auto.
    - destruct I as [I1 I2]. split; cbn; [exact I1|]. intros Hb.
      apply Nat.leb_gt in H2. pose proof (set_add_length (wd_id w) (q_pending q)). lia.
    - destruct I as [I1 I2]. split; cbn.
      + intros k b a [E|Hin]; [inversion E; subst; auto|auto].
      + intros Hb. unfold set_add. cbn. lia.
    - eapply p_finalize; eauto.
  Qed.

  Lemma p_add_all l : preserves (AddAll l).
  Proof. induction l; cbn [add_all]; [apply p_ret|apply p_seq; [apply p_add|assumption]]. Qed.
  Lemma p_add_outdirs l : preserves (AddOutdirs l).
  Proof. induction l; cbn [add_outdirs]; [apply p_ret|repeat apply p_seq; try apply p_add; assumption]. Qed.
  Lemma p_visit_dir r it : preserves (VisitDir r it).
  Proof.
    unfold visit_dir. destruct (Z.ltb maxmsg (snd it)); [apply p_fail|].
    apply p_seq; [apply p_add_all|destruct r; [apply p_add_all|apply p_ret]].
  Qed.
  Lemma p_visit_items r l : preserves (VisitItems r l).
  Proof. induction l; cbn [visit_items]; [apply p_ret|apply p_seq; [apply p_visit_dir|assumption]]. Qed.
  Lemma p_visit_tree od g : preserves (VisitTree od g).
  Proof.
    intros q r q' I H. unfold visit_tree in H.
    destruct (VisitItems (is_some (od_root od)) (tg_items g) q) as [[c|] q1] eqn:Hv.
    - inversion H. subst. eapply p_visit_items; eauto.
    - destruct (tg_end g); inversion H; subst; eapply p_visit_items; eauto.
  Qed.
  Lemma p_log_get i id : preserves (log_get i id).
  Proof.
    intros q r q' [I1 I2] H. inversion H. subst. split; cbn; [|exact I2].
    intros k b a [E|Hin]; [discriminate|auto].
  Qed.
  Lemma p_tree_loop dirs : forall i rem, preserves (TreeLoop i rem dirs).
  Proof.
    induction dirs as [|od t IH]; intros i rem; cbn [tree_loop]; [apply p_ret|].
    destruct (derive (od_tree od)) as [w|]; [|apply p_fail].
    destruct (Z.ltb rem (wd_size w)); [apply p_fail|].
    apply p_seq; [apply p_log_get|apply p_seq; [apply p_visit_tree|apply IH]].
  Qed.
  Lemma p_check_action ar : preserves (CheckAction ar).
  Proof.
    unfold check_action. repeat apply p_seq; auto using p_add_all, p_add_outdirs, p_add, p_tree_loop, p_finalize.
  Qed.

  Lemma inv_init : inv init_q.
  Proof. split; cbn; [intros k b a []|lia]. Qed.

  Lemma check_inv ar r q : Check ar = (r, q) -> inv q.
  Proof. intro H. eapply p_check_action; [apply inv_init|exact H]. Qed.

  (** ** Runs that cannot succeed *)
  Definition fails (a : action) : Prop := forall q, fst (a q) <> None.

  Lemma f_seq_l a b : fails a -> fails (seq a b).
  Proof. intros Ha q. unfold seq. specialize (Ha q). destruct (a q) as [[c|] q1]; cbn in *; congruence. Qed.
  Lemma f_seq_r a b : fails b -> fails (seq a b).
  Proof. intros Hb q. unfold seq. destruct (a q) as [[c|] q1]; cbn; [congruence|apply Hb]. Qed.
  Lemma f_fail c : fails (fail c).
  Proof. intros q. cbn. congruence. Qed.

  Definition malformed (o : odig) : Prop := exists w, o = Some w /\ wd_ok w = false.

  Lemma f_add o : malformed o -> fails (Add o).
  Proof. intros (w & -> & Hw) q. unfold add. rewrite Hw. cbn. congruence. Qed.

  Lemma f_add_all l : Exists malformed l -> fails (AddAll l).
  Proof.
    induction 1 as [o t H|o t H IH]; cbn [add_all]; [apply f_seq_l, f_add, H|apply f_seq_r, IH].
  Qed.

  Lemma f_add_outdirs l :
    Exists (fun od => malformed (od_tree od) \/ malformed (od_root od)) l -> fails (AddOutdirs l).
  Proof.
    induction 1 as [od t H|od t H IH]; cbn [add_outdirs].
    - destruct H as [H|H]; [apply f_seq_l, f_add, H|apply f_seq_r, f_seq_l, f_add, H].
    - apply f_seq_r, f_seq_r, IH.
  Qed.

  Lemma f_visit_dir r it : Exists malformed (item_digs r it) -> fails (VisitDir r it).
  Proof.
    unfold item_digs, visit_dir. intro H. destruct (Z.ltb maxmsg (snd it)); [apply f_fail|].
    apply Exists_app in H. destruct H as [H|H]; [apply f_seq_l, f_add_all, H|].
    apply f_seq_r. destruct r; [apply f_add_all, H|inversion H].
  Qed.

  Lemma f_visit_items r items :
    Exists (fun it => Exists malformed (item_digs r it) \/ (maxmsg < snd it)%Z) items -> fails (VisitItems r items).
  Proof.
    induction 1 as [it t H|it t H IH]; cbn [visit_items]; [apply f_seq_l|apply f_seq_r, IH].
    destruct H as [H|H]; [apply f_visit_dir, H|].
    unfold visit_dir. apply Z.ltb_lt in H. rewrite H. apply f_fail.
  Qed.

  (** The visit of one output directory fails when the stream does not end
      cleanly, when a delivered Directory holds a malformed digest, or when a
      Directory message exceeds the maximum message size. *)
  Definition bad_tget (od : outdir) (g : tget) : Prop :=
    (exists c, tg_end g = Some c)
    \/ Exists (fun it => Exists malformed (item_digs (is_some (od_root od)) it) \/ (maxmsg < snd it)%Z) (tg_items g).

  Lemma f_visit_tree od g : bad_tget od g -> fails (VisitTree od g).
  Proof.
    intros H q. unfold visit_tree.
    destruct (VisitItems (is_some (od_root od)) (tg_items g) q) as [[c|] q1] eqn:Hv; [cbn; congruence|].
    destruct H as [(c & Hc)|H].
    - rewrite Hc. cbn. congruence.
    - pose proof (f_visit_items _ _ H q) as F. rewrite Hv in F. cbn in F. congruence.
  Qed.

  Lemma f_tree_loop dirs : forall i rem j od,
    nth_error dirs j = Some od ->
    derive (od_tree od) = None \/ bad_tget od (nth (i + j) gets get_not_found) ->
    fails (TreeLoop i rem dirs).
  Proof.
    induction dirs as [|od0 t IH]; intros i rem j od Hn Hbad; [destruct j; discriminate|].
    cbn [tree_loop]. destruct j as [|j].
    - cbn in Hn. inversion Hn. subst od0. rewrite Nat.add_0_r in Hbad.
      destruct (derive (od_tree od)) as [w|]; [|apply f_fail].
      destruct (Z.ltb rem (wd_size w)); [apply f_fail|].
      destruct Hbad as [Hbad|Hbad]; [discriminate|].
      apply f_seq_r, f_seq_l, f_visit_tree, Hbad.
    - destruct (derive (od_tree od0)) as [w|]; [|apply f_fail].
      destruct (Z.ltb rem (wd_size w)); [apply f_fail|].
      apply f_seq_r, f_seq_r. eapply IH; [exact Hn|]. rewrite Nat.add_succ_l, <- Nat.add_succ_r in *.
      replace (S i + j) with (i + S j) by lia. exact Hbad.
  Qed.

  Definition tree_sizes (dirs : list outdir) : Z :=
    fold_right Z.add 0%Z (map (fun od => match od_tree od with Some w => wd_size w | None => 0%Z end) dirs).

  Lemma tree_loop_budget dirs : forall i rem q q',
    TreeLoop i rem dirs q = (None, q') -> (dirs <> [] \/ 0 <= rem)%Z -> (tree_sizes dirs <= rem)%Z.
  Proof.
    induction dirs as [|od t IH]; intros i rem q q' H Hne.
    - cbn. destruct Hne as [Hne|Hne]; [congruence|exact Hne].
    - cbn [tree_loop] in H. unfold tree_sizes. cbn [map fold_right]. fold (tree_sizes t).
      unfold derive in H. destruct (od_tree od) as [w|]; [|discriminate].
      destruct (wd_ok w); [|discriminate].
      destruct (Z.ltb rem (wd_size w)) eqn:Hlt; [discriminate|]. apply Z.ltb_ge in Hlt.
      apply seq_inv in H. destruct H as [(c & _ & Hc)|(q1 & _ & H)]; [discriminate|].
      apply seq_inv in H. destruct H as [(c & _ & Hc)|(q2 & _ & H)]; [discriminate|].
      apply IH in H; [lia|right; lia].
  Qed.

  Lemma f_tree_budget dirs i :
    (dirs <> [] \/ 0 <= maxtree)%Z -> (maxtree < tree_sizes dirs)%Z -> fails (TreeLoop i maxtree dirs).
  Proof.
    intros Hne Hlt q. destruct (TreeLoop i maxtree dirs q) as [[c|] q'] eqn:H; cbn; [congruence|].
    apply tree_loop_budget in H; [lia|exact Hne].
  Qed.

  (** ** Only NOT_FOUND when nothing but incompleteness is wrong *)
  Definition only_nf (a : action) : Prop := forall q c q', a q = (Some c, q') -> c = code_not_found.

  Hypothesis fm_no_error : forall k b c, fm k b <> FmErr c.

  Lemma n_ret : only_nf ret.
  Proof. intros q c q' H. discriminate. Qed.
  Lemma n_seq a b : only_nf a -> only_nf b -> only_nf (seq a b).
  Proof.
    intros Ha Hb q c q' H. apply seq_inv in H. destruct H as [(c' & H & E)|(q1 & _ & H)]; [|eauto].
    inversion E. subst. eauto.
  Qed.
  Lemma n_finalize : only_nf Finalize.
  Proof.
    intros q c q' H. destruct (finalize_inv _ _ _ H) as (_ & _ & Hc).
    destruct (Hc c eq_refl) as [E|[E _]]; [exfalso; eapply fm_no_error; eauto|exact E].
  Qed.
  Lemma n_add o : only_nf (Add o).
  Proof.
    intros q c q' H. apply add_cases in H. inversion H; subst; try reflexivity.
    eapply n_finalize; eauto.
  Qed.
  Lemma n_add_all l : only_nf (AddAll l).
  Proof. induction l; cbn [add_all]; [apply n_ret|apply n_seq; [apply n_add|assumption]]. Qed.
  Lemma n_add_outdirs l : only_nf (AddOutdirs l).
  Proof. induction l; cbn [add_outdirs]; [apply n_ret|repeat apply n_seq; try apply n_add; assumption]. Qed.

  (** A tree Get is benign when every delivered Directory fits the message
      size and the stream either ends cleanly or the tree is simply absent. *)
  Definition benign (g : tget) : Prop :=
    Forall (fun it => (snd it <= maxmsg)%Z) (tg_items g)
    /\ ((tg_end g = None /\ tg_term g = None)
        \/ (tg_end g = Some code_not_found /\ tg_term g = Some code_not_found)).

  Lemma n_visit_items r items :
    Forall (fun it => (snd it <= maxmsg)%Z) items -> only_nf (VisitItems r items).
  Proof.
    induction 1 as [|it t H _ IH]; cbn [visit_items]; [apply n_ret|]. apply n_seq; [|exact IH].
    unfold visit_dir. apply Z.ltb_ge in H. rewrite H.
    apply n_seq; [apply n_add_all|destruct r; [apply n_add_all|apply n_ret]].
  Qed.

  Lemma n_visit_tree od g : benign g -> only_nf (VisitTree od g).
  Proof.
    intros [Hs He] q c q' H. unfold visit_tree in H.
    destruct (VisitItems (is_some (od_root od)) (tg_items g) q) as [[c1|] q1] eqn:Hv.
    - inversion H. subst. pose proof (n_visit_items _ _ Hs _ _ _ Hv). subst c1.
      destruct He as [[_ E]|[_ E]]; rewrite E; reflexivity.
    - destruct He as [[E1 E2]|[E1 E2]]; rewrite E1 in H; [discriminate|].
      rewrite E2 in H. inversion H. reflexivity.
  Qed.

  Hypothesis gets_benign : forall i, benign (nth i gets get_not_found).

  Lemma n_tree_loop dirs : forall i rem, only_nf (TreeLoop i rem dirs).
  Proof.
    induction dirs as [|od t IH]; intros i rem; cbn [tree_loop]; [apply n_ret|].
    destruct (derive (od_tree od)) as [w|]; [|intros q c q' H; inversion H; reflexivity].
    destruct (Z.ltb rem (wd_size w)); [intros q c q' H; inversion H; reflexivity|].
    apply n_seq; [intros q c q' H; discriminate|]. apply n_seq; [apply n_visit_tree, gets_benign|apply IH].
  Qed.

  Lemma n_check_action ar : only_nf (CheckAction ar).
  Proof.
    unfold check_action. repeat apply n_seq; auto using n_add_all, n_add_outdirs, n_add, n_tree_loop, n_finalize.
  Qed.
End P.

(** * Theorems as used in Props/C13.v *)

Theorem check_complete_only_if_all_present :
  forall batch maxmsg maxtree fm gets ar q,
    check batch maxmsg maxtree fm gets ar = (None, q) ->
    forall d, In d (referenced ar gets) ->
    exists k b m, In (CFm k b (FmMissing m)) (q_log q) /\ fm k b = FmMissing m /\ In d b /\ ~ In d m.
Proof.
  intros batch maxmsg maxtree fm gets ar q H d Hd.
  destruct (check_ok_flushed _ _ _ _ _ _ _ H d Hd) as (b & (k & Hk) & Hb).
  destruct (check_inv _ _ _ _ _ _ _ _ H) as [I _]. destruct (I _ _ _ Hk) as [E _].
  exists k, b, []. repeat split; auto.
Qed.

Theorem get_complete_only_if_all_present :
  forall batch maxmsg maxtree fm gets size ar q,
    decorator_get batch maxmsg maxtree fm gets (AcOk size ar) = (None, q) ->
    forall d, In d (referenced ar gets) ->
    exists k b m, In (CFm k b (FmMissing m)) (q_log q) /\ fm k b = FmMissing m /\ In d b /\ ~ In d m.
Proof.
  intros batch maxmsg maxtree fm gets size ar q H. unfold decorator_get in H.
  destruct (Z.ltb maxmsg size); [discriminate|]. eapply check_complete_only_if_all_present; eauto.
Qed.

Theorem get_every_batch_bounded :
  forall batch maxmsg maxtree fm gets ac r q,
    1 <= batch ->
    decorator_get batch maxmsg maxtree fm gets ac = (r, q) ->
    forall k b a, In (CFm k b a) (q_log q) -> length b <= batch /\ a = fm k b.
Proof.
  intros batch maxmsg maxtree fm gets ac r q Hb H k b a Hin. unfold decorator_get in H.
  assert (I : inv batch fm q).
  { destruct ac as [c|size ar]; [inversion H; apply inv_init|].
    destruct (Z.ltb maxmsg size); [inversion H; apply inv_init|]. eapply check_inv; eauto. }
  destruct I as [I _]. destruct (I _ _ _ Hin). auto.
Qed.

(** Missing object: whenever the CAS is asked about [d] it reports it missing. *)
Definition always_missing (fm : nat -> list nat -> fm_answer) (d : nat) : Prop :=
  forall k b, In d b -> exists m, fm k b = FmMissing m /\ In d m.

Theorem check_incomplete_never_returned :
  forall batch maxmsg maxtree fm gets ar d,
    In d (referenced ar gets) -> always_missing fm d ->
    fst (check batch maxmsg maxtree fm gets ar) <> None.
Proof.
  intros batch maxmsg maxtree fm gets ar d Hd Hm.
  destruct (check batch maxmsg maxtree fm gets ar) as [[c|] q] eqn:H; cbn; [congruence|].
  destruct (check_complete_only_if_all_present _ _ _ _ _ _ _ H d Hd) as (k & b & m & _ & Hfm & Hb & Hnm).
  destruct (Hm k b Hb) as (m' & Hfm' & Hin). rewrite Hfm in Hfm'. inversion Hfm'. subst. contradiction.
Qed.

Theorem check_incomplete_is_not_found :
  forall batch maxmsg maxtree fm gets ar d,
    (forall k b c, fm k b <> FmErr c) ->
    (forall i, benign maxmsg (nth i gets get_not_found)) ->
    In d (referenced ar gets) -> always_missing fm d ->
    fst (check batch maxmsg maxtree fm gets ar) = Some code_not_found.
Proof.
  intros batch maxmsg maxtree fm gets ar d Hfm Hg Hd Hm.
  pose proof (check_incomplete_never_returned batch maxmsg maxtree fm gets ar d Hd Hm) as Hn.
  destruct (check batch maxmsg maxtree fm gets ar) as [[c|] q] eqn:H; cbn in *; [|congruence].
  f_equal. eapply n_check_action; eauto.
Qed.

Lemma check_fails_intro batch maxmsg maxtree fm gets ar :
  (fails (add_all batch fm (ar_files ar))
   \/ fails (add_outdirs batch fm (ar_dirs ar))
   \/ fails (add batch fm (ar_stdout ar))
   \/ fails (add batch fm (ar_stderr ar))
   \/ fails (tree_loop batch maxmsg fm gets 0 maxtree (ar_dirs ar))) ->
  fst (check batch maxmsg maxtree fm gets ar) <> None.
Proof.
  intros H. unfold check, check_action.
  destruct H as [H|[H|[H|[H|H]]]].
  - apply f_seq_l, H.
  - apply f_seq_r, f_seq_l, H.
  - apply f_seq_r, f_seq_r, f_seq_l, H.
  - apply f_seq_r, f_seq_r, f_seq_r, f_seq_l, H.
  - apply f_seq_r, f_seq_r, f_seq_r, f_seq_r, f_seq_l, H.
Qed.

(** A malformed digest anywhere in the ActionResult, or an absent tree digest. *)
Theorem check_malformed_is_error :
  forall batch maxmsg maxtree fm gets ar,
    (Exists malformed (ar_files ar)
     \/ Exists (fun od => malformed (od_tree od) \/ malformed (od_root od) \/ od_tree od = None) (ar_dirs ar)
     \/ malformed (ar_stdout ar) \/ malformed (ar_stderr ar)) ->
    fst (check batch maxmsg maxtree fm gets ar) <> None.
Proof.
  intros batch maxmsg maxtree fm gets ar H. apply check_fails_intro.
  destruct H as [H|[H|[H|H]]].
  - left. apply f_add_all, H.
  - apply Exists_exists in H. destruct H as (od & Hin & [H|[H|H]]).
    + right; left. apply f_add_outdirs, Exists_exists. exists od. auto.
    + right; left. apply f_add_outdirs, Exists_exists. exists od. auto.
    + right; right; right; right.
      destruct (In_nth_error _ _ Hin) as (j & Hj).
      eapply f_tree_loop; [exact Hj|]. left. unfold derive. rewrite H. reflexivity.
  - right; right; left. apply f_add, H.
  - right; right; right; left. apply f_add, H.
Qed.

(** The tree of output directory [j] is unreadable / corrupted (the visit
    does not end cleanly), holds a malformed digest among what is checked, or
    holds a Directory larger than the maximum message size. *)
Theorem check_tree_error_is_error :
  forall batch maxmsg maxtree fm gets ar j od,
    nth_error (ar_dirs ar) j = Some od ->
    bad_tget maxmsg od (nth j gets get_not_found) ->
    fst (check batch maxmsg maxtree fm gets ar) <> None.
Proof.
  intros batch maxmsg maxtree fm gets ar j od Hj Hbad. apply check_fails_intro.
  right; right; right; right. eapply f_tree_loop; [exact Hj|]. right. exact Hbad.
Qed.

Theorem check_tree_budget :
  forall batch maxmsg maxtree fm gets ar,
    (ar_dirs ar <> [] \/ 0 <= maxtree)%Z ->
    (maxtree < tree_sizes (ar_dirs ar))%Z ->
    fst (check batch maxmsg maxtree fm gets ar) <> None.
Proof.
  intros batch maxmsg maxtree fm gets ar Hne Hlt. apply check_fails_intro.
  right; right; right; right. apply f_tree_budget; assumption.
Qed.

(** Errors of [check] are what the decorator returns (never the result). *)
Theorem get_error_iff_check_error :
  forall batch maxmsg maxtree fm gets size ar,
    fst (check batch maxmsg maxtree fm gets ar) <> None ->
    fst (decorator_get batch maxmsg maxtree fm gets (AcOk size ar)) <> None.
Proof.
  intros batch maxmsg maxtree fm gets size ar H. unfold decorator_get.
  destruct (Z.ltb maxmsg size); [cbn; congruence|exact H].
Qed.

(** ** The same at the level of completenessCheckingBlobAccess.Get *)
Theorem get_incomplete_is_not_found :
  forall batch maxmsg maxtree fm gets size ar d,
    (size <= maxmsg)%Z ->
    (forall k b c, fm k b <> FmErr c) ->
    (forall i, benign maxmsg (nth i gets get_not_found)) ->
    In d (referenced ar gets) -> always_missing fm d ->
    fst (decorator_get batch maxmsg maxtree fm gets (AcOk size ar)) = Some code_not_found.
Proof.
  intros batch maxmsg maxtree fm gets size ar d Hs Hfm Hg Hd Hm. unfold decorator_get.
  apply Z.ltb_ge in Hs. rewrite Hs. eapply check_incomplete_is_not_found; eauto.
Qed.

Theorem get_incomplete_never_returned :
  forall batch maxmsg maxtree fm gets size ar d,
    In d (referenced ar gets) -> always_missing fm d ->
    fst (decorator_get batch maxmsg maxtree fm gets (AcOk size ar)) <> None.
Proof.
  intros. apply get_error_iff_check_error. eapply check_incomplete_never_returned; eauto.
Qed.

Theorem get_malformed_is_error :
  forall batch maxmsg maxtree fm gets size ar,
    (Exists malformed (ar_files ar)
     \/ Exists (fun od => malformed (od_tree od) \/ malformed (od_root od) \/ od_tree od = None) (ar_dirs ar)
     \/ malformed (ar_stdout ar) \/ malformed (ar_stderr ar)) ->
    fst (decorator_get batch maxmsg maxtree fm gets (AcOk size ar)) <> None.
Proof. intros. apply get_error_iff_check_error, check_malformed_is_error. assumption. Qed.

Theorem get_tree_error_is_error :
  forall batch maxmsg maxtree fm gets size ar j od,
    nth_error (ar_dirs ar) j = Some od ->
    bad_tget maxmsg od (nth j gets get_not_found) ->
    fst (decorator_get batch maxmsg maxtree fm gets (AcOk size ar)) <> None.
Proof. intros. apply get_error_iff_check_error. eapply check_tree_error_is_error; eauto. Qed.

(** The named outcomes of Get(tree): read error, corrupted, not found. *)
Theorem get_tree_unreadable_is_error :
  forall batch maxmsg maxtree fm gets size ar j od,
    nth_error (ar_dirs ar) j = Some od ->
    (exists delivered c, nth j gets get_not_found = get_read_error delivered c
                         \/ nth j gets get_not_found = get_corrupted delivered c)
    \/ nth j gets get_not_found = get_not_found ->
    fst (decorator_get batch maxmsg maxtree fm gets (AcOk size ar)) <> None.
Proof.
  intros batch maxmsg maxtree fm gets size ar j od Hj H.
  eapply get_tree_error_is_error; [exact Hj|]. left.
  destruct H as [(dl & c & [H|H])|H]; rewrite H; cbn; eauto.
Qed.

Theorem get_tree_budget :
  forall batch maxmsg maxtree fm gets size ar,
    (ar_dirs ar <> [] \/ 0 <= maxtree)%Z ->
    (maxtree < tree_sizes (ar_dirs ar))%Z ->
    fst (decorator_get batch maxmsg maxtree fm gets (AcOk size ar)) <> None.
Proof. intros. apply get_error_iff_check_error, check_tree_budget; assumption. Qed.
