(** C13: completenessCheckingBlobAccess.Get / checkCompleteness and its
    findMissingQueue (pkg/blobstore/completenesschecking).  Definitions only.

    The ActionResult is seen as a decoded structure.  A wire digest is what
    digestFunction.NewDigestFromProto makes of it: [wd_ok = false] when the
    derivation fails (malformed hash / negative size), otherwise an identity
    [wd_id] (two wire digests denote the same CAS object iff their ids are
    equal) and its [wd_size].  [None] is an absent (nil) digest field.

    The CAS is an oracle:
      - [fm k batch] answers the k-th FindMissing call of this Get (so the
        answer may change from call to call);
      - [nth i gets] is what Get(tree digest of output directory i).ToReader()
        delivers to the streaming visitor: the Directory messages (with their
        encoded sizes) of the fields root/children that the visitor hands over
        completely and that unmarshal, in order ([tg_items]); how the visit
        ends after them if no callback failed ([tg_end]: [None] = clean end of
        stream, [Some c] = the visitor fails with code c: read error, premature
        end, bad tag, undecodable Directory); and how the underlying reader
        ends when drained ([tg_term]: [None] = io.EOF, [Some c] = read /
        integrity error, which the code prefers over its own error). *)
From Coq Require Import List Arith ZArith Bool Lia.
Import ListNotations.

Record wdigest := mkWd { wd_ok : bool; wd_id : nat; wd_size : Z }.
Definition odig := option wdigest.

Record directory := mkDir { d_files : list odig; d_dirs : list odig }.
Record outdir := mkOutDir { od_tree : odig; od_root : odig }.
Record action_result := mkAR {
  ar_files : list odig;
  ar_dirs : list outdir;
  ar_stdout : odig;
  ar_stderr : odig;
  ar_inlined : nat   (* bytes of inlined stdout/stderr/file contents: never looked at *)
}.

Inductive fm_answer := FmMissing (m : list nat) | FmErr (c : Z).

Record tget := mkTget {
  tg_items : list (directory * Z);
  tg_end : option Z;
  tg_term : option Z
}.

(** The outcomes of [Get tree] named in the property. *)
Definition code_not_found : Z := 5.
Definition code_invalid : Z := 3.
Definition code_internal : Z := 13.
Definition get_ok (dirs : list (directory * Z)) : tget := mkTget dirs None None.
Definition get_read_error (delivered : list (directory * Z)) (c : Z) : tget := mkTget delivered (Some c) (Some c).
Definition get_corrupted (delivered : list (directory * Z)) (visitor_err : Z) : tget :=
  mkTget delivered (Some visitor_err) (Some code_internal).
Definition get_not_found : tget := mkTget [] (Some code_not_found) (Some code_not_found).

Inductive call := CFm (k : nat) (batch : list nat) (ans : fm_answer) | CGet (i : nat) (id : nat).

(** Queue state: pending set (insertion order, no duplicates), number of
    FindMissing calls made, calls made so far (newest first). *)
Record qstate := mkQ { q_pending : list nat; q_fmcalls : nat; q_log : list call }.

Definition action := qstate -> option Z * qstate.
Definition ret : action := fun q => (None, q).
Definition fail (c : Z) : action := fun q => (Some c, q).
Definition seq (a b : action) : action :=
  fun q => match a q with (None, q') => b q' | r => r end.

Definition set_add (d : nat) (l : list nat) : list nat :=
  if existsb (Nat.eqb d) l then l else l ++ [d].

Definition is_some {T} (o : option T) : bool := match o with Some _ => true | None => false end.

Definition derive (o : odig) : option wdigest :=
  match o with
  | Some w => if wd_ok w then Some w else None
  | None => None
  end.

Definition prefer (term : option Z) (c : Z) : Z := match term with Some t => t | None => c end.

Section Decorator.
  Variable batch : nat.            (* batchSize *)
  Variable maxmsg : Z.             (* maximumMessageSizeBytes *)
  Variable maxtree : Z.            (* maximumTotalTreeSizeBytes *)
  Variable fm : nat -> list nat -> fm_answer.
  Variable gets : list tget.

  (** findMissingQueue.finalize *)
  Definition finalize : action := fun q =>
    let b := q_pending q in
    let k := q_fmcalls q in
    let ans := fm k b in
    let q' := mkQ b (S k) (CFm k b ans :: q_log q) in
    match ans with
    | FmErr c => (Some c, q')
    | FmMissing [] => (None, q')
    | FmMissing (_ :: _) => (Some code_not_found, q')
    end.

  (** findMissingQueue.add *)
  Definition add (o : odig) : action := fun q =>
    match o with
    | None => (None, q)
    | Some w =>
        if negb (wd_ok w) then (Some code_not_found, q)
        else
          let push q1 := (None, mkQ (set_add (wd_id w) (q_pending q1)) (q_fmcalls q1) (q_log q1)) in
          if batch <=? length (q_pending q) then
            match finalize q with
            | (None, q1) => push (mkQ [] (q_fmcalls q1) (q_log q1))
            | r => r
            end
          else push q
    end.

  Fixpoint add_all (l : list odig) : action :=
    match l with
    | [] => ret
    | o :: t => seq (add o) (add_all t)
    end.

  Fixpoint add_outdirs (l : list outdir) : action :=
    match l with
    | [] => ret
    | od :: t => seq (add (od_tree od)) (seq (add (od_root od)) (add_outdirs t))
    end.

  (** The visitor callback on one root/children field. *)
  Definition visit_dir (rootset : bool) (it : directory * Z) : action :=
    if Z.ltb maxmsg (snd it) then fail code_invalid
    else seq (add_all (d_files (fst it))) (if rootset then add_all (d_dirs (fst it)) else ret).

  Fixpoint visit_items (rootset : bool) (items : list (directory * Z)) : action :=
    match items with
    | [] => ret
    | it :: t => seq (visit_dir rootset it) (visit_items rootset t)
    end.

  Definition visit_tree (od : outdir) (g : tget) : action := fun q =>
    match visit_items (is_some (od_root od)) (tg_items g) q with
    | (Some c, q') => (Some (prefer (tg_term g) c), q')
    | (None, q') =>
        match tg_end g with
        | Some c => (Some (prefer (tg_term g) c), q')
        | None => (None, q')
        end
    end.

  Definition log_get (i id : nat) : action := fun q =>
    (None, mkQ (q_pending q) (q_fmcalls q) (CGet i id :: q_log q)).

  Fixpoint tree_loop (i : nat) (remaining : Z) (dirs : list outdir) : action :=
    match dirs with
    | [] => ret
    | od :: t =>
        match derive (od_tree od) with
        | None => fail code_not_found
        | Some w =>
            if Z.ltb remaining (wd_size w) then fail code_not_found
            else seq (log_get i (wd_id w))
                  (seq (visit_tree od (nth i gets get_not_found))
                       (tree_loop (S i) (Z.sub remaining (wd_size w)) t))
        end
    end.

  Definition check_action (ar : action_result) : action :=
    seq (add_all (ar_files ar))
   (seq (add_outdirs (ar_dirs ar))
   (seq (add (ar_stdout ar))
   (seq (add (ar_stderr ar))
   (seq (tree_loop 0 maxtree (ar_dirs ar))
        finalize)))).

  Definition init_q : qstate := mkQ [] 0 [].

  (** checkCompleteness: [None] = nil error. *)
  Definition check (ar : action_result) : option Z * qstate := check_action ar init_q.

  (** What the Action Cache hands to the decorator. *)
  Inductive ac_result := AcErr (c : Z) | AcOk (size : Z) (ar : action_result).

  (** completenessCheckingBlobAccess.Get: [None] = the ActionResult is
      returned to the caller, [Some c] = an error buffer with code c. *)
  Definition decorator_get (ac : ac_result) : option Z * qstate :=
    match ac with
    | AcErr c => (Some c, init_q)
    | AcOk size ar => if Z.ltb maxmsg size then (Some code_invalid, init_q) else check ar
    end.
End Decorator.

(** Digests an ActionResult refers to, given what the tree Gets delivered. *)
Definition ids_of (l : list odig) : list nat :=
  flat_map (fun o => match o with Some w => [wd_id w] | None => [] end) l.

Definition item_ids (rootset : bool) (it : directory * Z) : list nat :=
  ids_of (d_files (fst it)) ++ (if rootset then ids_of (d_dirs (fst it)) else []).

Fixpoint tree_ids (i : nat) (gets : list tget) (dirs : list outdir) : list nat :=
  match dirs with
  | [] => []
  | od :: t =>
      flat_map (item_ids (is_some (od_root od))) (tg_items (nth i gets get_not_found))
      ++ tree_ids (S i) gets t
  end.

Definition outdir_ids (dirs : list outdir) : list nat :=
  flat_map (fun od => ids_of [od_tree od; od_root od]) dirs.

Definition referenced (ar : action_result) (gets : list tget) : list nat :=
  ids_of (ar_files ar) ++ outdir_ids (ar_dirs ar) ++ ids_of [ar_stdout ar; ar_stderr ar]
  ++ tree_ids 0 gets (ar_dirs ar).

(** All wire digests (for "malformed anywhere"). *)
Definition item_digs (rootset : bool) (it : directory * Z) : list odig :=
  d_files (fst it) ++ (if rootset then d_dirs (fst it) else []).
