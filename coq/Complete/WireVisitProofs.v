(** C13: proofs about the wire-level visitor model (Complete/WireVisit.v). *)
From Coq Require Import List NArith ZArith Bool Lia Arith.
Import ListNotations.
From BBS Require Import Generated.Consts Complete.WireVisit.
Local Open Scope N_scope.

(** ** Varints *)
Lemma varint_pos k s bs v n : varint k s bs = VOk v n -> (1 <= n)%nat.
Proof.
  revert s bs v n. induction k as [|k IH]; intros s bs v n H; cbn in H; [discriminate|].
  destruct bs as [|b t]; [discriminate|]. destruct k as [|k'].
  - destruct (b <? 2); inversion H. lia.
  - destruct (b <? 128); [inversion H; lia|].
    destruct (varint (S k') (s + 7) t) as [v' n'| |] eqn:E; inversion H. lia.
Qed.

Lemma varint_len k s bs v n : varint k s bs = VOk v n -> (n <= length bs)%nat.
Proof.
  revert s bs v n. induction k as [|k IH]; intros s bs v n H; cbn in H; [discriminate|].
  destruct bs as [|b t]; [discriminate|]. destruct k as [|k'].
  - destruct (b <? 2); inversion H. cbn. lia.
  - destruct (b <? 128); [inversion H; cbn; lia|].
    destruct (varint (S k') (s + 7) t) as [v' n'| |] eqn:E; inversion H. subst.
    apply IH in E. cbn. lia.
Qed.

Lemma varint_step k' s b t :
  varint (S (S k')) s (b :: t) =
  if b <? 128 then VOk (N.shiftl b s) 1
  else match varint (S k') (s + 7) t with
       | VOk v n => VOk (N.shiftl (b - 128) s + v) (S n)
       | e => e
       end.
Proof. reflexivity. Qed.

Lemma encode_varint_length fuel v : (1 <= length (encode_varint fuel v) <= S fuel)%nat.
Proof.
  revert v. induction fuel as [|f IH]; intro v; cbn; [lia|].
  destruct (v <? 128); cbn; [lia|]. specialize (IH (v / 128)). lia.
Qed.

Lemma varint_encode fuel : forall v s rest,
  v < 2 ^ (7 * N.of_nat fuel + 1) ->
  varint (S fuel) s (encode_varint fuel v ++ rest) = VOk (N.shiftl v s) (length (encode_varint fuel v)).
Proof.
  induction fuel as [|f IH]; intros v s rest Hv.
  - change (v < 2) in Hv. cbn [encode_varint app varint].
    assert (E : v <? 2 = true) by (apply N.ltb_lt; exact Hv). rewrite E. reflexivity.
  - cbn [encode_varint]. destruct (v <? 128) eqn:E.
    + cbn. rewrite E. reflexivity.
    + apply N.ltb_ge in E.
      change ((v mod 128 + 128 :: encode_varint f (v / 128)) ++ rest)
        with (v mod 128 + 128 :: (encode_varint f (v / 128) ++ rest)).
      rewrite varint_step.
      assert (E2 : v mod 128 + 128 <? 128 = false) by (apply N.ltb_ge; apply N.le_add_l). rewrite E2.
      rewrite IH.
      2:{ apply N.div_lt_upper_bound; [lia|].
          replace (7 * N.of_nat (S f) + 1) with (7 + (7 * N.of_nat f + 1)) in Hv by lia.
          rewrite N.pow_add_r in Hv. exact Hv. }
      cbn [length]. f_equal.
      rewrite N.add_sub, !N.shiftl_mul_pow2, N.pow_add_r. change (2 ^ 7) with 128.
      pose proof (N.div_mod v 128 ltac:(lia)) as D.
      set (a := v mod 128) in *. set (b := v / 128) in *. clearbody a b. subst v. ring.
Qed.

Lemma varint_truncated fuel : forall v s j,
  (j < length (encode_varint fuel v))%nat ->
  varint (S fuel) s (firstn j (encode_varint fuel v)) = VTrunc.
Proof.
  induction fuel as [|f IH]; intros v s j Hj.
  - cbn in Hj. assert (j = 0)%nat by lia. subst. reflexivity.
  - cbn [encode_varint] in *. destruct (v <? 128) eqn:E.
    + cbn in Hj. assert (j = 0)%nat by lia. subst. reflexivity.
    + destruct j as [|j]; [reflexivity|]. cbn [firstn length] in *. cbn [varint].
      apply N.ltb_ge in E.
      assert (E2 : v mod 128 + 128 <? 128 = false) by (apply N.ltb_ge; apply N.le_add_l). rewrite E2.
      specialize (IH (v / 128) (s + 7) j ltac:(lia)). cbn [varint] in IH. rewrite IH. reflexivity.
Qed.

Lemma enc_varint_ok v s rest :
  v < 2 ^ 64 -> varint 10 s (enc_varint v ++ rest) = VOk (N.shiftl v s) (length (enc_varint v)).
Proof. intro H. unfold enc_varint. apply varint_encode. exact H. Qed.

Lemma enc_varint_length v : (1 <= length (enc_varint v) <= 10)%nat.
Proof. apply encode_varint_length. Qed.

(** ** List helpers *)
Lemma firstn_app_le {T} n (a b : list T) : (length a <= n)%nat -> firstn n (a ++ b) = a ++ firstn (n - length a) b.
Proof. intro H. rewrite firstn_app, firstn_all2 by exact H. reflexivity. Qed.
Lemma skipn_app_exact {T} (a b : list T) : skipn (length a) (a ++ b) = b.
Proof. rewrite skipn_app, skipn_all, Nat.sub_diag. reflexivity. Qed.
Lemma firstn_app_exact {T} (a b : list T) : firstn (length a) (a ++ b) = a.
Proof. rewrite firstn_app, firstn_all, Nat.sub_diag. cbn. apply app_nil_r. Qed.

(** ** The visitor: unfolding, termination, read errors *)
Lemma wire_visit_S f bs term off :
  wire_visit (S f) bs term off =
  match (if (length bs <? 32)%nat then term else None) with
  | Some c => ([], WErr c)
  | None =>
      match bs with
      | [] => ([], WOk)
      | _ :: _ =>
          let header := firstn 32 bs in
          match consume_tag header with
          | TErr => ([], WErr code_invalid_argument)
          | TOk num typ ntag =>
              if negb (typ =? bytes_type) then ([], WErr code_invalid_argument)
              else
                match consume_varint (skipn ntag header) with
                | VOk size nlen =>
                    if max_int64 - off <? size then ([], WErr code_invalid_argument)
                    else
                      let nh := (ntag + nlen)%nat in
                      let rest := skipn nh bs in
                      let off' := off + N.of_nat nh in
                      if N.of_nat (length rest) <? size then
                        ([], WErr (match term with Some c => c | None => code_invalid_argument end))
                      else
                        let payload := firstn (N.to_nat size) rest in
                        let (vs, r) := wire_visit f (skipn (N.to_nat size) rest) term (off' + size) in
                        (mkVisit num off' size payload :: vs, r)
                | _ => ([], WErr code_invalid_argument)
                end
          end
      end
  end.
Proof. reflexivity. Qed.

Lemma consume_tag_pos bs num typ n : consume_tag bs = TOk num typ n -> (1 <= n)%nat.
Proof.
  unfold consume_tag, consume_varint. destruct (varint 10 0 bs) as [v k| |] eqn:E; try discriminate.
  destruct (_ || _); [discriminate|]. intro H. inversion H. subst. eapply varint_pos; eauto.
Qed.

Lemma wire_visit_terminates fuel : forall bs term off,
  (length bs < fuel)%nat -> snd (wire_visit fuel bs term off) <> WFuel.
Proof.
  induction fuel as [|f IH]; intros bs term off Hl; [lia|].
  rewrite wire_visit_S.
  destruct (if (length bs <? 32)%nat then term else None); [cbn; discriminate|].
  destruct bs as [|b t]; [cbn; discriminate|].
  cbv zeta.
  destruct (consume_tag (firstn 32 (b :: t))) as [num typ ntag|] eqn:Et; [|cbn; discriminate].
  destruct (negb (typ =? bytes_type)); [cbn; discriminate|].
  destruct (consume_varint (skipn ntag (firstn 32 (b :: t)))) as [size nlen| |]; try (cbn; discriminate).
  destruct (max_int64 - off <? size); [cbn; discriminate|].
  destruct (N.of_nat (length (skipn (ntag + nlen) (b :: t))) <? size); [cbn; discriminate|].
  destruct (wire_visit f _ term _) as [vs r] eqn:E. cbn.
  match type of E with wire_visit f ?l _ ?o = _ => specialize (IH l term o) end.
  rewrite E in IH. apply IH.
  apply consume_tag_pos in Et. rewrite !skipn_length. cbn [length] in *. lia.
Qed.

Theorem wire_visit_all_terminates : forall bs term, snd (wire_visit_all bs term) <> WFuel.
Proof. intros. apply wire_visit_terminates. lia. Qed.

(** A stream that ends in a read error is never visited successfully. *)
Lemma wire_visit_error_term fuel : forall bs c off, snd (wire_visit fuel bs (Some c) off) <> WOk.
Proof.
  induction fuel as [|f IH]; intros bs c off; [cbn; discriminate|].
  rewrite wire_visit_S.
  destruct (length bs <? 32)%nat eqn:Hs; [cbn; discriminate|].
  destruct bs as [|b t]; [cbn in Hs; discriminate|].
  cbv zeta.
  destruct (consume_tag (firstn 32 (b :: t))) as [num typ ntag|]; [|cbn; discriminate].
  destruct (negb (typ =? bytes_type)); [cbn; discriminate|].
  destruct (consume_varint (skipn ntag (firstn 32 (b :: t)))) as [size nlen| |]; try (cbn; discriminate).
  destruct (max_int64 - off <? size); [cbn; discriminate|].
  destruct (N.of_nat (length (skipn (ntag + nlen) (b :: t))) <? size); [cbn; discriminate|].
  destruct (wire_visit f _ (Some c) _) as [vs r] eqn:E. cbn.
  match type of E with wire_visit f ?l _ ?o = _ => specialize (IH l c o) end.
  rewrite E in IH. exact IH.
Qed.

Theorem wire_visit_all_read_error : forall bs c, snd (wire_visit_all bs (Some c)) <> WOk.
Proof. intros. apply wire_visit_error_term. Qed.

(** ** Well-formed encodings *)
Definition wf_num (num : N) : Prop := 1 <= num /\ num <= max_int32.
Definition tag_bytes (num : N) : list N := enc_varint (num * 8 + bytes_type).
Definition len_bytes (p : list N) : list N := enc_varint (N.of_nat (length p)).
Definition hdr_len (num : N) (p : list N) : nat := (length (tag_bytes num) + length (len_bytes p))%nat.

Lemma consume_varint_enc v rest :
  v < 2 ^ 64 -> consume_varint (enc_varint v ++ rest) = VOk v (length (enc_varint v)).
Proof. intro H. unfold consume_varint. rewrite enc_varint_ok by exact H. rewrite N.shiftl_0_r. reflexivity. Qed.

Lemma consume_tag_enc num rest :
  wf_num num -> consume_tag (tag_bytes num ++ rest) = TOk num bytes_type (length (tag_bytes num)).
Proof.
  intros [H1 H2]. unfold consume_tag, tag_bytes, bytes_type, max_int32 in *.
  rewrite consume_varint_enc.
  2:{ change (2 ^ 64) with 18446744073709551616. lia. }
  assert (E1 : N.shiftr (num * 8 + 2) 3 = num).
  { rewrite N.shiftr_div_pow2. change (2 ^ 3) with 8. symmetry. apply N.div_unique with 2; lia. }
  assert (E2 : N.land (num * 8 + 2) 7 = 2).
  { change 7 with (N.ones 3). rewrite N.land_ones. change (2 ^ 3) with 8. symmetry.
    apply N.mod_unique with num; lia. }
  rewrite E1, E2.
  assert (E3 : (2147483647 <? num) = false) by (apply N.ltb_ge; lia).
  assert (E4 : (num <? 1) = false) by (apply N.ltb_ge; lia).
  rewrite E3, E4. reflexivity.
Qed.

Lemma tag_bytes_length num : (1 <= length (tag_bytes num) <= 10)%nat.
Proof. apply enc_varint_length. Qed.
Lemma len_bytes_length p : (1 <= length (len_bytes p) <= 10)%nat.
Proof. apply enc_varint_length. Qed.

Lemma encode_field_split num p rest :
  encode_field num p ++ rest = tag_bytes num ++ len_bytes p ++ p ++ rest.
Proof. unfold encode_field, tag_bytes, len_bytes. rewrite <- !app_assoc. reflexivity. Qed.

Lemma visit_field f num p rest off :
  wf_num num -> N.of_nat (length p) <= max_int64 - off ->
  wire_visit (S f) (encode_field num p ++ rest) None off =
  (mkVisit num (off + N.of_nat (hdr_len num p)) (N.of_nat (length p)) p
     :: fst (wire_visit f rest None (off + N.of_nat (hdr_len num p) + N.of_nat (length p))),
   snd (wire_visit f rest None (off + N.of_nat (hdr_len num p) + N.of_nat (length p)))).
Proof.
  intros Hn Hsz. rewrite wire_visit_S, encode_field_split.
  pose proof (tag_bytes_length num) as HT. pose proof (len_bytes_length p) as HL.
  set (T := tag_bytes num) in *. set (Ln := len_bytes p) in *.
  replace (if (length (T ++ Ln ++ p ++ rest) <? 32)%nat then None else None) with (@None Z)
    by (destruct (_ <? 32)%nat; reflexivity).
  destruct (T ++ Ln ++ p ++ rest) as [|b0 t0] eqn:Ebs.
  { apply (f_equal (@length N)) in Ebs. rewrite app_length in Ebs. change (length (@nil N)) with 0%nat in Ebs. lia. }
  rewrite <- Ebs. clear Ebs b0 t0. cbv zeta.
  assert (Hh : firstn 32 (T ++ Ln ++ p ++ rest) = T ++ Ln ++ firstn (32 - length T - length Ln) (p ++ rest)).
  { rewrite firstn_app_le by lia. f_equal. rewrite firstn_app_le by lia. reflexivity. }
  rewrite Hh. unfold T at 1. rewrite consume_tag_enc by exact Hn. fold T.
  change (negb (bytes_type =? bytes_type)) with false. cbv iota.
  rewrite skipn_app_exact. unfold Ln at 1, len_bytes.
  rewrite consume_varint_enc.
  2:{ unfold max_int64 in Hsz. change (2 ^ 64) with 18446744073709551616. lia. }
  fold (len_bytes p). fold Ln.
  assert (E1 : (max_int64 - off <? N.of_nat (length p)) = false) by (apply N.ltb_ge; exact Hsz).
  rewrite E1.
  assert (Hr : skipn (length T + length Ln) (T ++ Ln ++ p ++ rest) = p ++ rest).
  { rewrite app_assoc, <- app_length. apply skipn_app_exact. }
  rewrite Hr.
  assert (E2 : (N.of_nat (length (p ++ rest)) <? N.of_nat (length p)) = false).
  { apply N.ltb_ge. rewrite app_length. lia. }
  rewrite E2, Nat2N.id, firstn_app_exact, skipn_app_exact.
  unfold hdr_len. fold T Ln.
  destruct (wire_visit f rest None _) as [vs r]. reflexivity.
Qed.

(** The visits of a well-formed message, with their payload offsets. *)
Fixpoint visits_of (off : N) (fs : list (N * list N)) : list visit :=
  match fs with
  | [] => []
  | (num, p) :: t =>
      let off' := off + N.of_nat (hdr_len num p) in
      mkVisit num off' (N.of_nat (length p)) p :: visits_of (off' + N.of_nat (length p)) t
  end.

Lemma encode_field_length num p : length (encode_field num p) = (hdr_len num p + length p)%nat.
Proof. unfold encode_field, hdr_len, tag_bytes, len_bytes. rewrite !app_length. lia. Qed.

Lemma visit_fields fs : forall fuel off tail,
  Forall (fun f => wf_num (fst f)) fs ->
  off + N.of_nat (length (encode_fields fs)) <= max_int64 ->
  (length fs <= fuel)%nat ->
  wire_visit fuel (encode_fields fs ++ tail) None off =
  (visits_of off fs ++ fst (wire_visit (fuel - length fs) tail None (off + N.of_nat (length (encode_fields fs)))),
   snd (wire_visit (fuel - length fs) tail None (off + N.of_nat (length (encode_fields fs))))).
Proof.
  induction fs as [|[num p] t IH]; intros fuel off tail Hwf Hoff Hfuel.
  - cbn. rewrite Nat.sub_0_r, N.add_0_r. destruct (wire_visit fuel tail None off). reflexivity.
  - destruct fuel as [|f]; [cbn in Hfuel; lia|].
    inversion Hwf as [|x l Hn Ht]. subst. cbn [fst] in Hn.
    cbn [encode_fields] in *. rewrite app_length, encode_field_length in Hoff.
    rewrite <- app_assoc, visit_field; [|exact Hn|lia].
    rewrite IH; [|exact Ht|lia|cbn in Hfuel; lia].
    cbn [fst snd visits_of length Nat.sub]. rewrite app_length, encode_field_length.
    replace (off + N.of_nat (hdr_len num p) + N.of_nat (length p) + N.of_nat (length (encode_fields t)))
      with (off + N.of_nat (hdr_len num p + length p + length (encode_fields t))) by lia.
    reflexivity.
Qed.

(** On a well-formed encoding the visitor reports exactly the top-level
    length-delimited fields, in order, with number, payload, payload offset and
    size, and succeeds. *)
Theorem wire_visit_wellformed : forall fs,
  Forall (fun f => wf_num (fst f)) fs ->
  N.of_nat (length (encode_fields fs)) <= max_int64 ->
  wire_visit_all (encode_fields fs) None = (visits_of 0 fs, WOk).
Proof.
  intros fs Hwf Hlen. unfold wire_visit_all.
  rewrite <- (app_nil_r (encode_fields fs)) at 2.
  rewrite visit_fields; [|exact Hwf|lia|].
  2:{ clear. induction fs as [|[num p] t IH]; cbn [encode_fields length]; [lia|].
      rewrite app_length, encode_field_length. pose proof (tag_bytes_length num). unfold hdr_len. lia. }
  assert (Hf : exists k, (S (length (encode_fields fs)) - length fs = S k)%nat).
  { assert (length fs <= length (encode_fields fs))%nat.
    { clear. induction fs as [|[num p] t IH]; cbn [encode_fields length]; [lia|].
      rewrite app_length, encode_field_length. pose proof (tag_bytes_length num). unfold hdr_len. lia. }
    exists (length (encode_fields fs) - length fs)%nat. lia. }
  destruct Hf as [k Hk]. rewrite Hk. cbn. rewrite app_nil_r. reflexivity.
Qed.

(** ** Truncation strictly inside a field *)
Lemma wire_visit_S_ne f bs off :
  bs <> [] ->
  wire_visit (S f) bs None off =
  match consume_tag (firstn 32 bs) with
  | TErr => ([], WErr code_invalid_argument)
  | TOk num typ ntag =>
      if negb (typ =? bytes_type) then ([], WErr code_invalid_argument)
      else
        match consume_varint (skipn ntag (firstn 32 bs)) with
        | VOk size nlen =>
            if max_int64 - off <? size then ([], WErr code_invalid_argument)
            else
              if N.of_nat (length (skipn (ntag + nlen) bs)) <? size then ([], WErr code_invalid_argument)
              else
                let (vs, r) := wire_visit f (skipn (N.to_nat size) (skipn (ntag + nlen) bs)) None
                                          (off + N.of_nat (ntag + nlen) + size) in
                (mkVisit num (off + N.of_nat (ntag + nlen)) size
                         (firstn (N.to_nat size) (skipn (ntag + nlen) bs)) :: vs, r)
        | _ => ([], WErr code_invalid_argument)
        end
  end.
Proof.
  intro H. rewrite wire_visit_S. destruct (length bs <? 32)%nat; (destruct bs; [congruence|reflexivity]).
Qed.

Lemma app_ne {T} (a b : list T) : (1 <= length a)%nat -> a ++ b <> [].
Proof. destruct a; cbn; [lia|discriminate]. Qed.

Lemma truncated_field f num p j off :
  wf_num num -> N.of_nat (length p) < 2 ^ 64 ->
  (0 < j < length (encode_field num p))%nat ->
  wire_visit (S f) (firstn j (encode_field num p)) None off = ([], WErr code_invalid_argument).
Proof.
  intros Hn Hp Hj. rewrite encode_field_length in Hj. unfold hdr_len in Hj.
  rewrite <- (app_nil_r (encode_field num p)), encode_field_split, app_nil_r.
  pose proof (tag_bytes_length num) as HT. pose proof (len_bytes_length p) as HL.
  destruct (Nat.lt_ge_cases j (length (tag_bytes num))) as [C1|C1].
  - (* cut inside the tag *)
    assert (E : firstn j (tag_bytes num ++ len_bytes p ++ p) = firstn j (tag_bytes num)).
    { rewrite firstn_app. replace (j - length (tag_bytes num))%nat with 0%nat by lia.
      cbn. apply app_nil_r. }
    rewrite E. rewrite wire_visit_S_ne.
    2:{ destruct (tag_bytes num); [cbn in HT; lia|]. destruct j; [lia|]. cbn. discriminate. }
    rewrite (firstn_all2 (n := 32)) by (rewrite firstn_length; lia).
    unfold consume_tag, consume_varint, tag_bytes, enc_varint.
    rewrite varint_truncated by exact C1. reflexivity.
  - destruct (Nat.lt_ge_cases j (length (tag_bytes num) + length (len_bytes p))) as [C2|C2].
    + (* cut inside the length *)
      assert (E : firstn j (tag_bytes num ++ len_bytes p ++ p)
                  = tag_bytes num ++ firstn (j - length (tag_bytes num)) (len_bytes p)).
      { rewrite firstn_app_le by lia. f_equal. rewrite firstn_app.
        replace (j - length (tag_bytes num) - length (len_bytes p))%nat with 0%nat by lia.
        cbn. apply app_nil_r. }
      rewrite E. rewrite wire_visit_S_ne by (apply app_ne; lia).
      rewrite (firstn_all2 (n := 32)) by (rewrite app_length, firstn_length; lia).
      rewrite consume_tag_enc by exact Hn.
      change (negb (bytes_type =? bytes_type)) with false. cbv iota.
      rewrite skipn_app_exact. unfold consume_varint, len_bytes, enc_varint.
      rewrite varint_truncated by (fold (enc_varint (N.of_nat (length p))); fold (len_bytes p); lia).
      reflexivity.
    + (* cut inside the payload *)
      set (j' := (j - length (tag_bytes num) - length (len_bytes p))%nat).
      assert (E : firstn j (tag_bytes num ++ len_bytes p ++ p) = tag_bytes num ++ len_bytes p ++ firstn j' p).
      { rewrite firstn_app_le by lia. f_equal. rewrite firstn_app_le by lia. reflexivity. }
      rewrite E. rewrite wire_visit_S_ne by (apply app_ne; lia).
      assert (Hh : firstn 32 (tag_bytes num ++ len_bytes p ++ firstn j' p)
                   = tag_bytes num ++ len_bytes p
                     ++ firstn (32 - length (tag_bytes num) - length (len_bytes p)) (firstn j' p)).
      { rewrite firstn_app_le by lia. f_equal. rewrite firstn_app_le by lia. reflexivity. }
      rewrite Hh, consume_tag_enc by exact Hn.
      change (negb (bytes_type =? bytes_type)) with false. cbv iota.
      rewrite skipn_app_exact. unfold len_bytes at 1. rewrite consume_varint_enc by exact Hp.
      fold (len_bytes p).
      destruct (max_int64 - off <? N.of_nat (length p)); [reflexivity|].
      assert (Hr : skipn (length (tag_bytes num) + length (len_bytes p))
                         (tag_bytes num ++ len_bytes p ++ firstn j' p) = firstn j' p).
      { rewrite app_assoc, <- app_length. apply skipn_app_exact. }
      rewrite Hr.
      assert (E2 : (N.of_nat (length (firstn j' p)) <? N.of_nat (length p)) = true).
      { apply N.ltb_lt. rewrite firstn_length. unfold j'. lia. }
      rewrite E2. reflexivity.
Qed.

(** A message cut strictly inside one of its fields: the complete fields before
    the cut are visited and the visitor fails with INVALID_ARGUMENT - never a
    silent short visit.  (A cut exactly between two fields is itself a
    well-formed shorter message, see [wire_visit_wellformed]; only the CAS
    reader's size/checksum validation can tell, and it reports a read error,
    see [wire_visit_all_read_error].) *)
Theorem wire_visit_truncated : forall fs num p j,
  Forall (fun f => wf_num (fst f)) fs -> wf_num num ->
  N.of_nat (length (encode_fields fs)) + N.of_nat (length p) <= max_int64 ->
  (0 < j < length (encode_field num p))%nat ->
  wire_visit_all (encode_fields fs ++ firstn j (encode_field num p)) None
  = (visits_of 0 fs, WErr code_invalid_argument).
Proof.
  intros fs num p j Hwf Hn Hlen Hj. unfold wire_visit_all.
  assert (Hfs : (length fs <= length (encode_fields fs))%nat).
  { clear. induction fs as [|[n q] t IH]; cbn [encode_fields length]; [lia|].
    rewrite app_length, encode_field_length. pose proof (tag_bytes_length n). unfold hdr_len. lia. }
  rewrite visit_fields; [|exact Hwf|lia|rewrite app_length; lia].
  assert (Hf : exists k, (S (length (encode_fields fs ++ firstn j (encode_field num p))) - length fs = S k)%nat).
  { rewrite app_length. eexists (length (encode_fields fs) + length (firstn j (encode_field num p)) - length fs)%nat. lia. }
  destruct Hf as [k Hk]. rewrite Hk.
  rewrite truncated_field; [|exact Hn| |exact Hj].
  2:{ unfold max_int64 in Hlen. change (2 ^ 64) with 18446744073709551616. lia. }
  cbn [fst snd]. rewrite app_nil_r. reflexivity.
Qed.

(** The model's header window is the code's br.Peek(n) (regenerated constant):
    a change of that literal in pkg/util/proto.go breaks this proof. *)
Lemma peek_size_is_modelled : c13_peek_size = 32%nat.
Proof. reflexivity. Qed.
