(** C01 proofs: provenance / thread-id part, assembly.  "The C01 monitor is
    silent on the model's own observations" is reduced to a data invariant
    [DS] of the store (proved elsewhere): clause 2 (provenance) and the
    thread-id bookkeeping are proved here from the schedule hypotheses
    [wf_ops] and [wf_tids]; clauses 1 and 3 follow from [read_ok] before the
    first corruption and from the validating reader afterwards. *)
From Coq Require Import List NArith ZArith Bool Arith Lia.
From BBS Require Import Common.Sx Store.Model Store.Wf Store.WfTids Run.RStore Run.R01
  Store.P01Defs Store.P01Inv Store.P01ProvA Store.P01ProvB Store.P01ProvC Store.P01ProvD Store.P01ProvE.
Import ListNotations.
Local Open Scope nat_scope.

Definition pd_next (pd : list (nat * (nat * nat))) (e : op) : list (nat * (nat * nat)) :=
  match e with OGfcStart tid p _ ch => (tid, (p, ch)) :: pd | _ => pd end.
Definition sn_next (sn : list nat) (e : op) : list nat :=
  match start_tid e with Some t => t :: sn | None => sn end.

Lemma wf_ops_next w pd e rest : wf_ops w pd (e :: rest) = true -> wf_ops w (pd_next pd e) rest = true.
Proof.
  destruct e; cbn [wf_ops pd_next]; intros H; try exact H;
    repeat (apply andb_prop in H; destruct H as [? H]); exact H.
Qed.
Lemma wf_tids_next sn e rest :
  wf_tids_from sn (e :: rest) = true ->
  wf_tids_from (sn_next sn e) rest = true /\ (forall t, start_tid e = Some t -> ~ In t sn).
Proof.
  cbn [wf_tids_from]. unfold sn_next. destruct (start_tid e) as [t|].
  - intros H. apply andb_prop in H. destruct H as [H1 H2]. split; [exact H2|].
    intros t' E. injection E as <-. intros Hin. apply existsb_eqb_In in Hin. rewrite Hin in H1. discriminate.
  - intros H. split; [exact H|discriminate].
Qed.

Lemma pinv_step_wf w m s pd sn e rest :
  PI w m s pd sn -> wf_ops w pd (e :: rest) = true -> step_wf w s e.
Proof.
  intros HP WF. destruct e; cbn [step_wf]; try exact I.
  destruct (thr_get (s_threads s) tid) as [t|] eqn:ET; [|exact I].
  destruct t; try exact I.
  pose proof (p_thr _ _ _ _ _ _ _ _ HP _ _ ET) as TO. cbn [thr_ok] in TO.
  destruct TO as (_ & _ & _ & ch & EA).
  destruct (p_gfcs _ _ _ _ _ _ _ _ HP _ _ _ _ EA) as (_ & PF & _).
  eapply wf_slice; eauto.
Qed.

Lemma ev_all w m s pd sn e rest s1 out :
  PI w m s pd sn -> m_viol m = [] ->
  wf_ops w pd (e :: rest) = true -> wf_tids_from sn (e :: rest) = true ->
  step w s e = (s1, out) ->
  (m_corrupted m = false -> read_ok w s e s1 out) ->
  let m1 := mon01_body w m e (enc_obs (w_cfg w) e s s1 out) in
  PI w m1 s1 (pd_next pd e) (sn_next sn e) /\ m_viol m1 = [].
Proof.
  intros HP HV WF WT ST RO. apply wf_tids_next in WT. destruct WT as [_ NS].
  destruct e; cbn [pd_next sn_next start_tid] in *.
  - eapply ev_putstart; eauto.
  - eapply ev_putchunk; eauto.
  - eapply ev_putend; eauto.
  - eapply ev_getopen; eauto.
  - eapply ev_getconsume; eauto.
  - eapply ev_findmissing; eauto.
  - eapply ev_gfcstart; eauto.
  - eapply ev_gfcslice; eauto.
  - eapply ev_corrupt; eauto.
Qed.

Lemma pinv_init w : PI w m01_init (init_state (w_cfg w)) [] [].
Proof.
  unfold PI. cbn [m01_init m_puts m_gets m_gfcs m_uploaded]. split.
  - intros k l H. destruct H.
  - intros tid t H. discriminate.
  - intros tid ob i H. discriminate.
  - intros tid p i ch H. discriminate.
Qed.

Definition obs_from (w : world) (s : state) (es : list op) : list sx :=
  map (fun '(e, (s0, s1, o)) => enc_obs (w_cfg w) e s0 s1 o) (combine es (run_states w s es)).

Lemma obs_from_cons w s e es :
  obs_from w s (e :: es) =
  enc_obs (w_cfg w) e s (fst (step w s e)) (snd (step w s e)) :: obs_from w (fst (step w s e)) es.
Proof. unfold obs_from. cbn [run_states]. destruct (step w s e) as [s1 o]. reflexivity. Qed.

Definition no_corrupt (es : list op) : bool := forallb (fun e => negb (is_corrupt e)) es.

Section Assembly.
  Variable DS : world -> state -> Prop.
  Variable cov : world -> op -> bool.
  Hypothesis DS_init : forall w, wf_world w = true -> DS w (init_state (w_cfg w)).
  Hypothesis DS_step : forall w s e, wf_world w = true -> DS w s -> cov w e = true -> is_corrupt e = false ->
      step_wf w s e ->
      DS w (fst (step w s e)) /\ read_ok w s e (fst (step w s e)) (snd (step w s e)).

  Lemma run_gen w : wf_world w = true -> forall es m s pd sn,
      PI w m s pd sn -> m_viol m = [] -> (m_corrupted m = false -> DS w s) ->
      wf_ops w pd es = true -> wf_tids_from sn es = true -> forallb (cov w) es = true ->
      m_viol (mon01_run w m es (obs_from w s es)) = [] /\
      (m_corrupted m = false -> no_corrupt es = true ->
       DS w (fst (run w s es)) /\ s_negs (fst (run w s es)) = s_negs s).
  Proof.
    intros WW. induction es as [|e rest IH]; intros m s pd sn HP HV HD WF WT CV.
    { cbn [mon01_run run fst]. split; [exact HV|]. intros Hc _. split; [apply HD; exact Hc|reflexivity]. }
    rewrite obs_from_cons. cbn [mon01_run].
    cbn [forallb] in CV. apply andb_prop in CV. destruct CV as [CVe CV].
    destruct (step w s e) as [s1 o] eqn:ST. cbn [fst snd].
    assert (RO : m_corrupted m = false -> read_ok w s e s1 o /\ (is_corrupt e = false -> DS w s1)).
    { intros Hc. destruct (is_corrupt e) eqn:EC.
      - split; [|discriminate]. destruct e; try discriminate. apply step_corrupt in ST.
        destruct ST as (_ & N & _). split; [exact N|exact I].
      - pose proof (DS_step w s e WW (HD Hc) CVe EC (pinv_step_wf _ _ _ _ _ _ _ HP WF)) as X.
        rewrite ST in X. cbn [fst snd] in X. destruct X as [X1 X2]. split; [exact X2|intros _; exact X1]. }
    assert (TEST : (0 <? ob_negs (enc_obs (w_cfg w) e s s1 o))%Z && negb (m_corrupted m) = false).
    { destruct (m_corrupted m) eqn:Hc; [apply andb_false_r|].
      destruct (RO eq_refl) as [[N _] _]. rewrite negs_test by exact N. reflexivity. }
    rewrite (mon01_step_body _ _ _ _ TEST).
    destruct (ev_all w m s pd sn e rest s1 o HP HV WF WT ST (fun Hc => proj1 (RO Hc))) as [HP1 HV1].
    pose proof (body_corrupted w m e (enc_obs (w_cfg w) e s s1 o)) as BC.
    apply wf_ops_next in WF. apply wf_tids_next in WT. destruct WT as [WT _].
    assert (HD1 : m_corrupted (mon01_body w m e (enc_obs (w_cfg w) e s s1 o)) = false -> DS w s1).
    { rewrite BC. intros H. apply orb_false_elim in H. destruct H as [H1 H2]. apply (RO H1). exact H2. }
    destruct (IH _ _ _ _ HP1 HV1 HD1 WF WT CV) as [R1 R2]. split; [exact R1|].
    intros Hc NC. cbn [no_corrupt forallb] in NC. apply andb_prop in NC. destruct NC as [NCe NC].
    apply negb_true_iff in NCe.
    assert (Hc1 : m_corrupted (mon01_body w m e (enc_obs (w_cfg w) e s s1 o)) = false).
    { rewrite BC, Hc, NCe. reflexivity. }
    destruct (R2 Hc1 NC) as [D N]. cbn [run]. rewrite ST.
    destruct (run w s1 rest) as [s2 os]. cbn [fst] in *. split; [exact D|].
    rewrite N. destruct (RO Hc) as [[N1 _] _]. exact N1.
  Qed.

  Theorem P01_assembly : forall w es,
      wf_world w = true -> wf_ops w [] es = true -> wf_tids es = true -> forallb (cov w) es = true ->
      mon01_model w es = [].
  Proof.
    intros w es WW WF WT CV. unfold mon01_model, model_obs.
    apply (run_gen w WW es m01_init (init_state (w_cfg w)) [] []); auto.
    apply pinv_init.
  Qed.

  Theorem P01_run_DS : forall w es,
      wf_world w = true -> wf_ops w [] es = true -> wf_tids es = true -> forallb (cov w) es = true ->
      forallb (fun e => negb (is_corrupt e)) es = true ->
      DS w (fst (run w (init_state (w_cfg w)) es)) /\ s_negs (fst (run w (init_state (w_cfg w)) es)) = 0%nat.
  Proof.
    intros w es WW WF WT CV NC.
    destruct (run_gen w WW es m01_init (init_state (w_cfg w)) [] []) as [_ R]; auto.
    all: try apply pinv_init.
    all: try (apply R; [reflexivity|exact NC]).
  Qed.
End Assembly.

Print Assumptions P01_assembly.
Print Assumptions P01_run_DS.
