(** C05, part 1: the counter machine.

    Every operation of the store model changes the placement counters
    (length of the block list, old/current/new, totalBlocksReleased,
    totalBlocksToBeReleased, the ghost push-back and negative-verdict
    counters) only through a handful of atomic moves.  This file defines the
    projection of a state to these counters, the atomic moves, and proves the
    counting invariants of C05 on the atomic moves only.  P05Frame.v shows
    that every [step] of the model is a finite sequence of atomic moves. *)
From Coq Require Import List NArith ZArith Bool Arith Lia Relations.
From Coq Require Import ZifyN ZifyNat ZifyBool.
From BBS Require Import Store.Model.
Import ListNotations.
Open Scope N_scope.

Record cnt := {
  k_len : nat; k_old : nat; k_cur : nat; k_new : nat;
  k_rel : N; k_tbr : N; k_pb : nat; k_negs : nat }.

Definition proj (s : state) : cnt :=
  {| k_len := length (s_blocks s); k_old := s_old s; k_cur := s_cur s; k_new := s_new s;
     k_rel := s_released s; k_tbr := s_tbr s; k_pb := s_pushbacks s; k_negs := s_negs s |}.

Definition k_pop (k : cnt) : cnt :=
  match k_len k with
  | O => k
  | S n => {| k_len := n; k_old := k_old k; k_cur := k_cur k; k_new := k_new k;
              k_rel := k_rel k + 1; k_tbr := k_tbr k; k_pb := k_pb k; k_negs := k_negs k |}
  end.
Definition k_push (k : cnt) : cnt :=
  {| k_len := S (k_len k); k_old := k_old k; k_cur := k_cur k; k_new := k_new k;
     k_rel := k_rel k; k_tbr := k_tbr k; k_pb := S (k_pb k); k_negs := k_negs k |}.
Definition k_counts (k : cnt) (o c n : nat) : cnt :=
  {| k_len := k_len k; k_old := o; k_cur := c; k_new := n;
     k_rel := k_rel k; k_tbr := k_tbr k; k_pb := k_pb k; k_negs := k_negs k |}.
Definition k_settbr (k : cnt) (t : N) : cnt :=
  {| k_len := k_len k; k_old := k_old k; k_cur := k_cur k; k_new := k_new k;
     k_rel := k_rel k; k_tbr := t; k_pb := k_pb k; k_negs := k_negs k |}.
Definition k_bump (k : cnt) (x : N) : cnt :=
  {| k_len := k_len k; k_old := k_old k; k_cur := k_cur k; k_new := k_new k;
     k_rel := k_rel k; k_tbr := N.max (k_tbr k) x; k_pb := k_pb k; k_negs := S (k_negs k) |}.
Definition k_dec (k : cnt) : cnt :=
  match k_old k, k_cur k with
  | S o, _ => k_counts k o (k_cur k) (k_new k)
  | O, S cu => k_counts k O cu (k_new k)
  | O, O => k_counts k O O (pred (k_new k))
  end.

(** the atomic moves *)
Inductive catom (c : config) : cnt -> cnt -> Prop :=
| ca_release k : k_rel k < k_tbr k -> catom c k (k_dec (k_pop k))
      (* loop 1 of findBlockWithSpace: honour a quarantine request *)
| ca_grow k : catom c k (k_counts (k_push k) (k_old k) (k_cur k) (S (k_new k)))
      (* loop 2: one more new block *)
| ca_shift k : (0 < k_new k)%nat -> catom c k (k_counts k (k_old k) (S (k_cur k)) (pred (k_new k)))
      (* loop 3: surplus new block becomes current *)
| ca_rot_cur k : catom c k (k_counts (k_push k) (k_old k) (S (k_cur k)) (k_new k))
      (* loop 3, mutable policy: push back, current grows *)
| ca_rot_old k : (S (k_old k) <= c_old c)%nat ->
      catom c k (k_counts (k_push k) (S (k_old k)) (k_cur k) (k_new k))
      (* loop 3: push back, old grows (initial fill of the old blocks) *)
| ca_rot_pop k : (c_old c < S (k_old k))%nat ->
      catom c k (let k4 := k_pop (k_counts (k_push k) (S (k_old k)) (k_cur k) (k_new k)) in
                 let k5 := k_counts k4 (pred (k_old k4)) (k_cur k4) (k_new k4) in
                 k_settbr k5 (N.max (k_tbr k5) (k_rel k5)))
      (* loop 3, steady state: push back, drop the oldest old block *)
| ca_bump k x : catom c k (k_bump k x).
      (* a negative data-integrity verdict: quarantine up to x *)

Definition creach (c : config) : cnt -> cnt -> Prop := clos_refl_trans _ (catom c).

Lemma creach_refl c k : creach c k k.
Proof. apply rt_refl. Qed.
Lemma creach_trans c a b d : creach c a b -> creach c b d -> creach c a d.
Proof. apply rt_trans. Qed.
Lemma creach_atom c a b : catom c a b -> creach c a b.
Proof. apply rt_step. Qed.
Lemma creach_eq c a b : a = b -> creach c a b.
Proof. intros ->. apply rt_refl. Qed.

(** induction principle: a property closed under atoms is closed under creach *)
Lemma creach_ind_atoms c (Q : cnt -> Prop) :
  (forall a b, catom c a b -> Q a -> Q b) -> forall a b, creach c a b -> Q a -> Q b.
Proof.
  intros H a b R. induction R; eauto.
Qed.

(** ---- monotone quantities ---- *)
Definition k_end (k : cnt) : N := k_rel k + N.of_nat (k_len k).

Definition kmono (a b : cnt) : Prop :=
  (k_pb a <= k_pb b)%nat /\ (k_negs a <= k_negs b)%nat /\ k_tbr a <= k_tbr b /\
  k_rel a <= k_rel b /\ k_end a <= k_end b.

Ltac destr_k k := destruct k as [len old cur new rel tbr pb negs].

Lemma catom_mono c a b : catom c a b -> kmono a b.
Proof.
  intros H; inversion H; subst; clear H; destr_k a; unfold kmono, k_end, k_dec, k_pop, k_push, k_counts, k_settbr, k_bump in *;
    cbn [k_len k_old k_cur k_new k_rel k_tbr k_pb k_negs] in *.
  - destruct len; cbn [k_len k_old k_cur k_new k_rel k_tbr k_pb k_negs];
      destruct old; cbn [k_len k_old k_cur k_new k_rel k_tbr k_pb k_negs]; try destruct cur;
      cbn [k_len k_old k_cur k_new k_rel k_tbr k_pb k_negs]; lia.
  - lia.
  - lia.
  - lia.
  - lia.
  - lia.
  - lia.
Qed.

Lemma creach_mono c a b : creach c a b -> kmono a b.
Proof.
  intros R. induction R.
  - eapply catom_mono; eauto.
  - unfold kmono; lia.
  - unfold kmono in *; lia.
Qed.

(** ---- structural invariants of reachable counter states ---- *)
Record kinv (c : config) (k : cnt) : Prop := {
  ki_len : k_len k = (k_old k + k_cur k + k_new k)%nat;
  ki_rel_tbr : k_rel k <= k_tbr k;
  ki_pb : k_rel k + N.of_nat (k_len k) = N.of_nat (k_pb k);
  ki_old : (k_old k <= c_old c)%nat;
  ki_noneg : k_negs k = O -> k_tbr k <= k_rel k;
}.

Lemma kinv_init c : kinv c (proj (init_state c)).
Proof. constructor; cbn; lia. Qed.

Lemma catom_kinv c a b : catom c a b -> kinv c a -> kinv c b.
Proof.
  intros H [I1 I2 I3 I4 I5]; inversion H; subst; clear H; destr_k a;
    unfold k_dec, k_pop, k_push, k_counts, k_settbr, k_bump in *;
    cbn [k_len k_old k_cur k_new k_rel k_tbr k_pb k_negs] in *.
  - destruct len; cbn [k_len k_old k_cur k_new k_rel k_tbr k_pb k_negs];
      destruct old; cbn [k_len k_old k_cur k_new k_rel k_tbr k_pb k_negs]; try destruct cur;
      cbn [k_len k_old k_cur k_new k_rel k_tbr k_pb k_negs];
      constructor; cbn [k_len k_old k_cur k_new k_rel k_tbr k_pb k_negs]; lia.
  - constructor; cbn [k_len k_old k_cur k_new k_rel k_tbr k_pb k_negs]; lia.
  - constructor; cbn [k_len k_old k_cur k_new k_rel k_tbr k_pb k_negs]; lia.
  - constructor; cbn [k_len k_old k_cur k_new k_rel k_tbr k_pb k_negs]; lia.
  - constructor; cbn [k_len k_old k_cur k_new k_rel k_tbr k_pb k_negs]; lia.
  - constructor; cbn [k_len k_old k_cur k_new k_rel k_tbr k_pb k_negs]; lia.
  - constructor; cbn [k_len k_old k_cur k_new k_rel k_tbr k_pb k_negs]; lia.
Qed.

Lemma creach_kinv c a b : creach c a b -> kinv c a -> kinv c b.
Proof. apply creach_ind_atoms. apply catom_kinv. Qed.

(** ---- the counting core of C05 ----

    [T] is the absolute number of a block, [P0] the push-back count and [n0]
    the negative-verdict count at the moment of the touch.  As long as no
    further negative verdict occurs:
    - released + old never exceeds T by more than the push-backs since;
    - the quarantine mark never exceeds T by more than the push-backs since
      in excess of c_old. *)
Definition surv (c : config) (T : N) (P0 n0 : nat) (k : cnt) : Prop :=
  (n0 <= k_negs k)%nat /\ (P0 <= k_pb k)%nat /\
  (k_negs k = n0 ->
     k_tbr k + N.of_nat (c_old c) + N.of_nat P0 <= T + N.max (N.of_nat (k_pb k)) (N.of_nat P0 + N.of_nat (c_old c)) /\
     k_rel k + N.of_nat (c_old c) + N.of_nat P0 <= T + N.max (N.of_nat (k_pb k)) (N.of_nat P0 + N.of_nat (c_old c)) /\
     k_rel k + N.of_nat (k_old k) + N.of_nat P0 <= T + N.of_nat (k_pb k)).

Lemma surv_start c T k :
  k_tbr k <= T -> k_rel k + N.of_nat (k_old k) <= T -> surv c T (k_pb k) (k_negs k) k.
Proof. unfold surv; intros; lia. Qed.

Lemma catom_surv c T P0 n0 a b : catom c a b -> surv c T P0 n0 a -> surv c T P0 n0 b.
Proof.
  intros H (S1 & S2 & S3); inversion H; subst; clear H; destr_k a;
    unfold surv, k_dec, k_pop, k_push, k_counts, k_settbr, k_bump in *;
    cbn [k_len k_old k_cur k_new k_rel k_tbr k_pb k_negs] in *.
  - destruct len; cbn [k_len k_old k_cur k_new k_rel k_tbr k_pb k_negs];
      destruct old; cbn [k_len k_old k_cur k_new k_rel k_tbr k_pb k_negs]; try destruct cur;
      cbn [k_len k_old k_cur k_new k_rel k_tbr k_pb k_negs]; lia.
  - lia.
  - lia.
  - lia.
  - lia.
  - lia.
  - lia.
Qed.

Lemma creach_surv c T P0 n0 a b : creach c a b -> surv c T P0 n0 a -> surv c T P0 n0 b.
Proof. apply creach_ind_atoms. intros; eapply catom_surv; eauto. Qed.

(** an earlier stamp is a weaker claim *)
Lemma surv_weaken c T P0 P0' n0 k : (P0' <= P0)%nat -> surv c T P0 n0 k -> surv c T P0' n0 k.
Proof. unfold surv; intros; lia. Qed.

(** the conclusion: within c_old push-backs the block is not quarantined *)
Lemma surv_valid c T P0 n0 k :
  surv c T P0 n0 k -> k_negs k = n0 -> (k_pb k - P0 <= c_old c)%nat -> k_tbr k <= T.
Proof. unfold surv; intros; lia. Qed.

(** The counting core, on the counter machine: a block that is not old
    ([rel + old <= T]) and not quarantined ([tbr <= T]) in [a] is not
    quarantined in any [b] reached with at most c_old push-backs and without
    a negative verdict; it is still below the end of the list. *)
Theorem nonold_survives_cnt c a b T :
  creach c a b ->
  k_tbr a <= T -> k_rel a + N.of_nat (k_old a) <= T -> T < k_end a ->
  k_negs b = k_negs a -> (k_pb b - k_pb a <= c_old c)%nat ->
  k_tbr b <= T /\ k_rel b <= T /\ T < k_end b.
Proof.
  intros R H1 H2 H3 H4 H5.
  pose proof (creach_surv c T _ _ a b R (surv_start c T a H1 H2)) as S.
  pose proof (creach_mono c a b R) as M. unfold kmono in M.
  pose proof (surv_valid c T _ _ b S H4 H5).
  assert (k_rel b <= T).
  { destruct S as (_ & _ & S). specialize (S H4). lia. }
  lia.
Qed.

(** The bound is tight: with one more push-back the block may be gone
    (steady state: old = c_old, the touched block is the oldest non-old one). *)
Example bound_is_tight :
  let c := {| c_bs := 4; c_old := 1; c_cur := 0; c_new := 1; c_mutable := false; c_nblocks := 0;
              c_hier := false; c_inst_keys := false; c_validate := false |} in
  let a := {| k_len := 2; k_old := 1; k_cur := 0; k_new := 1; k_rel := 0; k_tbr := 0; k_pb := 2; k_negs := 0 |} in
  exists b, creach c a b /\ k_negs b = k_negs a /\ (k_pb b - k_pb a = S (c_old c))%nat /\ 1 < k_tbr b.
Proof.
  cbv zeta.
  eexists. split.
  - eapply creach_trans; [apply creach_atom; apply ca_rot_pop; cbn; lia|].
    apply creach_atom; apply ca_rot_pop; cbn; lia.
  - vm_compute. repeat split; reflexivity.
Qed.
