(** C05, part 10: refutation witnesses (late-stamped retention - clauses 5
    and 6 of the R05 monitor - is violated on the model's own observations;
    both witnesses replay on the real implementation: corpus/C05) and
    non-vacuity instances. *)
From Coq Require Import List NArith ZArith Bool Arith Lia.
From BBS Require Import Common.Sx Store.Model Store.Wf Store.WfTids Run.RStore Run.R01 Run.R05.
From BBS Require Import Store.P05Cnt Store.P05Frame Store.P05Ops Store.P05Step Store.P05Surv Store.P05Mon Store.P05Inv Store.P05Main Store.P05Touch.
Import ListNotations.
Open Scope Z_scope.

(** encoders (inverse of RStore's decoders on these instances) *)
Definition enc_cfg (c : config) : sx :=
  L [of_N (c_bs c); of_nat (c_old c); of_nat (c_cur c); of_nat (c_new c); of_bool (c_mutable c);
     of_nat (c_nblocks c); of_bool (c_hier c); of_bool (c_inst_keys c); of_bool (c_validate c)].
Definition enc_op (e : op) : sx :=
  match e with
  | OPutStart t o i => L [A 1; of_nat t; of_nat o; of_nat i]
  | OPutChunk t d => L [A 2; of_nat t; of_Ns d]
  | OPutEnd t err => L [A 3; of_nat t; A err]
  | OGetOpen t o i => L [A 4; of_nat t; of_nat o; of_nat i]
  | OGetConsume t => L [A 5; of_nat t]
  | OFindMissing ds => L [A 6; L (map (fun d => L [of_nat (fst d); of_nat (snd d)]) ds)]
  | OGfcStart t p i ch => L [A 7; of_nat t; of_nat p; of_nat i; of_nat ch]
  | OGfcSlice t sl => L [A 8; of_nat t; L (map (fun d => L [of_nat (fst d); of_N (fst (snd d)); of_N (snd (snd d))]) sl)]
  | OCorrupt r off len => L [A 9; of_nat r; of_N off; of_N len]
  end.
Definition enc_inp (w : world) (es : list op) : sx :=
  L [enc_cfg (w_cfg w); L (map of_Ns (w_objs w)); L (map of_nats (w_anc w)); L (map enc_op es)].

Definition objs : list (list N) := map (fun k => [k; k; k; k]%N) [1; 2; 3; 4; 5; 6]%N.
Definition put (t o : nat) : list op := [OPutStart t o 0; OPutChunk t (nth o objs []); OPutEnd t 0].
Definition cfg (old : nat) (hier : bool) : config :=
  {| c_bs := 4%N; c_old := old; c_cur := 0; c_new := 1; c_mutable := false; c_nblocks := 0;
     c_hier := hier; c_inst_keys := hier; c_validate := false |}.
Definition world_of (c : config) : world := {| w_cfg := c; w_objs := objs; w_anc := [[0%nat]] |}.

(** Witness A: a reader held open across rotations.  old=1, cur=0, new=1,
    one object per block.  The reader of object 0 is opened, two uploads
    rotate its block out, the reader is consumed (served from the pinned
    block) - the monitor stamps the touch now - and the next Get finds
    nothing: 0 push-backs after the stamp. *)
Definition wA : world := world_of (cfg 1 false).
Definition esA : list op :=
  put 1 0 ++ [OGetOpen 9 0 0] ++ put 2 1 ++ put 3 2 ++ [OGetConsume 9; OGetOpen 10 0 0].

Example witnessA_wellformed :
  wf_world wA = true /\ wf_ops wA [] esA = true /\ wf_tids esA = true /\
  dec_world (enc_inp wA esA) = wA /\ dec_ops (enc_inp wA esA) = esA.
Proof. vm_compute. repeat split. Qed.
Example witnessA_integrity : integ wA (init_state (w_cfg wA)) esA.
Proof. vm_compute. repeat split. Qed.
Example clause5_refuted :
  mon05 (enc_inp wA esA) (run_store (enc_inp wA esA)) = [5].
Proof. vm_compute. reflexivity. Qed.
Example witnessA_early_silent : mon05_early wA esA = [].
Proof. vm_compute. reflexivity. Qed.
(** the literal touch statement for Get is false: after the successful
    OGetConsume the object is under no lookup key *)
Example get_consume_literal_refuted :
  let es := put 1 0 ++ [OGetOpen 9 0 0] ++ put 2 1 ++ put 3 2 ++ [OGetConsume 9] in
  let s := fst (run wA (init_state (w_cfg wA)) es) in
  nth 10 (snd (run wA (init_state (w_cfg wA)) es)) Bad = Done cOK (nth 0 objs []) /\
  least_specific s (lookup_keys wA 0 0) = None.
Proof. vm_compute. split; reflexivity. Qed.

(** Witness B: a FindMissing with two digests.  old=2, cur=0, new=1.  Both
    objects sit in old blocks; refreshing the second one rotates the block
    holding the fresh copy of the first one into the old region.  The call
    returns after 5 push-backs (stamp); object 0 is lost at push-back 7:
    2 <= c_old push-backs after the stamp.  The guarantee is short by the
    one push-back performed inside the call after the first refresh. *)
Definition wB : world := world_of (cfg 2 false).
Definition esB : list op :=
  put 1 0 ++ put 2 1 ++ put 3 2 ++ [OFindMissing [(0, 0); (1, 0)]%nat] ++ put 4 3 ++ put 5 4 ++ [OGetOpen 10 0 0].

Example witnessB_wellformed :
  wf_world wB = true /\ wf_ops wB [] esB = true /\ wf_tids esB = true /\
  dec_world (enc_inp wB esB) = wB /\ dec_ops (enc_inp wB esB) = esB.
Proof. vm_compute. repeat split. Qed.
Example witnessB_integrity : integ wB (init_state (w_cfg wB)) esB.
Proof. vm_compute. repeat split. Qed.
Example clause6_refuted :
  mon05 (enc_inp wB esB) (run_store (enc_inp wB esB)) = [6].
Proof. vm_compute. reflexivity. Qed.
Example witnessB_early_silent : mon05_early wB esB = [].
Proof. vm_compute. reflexivity. Qed.
(** the literal touch statement for multi-digest FindMissing is false: when
    the call returns, object 0 (reported present) is at an OLD location *)
Example find_missing_multi_literal_refuted :
  let es := put 1 0 ++ put 2 1 ++ put 3 2 ++ [OFindMissing [(0, 0); (1, 0)]%nat] in
  let s := fst (run wB (init_state (w_cfg wB)) es) in
  nth 9 (snd (run wB (init_state (w_cfg wB)) es)) Bad = Missing cOK [] /\
  option_map (needs_refresh s) (index_get s (0, 0)%nat) = Some true.
Proof. vm_compute. split; reflexivity. Qed.

(** Witness C: stale monitor bookkeeping when thread ids are re-used
    (excluded by wf_tids; the harness never does it).  Hierarchical store,
    old=1.  Reader 9 of object 0 is opened and consumed through OGfcSlice
    (the monitor's table keeps the entry); object 0 is rotated out; a
    composite read of object 2 re-uses id 9 and is consumed by OGetConsume:
    the R05 monitor books a touch of object 0: with the stamp of the first
    open for clause 1 (a true statement about object 0: silent), with the
    current stamp for clause 5 (reported). *)
Definition wC : world := world_of (cfg 1 true).
Definition esC : list op :=
  put 1 0 ++ [OGetOpen 9 0 0; OGfcSlice 9 []] ++ put 2 1 ++ put 3 2 ++
  [OGfcStart 9 2 0 2; OGetConsume 9; OGetOpen 10 0 0].
Example reused_thread_id_confuses_monitor :
  wf_world wC = true /\ wf_tids esC = false /\
  mon05 (enc_inp wC esC) (run_store (enc_inp wC esC)) = [5] /\ mon05_early wC esC = [].
Proof. vm_compute. repeat split. Qed.

(** Non-vacuity: a schedule with a refreshing single-digest
    FindMissing (object 1, stamp 4), a refreshing Get (object 2), and the
    loss of object 1 at push-back 7 = stamp + c_old + 1 (NOT_FOUND, rightly
    not reported): all hypotheses of the monitor theorem hold and the
    monitor is silent. *)
Definition esD : list op :=
  put 1 0 ++ put 2 1 ++ put 3 2 ++ [OFindMissing [(1, 0)]%nat] ++ [OGetOpen 9 2 0; OGetConsume 9] ++
  put 4 3 ++ put 5 4 ++ [OGetOpen 10 1 0; OGetOpen 11 2 0; OGetConsume 11].
Example monitor_theorem_non_vacuous :
  wf_world wB = true /\ wf_ops wB [] esD = true /\ wf_tids esD = true /\
  mon05 (enc_inp wB esD) (run_store (enc_inp wB esD)) = [] /\
  map (fun x => match snd (snd x) with Done c _ => c | Missing c _ => c | _ => (-9) end) (run_x wB esD)
  = [-9; -9; 0; -9; -9; 0; -9; -9; 0; 0; -9; 0; -9; -9; 0; -9; -9; 0; 5; -9; 0]
  /\ s_pushbacks (fst (run wB (init_state (w_cfg wB)) esD)) = 8%nat.
Proof. vm_compute. repeat split. Qed.
Example monitor_theorem_non_vacuous_integ : integ wB (init_state (w_cfg wB)) esD.
Proof. vm_compute. repeat split. Qed.
