(** C10 — the monitor [mon10] (Run/R10.v = C01's clauses 1-3 + clause 4) on
    runs of the hierarchical store model: clause 2 (provenance) and clause 4
    (readable under every descendant) never fire.  Proofs only. *)
From Coq Require Import List NArith ZArith Bool Arith Lia ZifyN ZifyNat ZifyBool.
From BBS Require Import Common.Sx Store.Model Store.P08Frame Store.P08Step Store.P08Quarantine Store.P08Monitor
  Store.P10Inv Store.P10Visible Store.P10Shape Run.RStore Run.R01 Run.R10.
Import ListNotations.
Open Scope Z_scope.

#[local] Arguments completed : simpl never.
#[local] Arguments step : simpl never.
#[local] Arguments enc_obs : simpl never.

Definition m01_init : m01 :=
  {| m_puts := []; m_gets := []; m_gfcs := []; m_uploaded := []; m_corrupted := false; m_viol := [] |}.
Definition m10_init : m10 := {| h_puts := []; h_ups := []; h_viol := [] |}.

(** the monitors fed with the model's own observations *)
Definition mon01_raw (w : world) (es : list op) : list Z :=
  m_viol (mon01_run w m01_init es (model_obs w es (run_states w (init_state (w_cfg w)) es))).
Definition mon01_model (w : world) (es : list op) : list Z := dedupZ (mon01_raw w es).
Definition mon10_clause4 (w : world) (es : list op) : list Z :=
  let sts := run_states w (init_state (w_cfg w)) es in
  h_viol (fold_left (m10_step w) (combine (combine es sts) (model_obs w es sts)) m10_init).
Definition mon10_model (w : world) (es : list op) : list Z :=
  dedupZ (mon01_model w es ++ (if c_hier (w_cfg w) then mon10_clause4 w es else [])).

Lemma mon01_model_eq inp : mon01 inp (run_store inp) = mon01_model (dec_world inp) (dec_ops inp).
Proof. reflexivity. Qed.
Lemma mon10_model_eq inp : mon10 inp (run_store inp) = mon10_model (dec_world inp) (dec_ops inp).
Proof. reflexivity. Qed.

(** ---- association lists ---- *)
Lemma assoc_unassoc_other {V} (l : list (nat * V)) k k' : k' <> k -> assoc (unassoc l k) k' = assoc l k'.
Proof.
  intros Hne. unfold unassoc. induction l as [|[a v] t IH]; cbn; [reflexivity|].
  destruct (Nat.eqb a k) eqn:E; cbn.
  - apply Nat.eqb_eq in E; subst. destruct (Nat.eqb k' k) eqn:E'; [apply Nat.eqb_eq in E'; congruence|exact IH].
  - rewrite IH. reflexivity.
Qed.
Lemma assoc_unassoc_same {V} (l : list (nat * V)) k : assoc (unassoc l k) k = None.
Proof.
  unfold unassoc. induction l as [|[a v] t IH]; cbn; [reflexivity|].
  destruct (Nat.eqb a k) eqn:E; cbn; [exact IH|].
  rewrite Nat.eqb_sym, E. exact IH.
Qed.
Lemma assoc_unassoc_some {V} (l : list (nat * V)) k k' v :
  assoc (unassoc l k) k' = Some v -> k' <> k /\ assoc l k' = Some v.
Proof.
  destruct (Nat.eq_dec k' k) as [->|Hne]; [rewrite assoc_unassoc_same; discriminate|].
  rewrite assoc_unassoc_other by assumption. auto.
Qed.

(** ---- bookkeeping of uploads in flight (shared by mon01 and m10) ---- *)
Definition puts_ok (puts : list (nat * (nat * nat))) (s : state) : Prop :=
  forall tid oi, put_of (T s tid) = Some oi -> assoc puts tid = Some oi.

Definition puts_upd (puts : list (nat * (nat * nat))) (e : op) (out : out) : list (nat * (nat * nat)) :=
  match e, out with
  | OPutStart tid ob i, Parked => (tid, (ob, i)) :: puts
  | OPutChunk tid _, Done _ _ | OPutEnd tid _, Done _ _ =>
      match assoc puts tid with Some _ => unassoc puts tid | None => puts end
  | _, _ => puts
  end.

Lemma puts_ok_step w s e s' out puts :
  shape w s e s' out -> puts_ok puts s -> puts_ok (puts_upd puts e out) s'.
Proof.
  intros Sh Hp. destruct out as [c b| |c ds|]; cbn in Sh.
  - destruct e as [tid ob i|tid data|tid err|tid ob i|tid|ds|tid p i ch|tid slices|rg off len];
      cbn [puts_upd]; try contradiction;
      try (intros tid' oi H; rewrite (T_same _ _ _ Sh) in H; apply Hp, H).
    + destruct Sh as (s1 & E1 & -> & _). intros tid' oi H.
      destruct (Nat.eq_dec tid' tid) as [->|Hne]; [rewrite T_rm_same in H; discriminate|].
      rewrite (T_rm_other s) in H by assumption. apply Hp in H.
      destruct (assoc puts tid); [rewrite assoc_unassoc_other by assumption|]; assumption.
    + destruct Sh as (s1 & E1 & -> & _). intros tid' oi H.
      destruct (Nat.eq_dec tid' tid) as [->|Hne]; [rewrite T_rm_same in H; discriminate|].
      rewrite (T_rm_other s) in H by assumption. apply Hp in H.
      destruct (assoc puts tid); [rewrite assoc_unassoc_other by assumption|]; assumption.
    + destruct Sh as (s1 & E1 & -> & _). intros tid' oi H.
      destruct (Nat.eq_dec tid' tid) as [->|Hne]; [rewrite T_rm_same in H; discriminate|].
      rewrite (T_rm_other s) in H by assumption. apply Hp, H.
    + destruct Sh as (s1 & E1 & -> & _). intros tid' oi H.
      destruct (Nat.eq_dec tid' tid) as [->|Hne]; [rewrite T_rm_same in H; discriminate|].
      rewrite (T_rm_other s) in H by assumption. apply Hp, H.
  - destruct Sh as (tid & t & s1 & Ho & E1 & -> & F).
    destruct e as [tid0 ob i|tid0 data|tid0 err|tid0 ob i|tid0|ds|tid0 p i ch|tid0 slices|rg off len];
      cbn in Ho; inv Ho; try contradiction; cbn [puts_upd]; intros tid' oi H.
    + destruct F as [Hn Hpo]. cbn [assoc].
      destruct (Nat.eqb_spec tid' tid) as [->|Hne].
      * rewrite T_set_same in H. cbn in H. rewrite Hpo in H. exact H.
      * rewrite (T_set_other s) in H by assumption. apply Hp, H.
    + destruct F as [Hn Hpo].
      destruct (Nat.eq_dec tid' tid) as [->|Hne].
      * rewrite T_set_same in H. cbn in H. rewrite Hpo in H. apply Hp, H.
      * rewrite (T_set_other s) in H by assumption. apply Hp, H.
    + destruct F as (Hn & _ & Hg).
      destruct (Nat.eq_dec tid' tid) as [->|Hne].
      * rewrite T_set_same in H. destruct t; cbn in Hg; try contradiction. discriminate.
      * rewrite (T_set_other s) in H by assumption. apply Hp, H.
    + destruct F as (Hn & Hg).
      destruct (Nat.eq_dec tid' tid) as [->|Hne].
      * rewrite T_set_same in H. destruct Hg as [[_ Hg]|[c ->]]; [|discriminate].
        destruct t; cbn in Hg; try contradiction. discriminate.
      * rewrite (T_set_other s) in H by assumption. apply Hp, H.
  - destruct Sh as [E1 [ds' ->]]. cbn. intros tid' oi H. rewrite (T_same _ _ _ E1) in H. apply Hp, H.
  - subst s'. destruct e; exact Hp.
Qed.

(** ---- clause 2 of mon01 (provenance) on hierarchical stores ---- *)
Lemma visible_intro w up o i j : c_hier (w_cfg w) = true ->
  In (o, i) up -> In i (ancestors w j) -> visible w up o j = true.
Proof.
  intros Hh H1 H2. unfold visible. rewrite Hh. apply existsb_exists. exists (o, i). split; [assumption|].
  rewrite Nat.eqb_refl. cbn. apply existsb_exists. exists i. split; [assumption|apply Nat.eqb_refl].
Qed.
Lemma visible_incl w up up' o j : incl up up' -> visible w up o j = true -> visible w up' o j = true.
Proof.
  unfold visible. intros Hi H. apply existsb_exists in H as (x & Hx & Hc). apply existsb_exists. exists x. auto.
Qed.
Lemma resolves_visible w s up o j : c_hier (w_cfg w) = true ->
  (forall o i, has_entry s (o, S i) -> In (o, i) up) -> resolves w s o j -> visible w up o j = true.
Proof.
  intros Hh Hu (k & l & Hk & Hg). destruct (lookup_key_hier _ _ _ _ Hh Hk) as (a & -> & Ha).
  apply (visible_intro w up o a j Hh); [|assumption]. apply Hu. apply index_get_some in Hg as [Hg _]. exists l. assumption.
Qed.

Record inv01 (w : world) (m : m01) (s : state) : Prop := {
  i_hinv : hinv s;
  i_puts : puts_ok (m_puts m) s;
  i_up : forall o i, has_entry s (o, S i) -> In (o, i) (m_uploaded m);
  i_gets : forall tid ob i, assoc (m_gets m) tid = Some (ob, i) -> visible w (m_uploaded m) ob i = true;
  i_gfcs : forall tid p i ch, assoc (m_gfcs m) tid = Some (p, i, ch) ->
             visible w (m_uploaded m) p i = true \/ exists c, T s tid = Some (TGfcErr c);
  i_viol : ~ In 2 (m_viol m);
}.

(** an error-buffer thread stays until it is sliced *)
Lemma err_thread_persist w s e s' out tid c : shape w s e s' out -> T s tid = Some (TGfcErr c) ->
  T s' tid = Some (TGfcErr c) \/ exists sl c' b, e = OGfcSlice tid sl /\ out = Done c' b.
Proof.
  intros Sh Ht. destruct out as [c' b| |c' ds|]; cbn in Sh.
  - destruct e as [tid0 ob i|tid0 data|tid0 err|tid0 ob i|tid0|ds|tid0 p i ch|tid0 slices|rg off len];
      try contradiction; try (left; rewrite (T_same _ _ _ Sh); assumption).
    + destruct Sh as (s1 & E1 & -> & Hp & _). destruct (Nat.eq_dec tid tid0) as [->|Hne].
      * unfold T in *. rewrite Ht in Hp. exfalso. apply Hp. reflexivity.
      * left. rewrite (T_rm_other s); assumption.
    + destruct Sh as (s1 & E1 & -> & oi & Hp & _). destruct (Nat.eq_dec tid tid0) as [->|Hne].
      * unfold T in *. rewrite Ht in Hp. discriminate.
      * left. rewrite (T_rm_other s); assumption.
    + destruct Sh as (s1 & E1 & -> & Hg). destruct (Nat.eq_dec tid tid0) as [->|Hne].
      * unfold T in *. rewrite Ht in Hg. destruct Hg.
      * left. rewrite (T_rm_other s); assumption.
    + destruct (Nat.eq_dec tid tid0) as [->|Hne]; [right; eauto|].
      destruct Sh as (s1 & E1 & -> & _). left. rewrite (T_rm_other s); assumption.
  - destruct Sh as (tid0 & t & s1 & Ho & E1 & -> & F). left.
    destruct (Nat.eq_dec tid tid0) as [->|Hne]; [|rewrite (T_set_other s); assumption].
    exfalso.
    destruct e as [tid1 ob i|tid1 data|tid1 err|tid1 ob i|tid1|ds|tid1 p i ch|tid1 slices|rg off len];
      cbn in Ho; inv Ho; try contradiction; unfold T in *; rewrite Ht in F.
    + destruct F; discriminate.
    + destruct F as [F _]. apply F. reflexivity.
    + destruct F; discriminate.
    + destruct F; discriminate.
  - destruct Sh as [E1 _]. left. rewrite (T_same _ _ _ E1). assumption.
  - subst. left. assumption.
Qed.

Lemma completed_only_put_end_ok w s e s' out oi : step w s e = (s', out) -> In oi (completed w s e) ->
  exists tid err b, e = OPutEnd tid err /\ out = Done 0 b.
Proof.
  intros Hs H. destruct oi as [o i]. apply completed_spec in H as (tid & err & b & -> & Ho & _).
  rewrite Hs in Ho. cbn in Ho. eauto.
Qed.

(** generic re-establishment of the invariant *)
Lemma inv01_update w m m' s e s' out : c_hier (w_cfg w) = true -> inv01 w m s -> step w s e = (s', out) ->
  m_puts m' = puts_upd (m_puts m) e out ->
  incl (m_uploaded m) (m_uploaded m') ->
  (forall oi, In oi (completed w s e) -> In oi (m_uploaded m')) ->
  (forall tid ob i, assoc (m_gets m') tid = Some (ob, i) ->
     assoc (m_gets m) tid = Some (ob, i) \/ visible w (m_uploaded m') ob i = true) ->
  (forall tid p i ch, assoc (m_gfcs m') tid = Some (p, i, ch) ->
     (assoc (m_gfcs m) tid = Some (p, i, ch) /\ ~ (exists sl c b, e = OGfcSlice tid sl /\ out = Done c b)) \/
     visible w (m_uploaded m') p i = true \/ exists c, T s' tid = Some (TGfcErr c)) ->
  ~ In 2 (m_viol m') ->
  inv01 w m' s'.
Proof.
  intros Hh [Hi Hp Hu Hg Hf Hv] Hs Ep Hinc Hcomp Hg' Hf' Hv'.
  pose proof (step_shape _ _ _ _ _ Hh Hi Hs) as Sh.
  destruct (step_hier _ _ _ _ _ Hh Hi Hs) as [Hi' Hent].
  constructor.
  - assumption.
  - rewrite Ep. eapply puts_ok_step; eassumption.
  - intros o i H. apply Hent in H as [[H|H]|(o' & i' & Ek & H)]; [discriminate| |].
    + apply Hinc, Hu, H.
    + inv Ek. apply Hcomp, H.
  - intros tid ob i H. apply Hg' in H as [H|H]; [|assumption]. eapply visible_incl; [exact Hinc|]. eapply Hg, H.
  - intros tid p i ch H. apply Hf' in H as [[H Hn]|H]; [|assumption].
    apply Hf in H as [H|[c H]]; [left; eapply visible_incl; [exact Hinc|exact H]|].
    destruct (err_thread_persist _ _ _ _ _ _ _ Sh H) as [H'|H']; [right; eauto|exfalso; apply Hn; exact H'].
  - assumption.
Qed.

Lemma add3_inv w m s (b : bool) : inv01 w m s -> inv01 w (if b then add_viol m [3] else m) s.
Proof.
  intros []. destruct b; [|constructor; assumption]. constructor; cbn; try assumption.
  rewrite in_app_iff. intros [H|[H|[]]]; [auto|discriminate].
Qed.

Ltac upd_same Hs :=
  first [ reflexivity
        | apply incl_refl
        | (let H := fresh in let E := fresh in let E' := fresh in
           intros ? H; destruct (completed_only_put_end_ok _ _ _ _ _ _ Hs H) as (? & ? & ? & E & E'); discriminate)
        | (let H := fresh in intros ? ? ? H; left; exact H)
        | (let H := fresh in let E := fresh in
           intros ? ? ? ? H; left; split; [exact H|intros (? & ? & ? & E & _); discriminate]) ].

Lemma not_in2_app v c : ~ In 2 v -> ~ In 2 c -> ~ In 2 (v ++ c).
Proof. intros H1 H2 H. apply in_app_or in H as []; auto. Qed.
Lemma not_in2_c1 (b : bool) : ~ In 2 ((if b then [1] else []) ++ []).
Proof. destruct b; cbn; intuition discriminate. Qed.

Lemma inv01_step w m s e s' out : c_hier (w_cfg w) = true -> inv01 w m s -> step w s e = (s', out) ->
  inv01 w (mon01_step w m e (enc_obs (w_cfg w) e s s' out)) s'.
Proof.
  intros Hh Hinv Hs. unfold mon01_step.
  pose proof (ob_kind_enc (w_cfg w) e s s' out) as Hk.
  pose proof (ob_code_enc (w_cfg w) e s s' out) as Hc.
  remember (enc_obs (w_cfg w) e s s' out) as o eqn:Eo.
  match goal with |- context [if ?b then add_viol m [3] else m] =>
    pose proof (add3_inv w m s b Hinv) as Hinv3; set (m3 := if b then add_viol m [3] else m) in * end.
  clearbody m3. clear Hinv m. rename m3 into m.
  pose proof (step_shape _ _ _ _ _ Hh (i_hinv _ _ _ Hinv3) Hs) as Sh.
  destruct e as [tid ob i|tid data|tid err|tid ob i|tid|ds|tid p i ch|tid slices|rg off len].
  - (* OPutStart *)
    destruct out as [c b| |c ds|]; rewrite Hk; cbn [Z.eqb Pos.eqb];
      (eapply inv01_update; [exact Hh|exact Hinv3|exact Hs|..]; cbn [m_puts m_gets m_gfcs m_uploaded m_viol puts_upd];
       try upd_same Hs; apply (i_viol _ _ _ Hinv3)).
  - (* OPutChunk *)
    destruct out as [c b| |c ds|]; rewrite Hk; cbn [Z.eqb Pos.eqb];
      try (eapply inv01_update; [exact Hh|exact Hinv3|exact Hs|..]; cbn [m_puts m_gets m_gfcs m_uploaded m_viol puts_upd];
           try upd_same Hs; apply (i_viol _ _ _ Hinv3)).
    destruct (assoc (m_puts m) tid) as [oi|] eqn:Ea;
      (eapply inv01_update; [exact Hh|exact Hinv3|exact Hs|..]; cbn [m_puts m_gets m_gfcs m_uploaded m_viol puts_upd];
       try rewrite Ea; try upd_same Hs; try apply (i_viol _ _ _ Hinv3)).
    destruct (ob_ok o); [apply incl_tl|]; apply incl_refl.
  - (* OPutEnd *)
    destruct out as [c b| |c ds|]; rewrite Hk; cbn [Z.eqb Pos.eqb];
      try (eapply inv01_update; [exact Hh|exact Hinv3|exact Hs|..]; cbn [m_puts m_gets m_gfcs m_uploaded m_viol puts_upd];
           try upd_same Hs; apply (i_viol _ _ _ Hinv3)).
    cbn in Sh. destruct Sh as (s1 & E1 & -> & oi' & Hpo & Hcomp).
    pose proof (i_puts _ _ _ Hinv3 _ _ Hpo) as Ea. rewrite Ea.
    eapply inv01_update; [exact Hh|exact Hinv3|exact Hs|..]; cbn [m_puts m_gets m_gfcs m_uploaded m_viol puts_upd];
      try rewrite Ea; try upd_same Hs; try apply (i_viol _ _ _ Hinv3).
    + destruct (ob_ok o); [apply incl_tl|]; apply incl_refl.
    + intros oi H. destruct (completed_only_put_end_ok _ _ _ _ _ _ Hs H) as (? & ? & b' & _ & E'). inv E'.
      rewrite (Hcomp eq_refl) in H. destruct H as [<-|[]].
      unfold ob_ok. rewrite Hk, Hc. left. reflexivity.
  - (* OGetOpen *)
    destruct out as [c b| |c ds|]; rewrite Hk; cbn [Z.eqb Pos.eqb];
      (eapply inv01_update; [exact Hh|exact Hinv3|exact Hs|..]; cbn [m_puts m_gets m_gfcs m_uploaded m_viol puts_upd];
       try upd_same Hs; try apply (i_viol _ _ _ Hinv3)).
    cbn in Sh. destruct Sh as (tid0 & t & s1 & Ho & E1 & -> & Hn & Hr & _). inv Ho.
    intros tid' ob' i' H. cbn [assoc] in H. destruct (Nat.eqb tid' tid0); [|left; exact H].
    inv H. right. eapply resolves_visible; [exact Hh|apply (i_up _ _ _ Hinv3)|exact Hr].
  - (* OGetConsume *)
    destruct (assoc (m_gets m) tid) as [[ob i]|] eqn:Ea.
    2:{ eapply inv01_update; [exact Hh|exact Hinv3|exact Hs|..]; try upd_same Hs; try apply (i_viol _ _ _ Hinv3).
        all: try (destruct out; reflexivity). }
    assert (forall v, ~ In 2 v ->
      inv01 w {| m_puts := m_puts m; m_gets := unassoc (m_gets m) tid; m_gfcs := m_gfcs m;
                 m_uploaded := m_uploaded m; m_corrupted := m_corrupted m; m_viol := v |} s') as Hm'.
    { intros v Hv. eapply inv01_update; [exact Hh|exact Hinv3|exact Hs|..]; cbn [m_puts m_gets m_gfcs m_uploaded m_viol];
        try upd_same Hs; try exact Hv.
      - intros tid' ob' i' H. apply assoc_unassoc_some in H as [_ H]. left. exact H. }
    destruct (ob_ok o); [|apply Hm', (i_viol _ _ _ Hinv3)].
    unfold add_viol. cbn [m_puts m_gets m_gfcs m_uploaded m_corrupted m_viol]. apply Hm'.
    apply not_in2_app; [apply (i_viol _ _ _ Hinv3)|]. unfold check_read.
    rewrite (i_gets _ _ _ Hinv3 _ _ _ Ea). apply not_in2_c1.
  - (* OFindMissing *)
    destruct out as [c b| |c m0|]; rewrite Hk; cbn [Z.eqb Pos.eqb andb];
      try (eapply inv01_update; [exact Hh|exact Hinv3|exact Hs|..]; try upd_same Hs; apply (i_viol _ _ _ Hinv3)).
    rewrite Hc. destruct (Z.eqb_spec c 0) as [->|Hne];
      [|eapply inv01_update; [exact Hh|exact Hinv3|exact Hs|..]; try upd_same Hs; apply (i_viol _ _ _ Hinv3)].
    match goal with |- context [if ?b then m else add_viol m [2]] => assert (b = true) as -> end.
    2:{ eapply inv01_update; [exact Hh|exact Hinv3|exact Hs|..]; try upd_same Hs; apply (i_viol _ _ _ Hinv3). }
    apply forallb_forall. intros [pos [ob i]] Hin. apply filter_In in Hin as [Hin Hnm].
    rewrite Eo, missing_enc in Hnm.
    apply enumerate_in in Hin as [_ Hn]. rewrite Nat.sub_0_r in Hn.
    assert (~ In pos m0) as Hm.
    { intros Hm. apply negb_true_iff, not_true_iff_false in Hnm. apply Hnm.
      apply existsb_exists. exists pos. split; [assumption|apply Nat.eqb_refl]. }
    destruct (find_missing_present_step _ _ _ _ _ _ _ _ Hs Hn Hm) as (k & l & Hk' & Hg & _).
    eapply resolves_visible; [exact Hh|apply (i_up _ _ _ Hinv3)|exists k, l; auto].
  - (* OGfcStart *)
    destruct out as [c b| |c ds|]; rewrite Hk; cbn [Z.eqb Pos.eqb]; try (cbn in Sh; contradiction);
      try (unfold ob_ok; rewrite Hk; cbn [Z.eqb Pos.eqb andb]);
      (eapply inv01_update; [exact Hh|exact Hinv3|exact Hs|..]; cbn [m_puts m_gets m_gfcs m_uploaded m_viol puts_upd];
       try upd_same Hs; try apply (i_viol _ _ _ Hinv3)).
    cbn in Sh. destruct Sh as (tid0 & t & s1 & Ho & E1 & -> & Hn & Hr). inv Ho.
    intros tid' p' i' ch' H. cbn [assoc] in H. destruct (Nat.eqb_spec tid' tid0) as [->|Hne].
    2:{ left. split; [exact H|intros (? & ? & ? & E & _); discriminate]. }
    inv H. right. destruct Hr as [[Hr _]|[c ->]].
    + left. eapply resolves_visible; [exact Hh|apply (i_up _ _ _ Hinv3)|exact Hr].
    + right. exists c. apply T_set_same.
  - (* OGfcSlice *)
    destruct (assoc (m_gfcs m) tid) as [[[p i] ch]|] eqn:Ea.
    2:{ eapply inv01_update; [exact Hh|exact Hinv3|exact Hs|..]; try upd_same Hs; try apply (i_viol _ _ _ Hinv3).
          - intros tid' p' i' ch' H. left. split; [exact H|]. intros (sl & c & b & E & _). inv E. congruence. }
    assert (forall v, ~ In 2 v ->
      inv01 w {| m_puts := m_puts m; m_gets := m_gets m; m_gfcs := unassoc (m_gfcs m) tid;
                 m_uploaded := m_uploaded m; m_corrupted := m_corrupted m; m_viol := v |} s') as Hm'.
    { intros v Hv. eapply inv01_update; [exact Hh|exact Hinv3|exact Hs|..]; cbn [m_puts m_gets m_gfcs m_uploaded m_viol];
        try upd_same Hs; try exact Hv.
      - intros tid' p' i' ch' H. apply assoc_unassoc_some in H as [Hne H]. left. split; [exact H|].
        intros (sl & c & b & E & _). inv E. congruence. }
    destruct (ob_ok o) eqn:Eok; [|apply Hm', (i_viol _ _ _ Hinv3)].
    unfold add_viol. cbn [m_puts m_gets m_gfcs m_uploaded m_corrupted m_viol]. rewrite Hh. cbn [app]. apply Hm'.
    apply not_in2_app; [apply (i_viol _ _ _ Hinv3)|].
    assert (visible w (m_uploaded m) p i = true) as ->; [|apply not_in2_c1].
    unfold ob_ok in Eok. rewrite Hk, Hc in Eok. destruct out as [c b| |c ds|]; try discriminate.
    cbn [Z.eqb Pos.eqb andb] in Eok. apply Z.eqb_eq in Eok. subst c.
    cbn in Sh. destruct Sh as (s1 & E1 & -> & Hsh).
    destruct (i_gfcs _ _ _ Hinv3 _ _ _ _ Ea) as [Hv|[c Hc']]; [exact Hv|].
    rewrite Hc' in Hsh. destruct Hsh as [[]|[_ Hne]]. exfalso. apply Hne. first [reflexivity|assumption].
  - (* OCorrupt *)
    eapply inv01_update; [exact Hh|exact Hinv3|exact Hs|..]; try upd_same Hs; try apply (i_viol _ _ _ Hinv3).
    all: try (destruct out; reflexivity).
Qed.

Lemma inv01_init w : inv01 w m01_init (init_state (w_cfg w)).
Proof.
  constructor.
  - apply hinv_init.
  - intros tid oi H. cbn in H. discriminate.
  - intros o i H. exfalso. eapply no_entry_init, H.
  - intros tid ob i H. cbn in H. discriminate.
  - intros tid p i ch H. cbn in H. discriminate.
  - cbn. intros [].
Qed.

Lemma mon01_run_inv w es : c_hier (w_cfg w) = true -> forall m s, inv01 w m s ->
  ~ In 2 (m_viol (mon01_run w m es (model_obs w es (run_states w s es)))).
Proof.
  intros Hh. unfold model_obs. induction es as [|e t IH]; intros m s Hinv; cbn [run_states].
  - cbn. apply (i_viol _ _ _ Hinv).
  - destruct (step w s e) as [s1 out] eqn:E. cbn [combine map mon01_run].
    apply IH. apply inv01_step; assumption.
Qed.

(** clause 2 never fires on hierarchical model runs *)
Lemma mon01_no_clause2 w es : c_hier (w_cfg w) = true -> ~ In 2 (mon01_raw w es).
Proof. intros Hh. apply mon01_run_inv; [assumption|apply inv01_init]. Qed.

(** ---- clause 4 (m10) ---- *)
Definition ups_ok (s : state) (x : (nat * nat) * (N * N)) : Prop :=
  let '((o, i), (r, t)) := x in
  (t <= s_tbr s)%N /\ exists l, In ((o, S i), l) (s_index s) /\ (t <= l_abs l)%N /\ (l_abs l < hiM s)%N.

Lemma ups_ok_mono n s s' x : sfr n s s' -> ups_ok s x -> ups_ok s' x.
Proof.
  intros [[nw E] _ Ht _ Hh]. destruct x as [[o i] [r t]]. cbn. intros (H1 & l & H2 & H3 & H4).
  split; [lia|]. exists l. split; [rewrite E; apply in_or_app; right; assumption|]. split; lia.
Qed.

Record inv10 (w : world) (m : m10) (s : state) : Prop := {
  j_hinv : hinv s;
  j_puts : puts_ok (h_puts m) s;
  j_ups : forall x, In x (h_ups m) -> ups_ok s x;
  j_viol : h_viol m = [];
}.

Lemma step_sfr_ex w s e s' out : step w s e = (s', out) -> exists n, sfr n s s'.
Proof. intros H. apply step_sfr in H as [H|[H _]]; eauto. Qed.

Lemma inv10_update w m m' s e s' out : c_hier (w_cfg w) = true -> inv10 w m s -> step w s e = (s', out) ->
  h_puts m' = puts_upd (h_puts m) e out ->
  (forall x, In x (h_ups m') -> In x (h_ups m) \/ ups_ok s' x) ->
  h_viol m' = [] ->
  inv10 w m' s'.
Proof.
  intros Hh [Hi Hp Hu Hv] Hs Ep Hu' Hv'.
  pose proof (step_shape _ _ _ _ _ Hh Hi Hs) as Sh.
  destruct (step_hier _ _ _ _ _ Hh Hi Hs) as [Hi' _].
  destruct (step_sfr_ex _ _ _ _ _ Hs) as [n Hn].
  constructor; try assumption.
  - rewrite Ep. eapply puts_ok_step; eassumption.
  - intros x Hx. apply Hu' in Hx as [Hx|Hx]; [|assumption]. eapply ups_ok_mono; [exact Hn|]. apply Hu, Hx.
Qed.

Lemma get_open_found w s tid o j i l s' out : c_hier (w_cfg w) = true ->
  In i (ancestors w j) -> In ((o, S i), l) (s_index s) -> loc_valid s l = true ->
  step w s (OGetOpen tid o j) = (s', out) -> forall b, out <> Done cNotFound b.
Proof.
  intros Hh Ha Hin Hv Hg b.
  assert (index_get s (o, S i) <> None) as Hne by (eapply index_get_of_valid; eassumption).
  assert (least_specific s (lookup_keys w o j) <> None) as Hls.
  { intros Hn. apply Hne. eapply least_specific_none; [exact Hn|].
    rewrite hier_lookup_keys by assumption. apply (in_map (fun a => (o, S a))). assumption. }
  revert Hg. unfold step. cbn [may_take_refresh_lock is_corrupt andb].
  destruct (thr_get (s_threads s) tid); [iinv; discriminate|].
  destruct (get_open w s o j) as [[t|e'] s1] eqn:E; iinv; [discriminate|].
  apply get_open_nwf in E as [_ [_ E]]. intros Hx. inv Hx. apply Hls, E. reflexivity.
Qed.

Ltac upd10 Hh Hinv Hs :=
  eapply inv10_update; [exact Hh|exact Hinv|exact Hs|..]; cbn [h_puts h_ups h_viol puts_upd];
  [try reflexivity; try (destruct out; reflexivity)
  |try (let x := fresh in let Hx := fresh in intros x Hx; left; exact Hx)
  |try apply (j_viol _ _ _ Hinv)].

Lemma inv10_step w m s e s' out : c_hier (w_cfg w) = true -> inv10 w m s -> step w s e = (s', out) ->
  inv10 w (m10_step w m (e, (s, s', out), enc_obs (w_cfg w) e s s' out)) s'.
Proof.
  intros Hh Hinv Hs. unfold m10_step.
  pose proof (ob_kind_enc (w_cfg w) e s s' out) as Hk.
  pose proof (ob_code_enc (w_cfg w) e s s' out) as Hc.
  remember (enc_obs (w_cfg w) e s s' out) as o eqn:Eo.
  pose proof (step_shape _ _ _ _ _ Hh (j_hinv _ _ _ Hinv) Hs) as Sh.
  destruct e as [tid ob i|tid data|tid err|tid ob i|tid|ds|tid p i ch|tid slices|rg off len];
    try solve [upd10 Hh Hinv Hs].
  - (* OPutStart *)
    destruct out as [c b| |c ds|]; rewrite Hk; cbn [Z.eqb Pos.eqb]; upd10 Hh Hinv Hs.
  - (* OPutChunk *)
    destruct out as [c b| |c ds|]; rewrite Hk; cbn [Z.eqb Pos.eqb]; try solve [upd10 Hh Hinv Hs].
    cbn in Sh. destruct Sh as (s1 & E1 & -> & Hpo & Hne).
    destruct (assoc (h_puts m) tid) as [oi|] eqn:Ea; [|upd10 Hh Hinv Hs; rewrite Ea; reflexivity].
    unfold ob_ok. rewrite Hk, Hc. destruct (Z.eqb_spec c 0); [contradiction|]. cbn [Z.eqb andb].
    upd10 Hh Hinv Hs. rewrite Ea. reflexivity.
  - (* OPutEnd *)
    destruct out as [c b| |c ds|]; rewrite Hk; cbn [Z.eqb Pos.eqb]; try solve [upd10 Hh Hinv Hs].
    cbn in Sh. destruct Sh as (s1 & E1 & Es' & oi' & Hpo & Hcomp).
    pose proof (j_puts _ _ _ Hinv _ _ Hpo) as Ea. rewrite Ea.
    unfold ob_ok. rewrite Hk, Hc. cbn [Z.eqb andb].
    destruct (Z.eqb_spec c 0) as [->|Hne].
    + upd10 Hh Hinv Hs; [rewrite Ea; reflexivity|].
      intros x [<-|Hx]; [right|left; exact Hx].
      destruct oi' as [o' i'].
      destruct (upload_entry_valid _ _ _ _ _ o' i' Hh (j_hinv _ _ _ Hinv) Hs) as (l & Hin & Hq & Hhi).
      { rewrite (Hcomp eq_refl). left. reflexivity. }
      cbn. split; [lia|]. exists l. auto.
    + upd10 Hh Hinv Hs. rewrite Ea. reflexivity.
  - (* OGetOpen *)
    match goal with |- context [if ?b then _ else m] => assert (b = false) as -> end; [|upd10 Hh Hinv Hs].
    rewrite Hk, Hc. destruct out as [c b| |c ds|]; try reflexivity. cbn [Z.eqb andb].
    destruct (Z.eqb_spec c cNotFound) as [->|Hne]; [|reflexivity]. cbn [andb].
    apply not_true_iff_false. intros Hex. apply existsb_exists in Hex as ([[ob' i'] [r t]] & Hx & Hcnd).
    apply andb_true_iff in Hcnd as [Hcnd Ht]. apply andb_true_iff in Hcnd as [Hcnd Hr].
    apply andb_true_iff in Hcnd as [Hob Hanc]. apply Nat.eqb_eq in Hob. subst ob'.
    apply existsb_exists in Hanc as (a & Ha & Hai). apply Nat.eqb_eq in Hai. subst a.
    apply N.eqb_eq in Ht.
    destruct (j_ups _ _ _ Hinv _ Hx) as (Ht1 & l & Hin & Hl1 & Hl2).
    destruct (step_sfr_ex _ _ _ _ _ Hs) as [n [_ _ Htm _ _]].
    eapply (get_open_found w s tid ob i i' l); try eassumption; [|reflexivity].
    unfold loc_valid. unfold hiM in Hl2. lia.
Qed.

Lemma inv10_init w : inv10 w m10_init (init_state (w_cfg w)).
Proof.
  constructor.
  - apply hinv_init.
  - intros tid oi H. cbn in H. discriminate.
  - intros x [].
  - reflexivity.
Qed.

Lemma m10_fold_inv w es : c_hier (w_cfg w) = true -> forall m s, inv10 w m s ->
  h_viol (fold_left (m10_step w)
            (combine (combine es (run_states w s es)) (model_obs w es (run_states w s es))) m) = [].
Proof.
  intros Hh. unfold model_obs. induction es as [|e t IH]; intros m s Hinv; cbn [run_states].
  - cbn. apply (j_viol _ _ _ Hinv).
  - destruct (step w s e) as [s1 out] eqn:E. cbn [combine map fold_left].
    apply IH. apply inv10_step; assumption.
Qed.

(** clause 4 never fires on hierarchical model runs *)
Lemma mon10_no_clause4 w es : c_hier (w_cfg w) = true -> mon10_clause4 w es = [].
Proof. intros Hh. apply m10_fold_inv; [assumption|apply inv10_init]. Qed.

(** ---- the combined statements ---- *)
Lemma dedupZ_in x l : In x (dedupZ l) -> In x l.
Proof.
  induction l as [|a t IH]; cbn; [auto|].
  destruct (existsb (Z.eqb a) t); [auto|]. intros [H|H]; auto.
Qed.
Lemma dedupZ_nil l : dedupZ l = [] -> l = [].
Proof.
  induction l as [|a t IH]; cbn; [reflexivity|].
  destruct (existsb (Z.eqb a) t) eqn:E; [|discriminate].
  intros H. apply IH in H. subst. discriminate.
Qed.

(** on hierarchical stores everything mon10 reports is a report of C01's
    monitor other than clause 2: provenance (2) never fires and the fold of
    clause 4 (readability) is silent *)
Theorem mon10_model_only_data_clauses w es : c_hier (w_cfg w) = true ->
  mon10_clause4 w es = [] /\
  forall v, In v (mon10_model w es) -> v <> 2 /\ In v (mon01_model w es).
Proof.
  intros Hh. split; [apply mon10_no_clause4, Hh|]. intros v Hv.
  unfold mon10_model in Hv. apply dedupZ_in in Hv.
  rewrite Hh, (mon10_no_clause4 w es Hh), app_nil_r in Hv.
  split; [|assumption].
  intros ->. apply dedupZ_in in Hv. eapply mon01_no_clause2; eassumption.
Qed.

(** given C01's statement (clauses 1 and 3 silent), the C10 monitor is silent *)
Theorem store_model_satisfies_C10_given_C01 w es : c_hier (w_cfg w) = true ->
  mon01_model w es = [] -> mon10_model w es = [].
Proof.
  intros Hh H01. unfold mon10_model. rewrite Hh, (mon10_no_clause4 w es Hh), H01. reflexivity.
Qed.
