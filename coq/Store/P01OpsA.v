(** C01 proofs, operations part A: index lookups, pin, write_block,
    read_block / read_validated and the thread list, against [DInv]. *)
From Coq Require Import List NArith ZArith Bool Arith Lia ZifyN ZifyNat ZifyBool.
From BBS Require Import Store.Model Store.P01Inv.
From BBS Require Export Store.P01OpsA1 Store.P01OpsA2.
Import ListNotations.
Open Scope N_scope.

(** ---- bytes, index lookups ---- *)
Lemma bytes_eqb_eq : forall a b, bytes_eqb a b = true <-> a = b.
Proof.
  induction a as [|x a IH]; destruct b as [|y b]; cbn [bytes_eqb]; split; intro H;
    try reflexivity; try discriminate.
  - apply andb_true_iff in H. destruct H as [H1 H2].
    apply N.eqb_eq in H1. apply IH in H2. subst. reflexivity.
  - inversion H; subst. apply andb_true_iff. split.
    + apply N.eqb_refl.
    + apply IH. reflexivity.
Qed.

Lemma index_get_some : forall s k l, index_get s k = Some l -> In (k, l) (s_index s) /\ loc_valid s l = true.
Proof.
  unfold index_get. intros s k l H. apply newest_in in H. destruct H as [H|H]; [discriminate|].
  apply in_map_iff in H. destruct H as [[k' l'] [E H]]. cbn [snd] in E. subst l'.
  apply filter_In in H. destruct H as [H1 H2]. cbn [fst snd] in H2.
  apply andb_true_iff in H2. destruct H2 as [H2 H3].
  apply key_eqb_eq in H2. subst. split; assumption.
Qed.

Lemma least_specific_some : forall s ks k l, least_specific s ks = Some (k, l) -> In k ks /\ index_get s k = Some l.
Proof.
  induction ks as [|k0 t IH]; intros k l H; cbn [least_specific] in H.
  - discriminate.
  - destruct (index_get s k0) as [l0|] eqn:E.
    + inversion H; subst. split; [left; reflexivity|exact E].
    + destruct (IH _ _ H) as [H1 H2]. split; [right; exact H1|exact H2].
Qed.

Lemma valid_block_of_loc : forall c s l, AInv c s -> loc_valid s l = true -> exists b, block_of_loc s l = Some b.
Proof.
  intros c s l A H. apply loc_valid_bounds in H. destruct H as [H1 H2].
  destruct (a_rel _ _ A) as [R1 R2]. unfold abs_end in *. unfold block_of_loc.
  destruct (nth_error (s_blocks s) (N.to_nat (l_abs l - s_released s))) as [b|] eqn:E.
  - exists b. reflexivity.
  - apply nth_error_None in E. lia.
Qed.

(** ---- DInv does not look at the thread list ---- *)
Lemma DInv_threads : forall w cl s ts, DInv w cl s -> DInv w cl (upd_threads s ts).
Proof. intros w cl s ts. apply DInv_ext; reflexivity. Qed.

(** ---- reading through a reader claim ---- *)
Lemma read_block_cr : forall w cl s uid l o,
  DInv w cl s -> In (CR uid l o) cl -> read_block s uid (l_off l) (l_size l) = content w o.
Proof.
  intros w cl s uid l o D H.
  pose proof (c_claims _ _ _ (d_c _ _ _ D) _ H) as K. cbn [claim_ok] in K.
  destruct K as (cur & reg & B & L & S).
  apply binfo_in in B. destruct B as (b & F & _ & _ & _ & R).
  unfold read_block. rewrite F, R. exact S.
Qed.

Lemma read_validated_cr : forall w cl s uid l o,
  DInv w cl s -> In (CR uid l o) cl -> read_validated w s o uid l = (true, content w o, s).
Proof.
  intros w cl s uid l o D H. unfold read_validated. cbv zeta.
  rewrite (read_block_cr _ _ _ _ _ _ D H).
  rewrite (proj2 (bytes_eqb_eq (content w o) (content w o)) eq_refl).
  cbn [negb]. rewrite andb_false_r. reflexivity.
Qed.

(** ---- a valid index entry's object has the entry's size ---- *)
Lemma bslice_length : forall bytes off size,
  (N.to_nat off + N.to_nat size <= length bytes)%nat -> length (bslice bytes off size) = N.to_nat size.
Proof. intros. unfold bslice. apply slice_length. assumption. Qed.

Lemma entry_size : forall w cl s k l,
  DInv w cl s -> In (k, l) (s_index s) -> loc_valid s l = true -> l_size l = osize w (fst k).
Proof.
  intros w cl s k l D Hin Hv.
  destruct (c_idx _ _ _ (d_c _ _ _ D) _ _ Hin Hv) as (uid & cur & reg & UA & B & L & S).
  apply binfo_in in B. destruct B as (b & _ & Hb & _ & Cb & Rb).
  pose proof (a_cur _ _ (d_a _ _ _ D) _ Hb) as H1.
  pose proof (a_dev_live _ _ (d_a _ _ _ D) _ Hb) as H2.
  rewrite Cb in H1. rewrite Rb in H2.
  unfold osize. rewrite <- S, bslice_length by lia. lia.
Qed.

(** ---- pin ---- *)
Lemma map_uid_view : forall f u l, (forall b, bview (f b) = bview b) ->
  map bview (map_uid f u l) = map bview l.
Proof.
  intros f u l Hf. induction l as [|b l IH]; cbn [map_uid map].
  - reflexivity.
  - destruct (Nat.eqb (b_uid b) u); cbn [map].
    + rewrite Hf. reflexivity.
    + rewrite IH. reflexivity.
Qed.

Lemma map_uid_notin : forall f u l, ~ In u (map b_uid l) -> map_uid f u l = l.
Proof.
  intros f u l. induction l as [|b l IH]; intros H; cbn [map_uid map In] in *.
  - reflexivity.
  - destruct (Nat.eqb (b_uid b) u) eqn:E.
    + apply Nat.eqb_eq in E. exfalso. apply H. left. exact E.
    + rewrite IH; [reflexivity|]. intro H1. apply H. right. exact H1.
Qed.

Lemma map_uid_in : forall f u l b', NoDup (map b_uid l) -> In b' (map_uid f u l) ->
  exists b0, In b0 l /\ b' = if Nat.eqb (b_uid b0) u then f b0 else b0.
Proof.
  intros f u l b'. induction l as [|b l IH]; intros ND H; cbn [map_uid map] in *.
  - destruct H.
  - inversion ND; subst.
    destruct (Nat.eqb (b_uid b) u) eqn:E.
    + destruct H as [H|H].
      * exists b. split; [left; reflexivity|]. rewrite E. symmetry. exact H.
      * exists b'. split; [right; exact H|].
        destruct (Nat.eqb (b_uid b') u) eqn:E'; [|reflexivity].
        apply Nat.eqb_eq in E. apply Nat.eqb_eq in E'. exfalso. apply H2.
        rewrite E, <- E'. apply in_map. exact H.
    + destruct H as [H|H].
      * exists b. split; [left; reflexivity|]. rewrite E. symmetry. exact H.
      * destruct (IH H3 H) as (b0 & H0 & E0). exists b0. split; [right; exact H0|exact E0].
Qed.

Definition inc_use (b : block) : block := set_use b (S (b_use b)).

Lemma pin_view : forall s u, sview s (pin s u).
Proof.
  intros s u. unfold pin. constructor;
    cbn [upd_blocks s_blocks s_zombies s_free s_next_region s_next_uid s_dev s_old s_cur s_new
         s_released s_tbr s_index]; try reflexivity.
  - apply map_uid_view. reflexivity.
  - apply map_uid_view. reflexivity.
Qed.

Lemma nrefs_cons : forall x c cl, nrefs x (c :: cl) = (cref x c + nrefs x cl)%nat.
Proof. reflexivity. Qed.

Lemma rdisj_sym : forall a b c d, rdisj a b c d -> rdisj c d a b.
Proof. unfold rdisj. intros. lia. Qed.

Lemma CInv_add_CR : forall w cl s uid l o,
  CInv w cl s -> cr_ok w s uid l o ->
  (forall wr acc, In (CW wr acc) cl -> wr_uid wr = uid ->
                  rdisj (wr_off wr) (wr_size wr) (l_off l) (l_size l)) ->
  CInv w (CR uid l o :: cl) s.
Proof.
  intros w cl s uid l o C OK SEP. constructor.
  - intros c [<-|H]; [exact OK|]. apply (c_claims _ _ _ C). exact H.
  - apply (c_idx _ _ _ C).
  - cbn [pairwise]. split; [|apply (c_sep _ _ _ C)].
    intros y Hy. unfold cdisj. cbn [c_isw c_uid c_off c_size orb].
    destruct y as [wr acc|u' l' o'|wr o']; cbn [c_isw c_uid c_off c_size]; try discriminate.
    intros _ E. apply rdisj_sym. apply (SEP wr acc Hy). symmetry. exact E.
  - intros wr acc k0 l0 [H|H]; [discriminate|]. exact (c_sep_idx _ _ _ C wr acc k0 l0 H).
Qed.

Lemma pin_loc_inv : forall w cl s k l b,
  DInv w cl s -> In (k, l) (s_index s) -> loc_valid s l = true -> block_of_loc s l = Some b ->
  DInv w (CR (b_uid b) l (fst k) :: cl) (pin s (b_uid b)).
Proof.
  intros w cl s k l b [A U C] Hin Hv Hb.
  destruct (loc_valid_bounds _ _ Hv) as [V1 V2].
  destruct (a_rel _ _ A) as [R1 R2].
  destruct (block_of_loc_uid_at _ _ _ Hb) as [UA Inb]; [lia|].
  pose proof (a_uid_nd _ _ A) as ND. unfold live in ND. rewrite map_app in ND.
  constructor.
  - eapply AInv_view; [apply pin_view|exact A].
  - (* use counts *)
    assert (Z : ~ In (b_uid b) (map b_uid (s_zombies s))).
    { intro Hz. eapply (NoDup_app_disj _ _ _ (b_uid b) ND); [apply in_map; exact Inb|exact Hz]. }
    unfold pin. constructor; cbn [upd_blocks s_blocks s_zombies].
    + intros b' H'. apply map_uid_in in H'; [|eapply NoDup_app_l; exact ND].
      destruct H' as (b0 & H0 & E). pose proof (u_blocks _ _ U _ H0) as U0.
      rewrite nrefs_cons. cbn [cref].
      destruct (Nat.eqb (b_uid b0) (b_uid b)) eqn:E0; subst b'.
      * cbn [set_use b_uid b_use]. rewrite Nat.eqb_sym, E0. lia.
      * rewrite Nat.eqb_sym, E0. lia.
    + rewrite map_uid_notin by exact Z. intros z Hz.
      pose proof (u_zombies _ _ U _ Hz) as U0. rewrite nrefs_cons. cbn [cref].
      destruct (Nat.eqb (b_uid b) (b_uid z)) eqn:E0.
      * apply Nat.eqb_eq in E0. exfalso. apply Z. rewrite E0. apply in_map. exact Hz.
      * lia.
  - eapply CInv_view; [apply pin_view|].
    apply CInv_add_CR; [exact C| |].
    + destruct (c_idx _ _ _ C _ _ Hin Hv) as (uid & cur & reg & UA' & B & L & S).
      rewrite UA in UA'. inversion UA'; subst uid. exists cur, reg. auto.
    + intros wr acc Hw E. apply (c_sep_idx _ _ _ C wr acc k l Hw Hin Hv). rewrite E. exact UA.
Qed.

(** ---- write_block ---- *)
Section Write.
  Variable d : list (nat * list N).
  Variable reg : nat.
  Variable woff : N.
  Variable data : list N.
  Let bytes := dev_get d reg.
  Let d' := dev_set d reg (overwrite bytes (N.to_nat woff) data).

  Lemma write_other : forall reg' off' size',
    (reg' = reg -> off' + size' <= woff \/ woff + N.of_nat (length data) <= off') ->
    bslice (dev_get d' reg') off' size' = bslice (dev_get d reg') off' size'.
  Proof.
    intros reg' off' size' H. unfold d'. rewrite dev_get_set.
    destruct (Nat.eqb reg' reg) eqn:E; [|reflexivity].
    apply Nat.eqb_eq in E. subst reg'. unfold bslice, bytes.
    destruct (H eq_refl) as [H1|H1].
    - apply slice_overwrite_before. lia.
    - apply slice_overwrite_after. lia.
  Qed.

  Lemma write_len : forall reg',
    (N.to_nat woff + length data <= length bytes)%nat ->
    length (dev_get d' reg') = length (dev_get d reg').
  Proof.
    intros reg' H. unfold d'. rewrite dev_get_set.
    destruct (Nat.eqb reg' reg) eqn:E; [|reflexivity].
    apply Nat.eqb_eq in E. subst reg'. apply overwrite_length. exact H.
  Qed.
End Write.

Lemma write_inv : forall w cl s wr acc data,
  DInv w (CW wr acc :: cl) s -> N.of_nat (length acc + length data) <= wr_size wr ->
  DInv w (CW wr (acc ++ data) :: cl)
       (write_block s (wr_uid wr) (wr_off wr + N.of_nat (length acc)) data).
Proof.
  intros w cl s wr acc data [A U C] Hsz.
  pose proof (c_claims _ _ _ C (CW wr acc) (or_introl eq_refl)) as K. cbn [claim_ok] in K.
  destruct K as (cur & reg & B & L1 & L2 & S & L3 & L4).
  destruct (binfo_in _ _ _ _ B) as (b & F & Hb & Ub & Cb & Rb).
  unfold write_block. rewrite F, Rb.
  set (woff := wr_off wr + N.of_nat (length acc)).
  pose proof (a_cur _ _ A _ Hb) as H1. rewrite Cb in H1.
  pose proof (a_dev_live _ _ A _ Hb) as H2. rewrite Rb in H2.
  assert (Hfit : (N.to_nat woff + length data <= length (dev_get (s_dev s) reg))%nat)
    by (unfold woff; lia).
  set (d' := dev_set (s_dev s) reg (overwrite (dev_get (s_dev s) reg) (N.to_nat woff) data)).
  (* the written range lies inside the writer's allocation *)
  assert (OTHER : forall u' cur' reg' off' size',
            binfo s u' = Some (cur', reg') ->
            (u' = wr_uid wr -> rdisj (wr_off wr) (wr_size wr) off' size') ->
            bslice (dev_get d' reg') off' size' = bslice (dev_get (s_dev s) reg') off' size').
  { intros u' cur' reg' off' size' B' DJ. apply write_other. intros E. subst reg'.
    assert (E : u' = wr_uid wr) by (eapply binfo_region_inj; eassumption).
    specialize (DJ E). unfold rdisj in DJ. unfold woff. lia. }
  destruct (c_sep _ _ _ C) as [P1 P2].
  constructor.
  - (* allocator *)
    constructor.
    + exact (a_len _ _ A).
    + exact (a_rel _ _ A).
    + exact (a_uid_nd _ _ A).
    + exact (a_uid_lt _ _ A).
    + exact (a_reg_nd _ _ A).
    + exact (a_reg_lt _ _ A).
    + exact (a_free_im _ _ A).
    + exact (a_cur _ _ A).
    + intros b0 H0. change (length (dev_get d' (b_region b0)) = N.to_nat (c_bs (w_cfg w))).
      unfold d'. rewrite write_len by exact Hfit. exact (a_dev_live _ _ A _ H0).
    + intros r Hr. change (dev_get d' r = [] \/ length (dev_get d' r) = N.to_nat (c_bs (w_cfg w))).
      assert (NE : Nat.eqb r reg = false).
      { apply Nat.eqb_neq. intro E. subst r.
        eapply (NoDup_app_disj _ _ _ reg (a_reg_nd _ _ A)); [|exact Hr].
        rewrite <- Rb. apply in_map. exact Hb. }
      unfold d'. rewrite dev_get_set, NE. exact (a_dev_free _ _ A _ Hr).
    + exact (a_idx _ _ A).
  - (* use counts *)
    destruct U as [U1 U2]. constructor.
    + exact U1.
    + exact U2.
  - constructor.
    + (* claims *)
      intros c [<-|Hc].
      * cbn [claim_ok]. exists cur, reg. split; [exact B|]. split; [exact L1|].
        split; [rewrite app_length; exact Hsz|]. split; [|split; [exact L3|exact L4]].
        change (bslice (dev_get d' reg) (wr_off wr) (N.of_nat (length (acc ++ data))) = acc ++ data).
        unfold d'. rewrite dev_get_set, Nat.eqb_refl. unfold bslice in *.
        rewrite app_length.
        replace (N.to_nat (N.of_nat (length acc + length data))) with (length acc + length data)%nat by lia.
        replace (N.to_nat woff) with (N.to_nat (wr_off wr) + length acc)%nat by (unfold woff; lia).
        apply slice_overwrite_in.
        -- rewrite Nat2N.id in S. exact S.
        -- unfold woff in Hfit. lia.
      * pose proof (c_claims _ _ _ C c (or_intror Hc)) as K.
        pose proof (P1 c Hc) as DJ. unfold cdisj in DJ.
        destruct c as [wr' acc'|u' l' o'|wr' o']; cbn [claim_ok c_isw c_uid c_off c_size orb] in *.
        -- destruct K as (cur' & reg' & B' & M1 & M2 & S' & M3 & M4).
           exists cur', reg'. split; [exact B'|]. split; [exact M1|]. split; [exact M2|].
           split; [|split; [exact M3|exact M4]].
           change (bslice (dev_get d' reg') (wr_off wr') (N.of_nat (length acc')) = acc').
           rewrite (OTHER (wr_uid wr') cur' reg'); [exact S'|exact B'|].
           intro E. symmetry in E. specialize (DJ eq_refl E). unfold rdisj in *. lia.
        -- destruct K as (cur' & reg' & B' & M1 & S').
           exists cur', reg'. split; [exact B'|]. split; [exact M1|].
           change (bslice (dev_get d' reg') (l_off l') (l_size l') = content w o').
           rewrite (OTHER u' cur' reg'); [exact S'|exact B'|].
           intro E. symmetry in E. exact (DJ eq_refl E).
        -- destruct K as (M0 & M1 & M2 & M3).
           split; [exact M0|]. split; [exact M1|]. split; [exact M2|].
           intro T. destruct (M3 T) as (cur' & reg' & UA' & B' & S').
           exists cur', reg'. split; [exact UA'|]. split; [exact B'|].
           change (bslice (dev_get d' reg') (wr_off wr') (wr_size wr') = content w o').
           rewrite (OTHER (wr_uid wr') cur' reg'); [exact S'|exact B'|].
           intro E. symmetry in E. exact (DJ eq_refl E).
    + (* index entries *)
      intros k l Hin Hv.
      destruct (c_idx _ _ _ C k l Hin Hv) as (uid & cur' & reg' & UA' & B' & M1 & S').
      exists uid, cur', reg'. split; [exact UA'|]. split; [exact B'|]. split; [exact M1|].
      change (bslice (dev_get d' reg') (l_off l) (l_size l) = content w (fst k)).
      rewrite (OTHER uid cur' reg'); [exact S'|exact B'|].
      intro E. subst uid.
      exact (c_sep_idx _ _ _ C wr acc k l (or_introl eq_refl) Hin Hv UA').
    + (* separation *)
      cbn [pairwise]. split; [|exact P2]. intros y Hy. exact (P1 y Hy).
    + intros wr' acc' k l [Hw|Hw] Hin Hv UA'.
      * inversion Hw; subst wr'.
        exact (c_sep_idx _ _ _ C wr acc k l (or_introl eq_refl) Hin Hv UA').
      * exact (c_sep_idx _ _ _ C wr' acc' k l (or_intror Hw) Hin Hv UA').
Qed.
