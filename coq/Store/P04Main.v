(** C04 proofs, part 7: the invariant holds in every reachable state; the
    allocator theorems (no reuse while referenced, no leak, fuel suffices). *)
From Coq Require Import List NArith ZArith Bool Arith Lia Permutation.
From Coq Require Import ZifyN ZifyNat ZifyBool.
From BBS Require Import Store.Model Store.Wf Run.RStore Store.P04Base Store.P04Prim Store.P04Fbs Store.P04Ops
  Store.P04Step Store.P04StepOps.
Import ListNotations.
Local Open Scope nat_scope.

(** ---- the initial state ---- *)
Lemma cnt_seq a n r : cnt (seq a n) r = if (Nat.leb a r && Nat.ltb r (a + n))%bool then 1 else 0.
Proof.
  destruct (Nat.leb a r && Nat.ltb r (a + n))%bool eqn:E.
  - apply andb_true_iff in E. destruct E as [E1 E2]. apply Nat.leb_le in E1. apply Nat.ltb_lt in E2.
    unfold cnt. apply (proj1 (NoDup_count_occ' Nat.eq_dec (seq a n))); [apply seq_NoDup|].
    apply in_seq. lia.
  - apply cnt_notin. rewrite in_seq. intros [H1 H2].
    apply andb_false_iff in E. destruct E as [E|E]; [apply Nat.leb_gt in E | apply Nat.ltb_ge in E]; lia.
Qed.

Lemma Inv_init w : Inv w (init_state (w_cfg w)).
Proof.
  constructor.
  - constructor; unfold uids; cbn [init_state s_blocks s_zombies s_threads s_next_uid map app all_refs flat_map].
    + constructor.
    + intros u [].
    + intros r. unfold rc, rcl. cbn [init_state s_blocks s_zombies s_free s_next_region map].
      rewrite !cnt_nil, cnt_seq. cbn [Nat.leb andb plus]. unfold in_memory.
      destruct (Nat.eqb (c_nblocks (w_cfg w)) 0) eqn:E.
      * apply Nat.eqb_eq in E. rewrite E. cbn. lia.
      * reflexivity.
    + intros b [].
    + intros b [].
    + intros u [].
  - constructor; cbn [init_state s_blocks s_old s_cur s_new s_released s_tbr length]; try lia.
  - constructor.
  - intros tid t [].
Qed.

(** ---- runs ---- *)
Definition reach (w : world) (es : list op) : state := fst (run w (init_state (w_cfg w)) es).

Lemma run_fst_cons w s e t : fst (run w s (e :: t)) = fst (run w (fst (step w s e)) t).
Proof.
  cbn [run]. destruct (step w s e) as [s1 o]. cbn [fst]. destruct (run w s1 t) as [s2 os]. reflexivity.
Qed.

Lemma Inv_run w : wf_world w = true -> forall es s, Inv w s -> Inv w (fst (run w s es)).
Proof.
  intros Wf. assert (W : wfc (w_cfg w)).
  { apply wf_config_wfc. unfold wf_world in Wf. apply andb_true_iff in Wf. apply Wf. }
  induction es as [|e t IH]; intros s H; [exact H|].
  rewrite run_fst_cons. apply IH. apply (step_ok w W s H e).
Qed.

Theorem Inv_reach w es : wf_world w = true -> Inv w (reach w es).
Proof. intros Wf. apply Inv_run; [exact Wf | apply Inv_init]. Qed.

Lemma wf_world_wfc w : wf_world w = true -> wfc (w_cfg w).
Proof. intros Wf. apply wf_config_wfc. unfold wf_world in Wf. apply andb_true_iff in Wf. apply Wf. Qed.

(** ---- 1. the allocator invariant, in plain terms ---- *)
Lemma RegInv_nodup c s : RegInv c s -> NoDup (regions s).
Proof.
  intros H. apply (NoDup_count_occ Nat.eq_dec). intros r. fold (cnt (regions s) r). rewrite rc_regions.
  specialize (H r). destruct (in_memory c).
  - destruct (Nat.ltb r (s_next_region s)); lia.
  - destruct (Nat.ltb r (c_nblocks c)); lia.
Qed.

Lemma RegInv_all c s : RegInv c s -> in_memory c = false ->
  forall r, In r (regions s) <-> In r (seq 0 (c_nblocks c)).
Proof.
  intros H Em r. specialize (H r). rewrite Em in H. rewrite cnt_In, rc_regions, in_seq.
  destruct (Nat.ltb r (c_nblocks c)) eqn:E; [apply Nat.ltb_lt in E | apply Nat.ltb_ge in E]; lia.
Qed.

Lemma RegInv_perm c s : RegInv c s -> in_memory c = false -> Permutation (regions s) (seq 0 (c_nblocks c)).
Proof.
  intros H Em. apply NoDup_Permutation; [eapply RegInv_nodup; eauto | apply seq_NoDup | apply RegInv_all; assumption].
Qed.

Lemma RegInv_mem c s : RegInv c s -> in_memory c = true -> forall r, In r (regions s) -> r < s_next_region s.
Proof.
  intros H Em r Hr. specialize (H r). rewrite Em in H. apply cnt_In in Hr. rewrite rc_regions in Hr.
  destruct (Nat.ltb r (s_next_region s)) eqn:E; [apply Nat.ltb_lt in E; exact E | lia].
Qed.

Theorem allocator_invariant_thm w es : wf_world w = true ->
  let c := w_cfg w in let s := reach w es in
  (* (a) regions *)
  NoDup (regions s) /\
  (in_memory c = false -> Permutation (regions s) (seq 0 (c_nblocks c))) /\
  (in_memory c = true -> forall r, In r (regions s) -> r < s_next_region s) /\
  (* (b) use counts *)
  (forall b, In b (s_blocks s) -> b_use b = 1 + nrefs c s (b_uid b)) /\
  (forall z, In z (s_zombies s) -> b_use z = nrefs c s (b_uid z) /\ 1 <= b_use z) /\
  (forall tid t uid, In (tid, t) (s_threads s) -> In uid (refs c t) -> In uid (uids s)) /\
  (* (c) uids *)
  NoDup (uids s) /\ (forall u, In u (uids s) -> u < s_next_uid s).
Proof.
  intros Wf c s. pose proof (Inv_reach w es Wf) as [[A1 A2 A3 A4 A5 A6] C ND T]. fold s c in A1, A2, A3, A4, A5, A6.
  split; [eapply RegInv_nodup; eauto|].
  split; [apply RegInv_perm; exact A3|].
  split; [apply RegInv_mem; exact A3|].
  split; [exact A4|]. split; [exact A5|]. split; [|split; assumption].
  intros tid t uid H1 H2. apply A6. unfold all_refs. apply in_flat_map. exists (tid, t). split; [exact H1 | exact H2].
Qed.

(** no release ever underflows: whatever a parked thread will release has a
    count that covers it (Go: panic("Block has invalid reference count")) *)
Theorem release_never_underflows_thm w es : wf_world w = true ->
  let c := w_cfg w in let s := reach w es in
  forall tid t uid, In (tid, t) (s_threads s) -> In uid (refs c t) ->
  (exists b, In b (s_blocks s) /\ b_uid b = uid /\ 2 <= b_use b) \/
  (exists z, In z (s_zombies s) /\ b_uid z = uid /\ 1 <= b_use z).
Proof.
  intros Wf c s tid t uid H1 H2. pose proof (Inv_reach w es Wf) as [[A1 A2 A3 A4 A5 A6] C ND T].
  fold s c in A1, A2, A3, A4, A5, A6.
  assert (Hin : In uid (all_refs c (s_threads s))).
  { unfold all_refs. apply in_flat_map. exists (tid, t). split; [exact H1 | exact H2]. }
  pose proof (proj1 (cnt_In _ _) Hin) as Hc.
  apply A6 in Hin. unfold uids in Hin. apply in_app_or in Hin. destruct Hin as [Hin|Hin].
  - left. apply in_map_iff in Hin. destruct Hin as [b [E Hb]]. exists b. split; [exact Hb|]. split; [exact E|].
    rewrite (A4 _ Hb), E. lia.
  - right. apply in_map_iff in Hin. destruct Hin as [z [E Hz]]. exists z. split; [exact Hz|]. split; [exact E|].
    apply (A5 _ Hz).
Qed.

(** ---- 2. no reuse while referenced ---- *)
Lemma rcl_in l x : In x l -> 1 <= rcl l (b_region x).
Proof. intros H. unfold rcl. apply cnt_In. apply in_map. exact H. Qed.

(** at any state satisfying the allocator invariant (all reachable states and
    all intermediate states inside a step), the region returned by NewBlock
    belongs to no existing block object, listed or zombie *)
Theorem new_block_region_fresh c s R b s' : AInv c s R -> new_block c s = Some (b, s') ->
  forall x, In x (allb s) -> b_region x <> b_region b.
Proof.
  intros [_ _ A3 _ _ _] E x Hx Heq. unfold new_block in E.
  assert (G : rcl (s_blocks s) (b_region x) + rcl (s_zombies s) (b_region x) >= 1).
  { unfold allb in Hx. apply in_app_or in Hx. destruct Hx as [Hx|Hx]; apply rcl_in in Hx; lia. }
  specialize (A3 (b_region x)). unfold rc in A3.
  destruct (in_memory c).
  - inversion E; subst. cbn [b_region] in Heq. rewrite Heq in A3.
    assert (X : Nat.ltb (s_next_region s) (s_next_region s) = false) by (apply Nat.ltb_ge; lia).
    rewrite X in A3. rewrite Heq in G. lia.
  - destruct (s_free s) as [|r rest] eqn:EF; [discriminate|]. inversion E; subst. cbn [b_region] in Heq.
    rewrite cnt_cons, Heq, Nat.eqb_refl in A3. rewrite Heq in G.
    destruct (Nat.ltb r (c_nblocks c)); lia.
Qed.

Lemma NoDup_map_inj {A B} (f : A -> B) l x y : NoDup (map f l) -> In x l -> In y l -> f x = f y -> x = y.
Proof.
  induction l as [|a t IH]; cbn [map]; [intros _ []|].
  intros ND. inversion ND as [|? ? Hn ND']; subst. intros [Hx|Hx] [Hy|Hy] E.
  - congruence.
  - subst a. exfalso. apply Hn. rewrite E. apply in_map. exact Hy.
  - subst a. exfalso. apply Hn. rewrite <- E. apply in_map. exact Hx.
  - auto.
Qed.

Lemma find_block_in s uid b : find_block s uid = Some b -> In b (allb s) /\ b_uid b = uid.
Proof.
  unfold find_block. destruct (find_uid uid (s_blocks s)) as [b0|] eqn:E.
  - intros H. inversion H; subst. apply find_uid_some in E. split; [apply in_allb_l; apply E | apply E].
  - intros H. apply find_uid_some in H. split; [apply in_allb_r; apply H | apply H].
Qed.

Lemma regions_allb_nodup s : NoDup (regions s) -> NoDup (map b_region (allb s)).
Proof.
  unfold regions, allb. rewrite map_app. rewrite app_assoc. apply NoDup_app_l.
Qed.

(** on traces: a block created during a step never occupies the region of a
    block that an operation parked before the step refers to *)
Theorem no_reuse_while_referenced_thm w es e : wf_world w = true ->
  let c := w_cfg w in let s := reach w es in let s' := fst (step w s e) in
  forall b', In b' (allb s') -> s_next_uid s <= b_uid b' ->
  forall tid t uid blk, In (tid, t) (s_threads s) -> In uid (refs c t) ->
    find_block s uid = Some blk -> b_region blk <> b_region b'.
Proof.
  intros Wf c s s' b' Hb' Hnew tid t uid blk Ht Hu Hf.
  pose proof (Inv_reach w es Wf) as HI0. fold s in HI0.
  pose proof (step_ok w (wf_world_wfc w Wf) s HI0 e) as (I1 & _ & _ & _ & (E1 & E2 & _) & Hincl).
  fold s' in I1, E1, E2, Hincl. cbn [fst] in *.
  destruct HI0 as [[A1 A2 _ _ _ _] _ _ _]. destruct I1 as [[B1 B2 B3 _ _ B6] _ _ _].
  destruct (find_block_in _ _ _ Hf) as [Hblk Ublk].
  assert (Hlt : uid < s_next_uid s).
  { apply A2. rewrite uids_allb, <- Ublk. apply in_map. exact Hblk. }
  assert (Hgrow : s_next_uid s < s_next_uid s').
  { assert (b_uid b' < s_next_uid s'); [|lia]. apply B2. rewrite uids_allb. apply in_map. exact Hb'. }
  assert (Ht' : In (tid, t) (s_threads s')) by (apply (Hincl Hgrow); exact Ht).
  assert (Hin : In uid (uids s')).
  { apply B6. unfold all_refs. apply in_flat_map. exists (tid, t). split; assumption. }
  rewrite uids_allb in Hin. apply in_map_iff in Hin. destruct Hin as [blk1 [U1 H1]].
  destruct (E2 blk1 H1) as [b0 [X1 [X2 X3]]]; [lia|].
  assert (b0 = blk).
  { apply (NoDup_map_inj b_uid (allb s)); auto; [rewrite <- uids_allb; exact A1 | congruence]. }
  subst b0. intros Heq.
  assert (blk1 = b').
  { apply (NoDup_map_inj b_region (allb s')); auto; [|congruence].
    apply regions_allb_nodup. eapply RegInv_nodup; eauto. }
  subst blk1. lia.
Qed.

(** ---- 3. no leak at quiescence ---- *)
Theorem no_leak_at_quiescence_thm w es : wf_world w = true ->
  let c := w_cfg w in let s := reach w es in
  s_threads s = [] ->
  s_zombies s = [] /\
  (in_memory c = false -> length (s_free s) + length (s_blocks s) = c_nblocks c).
Proof.
  intros Wf c s Hq. pose proof (Inv_reach w es Wf) as [[A1 A2 A3 A4 A5 A6] C ND T].
  fold s c in A1, A2, A3, A4, A5, A6.
  assert (Z : s_zombies s = []).
  { destruct (s_zombies s) as [|z zs] eqn:E; [reflexivity|]. exfalso.
    destruct (A5 z (or_introl eq_refl)) as [E1 E2]. rewrite Hq in E1. cbn in E1. lia. }
  split; [exact Z|]. intros Em.
  pose proof (Permutation_length (RegInv_perm c s A3 Em)) as L. unfold regions in L.
  rewrite Z in L. cbn [map app] in L. rewrite app_length, map_length, seq_length in L. lia.
Qed.

(** ---- 4. the fuel of the model's loops suffices ---- *)
Theorem counters_invariant_thm w es : wf_world w = true ->
  let c := w_cfg w in let s := reach w es in
  length (s_blocks s) = s_old s + s_cur s + s_new s /\
  (s_released s <= s_tbr s)%N /\
  (s_tbr s <= s_released s + N.of_nat (length (s_blocks s)))%N /\
  (c_mutable c = false -> s_cur s <= c_cur c /\ s_cur s + s_new s <= c_cur c + c_new c).
Proof.
  intros Wf c s. pose proof (Inv_reach w es Wf) as [_ [C1 C2 C3 C4] _ _]. auto.
Qed.

(** for every state satisfying the allocator and counter invariants (all
    reachable states, and all the intermediate states at which the model calls
    these functions) *)
Theorem fuel_suffices_inv w s R : wfc (w_cfg w) -> AInv (w_cfg w) s R -> CInv (w_cfg w) s ->
  let c := w_cfg w in
  (forall size e, fst (find_block_with_space c s size) = Err e -> e = cInvalidArgument \/ e = cUnavailable) /\
  (forall size idx, fst (find_block_with_space c s size) = Ok idx ->
     has_space c (snd (find_block_with_space c s size)) idx size = true) /\
  (forall size e, fst (ocn_put c s size) = Err e -> e = cInvalidArgument \/ e = cUnavailable) /\
  (forall o l fk e, loc_valid s l = true -> fst (open_with_refresh w s o l fk) = Err e -> (0 < e)%Z) /\
  (forall o i e, fst (get_open w s o i) = Err e -> (0 < e)%Z) /\
  (forall o i e, fst (fm_refresh_one w s o i) = Err e -> (0 < e)%Z) /\
  (forall ds e, fst (find_missing w s ds) = Err e -> (0 < e)%Z) /\
  (forall o i e, fst (put_start w s o i) = Err e -> (0 < e)%Z).
Proof.
  intros W A C c.
  assert (H : HI c s s R) by (split; [exact A | split; [exact C | apply Fr_refl]]).
  repeat split.
  - intros size e E. pose proof (find_block_with_space_ok c s s R size W H) as [_ X]. rewrite E in X. exact X.
  - intros size idx E. pose proof (find_block_with_space_ok c s s R size W H) as [_ X]. rewrite E in X. exact X.
  - intros size e E. pose proof (ocn_put_ok c s s R size W H) as X. rewrite E in X. apply X.
  - intros o l fk e V E. pose proof (open_with_refresh_ok w s s R o l fk W H V) as X. rewrite E in X. apply X.
  - intros o i e E. pose proof (get_open_ok w s s R o i W H) as X. rewrite E in X. apply X.
  - intros o i e E. pose proof (fm_refresh_one_ok w s s R o i W H) as [_ X]. rewrite E in X. exact X.
  - intros ds e E. pose proof (find_missing_ok w s s R ds W H) as [_ X]. rewrite E in X. exact X.
  - intros o i e E. pose proof (put_start_ok w s s R o i W H) as X. rewrite E in X. apply X.
Qed.

Theorem fuel_suffices_thm w es : wf_world w = true ->
  let c := w_cfg w in let s := reach w es in
  (forall size, fst (find_block_with_space c s size) <> Err (-1)%Z) /\
  (forall size, fst (ocn_put c s size) <> Err (-2)%Z /\ fst (ocn_put c s size) <> Err (-1)%Z) /\
  (forall o l fk, loc_valid s l = true -> fst (open_with_refresh w s o l fk) <> Err (-3)%Z) /\
  (forall o i e, fst (get_open w s o i) = Err e -> (0 < e)%Z) /\
  (forall o i, fst (fm_refresh_one w s o i) <> Err (-3)%Z) /\
  (forall o i e, fst (fm_refresh_one w s o i) = Err e -> (0 < e)%Z) /\
  (forall ds e, fst (find_missing w s ds) = Err e -> (0 < e)%Z) /\
  (forall o i e, fst (put_start w s o i) = Err e -> (0 < e)%Z) /\
  (* and no step ever reports a negative code of the model's own *)
  (forall e, out_ok e (snd (step w s e))).
Proof.
  intros Wf c s. pose proof (Inv_reach w es Wf) as HI0. fold s in HI0.
  pose proof (wf_world_wfc w Wf) as W.
  destruct HI0 as [A C ND T].
  destruct (fuel_suffices_inv w s _ W A C) as (F1 & F2 & F3 & F4 & F5 & F6 & F7 & F8).
  fold c in F1, F2, F3.
  split; [intros size E; destruct (F1 size _ E) as [X|X]; discriminate|].
  split; [intros size; split; intros E; destruct (F3 size _ E) as [X|X]; discriminate|].
  split; [intros o l fk V E; specialize (F4 o l fk _ V E); lia|].
  split; [exact F5|].
  split; [intros o i E; specialize (F6 o i _ E); lia|].
  split; [exact F6|]. split; [exact F7|]. split; [exact F8|].
  intros e. apply (step_ok w W s (Build_Inv _ _ A C ND T) e).
Qed.

(** the states before and after every event of [run_states] are reachable
    states (of a prefix of the schedule) *)
Lemma run_states_reach_gen w : forall es s x, In x (RStore.run_states w s es) ->
  exists k, fst (fst x) = fst (run w s (firstn k es)) /\ snd (fst x) = fst (run w s (firstn (S k) es)).
Proof.
  induction es as [|e t IH]; intros s x; cbn [RStore.run_states]; [intros []|].
  destruct (step w s e) as [s1 o] eqn:ES. intros [H|H].
  - subst x. exists 0. cbn [fst snd firstn]. split; [reflexivity|].
    rewrite run_fst_cons, ES. reflexivity.
  - destruct (IH s1 x H) as [k [E1 E2]]. exists (S k).
    rewrite !firstn_cons, !run_fst_cons, ES. cbn [fst]. split; assumption.
Qed.

Theorem run_states_reach w es x : In x (RStore.run_states w (init_state (w_cfg w)) es) ->
  exists k, fst (fst x) = reach w (firstn k es) /\ snd (fst x) = reach w (firstn (S k) es).
Proof. apply run_states_reach_gen. Qed.
