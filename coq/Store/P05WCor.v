(** C05, idempotence part 5: the immediate repeat as a corollary, and
    non-vacuity instances. *)
From Coq Require Import List NArith ZArith Bool Arith Lia Relations.
From Coq Require Import ZifyN ZifyNat ZifyBool.
From BBS Require Import Common.Sx Store.Model Store.Wf Store.WfTids Run.RStore Run.R01 Run.R05.
From BBS Require Import Store.P05Cnt Store.P05Frame Store.P05Ops Store.P05Step Store.P05Surv Store.P05Mon
                        Store.P05Inv Store.P05Main Store.P05Touch Store.P05Wit.
From BBS Require Import Store.P05WInv Store.P05WRep.
Import ListNotations.
Open Scope N_scope.

(** consuming a reader allocates no block *)
Lemma read_validated_pb w s o uid l v bytes s' :
  read_validated w s o uid l = (v, bytes, s') -> s_pushbacks s' = s_pushbacks s /\ s_dev s' = s_dev s.
Proof.
  unfold read_validated.
  destruct (c_validate (w_cfg w) && negb (bytes_eqb (read_block s uid (l_off l) (l_size l)) (content w o)));
    intros H; inversion H; subst; split; reflexivity.
Qed.

Lemma same_pb s s' : same s s' -> s_pushbacks s' = s_pushbacks s.
Proof. intros [P _]. change (k_pb (proj s') = k_pb (proj s)). rewrite P. reflexivity. Qed.

Lemma get_consume_pb w s o uid l refresh fkeys code bytes s' :
  get_consume w s o uid l refresh fkeys = (code, bytes, s') -> s_pushbacks s' = s_pushbacks s.
Proof.
  unfold get_consume.
  destruct (read_validated w s o uid l) as [[valid bs] s1] eqn:ER.
  apply read_validated_pb in ER. destruct ER as [E1 _].
  destruct refresh as [wr|].
  - set (s1' := if valid then write_block s1 (wr_uid wr) (wr_off wr) bs else s1).
    assert (E1' : s_pushbacks s1' = s_pushbacks s1).
    { unfold s1'. destruct valid; [apply same_pb, same_write_block|reflexivity]. }
    destruct (finalize (w_cfg w) s1' wr valid) as [r4 s4] eqn:EF.
    apply finalize_spec in EF. destruct EF as (S4 & _). apply same_pb in S4.
    destruct r4 as [nl|e].
    + destruct (index_put_all_spec fkeys s4 nl) as (P5 & _).
      assert (E5 : s_pushbacks (unpin (w_cfg w) (index_put_all s4 fkeys nl) uid) = s_pushbacks s).
      { rewrite (same_pb _ _ (same_unpin _ _ _)). change (k_pb (proj (index_put_all s4 fkeys nl)) = s_pushbacks s).
        rewrite P5. cbn. congruence. }
      destruct (negb valid); [|destruct (Z.eqb cOK cOK)]; intros H; inversion H; subst; exact E5.
    + assert (E5 : s_pushbacks (unpin (w_cfg w) s4 uid) = s_pushbacks s).
      { rewrite (same_pb _ _ (same_unpin _ _ _)). congruence. }
      destruct (negb valid); [|destruct (Z.eqb e cOK)]; intros H; inversion H; subst; exact E5.
  - assert (E5 : s_pushbacks (unpin (w_cfg w) s1 uid) = s_pushbacks s).
    { rewrite (same_pb _ _ (same_unpin _ _ _)). congruence. }
    destruct (negb valid); [|destruct (Z.eqb cOK cOK)]; intros H; inversion H; subst; exact E5.
Qed.

Lemma step_consume_pb w s tid s1 mo : step w s (OGetConsume tid) = (s1, mo) -> s_pushbacks s1 = s_pushbacks s.
Proof.
  intros ES. destruct (step_getconsume w s tid s1 mo ES) as [[_ ->]|(o & u & l & r & f & code & bs & s0 & _ & GC & -> & _)];
    [reflexivity|].
  apply get_consume_pb in GC. exact GC.
Qed.

(** consuming a reader without a pending copy leaves the medium untouched *)
Lemma step_consume_nopending_dev w s tid s1 mo :
  pending_refresh s tid = false -> step w s (OGetConsume tid) = (s1, mo) -> s_dev s1 = s_dev s.
Proof.
  intros PR ES. destruct (step_getconsume w s tid s1 mo ES) as [[_ ->]|(o & u & l & r & f & code & bs & s0 & HT & GC & -> & _)];
    [reflexivity|].
  unfold pending_refresh in PR. rewrite HT in PR. destruct r as [wr|]; [discriminate|].
  unfold get_consume in GC.
  destruct (read_validated w s o u l) as [[valid bs'] s1'] eqn:ER.
  apply read_validated_pb in ER. destruct ER as [_ D1].
  assert (D : s_dev (unpin (w_cfg w) s1' u) = s_dev s) by (rewrite dev_unpin; exact D1).
  destruct (negb valid); [|destruct (Z.eqb cOK cOK)]; inversion GC; subst; exact D.
Qed.

(** The immediate repeat: Get (open, consume: OK), then the same Get again.
    Neither step of the second Get allocates or writes; the medium after the
    second Get is the medium after the first.  Every reachable state. *)
Theorem immediate_repeat_get_writes_nothing w es0 tid o i s1 s2 bytes tid' s3 s4 mo :
  let s := fst (run w (init_state (w_cfg w)) es0) in
  step w s (OGetOpen tid o i) = (s1, Parked) ->
  step w s1 (OGetConsume tid) = (s2, Done cOK bytes) ->
  step w s2 (OGetOpen tid' o i) = (s3, Parked) ->
  step w s3 (OGetConsume tid') = (s4, mo) ->
  wrote w s2 (OGetOpen tid' o i) s3 = false /\ wrote w s3 (OGetConsume tid') s4 = false /\
  s_dev s4 = s_dev s2.
Proof.
  cbv zeta. intros E1 E2 E3 E4.
  assert (GC : get_completed w s1 tid [OGetConsume tid]).
  { right. exists [], [], bytes. split; [reflexivity|]. cbn [run fst]. split; [reflexivity|]. rewrite E2. reflexivity. }
  assert (R2 : fst (run w s1 [OGetConsume tid]) = s2).
  { rewrite run_cons, E2. reflexivity. }
  pose proof (repeat_get_writes_nothing_all w es0 tid o i s1 [OGetConsume tid] tid' s3 Parked) as H.
  cbv zeta in H. rewrite R2 in H.
  destruct (H E1 GC (step_consume_pb _ _ _ _ _ E2) E3) as (W1 & _ & D1 & P1).
  specialize (P1 eq_refl).
  split; [exact W1|]. split; [apply consume_without_pending_copy_writes_nothing, P1|].
  rewrite (step_consume_nopending_dev _ _ _ _ _ P1 E4). exact D1.
Qed.

(** the immediate repeat of a single-digest FindMissing *)
Theorem immediate_repeat_find_missing_writes_nothing w es0 o i s1 s2 mo :
  let s := fst (run w (init_state (w_cfg w)) es0) in
  step w s (OFindMissing [(o, i)]) = (s1, Missing cOK []) ->
  step w s1 (OFindMissing [(o, i)]) = (s2, mo) ->
  wrote w s1 (OFindMissing [(o, i)]) s2 = false /\ s_dev s2 = s_dev s1.
Proof.
  cbv zeta. intros E1 E2.
  exact (repeat_find_missing_writes_nothing_all w es0 o i s1 [] s2 mo E1 eq_refl E2).
Qed.

(** ---- non-vacuity ---- *)
Open Scope Z_scope.
(** raw factory (foreground copy): the first Get of the old object 0 writes
    when the reader is obtained, the immediately repeated Get does not *)
Definition esR : list op :=
  put 1 0 ++ put 2 1 ++ put 3 2 ++ [OGetOpen 9 0 0; OGetConsume 9; OGetOpen 10 0 0; OGetConsume 10].
Example repeat_get_non_vacuous_raw :
  wf_world wB = true /\ wf_ops wB [] esR = true /\ wf_tids esR = true /\
  map (fun x => match x with (e, (s0, s1, mo)) => (out_ok mo, wrote wB s0 e s1) end) (skipn 9 (run_x wB esR))
  = [(false, true); (true, false); (false, false); (true, false)].
Proof. vm_compute. repeat split. Qed.

(** validating factory on a block device (copy in lock step with the
    consumer): the first Get writes when the reader is consumed *)
Definition cfgV : config :=
  {| c_bs := 4%N; c_old := 2; c_cur := 0; c_new := 1; c_mutable := false; c_nblocks := 6;
     c_hier := false; c_inst_keys := false; c_validate := true |}.
Definition wV : world := world_of cfgV.
Example repeat_get_non_vacuous_cas :
  wf_world wV = true /\ wf_ops wV [] esR = true /\ wf_tids esR = true /\
  map (fun x => match x with (e, (s0, s1, mo)) => (out_ok mo, wrote wV s0 e s1) end) (skipn 9 (run_x wV esR))
  = [(false, false); (true, true); (false, false); (true, false)].
Proof. vm_compute. repeat split. Qed.

(** single-digest FindMissing: the first call copies the old object 1, the
    repeat does not *)
Definition esFM : list op :=
  put 1 0 ++ put 2 1 ++ put 3 2 ++ [OFindMissing [(1, 0)]%nat; OFindMissing [(1, 0)]%nat].
Example repeat_find_missing_non_vacuous :
  wf_world wB = true /\ wf_ops wB [] esFM = true /\ wf_tids esFM = true /\
  map (fun x => match x with (e, (s0, s1, mo)) => (mo, wrote wB s0 e s1) end) (skipn 9 (run_x wB esFM))
  = [(Missing cOK [], true); (Missing cOK [], false)].
Proof. vm_compute. repeat split. Qed.

(** the completion hypothesis of [repeat_get_writes_nothing_all] cannot be
    dropped: two Gets of the same old object that are open at the same time
    both copy it (block device, validating factory, two objects per block:
    the second reader carries a pending copy of its own and writes when it
    is consumed) *)
Definition cfgW : config :=
  {| c_bs := 8%N; c_old := 1; c_cur := 0; c_new := 1; c_mutable := false; c_nblocks := 4;
     c_hier := false; c_inst_keys := false; c_validate := true |}.
Definition wW : world := world_of cfgW.
Example concurrent_gets_both_copy :
  let es := put 1 0 ++ put 2 1 ++ put 3 2 ++ [OGetOpen 9 0 0] in
  let s1 := fst (run wW (init_state (w_cfg wW)) es) in
  let s3 := fst (step wW s1 (OGetOpen 10 0 0)) in
  wf_world wW = true /\ pending_refresh s1 9 = true /\
  snd (step wW s1 (OGetOpen 10 0 0)) = Parked /\
  alloc_grew s1 s3 = true /\ pending_refresh s3 10 = true /\
  wrote wW s3 (OGetConsume 10) (fst (step wW s3 (OGetConsume 10))) = true /\
  snd (step wW s3 (OGetConsume 10)) = Done cOK (nth 0 objs []).
Proof. vm_compute. repeat split. Qed.
