(** C05, idempotence part 1: an index invariant of the hierarchical store.

    In hierarchical mode every entry stored under an instance key (o, S a)
    is also stored, with the same location, under the canonical key (o, 0):
    uploads and refresh copies enter both keys, synchronisation copies the
    canonical entry, and parked readers carry key lists that are closed in
    the same sense.  The idempotence theorems need it for one situation: a
    less specific key of an object that was just placed may later receive an
    OLD location (an upload that started long ago finishes in a block that
    has aged meanwhile); the repeated Get then finds that old entry first,
    and it is the canonical entry - not older than the placed copy - that
    lets it synchronise instead of copying again. *)
From Coq Require Import List NArith ZArith Bool Arith Lia Relations.
From Coq Require Import ZifyN ZifyNat ZifyBool.
From BBS Require Import Store.Model Store.WfTids Store.P05Cnt Store.P05Frame Store.P05Ops Store.P05Step.
Import ListNotations.
Open Scope N_scope.

Definition fk_closed (f : list key) : Prop := forall o a, In (o, S a) f -> In (o, O) f.
Definition hix (s : state) : Prop :=
  forall o a l, In ((o, S a), l) (s_index s) -> In ((o, O), l) (s_index s).
Definition tok (t : thread) : Prop :=
  match t with
  | TGet _ _ _ _ f => fk_closed f
  | TGfc _ _ _ _ _ _ => False
  | _ => True
  end.
Definition tinv (s : state) : Prop := forall tid t, thr_get (s_threads s) tid = Some t -> tok t.
Definition hinv (s : state) : Prop := hix s /\ tinv s.

Lemma fk_closed_nil : fk_closed [].
Proof. intros o a []. Qed.
Lemma fk_closed_pair o a : fk_closed [canonical_key o; (o, S a)].
Proof.
  intros o' a' [E|[E|[]]]; [discriminate|]. inversion E; subst. left. reflexivity.
Qed.

Lemma hinv_ixt s s' : ixt s s' -> hinv s -> hinv s'.
Proof.
  intros [I T] [H1 H2]. split.
  - intros o a l. rewrite I. apply H1.
  - intros tid t. rewrite T. apply H2.
Qed.
Lemma hinv_same s s' : same s s' -> hinv s -> hinv s'.
Proof. intros [_ I]. apply hinv_ixt, I. Qed.
Lemma hinv_fr c s s' : fr c s s' -> hinv s -> hinv s'.
Proof. intros [_ I]. apply hinv_ixt, I. Qed.

Lemma index_put_all_in ks : forall s l k' l',
  In (k', l') (s_index (index_put_all s ks l)) <-> In (k', l') (s_index s) \/ (In k' ks /\ l' = l).
Proof.
  induction ks as [|k t IH]; intros s l k' l'; cbn [index_put_all].
  - split; [auto|]. intros [H|[[] _]]; exact H.
  - rewrite IH. destruct (same_index_put s k l) as (_ & _ & I). rewrite I. cbn [In]. split.
    + intros [[E|H]|[H1 H2]]; [inversion E; subst; right; auto|auto|right; auto].
    + intros [H|[[E|H1] H2]]; [left; right; exact H|subst; left; left; reflexivity|right; auto].
Qed.

Lemma hinv_put_all s ks l : hinv s -> fk_closed ks -> hinv (index_put_all s ks l).
Proof.
  intros [H1 H2] FC. split.
  - intros o a l'. rewrite !index_put_all_in. intros [H|[H E]].
    + left. eapply H1; eauto.
    + right. split; [eapply FC; eauto|exact E].
  - intros tid t. destruct (index_put_all_spec ks s l) as (_ & T & _). rewrite T. apply H2.
Qed.

Lemma hinv_put s o a l : hinv s -> In ((o, O), l) (s_index s) -> hinv (index_put s (o, S a) l).
Proof.
  intros [H1 H2] HC. destruct (same_index_put s (o, S a) l) as (_ & T & I). split.
  - intros o' a' l'. rewrite I. cbn [In]. intros [E|H].
    + inversion E; subst. right. exact HC.
    + right. eapply H1; eauto.
  - intros tid t. rewrite T. apply H2.
Qed.

Lemma tinv_set s tid t : tinv s -> tok t -> tinv (thr_set s tid t).
Proof.
  intros H Ht tid' t'. rewrite thr_get_set. destruct (Nat.eqb tid tid').
  - intros E; inversion E; subst. exact Ht.
  - apply H.
Qed.
Lemma tinv_rm s tid : tinv s -> tinv (thr_rm s tid).
Proof. intros H tid' t'. rewrite thr_get_rm. destruct (Nat.eqb tid tid'); [discriminate|apply H]. Qed.
Lemma hinv_set s tid t : hinv s -> tok t -> hinv (thr_set s tid t).
Proof. intros [H1 H2] Ht. split; [exact H1|apply tinv_set; auto]. Qed.
Lemma hinv_rm s tid : hinv s -> hinv (thr_rm s tid).
Proof. intros [H1 H2]. split; [exact H1|apply tinv_rm; auto]. Qed.

Lemma hinv_init c : hinv (init_state c).
Proof. split; [intros o a l []|intros tid t; discriminate]. Qed.

(** ---- the operations ---- *)
Lemma open_with_refresh_h w s o l fkeys r s' :
  hinv s -> fk_closed fkeys -> open_with_refresh w s o l fkeys = (r, s') ->
  hinv s' /\ (forall t, r = Ok t -> tok t).
Proof.
  intros HI FC H. unfold open_with_refresh in H.
  destruct (block_of_loc s l) as [b|].
  2:{ inversion H; subst. split; [exact HI|intros; discriminate]. }
  pose proof (hinv_same _ _ (same_pin s (b_uid b)) HI) as H1.
  destruct (needs_refresh s l).
  - destruct (ocn_put (w_cfg w) (pin s (b_uid b)) (l_size l)) as [r2 s2] eqn:EO.
    apply ocn_put_spec in EO. destruct EO as (F2 & _).
    pose proof (hinv_fr _ _ _ F2 H1) as H2.
    destruct r2 as [wr|e].
    + destruct (lockstep (w_cfg w)).
      * inversion H; subst. split; [exact H2|]. intros t E; inversion E; subst. exact FC.
      * destruct (finalize (w_cfg w) (write_block s2 (wr_uid wr) (wr_off wr) (read_block s2 (b_uid b) (l_off l) (l_size l))) wr true)
          as [r4 s4] eqn:EF.
        apply finalize_spec in EF. destruct EF as (S4 & _).
        pose proof (hinv_same _ _ S4 (hinv_same _ _ (same_write_block _ _ _ _) H2)) as H4.
        destruct r4 as [nl|e]; inversion H; subst.
        -- split; [apply hinv_put_all; auto|]. intros t E; inversion E; subst. apply fk_closed_nil.
        -- split; [eapply hinv_same; [apply same_unpin|exact H4]|intros; discriminate].
    + inversion H; subst. split; [eapply hinv_same; [apply same_unpin|exact H2]|intros; discriminate].
  - inversion H; subst. split; [exact H1|]. intros t E; inversion E; subst. exact FC.
Qed.

Lemma lookup_keys_hier w o i k :
  c_hier (w_cfg w) = true -> In k (lookup_keys w o i) -> exists a, k = (o, S a).
Proof.
  intros Hh H. unfold lookup_keys in H. rewrite Hh in H. apply in_map_iff in H.
  destruct H as (a & E & _). exists a. auto.
Qed.

Lemma sync_h s o a cl s1 :
  hinv s -> sync_from_canonical s o (o, S a) = Some (cl, s1) -> hinv s1.
Proof.
  intros HI H. unfold sync_from_canonical in H.
  destruct (index_get s (canonical_key o)) as [cl'|] eqn:IC; [|discriminate].
  destruct (needs_refresh s cl'); [discriminate|]. inversion H; subst.
  apply index_get_in in IC. destruct IC as [IC _]. apply hinv_put; auto.
Qed.

Lemma get_open_h w s o i r s' :
  c_hier (w_cfg w) = true -> hinv s -> get_open w s o i = (r, s') ->
  hinv s' /\ (forall t, r = Ok t -> tok t).
Proof.
  intros Hh HI H. unfold get_open in H.
  destruct (least_specific s (lookup_keys w o i)) as [[k l]|] eqn:LS.
  2:{ inversion H; subst. split; [exact HI|intros; discriminate]. }
  apply least_specific_some in LS. destruct LS as [KI _].
  destruct (lookup_keys_hier w o i k Hh KI) as (a & ->).
  destruct (negb (needs_refresh s l)).
  - eapply open_with_refresh_h; eauto. apply fk_closed_nil.
  - rewrite Hh in H. destruct (sync_from_canonical s o (o, S a)) as [[cl s1]|] eqn:SY.
    + eapply open_with_refresh_h; [eapply sync_h; eauto|apply fk_closed_nil|exact H].
    + eapply open_with_refresh_h; [exact HI|apply fk_closed_pair|exact H].
Qed.

Lemma get_consume_h w s o uid l refresh fkeys code bytes s' :
  hinv s -> fk_closed fkeys -> get_consume w s o uid l refresh fkeys = (code, bytes, s') -> hinv s'.
Proof.
  intros HI FC. unfold get_consume.
  destruct (read_validated w s o uid l) as [[valid bs] s1] eqn:ER.
  apply read_validated_spec in ER. destruct ER as [F1 _].
  pose proof (hinv_fr _ _ _ F1 HI) as H1.
  destruct refresh as [wr|].
  - set (s1' := if valid then write_block s1 (wr_uid wr) (wr_off wr) bs else s1).
    assert (H1' : hinv s1').
    { unfold s1'. destruct valid; [eapply hinv_same; [apply same_write_block|exact H1]|exact H1]. }
    destruct (finalize (w_cfg w) s1' wr valid) as [r4 s4] eqn:EF.
    apply finalize_spec in EF. destruct EF as (S4 & _).
    pose proof (hinv_same _ _ S4 H1') as H4.
    destruct r4 as [nl|e].
    + assert (HF : hinv (unpin (w_cfg w) (index_put_all s4 fkeys nl) uid)).
      { eapply hinv_same; [apply same_unpin|apply hinv_put_all; auto]. }
      destruct (negb valid); [|destruct (Z.eqb cOK cOK)]; intros H; inversion H; subst; exact HF.
    + assert (HF : hinv (unpin (w_cfg w) s4 uid)) by (eapply hinv_same; [apply same_unpin|exact H4]).
      destruct (negb valid); [|destruct (Z.eqb e cOK)]; intros H; inversion H; subst; exact HF.
  - assert (HF : hinv (unpin (w_cfg w) s1 uid)) by (eapply hinv_same; [apply same_unpin|exact H1]).
    destruct (negb valid); [|destruct (Z.eqb cOK cOK)]; intros H; inversion H; subst; exact HF.
Qed.

Lemma fm_refresh_one_h w s o i r s' :
  c_hier (w_cfg w) = true -> hinv s -> fm_refresh_one w s o i = (r, s') -> hinv s'.
Proof.
  intros Hh HI H. unfold fm_refresh_one in H.
  destruct (least_specific s (lookup_keys w o i)) as [[k l]|] eqn:LS.
  2:{ inversion H; subst. exact HI. }
  apply least_specific_some in LS. destruct LS as [KI _].
  destruct (lookup_keys_hier w o i k Hh KI) as (a & ->).
  destruct (negb (needs_refresh s l)); [inversion H; subst; exact HI|].
  rewrite Hh in H.
  destruct (sync_from_canonical s o (o, S a)) as [[cl s1]|] eqn:SY.
  { inversion H; subst. eapply sync_h; eauto. }
  destruct (block_of_loc s l) as [b|]; [|inversion H; subst; exact HI].
  cbv zeta in H.
  pose proof (hinv_same _ _ (same_pin s (b_uid b)) HI) as H0.
  destruct (ocn_put (w_cfg w) (pin s (b_uid b)) (l_size l)) as [r1 s1] eqn:EO.
  apply ocn_put_spec in EO. destruct EO as (F1 & _).
  pose proof (hinv_fr _ _ _ F1 H0) as H1.
  destruct r1 as [wr|e].
  2:{ inversion H; subst. eapply hinv_same; [apply same_unpin|exact H1]. }
  destruct (read_validated w s1 o (b_uid b) l) as [[valid bs] s2] eqn:ER.
  apply read_validated_spec in ER. destruct ER as [F2 _].
  pose proof (hinv_fr _ _ _ F2 H1) as H2.
  set (s2' := if valid then write_block s2 (wr_uid wr) (wr_off wr) bs else s2) in H.
  assert (H2' : hinv s2').
  { unfold s2'. destruct valid; [eapply hinv_same; [apply same_write_block|exact H2]|exact H2]. }
  destruct (finalize (w_cfg w) (unpin (w_cfg w) s2' (b_uid b)) wr valid) as [r3 s3] eqn:EF.
  apply finalize_spec in EF. destruct EF as (S3 & _).
  pose proof (hinv_same _ _ S3 (hinv_same _ _ (same_unpin _ _ _) H2')) as H3.
  destruct r3 as [nl|e]; inversion H; subst; [|exact H3].
  apply (hinv_put_all s3 [canonical_key o; (o, S a)] nl); [exact H3|apply fk_closed_pair].
Qed.

Lemma fm_phase2_h w : forall todo s missing r s',
  c_hier (w_cfg w) = true -> hinv s -> fm_phase2 w s todo missing = (r, s') -> hinv s'.
Proof.
  induction todo as [|[pos0 [o0 i0]] t IH]; intros s missing r s' Hh HI H; cbn [fm_phase2] in H.
  - inversion H; subst. exact HI.
  - destruct (fm_refresh_one w s o0 i0) as [r1 s1] eqn:E1.
    apply fm_refresh_one_h in E1; auto.
    destruct r1 as [[|]|e]; [eapply IH; eauto|eapply IH; eauto|inversion H; subst; exact E1].
Qed.

Lemma find_missing_h w s ds r s' :
  c_hier (w_cfg w) = true -> hinv s -> find_missing w s ds = (r, s') -> hinv s'.
Proof. intros Hh HI H. unfold find_missing in H. eapply fm_phase2_h; eauto. Qed.

Lemma put_start_h w s o i r s1 :
  hinv s -> put_start w s o i = (r, s1) -> hinv s1 /\ forall t, r = Ok t -> tok t.
Proof.
  intros HI. unfold put_start.
  destruct (if c_hier (w_cfg w) then match index_get s (canonical_key o) with Some l => negb (needs_refresh s l) | None => false end else false).
  - intros H; inversion H; subst. split; [exact HI|]. intros t E; inversion E; subst. exact I.
  - destruct (ocn_put (w_cfg w) s (osize w o)) as [r0 s0] eqn:E.
    apply ocn_put_spec in E. destruct E as (F & _).
    destruct r0; intros H; inversion H; subst; (split; [eapply hinv_fr; eauto|]); intros t E; inversion E; subst.
    exact I.
Qed.

Theorem step_hinv w s e s1 out :
  c_hier (w_cfg w) = true -> hinv s -> step w s e = (s1, out) -> hinv s1.
Proof.
  intros Hh HI H. unfold step in H.
  destruct (may_take_refresh_lock e && refresh_lock_held s); [inversion H; subst; exact HI|].
  destruct (is_corrupt e && reader_open s); [inversion H; subst; exact HI|].
  destruct e as [tid o i|tid data|tid err|tid o i|tid|ds|tid p i ch|tid slices|r off len].
  - (* OPutStart *)
    destruct (thr_get (s_threads s) tid); [inversion H; subst; exact HI|].
    destruct (put_start w s o i) as [r0 s0] eqn:E. apply put_start_h in E; [|exact HI]. destruct E as [H0 HT].
    destruct r0; inversion H; subst; [apply hinv_set; auto|exact H0].
  - (* OPutChunk *)
    destruct (thr_get (s_threads s) tid) as [[o i wr acc|o i acc|? ? ? ? ?|? ? ? ? ? ?|?]|];
      try (inversion H; subst; exact HI).
    + destruct (wr_size wr <? N.of_nat (length acc + length data)).
      * destruct (finalize (w_cfg w) s wr false) as [r0 s0] eqn:E. apply finalize_spec in E. destruct E as (S0 & _).
        inversion H; subst. apply hinv_rm. eapply hinv_same; eauto.
      * inversion H; subst. apply hinv_set; [eapply hinv_same; [apply same_write_block|exact HI]|exact I].
    + destruct (osize w o <? N.of_nat (length acc + length data)); inversion H; subst.
      * apply hinv_rm; exact HI.
      * apply hinv_set; [exact HI|exact I].
  - (* OPutEnd *)
    destruct (thr_get (s_threads s) tid) as [[o i wr acc|o i acc|? ? ? ? ?|? ? ? ? ? ?|?]|];
      try (inversion H; subst; exact HI).
    + destruct (finalize (w_cfg w) s wr (Z.eqb err 0 && bytes_eqb acc (content w o))) as [r0 s0] eqn:E.
      apply finalize_spec in E. destruct E as (S0 & _).
      pose proof (hinv_same _ _ S0 HI) as H0.
      destruct r0; inversion H; subst; apply hinv_rm; [|exact H0].
      apply hinv_put_all; [exact H0|]. unfold finalize_keys. rewrite Hh. apply fk_closed_pair.
    + destruct (negb (Z.eqb err 0)); [inversion H; subst; apply hinv_rm; exact HI|].
      destruct (negb (bytes_eqb acc (content w o))); [inversion H; subst; apply hinv_rm; exact HI|].
      destruct (index_get s (canonical_key o)) eqn:IC; inversion H; subst; apply hinv_rm; [|exact HI].
      apply index_get_in in IC. destruct IC as [IC _]. apply hinv_put; auto.
  - (* OGetOpen *)
    destruct (thr_get (s_threads s) tid); [inversion H; subst; exact HI|].
    destruct (get_open w s o i) as [r0 s0] eqn:E. apply get_open_h in E; auto. destruct E as [H0 HT].
    destruct r0; inversion H; subst; [apply hinv_set; auto|exact H0].
  - (* OGetConsume *)
    destruct (thr_get (s_threads s) tid) as [[? ? ? ?|? ? ?|o uid l refresh fkeys|? ? ? ? ? ?|?]|] eqn:ET;
      try (inversion H; subst; exact HI).
    destruct (get_consume w s o uid l refresh fkeys) as [[code bytes] s0] eqn:E.
    apply get_consume_h in E; [|exact HI|exact (proj2 HI _ _ ET)].
    inversion H; subst. apply hinv_rm; exact E.
  - (* OFindMissing *)
    destruct (find_missing w s ds) as [r0 s0] eqn:E. apply find_missing_h in E; auto.
    destruct r0; inversion H; subst; exact E.
  - (* OGfcStart *)
    destruct (thr_get (s_threads s) tid); [inversion H; subst; exact HI|].
    rewrite Hh in H.
    destruct (get_open w s p i) as [r0 s0] eqn:E. apply get_open_h in E; auto. destruct E as [H0 HT].
    destruct r0 as [[| |? ? ? ? ?| |]|]; inversion H; subst; try exact H0.
    + apply hinv_set; [exact H0|]. apply (HT _ eq_refl).
    + apply hinv_set; [exact H0|exact I].
  - (* OGfcSlice *)
    destruct (thr_get (s_threads s) tid) as [[? ? ? ?|? ? ?|o uid l refresh fkeys|p i uid pl refresh pk|e0]|] eqn:ET;
      try (inversion H; subst; exact HI).
    + destruct (get_consume w s o uid l refresh fkeys) as [[code bytes] s0] eqn:E.
      apply get_consume_h in E; [|exact HI|exact (proj2 HI _ _ ET)].
      inversion H; subst. apply hinv_rm; exact E.
    + exfalso. exact (proj2 HI _ _ ET).
    + inversion H; subst. apply hinv_rm; exact HI.
  - (* OCorrupt *)
    destruct (dev_get (s_dev s) r); inversion H; subst; [exact HI|].
    eapply hinv_same; [apply same_upd_dev|exact HI].
Qed.

Lemma run_hinv w : forall es s, c_hier (w_cfg w) = true -> hinv s -> hinv (fst (run w s es)).
Proof.
  induction es as [|e t IH]; intros s Hh HI; cbn [run]; [exact HI|].
  destruct (step w s e) as [s1 o] eqn:E. pose proof (step_hinv _ _ _ _ _ Hh HI E) as H1.
  specialize (IH s1 Hh H1). destruct (run w s1 t) as [s2 os]. exact IH.
Qed.

Theorem reachable_hinv w es : c_hier (w_cfg w) = true -> hinv (fst (run w (init_state (w_cfg w)) es)).
Proof. intros Hh. apply run_hinv; [exact Hh|apply hinv_init]. Qed.
