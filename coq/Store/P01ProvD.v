(** C01 proofs: provenance / thread-id part.  File D: the invariant relating
    the monitor's bookkeeping to the model state, and its generic
    preservation lemmas. *)
From Coq Require Import List NArith ZArith Bool Arith Lia.
From BBS Require Import Common.Sx Store.Model Store.Wf Store.WfTids Run.RStore Run.R01
  Store.P01Defs Store.P01Inv Store.P01ProvA Store.P01ProvB Store.P01ProvC.
Import ListNotations.
Local Open Scope nat_scope.

Definition pfind (pending : list (nat * (nat * nat))) (tid : nat) : option (nat * (nat * nat)) :=
  find (fun e => Nat.eqb (fst e) tid) pending.

Section Inv.
Variable w : world.
Notation puts_t := (list (nat * (nat * nat))).
Notation gfcs_t := (list (nat * (nat * nat * nat))).

Definition thr_ok (puts : puts_t) (gfcs : gfcs_t) (up : list (nat * nat)) (tid : nat) (t : thread) : Prop :=
  match t with
  | TPut o i _ _ => assoc puts tid = Some (o, i)
  | TPutExisting o i _ => assoc puts tid = Some (o, i) /\ c_hier (w_cfg w) = true
  | TGet o _ _ _ fk => forall k, In k fk -> kcov w up k
  | TGfc p i _ _ _ pk =>
      c_hier (w_cfg w) = false /\ kcov w up pk /\ visible w up p i = true /\
      exists ch, assoc gfcs tid = Some (p, i, ch)
  | TGfcErr e => e <> 0%Z
  end.

Record PInv (puts gets : puts_t) (gfcs : gfcs_t) (up : list (nat * nat)) (s : state)
       (pending : list (nat * (nat * nat))) (seen : list nat) : Prop := {
  p_idx : icov w up s;
  p_thr : forall tid t, thr_get (s_threads s) tid = Some t -> thr_ok puts gfcs up tid t;
  p_gets : forall tid ob i, assoc gets tid = Some (ob, i) ->
      In tid seen /\ visible w up ob i = true /\
      (forall o uid l rf fk, thr_get (s_threads s) tid = Some (TGet o uid l rf fk) -> o = ob);
  p_gfcs : forall tid p i ch, assoc gfcs tid = Some (p, i, ch) ->
      In tid seen /\ pfind pending tid = Some (tid, (p, ch)) /\
      (forall o uid l rf fk, thr_get (s_threads s) tid = Some (TGet o uid l rf fk) ->
                             o = p /\ visible w up p i = true);
}.

Lemma thr_ok_mono puts gfcs up up' tid t :
  (forall x, In x up -> In x up') -> thr_ok puts gfcs up tid t -> thr_ok puts gfcs up' tid t.
Proof.
  intros Hs. destruct t; cbn [thr_ok]; auto.
  - intros H k Hk. eapply kcov_mono; eauto.
  - intros (A & B & C & D). split; [exact A|]. split; [eapply kcov_mono; eauto|].
    split; [eapply visible_mono; eauto|exact D].
Qed.

Lemma pinv_state puts gets gfcs up up' s s' pd sn :
  PInv puts gets gfcs up s pd sn -> s_threads s' = s_threads s ->
  (forall x, In x up -> In x up') -> icov w up' s' ->
  PInv puts gets gfcs up' s' pd sn.
Proof.
  intros [A B C D] T Hs IC. split.
  - exact IC.
  - intros tid t H. rewrite T in H. eapply thr_ok_mono; eauto.
  - intros tid ob i H. destruct (C _ _ _ H) as (C1 & C2 & C3). split; [exact C1|].
    split; [eapply visible_mono; eauto|]. rewrite T. exact C3.
  - intros tid p i ch H. destruct (D _ _ _ _ H) as (D1 & D2 & D3). split; [exact D1|].
    split; [exact D2|]. rewrite T. intros o uid l rf fk G. destruct (D3 _ _ _ _ _ G) as [X Y].
    split; [exact X|eapply visible_mono; eauto].
Qed.

Lemma pinv_same puts gets gfcs up s s' pd sn :
  PInv puts gets gfcs up s pd sn -> same s s' -> PInv puts gets gfcs up s' pd sn.
Proof.
  intros P S. eapply pinv_state; [exact P|apply S|auto|]. eapply same_icov; [exact S|apply P].
Qed.

Lemma pinv_rm puts gets gfcs up s pd sn tid :
  PInv puts gets gfcs up s pd sn -> PInv puts gets gfcs up (thr_rm s tid) pd sn.
Proof.
  intros [A B C D]. split.
  - exact A.
  - intros tid' t H. rewrite thr_get_rm in H. destruct (Nat.eqb tid tid'); [discriminate|auto].
  - intros tid' ob i H. destruct (C _ _ _ H) as (C1 & C2 & C3). split; [exact C1|]. split; [exact C2|].
    intros o uid l rf fk G. rewrite thr_get_rm in G. destruct (Nat.eqb tid tid'); [discriminate|eauto].
  - intros tid' p i ch H. destruct (D _ _ _ _ H) as (D1 & D2 & D3). split; [exact D1|]. split; [exact D2|].
    intros o uid l rf fk G. rewrite thr_get_rm in G. destruct (Nat.eqb tid tid'); [discriminate|eauto].
Qed.

Lemma pinv_seen puts gets gfcs up s pd sn t :
  PInv puts gets gfcs up s pd sn -> PInv puts gets gfcs up s pd (t :: sn).
Proof.
  intros [A B C D]. split; auto.
  - intros tid ob i H. destruct (C _ _ _ H) as (C1 & C2 & C3). split; [right; exact C1|auto].
  - intros tid p i ch H. destruct (D _ _ _ _ H) as (D1 & D2 & D3). split; [right; exact D1|auto].
Qed.

Lemma pinv_pending puts gets gfcs up s pd sn t x :
  PInv puts gets gfcs up s pd sn -> ~ In t sn -> PInv puts gets gfcs up s ((t, x) :: pd) sn.
Proof.
  intros [A B C D] NS. split; auto.
  intros tid p i ch H. destruct (D _ _ _ _ H) as (D1 & D2 & D3). split; [exact D1|]. split; [|exact D3].
  unfold pfind. cbn [find fst]. destruct (Nat.eqb t tid) eqn:E; [|exact D2].
  apply Nat.eqb_eq in E. subst. contradiction.
Qed.

Lemma pinv_puts puts puts' gets gfcs up s pd sn :
  PInv puts gets gfcs up s pd sn ->
  (forall tid, thr_get (s_threads s) tid <> None -> assoc puts' tid = assoc puts tid) ->
  PInv puts' gets gfcs up s pd sn.
Proof.
  intros [A B C D] HA. split; auto.
  intros tid t H. pose proof (B _ _ H) as X. assert (E : assoc puts' tid = assoc puts tid) by (apply HA; congruence).
  destruct t; cbn [thr_ok] in *; try rewrite E; auto.
Qed.

Lemma pinv_gets_rm puts gets gfcs up s pd sn tid :
  PInv puts gets gfcs up s pd sn -> PInv puts (unassoc gets tid) gfcs up s pd sn.
Proof.
  intros [A B C D]. split; auto.
  intros tid' ob i H. rewrite assoc_unassoc in H. destruct (Nat.eqb tid' tid); [discriminate|eauto].
Qed.

Lemma pinv_gets_add puts gets gfcs up s pd sn tid ob i :
  PInv puts gets gfcs up s pd sn -> In tid sn -> visible w up ob i = true ->
  (forall o uid l rf fk, thr_get (s_threads s) tid = Some (TGet o uid l rf fk) -> o = ob) ->
  PInv puts ((tid, (ob, i)) :: gets) gfcs up s pd sn.
Proof.
  intros [A B C D] HS HV HT. split; auto.
  intros tid' ob' i' H. rewrite assoc_cons in H. destruct (Nat.eqb tid' tid) eqn:E; [|eauto].
  apply Nat.eqb_eq in E. subst tid'. injection H as <- <-. auto.
Qed.

Definition not_tgfc (o : option thread) : Prop :=
  match o with Some (TGfc _ _ _ _ _ _) => False | _ => True end.

Lemma pinv_gfcs_rm puts gets gfcs up s pd sn tid :
  PInv puts gets gfcs up s pd sn -> not_tgfc (thr_get (s_threads s) tid) ->
  PInv puts gets (unassoc gfcs tid) up s pd sn.
Proof.
  intros [A B C D] NT. split; auto.
  - intros tid' t H. pose proof (B _ _ H) as X. destruct t; cbn [thr_ok] in *; auto.
    destruct X as (X1 & X2 & X3 & ch & X4). split; [exact X1|]. split; [exact X2|]. split; [exact X3|].
    exists ch. rewrite assoc_unassoc. destruct (Nat.eqb tid' tid) eqn:E; [|exact X4].
    apply Nat.eqb_eq in E. subst tid'. rewrite H in NT. contradiction.
  - intros tid' p i ch H. rewrite assoc_unassoc in H. destruct (Nat.eqb tid' tid); [discriminate|eauto].
Qed.

Lemma pinv_gfcs_add puts gets gfcs up s pd sn tid p i ch :
  PInv puts gets gfcs up s pd sn -> thr_get (s_threads s) tid = None -> In tid sn ->
  pfind pd tid = Some (tid, (p, ch)) ->
  PInv puts gets ((tid, (p, i, ch)) :: gfcs) up s pd sn.
Proof.
  intros [A B C D] HN HS HF. split; auto.
  - intros tid' t H. pose proof (B _ _ H) as X. destruct t; cbn [thr_ok] in *; auto.
    destruct X as (X1 & X2 & X3 & ch' & X4). split; [exact X1|]. split; [exact X2|]. split; [exact X3|].
    exists ch'. rewrite assoc_cons. destruct (Nat.eqb tid' tid) eqn:E; [|exact X4].
    apply Nat.eqb_eq in E. subst tid'. congruence.
  - intros tid' p' i' ch' H. rewrite assoc_cons in H. destruct (Nat.eqb tid' tid) eqn:E; [|eauto].
    apply Nat.eqb_eq in E. subst tid'. injection H as <- <- <-. split; [exact HS|]. split; [exact HF|].
    intros o uid l rf fk G. congruence.
Qed.

Lemma pinv_set puts gets gfcs up s pd sn tid t :
  PInv puts gets gfcs up s pd sn -> thr_ok puts gfcs up tid t ->
  (forall o uid l rf fk, t = TGet o uid l rf fk ->
     (forall ob i, assoc gets tid = Some (ob, i) -> o = ob) /\
     (forall p i ch, assoc gfcs tid = Some (p, i, ch) -> o = p /\ visible w up p i = true)) ->
  PInv puts gets gfcs up (thr_set s tid t) pd sn.
Proof.
  intros [A B C D] HT HG. split.
  - exact A.
  - intros tid' t' H. rewrite thr_get_set in H. destruct (Nat.eqb tid tid') eqn:E; [|auto].
    apply Nat.eqb_eq in E. subst tid'. injection H as <-. exact HT.
  - intros tid' ob i H. destruct (C _ _ _ H) as (C1 & C2 & C3). split; [exact C1|]. split; [exact C2|].
    intros o uid l rf fk G. rewrite thr_get_set in G. destruct (Nat.eqb tid tid') eqn:E; [|eauto].
    apply Nat.eqb_eq in E. subst tid'. injection G as G. destruct (HG _ _ _ _ _ G) as [X _]. eauto.
  - intros tid' p i ch H. destruct (D _ _ _ _ H) as (D1 & D2 & D3). split; [exact D1|]. split; [exact D2|].
    intros o uid l rf fk G. rewrite thr_get_set in G. destruct (Nat.eqb tid tid') eqn:E; [|eauto].
    apply Nat.eqb_eq in E. subst tid'. injection G as G. destruct (HG _ _ _ _ _ G) as [_ X]. eauto.
Qed.

Lemma pinv_gets_none puts gets gfcs up s pd sn tid :
  PInv puts gets gfcs up s pd sn -> ~ In tid sn -> assoc gets tid = None /\ assoc gfcs tid = None.
Proof.
  intros [A B C D] NS. split.
  - destruct (assoc gets tid) as [[ob i]|] eqn:E; [|reflexivity]. destruct (C _ _ _ E) as [X _]. contradiction.
  - destruct (assoc gfcs tid) as [[[p i] ch]|] eqn:E; [|reflexivity]. destruct (D _ _ _ _ E) as [X _]. contradiction.
Qed.

End Inv.
