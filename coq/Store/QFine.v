(** C08Q — COMPOSITION of the compare-and-swap loop (Store/CasMax.v) with the
    quarantine model (Store/Quarantine.v).

    Store/Quarantine.v executes a call of increaseTotalBlocksToBeReleased as
    ONE atomic step "boundary := max boundary target": the integrity callback
    of a reader ([detect]) and the raise of a rotation (the [PRaise] step of the
    Put thread).  Here the same system is modelled at the granularity of the
    atomic operations of that loop

      for { old := v.Load(); if new <= old { return 0 }
            if v.CompareAndSwap(old, new) { return new - old } }

    every reader's callback and the Put thread's raise are threads with a
    program counter of Store/CasMax.v ([CLoad] / [CCas old] / [CRet r]); one
    event performs ONE Load or ONE CompareAndSwap ([cas_op], which is
    [CasMax.cstep] on the variable and that thread), interleaved arbitrarily with
    the operations of all other threads and with every other step of the model.

    Result (forward simulation with stuttering, linearisation points: the Load
    that finds new <= old, the CompareAndSwap that succeeds): the sequence of
    abstract states of EVERY fine-grained trace is a trace of the coarse model
    in which the other steps are stutter steps ([fine_refines_coarse_all]); the
    value a callback's call returns at its linearisation point is the amount the
    coarse [detect_obs] reports ([fine_detect_obs_all]).  Hence every state of the
    fine-grained system is a reachable state of the coarse model and all
    theorems about reachable states (Props/C08Q.v) hold of it. *)
From Coq Require Import List ZArith Bool Lia.
From BBS Require Import Common.Sx Store.Quarantine Store.QuarantineProofs Store.CasMax Run.R08Q Run.R08QProofs.
Import ListNotations.
Open Scope Z_scope.

(** ONE atomic operation of the loop of a call asking for [tgt] whose program
    counter is [p], on the atomic variable holding [v]: [CasMax.cstep]. *)
Definition cas_op (v tgt : Z) (p : cpc) : Z * cpc :=
  let s := cstep {| c_v := v; c_ths := [{| c_new := tgt; c_pc := p |}] |} (CStep 0) in
  (c_v s, match c_ths s with t :: _ => c_pc t | [] => p end).

Lemma cas_op_spec v tgt p :
  cas_op v tgt p =
  match p with
  | CLoad => if tgt <=? v then (v, CRet 0) else (v, CCas v)
  | CCas ov => if v =? ov then (tgt, CRet (tgt - ov)) else (v, CLoad)
  | CRet r => (v, CRet r)
  end.
Proof.
  unfold cas_op. destruct p as [|ov|r]; cbn.
  - destruct (tgt <=? v); reflexivity.
  - destruct (v =? ov); reflexivity.
  - reflexivity.
Qed.

(** In a CasMax state with any number of threads, a step of thread [i] is
    [cas_op] on the variable and that thread: the fine-grained system below,
    projected to the boundary and its callers, is a CasMax run. *)
Lemma cstep_is_cas_op s i t : nth_error (c_ths s) i = Some t ->
  cstep s (CStep i) =
  {| c_v := fst (cas_op (c_v s) (c_new t) (c_pc t));
     c_ths := match c_pc t with
              | CRet _ => c_ths s
              | _ => upd (c_ths s) i {| c_new := c_new t; c_pc := snd (cas_op (c_v s) (c_new t) (c_pc t)) |}
              end |}.
Proof.
  intros En. rewrite cas_op_spec. cbn [cstep]. rewrite En. destruct (c_pc t) as [|ov|r].
  - destruct (c_new t <=? c_v s); reflexivity.
  - destruct (c_v s =? ov); reflexivity.
  - destruct s; reflexivity.
Qed.

(** ** The fine-grained system *)
Record fstate := {
  f_q : qst;             (* the state of Store/Quarantine.v *)
  f_rp : list cpc;       (* per reader: where its callback's call stands *)
  f_pp : cpc             (* where the Put thread's raise stands *)
}.

Fixpoint upd_pc (l : list cpc) (n : nat) (p : cpc) : list cpc :=
  match l, n with
  | [], _ => []
  | _ :: t, O => p :: t
  | x :: t, S m => x :: upd_pc t m p
  end.

Definition is_ret (p : cpc) : bool := match p with CRet _ => true | _ => false end.

(** One atomic operation of the callback of reader [r] (a read of an intact
    probe just completes). *)
Definition fdetect (s : fstate) (r : nat) : fstate :=
  let q := f_q s in
  match nth_error (rdrs q) r, nth_error (f_rp s) r with
  | Some rd, Some p =>
      if r_open rd then
        if r_bad rd then
          let '(v', p') := cas_op (tbr q) (r_tgt rd) p in
          if is_ret p'
          then (* the call has returned: the read fails, the reader is finished *)
            {| f_q := set_tbr q v' (Z.max (maxdet q) (r_tgt rd)) (upd_rdr (rdrs q) r);
               f_rp := upd_pc (f_rp s) r p'; f_pp := f_pp s |}
          else {| f_q := set_tbr q v' (maxdet q) (rdrs q); f_rp := upd_pc (f_rp s) r p'; f_pp := f_pp s |}
        else {| f_q := set_tbr q (tbr q) (maxdet q) (upd_rdr (rdrs q) r); f_rp := f_rp s; f_pp := f_pp s |}
      else s
  | _, _ => s
  end.

(** One step of the Put thread; at [PRaise] one atomic operation of
    increaseTotalBlocksToBeReleased(totalBlocksReleased), and when that call
    has returned, resetAllocationBlockIndex and on to the space test. *)
Definition fput (c : qcfg) (s : fstate) : fstate :=
  let q := f_q s in
  match pcs q with
  | PRaise sz =>
      let '(v', p') := cas_op (tbr q) (rel q) (f_pp s) in
      if is_ret p'
      then {| f_q := set_pc (reset_alloc (set_tbr q v' (maxdet q) (rdrs q))) (PSpace sz);
              f_rp := f_rp s; f_pp := CLoad |}
      else {| f_q := set_tbr q v' (maxdet q) (rdrs q); f_rp := f_rp s; f_pp := p' |}
  | _ => {| f_q := put_step c q; f_rp := f_rp s; f_pp := f_pp s |}
  end.

Definition fstep (c : qcfg) (s : fstate) (e : ev) : fstate :=
  match e with
  | EStart sz => {| f_q := start (f_q s) sz; f_rp := f_rp s; f_pp := f_pp s |}
  | EPut => fput c s
  | EEnd => {| f_q := finish (f_q s); f_rp := f_rp s; f_pp := f_pp s |}
  | EOpen k bad => {| f_q := open (f_q s) k bad; f_rp := f_rp s ++ [CLoad]; f_pp := f_pp s |}
  | EDetect r => fdetect s r
  end.

Definition finit (c : qcfg) : fstate := {| f_q := init_of c; f_rp := []; f_pp := CLoad |}.
Definition frun (c : qcfg) (s : fstate) (es : list ev) : fstate := fold_left (fstep c) es s.

(** ** Linearisation: the coarse event a fine step is (None: a stutter step) *)
Definition lin (c : qcfg) (s : fstate) (e : ev) : option ev :=
  let q := f_q s in
  match e with
  | EPut =>
      match pcs q with
      | PRaise _ => if is_ret (snd (cas_op (tbr q) (rel q) (f_pp s))) then Some EPut else None
      | _ => Some EPut
      end
  | EDetect r =>
      match nth_error (rdrs q) r, nth_error (f_rp s) r with
      | Some rd, Some p =>
          if r_open rd then
            if r_bad rd
            then if is_ret (snd (cas_op (tbr q) (r_tgt rd) p)) then Some (EDetect r) else None
            else Some (EDetect r)
          else None
      | _, _ => None
      end
  | _ => Some e
  end.

(** what the caller of the callback sees at a fine step: (code, amount returned
    = what the error logger reports) when the read finishes at this step *)
Definition fobs (s : fstate) (r : nat) : option (Z * Z) :=
  let q := f_q s in
  match nth_error (rdrs q) r, nth_error (f_rp s) r with
  | Some rd, Some p =>
      if r_open rd then
        if r_bad rd
        then match snd (cas_op (tbr q) (r_tgt rd) p) with CRet x => Some (13, x) | _ => None end
        else Some (0, 0)
      else None
  | _, _ => None
  end.

(** ** The invariant of the fine-grained system *)
Definition pc_ok (tgt : Z) (p : cpc) : Prop :=
  match p with CLoad => True | CCas ov => ov < tgt | CRet _ => False end.

Record FI (s : fstate) : Prop := {
  fi_len : length (f_rp s) = length (rdrs (f_q s));
  fi_rd : forall r rd p, nth_error (rdrs (f_q s)) r = Some rd -> r_open rd = true ->
            nth_error (f_rp s) r = Some p -> pc_ok (r_tgt rd) p;
  fi_pp : match f_pp s with
          | CLoad => True
          | CCas ov => is_raise (pcs (f_q s)) = true /\ ov < rel (f_q s)
          | CRet _ => False
          end
}.

Lemma set_tbr_id st : set_tbr st (tbr st) (maxdet st) (rdrs st) = st.
Proof. destruct st; reflexivity. Qed.

Lemma upd_pc_length l : forall n p, length (upd_pc l n p) = length l.
Proof. induction l as [|x t IH]; intros [|n] p; cbn [upd_pc length]; auto. Qed.

Lemma nth_upd_pc_same l : forall n p q, nth_error (upd_pc l n p) n = Some q -> q = p.
Proof.
  induction l as [|x t IH]; intros [|n] p q H; cbn [upd_pc nth_error] in H; try discriminate.
  - injection H as <-. reflexivity.
  - eapply IH; eauto.
Qed.

Lemma nth_upd_pc_other l : forall n m p, n <> m -> nth_error (upd_pc l n p) m = nth_error l m.
Proof.
  induction l as [|x t IH]; intros [|n] [|m] p H; cbn [upd_pc nth_error]; auto; try congruence.
Qed.

Lemma nth_upd_rdr_open l : forall n m rd, nth_error (upd_rdr l n) m = Some rd -> r_open rd = true ->
  nth_error l m = Some rd /\ n <> m.
Proof.
  induction l as [|x t IH]; intros [|n] [|m] rd H Ho; cbn [upd_rdr nth_error] in *; try discriminate; auto.
  - injection H as <-. discriminate.
  - destruct (IH _ _ _ H Ho). auto.
Qed.

(** ** One fine step is a coarse step or a stutter step *)
Definition ostep (c : qcfg) (st : qst) (oe : option ev) : qst :=
  match oe with None => st | Some e => step c st e end.

Lemma fdetect_sim c s r : FI s ->
  f_q (fdetect s r) = ostep c (f_q s) (lin c s (EDetect r)) /\ FI (fdetect s r).
Proof.
  intros [Hl Hr Hp]. unfold fdetect, lin. cbn [ostep].
  destruct (nth_error (rdrs (f_q s)) r) as [rd|] eqn:En; [|split; [reflexivity|constructor; auto]].
  destruct (nth_error (f_rp s) r) as [p|] eqn:Ep; [|split; [reflexivity|constructor; auto]].
  destruct (r_open rd) eqn:Eo; [|split; [reflexivity|constructor; auto]].
  destruct (r_bad rd) eqn:Eb.
  - pose proof (Hr _ _ _ En Eo Ep) as Hok. rewrite cas_op_spec.
    assert (Hdet : forall t md, set_tbr (f_q s) t md (upd_rdr (rdrs (f_q s)) r) =
                     set_tbr (f_q s) (Z.max (tbr (f_q s)) (r_tgt rd)) (Z.max (maxdet (f_q s)) (r_tgt rd))
                       (upd_rdr (rdrs (f_q s)) r) ->
                   set_tbr (f_q s) t md (upd_rdr (rdrs (f_q s)) r) = step c (f_q s) (EDetect r)).
    { intros t md E. rewrite E. cbn [step]. unfold detect. rewrite En, Eo, Eb. reflexivity. }
    assert (Hrest : forall p', pc_ok (r_tgt rd) p' ->
                      FI {| f_q := set_tbr (f_q s) (tbr (f_q s)) (maxdet (f_q s)) (rdrs (f_q s));
                            f_rp := upd_pc (f_rp s) r p'; f_pp := f_pp s |}).
    { intros p' Hp'. constructor; cbn [f_q f_rp f_pp]; flds; rewrite ?upd_pc_length; auto.
      intros r0 rd0 p0 En0 Eo0 Ep0. destruct (Nat.eq_dec r r0) as [<-|Hne].
      - apply nth_upd_pc_same in Ep0. subst p0. rewrite En in En0. injection En0 as <-. exact Hp'.
      - rewrite nth_upd_pc_other in Ep0 by exact Hne. eauto. }
    assert (Hfin : forall t md p', FI {| f_q := set_tbr (f_q s) t md (upd_rdr (rdrs (f_q s)) r);
                                         f_rp := upd_pc (f_rp s) r p'; f_pp := f_pp s |}).
    { intros t md p'. constructor; cbn [f_q f_rp f_pp]; flds; rewrite ?upd_pc_length, ?upd_rdr_length; auto.
      intros r0 rd0 p0 En0 Eo0 Ep0. destruct (nth_upd_rdr_open _ _ _ _ En0 Eo0) as (En1 & Hne).
      rewrite nth_upd_pc_other in Ep0 by exact Hne. eauto. }
    destruct p as [|ov|x]; cbn [pc_ok] in Hok; [| |contradiction].
    + destruct (r_tgt rd <=? tbr (f_q s)) eqn:El; cbn [is_ret snd f_q ostep].
      * apply Z.leb_le in El. split; [|apply Hfin]. apply Hdet. f_equal; lia.
      * apply Z.leb_gt in El. rewrite set_tbr_id. split; [reflexivity|].
        rewrite <- (set_tbr_id (f_q s)) at 1. apply Hrest. cbn [pc_ok]. lia.
    + destruct (tbr (f_q s) =? ov) eqn:Ev; cbn [is_ret snd f_q ostep].
      * apply Z.eqb_eq in Ev. split; [|apply Hfin]. apply Hdet. f_equal; lia.
      * rewrite set_tbr_id. split; [reflexivity|].
        rewrite <- (set_tbr_id (f_q s)) at 1. apply Hrest. exact I.
  - cbn [f_q ostep]. split.
    + cbn [step]. unfold detect. rewrite En, Eo, Eb. reflexivity.
    + constructor; cbn [f_q f_rp f_pp]; flds; rewrite ?upd_rdr_length; auto.
      intros r0 rd0 p0 En0 Eo0 Ep0. destruct (nth_upd_rdr_open _ _ _ _ En0 Eo0) as (En1 & Hne). eauto.
Qed.

Lemma fput_sim c s : FI s ->
  f_q (fput c s) = ostep c (f_q s) (lin c s EPut) /\ FI (fput c s).
Proof.
  intros [Hl Hr Hp]. unfold fput, lin. cbn [ostep].
  destruct (pcs (f_q s)) eqn:Epc.
  all: try (cbn [f_q step]; split; [reflexivity|]; constructor; cbn [f_q f_rp f_pp];
            [rewrite (proj1 (put_step_frame c (f_q s))); exact Hl
            |rewrite (proj1 (put_step_frame c (f_q s))); exact Hr
            |destruct (f_pp s); auto; exfalso; destruct Hp as [Hp _]; cbn [is_raise] in Hp;
             try rewrite Epc in Hp; discriminate]).
  rewrite cas_op_spec.
  assert (Hstep : forall t, t = Z.max (tbr (f_q s)) (rel (f_q s)) ->
            set_pc (reset_alloc (set_tbr (f_q s) t (maxdet (f_q s)) (rdrs (f_q s)))) (PSpace sz) =
            step c (f_q s) EPut).
  { intros t ->. cbn [step]. unfold put_step. rewrite Epc. reflexivity. }
  assert (Hdone : forall t, FI {| f_q := set_pc (reset_alloc (set_tbr (f_q s) t (maxdet (f_q s)) (rdrs (f_q s)))) (PSpace sz);
                                  f_rp := f_rp s; f_pp := CLoad |}).
  { intros t. constructor; cbn [f_q f_rp f_pp]; flds; auto. }
  assert (Hstut : forall p', (match p' with
                              | CLoad => True
                              | CCas ov => ov < rel (f_q s)
                              | CRet _ => False
                              end) ->
            FI {| f_q := f_q s; f_rp := f_rp s; f_pp := p' |}).
  { intros p' Hp'. constructor; cbn [f_q f_rp f_pp]; auto. destruct p'; auto. rewrite Epc. auto. }
  destruct (f_pp s) as [|ov|x] eqn:Epp; [| |contradiction].
  - destruct (rel (f_q s) <=? tbr (f_q s)) eqn:El; cbn [is_ret snd f_q ostep].
    + apply Z.leb_le in El. split; [apply Hstep; lia|apply Hdone].
    + apply Z.leb_gt in El. rewrite set_tbr_id. split; [reflexivity|]. apply Hstut. lia.
  - destruct Hp as [_ Hov]. destruct (tbr (f_q s) =? ov) eqn:Ev; cbn [is_ret snd f_q ostep].
    + apply Z.eqb_eq in Ev. split; [apply Hstep; lia|apply Hdone].
    + rewrite set_tbr_id. split; [reflexivity|]. apply Hstut. exact I.
Qed.

Theorem fstep_sim c s e : FI s ->
  f_q (fstep c s e) = ostep c (f_q s) (lin c s e) /\ FI (fstep c s e).
Proof.
  intros HF. destruct e as [sz| | |k bad|r]; cbn [fstep].
  - split; [reflexivity|]. destruct HF as [Hl Hr Hp]. unfold start.
    destruct (pcs (f_q s)) eqn:Epc; constructor; cbn [f_q f_rp f_pp]; flds; rewrite ?Epc; auto.
    all: try (destruct (f_pp s); auto; destruct Hp as [Hp _]; cbn [is_raise] in Hp; try rewrite Epc in Hp; discriminate).
  - apply fput_sim, HF.
  - split; [reflexivity|]. destruct HF as [Hl Hr Hp]. unfold finish.
    destruct (pcs (f_q s)) eqn:Epc; constructor; cbn [f_q f_rp f_pp]; flds; rewrite ?Epc; auto.
    all: try (destruct (f_pp s); auto; destruct Hp as [Hp _]; cbn [is_raise] in Hp; try rewrite Epc in Hp; discriminate).
  - split; [reflexivity|]. destruct HF as [Hl Hr Hp].
    assert (Hfr : rdrs (open (f_q s) k bad) = rdrs (f_q s) ++
                    [if can_open (f_q s) k then {| r_tgt := rel (f_q s) + k + 1; r_bad := bad; r_open := true |}
                     else dead_rdr]
                  /\ pcs (open (f_q s) k bad) = pcs (f_q s) /\ rel (open (f_q s) k bad) = rel (f_q s)).
    { unfold open. destruct (can_open (f_q s) k); flds; auto. }
    destruct Hfr as (F1 & F2 & F3).
    constructor; cbn [f_q f_rp f_pp]; rewrite ?F1, ?F2, ?F3, ?app_length; cbn [length]; auto.
    intros r rd p En Eo Ep.
    destruct (Nat.lt_ge_cases r (length (rdrs (f_q s)))) as [Hlt|Hge].
    + rewrite nth_error_app1 in En by exact Hlt. rewrite nth_error_app1 in Ep by (rewrite Hl; exact Hlt). eauto.
    + rewrite nth_error_app2 in Ep by (rewrite Hl; exact Hge). rewrite Hl in Ep.
      destruct (r - length (rdrs (f_q s)))%nat as [|m]; cbn [nth_error] in Ep.
      * injection Ep as <-. exact I.
      * destruct m; discriminate.
  - apply fdetect_sim, HF.
Qed.

Lemma fi_init c : FI (finit c).
Proof.
  constructor; cbn [finit f_q f_rp f_pp]; auto.
  - destruct (init_of_shape c) as (o & cu & nw & E & _). cbv zeta in E. rewrite E. reflexivity.
  - intros [|r] rd p _ _ H; discriminate.
Qed.

(** ** Traces *)
Fixpoint ftrace (c : qcfg) (s : fstate) (es : list ev) : list fstate :=
  match es with
  | [] => []
  | e :: t => fstep c s e :: ftrace c (fstep c s e) t
  end.

Fixpoint lins (c : qcfg) (s : fstate) (es : list ev) : list (option ev) :=
  match es with
  | [] => []
  | e :: t => lin c s e :: lins c (fstep c s e) t
  end.

Fixpoint ctrace (c : qcfg) (st : qst) (oes : list (option ev)) : list qst :=
  match oes with
  | [] => []
  | oe :: t => ostep c st oe :: ctrace c (ostep c st oe) t
  end.

Fixpoint somes {A} (l : list (option A)) : list A :=
  match l with
  | [] => []
  | Some x :: t => x :: somes t
  | None :: t => somes t
  end.

Lemma trace_sim c : forall es s, FI s ->
  map f_q (ftrace c s es) = ctrace c (f_q s) (lins c s es)
  /\ f_q (frun c s es) = run_evs c (f_q s) (somes (lins c s es))
  /\ FI (frun c s es).
Proof.
  induction es as [|e t IH]; intros s HF; cbn [ftrace lins ctrace map frun fold_left somes run_evs]; [auto|].
  destruct (fstep_sim c s e HF) as (E & HF'). destruct (IH _ HF') as (A1 & A2 & A3).
  fold (frun c (fstep c s e) t). rewrite <- E. split; [f_equal; exact A1|]. split; [|exact A3].
  rewrite A2, E. destruct (lin c s e); reflexivity.
Qed.

(** EVERY fine-grained trace (any interleaving of single Loads and
    CompareAndSwaps of any number of callbacks and of the rotating Put with all
    other steps), seen through its abstract states, IS a coarse-grained trace
    whose steps are the model's atomic-maximum steps at the linearisation
    points and stutter steps elsewhere. *)
Theorem fine_refines_coarse_all c es :
  map f_q (ftrace c (finit c) es) = ctrace c (init_of c) (lins c (finit c) es)
  /\ f_q (frun c (finit c) es) = run_evs c (init_of c) (somes (lins c (finit c) es)).
Proof. destruct (trace_sim c es (finit c) (fi_init c)) as (A & B & _). split; assumption. Qed.

(** ... and what a callback's caller sees when its call returns (INTERNAL and
    the amount for the error logger) is what the coarse step reports. *)
Theorem fine_detect_obs_all c es r :
  let s := frun c (finit c) es in
  match fobs s r with
  | Some o => lin c s (EDetect r) = Some (EDetect r) /\ o = detect_obs (f_q s) r
  | None => lin c s (EDetect r) = None
  end.
Proof.
  intros s. destruct (trace_sim c es (finit c) (fi_init c)) as (_ & _ & HF). fold s in HF.
  destruct HF as [Hl Hr Hp]. unfold fobs, lin, detect_obs.
  destruct (nth_error (rdrs (f_q s)) r) as [rd|] eqn:En; [|reflexivity].
  destruct (nth_error (f_rp s) r) as [p|] eqn:Ep; [|reflexivity].
  destruct (r_open rd) eqn:Eo; [|reflexivity].
  destruct (r_bad rd) eqn:Eb; [|split; reflexivity].
  pose proof (Hr _ _ _ En Eo Ep) as Hok. rewrite cas_op_spec.
  destruct p as [|ov|x]; cbn [pc_ok] in Hok; [| |contradiction].
  - destruct (r_tgt rd <=? tbr (f_q s)) eqn:El; cbn [snd is_ret]; [|reflexivity].
    apply Z.leb_le in El. split; [reflexivity|]. f_equal. lia.
  - destruct (tbr (f_q s) =? ov) eqn:Ev; cbn [snd is_ret]; [|reflexivity].
    apply Z.eqb_eq in Ev. split; [reflexivity|]. f_equal. lia.
Qed.

(** Every state of the fine-grained system is a reachable state of the coarse
    model: the invariants of Store/QuarantineProofs.v hold of it. *)
Corollary fine_state_inv c es : wf0 c -> Inv (f_q (frun c (finit c) es)).
Proof. intros Hq. rewrite (proj2 (fine_refines_coarse_all c es)). apply inv_reach, Hq. Qed.
