(** C01 proofs: Put events, opening and consuming readers. *)
From Coq Require Import List NArith ZArith Bool Arith Lia Permutation.
From BBS Require Import Store.Model Store.Wf Store.P01Inv Store.P01Thr Store.P01StepA.
Import ListNotations.
Open Scope N_scope.

Section Steps.
Hypothesis I : iface.
Variable w : world.
Hypothesis Hwf : wf_config (w_cfg w) = true.
Let c := w_cfg w.

(** ---- OPutStart ---- *)
Lemma put_start_inv cl s o i r s' :
  DInv w cl s -> put_start w s o i = (r, s') ->
  frame_tn s s' /\
  match r with
  | Err _ => DInv w cl s'
  | Ok t => DInv w (claims_of_thread c t ++ cl) s' /\ thread_ok w t
  end.
Proof.
  intros HD. unfold put_start.
  match goal with |- context [if ?b then _ else _] => destruct b end.
  - intros H. injection H as <- <-. split; [apply frame_tn_refl|]. cbn. split; [exact HD|exact Logic.I].
  - destruct (ocn_put (w_cfg w) s (osize w o)) as [[wr|e] s1] eqn:E;
      destruct (i_ocn_put I w cl s _ _ _ Hwf HD E) as [[F1 [F2 F3]] H]; intros X; injection X as <- <-.
    + split; [split; assumption|]. destruct H as [H1 H2]. cbn. split; [exact H1|exact H2].
    + split; [split; assumption|]. exact H.
Qed.

Lemma step_put_start s tid o i :
  SInv w s -> thr_get (s_threads s) tid = None ->
  let r := match put_start w s o i with
           | (Err e, s1) => (s1, Done e [])
           | (Ok t, s1) => (thr_set s1 tid t, Parked)
           end in
  SInv w (fst r) /\ s_negs (fst r) = s_negs s.
Proof.
  intros HS Hg. destruct (put_start w s o i) as [[t|e] s1] eqn:E; cbn zeta;
    destruct (put_start_inv _ _ _ _ _ _ (s_d _ _ HS) E) as [[F1 F2] H]; cbn [fst].
  - destruct H as [H1 H2]. split; [|exact F2].
    eapply sinv_set; [exact I|exact HS|exact F1| |exact H2].
    rewrite (claims_del_none w _ _ Hg). exact H1.
  - split; [|exact F2]. eapply sinv_same; [exact HS|exact F1|exact H].
Qed.

(** ---- OPutChunk ---- *)
Lemma step_put_chunk s tid data :
  SInv w s ->
  let r := match thr_get (s_threads s) tid with
      | Some (TPut o i wr acc) =>
          let n := N.of_nat (length acc + length data) in
          if wr_size wr <? n then
            let '(_, s1) := finalize c s wr false in (thr_rm s1 tid, Done cInvalidArgument [])
          else
            let s1 := write_block s (wr_uid wr) (wr_off wr + N.of_nat (length acc)) data in
            (thr_set s1 tid (TPut o i wr (acc ++ data)), Parked)
      | Some (TPutExisting o i acc) =>
          let n := N.of_nat (length acc + length data) in
          if osize w o <? n then (thr_rm s tid, Done cInvalidArgument [])
          else (thr_set s tid (TPutExisting o i (acc ++ data)), Parked)
      | _ => (s, Bad)
      end in
  SInv w (fst r) /\ s_negs (fst r) = s_negs s.
Proof.
  intros HS. destruct (thr_get (s_threads s) tid) as [t|] eqn:Hg; [|cbn; split; [exact HS|reflexivity]].
  destruct (sinv_split I w s tid t HS Hg) as [HD Hok].
  destruct t as [o i wr acc|o i acc| | |]; try (cbn; split; [exact HS|reflexivity]).
  - cbn [claims_of_thread app] in HD. cbn zeta.
    destruct (wr_size wr <? N.of_nat (length acc + length data)) eqn:E.
    + destruct (finalize c s wr false) as [r s1] eqn:F.
      destruct (finalize_fail_inv I w _ _ _ _ _ _ HD F) as [[F1 F2] [H _]]. cbn [fst].
      split; [|exact F2]. eapply sinv_rm; [exact I|exact HS|exact F1|exact H].
    + apply N.ltb_ge in E. cbn [fst].
      destruct (write_frame s (wr_uid wr) (wr_off wr + N.of_nat (length acc)) data) as [F1 F2].
      split; [|exact F2]. eapply sinv_set; [exact I|exact HS|exact F1| |exact Hok].
      cbn [claims_of_thread app]. apply (i_write I). exact HD. exact E.
  - cbn [claims_of_thread app] in HD. cbn zeta.
    destruct (osize w o <? N.of_nat (length acc + length data)); cbn [fst].
    + split; [|reflexivity]. eapply sinv_rm; [exact I|exact HS|reflexivity|exact HD].
    + split; [|reflexivity]. eapply sinv_set; [exact I|exact HS|reflexivity|exact HD|exact Logic.I].
Qed.

(** ---- OPutEnd ---- *)
Lemma step_put_end s tid err :
  SInv w s ->
  let r := match thr_get (s_threads s) tid with
      | Some (TPut o i wr acc) =>
          let ok := Z.eqb err 0 && bytes_eqb acc (content w o) in
          match finalize c s wr ok with
          | (Err e, s1) => (thr_rm s1 tid, Done (if Z.eqb err 0 then e else err) [])
          | (Ok l, s1) => (thr_rm (index_put_all s1 (finalize_keys w o i) l) tid, Done cOK [])
          end
      | Some (TPutExisting o i acc) =>
          if negb (Z.eqb err 0) then (thr_rm s tid, Done err [])
          else if negb (bytes_eqb acc (content w o)) then (thr_rm s tid, Done cInvalidArgument [])
          else
            match index_get s (canonical_key o) with
            | None => (thr_rm s tid, Done cInternal [])
            | Some l => (thr_rm (index_put s (o, S i) l) tid, Done cOK [])
            end
      | _ => (s, Bad)
      end in
  SInv w (fst r) /\ s_negs (fst r) = s_negs s.
Proof.
  intros HS. destruct (thr_get (s_threads s) tid) as [t|] eqn:Hg; [|cbn; split; [exact HS|reflexivity]].
  destruct (sinv_split I w s tid t HS Hg) as [HD Hok].
  destruct t as [o i wr acc|o i acc| | |]; try (cbn; split; [exact HS|reflexivity]).
  - cbn [claims_of_thread app] in HD. cbn [thread_ok] in Hok. cbn zeta.
    destruct (Z.eqb err 0 && bytes_eqb acc (content w o)) eqn:Eok.
    + apply andb_prop in Eok. destruct Eok as [_ Eb]. apply (i_bytes_eqb_eq I) in Eb. subst acc.
      destruct (finalize c s wr true) as [r s1] eqn:F.
      destruct (finalize_ok_inv I w _ _ _ o (finalize_keys w o i) _ _ HD Hok (finalize_keys_fst w o i) F)
        as [[F1 F2] H].
      destruct r as [nl|e]; cbn [fst].
      * destruct H as [H _].
        destruct (index_put_all_frame (finalize_keys w o i) s1 nl) as [G1 G2].
        split; [|exact (eq_trans G2 F2)]. eapply sinv_rm; [exact I|exact HS|exact (eq_trans G1 F1)|exact H].
      * destruct H as [H _]. split; [|exact F2]. eapply sinv_rm; [exact I|exact HS|exact F1|exact H].
    + destruct (finalize c s wr false) as [r s1] eqn:F.
      destruct (finalize_fail_inv I w _ _ _ _ _ _ HD F) as [[F1 F2] [H [e [-> _]]]]. cbn [fst].
      split; [|exact F2]. eapply sinv_rm; [exact I|exact HS|exact F1|exact H].
  - cbn [claims_of_thread app] in HD.
    destruct (negb (Z.eqb err 0)); cbn [fst];
      [split; [|reflexivity]; eapply sinv_rm; [exact I|exact HS|reflexivity|exact HD]|].
    destruct (negb (bytes_eqb acc (content w o))); cbn [fst];
      [split; [|reflexivity]; eapply sinv_rm; [exact I|exact HS|reflexivity|exact HD]|].
    destruct (index_get s (canonical_key o)) as [l|] eqn:Eg; cbn [fst];
      [|split; [|reflexivity]; eapply sinv_rm; [exact I|exact HS|reflexivity|exact HD]].
    destruct (i_index_get_some I _ _ _ Eg) as [Hin Hv].
    split; [|reflexivity]. eapply sinv_rm; [exact I|exact HS|reflexivity|].
    eapply (i_index_put_copy I); [exact HD|exact Hin|exact Hv|reflexivity].
Qed.

End Steps.
