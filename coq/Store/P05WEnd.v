(** C05, idempotence part 6: every index entry (and every writer held by a
    parked operation) lies below the end of the block list.

    Consequence used by the multi-digest FindMissing argument: validity of
    an EXISTING entry can only be lost, never gained (the quarantine mark and
    the released count only grow; the entry is already below the end), so a
    key without a valid entry stays without one until an entry is stored
    under it. *)
From Coq Require Import List NArith ZArith Bool Arith Lia Relations.
From Coq Require Import ZifyN ZifyNat ZifyBool.
From BBS Require Import Store.Model Store.WfTids Store.P05Cnt Store.P05Frame Store.P05Ops Store.P05Step.
Import ListNotations.
Open Scope N_scope.

Definition wr_ok (s : state) (wr : writer) : Prop := wr_abs wr < k_end (proj s).
Definition twr (s : state) (t : thread) : Prop :=
  match t with
  | TPut _ _ wr _ => wr_ok s wr
  | TGet _ _ _ (Some wr) _ => wr_ok s wr
  | TGfc _ _ _ _ (Some wr) _ => wr_ok s wr
  | _ => True
  end.
Definition eix (s : state) : Prop := forall k l, In (k, l) (s_index s) -> l_abs l < k_end (proj s).
Definition einv (s : state) : Prop :=
  eix s /\ forall tid t, thr_get (s_threads s) tid = Some t -> twr s t.

Lemma kend_mono c s s' : creach c (proj s) (proj s') -> k_end (proj s) <= k_end (proj s').
Proof. intros R. apply creach_mono in R. unfold kmono in R. lia. Qed.

Lemma wr_ok_mono c s s' wr : creach c (proj s) (proj s') -> wr_ok s wr -> wr_ok s' wr.
Proof. intros R H. pose proof (kend_mono _ _ _ R). unfold wr_ok in *. lia. Qed.

Lemma twr_mono c s s' t : creach c (proj s) (proj s') -> twr s t -> twr s' t.
Proof.
  intros R. destruct t as [? ? wr ?|? ? ?|? ? ? [wr|] ?|? ? ? ? [wr|] ?|?]; cbn [twr]; auto; eapply wr_ok_mono; eauto.
Qed.

Lemma einv_fr c s s' : fr c s s' -> einv s -> einv s'.
Proof.
  intros [R [I T]] [H1 H2]. pose proof (kend_mono _ _ _ R) as M. split.
  - intros k l. rewrite I. intros H. specialize (H1 k l H). lia.
  - intros tid t. rewrite T. intros H. eapply twr_mono; eauto.
Qed.
Lemma twr_proj s s' t : proj s' = proj s -> twr s t -> twr s' t.
Proof.
  intros P. destruct t as [? ? wr ?|? ? ?|? ? ? [wr|] ?|? ? ? ? [wr|] ?|?]; cbn [twr]; auto; unfold wr_ok; rewrite P; auto.
Qed.

Lemma einv_same s s' : same s s' -> einv s -> einv s'.
Proof.
  intros [P [I T]] [H1 H2]. split.
  - intros k l. rewrite I, P. apply H1.
  - intros tid t. rewrite T. intros H. eapply twr_proj; eauto.
Qed.

Lemma einv_put s k l : einv s -> l_abs l < k_end (proj s) -> einv (index_put s k l).
Proof.
  intros [H1 H2] HL. destruct (same_index_put s k l) as (P & T & I). split.
  - intros k' l'. rewrite I, P. intros [E|H]; [inversion E; subst; exact HL|exact (H1 _ _ H)].
  - intros tid t. rewrite T. intros H. eapply twr_proj; eauto.
Qed.

Lemma einv_put_all ks : forall s l, einv s -> l_abs l < k_end (proj s) -> einv (index_put_all s ks l).
Proof.
  induction ks as [|k t IH]; intros s l H HL; cbn [index_put_all]; [exact H|].
  apply IH; [apply einv_put; auto|]. destruct (same_index_put s k l) as (P & _). rewrite P. exact HL.
Qed.

Lemma einv_set s tid t : einv s -> twr s t -> einv (thr_set s tid t).
Proof.
  intros [H1 H2] Ht. split; [exact H1|].
  intros tid' t'. rewrite thr_get_set. destruct (Nat.eqb tid tid').
  - intros E; inversion E; subst. exact Ht.
  - intros H. exact (H2 _ _ H).
Qed.
Lemma einv_rm s tid : einv s -> einv (thr_rm s tid).
Proof.
  intros [H1 H2]. split; [exact H1|].
  intros tid' t'. rewrite thr_get_rm. destruct (Nat.eqb tid tid'); [discriminate|]. intros H. exact (H2 _ _ H).
Qed.
Lemma einv_init c : einv (init_state c).
Proof. split; [intros k l []|intros tid t; discriminate]. Qed.

Lemma ocn_put_wr c s size wr s' : ocn_put c s size = (Ok wr, s') -> wr_ok s' wr.
Proof.
  intros H. apply ocn_put_spec in H. destruct H as (_ & HW & _). destruct (HW wr eq_refl) as [_ B].
  unfold wr_ok, k_end. cbn. exact B.
Qed.

Lemma finalize_loc c s wr ok l s' : finalize c s wr ok = (Ok l, s') -> l_abs l = wr_abs wr.
Proof. intros H. apply finalize_spec in H. destruct H as (_ & HL & _). exact (proj1 (HL l eq_refl)). Qed.

Lemma wr_ok_same s s' wr : same s s' -> wr_ok s wr -> wr_ok s' wr.
Proof. intros [P _]. unfold wr_ok. rewrite P. auto. Qed.

(** ---- the operations ---- *)
Lemma open_with_refresh_e w s o l fkeys r s' :
  einv s -> open_with_refresh w s o l fkeys = (r, s') -> einv s' /\ (forall t, r = Ok t -> twr s' t).
Proof.
  intros HI H. unfold open_with_refresh in H. set (c := w_cfg w) in *.
  destruct (block_of_loc s l) as [b|].
  2:{ inversion H; subst. split; [exact HI|intros; discriminate]. }
  pose proof (einv_same _ _ (same_pin s (b_uid b)) HI) as H1.
  destruct (needs_refresh s l).
  - destruct (ocn_put c (pin s (b_uid b)) (l_size l)) as [r2 s2] eqn:EO.
    pose proof EO as EO'. apply ocn_put_spec in EO'. destruct EO' as (F2 & _).
    pose proof (einv_fr _ _ _ F2 H1) as H2.
    destruct r2 as [wr|e].
    + pose proof (ocn_put_wr _ _ _ _ _ EO) as WO.
      destruct (lockstep c).
      * inversion H; subst. split; [exact H2|]. intros t E; inversion E; subst. exact WO.
      * destruct (finalize c (write_block s2 (wr_uid wr) (wr_off wr) (read_block s2 (b_uid b) (l_off l) (l_size l))) wr true)
          as [r4 s4] eqn:EF.
        pose proof EF as EF'. apply finalize_spec in EF'. destruct EF' as (S4 & _).
        assert (S24 : same s2 s4) by (eapply same_trans; [apply same_write_block|exact S4]).
        pose proof (einv_same _ _ S24 H2) as H4.
        destruct r4 as [nl|e]; inversion H; subst.
        -- split; [|intros t E; inversion E; subst; exact I].
           apply einv_put_all; [exact H4|]. rewrite (finalize_loc _ _ _ _ _ _ EF).
           exact (wr_ok_same _ _ _ S24 WO).
        -- split; [eapply einv_same; [apply same_unpin|exact H4]|intros; discriminate].
    + inversion H; subst. split; [eapply einv_same; [apply same_unpin|exact H2]|intros; discriminate].
  - inversion H; subst. split; [exact H1|]. intros t E; inversion E; subst. exact I.
Qed.

Lemma sync_e s o k cl s1 : einv s -> sync_from_canonical s o k = Some (cl, s1) -> einv s1.
Proof.
  intros HI H. unfold sync_from_canonical in H.
  destruct (index_get s (canonical_key o)) as [cl'|] eqn:IC; [|discriminate].
  destruct (needs_refresh s cl'); [discriminate|]. inversion H; subst.
  apply index_get_in in IC. destruct IC as [IC _]. apply einv_put; [exact HI|]. exact (proj1 HI _ _ IC).
Qed.

Lemma get_open_e w s o i r s' :
  einv s -> get_open w s o i = (r, s') -> einv s' /\ (forall t, r = Ok t -> twr s' t).
Proof.
  intros HI H. unfold get_open in H.
  destruct (least_specific s (lookup_keys w o i)) as [[k l]|].
  2:{ inversion H; subst. split; [exact HI|intros; discriminate]. }
  destruct (negb (needs_refresh s l)); [eapply open_with_refresh_e; eauto|].
  destruct (c_hier (w_cfg w)).
  - destruct (sync_from_canonical s o k) as [[cl s1]|] eqn:SY.
    + eapply open_with_refresh_e; [eapply sync_e; eauto|exact H].
    + eapply open_with_refresh_e; eauto.
  - eapply open_with_refresh_e; eauto.
Qed.

Lemma get_consume_e w s o uid l refresh fkeys code bytes s' :
  einv s -> (forall wr, refresh = Some wr -> wr_ok s wr) ->
  get_consume w s o uid l refresh fkeys = (code, bytes, s') -> einv s'.
Proof.
  intros HI HW. unfold get_consume. set (c := w_cfg w).
  destruct (read_validated w s o uid l) as [[valid bs] s1] eqn:ER.
  apply read_validated_spec in ER. destruct ER as [F1 _].
  pose proof (einv_fr _ _ _ F1 HI) as H1.
  destruct refresh as [wr|].
  - pose proof (wr_ok_mono _ _ _ _ (proj1 F1) (HW wr eq_refl)) as W1.
    set (s1' := if valid then write_block s1 (wr_uid wr) (wr_off wr) bs else s1).
    assert (S1' : same s1 s1') by (unfold s1'; destruct valid; [apply same_write_block|apply same_refl]).
    destruct (finalize c s1' wr valid) as [r4 s4] eqn:EF.
    pose proof EF as EF'. apply finalize_spec in EF'. destruct EF' as (S4 & _).
    assert (S14 : same s1 s4) by (eapply same_trans; eauto).
    pose proof (einv_same _ _ S14 H1) as H4.
    destruct r4 as [nl|e].
    + assert (HF : einv (unpin c (index_put_all s4 fkeys nl) uid)).
      { eapply einv_same; [apply same_unpin|]. apply einv_put_all; [exact H4|].
        rewrite (finalize_loc _ _ _ _ _ _ EF). exact (wr_ok_same _ _ _ S14 W1). }
      destruct (negb valid); [|destruct (Z.eqb cOK cOK)]; intros H; inversion H; subst; exact HF.
    + assert (HF : einv (unpin c s4 uid)) by (eapply einv_same; [apply same_unpin|exact H4]).
      destruct (negb valid); [|destruct (Z.eqb e cOK)]; intros H; inversion H; subst; exact HF.
  - assert (HF : einv (unpin c s1 uid)) by (eapply einv_same; [apply same_unpin|exact H1]).
    destruct (negb valid); [|destruct (Z.eqb cOK cOK)]; intros H; inversion H; subst; exact HF.
Qed.

Lemma fm_refresh_one_e w s o i r s' : einv s -> fm_refresh_one w s o i = (r, s') -> einv s'.
Proof.
  intros HI H. unfold fm_refresh_one in H. set (c := w_cfg w) in *.
  destruct (least_specific s (lookup_keys w o i)) as [[k l]|]; [|inversion H; subst; exact HI].
  destruct (negb (needs_refresh s l)); [inversion H; subst; exact HI|].
  assert (COPY : forall fkeys,
            match block_of_loc s l with
            | None => (Err (-3)%Z, s)
            | Some b =>
                let s0 := pin s (b_uid b) in
                match ocn_put c s0 (l_size l) with
                | (Err e, s1) => (Err e, unpin c s1 (b_uid b))
                | (Ok wr, s1) =>
                    let '(valid, bytes, s2) := read_validated w s1 o (b_uid b) l in
                    let s2' := if valid then write_block s2 (wr_uid wr) (wr_off wr) bytes else s2 in
                    let s2'' := unpin c s2' (b_uid b) in
                    match finalize c s2'' wr valid with
                    | (Err e, s3) => (Err (if valid then e else cInternal), s3)
                    | (Ok nl, s3) => (Ok true, index_put_all s3 fkeys nl)
                    end
                end
            end = (r, s') -> einv s').
  { intros fkeys HC.
    destruct (block_of_loc s l) as [b|]; [|inversion HC; subst; exact HI]. cbv zeta in HC.
    pose proof (einv_same _ _ (same_pin s (b_uid b)) HI) as H0.
    destruct (ocn_put c (pin s (b_uid b)) (l_size l)) as [r1 s1] eqn:EO.
    pose proof EO as EO'. apply ocn_put_spec in EO'. destruct EO' as (F1 & _).
    pose proof (einv_fr _ _ _ F1 H0) as H1.
    destruct r1 as [wr|e]; [|inversion HC; subst; eapply einv_same; [apply same_unpin|exact H1]].
    pose proof (ocn_put_wr _ _ _ _ _ EO) as WO.
    destruct (read_validated w s1 o (b_uid b) l) as [[valid bs] s2] eqn:ER.
    apply read_validated_spec in ER. destruct ER as [F2 _].
    pose proof (einv_fr _ _ _ F2 H1) as H2.
    pose proof (wr_ok_mono _ _ _ _ (proj1 F2) WO) as W2.
    set (s2' := if valid then write_block s2 (wr_uid wr) (wr_off wr) bs else s2) in HC.
    assert (S2' : same s2 s2') by (unfold s2'; destruct valid; [apply same_write_block|apply same_refl]).
    destruct (finalize c (unpin c s2' (b_uid b)) wr valid) as [r3 s3] eqn:EF.
    pose proof EF as EF'. apply finalize_spec in EF'. destruct EF' as (S3 & _).
    assert (S23 : same s2 s3) by (eapply same_trans; [exact S2'|eapply same_trans; [apply same_unpin|exact S3]]).
    pose proof (einv_same _ _ S23 H2) as H3.
    destruct r3 as [nl|e]; inversion HC; subst; [|exact H3].
    apply einv_put_all; [exact H3|]. rewrite (finalize_loc _ _ _ _ _ _ EF). exact (wr_ok_same _ _ _ S23 W2). }
  destruct (c_hier c).
  - destruct (sync_from_canonical s o k) as [[cl s1]|] eqn:SY.
    + inversion H; subst. eapply sync_e; eauto.
    + exact (COPY _ H).
  - exact (COPY _ H).
Qed.

Lemma fm_phase2_e w : forall todo s missing r s', einv s -> fm_phase2 w s todo missing = (r, s') -> einv s'.
Proof.
  induction todo as [|[pos0 [o0 i0]] t IH]; intros s missing r s' HI H; cbn [fm_phase2] in H.
  - inversion H; subst. exact HI.
  - destruct (fm_refresh_one w s o0 i0) as [r1 s1] eqn:E1. apply fm_refresh_one_e in E1; auto.
    destruct r1 as [[|]|e]; [eapply IH; eauto|eapply IH; eauto|inversion H; subst; exact E1].
Qed.
Lemma find_missing_e w s ds r s' : einv s -> find_missing w s ds = (r, s') -> einv s'.
Proof. intros HI H. unfold find_missing in H. eapply fm_phase2_e; eauto. Qed.

Lemma mk_fold_e c i (slices : list (nat * (N * N))) ploc : forall s,
  einv s -> l_abs ploc < k_end (proj s) ->
  einv (fold_left (fun acc '(cho, (off, len)) =>
                     index_put acc (flat_key c cho i)
                               {| l_abs := l_abs ploc; l_off := l_off ploc + off; l_size := len |})
                  slices s).
Proof.
  induction slices as [|[cho [off len]] t IH]; intros s HI HL; cbn [fold_left]; [exact HI|].
  apply IH; [apply einv_put; [exact HI|exact HL]|exact HL].
Qed.

Theorem step_einv w s e s1 out : einv s -> step w s e = (s1, out) -> einv s1.
Proof.
  intros HI H. unfold step in H.
  destruct (may_take_refresh_lock e && refresh_lock_held s); [inversion H; subst; exact HI|].
  destruct (is_corrupt e && reader_open s); [inversion H; subst; exact HI|].
  destruct e as [tid o i|tid data|tid err|tid o i|tid|ds|tid p i ch|tid slices|r off len].
  - (* OPutStart *)
    destruct (thr_get (s_threads s) tid); [inversion H; subst; exact HI|].
    unfold put_start in H.
    destruct (if c_hier (w_cfg w) then match index_get s (canonical_key o) with Some l => negb (needs_refresh s l) | None => false end else false).
    + inversion H; subst. apply einv_set; [exact HI|exact I].
    + destruct (ocn_put (w_cfg w) s (osize w o)) as [r0 s0] eqn:E.
      pose proof E as E'. apply ocn_put_spec in E'. destruct E' as (F & _).
      pose proof (einv_fr _ _ _ F HI) as H0.
      destruct r0 as [wr|e0]; inversion H; subst; [|exact H0].
      apply einv_set; [exact H0|]. exact (ocn_put_wr _ _ _ _ _ E).
  - (* OPutChunk *)
    destruct (thr_get (s_threads s) tid) as [[o i wr acc|o i acc|? ? ? ? ?|? ? ? ? ? ?|?]|] eqn:ET;
      try (inversion H; subst; exact HI).
    + destruct (wr_size wr <? N.of_nat (length acc + length data)).
      * destruct (finalize (w_cfg w) s wr false) as [r0 s0] eqn:E. apply finalize_spec in E. destruct E as (S0 & _).
        inversion H; subst. apply einv_rm. eapply einv_same; eauto.
      * inversion H; subst. pose proof (same_write_block s (wr_uid wr) (wr_off wr + N.of_nat (length acc)) data) as SW.
        apply einv_set; [eapply einv_same; eauto|].
        exact (wr_ok_same _ _ _ SW (proj2 HI _ _ ET)).
    + destruct (osize w o <? N.of_nat (length acc + length data)); inversion H; subst.
      * apply einv_rm; exact HI.
      * apply einv_set; [exact HI|exact I].
  - (* OPutEnd *)
    destruct (thr_get (s_threads s) tid) as [[o i wr acc|o i acc|? ? ? ? ?|? ? ? ? ? ?|?]|] eqn:ET;
      try (inversion H; subst; exact HI).
    + destruct (finalize (w_cfg w) s wr (Z.eqb err 0 && bytes_eqb acc (content w o))) as [r0 s0] eqn:E.
      pose proof E as E'. apply finalize_spec in E'. destruct E' as (S0 & _).
      pose proof (einv_same _ _ S0 HI) as H0.
      destruct r0 as [l|e0]; inversion H; subst; apply einv_rm; [|exact H0].
      apply einv_put_all; [exact H0|]. rewrite (finalize_loc _ _ _ _ _ _ E).
      exact (wr_ok_same _ _ _ S0 (proj2 HI _ _ ET)).
    + destruct (negb (Z.eqb err 0)); [inversion H; subst; apply einv_rm; exact HI|].
      destruct (negb (bytes_eqb acc (content w o))); [inversion H; subst; apply einv_rm; exact HI|].
      destruct (index_get s (canonical_key o)) eqn:IC; inversion H; subst; apply einv_rm; [|exact HI].
      apply index_get_in in IC. destruct IC as [IC _]. apply einv_put; [exact HI|exact (proj1 HI _ _ IC)].
  - (* OGetOpen *)
    destruct (thr_get (s_threads s) tid); [inversion H; subst; exact HI|].
    destruct (get_open w s o i) as [r0 s0] eqn:E. apply get_open_e in E; [|exact HI]. destruct E as [H0 HT].
    destruct r0; inversion H; subst; [apply einv_set; auto|exact H0].
  - (* OGetConsume *)
    destruct (thr_get (s_threads s) tid) as [[? ? ? ?|? ? ?|o uid l refresh fkeys|? ? ? ? ? ?|?]|] eqn:ET;
      try (inversion H; subst; exact HI).
    destruct (get_consume w s o uid l refresh fkeys) as [[code bytes] s0] eqn:E.
    apply get_consume_e in E; [|exact HI|].
    + inversion H; subst. apply einv_rm; exact E.
    + intros wr ->. exact (proj2 HI _ _ ET).
  - (* OFindMissing *)
    destruct (find_missing w s ds) as [r0 s0] eqn:E. apply find_missing_e in E; [|exact HI].
    destruct r0; inversion H; subst; exact E.
  - (* OGfcStart *)
    destruct (thr_get (s_threads s) tid); [inversion H; subst; exact HI|].
    destruct (c_hier (w_cfg w)).
    + destruct (get_open w s p i) as [r0 s0] eqn:E. apply get_open_e in E; [|exact HI]. destruct E as [H0 HT].
      destruct r0 as [[| |? ? ? ? ?| |]|]; inversion H; subst; try exact H0.
      * apply einv_set; [exact H0|]. apply (HT _ eq_refl).
      * apply einv_set; [exact H0|exact I].
    + destruct (index_get s (flat_key (w_cfg w) p i)) as [pl|]; [|inversion H; subst; exact HI].
      match type of H with (match ?D with _ => _ end) = _ => destruct D as [[cl uid]|] end.
      * destruct (get_consume w (pin s uid) ch uid cl None []) as [[code bytes] s2] eqn:E.
        apply get_consume_e in E; [| eapply einv_same; [apply same_pin|exact HI] |intros; discriminate].
        inversion H; subst. exact E.
      * destruct (block_of_loc s pl) as [b|]; [|inversion H; subst; exact HI].
        pose proof (einv_same _ _ (same_pin s (b_uid b)) HI) as H1.
        destruct (needs_refresh s pl).
        -- destruct (ocn_put (w_cfg w) (pin s (b_uid b)) (l_size pl)) as [r2 s2] eqn:E.
           pose proof E as E'. apply ocn_put_spec in E'. destruct E' as (F & _).
           pose proof (einv_fr _ _ _ F H1) as H2.
           destruct r2 as [wr|e0]; inversion H; subst.
           ++ pose proof (ocn_put_wr _ _ _ _ _ E) as WO.
              destruct (lockstep (w_cfg w)).
              ** apply einv_set; [exact H2|exact WO].
              ** assert (SS : same s2 (unpin (w_cfg w) (write_block s2 (wr_uid wr) (wr_off wr)
                                                      (read_block s2 (b_uid b) (l_off pl) (l_size pl))) (wr_uid wr)))
                   by (eapply same_trans; [apply same_write_block|apply same_unpin]).
                 apply einv_set; [eapply einv_same; eauto|]. exact (wr_ok_same _ _ _ SS WO).
           ++ eapply einv_same; [apply same_unpin|exact H2].
        -- inversion H; subst. apply einv_set; [exact H1|exact I].
  - (* OGfcSlice *)
    destruct (thr_get (s_threads s) tid) as [[? ? ? ?|? ? ?|o uid l refresh fkeys|p i uid pl refresh pk|e0]|] eqn:ET;
      try (inversion H; subst; exact HI).
    + destruct (get_consume w s o uid l refresh fkeys) as [[code bytes] s0] eqn:E.
      apply get_consume_e in E; [|exact HI|].
      * inversion H; subst. apply einv_rm; exact E.
      * intros wr ->. exact (proj2 HI _ _ ET).
    + destruct (read_validated w s p uid pl) as [[valid bytes] s0] eqn:E.
      apply read_validated_spec in E. destruct E as (F0 & _).
      pose proof (einv_fr _ _ _ F0 HI) as H0.
      pose proof (same_unpin (w_cfg w) s0 uid) as SU.
      pose proof (einv_same _ _ SU H0) as H1.
      destruct (negb valid).
      * inversion H; subst. apply einv_rm.
        destruct refresh as [wr|]; [|exact H1]. destruct (lockstep (w_cfg w)); [|exact H1].
        cbv beta iota zeta delta [finalize negb snd]. eapply einv_same; [apply same_unpin|exact H1].
      * destruct refresh as [wr|].
        -- assert (W1 : wr_ok (unpin (w_cfg w) s0 uid) wr).
           { apply (wr_ok_same _ _ _ SU). eapply wr_ok_mono; [exact (proj1 F0)|]. exact (proj2 HI _ _ ET). }
           destruct (lockstep (w_cfg w)).
           ++ destruct (finalize (w_cfg w) (write_block (unpin (w_cfg w) s0 uid) (wr_uid wr) (wr_off wr) bytes) wr true) as [r3 s3] eqn:EF.
              pose proof EF as EF'. apply finalize_spec in EF'. destruct EF' as (S3 & _).
              assert (S13 : same (unpin (w_cfg w) s0 uid) s3) by (eapply same_trans; [apply same_write_block|exact S3]).
              pose proof (einv_same _ _ S13 H1) as H3.
              destruct r3 as [nl|e1]; inversion H; subst; apply einv_rm; [|exact H3].
              assert (HL : l_abs nl < k_end (proj s3)).
              { rewrite (finalize_loc _ _ _ _ _ _ EF). exact (wr_ok_same _ _ _ S13 W1). }
              apply mk_fold_e; [apply einv_put; auto|].
              destruct (same_index_put s3 pk nl) as (P & _). rewrite P. exact HL.
           ++ destruct (fin_check (unpin (w_cfg w) s0 uid) wr) as [nl|e1] eqn:EF; inversion H; subst; apply einv_rm; [|exact H1].
              assert (HL : l_abs nl < k_end (proj (unpin (w_cfg w) s0 uid))).
              { rewrite (proj1 (fin_check_spec _ _ _ EF)). exact W1. }
              apply mk_fold_e; [apply einv_put; auto|].
              destruct (same_index_put (unpin (w_cfg w) s0 uid) pk nl) as (P & _). rewrite P. exact HL.
        -- destruct (index_get (unpin (w_cfg w) s0 uid) pk) as [pl'|] eqn:IG; inversion H; subst; apply einv_rm; [|exact H1].
           apply index_get_in in IG. destruct IG as [IG _].
           apply mk_fold_e; [exact H1|exact (proj1 H1 _ _ IG)].
    + inversion H; subst. apply einv_rm; exact HI.
  - (* OCorrupt *)
    destruct (dev_get (s_dev s) r); inversion H; subst; [exact HI|].
    eapply einv_same; [apply same_upd_dev|exact HI].
Qed.

Lemma run_einv w : forall es s, einv s -> einv (fst (run w s es)).
Proof.
  induction es as [|e t IH]; intros s HI; cbn [run]; [exact HI|].
  destruct (step w s e) as [s1 o] eqn:E. pose proof (step_einv _ _ _ _ _ HI E) as H1.
  specialize (IH s1 H1). destruct (run w s1 t) as [s2 os]. exact IH.
Qed.

Theorem reachable_einv w es : einv (fst (run w (init_state (w_cfg w)) es)).
Proof. apply run_einv, einv_init. Qed.
