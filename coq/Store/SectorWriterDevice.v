(** Store/SectorWriterDevice.v — [completed_writer_data_on_device]: once a writer has been
    given all bytes of its allocation and has flushed, the device holds its data in its
    byte range, in every later state (whatever other writers — active, abandoned, allocated
    later in the same sector — do).

    Invariant [dinv]: for every writer, every byte that is "on the device" ([ondev]: all
    bytes of a flushed writer; for an active/abandoned writer the bytes already written by
    private sector writes or by the write of its completed first sector) equals the data
    given to Write.  It is carried
    - through private sector writes: they lie inside the writer's own BYTE range
      (not only its sector span), which is disjoint from every other writer's range;
    - through writes of a shared-sector image: every such write happens in a sector that
      contains a boundary point x (start or end of the writing writer's range) strictly
      inside it; a byte of that sector that is [ondev] for some writer u is then [copied]
      ([ondev_copied]), so by [shared_sector_accumulates] the image holds u's data there. *)
From Coq Require Import List Arith ZArith Bool Lia.
From BBS Require Import Store.SectorWriter Store.SectorWriterProofs Store.SectorWriterSpec
  Store.SectorWriterCommute Store.SectorWriterInv Store.SectorWriterAccum.
Import ListNotations.

(** * Lists *)
Lemma nth_firstn_lt {T} (l : list T) k i d : i < k -> nth i (firstn k l) d = nth i l d.
Proof.
  revert k i; induction l as [|x l IH]; intros [|k] [|i] H; cbn; try lia; auto. apply IH. lia.
Qed.

Lemma nth_skipn_add {T} (l : list T) k i d : nth i (skipn k l) d = nth (k + i) l d.
Proof.
  revert l; induction k as [|k IH]; intros l; cbn; [reflexivity|].
  destruct l; [destruct i; reflexivity|apply IH].
Qed.

Lemma apply_img_priv dev o img lo priv :
  contig lo priv -> apply_writes dev ((o, img) :: priv) = write_at (write_at dev o img) lo (payload priv).
Proof. intros H. rewrite apply_writes_cons. cbn [fst snd]. apply contig_apply. exact H. Qed.

Lemma nth_write2_cases d o1 s1 o2 s2 i :
  i < length d -> o1 + length s1 <= o2 ->
  (o2 <= i < o2 + length s2 -> nth i (write_at (write_at d o1 s1) o2 s2) 0%Z = nth (i - o2) s2 0%Z) /\
  (o1 <= i < o1 + length s1 -> nth i (write_at (write_at d o1 s1) o2 s2) 0%Z = nth (i - o1) s1 0%Z) /\
  (i < o1 \/ o1 + length s1 <= i < o2 \/ o2 + length s2 <= i ->
   nth i (write_at (write_at d o1 s1) o2 s2) 0%Z = nth i d 0%Z).
Proof.
  intros Hi Hsep. split; [|split]; intros H.
  - apply nth_write_at_in; rewrite ?write_at_length; lia.
  - rewrite nth_write_at_out by lia. apply nth_write_at_in; lia.
  - rewrite nth_write_at_out by lia. apply nth_write_at_out. lia.
Qed.

Lemma nth_write1_cases d o s i :
  i < length d ->
  (o <= i < o + length s -> nth i (write_at d o s) 0%Z = nth (i - o) s 0%Z) /\
  (i < o \/ o + length s <= i -> nth i (write_at d o s) 0%Z = nth i d 0%Z).
Proof.
  intros Hi. split; intros H; [apply nth_write_at_in; lia|apply nth_write_at_out; lia].
Qed.

Section Dev.
Variable c : cfg.
Hypothesis HS : 1 <= c_sector c.
Local Notation SS := (c_sector c).
Local Notation A := (c_base c * c_sector c).

(** * Arithmetic of sectors *)
Lemma sec_of q p : q * SS <= p < (q + 1) * SS -> p / SS = q /\ p mod SS = p - q * SS.
Proof.
  intros H. pose proof (dm c HS q (p - q * SS) ltac:(lia)) as [D M].
  replace (q * SS + (p - q * SS)) with p in D, M by lia. split; assumption.
Qed.

Lemma sec_split p : p / SS * SS <= p < (p / SS + 1) * SS.
Proof. destruct (dm_eq c HS p). lia. Qed.

Lemma mul_lt_cancel a b : a * SS < b * SS -> a < b.
Proof. intros H. apply (Nat.mul_lt_mono_pos_r SS); [lia|exact H]. Qed.

(** * What is on the device *)
Definition ondev (t : thread) (pos : nat) : Prop :=
  t_status t = Flushed \/
  (w_first (t_w t) = None /\ pos - t_start t + length (w_partial (t_w t)) < length (t_data t)).

Definition dinv (s : state) : Prop :=
  forall j t pos, nth_error (st_threads s) j = Some t -> t_start t <= pos < t_end t -> ondev t pos ->
    nth (A + pos) (st_dev s) 0%Z = nth (pos - t_start t) (t_data t) 0%Z.

Definition devlen (s : state) : Prop := (c_base c + c_spb c) * SS <= length (st_dev s).

Lemma wph_none images t : tinv c images t -> w_first (t_w t) = None ->
  exists pre, t_data t = pre ++ w_partial (t_w t) /\
    w_off (t_w t) * SS = A + t_start t + length pre /\
    length (w_partial (t_w t)) < SS.
Proof.
  intros (T1 & T2 & T3 & T4) Hf. unfold wphase in T4. cbv zeta in T4. rewrite Hf in T4.
  destruct T4 as (_ & Hr & (pre & Hpre) & Hoff). exists pre. split; [exact Hpre|]. split; [|exact Hr].
  unfold t_x in Hoff. destruct (t_start_eq c HS t) as [Est _].
  assert (length (t_data t) = length pre + length (w_partial (t_w t)))
    by (rewrite Hpre, app_length; reflexivity).
  lia.
Qed.

Lemma wph_some images t id : tinv c images t -> w_first (t_w t) = Some id ->
  t_first0 t = Some id /\ 0 < t_a c t /\ id < length images /\ isec images id = t_fs c t /\
  t_a c t + length (t_data t) < SS /\ w_firstoff (t_w t) = t_a c t + length (t_data t) /\
  w_off (t_w t) = c_base c + t_fs c t /\ w_partial (t_w t) = [].
Proof.
  intros (T1 & T2 & T3 & T4) Hf. unfold wphase in T4. cbv zeta in T4. rewrite Hf in T4.
  destruct T4 as (F0 & Hx & Hfo & Hoff & Hp). rewrite F0 in T2. destruct T2 as (A0 & Hid & Hsec).
  unfold t_x in *. repeat split; assumption.
Qed.

(** a byte that is on the device and lies in a sector containing, strictly inside, a point
    that the writer's range does not straddle, has been copied into that sector's image *)
Lemma ondev_copied images u x pos :
  tinv c images u -> (t_status u = Flushed -> length (t_data u) = t_size u) ->
  x mod SS <> 0 -> (t_end u <= x \/ x <= t_start u) ->
  t_start u <= pos < t_end u -> pos / SS = x / SS -> ondev u pos -> copied c u pos.
Proof.
  intros Htu Hfl Hx Hside Hr Hsec Hon. pose proof Htu as (T1 & T2 & T3 & T4).
  destruct (sec_split x) as [X1 X2]. destruct (dm_eq c HS x) as [Xe Xu].
  destruct (sec_split pos) as [P1 P2]. rewrite Hsec in P1, P2.
  remember (x / SS) as sec eqn:Esec.
  assert (Hxs : sec * SS < x) by lia.
  assert (Hlen : pos - t_start u < length (t_data u)).
  { destruct Hon as [Hf|[_ Hlt]]; [rewrite (Hfl Hf); unfold t_end in Hr; lia|lia]. }
  assert (Hfirst : x <= t_start u -> t_first0 u <> None /\ pos / SS = t_fs c u).
  { intros Hle. destruct (sec_of sec (t_start u) ltac:(lia)) as [D M].
    split; [|unfold t_fs; rewrite D; exact Hsec].
    intros E. rewrite E in T2. unfold t_a in T2. lia. }
  destruct Hside as [Hle|Hge].
  2:{ left. destruct (Hfirst Hge). repeat split; assumption. }
  assert (Hdec : (t_first0 u <> None /\ pos / SS = t_fs c u) \/ ~ (t_first0 u <> None /\ pos / SS = t_fs c u)).
  { destruct (t_first0 u); [|right; intros [H _]; congruence].
    destruct (Nat.eq_dec (pos / SS) (t_fs c u)); [left; split; [discriminate|assumption]|right; tauto]. }
  destruct Hdec as [Hy|Hn]; [left; destruct Hy; repeat split; assumption|].
  right. split; [exact Hn|].
  assert (He : t_end u / SS = sec) by (apply (sec_of sec (t_end u)); lia).
  split; [congruence|].
  destruct Hon as [Hf|[Hwf Hlt]]; [exact Hf|]. exfalso.
  destruct (wph_none _ _ Htu Hwf) as (pre & Hpre & Hoff & Hr').
  assert (Hn' : length (t_data u) = length pre + length (w_partial (t_w u)))
    by (rewrite Hpre, app_length; reflexivity).
  assert (Hlt1 : (c_base c + sec) * SS < w_off (t_w u) * SS) by lia.
  apply mul_lt_cancel in Hlt1.
  assert ((c_base c + sec + 1) * SS <= w_off (t_w u) * SS) by (apply Nat.mul_le_mono_r; lia).
  unfold t_end in *. lia.
Qed.

Lemma image_has_ondev lo s id x :
  ainv2 c lo s -> flinv s ->
  id < length (st_images s) -> isec (st_images s) id = x / SS -> x mod SS <> 0 ->
  forall j u pos, nth_error (st_threads s) j = Some u -> (t_end u <= x \/ x <= t_start u) ->
    t_start u <= pos < t_end u -> pos / SS = x / SS -> ondev u pos ->
    nth (pos mod SS) (img_data (st_images s) id) 0%Z = nth (pos - t_start u) (t_data u) 0%Z.
Proof.
  intros [(Ha & Hc & Ht) Hacc] Hfl Hid Hsec Hx j u pos Hj Hside Hr Hps Hon.
  apply (Hacc id j u pos Hid Hj Hr); [congruence|].
  eapply ondev_copied; eauto.
  - exact (Forall_nth_error _ _ _ _ Ht Hj).
  - exact (Forall_nth_error _ _ _ _ Hfl Hj).
Qed.

Lemma range_bound lo s j t :
  ainv c lo s -> nth_error (st_threads s) j = Some t -> t_end t <= c_spb c * SS.
Proof.
  intros (_ & Hch & He & Hin) Hj. pose proof (chained_bounds _ _ _ _ Hch Hj) as [_ Hb].
  assert (Hne : st_threads s <> []) by (intros E; rewrite E in Hj; destruct j; discriminate).
  specialize (Hin Hne). unfold t_end. lia.
Qed.

Lemma order_cases lo s j k u t :
  ainv c lo s -> nth_error (st_threads s) j = Some u -> nth_error (st_threads s) k = Some t -> j <> k ->
  t_end u <= t_start t \/ t_end t <= t_start u.
Proof.
  intros (_ & Hch & _) Hj Hk Hne. unfold t_end. destruct (lt_dec j k) as [l|l].
  - pose proof (chained_order _ _ _ _ _ _ Hch l Hj Hk). lia.
  - assert (k < j) as l' by lia. pose proof (chained_order _ _ _ _ _ _ Hch l' Hk Hj). lia.
Qed.

(** * Steps preserve [dinv] *)

Lemma dinv_alloc s size s' log :
  dinv s -> step c s (EAlloc size) = Some (s', log) -> dinv s'.
Proof.
  intros Hd Hstep. cbn [step] in Hstep. destruct (has_space c (st_cur s) size); [|discriminate].
  destruct (alloc c (st_cur s) (st_images s) size) as [[[b' im'] w] start] eqn:Hal.
  pose proof (alloc_cases c HS _ _ _ _ _ _ _ Hal) as (_ & Hw & _). cbv zeta in Hw.
  inversion Hstep; subst s' log; clear Hstep. intros j t pos Hj Hr Hon. cbn [st_dev st_threads] in *.
  destruct (lt_dec j (length (st_threads s))) as [Hjl|Hjl].
  - rewrite nth_error_app1 in Hj by exact Hjl. exact (Hd j t pos Hj Hr Hon).
  - assert (Hjl' : j < length (st_threads s ++ [
        {| t_w := w; t_start := start; t_size := size; t_data := []; t_first0 := w_first w; t_status := Active |}]))
      by (apply nth_error_Some; congruence).
    rewrite app_length in Hjl'. cbn in Hjl'. assert (j = length (st_threads s)) by lia. subst j.
    rewrite nth_error_app2, Nat.sub_diag in Hj by lia. cbn in Hj. inversion Hj; subst t; clear Hj.
    destruct Hon as [H|[_ H]]; cbn in H; [discriminate|lia].
Qed.

Lemma dinv_abandon s k s' log :
  dinv s -> step c s (EAbandon k) = Some (s', log) -> dinv s'.
Proof.
  intros Hd Hstep. cbn [step] in Hstep.
  destruct (nth_error (st_threads s) k) as [t|] eqn:Hk; [|discriminate].
  destruct (t_status t) eqn:Hst; try discriminate.
  inversion Hstep; subst s' log; clear Hstep. intros j u pos Hj Hr Hon.
  assert (Hklt : k < length (st_threads s)) by (apply nth_error_Some; congruence).
  cbn [set_thread st_dev st_threads] in *. change (apply_writes (st_dev s) []) with (st_dev s).
  destruct (Nat.eq_dec j k) as [->|Hne].
  - rewrite nth_error_upd_eq in Hj by exact Hklt. inversion Hj; subst u; clear Hj.
    cbn [t_start t_data t_size] in *. apply (Hd k t pos Hk Hr).
    destruct Hon as [H|H]; [cbn in H; discriminate|right; exact H].
  - rewrite nth_error_upd_ne in Hj by congruence. exact (Hd j u pos Hj Hr Hon).
Qed.

Lemma dinv_write lo s k t chunk s' log :
  ainv2 c lo s -> flinv s -> dinv s -> devlen s ->
  nth_error (st_threads s) k = Some t ->
  step c s (EWrite k chunk) = Some (s', log) -> dinv s'.
Proof.
  intros Hinv2 Hfl Hd Hlen Hk Hstep.
  pose proof (ainv2_step c HS _ _ _ _ _ Hinv2 Hstep) as Hinv2'.
  pose proof (flinv_step _ _ _ _ _ Hfl Hstep) as Hfl'.
  pose proof (fun id x => image_has_ondev lo s' id x Hinv2' Hfl') as Himg.
  assert (Hrb' : forall j u, nth_error (st_threads s') j = Some u -> t_end u <= c_spb c * SS).
  { intros j u Hj. destruct Hinv2' as [(Ha' & _) _]. eapply range_bound; eauto. }
  clear Hinv2' Hfl'.
  destruct Hinv2 as [Hinv Hacc]. pose proof Hinv as (Ha & Hc & Ht).
  pose proof (Forall_nth_error _ _ _ _ Ht Hk) as Htk. pose proof Htk as (T1 & _).
  pose proof Hc as (C1 & _).
  assert (Hklt : k < length (st_threads s)) by (apply nth_error_Some; congruence).
  destruct (t_start_eq c HS t) as [Est Ua].
  unfold devlen in Hlen.
  cbn [step] in Hstep. rewrite Hk in Hstep. destruct (t_status t) eqn:Hst; try discriminate.
  destruct (Nat.leb_spec (length (t_data t) + length chunk) (t_size t)) as [Hn|Hn]; [|discriminate].
  destruct (w_first (t_w t)) as [id|] eqn:Hf.
  - destruct (wph_some _ _ _ Htk Hf) as (F0 & A0 & Hid & Hsec & Hx & Hfo & Hoff & Hp).
    specialize (C1 id Hid).
    destruct (lt_dec (t_a c t + length (t_data t) + length chunk) SS) as [Hshort|Hlong].
    + (* the first sector stays incomplete: no device write *)
      rewrite (write_first_short c (st_images s) (t_w t) chunk id Hf C1) in Hstep by lia.
      cbv beta iota zeta in Hstep. inversion Hstep; subst s' log; clear Hstep.
      intros j u pos Hj Hr Hon. cbn [set_thread st_dev st_threads] in Hj |- *.
      change (apply_writes (st_dev s) []) with (st_dev s).
      destruct (Nat.eq_dec j k) as [->|Hne].
      * rewrite nth_error_upd_eq in Hj by exact Hklt. inversion Hj; subst u; clear Hj.
        destruct Hon as [Hx'|[Hx' _]]; cbn in Hx'; discriminate.
      * rewrite nth_error_upd_ne in Hj by congruence. exact (Hd j u pos Hj Hr Hon).
    + (* the first sector is completed: image write, then private sectors *)
      pose proof (write_first_long c (st_images s) (t_w t) chunk id Hf C1 ltac:(lia) ltac:(lia)) as Hw.
      cbv zeta in Hw. rewrite Hw in Hstep. clear Hw.
      match type of Hstep with context [write_rest c ?w1 ?p1] =>
        pose proof (write_rest_spec0 c w1 p1 HS Hp) as H; cbv zeta in H;
        set (res := write_rest c w1 p1) in * end.
      cbn [w_off w_first w_firstoff w_last] in H. rewrite skipn_length in H.
      destruct H as (_ & H2 & H3 & _ & _ & H6 & H7).
      cbv beta iota zeta in Hstep. inversion Hstep; subst s' log; clear Hstep.
      cbn [set_thread st_dev st_threads st_images] in Himg, Hrb' |- *.
      remember (length chunk - (SS - w_firstoff (t_w t))) as m1 eqn:Em1.
      destruct (dm_eq c HS m1) as [Eq Uq]. remember (m1 / SS) as q eqn:Eqq.
      assert (Hpl : length (payload (snd res)) = q * SS).
      { rewrite H7, firstn_length, skipn_length. lia. }
      set (img' := write_at (img_data (st_images s) id) (w_firstoff (t_w t)) chunk) in *.
      assert (Hil : length img' = SS) by (unfold img'; rewrite write_at_length; exact C1).
      assert (Himg' : img_data (set_img (st_images s) id img') id = img')
        by (apply img_data_set_img_eq; exact Hid).
      specialize (Himg id (t_start t)). rewrite set_img_length, isec_set_img, Himg' in Himg.
      assert (Hfs : t_start t / SS = t_fs c t) by reflexivity.
      assert (Hta : t_start t mod SS = t_a c t) by reflexivity.
      specialize (Himg Hid ltac:(congruence) ltac:(lia)).
      unfold dinv. cbn [set_thread st_dev st_threads]. rewrite (apply_img_priv _ _ _ _ _ H6).
      intros j u pos Hj Hr Hon.
      assert (Hpb : pos < c_spb c * SS) by (specialize (Hrb' j u Hj); lia).
      destruct (nth_write2_cases (st_dev s) (w_off (t_w t) * SS) img' ((w_off (t_w t) + 1) * SS)
                  (payload (snd res)) (A + pos) ltac:(lia) ltac:(lia)) as (R2 & R1 & R0).
      rewrite ?Hpl, ?Hil, ?Hoff in R2, R1, R0.
      (* a position inside the shared first sector: the image is read back *)
      assert (Hshared : t_fs c t * SS <= pos < (t_fs c t + 1) * SS ->
                (t_end u <= t_start t \/ t_start t <= t_start u) ->
                nth (A + pos) (write_at (write_at (st_dev s) (w_off (t_w t) * SS) img')
                                 ((w_off (t_w t) + 1) * SS) (payload (snd res))) 0%Z
                = nth (pos - t_start u) (t_data u) 0%Z).
      { intros Hin Hside. destruct (sec_of _ _ Hin) as [D M]. rewrite Hoff.
        rewrite R1 by lia. rewrite <- (Himg j u pos Hj Hside Hr ltac:(congruence) Hon).
        f_equal. lia. }
      destruct (Nat.eq_dec j k) as [->|Hne].
      * rewrite nth_error_upd_eq in Hj by exact Hklt. inversion Hj; subst u; clear Hj. unfold ondev in Hon.
        cbn [t_start t_data t_size t_w t_status] in *. unfold t_end in Hr. cbn [t_start t_size] in Hr.
        destruct (lt_dec pos ((t_fs c t + 1) * SS)) as [Hlo|Hhi].
        -- apply Hshared; [lia|right; lia].
        -- destruct Hon as [Hx'|[_ Hlt]]; [discriminate|].
           rewrite H2, skipn_length, skipn_length, app_length in Hlt.
           rewrite Hoff. rewrite R2 by lia.
           rewrite H7, nth_firstn_lt by lia. rewrite nth_skipn_add.
           rewrite app_nth2 by lia. f_equal. lia.
      * rewrite nth_error_upd_ne in Hj by congruence.
        destruct (order_cases _ _ _ _ _ _ Ha Hj Hk Hne) as [Hbefore|Hafter].
        -- destruct (lt_dec pos (t_fs c t * SS)) as [Hlo|Hhi].
           ++ rewrite Hoff. rewrite R0 by lia. exact (Hd j u pos Hj Hr Hon).
           ++ apply Hshared; [unfold t_end in *; lia|left; exact Hbefore].
        -- destruct (lt_dec pos ((t_fs c t + 1) * SS)) as [Hlo|Hhi].
           ++ apply Hshared; [unfold t_end in *; lia|right; unfold t_end in *; lia].
           ++ rewrite Hoff. rewrite R0 by (unfold t_end in *; lia). exact (Hd j u pos Hj Hr Hon).
  - (* no shared first sector (any more): private sector writes only *)
    destruct (wph_none _ _ Htk Hf) as (pre & Hpre & Hoff & Hr').
    rewrite (write_none c (st_images s) (t_w t) chunk Hf) in Hstep.
    pose proof (write_rest_spec c (t_w t) chunk HS Hr') as H. cbv zeta in H.
    set (res := write_rest c (t_w t) chunk) in *. rewrite app_length in H.
    destruct H as (_ & H2 & H3 & _ & _ & H6 & H7).
    cbv beta iota zeta in Hstep. inversion Hstep; subst s' log; clear Hstep.
    cbn [set_thread st_dev st_threads st_images] in Hrb' |- *. clear Himg.
    remember (length (w_partial (t_w t)) + length chunk) as m1 eqn:Em1.
    destruct (dm_eq c HS m1) as [Eq Uq]. remember (m1 / SS) as q eqn:Eqq.
    assert (Hn' : length (t_data t) = length pre + length (w_partial (t_w t)))
      by (rewrite Hpre, app_length; reflexivity).
    assert (Hpl : length (payload (snd res)) = q * SS).
    { rewrite H7, firstn_length, app_length. lia. }
    unfold dinv. cbn [set_thread st_dev st_threads]. rewrite (contig_apply _ _ _ H6).
    intros j u pos Hj Hr Hon.
    assert (Hpb : pos < c_spb c * SS) by (specialize (Hrb' j u Hj); lia).
    destruct (nth_write1_cases (st_dev s) (w_off (t_w t) * SS) (payload (snd res)) (A + pos) ltac:(lia))
      as (R1 & R0).
    rewrite ?Hpl, ?Hoff in R1, R0. rewrite Hoff.
    destruct (Nat.eq_dec j k) as [->|Hne].
    + rewrite nth_error_upd_eq in Hj by exact Hklt. inversion Hj; subst u; clear Hj. unfold ondev in Hon.
      cbn [t_start t_data t_size t_w t_status] in *. unfold t_end in Hr. cbn [t_start t_size] in Hr.
      destruct Hon as [Hx'|[_ Hlt]]; [discriminate|].
      rewrite H2, skipn_length, app_length, app_length in Hlt.
      destruct (lt_dec (pos - t_start t) (length pre)) as [Hlo|Hhi].
      * rewrite R0 by lia. rewrite app_nth1 by lia.
        apply (Hd k t pos Hk); [unfold t_end; lia|]. right. split; [exact Hf|lia].
      * rewrite R1 by lia. rewrite H7, nth_firstn_lt by lia.
        rewrite Hpre, <- app_assoc. rewrite (app_nth2 pre) by lia. f_equal. lia.
    + rewrite nth_error_upd_ne in Hj by congruence.
      rewrite R0; [exact (Hd j u pos Hj Hr Hon)|].
      destruct (order_cases _ _ _ _ _ _ Ha Hj Hk Hne); unfold t_end in *; lia.
Qed.

Lemma dinv_flush lo s k t s' log :
  ainv2 c lo s -> flinv s -> dinv s -> devlen s ->
  nth_error (st_threads s) k = Some t ->
  step c s (EFlush k) = Some (s', log) -> dinv s'.
Proof.
  intros Hinv2 Hfl Hd Hlen Hk Hstep.
  pose proof (ainv2_step c HS _ _ _ _ _ Hinv2 Hstep) as Hinv2'.
  pose proof (flinv_step _ _ _ _ _ Hfl Hstep) as Hfl'.
  pose proof (fun id x => image_has_ondev lo s' id x Hinv2' Hfl') as Himg.
  assert (Hrb' : forall j u, nth_error (st_threads s') j = Some u -> t_end u <= c_spb c * SS).
  { intros j u Hj. destruct Hinv2' as [(Ha' & _) _]. eapply range_bound; eauto. }
  clear Hinv2' Hfl'.
  destruct Hinv2 as [Hinv Hacc]. pose proof Hinv as (Ha & Hc & Ht).
  pose proof (Forall_nth_error _ _ _ _ Ht Hk) as Htk. pose proof Htk as (T1 & T2 & T3 & _).
  pose proof Hc as (C1 & _).
  assert (Hklt : k < length (st_threads s)) by (apply nth_error_Some; congruence).
  destruct (t_start_eq c HS t) as [Est Ua]. destruct (dm_eq c HS (t_end t)) as [Ee Ue].
  unfold devlen in Hlen.
  cbn [step] in Hstep. rewrite Hk in Hstep. destruct (t_status t) eqn:Hst; try discriminate.
  destruct (Nat.eqb_spec (length (t_data t)) (t_size t)) as [Hn|Hn]; [|discriminate].
  (* where the writer stands: all bytes but those of the partial last sector are on the device *)
  assert (Hpos : w_off (t_w t) = c_base c + t_end t / SS /\
                 (forall pos, t_start t <= pos < t_end t / SS * SS -> ondev t pos) /\
                 (t_end t mod SS = 0 -> forall pos, t_start t <= pos < t_end t -> ondev t pos)).
  { destruct (w_first (t_w t)) as [id|] eqn:Hf.
    - destruct (wph_some _ _ _ Htk Hf) as (F0 & A0 & Hid & Hsec & Hx & Hfo & Hoff & Hp).
      assert (Hin : t_fs c t * SS <= t_end t < (t_fs c t + 1) * SS) by (unfold t_end; lia).
      destruct (sec_of _ _ Hin) as [D M]. split; [congruence|]. split.
      + intros pos Hr. rewrite D in Hr. lia.
      + intros E. unfold t_end in *. lia.
    - destruct (wph_none _ _ Htk Hf) as (pre & Hpre & Hoff & Hr').
      assert (Hn' : length (t_data t) = length pre + length (w_partial (t_w t)))
        by (rewrite Hpre, app_length; reflexivity).
      assert (Hwe : w_off (t_w t) * SS + length (w_partial (t_w t)) = A + t_end t) by (unfold t_end; lia).
      assert (Hge : c_base c <= w_off (t_w t)).
      { destruct (le_lt_dec (c_base c) (w_off (t_w t))) as [|Hlt]; [assumption|exfalso].
        assert ((w_off (t_w t) + 1) * SS <= A) by (apply Nat.mul_le_mono_r; lia). unfold t_end in *. lia. }
      assert (Hin : (w_off (t_w t) - c_base c) * SS <= t_end t < (w_off (t_w t) - c_base c + 1) * SS).
      { rewrite Nat.mul_add_distr_r, Nat.mul_sub_distr_r. lia. }
      destruct (sec_of _ _ Hin) as [D M]. split; [lia|]. split.
      + intros pos Hr. right. split; [exact Hf|]. rewrite D, Nat.mul_sub_distr_r in Hr. lia.
      + intros E pos Hr. right. split; [exact Hf|]. rewrite E, Nat.mul_sub_distr_r in M. unfold t_end in *. lia. }
  destruct Hpos as (Hwo & Hbelow & Haligned).
  destruct (w_last (t_w t)) as [idl|] eqn:Hl.
  - (* the last sector is shared: its image is written *)
    destruct T3 as (E0 & Hidl & Hsecl). specialize (C1 idl Hidl).
    rewrite (flush_some c (st_images s) (t_w t) idl Hl) in Hstep.
    cbv beta iota zeta in Hstep. inversion Hstep; subst s' log; clear Hstep.
    cbn [set_thread st_dev st_threads st_images] in Himg, Hrb' |- *.
    set (img' := write_at (img_data (st_images s) idl) 0 (w_partial (t_w t))) in *.
    assert (Hil : length img' = SS) by (unfold img'; rewrite write_at_length; exact C1).
    assert (Himg' : img_data (set_img (st_images s) idl img') idl = img')
      by (apply img_data_set_img_eq; exact Hidl).
    specialize (Himg idl (t_end t)). rewrite set_img_length, isec_set_img, Himg' in Himg.
    specialize (Himg Hidl Hsecl E0).
    unfold dinv. cbn [set_thread st_dev st_threads]. rewrite apply_writes_cons. cbn [fst snd apply_writes fold_left]. rewrite Hil.
    intros j u pos Hj Hr Hon.
    assert (Hpb : pos < c_spb c * SS) by (specialize (Hrb' j u Hj); lia).
    destruct (nth_write1_cases (st_dev s) (w_off (t_w t) * SS) img' (A + pos) ltac:(lia)) as (R1 & R0).
    rewrite Hil, Hwo in R1, R0. rewrite Hwo.
    assert (Hshared : t_end t / SS * SS <= pos < (t_end t / SS + 1) * SS ->
              (t_end u <= t_end t \/ t_end t <= t_start u) ->
              nth (A + pos) (write_at (st_dev s) ((c_base c + t_end t / SS) * SS) img') 0%Z
              = nth (pos - t_start u) (t_data u) 0%Z).
    { intros Hin Hside. destruct (sec_of _ _ Hin) as [D M].
      rewrite R1 by lia. rewrite <- (Himg j u pos Hj Hside Hr D Hon).
      f_equal. lia. }
    destruct (Nat.eq_dec j k) as [->|Hne].
    + rewrite nth_error_upd_eq in Hj by exact Hklt. inversion Hj; subst u; clear Hj.
      cbn [t_start t_data t_size t_w t_status] in *.
      change (t_end {| t_w := t_w t; t_start := t_start t; t_size := t_size t; t_data := t_data t;
                       t_first0 := t_first0 t; t_status := Flushed |}) with (t_end t) in *.
      destruct (lt_dec pos (t_end t / SS * SS)) as [Hlo|Hhi].
      * rewrite R0 by lia. apply (Hd k t pos Hk Hr). apply Hbelow. lia.
      * apply Hshared; [lia|left; lia].
    + rewrite nth_error_upd_ne in Hj by congruence.
      destruct (order_cases _ _ _ _ _ _ Ha Hj Hk Hne) as [Hbefore|Hafter].
      * destruct (lt_dec pos (t_end t / SS * SS)) as [Hlo|Hhi].
        -- rewrite R0 by lia. exact (Hd j u pos Hj Hr Hon).
        -- apply Hshared; [unfold t_end in *; lia|left; unfold t_end in *; lia].
      * destruct (lt_dec pos ((t_end t / SS + 1) * SS)) as [Hlo|Hhi].
        -- apply Hshared; [unfold t_end in *; lia|right; exact Hafter].
        -- rewrite R0 by lia. exact (Hd j u pos Hj Hr Hon).
  - (* the allocation ends on a sector boundary: nothing to write *)
    rewrite (flush_none c (st_images s) (t_w t) Hl) in Hstep.
    cbv beta iota zeta in Hstep. inversion Hstep; subst s' log; clear Hstep.
    intros j u pos Hj Hr Hon. cbn [set_thread st_dev st_threads] in Hj |- *.
    change (apply_writes (st_dev s) []) with (st_dev s).
    destruct (Nat.eq_dec j k) as [->|Hne].
    + rewrite nth_error_upd_eq in Hj by exact Hklt. inversion Hj; subst u; clear Hj.
      cbn [t_start t_data t_size] in *.
      change (t_end {| t_w := t_w t; t_start := t_start t; t_size := t_size t; t_data := t_data t;
                       t_first0 := t_first0 t; t_status := Flushed |}) with (t_end t) in *.
      apply (Hd k t pos Hk Hr). apply Haligned; assumption.
    + rewrite nth_error_upd_ne in Hj by congruence. exact (Hd j u pos Hj Hr Hon).
Qed.

(** * The combined invariant along runs *)
Definition inv3 (lo : nat) (s : state) : Prop := ainv2 c lo s /\ flinv s /\ dinv s /\ devlen s.

Lemma step_dev_length s e s' log : step c s e = Some (s', log) -> length (st_dev s') = length (st_dev s).
Proof.
  intros Hstep. destruct (is_alloc e) eqn:Hal.
  - destruct e as [size| | |]; try discriminate. cbn [step] in Hstep.
    destruct (has_space c (st_cur s) size); [|discriminate].
    destruct (alloc c (st_cur s) (st_images s) size) as [[[? ?] ?] ?].
    inversion Hstep; subst; reflexivity.
  - destruct (step_writer_shape _ _ _ _ _ Hstep Hal) as (k & t & t' & im' & _ & _ & -> & _).
    cbn [set_thread st_dev]. apply apply_writes_length.
Qed.

Lemma inv3_step lo s e s' log : inv3 lo s -> step c s e = Some (s', log) -> inv3 lo s'.
Proof.
  intros (H2 & Hfl & Hd & Hlen) Hstep.
  split; [eapply ainv2_step; eauto|]. split; [eapply flinv_step; eauto|]. split.
  - destruct e as [size|k ch|k|k]; [eapply dinv_alloc; eauto| | |eapply dinv_abandon; eauto];
      (destruct (nth_error (st_threads s) k) as [t|] eqn:Hk;
       [|cbn in Hstep; rewrite Hk in Hstep; discriminate]).
    + eapply dinv_write; eauto.
    + eapply dinv_flush; eauto.
  - unfold devlen in *. rewrite (step_dev_length _ _ _ _ Hstep). exact Hlen.
Qed.

Lemma inv3_run lo tr : forall s s', inv3 lo s -> run c s tr = Some s' -> inv3 lo s'.
Proof.
  induction tr as [|e tr IH]; intros s s' Hi Hr; cbn in Hr.
  - inversion Hr; subst; auto.
  - destruct (step c s e) as [[s1 l]|] eqn:Hs; [|discriminate].
    apply (IH s1 s'); [exact (inv3_step _ _ _ _ _ Hi Hs)|exact Hr].
Qed.

Lemma inv3_init dev b : b_shared b = None -> (c_base c + c_spb c) * SS <= length dev ->
  inv3 (cpos c b) (init_state dev b).
Proof.
  intros Hb Hlen. split; [split; [apply sinv_init; assumption|]|split; [constructor|split; [|exact Hlen]]].
  - intros ? j ? ? _ Hj. destruct j; discriminate.
  - intros j ? ? Hj. destruct j; discriminate.
Qed.

(** a flushed writer never changes again *)
Lemma flushed_stable_step s e s' log k t :
  step c s e = Some (s', log) -> nth_error (st_threads s) k = Some t -> t_status t = Flushed ->
  nth_error (st_threads s') k = Some t.
Proof.
  intros Hstep Hk Hfl. destruct (is_alloc e) eqn:Hal.
  - destruct e as [size| | |]; try discriminate. cbn [step] in Hstep.
    destruct (has_space c (st_cur s) size); [|discriminate].
    destruct (alloc c (st_cur s) (st_images s) size) as [[[? ?] ?] ?].
    inversion Hstep; subst; clear Hstep. cbn [st_threads].
    rewrite nth_error_app1; [exact Hk|apply nth_error_Some; congruence].
  - destruct (step_writer_shape _ _ _ _ _ Hstep Hal) as (k' & u & u' & im' & Hk' & Hact & -> & _).
    cbn [set_thread st_threads]. rewrite nth_error_upd_ne; [exact Hk|].
    intros ->. rewrite Hk in Hk'. inversion Hk'; subst u. congruence.
Qed.

Lemma flushed_stable_run tr : forall s s' k t,
  run c s tr = Some s' -> nth_error (st_threads s) k = Some t -> t_status t = Flushed ->
  nth_error (st_threads s') k = Some t.
Proof.
  induction tr as [|e tr IH]; intros s s' k t Hr Hk Hfl; cbn in Hr.
  - inversion Hr; subst; exact Hk.
  - destruct (step c s e) as [[s1 l]|] eqn:Hs; [|discriminate].
    eapply IH; eauto. eapply flushed_stable_step; eauto.
Qed.
End Dev.

Lemma run_app c tr1 : forall tr2 s, run c s (tr1 ++ tr2) =
  match run c s tr1 with Some s1 => run c s1 tr2 | None => None end.
Proof.
  induction tr1 as [|e tr1 IH]; intros tr2 s; cbn; [reflexivity|].
  destruct (step c s e) as [[s1 l]|]; [apply IH|reflexivity].
Qed.

Theorem completed_writer_data_on_device_proof : forall c dev b0 tr s k t,
  1 <= c_sector c -> b_shared b0 = None ->
  (c_base c + c_spb c) * c_sector c <= length dev ->
  run c (init_state dev b0) tr = Some s ->
  nth_error (st_threads s) k = Some t -> t_status t = Flushed ->
  forall i, i < t_size t ->
    nth (c_base c * c_sector c + t_start t + i) (st_dev s) 0%Z = nth i (t_data t) 0%Z.
Proof.
  intros c dev b0 tr s k t HS Hb Hlen Hr Hk Hfl i Hi.
  pose proof (inv3_run c HS _ tr _ _ (inv3_init c HS dev b0 Hb Hlen) Hr) as (_ & _ & Hd & _).
  specialize (Hd k t (t_start t + i) Hk ltac:(unfold t_end; lia) (or_introl Hfl)).
  rewrite Nat.add_assoc in Hd. rewrite Hd. f_equal. lia.
Qed.

(** the same, with the continuation made explicit: after a state in which writer k is flushed,
    ANY further event list (allocations, writes, flushes, abandonments of other writers) leaves
    writer k's record and the device bytes of its range as they are *)
Theorem completed_writer_data_stays_on_device_proof : forall c dev b0 tr s k t tr2 s2,
  1 <= c_sector c -> b_shared b0 = None ->
  (c_base c + c_spb c) * c_sector c <= length dev ->
  run c (init_state dev b0) tr = Some s ->
  nth_error (st_threads s) k = Some t -> t_status t = Flushed ->
  run c s tr2 = Some s2 ->
  nth_error (st_threads s2) k = Some t /\
  forall i, i < t_size t ->
    nth (c_base c * c_sector c + t_start t + i) (st_dev s2) 0%Z = nth i (t_data t) 0%Z /\
    nth (c_base c * c_sector c + t_start t + i) (st_dev s2) 0%Z =
    nth (c_base c * c_sector c + t_start t + i) (st_dev s) 0%Z.
Proof.
  intros c dev b0 tr s k t tr2 s2 HS Hb Hlen Hr Hk Hfl Hr2.
  pose proof (flushed_stable_run c tr2 _ _ _ _ Hr2 Hk Hfl) as Hk2.
  split; [exact Hk2|]. intros i Hi.
  assert (Hr12 : run c (init_state dev b0) (tr ++ tr2) = Some s2) by (rewrite run_app, Hr; exact Hr2).
  pose proof (completed_writer_data_on_device_proof c dev b0 _ _ k t HS Hb Hlen Hr12 Hk2 Hfl i Hi) as E2.
  pose proof (completed_writer_data_on_device_proof c dev b0 _ _ k t HS Hb Hlen Hr Hk Hfl i Hi) as E1.
  split; [exact E2|congruence].
Qed.

(** a flushed writer has been given all its bytes *)
Theorem flushed_writer_has_all_bytes_proof : forall c dev b0 tr s k t,
  run c (init_state dev b0) tr = Some s ->
  nth_error (st_threads s) k = Some t -> t_status t = Flushed -> length (t_data t) = t_size t.
Proof.
  intros c dev b0 tr s k t Hr Hk Hfl.
  assert (H0 : flinv (init_state dev b0)) by constructor.
  exact (Forall_nth_error _ _ _ _ (flinv_run c tr _ _ H0 Hr) Hk Hfl).
Qed.
