(** C10 — shape of one step of the hierarchical store model as far as the
    thread table and the output are concerned (what the monitors' own
    bookkeeping by thread id has to be related to).  Proofs only. *)
From Coq Require Import List NArith ZArith Bool Arith Lia ZifyN ZifyNat ZifyBool.
From BBS Require Import Store.Model Store.P08Frame Store.P08Step Store.P08Quarantine Store.P10Inv.
Import ListNotations.
Open Scope N_scope.

#[local] Arguments completed : simpl never.
#[local] Arguments step : simpl never.

Definition op_tid (e : op) : option nat :=
  match e with
  | OPutStart t _ _ | OPutChunk t _ | OPutEnd t _ | OGetOpen t _ _ | OGetConsume t
  | OGfcStart t _ _ _ | OGfcSlice t _ => Some t
  | _ => None
  end.

Definition T (s : state) (tid : nat) : option thread := thr_get (s_threads s) tid.
Definition put_of (t : option thread) : option (nat * nat) :=
  match t with
  | Some (TPut o i _ _) => Some (o, i)
  | Some (TPutExisting o i _) => Some (o, i)
  | _ => None
  end.
Definition is_get (t : option thread) : Prop :=
  match t with Some (TGet _ _ _ _ _) => True | _ => False end.
Definition resolves (w : world) (s : state) (o j : nat) : Prop :=
  exists k l, In k (lookup_keys w o j) /\ index_get s k = Some l.

Definition shape (w : world) (s : state) (e : op) (s' : state) (out : out) : Prop :=
  match out with
  | Bad => s' = s
  | Missing _ _ => s_threads s' = s_threads s /\ exists ds, e = OFindMissing ds
  | Parked =>
      exists tid t s1, op_tid e = Some tid /\ s_threads s1 = s_threads s /\ s' = thr_set s1 tid t /\
        match e with
        | OPutStart _ o i => T s tid = None /\ put_of (Some t) = Some (o, i)
        | OPutChunk _ _ => put_of (T s tid) <> None /\ put_of (Some t) = put_of (T s tid)
        | OGetOpen _ o j => T s tid = None /\ resolves w s o j /\ is_get (Some t)
        | OGfcStart _ p j _ => T s tid = None /\ ((resolves w s p j /\ is_get (Some t)) \/ exists c, t = TGfcErr c)
        | _ => False
        end
  | Done c b =>
      match e with
      | OPutStart _ _ _ | OGetOpen _ _ _ | OCorrupt _ _ _ => s_threads s' = s_threads s
      | OPutChunk tid _ =>
          exists s1, s_threads s1 = s_threads s /\ s' = thr_rm s1 tid /\ put_of (T s tid) <> None /\ c <> 0%Z
      | OPutEnd tid _ =>
          exists s1, s_threads s1 = s_threads s /\ s' = thr_rm s1 tid /\
            exists oi, put_of (T s tid) = Some oi /\ (c = 0%Z -> completed w s e = [oi])
      | OGetConsume tid =>
          exists s1, s_threads s1 = s_threads s /\ s' = thr_rm s1 tid /\ is_get (T s tid)
      | OGfcSlice tid _ =>
          exists s1, s_threads s1 = s_threads s /\ s' = thr_rm s1 tid /\
            (is_get (T s tid) \/ (T s tid = Some (TGfcErr c) /\ c <> 0%Z))
      | _ => False
      end
  end.

Lemma completed_put_end w s tid err s' b oi :
  step w s (OPutEnd tid err) = (s', Done 0%Z b) -> put_of (T s tid) = Some oi ->
  completed w s (OPutEnd tid err) = [oi].
Proof.
  intros Hs Hp. unfold completed. rewrite Hs. cbn [snd]. unfold T in Hp.
  destruct (thr_get (s_threads s) tid) as [[o i wr acc|o i acc| | |]|]; cbn in Hp; inv Hp; reflexivity.
Qed.

Lemma step_shape w s e s' out : c_hier (w_cfg w) = true -> hinv s -> step w s e = (s', out) ->
  shape w s e s' out.
Proof.
  intros Hh Hi Hstep. pose proof Hstep as Hstep0. revert Hstep. unfold step.
  destruct (may_take_refresh_lock e && refresh_lock_held s); [iinv; reflexivity|].
  destruct (is_corrupt e && reader_open s); [iinv; reflexivity|].
  destruct e as [tid ob i|tid data|tid err|tid ob i|tid|ds|tid p i ch|tid slices|rg off len].
  - (* OPutStart *)
    destruct (thr_get (s_threads s) tid) eqn:Ht; [iinv; reflexivity|].
    destruct (put_start w s ob i) as [[t|e] s1] eqn:E; apply put_start_nwf in E as [[N _ _ _] Hr]; iinv; cbn.
    + exists tid, t, s1. repeat split; try assumption.
      destruct Hr as [(wr & -> & _)| ->]; reflexivity.
    + assumption.
  - (* OPutChunk *)
    destruct (thr_get (s_threads s) tid) as [[o i wr acc|o i acc| | |]|] eqn:Ht; try solve [iinv; reflexivity].
    + destruct (wr_size wr <? _).
      * destruct (finalize (w_cfg w) s wr false) as [r s1] eqn:F. apply finalize_xfr in F as [].
        iinv. cbn. exists s1. unfold T. rewrite Ht. repeat split; try assumption; discriminate.
      * iinv. cbn. eexists tid, _, _. split; [reflexivity|]. split; [|split; [reflexivity|]].
        -- apply (P08Frame.xf_threads _ _ (write_block_xfr _ _ _ _)).
        -- unfold T. rewrite Ht. split; [discriminate|reflexivity].
    + destruct (osize w o <? _); iinv; cbn.
      * exists s. unfold T. rewrite Ht. repeat split; discriminate.
      * eexists tid, _, s. unfold T. rewrite Ht. repeat split; discriminate.
  - (* OPutEnd *)
    destruct (thr_get (s_threads s) tid) as [[o i wr acc|o i acc| | |]|] eqn:Ht; try solve [iinv; reflexivity].
    + destruct (finalize (w_cfg w) s wr _) as [[l|e] s1] eqn:F; apply finalize_xfr in F as []; iinv; cbn.
      * eexists. split; [|split; [reflexivity|]].
        -- rewrite (if_threads _ _ (index_put_all_ifr s1 (finalize_keys w o i) l)). assumption.
        -- exists (o, i). unfold T. rewrite Ht. split; [reflexivity|]. intros _.
           eapply completed_put_end; [exact Hstep0|]. unfold T. rewrite Ht. reflexivity.
      * exists s1. split; [assumption|split; [reflexivity|]].
        exists (o, i). unfold T. rewrite Ht. split; [reflexivity|]. intros Hc.
        eapply completed_put_end; [rewrite Hc in Hstep0; exact Hstep0|]. unfold T. rewrite Ht. reflexivity.
    + assert (forall c s1, s_threads s1 = s_threads s -> step w s (OPutEnd tid err) = (thr_rm s1 tid, Done c []) ->
              exists s2, s_threads s2 = s_threads s /\ thr_rm s1 tid = thr_rm s2 tid /\
                exists oi, put_of (T s tid) = Some oi /\ (c = 0%Z -> completed w s (OPutEnd tid err) = [oi])) as Hx.
      { intros c s1 Hs1 Hst. exists s1. split; [assumption|split; [reflexivity|]].
        exists (o, i). unfold T. rewrite Ht. split; [reflexivity|]. intros ->.
        eapply completed_put_end; [exact Hst|]. unfold T. rewrite Ht. reflexivity. }
      destruct (negb (Z.eqb err 0)); [iinv; cbn; apply Hx; [reflexivity|assumption]|].
      destruct (negb (bytes_eqb acc (content w o))); [iinv; cbn; apply Hx; [reflexivity|assumption]|].
      destruct (index_get s (canonical_key o)) as [l|]; iinv; cbn; (apply Hx; [reflexivity|assumption]).
  - (* OGetOpen *)
    destruct (thr_get (s_threads s) tid) eqn:Ht; [iinv; reflexivity|].
    destruct (get_open w s ob i) as [[t|e] s1] eqn:E; pose proof (get_open_nwf _ _ _ _ _ _ E) as [[N _ _ _] _]; iinv; cbn.
    + apply get_open_ok in E as (uid & l & r & fk & -> & (k & l0 & Hk & Hg) & _ & _).
      eexists tid, _, s1. split; [reflexivity|split; [assumption|split; [reflexivity|]]].
      split; [assumption|split; [exists k, l0; auto|exact I]].
    + assumption.
  - (* OGetConsume *)
    destruct (thr_get (s_threads s) tid) as [[| |o uid l refresh fk| |]|] eqn:Ht; try solve [iinv; reflexivity].
    destruct (get_consume w s o uid l refresh fk) as [[code bytes] s1] eqn:E.
    apply get_consume_nwf in E as [N _ _ _]; [|apply thr_get_in, Hi in Ht; exact Ht]. iinv. cbn.
    exists s1. unfold T. rewrite Ht. repeat split; assumption.
  - (* OFindMissing *)
    destruct (find_missing w s ds) as [[m|e] s1] eqn:E; apply fm_phase2_nwf in E as [N _ _ _]; iinv; cbn; eauto.
  - (* OGfcStart *)
    destruct (thr_get (s_threads s) tid) eqn:Ht; [iinv; reflexivity|].
    rewrite Hh.
    destruct (get_open w s p i) as [[t|e] s1] eqn:E; pose proof (get_open_nwf _ _ _ _ _ _ E) as [[N _ _ _] _].
    + apply get_open_ok in E as (uid & l & r & fk & -> & (k & l0 & Hk & Hg) & _ & _). iinv. cbn.
      eexists tid, _, s1. split; [reflexivity|split; [assumption|split; [reflexivity|]]].
      split; [assumption|left; split; [exists k, l0; auto|exact I]].
    + iinv. cbn. eexists tid, _, s1. split; [reflexivity|split; [assumption|split; [reflexivity|]]].
      split; [assumption|right; eauto].
  - (* OGfcSlice *)
    destruct (thr_get (s_threads s) tid) as [[| |o uid l refresh fk|p i uid pl refresh pk|code]|] eqn:Ht;
      try solve [iinv; reflexivity].
    + destruct (get_consume w s o uid l refresh fk) as [[code bytes] s1] eqn:E.
      apply get_consume_nwf in E as [N _ _ _]; [|apply thr_get_in, Hi in Ht; exact Ht].
      destruct (Z.eqb code cOK); iinv; cbn; exists s1; unfold T; rewrite Ht; (split; [assumption|split; [reflexivity|left; exact I]]).
    + apply thr_get_in, Hi in Ht. destruct Ht.
    + pose proof (Hi _ _ (thr_get_in _ _ _ Ht)) as Hne. cbn in Hne.
      iinv. cbn. exists s. unfold T. rewrite Ht. split; [reflexivity|split; [reflexivity|right; split; [reflexivity|assumption]]].
  - (* OCorrupt *)
    dm; iinv; reflexivity.
Qed.

(** thread table lookups after thr_set / thr_rm *)
Lemma T_set_same s1 tid t : T (thr_set s1 tid t) tid = Some t.
Proof. unfold T. apply thr_get_set_same. Qed.
Lemma T_set_other s s1 tid t tid' : s_threads s1 = s_threads s -> tid' <> tid -> T (thr_set s1 tid t) tid' = T s tid'.
Proof.
  intros E Hne. unfold T. cbn. destruct (Nat.eqb tid tid') eqn:En; [apply Nat.eqb_eq in En; congruence|].
  rewrite thr_get_del_other by assumption. rewrite E. reflexivity.
Qed.
Lemma T_rm_same s1 tid : T (thr_rm s1 tid) tid = None.
Proof. unfold T. cbn. apply thr_get_del_same. Qed.
Lemma T_rm_other s s1 tid tid' : s_threads s1 = s_threads s -> tid' <> tid -> T (thr_rm s1 tid) tid' = T s tid'.
Proof. intros E Hne. unfold T. cbn. rewrite thr_get_del_other by assumption. rewrite E. reflexivity. Qed.
Lemma T_same s s' tid : s_threads s' = s_threads s -> T s' tid = T s tid.
Proof. unfold T. intros ->. reflexivity. Qed.
